/-
  C02 composition, per-stay split: the simulation of the worker choices (bpRecv, handover, broker, deliver, closeW).
-/
import SaramaVerif.Lemmas.C02splitRel

set_option linter.unusedSimpArgs false

namespace Lemmas.C02sys
open Model Model.Pipeline Model.BrokerProd Props.C02sys

/-- the worker's actions change the retries queue and the outcome lists only, and in the same way in both runs -/
theorem bpActs_same (as : List Action) : ∀ (s : Sys) (off : Nat),
    (bpActs s off as).next = s.next ∧ (bpActs s off as).dq = s.dq ∧ (bpActs s off as).pq = s.pq ∧
    (bpActs s off as).pp = s.pp ∧ (bpActs s off as).cur = s.cur ∧ (bpActs s off as).wk = s.wk ∧
    (bpActs s off as).ldr = s.ldr ∧ (bpActs s off as).log = s.log ∧ (bpActs s off as).crash = s.crash := by
  induction as with
  | nil => intro s off; exact ⟨rfl, rfl, rfl, rfl, rfl, rfl, rfl, rfl, rfl⟩
  | cons a r ih =>
    intro s off
    obtain ⟨h1, h2, h3, h4, h5, h6, h7, h8, h9⟩ := ih (bpAct s off a).1 (bpAct s off a).2
    have hb : (bpAct s off a).1.next = s.next ∧ (bpAct s off a).1.dq = s.dq ∧ (bpAct s off a).1.pq = s.pq ∧
        (bpAct s off a).1.pp = s.pp ∧ (bpAct s off a).1.cur = s.cur ∧ (bpAct s off a).1.wk = s.wk ∧
        (bpAct s off a).1.ldr = s.ldr ∧ (bpAct s off a).1.log = s.log ∧ (bpAct s off a).1.crash = s.crash := by
      cases a <;> exact ⟨rfl, rfl, rfl, rfl, rfl, rfl, rfl, rfl, rfl⟩
    obtain ⟨g1, g2, g3, g4, g5, g6, g7, g8, g9⟩ := hb
    exact ⟨h1.trans g1, h2.trans g2, h3.trans g3, h4.trans g4, h5.trans g5, h6.trans g6, h7.trans g7, h8.trans g8,
      h9.trans g9⟩

theorem bpActs_outs (as : List Action) : ∀ (s t : Sys) (off : Nat), s.ret = t.ret → s.succ = t.succ → s.errs = t.errs →
    (bpActs s off as).ret = (bpActs t off as).ret ∧ (bpActs s off as).succ = (bpActs t off as).succ ∧
    (bpActs s off as).errs = (bpActs t off as).errs := by
  induction as with
  | nil => intro s t off h1 h2 h3; exact ⟨h1, h2, h3⟩
  | cons a r ih =>
    intro s t off h1 h2 h3
    have hb : (bpAct s off a).1.ret = (bpAct t off a).1.ret ∧ (bpAct s off a).1.succ = (bpAct t off a).1.succ ∧
        (bpAct s off a).1.errs = (bpAct t off a).1.errs ∧ (bpAct s off a).2 = (bpAct t off a).2 := by
      cases a <;> simp [bpAct, h1, h2, h3]
    simp only [bpActs]
    rw [hb.2.2.2]
    exact ih _ _ _ hb.1 hb.2.1 hb.2.2.1

theorem rel_bp {seen : List Nat} {g : Ghost} {s t : Sys} (h : RelW seen g s t) {w a : Nat} {L : List Nat}
    (hg : g w = some (a, L)) :
    (s.wk w).bp = (t.wk a).bp ∧ (s.wk w).pend = (t.wk a).pend ∧ (s.wk w).inq = (t.wk a).inq ++ inqOf t L := by
  have := h.wk w; rw [hg] at this; rw [this]; exact ⟨rfl, rfl, rfl⟩

/-- a worker step that does not make the real worker move on to its next stay -/
theorem sim_bpRun {M : Nat} {seen : List Nat} {g : Ghost} {s t s' : Sys} (h : RelW seen g s t) {w a : Nat}
    {L : List Nat} (hg : g w = some (a, L)) (q' : List Tok) (pend' : Option (Pipeline.Verdict × Nat)) (off : Nat)
    (i : In) (hs : bpRun M s w (q' ++ inqOf t L) pend' off i = some s') (hact : L ≠ [] → q' ≠ [])
    (hdr : L = [] → q' = [] → t.cur ≠ some a → (step M (t.wk a).bp i).1 = {} ∧ pend' = none) :
    ∃ t', bpRun M t a q' pend' off i = some t' ∧ RelW seen g s' t' := by
  obtain ⟨hbp, _, _⟩ := rel_bp h hg
  simp only [bpRun, hbp] at hs
  split at hs
  · cases hs
  · rename_i hd
    simp only [Option.some.injEq] at hs
    refine ⟨bpActs { t with wk := setW t.wk a ⟨q', (step M (t.wk a).bp i).1, pend'⟩ } off (step M (t.wk a).bp i).2,
      by simp only [bpRun, hd, if_false], ?_⟩
    obtain ⟨a1, a2, a3, a4, a5, a6, a7, a8, a9⟩ := bpActs_same (step M (t.wk a).bp i).2
      { s with wk := setW s.wk w ⟨q' ++ inqOf t L, (step M (t.wk a).bp i).1, pend'⟩ } off
    obtain ⟨b1, b2, b3, b4, b5, b6, b7, b8, b9⟩ := bpActs_same (step M (t.wk a).bp i).2
      { t with wk := setW t.wk a ⟨q', (step M (t.wk a).bp i).1, pend'⟩ } off
    obtain ⟨o1, o2, o3⟩ := bpActs_outs (step M (t.wk a).bp i).2
      { s with wk := setW s.wk w ⟨q' ++ inqOf t L, (step M (t.wk a).bp i).1, pend'⟩ }
      { t with wk := setW t.wk a ⟨q', (step M (t.wk a).bp i).1, pend'⟩ } off h.ret h.succ h.errs
    rw [hs] at a1 a2 a3 a4 a5 a6 a7 a8 a9 o1 o2 o3
    exact relW_setAct h hg q' _ pend' a6 b6 a5 b5 hact hdr
      (by rw [a1, b1]; exact h.next) (by rw [a2, b2]; exact h.dq) (by rw [a3, b3]; exact h.pq)
      (by rw [a4, b4]; exact h.pp) o1 (by rw [a7, b7]; exact h.ldr) (by rw [a8, b8]; exact h.log) o2 o3
      (by rw [a9, b9]; exact h.crash)

theorem rel_of2 {M : Nat} {seen : List Nat} {g : Ghost} {s t s' t' : Sys} (hM : 1 ≤ M) (h : Rel M seen g s t)
    (c c' : Choice) (hl : lookupsOf c' = []) (hs : sysStep M s c = some s') (ht : sysStep M t c' = some t')
    (hr : RelW seen g s' t') : Rel M seen g s' t' := by
  have := chain_step hM c' (fun w hw => by rw [hl] at hw; cases hw) h.cinv ht
  rw [hl, List.append_nil] at this
  exact { toRelW := hr, cinv := this, p0 := p0Inv_step hM h.p0 hs }

/-- a real worker without stays is in its initial state: no step -/
theorem no_stay_disabled {M : Nat} {seen : List Nat} {g : Ghost} {s t s' : Sys} (h : RelW seen g s t) {w : Nat}
    (hg : g w = none) :
    (∀ ov, sysStep M s (.bpRecv w ov) ≠ some s') ∧ sysStep M s (.handover w) ≠ some s' ∧
    (∀ v, sysStep M s (.broker w v) ≠ some s') ∧ (∀ st, sysStep M s (.deliver w st) ≠ some s') := by
  have := h.wk w; rw [hg] at this
  exact default_disabled this

theorem sim_handover {M : Nat} {seen : List Nat} {g : Ghost} {s t s' : Sys} (hM : 1 ≤ M) (h : Rel M seen g s t)
    {w : Nat} (hs : sysStep M s (.handover w) = some s') :
    ∃ a t', sysStep M t (.handover a) = some t' ∧ Rel M seen g s' t' := by
  cases hg : g w with
  | none => exact absurd hs (no_stay_disabled h.toRelW hg).2.1
  | some x =>
    obtain ⟨a, L⟩ := x
    obtain ⟨hbp, hpend, hinq⟩ := rel_bp h.toRelW hg
    have hs0 := hs
    simp only [sysStep, hinq, hpend] at hs
    have hd := (bpRun_keep hs).2.2.2
    obtain ⟨t', ht', hr⟩ := sim_bpRun h.toRelW hg (t.wk a).inq (t.wk a).pend 0 .handover hs
      (h.actne w a L hg) (by
        intro hL hi hc
        subst hL
        obtain ⟨e1, _⟩ := h.drained w a hg hi hc
        rw [hbp, e1] at hd
        exact absurd (fresh_no_handover M) hd)
    exact ⟨a, t', by simpa [sysStep] using ht', rel_of2 hM h _ (.handover a) rfl hs0 (by simpa [sysStep] using ht') hr⟩

theorem sim_deliver {M : Nat} {seen : List Nat} {g : Ghost} {s t s' : Sys} (hM : 1 ≤ M) (h : Rel M seen g s t)
    {w : Nat} {still : Bool} (hs : sysStep M s (.deliver w still) = some s') :
    ∃ a t', sysStep M t (.deliver a still) = some t' ∧ Rel M seen g s' t' := by
  cases hg : g w with
  | none => exact absurd hs ((no_stay_disabled h.toRelW hg).2.2.2 still)
  | some x =>
    obtain ⟨a, L⟩ := x
    obtain ⟨hbp, hpend, hinq⟩ := rel_bp h.toRelW hg
    have hs0 := hs
    cases hp : (t.wk a).pend with
    | none => simp [sysStep, hpend, hp] at hs
    | some vb =>
      obtain ⟨v, base⟩ := vb
      simp only [sysStep, hpend, hp, hinq] at hs
      obtain ⟨t', ht', hr⟩ := sim_bpRun h.toRelW hg (t.wk a).inq none base (.resp v.toResp still) hs
        (h.actne w a L hg) (by
          intro hL hi hc
          subst hL
          obtain ⟨_, e2⟩ := h.drained w a hg hi hc
          rw [e2] at hp; cases hp)
      have : sysStep M t (.deliver a still) = some t' := by simp only [sysStep, hp]; exact ht'
      exact ⟨a, t', this, rel_of2 hM h _ (.deliver a still) rfl hs0 this hr⟩

theorem sim_broker {M : Nat} {seen : List Nat} {g : Ghost} {s t s' : Sys} (hM : 1 ≤ M) (h : Rel M seen g s t)
    {w : Nat} {v : Pipeline.Verdict} (hs : sysStep M s (.broker w v) = some s') :
    ∃ a t', sysStep M t (.broker a v) = some t' ∧ Rel M seen g s' t' := by
  cases hg : g w with
  | none => exact absurd hs ((no_stay_disabled h.toRelW hg).2.2.1 v)
  | some x =>
    obtain ⟨a, L⟩ := x
    obtain ⟨hbp, hpend, hinq⟩ := rel_bp h.toRelW hg
    have hbr : brokerOf a = brokerOf w := (h.ids w _ hg a (by simp [live])).2
    have hs0 := hs
    simp only [sysStep, hbp, hpend] at hs
    cases hsets : (t.wk a).bp.sets with
    | nil => simp [hsets] at hs
    | cons sent rest =>
      cases hp : (t.wk a).pend with
      | some vb => simp [hsets, hp] at hs
      | none =>
        simp only [hsets, hp] at hs
        split at hs
        · cases hs
        · rename_i hgd
          simp only [Option.some.injEq] at hs
          have hgd' : ¬((v.appends && !(brokerOf a == t.ldr)) = true) := by rw [hbr, ← h.ldr]; exact hgd
          have ht : sysStep M t (.broker a v) = some { t with
              log := if v.appends then t.log ++ dataIds sent else t.log,
              wk := setW t.wk a { t.wk a with pend := some (v, t.log.length) } } := by
            simp only [sysStep, hsets, hp, hgd', if_false]; simp
          refine ⟨a, _, ht, rel_of2 hM h _ (.broker a v) rfl hs0 ht ?_⟩
          rw [← hs]
          refine relW_setAct h.toRelW hg (t.wk a).inq (t.wk a).bp (some (v, t.log.length)) ?_ rfl rfl rfl
            (h.actne w a L hg) ?_ h.next h.dq h.pq h.pp h.ret h.ldr (by simp only; rw [h.log]) h.succ h.errs h.crash
          · simp only [hinq, hbp, h.log]
          · intro hL hi hc
            subst hL
            obtain ⟨e1, _⟩ := h.drained w a hg hi hc
            rw [e1] at hsets; cases hsets

/-- what the chain invariant says about a chain worker the partition producer is not bound to -/
theorem cinv_released {M : Nat} {seen : List Nat} {t : Sys} (h : CInv M seen t) (a : Nat) (ha : t.cur ≠ some a) :
    insideB (t.wk a).bp = [] ∧
    ((t.wk a).inq = [] ∨
      (BrokerProd.needsRetry (t.wk a).bp 0 = true ∧
        ∃ D k, (t.wk a).inq = D ++ [finTok k] ∧ (∀ x ∈ D, x.kind = .data) ∧ k < M)) := by
  obtain ⟨olds, v, hg, _, _⟩ := h
  by_cases ho : a ∈ olds
  · exact hg.conc.oldok a ho
  · have := hg.conc.fresh a ho ha
    rw [this]
    exact ⟨by simp [insideB, Props.C02bp.inside], Or.inl rfl⟩

theorem lastOf_nil (a : Nat) : lastOf (a, []) = a := rfl

theorem lastOf_ne {a : Nat} {L : List Nat} (hL : L ≠ []) (hnd : (live (a, L)).Nodup) : lastOf (a, L) ≠ a := by
  cases L with
  | nil => exact absurd rfl hL
  | cons b r =>
    simp only [live, List.nodup_cons] at hnd
    intro e
    have : lastOf (a, b :: r) ∈ b :: r := by
      simp only [lastOf]
      rw [List.getLast_cons (by simp)]
      exact List.getLast_mem _
    rw [e] at this
    exact hnd.1 this

theorem sim_closeW {M : Nat} {seen : List Nat} {g : Ghost} {s t s' : Sys} (hM : 1 ≤ M) (h : Rel M seen g s t)
    {w : Nat} (hs : sysStep M s (.closeW w) = some s') :
    ∃ a t', sysStep M t (.closeW a) = some t' ∧ Rel M seen g s' t' := by
  obtain ⟨hgd, hs'⟩ := closeW_spec hs
  obtain ⟨hc, hsyn, hcl, hcr, hsets, hbuf, hwait, hpend⟩ := canClose_facts hgd
  rcases h.cur with ⟨e, _⟩ | ⟨w', x, e1, hg, e3⟩
  · rw [hc] at e; cases e
  · rw [hc] at e1; cases e1
    obtain ⟨a, L⟩ := x
    obtain ⟨hbp, hpd, hinq⟩ := rel_bp h.toRelW hg
    have hL : L = [] := by
      cases hl : L with
      | nil => rfl
      | cons b r =>
        exfalso
        have hne : t.cur ≠ some a := by
          rw [e3]; intro e; exact lastOf_ne (by rw [hl]; simp) (h.nd w _ hg) (Option.some.inj e)
        have hai := h.actne w a L hg (by rw [hl]; simp)
        rcases (cinv_released h.cinv a hne).2 with e | ⟨hn, _⟩
        · exact hai e
        · rw [← hbp, needsRetry_iff, hcl, hcr] at hn; cases hn
    subst hL
    have hcur : t.cur = some a := e3
    have hinq' : (s.wk w).inq = (t.wk a).inq := by rw [hinq]; simp [inqOf]
    have hgd' : canClose t a = true := by
      simp only [canClose, hcur, ← hbp, ← hpd, ← hinq', hsyn, hcl, hcr, hsets, hbuf, hwait, hpend]; simp
    have ht : sysStep M t (.closeW a) =
        some { t with wk := setW t.wk a ⟨(t.wk a).inq, closeBp (t.wk a).bp, none⟩ } := by
      simp only [sysStep, hgd', if_true]
    refine ⟨a, _, ht, rel_of2 hM h _ (.closeW a) rfl hs ht ?_⟩
    rw [hs']
    refine relW_setAct h.toRelW hg (t.wk a).inq (closeBp (t.wk a).bp) none ?_ rfl rfl rfl (fun hne => absurd rfl hne)
      (fun _ _ hne => absurd hcur hne) h.next h.dq h.pq h.pp h.ret h.ldr h.log h.succ h.errs h.crash
    simp only [hinq, hbp]

def setG (g : Ghost) (w : Nat) (v : Option (Nat × List Nat)) : Ghost := fun k => if k = w then v else g k

theorem lastOf_cons (a b : Nat) (L : List Nat) : lastOf (a, b :: L) = lastOf (b, L) := by
  simp only [lastOf]; rw [List.getLast_cons (by simp)]

/-- the real worker takes the last token of the stay it is serving - its chaser - and moves on to the next stay,
    as a fresh worker -/
theorem relW_switch {seen : List Nat} {g : Ghost} {s t s' t' : Sys} (h : RelW seen g s t) {w a b : Nat} {L : List Nat}
    (hg : g w = some (a, b :: L))
    (hs' : s'.wk = setW s.wk w ⟨inqOf t (b :: L), {}, none⟩) (ht' : t'.wk = setW t.wk a ⟨[], {}, none⟩)
    (hc : s'.cur = s.cur) (hc' : t'.cur = t.cur)
    (e1 : s'.next = t'.next) (e2 : s'.dq = t'.dq) (e3 : s'.pq = t'.pq) (e4 : s'.pp = t'.pp) (e5 : s'.ret = t'.ret)
    (e6 : s'.ldr = t'.ldr) (e7 : s'.log = t'.log) (e8 : s'.succ = t'.succ) (e9 : s'.errs = t'.errs)
    (e10 : s'.crash = t'.crash) : RelW seen (setG g w (some (b, L))) s' t' := by
  have hnd := h.nd w _ hg
  simp only [live, List.nodup_cons, List.mem_cons, not_or] at hnd
  obtain ⟨⟨hab, haL⟩, hbL, hLnd⟩ := hnd
  have hother : ∀ w' x', g w' = some x' → w' ≠ w → a ∉ live x' := by
    intro w' x' hg' hne hm
    exact h.disj w w' _ x' hg hg' (fun e => hne e.symm) a (by simp [live]) hm
  have hgw : setG g w (some (b, L)) w = some (b, L) := by simp [setG]
  have hgo : ∀ w', w' ≠ w → setG g w (some (b, L)) w' = g w' := fun w' hw => by simp [setG, hw]
  have hlb := h.later w a (b :: L) hg
  have tb : t'.wk b = t.wk b := by rw [ht']; simp [setW, Ne.symm hab]
  refine { next := e1, dq := e2, pq := e3, pp := e4, ret := e5, ldr := e6, log := e7, succ := e8, errs := e9,
           crash := e10, wk := ?_, cur := ?_, later := ?_, actne := ?_, ids := ?_, disj := ?_, nd := ?_, idn := h.idn,
           blank := ?_, drained := ?_ }
  · intro w'
    by_cases hw : w' = w
    · subst hw
      rw [hs', hgw]
      simp only [setW, if_true, mergeW, tb, inqOf_setW_not t t.wk rfl a _ L haL t' ht']
      rw [(hlb b (by simp)).2.1, (hlb b (by simp)).2.2]
      simp [inqOf]
    · rw [hs', hgo w' hw]; simp only [setW, hw, if_false]
      rw [h.wk w']
      cases hg' : g w' with
      | none => rfl
      | some x' => exact (mergeW_setW_other ht' x' (hother w' x' hg' hw)).symm
  · rw [hc, hc']
    rcases h.cur with e | ⟨w', x, e1', e2', e3'⟩
    · exact Or.inl e
    · by_cases hw : w' = w
      · subst hw; rw [hg] at e2'; cases e2'
        exact Or.inr ⟨w', (b, L), e1', hgw, by rw [e3', lastOf_cons]⟩
      · exact Or.inr ⟨w', x, e1', by rw [hgo w' hw]; exact e2', e3'⟩
  · intro w' a' L' hg' id hid
    have hne : id ≠ a := by
      intro e; subst e
      by_cases hw : w' = w
      · subst hw; rw [hgw] at hg'; cases hg'; exact haL hid
      · rw [hgo w' hw] at hg'; exact hother w' _ hg' hw (by simp [live, hid])
    rw [ht']; simp only [setW, hne, if_false]
    by_cases hw : w' = w
    · subst hw; rw [hgw] at hg'; cases hg'; exact hlb id (List.mem_cons_of_mem _ hid)
    · rw [hgo w' hw] at hg'; exact h.later w' a' L' hg' id hid
  · intro w' a' L' hg' hl
    by_cases hw : w' = w
    · subst hw; rw [hgw] at hg'; cases hg'; rw [tb]; exact (hlb b (by simp)).1
    · rw [hgo w' hw] at hg'
      have hne : a' ≠ a := fun e => hother w' _ hg' hw (by simp [live, e])
      rw [ht']; simp only [setW, hne, if_false]; exact h.actne w' a' L' hg' hl
  · intro w' x hg' id hid
    by_cases hw : w' = w
    · subst hw; rw [hgw] at hg'; cases hg'
      exact h.ids w' _ hg id (by simp only [live, List.mem_cons] at hid ⊢; exact Or.inr hid)
    · rw [hgo w' hw] at hg'; exact h.ids w' x hg' id hid
  · intro w1 w2 x1 x2 h1 h2 hne id hid
    have sub : ∀ y, y ∈ live (b, L) → y ∈ live (a, b :: L) := fun y hy => by
      simp only [live, List.mem_cons] at hy ⊢; exact Or.inr hy
    by_cases hw1 : w1 = w
    · subst hw1; rw [hgw] at h1; cases h1
      rw [hgo w2 (fun e => hne e.symm)] at h2
      exact h.disj w1 w2 _ x2 hg h2 hne id (sub id hid)
    · rw [hgo w1 hw1] at h1
      by_cases hw2 : w2 = w
      · subst hw2; rw [hgw] at h2; cases h2
        intro hm; exact h.disj w1 w2 x1 _ h1 hg hne id hid (sub id hm)
      · rw [hgo w2 hw2] at h2; exact h.disj w1 w2 x1 x2 h1 h2 hne id hid
  · intro w' x hg'
    by_cases hw : w' = w
    · subst hw; rw [hgw] at hg'; cases hg'
      simp only [live, List.nodup_cons]; exact ⟨hbL, hLnd⟩
    · rw [hgo w' hw] at hg'; exact h.nd w' x hg'
  · intro id hid
    have hne : id ≠ a := fun e => hid (e ▸ (h.ids w _ hg a (by simp [live])).1)
    rw [ht']; simp only [setW, hne, if_false]; exact h.blank id hid
  · intro w' a' hg' hi hcc
    rw [hc'] at hcc
    by_cases hw : w' = w
    · subst hw; rw [hgw] at hg'; cases hg'
      rw [tb] at hi; exact absurd hi (hlb b (by simp)).1
    · rw [hgo w' hw] at hg'
      have hne : a' ≠ a := fun e => hother w' _ hg' hw (by simp [live, e])
      rw [ht'] at hi ⊢; simp only [setW, hne, if_false] at hi ⊢
      exact h.drained w' a' hg' hi hcc

theorem fresh_eq {k : Worker} (hf : freshAfter k = true) (hcr : ∀ p, p ≠ 0 → k.bp.cr p = false) :
    k.bp = {} ∧ k.pend = none := by
  simp only [freshAfter, Bool.and_eq_true, Bool.not_eq_true', List.isEmpty_iff, Option.isNone_iff_eq_none] at hf
  obtain ⟨⟨⟨⟨⟨⟨h1, h2⟩, h3⟩, h4⟩, h5⟩, h6⟩, h7⟩ := hf
  refine ⟨?_, h7⟩
  cases hb : k.bp with
  | mk closing cr buffer sets wait stale =>
    rw [hb] at h1 h2 h3 h4 h5 h6 hcr
    simp only at h1 h2 h3 h4 h5 h6 hcr
    subst h1 h2 h4 h5 h6
    have : cr = fun _ => false := by
      funext p
      by_cases hp : p = 0
      · subst hp; exact h3
      · exact hcr p hp
    subst this
    rfl

theorem single_of_append {α : Type} {D : List α} {x y : α} (h : [x] = D ++ [y]) : D = [] ∧ x = y := by
  cases D with
  | nil => simp at h; exact ⟨rfl, h⟩
  | cons d r =>
    have := congrArg List.length h
    simp at this

/-- what the real worker is after taking the last token of a stay that the partition producer has left -/
theorem last_token_fresh {M : Nat} {seen : List Nat} {g : Ghost} {s t s' : Sys} (h : Rel M seen g s t) (hM : 1 ≤ M)
    {w a : Nat} {L : List Nat} (hg : g w = some (a, L)) {x : Tok} {ov : Bool} (hia : (t.wk a).inq = [x])
    (hna : t.cur ≠ some a) (hs : sysStep M s (.bpRecv w ov) = some s')
    (hok : ∀ y r, (s.wk w).inq = y :: r → y.kind = .fin → freshAfter (s'.wk w) = true) :
    (s'.wk w).bp = {} ∧ (s'.wk w).pend = none := by
  obtain ⟨_, _, hinq⟩ := rel_bp h.toRelW hg
  have hx : x.kind = .fin := by
    rcases (cinv_released h.cinv a hna).2 with e | ⟨_, D, k, e, _, _⟩
    · rw [hia] at e; cases e
    · rw [hia] at e
      obtain ⟨_, rfl⟩ := single_of_append e
      rfl
  have hf := hok x (inqOf t L) (by rw [hinq, hia]; rfl) hx
  exact fresh_eq hf ((p0Inv_step hM h.p0 hs).cr w)

theorem sim_bpRecv {M : Nat} {seen : List Nat} {g : Ghost} {s t s' : Sys} (hM : 1 ≤ M) (h : Rel M seen g s t)
    {w : Nat} {ov : Bool} (hs : sysStep M s (.bpRecv w ov) = some s')
    (hok : ∀ y r, (s.wk w).inq = y :: r → y.kind = .fin → freshAfter (s'.wk w) = true) :
    ∃ a g' t', sysStep M t (.bpRecv a ov) = some t' ∧ Rel M seen g' s' t' := by
  cases hg : g w with
  | none => exact absurd hs ((no_stay_disabled h.toRelW hg).1 ov)
  | some xx =>
    obtain ⟨a, L⟩ := xx
    obtain ⟨hbp, hpend, hinq⟩ := rel_bp h.toRelW hg
    have hs0 := hs
    cases hia : (t.wk a).inq with
    | nil =>
      have hL : L = [] := by
        cases hl : L with
        | nil => rfl
        | cons b r => exact absurd hia (h.actne w a L hg (by rw [hl]; simp))
      subst hL
      simp [sysStep, hinq, hia, inqOf] at hs
    | cons x ra =>
      have hinq' : (s.wk w).inq = x :: (ra ++ inqOf t L) := by rw [hinq, hia]; rfl
      simp only [sysStep, hinq', hpend] at hs
      have hkeep := bpRun_keep hs
      by_cases hsw : ra = [] ∧ L ≠ []
      · obtain ⟨hra, hLne⟩ := hsw
        subst hra
        cases hl : L with
        | nil => exact absurd hl hLne
        | cons b L' =>
          subst hl
          have hna : t.cur ≠ some a := by
            rcases h.cur with ⟨_, e⟩ | ⟨w', x', _, e2, e3⟩
            · rw [e]; simp
            · rw [e3]; intro e
              by_cases hw : w' = w
              · subst hw; rw [hg] at e2; cases e2
                exact lastOf_ne (by simp) (h.nd w' _ hg) (Option.some.inj e)
              · exact h.disj w' w x' _ e2 hg hw a (by
                  rw [← Option.some.inj e]; simp only [lastOf, live]; exact List.getLast_mem _) (by simp [live])
          obtain ⟨f1, f2⟩ := last_token_fresh h hM hg hia hna hs0 hok
          rw [hkeep.1] at f1 f2
          simp only [setW, if_true] at f1 f2
          -- the chain worker `a` takes its chaser
          have hd := hkeep.2.2.2
          rw [hbp] at hd f1
          have ht : sysStep M t (.bpRecv a ov) = some (bpActs { t with wk := setW t.wk a ⟨[], {}, none⟩ } 0
              (BrokerProd.step M (t.wk a).bp (.recv x ov)).2) := by
            simp only [sysStep, hia, bpRun, hd, if_false, f1, f2]
          refine ⟨a, setG g w (some (b, L')), _, ht, ?_⟩
          have hcinv := chain_step hM (.bpRecv a ov) (fun w hw => by simp [lookupsOf] at hw) h.cinv ht
          simp only [lookupsOf, List.append_nil] at hcinv
          refine { toRelW := ?_, cinv := hcinv, p0 := p0Inv_step hM h.p0 hs0 }
          simp only [bpRun, hbp, hd, if_false, Option.some.injEq, f1, f2] at hs
          obtain ⟨a1, a2, a3, a4, a5, a6, a7, a8, a9⟩ := bpActs_same (BrokerProd.step M (t.wk a).bp (.recv x ov)).2
            { s with wk := setW s.wk w ⟨[] ++ inqOf t (b :: L'), {}, none⟩ } 0
          obtain ⟨b1, b2, b3, b4, b5, b6, b7, b8, b9⟩ := bpActs_same (BrokerProd.step M (t.wk a).bp (.recv x ov)).2
            { t with wk := setW t.wk a ⟨[], {}, none⟩ } 0
          obtain ⟨o1, o2, o3⟩ := bpActs_outs (BrokerProd.step M (t.wk a).bp (.recv x ov)).2
            { s with wk := setW s.wk w ⟨[] ++ inqOf t (b :: L'), {}, none⟩ }
            { t with wk := setW t.wk a ⟨[], {}, none⟩ } 0 h.ret h.succ h.errs
          rw [hs] at a1 a2 a3 a4 a5 a6 a7 a8 a9 o1 o2 o3
          exact relW_switch h.toRelW hg (by rw [a6]; simp) b6 a5 b5
            (by rw [a1, b1]; exact h.next) (by rw [a2, b2]; exact h.dq) (by rw [a3, b3]; exact h.pq)
            (by rw [a4, b4]; exact h.pp) o1 (by rw [a7, b7]; exact h.ldr) (by rw [a8, b8]; exact h.log) o2 o3
            (by rw [a9, b9]; exact h.crash)
      · obtain ⟨t', ht', hr⟩ := sim_bpRun h.toRelW hg ra (t.wk a).pend 0 (.recv x ov) hs
          (fun hl hra => hsw ⟨hra, hl⟩) (by
            intro hL hra hna
            subst hL; subst hra
            obtain ⟨f1, f2⟩ := last_token_fresh h hM hg hia hna hs0 hok
            rw [hkeep.1] at f1 f2
            simp only [setW, if_true] at f1 f2
            rw [hbp] at f1
            exact ⟨f1, f2⟩)
        have ht : sysStep M t (.bpRecv a ov) = some t' := by simp only [sysStep, hia]; exact ht'
        have hcinv := chain_step hM (.bpRecv a ov) (fun w hw => by simp [lookupsOf] at hw) h.cinv ht
        simp only [lookupsOf, List.append_nil] at hcinv
        exact ⟨a, g, t', ht, { toRelW := hr, cinv := hcinv, p0 := p0Inv_step hM h.p0 hs0 }⟩

end Lemmas.C02sys
