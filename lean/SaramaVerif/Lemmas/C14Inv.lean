import SaramaVerif.Model.BrokerConn
/-
  C14 helper development, part 1: inversion lemmas – what a successful transition of the broker-connection
  model looks like, event by event.  (Core Lean only.)
-/
namespace Lemmas.C14
open Model.BrokerConn

variable {s s' : State}

theorem sendBegin_inv {c hv : Nat} {ex : Bool} (h : stepSendBegin s c hv ex = .ok s') :
    s.holder = .free ∧
    ((s.connNil = true ∧ s' = { s with early := s.early ++ [(c, some .notConnected)] }) ∨
     (s.connNil = false ∧ s' = { s with holder := .sending c hv ex })) := by
  unfold stepSendBegin at h
  split at h
  · split at h
    · injection h with h
      exact ⟨‹_›, .inl ⟨‹_›, h.symm⟩⟩
    · injection h with h
      exact ⟨‹_›, .inr ⟨by simp_all, h.symm⟩⟩
  · cases h

theorem write_inv {c : Nat} (h : stepWrite s c = .ok s') :
    ∃ hv ex, s.holder = .sending c hv ex ∧
    ((ex = true ∧ (s.cfg.reserve = true → s.queue.length + curCount s < s.cfg.maxOpen) ∧
        s' = { s with wire := s.wire ++ [(⟨c, s.nextCid, hv⟩, true)], nextCid := s.nextCid + 1,
                      holder := .written ⟨c, s.nextCid, hv⟩ }) ∨
     (ex = false ∧
        s' = { s with wire := s.wire ++ [(⟨c, s.nextCid, hv⟩, false)], nextCid := s.nextCid + 1,
                      holder := .free, early := s.early ++ [(c, none)] })) := by
  unfold stepWrite at h
  split at h
  · rename_i c' hv ex hh
    split at h
    · cases h
    · have hc : c' = c := by simp_all
      subst hc
      split at h
      · split at h
        · cases h
        · injection h with h
          refine ⟨hv, ex, hh, .inl ⟨‹_›, ?_, h.symm⟩⟩
          intro hr
          rename_i hg
          simp only [hr, true_and, Decidable.not_not] at hg
          exact hg
      · injection h with h
        exact ⟨hv, ex, hh, .inr ⟨by simp_all, h.symm⟩⟩
  · cases h

theorem writeFail_inv {c : Nat} (h : stepWriteFail s c = .ok s') :
    ∃ hv ex, s.holder = .sending c hv ex ∧
      s' = { s with holder := .free, early := s.early ++ [(c, some .sendFailed)] } := by
  unfold stepWriteFail at h
  split at h
  · rename_i c' hv ex hh
    split at h
    · cases h
    · have hc : c' = c := by simp_all
      subst hc
      injection h with h
      exact ⟨hv, ex, hh, h.symm⟩
  · cases h

theorem enqueue_inv {c : Nat} (h : stepEnqueue s c = .ok s') :
    ∃ p, s.holder = .written p ∧ p.call = c ∧
      (s.queue.length + 1 < s.cfg.maxOpen ∨ (s.queue = [] ∧ s.cur = none)) ∧
      s' = { s with queue := s.queue ++ [p], enq := s.enq ++ [p], holder := .free } := by
  unfold stepEnqueue at h
  split at h
  · rename_i p hp
    split at h
    · cases h
    · split at h
      · injection h with h
        exact ⟨p, hp, by simp_all, ‹_›, h.symm⟩
      · cases h
  · cases h

theorem recvDeq_inv (h : stepRecvDeq s = .ok s') :
    s.recvExited = false ∧ s.cur = none ∧ ∃ p rest, s.queue = p :: rest ∧
      ((∃ e, s.dead = some e ∧ s' = { s with queue := rest, done := s.done ++ [⟨p, .failed e, []⟩] }) ∨
       (s.dead = none ∧ s' = { s with queue := rest, cur := some (p, .header) })) := by
  unfold stepRecvDeq at h
  split at h
  · cases h
  · split at h
    · cases h
    · split at h
      · cases h
      · split at h
        · injection h with h
          exact ⟨by simp_all, ‹_›, _, _, ‹_›, .inl ⟨_, ‹_›, h.symm⟩⟩
        · injection h with h
          exact ⟨by simp_all, ‹_›, _, _, ‹_›, .inr ⟨‹_›, h.symm⟩⟩

/-- the state after the header bytes were taken from the input buffer -/
def afterTake (s : State) (n : Nat) : State :=
  { s with inbuf := s.inbuf.drop n, consumed := s.consumed ++ s.inbuf.take n }

theorem recvHeader_inv (h : stepRecvHeader s = .ok s') :
    ∃ p, s.cur = some (p, .header) ∧ headerLength p.hv ≤ s.inbuf.length ∧
      ((∃ e, (decodeHeader s.cfg.maxResp p.hv (s.inbuf.take (headerLength p.hv)) = .bad e ∨
              (e = .cidMismatch ∧ ∃ len cid, decodeHeader s.cfg.maxResp p.hv (s.inbuf.take (headerLength p.hv)) = .ok len cid ∧ cid ≠ p.cid)) ∧
            s' = failCur (afterTake s (headerLength p.hv)) p (s.inbuf.take (headerLength p.hv)) e) ∨
       (∃ len, decodeHeader s.cfg.maxResp p.hv (s.inbuf.take (headerLength p.hv)) = .ok len p.cid ∧
            s' = { afterTake s (headerLength p.hv) with
                   cur := some (p, .body (s.inbuf.take (headerLength p.hv)) (bodyLength len (headerLength p.hv))) })) := by
  unfold stepRecvHeader at h
  split at h
  · rename_i p hp
    split at h
    · cases h
    · rename_i hlen
      have hlen' : headerLength p.hv ≤ s.inbuf.length := by omega
      split at h
      · rename_i e he
        injection h with h
        exact ⟨p, hp, hlen', .inl ⟨e, .inl he, h.symm⟩⟩
      · rename_i len cid he
        split at h
        · injection h with h
          exact ⟨p, hp, hlen', .inl ⟨.cidMismatch, .inr ⟨rfl, len, cid, he, ‹_›⟩, h.symm⟩⟩
        · rename_i hc
          have hc' : cid = p.cid := by simpa using hc
          subst hc'
          injection h with h
          exact ⟨p, hp, hlen', .inr ⟨len, he, h.symm⟩⟩
  · cases h

theorem recvBody_inv (h : stepRecvBody s = .ok s') :
    ∃ p hdr need, s.cur = some (p, .body hdr need) ∧ need ≤ s.inbuf.length ∧
      s' = { s with inbuf := s.inbuf.drop need, consumed := s.consumed ++ s.inbuf.take need, cur := none,
                    done := s.done ++ [⟨p, .delivered (s.inbuf.take need), hdr⟩] } := by
  unfold stepRecvBody at h
  split at h
  · rename_i p hdr need hp
    split at h
    · cases h
    · injection h with h
      exact ⟨p, hdr, need, hp, by omega, h.symm⟩
  · cases h

theorem recvEOF_inv (h : stepRecvEOF s = .ok s') :
    ∃ p ph, s.cur = some (p, ph) ∧ s.eof = true ∧ s.inbuf.length < needOf p ph ∧
      s' = failCur s p (hdrOf ph) .io := by
  unfold stepRecvEOF at h
  split at h
  · rename_i p ph hp
    split at h
    · cases h
    · split at h
      · cases h
      · injection h with h
        exact ⟨p, ph, hp, by simp_all, by omega, h.symm⟩
  · cases h

theorem recvTimeout_inv (h : stepRecvTimeout s = .ok s') :
    ∃ p ph, s.cur = some (p, ph) ∧ s.inbuf.length < needOf p ph ∧
      s' = failCur s p (hdrOf ph) .timeout := by
  unfold stepRecvTimeout at h
  split at h
  · rename_i p ph hp
    split at h
    · cases h
    · injection h with h
      exact ⟨p, ph, hp, by omega, h.symm⟩
  · cases h

theorem srvBytes_inv {bs : Bytes} (h : stepSrvBytes s bs = .ok s') :
    s.eof = false ∧ s' = { s with inbuf := s.inbuf ++ bs, sent := s.sent ++ bs } := by
  unfold stepSrvBytes at h
  split at h
  · cases h
  · injection h with h
    exact ⟨by simp_all, h.symm⟩

theorem srvClose_inv (h : stepSrvClose s = .ok s') :
    s.eof = false ∧ s' = { s with eof := true } := by
  unfold stepSrvClose at h
  split at h
  · cases h
  · injection h with h
    exact ⟨by simp_all, h.symm⟩

theorem closeBegin_inv (h : stepCloseBegin s = .ok s') :
    s.holder = .free ∧ s.connNil = false ∧ s' = { s with holder := .closing, chanClosed := true } := by
  unfold stepCloseBegin at h
  split at h
  · split at h
    · cases h
    · injection h with h
      exact ⟨‹_›, by simp_all, h.symm⟩
  · cases h

theorem recvExit_inv (h : stepRecvExit s = .ok s') :
    s.recvExited = false ∧ s.chanClosed = true ∧ s.cur = none ∧ s.queue = [] ∧
      s' = { s with recvExited := true } := by
  unfold stepRecvExit at h
  split at h
  · cases h
  · split at h
    · cases h
    · split at h
      · cases h
      · split at h
        · injection h with h
          exact ⟨by simp_all, by simp_all, ‹_›, ‹_›, h.symm⟩
        · cases h

theorem closeEnd_inv (h : stepCloseEnd s = .ok s') :
    s.holder = .closing ∧ s.recvExited = true ∧ s' = { s with holder := .free, connNil := true } := by
  unfold stepCloseEnd at h
  split at h
  · split at h
    · injection h with h
      exact ⟨‹_›, ‹_›, h.symm⟩
    · cases h
  · cases h

end Lemmas.C14
