import SaramaVerif.Lemmas.C08Sticky
/-
  Facts about the static environment of the sticky op model: `potOf`, `allParts`, consumers.
-/
namespace Model.Balance

/-- static well-formedness: the environment is the one `Plan` computes for the group -/
structure SWf (ms : Members) (ts : Topics) (env : SEnv) : Prop where
  pot_eq : env.pot = potOf ms ts
  parts_eq : env.parts = allParts ts
  ids : (ms.map (·.1)).Nodup
  tkeys : (AL.keys ts).Nodup
  pnodup : (allParts ts).Nodup
  reass : ∀ p, p ∈ env.reassignable → canPartitionParticipate env.pot p = true ∧ p ∈ env.parts

theorem keys_potOf (ms : Members) (ts : Topics) : AL.keys (potOf ms ts) = ms.map (·.1) := by
  unfold potOf AL.keys
  rw [List.map_map]; rfl

theorem mem_allParts {ts : Topics} (htk : (AL.keys ts).Nodup) (p : TP) :
    p ∈ allParts ts ↔ topicExists ts p.1 = true ∧ p.2 ∈ partsOf ts p.1 := by
  unfold allParts
  rw [List.mem_flatMap]
  constructor
  · rintro ⟨e, he, hp⟩
    rw [List.mem_map] at hp
    obtain ⟨x, hx, rfl⟩ := hp
    have : partsOf ts e.1 = e.2 := AL.get_of_mem_nodup htk (by cases e; exact he)
    exact ⟨AL.hasKey_iff.mpr (List.mem_map.mpr ⟨e, he, rfl⟩), by rw [this]; exact hx⟩
  · rintro ⟨h1, h2⟩
    have hk := AL.hasKey_iff.mp h1
    refine ⟨(p.1, AL.get ts p.1), AL.mem_of_mem_keys hk, ?_⟩
    rw [List.mem_map]
    exact ⟨p.2, h2, rfl⟩

theorem mem_potList (ts : Topics) (tl : List Topic) (p : TP) :
    p ∈ tl.flatMap (fun t => if topicExists ts t then (partsOf ts t).map (fun x => ((t, x) : TP)) else []) ↔
      p.1 ∈ tl ∧ topicExists ts p.1 = true ∧ p.2 ∈ partsOf ts p.1 := by
  rw [List.mem_flatMap]
  constructor
  · rintro ⟨t, ht, hp⟩
    by_cases hte : topicExists ts t = true
    · rw [if_pos hte, List.mem_map] at hp
      obtain ⟨x, hx, rfl⟩ := hp
      exact ⟨ht, hte, hx⟩
    · rw [if_neg hte] at hp; simp at hp
  · rintro ⟨h1, h2, h3⟩
    refine ⟨p.1, h1, ?_⟩
    rw [if_pos h2, List.mem_map]
    exact ⟨p.2, h3, rfl⟩

/-- who may take a partition: the members that list its topic, provided the partition exists -/
theorem mem_get_potOf {ms : Members} {ts : Topics} (hids : (ms.map (·.1)).Nodup) (htk : (AL.keys ts).Nodup)
    (m : Member) (p : TP) :
    p ∈ AL.get (potOf ms ts) m ↔ (∃ e, e ∈ ms ∧ e.1 = m ∧ p.1 ∈ e.2) ∧ p ∈ allParts ts := by
  have hnd : (AL.keys (potOf ms ts)).Nodup := by rw [keys_potOf]; exact hids
  constructor
  · intro h
    have hm : (m, AL.get (potOf ms ts) m) ∈ potOf ms ts := AL.get_mem h
    obtain ⟨e, he, heq⟩ := List.mem_map.mp hm
    injection heq with h1 h2
    rw [← h2, mem_potList] at h
    exact ⟨⟨e, he, h1, h.1⟩, (mem_allParts htk p).mpr ⟨h.2.1, h.2.2⟩⟩
  · rintro ⟨⟨e, he, hm, ht⟩, hp⟩
    have hmem : (e.1, e.2.flatMap (fun t => if topicExists ts t then (partsOf ts t).map (fun x => ((t, x) : TP)) else []))
        ∈ potOf ms ts := by
      unfold potOf; rw [List.mem_map]; exact ⟨e, he, rfl⟩
    have := AL.get_of_mem_nodup hnd hmem
    rw [← hm, this, mem_potList]
    have := (mem_allParts htk p).mp hp
    exact ⟨ht, this.1, this.2⟩

/-- the potential lists are closed under "same topic, existing partition" -/
theorem pot_topic_closed {ms : Members} {ts : Topics} {env : SEnv} (wf : SWf ms ts env) {m : Member} {p q : TP}
    (hp : p ∈ AL.get env.pot m) (ht : q.1 = p.1) (hq : q ∈ env.parts) : q ∈ AL.get env.pot m := by
  rw [wf.pot_eq] at hp ⊢
  rw [wf.parts_eq] at hq
  rw [mem_get_potOf wf.ids wf.tkeys] at hp ⊢
  obtain ⟨⟨e, he, hm, hte⟩, _⟩ := hp
  exact ⟨⟨e, he, hm, by rw [ht]; exact hte⟩, hq⟩

private theorem match_some {L l : List TP} (h : (match L with | [] => none | l => some l) = some l) : L = l := by
  cases L with
  | nil => cases h
  | cons a r => injection h

/-- admissible answers of `getTheActualPartitionToBeMoved` are the partition itself or a recorded movement of the
    same topic -/
theorem actualOK_cases {mv : Movements} {p q : TP} {old new : Member} (h : actualOK mv p q old new = true) :
    q = p ∨ (q.1 = p.1 ∧ ∃ e, e ∈ mv ∧ e.1 = q) := by
  unfold actualOK at h
  cases hc : actualCandidates mv p old new with
  | none => rw [hc] at h; simp only [beq_iff_eq] at h; exact Or.inl h
  | some l =>
    rw [hc] at h
    simp only at h
    right
    unfold actualCandidates at hc
    by_cases h1 : (!(mv.any (fun e => e.1.1 == p.1))) = true
    · rw [if_pos h1] at hc; cases hc
    · rw [if_neg h1] at hc
      simp only at hc
      have hL := match_some hc
      have hq := List.contains_iff_mem.mp h
      rw [← hL, List.mem_map] at hq
      obtain ⟨e, he, heq⟩ := hq
      rw [List.mem_filter] at he
      simp only [Bool.and_eq_true, beq_iff_eq] at he
      exact ⟨by rw [← heq]; exact he.2.1.1, e, he.1, heq⟩

end Model.Balance
