/-
  C02 composition, progress: ENABLEDNESS.  In every state of the safety invariant either a choice that moves a
  token (anything but `submit` / `moveLeader`) is enabled, or the system is quiet: all channels, workers and
  retry buffers are empty.
-/
import SaramaVerif.Lemmas.C02liveFin

set_option linter.unusedSimpArgs false

namespace Lemmas.C02sys
open Model Model.Pipeline Model.BrokerProd

def NoDis (l : List Action) : Prop := ∀ a ∈ l, a ≠ Action.disabled

theorem NoDis.append {a b : List Action} (ha : NoDis a) (hb : NoDis b) : NoDis (a ++ b) := by
  intro x hx; rcases List.mem_append.1 hx with h | h
  · exact ha x h
  · exact hb x h

theorem NoDis.ne {l : List Action} (h : NoDis l) : l ≠ [Action.disabled] := by
  intro e; subst e; exact h _ (List.mem_singleton.2 rfl) rfl

theorem noDis_nil : NoDis [] := fun _ h => by cases h

theorem noDis_map {α : Type} (l : List α) (f : α → Action) (hf : ∀ x, f x ≠ Action.disabled) : NoDis (l.map f) := by
  intro a ha; obtain ⟨x, _, rfl⟩ := List.mem_map.1 ha; exact hf x

theorem retryMsg_ne (M : Nat) (t : Tok) : retryMsg M t ≠ Action.disabled := by
  simp only [retryMsg]; split <;> simp

theorem noDis_retryMsgs (M : Nat) (l : List Tok) : NoDis (retryMsgs M l) := noDis_map _ _ (retryMsg_ne M)

theorem noDis_verdictActs (M : Nat) (v : BrokerProd.Verdict) (ts : List Tok) : NoDis (verdictActs M v ts) := by
  simp only [verdictActs]
  split
  · exact noDis_nil
  · cases v with
    | ok => exact noDis_map _ _ (by simp)
    | missing => exact noDis_map _ _ (by simp)
    | fatal =>
      refine NoDis.append ?_ (noDis_map _ _ (by simp))
      split
      · intro a ha; rw [List.mem_singleton.1 ha]; simp
      · exact noDis_nil
    | retriable =>
      simp only
      split
      · intro a ha
        rcases List.mem_cons.1 ha with e | e
        · rw [e]; simp
        · exact noDis_map _ _ (by simp) a e
      · exact noDis_nil

theorem noDis_loop1 (M : Nat) (v : Int → BrokerProd.Verdict) : ∀ (ps : List Int) (rem : List Tok),
    NoDis (loop1 M v ps rem) := by
  intro ps
  induction ps with
  | nil => intro rem; exact noDis_nil
  | cons p ps ih => intro rem; exact NoDis.append (noDis_verdictActs _ _ _) (ih _)

theorem noDis_loop2 (M : Nat) (v : Int → BrokerProd.Verdict) : ∀ (ps : List Int) (rem : List Tok) (s : St),
    NoDis (loop2 M v ps rem s).2 := by
  intro ps
  induction ps with
  | nil => intro rem s; exact noDis_nil
  | cons p ps ih =>
    intro rem s
    simp only [loop2]
    split
    · exact ih _ _
    · refine NoDis.append (NoDis.append (noDis_retryMsgs _ _) ?_) (ih _ _)
      intro a ha
      rcases List.mem_cons.1 ha with e | e
      · rw [e]; simp
      · exact noDis_retryMsgs _ _ a e

theorem noDis_handle (M : Nat) (s : St) (sent : List Tok) (r : Resp) : NoDis (handle M s sent r).2 := by
  cases r with
  | verdicts v o1 o2 =>
    simp only [handle]
    split
    · exact NoDis.append (noDis_loop1 _ _ _ _) (noDis_loop2 _ _ _ _ _)
    · exact noDis_loop1 _ _ _ _
  | encErr o => exact noDis_map _ _ (by simp)
  | connErr o1 o2 =>
    simp only [handle]
    intro a ha
    rcases List.mem_cons.1 ha with e | e
    · rw [e]; simp
    · rcases List.mem_cons.1 e with e | e
      · rw [e]; simp
      · exact NoDis.append (noDis_retryMsgs _ _) (noDis_retryMsgs _ _) a (by simpa using e)

theorem noDis_recheck (M : Nat) (s : St) (acts : List Action) (still : Bool) (h : NoDis acts) :
    NoDis (recheck M s acts still).2 := by
  simp only [recheck]
  split
  · exact h
  · split
    · exact NoDis.append h (fun a ha => by rw [List.mem_singleton.1 ha]; exact retryMsg_ne _ _)
    · split
      · exact h
      · exact NoDis.append h (fun a ha => by rw [List.mem_singleton.1 ha]; simp)

/-- a response can always be delivered to a worker whose bridge holds a set -/
theorem resp_enabled (M : Nat) (b : St) (r : Resp) (still : Bool) (h : b.sets ≠ []) :
    (step M b (.resp r still)).2 ≠ [Action.disabled] := by
  simp only [step, resp]
  split
  · rename_i he; exact absurd he h
  · exact (noDis_recheck _ _ _ _ (noDis_handle _ _ _ _)).ne

theorem recv_enabled (M : Nat) (b : St) (t : Tok) (ov : Bool) (hw : b.wait = none) :
    (step M b (.recv t ov)).2 ≠ [Action.disabled] := by
  simp only [step, recv, hw]
  split
  · rename_i h; simp at h
  · split
    · simp
    · split
      · simp
      · split
        · simp
        · split <;> simp

theorem handover_enabled (M : Nat) (b : St) (hs : b.sets = []) (h : b.wait ≠ none ∨ b.buffer ≠ []) :
    (step M b .handover).2 ≠ [Action.disabled] := by
  simp only [step, handover, hs]
  cases hw : b.wait with
  | some t => simp
  | none =>
    rcases h with h | h
    · exact absurd hw h
    · cases hb : b.buffer with
      | nil => exact absurd hb h
      | cons x r => simp

/-- the choices that move a token -/
def moves : Choice → Bool
  | .submit => false
  | .moveLeader _ => false
  | .closeW _ => false   -- no token moves: the worker only changes its mode
  | _ => true

def Enabled (M : Nat) (s : Sys) : Prop := ∃ c, moves c = true ∧ (sysStep M s c).isSome = true

/-- worker `w` has nothing to do -/
def IdleW (s : Sys) (w : Nat) : Prop :=
  (s.wk w).inq = [] ∧ (s.wk w).bp.buffer = [] ∧ (s.wk w).bp.wait = none ∧ (s.wk w).bp.sets = [] ∧
  (s.wk w).pend = none

theorem bpRun_isSome {M : Nat} {s : Sys} {w : Nat} {q : List Tok} {pend : Option (Pipeline.Verdict × Nat)}
    {off : Nat} {i : BrokerProd.In} (h : (BrokerProd.step M (s.wk w).bp i).2 ≠ [.disabled]) :
    (bpRun M s w q pend off i).isSome = true := by
  simp [bpRun, h]

/-- a worker that is not idle has an enabled step -/
theorem worker_enabled (M : Nat) (s : Sys) (w : Nat)
    (hpend : ∀ vd base, (s.wk w).pend = some (vd, base) → (s.wk w).bp.sets ≠ []) (h : ¬ IdleW s w) :
    Enabled M s := by
  cases hp : (s.wk w).pend with
  | some vb =>
    obtain ⟨v, base⟩ := vb
    refine ⟨.deliver w false, rfl, ?_⟩
    simp only [sysStep, hp]
    exact bpRun_isSome (resp_enabled _ _ _ _ (hpend v base hp))
  | none =>
    cases hs : (s.wk w).bp.sets with
    | cons sent rest =>
      refine ⟨.broker w .fatal, rfl, ?_⟩
      simp [sysStep, hp, hs, Verdict.appends]
    | nil =>
      cases hw : (s.wk w).bp.wait with
      | some t =>
        refine ⟨.handover w, rfl, ?_⟩
        simp only [sysStep]
        exact bpRun_isSome (handover_enabled _ _ hs (Or.inl (by simp [hw])))
      | none =>
        cases hq : (s.wk w).inq with
        | cons t r =>
          refine ⟨.bpRecv w false, rfl, ?_⟩
          simp only [sysStep, hq]
          exact bpRun_isSome (recv_enabled _ _ _ _ hw)
        | nil =>
          cases hb : (s.wk w).bp.buffer with
          | cons x r =>
            refine ⟨.handover w, rfl, ?_⟩
            simp only [sysStep]
            exact bpRun_isSome (handover_enabled _ _ hs (Or.inr (by simp [hb])))
          | nil => exact absurd ⟨hq, hb, hw, hs, hp⟩ h

/-- nothing is anywhere: all channels, all workers and all retry buffers of the partition producer are empty -/
def Quiet (s : Sys) : Prop :=
  s.dq = [] ∧ s.pq = [] ∧ s.ret = [] ∧ (∀ w, IdleW s w) ∧ ∀ k, s.pp.bufs k = []

/-- **enabledness**: a state is quiet or some token-moving choice is enabled -/
theorem enabled_or_quiet (M : Nat) (s : Sys)
    (hpend : ∀ w vd base, (s.wk w).pend = some (vd, base) → (s.wk w).bp.sets ≠ [])
    (hf : FinS s) (hab : ∀ l, s.pp.hwm ≤ l → s.pp.bufs l = []) : Enabled M s ∨ Quiet s := by
  cases hd : s.dq with
  | cons t r => exact Or.inl ⟨.dispatch, rfl, by simp [sysStep, hd]⟩
  | nil =>
  cases hq : s.pq with
  | cons t r => exact Or.inl ⟨.ppRecv [], rfl, by simp [sysStep, hq]⟩
  | nil =>
  cases hr : s.ret with
  | cons t r => exact Or.inl ⟨.retryOut, rfl, by simp [sysStep, hr]⟩
  | nil =>
  by_cases hi : ∀ w, IdleW s w
  · refine Or.inr ⟨hd, hq, hr, hi, fun k => ?_⟩
    cases hb : s.pp.bufs k with
    | nil => rfl
    | cons x r =>
      exfalso
      have hk : k < s.pp.hwm := by
        rcases Nat.lt_or_ge k s.pp.hwm with h | h
        · exact h
        · rw [hab k h] at hb; cases hb
      rcases hf.fin3 _ (hf.top (by omega)) with ⟨f, hm, _⟩ | ⟨w, f, hm, _⟩
      · simp [hd, hq, hr] at hm
      · rw [(hi w).1] at hm; cases hm
  · have : ∃ w, ¬ IdleW s w := Classical.not_forall.1 hi
    obtain ⟨w, hw⟩ := this
    exact Or.inl (worker_enabled M s w (hpend w) hw)

end Lemmas.C02sys
