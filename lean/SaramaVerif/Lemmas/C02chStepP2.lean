/-
  C02 composition, handover chain: the partition producer forwards a list of data tokens (`ppActs` over emits).
-/
import SaramaVerif.Lemmas.C02chStepP

set_option linter.unusedSimpArgs false

namespace Lemmas.C02sys
open Model Model.Pipeline

/-- leader lookups never select a worker the partition producer has left -/
def FreshLks (olds : List Nat) (lks : List (Option Nat)) : Prop := ∀ w, some w ∈ lks → w ∉ olds

/-- what forwarding leaves untouched -/
structure FrameP (s s2 : Sys) (olds : List Nat) : Prop where
  pp : s2.pp = s.pp
  pq : s2.pq = s.pq
  dq : s2.dq = s.dq
  ret : s2.ret = s.ret
  next : s2.next = s.next
  log : s2.log = s.log
  succ : s2.succ = s.succ
  crash : s2.crash = s.crash
  bp : ∀ u, (s2.wk u).bp = (s.wk u).bp
  pend : ∀ u, (s2.wk u).pend = (s.wk u).pend
  olds : ∀ u ∈ olds, s2.wk u = s.wk u

theorem FrameP.refl (s : Sys) (olds : List Nat) : FrameP s s olds :=
  ⟨rfl, rfl, rfl, rfl, rfl, rfl, rfl, rfl, fun _ => rfl, fun _ => rfl, fun _ _ => rfl⟩

theorem FrameP.trans {s s2 s3 : Sys} {olds : List Nat} (a : FrameP s s2 olds) (b : FrameP s2 s3 olds) :
    FrameP s s3 olds :=
  ⟨b.pp.trans a.pp, b.pq.trans a.pq, b.dq.trans a.dq, b.ret.trans a.ret, b.next.trans a.next, b.log.trans a.log,
   b.succ.trans a.succ, b.crash.trans a.crash, fun u => (b.bp u).trans (a.bp u), fun u => (b.pend u).trans (a.pend u),
   fun u hu => (b.olds u hu).trans (a.olds u hu)⟩

theorem concP_congr {M : Nat} {s s' : Sys} {olds : List Nat} (h : ConcP M s olds) (hpp : s'.pp = s.pp)
    (hc : s'.cur = s.cur) (hw : s'.wk = s.wk) (hcr : s'.crash = s.crash) (hpq : s'.pq = s.pq) (hdq : s'.dq = s.dq)
    (hret : s'.ret = s.ret) : ConcP M s' olds := by
  refine ⟨⟨by rw [hw]; exact h.pinv, by rw [hpq, hdq, hret]; exact h.p0q, by simpa [insW, hw] using h.p0w,
    by rw [hpq, hdq, hret]; exact h.lvl, by rw [hw]; exact h.finq, by rw [hret]; exact h.ret1, h.nodup,
    by rw [hc]; exact h.curNo, by rw [hc, hw]; exact h.fresh, by rw [hcr]; exact h.crash⟩,
    ?_, bands_congr hw _ _ h.bands, by rw [hc, hw, hpp]; exact h.tcHi, by rw [hc, hw]; exact h.noFin⟩
  intro w hwo
  have := h.oldok w hwo
  simpa [OldOK, insW, hw] using this

theorem frameP_push (s : Sys) (olds : List Nat) (c : Nat) (x : Tok) (hc : c ∉ olds) : FrameP s (pushSw s c x) olds := by
  refine ⟨rfl, rfl, rfl, rfl, rfl, rfl, rfl, rfl, ?_, ?_, fun u hu => wk_pushSw_other s x (fun e => hc (e ▸ hu))⟩
  · intro u
    by_cases e : u = c
    · subst e; rw [wk_pushSw_same]
    · rw [wk_pushSw_other s x e]
  · intro u
    by_cases e : u = c
    · subst e; rw [wk_pushSw_same]
    · rw [wk_pushSw_other s x e]

theorem frameP_select (s : Sys) (olds : List Nat) (w : Nat) (hf : s.wk w = {}) (hw : w ∉ olds) :
    FrameP s (selectS s w) olds := by
  refine ⟨rfl, rfl, rfl, rfl, rfl, rfl, rfl, rfl, ?_, ?_, fun u hu => wk_selectS_other s (fun e => hw (e ▸ hu))⟩
  · intro u
    by_cases e : u = w
    · subst e; rw [wk_selectS_same s u hf, hf]
    · rw [wk_selectS_other s e]
  · intro u
    by_cases e : u = w
    · subst e; rw [wk_selectS_same s u hf, hf]
    · rw [wk_selectS_other s e]

/-- one forwarded data token -/
theorem emit1C {M : Nat} {s : Sys} {olds : List Nat} {gw tc : List Tok} {g : Bool} {lks : List (Option Nat)}
    (hr : CurRep M s gw tc g) (hp : ConcP M s olds) (hl : FreshLks olds lks) (x : Tok) (hx : x.kind = .data)
    (hpx : x.part = 0) (hlv : s.pp.hwm ≤ x.retries) :
    ∃ kept, (kept = [] ∨ kept = [x]) ∧
      CurRep M (ppAct s lks (emitA x)).1 (gw ++ if g then kept else []) (tc ++ if g then [] else bumpF M kept) g ∧
      ConcP M (ppAct s lks (emitA x)).1 olds ∧ FrameP s (ppAct s lks (emitA x)).1 olds ∧
      FreshLks olds (ppAct s lks (emitA x)).2 ∧
      ((ppAct s lks (emitA x)).1.cur = none → kept = [] ∧ s.cur = none) := by
  rcases Option.eq_none_or_eq_some s.cur with hc | ⟨c, hc⟩
  rotate_left
  · have he : ppAct s lks (emitA x) = (pushSw s c x, lks) := by
      simp [ppAct, emitA, hc, pushSw, mkTok_eq x hx hpx]
    rw [he]
    refine ⟨[x], Or.inr rfl, curRep_push hr c hc x hx, concP_push hp c hc x hx hpx hlv,
      frameP_push s olds c x (hp.curNo c hc), hl, ?_⟩
    intro hn; simp [pushSw, hc] at hn
  · have hg : gw = [] ∧ tc = [] ∧ g = true := by
      cases hr with
      | none => exact ⟨rfl, rfl, rfl⟩
      | closed c h1 => rw [hc] at h1; cases h1
      | normal c mk G h1 => rw [hc] at h1; cases h1
      | failed c h1 => rw [hc] at h1; cases h1
    obtain ⟨rfl, rfl, rfl⟩ := hg
    have hfail : ∀ (l0 l1 : List (Option Nat)), ppAct s l0 (emitA x) = ({ s with errs := s.errs ++ [x.id] }, l1) →
        FreshLks olds l1 →
        ∃ kept, (kept = [] ∨ kept = [x]) ∧
          CurRep M (ppAct s l0 (emitA x)).1 ([] ++ if true then kept else []) ([] ++ if true then [] else bumpF M kept) true ∧
          ConcP M (ppAct s l0 (emitA x)).1 olds ∧ FrameP s (ppAct s l0 (emitA x)).1 olds ∧
          FreshLks olds (ppAct s l0 (emitA x)).2 ∧
          ((ppAct s l0 (emitA x)).1.cur = none → kept = [] ∧ s.cur = none) := by
      intro l0 l1 he hok
      rw [he]
      refine ⟨[], Or.inl rfl, curRep_congr hr rfl rfl, concP_congr hp rfl rfl rfl rfl rfl rfl rfl,
        ⟨rfl, rfl, rfl, rfl, rfl, rfl, rfl, rfl, fun _ => rfl, fun _ => rfl, fun _ _ => rfl⟩, hok, fun _ => ⟨rfl, hc⟩⟩
    cases lks with
    | nil => exact hfail [] [] (by simp [ppAct, emitA, hc]) (fun _ h => by cases h)
    | cons l0 r =>
      have hr' : FreshLks olds r := fun w hw => hl w (List.mem_cons_of_mem _ hw)
      cases l0 with
      | none => exact hfail (none :: r) r (by simp [ppAct, emitA, hc]) hr'
      | some w =>
        have hwo : w ∉ olds := hl w (List.mem_cons_self ..)
        have hf : s.wk w = {} := hp.fresh w hwo (by rw [hc]; simp)
        have he : ppAct s (some w :: r) (emitA x) = (pushSw (selectS s w) w x, r) := by
          simp [ppAct, emitA, hc, pushSw, selectS, mkTok_eq x hx hpx]
        rw [he]
        have h1 := curRep_select (M := M) w hf
        have h2 := concP_select hp hc w hwo
        have h3 := curRep_push h1 w rfl x hx
        refine ⟨[x], Or.inr rfl, h3, concP_push h2 w rfl x hx hpx hlv,
          (frameP_select s olds w hf hwo).trans (frameP_push _ olds w x hwo), hr', ?_⟩
        intro hn; simp [pushSw, selectS] at hn

theorem emitsLC {M : Nat} {olds : List Nat} (E : List Tok) (hE : ∀ x ∈ E, x.kind = .data ∧ x.part = 0) :
    ∀ {s : Sys} {gw tc : List Tok} {g : Bool} {lks : List (Option Nat)}, CurRep M s gw tc g → ConcP M s olds →
      FreshLks olds lks → (∀ x ∈ E, s.pp.hwm ≤ x.retries) →
      ∃ kept, kept.Sublist E ∧
        CurRep M (ppActs s lks (E.map emitA)) (gw ++ if g then kept else []) (tc ++ if g then [] else bumpF M kept) g ∧
        ConcP M (ppActs s lks (E.map emitA)) olds ∧ FrameP s (ppActs s lks (E.map emitA)) olds ∧
        ((ppActs s lks (E.map emitA)).cur = none → kept = [] ∧ s.cur = none) := by
  induction E with
  | nil =>
    intro s gw tc g lks hr hp _ _
    refine ⟨[], List.Sublist.refl _, ?_, hp, FrameP.refl s olds, fun hn => ⟨rfl, hn⟩⟩
    cases g <;> simpa [ppActs, bumpF_nil] using hr
  | cons x E' ih =>
    intro s gw tc g lks hr hp hl hlv
    obtain ⟨hx, hpx⟩ := hE x (List.mem_cons_self ..)
    obtain ⟨k1, hk1, r1, p1, f1, l1, c1⟩ := emit1C hr hp hl x hx hpx (hlv x (List.mem_cons_self ..))
    obtain ⟨k2, hk2, r2, p2, f2, c2⟩ := ih (fun y hy => hE y (List.mem_cons_of_mem _ hy)) r1 p1 l1
      (fun y hy => by rw [f1.pp]; exact hlv y (List.mem_cons_of_mem _ hy))
    refine ⟨k1 ++ k2, ?_, ?_, p2, f1.trans f2, ?_⟩
    · rcases hk1 with rfl | rfl
      · simpa using hk2.trans (List.sublist_cons_self x E')
      · simpa using hk2.cons_cons x
    · have : ppActs s lks ((x :: E').map emitA) =
          ppActs (ppAct s lks (emitA x)).1 (ppAct s lks (emitA x)).2 (E'.map emitA) := rfl
      rw [this]
      cases g <;> simpa [bumpF_append, List.append_assoc] using r2
    · intro hn
      have : ppActs s lks ((x :: E').map emitA) =
          ppActs (ppAct s lks (emitA x)).1 (ppAct s lks (emitA x)).2 (E'.map emitA) := rfl
      rw [this] at hn
      obtain ⟨e2, e3⟩ := c2 hn
      obtain ⟨e1, e4⟩ := c1 e3
      exact ⟨by rw [e1, e2]; rfl, e4⟩

/-- assembly: from a state `s1` (after taking the head of pp.input and possibly leaving the current worker) the
    partition producer forwards the data tokens `E` -/
theorem goodC_pp_emits {M : Nat} {s s1 : Sys} {olds olds1 : List Nat} {v : View} (h : GoodC M s olds v)
    {gw1 tc1 : List Tok} {g1 : Bool} (hr1 : CurRep M s1 gw1 tc1 g1) (hp1 : ConcP M s1 olds1)
    (e_next : s1.next = s.next) (e_log : s1.log = s.log) (e_succ : s1.succ = s.succ)
    (e_bp : ∀ u, (s1.wk u).bp = (s.wk u).bp) (e_pend : ∀ u, (s1.wk u).pend = (s.wk u).pend)
    (E : List Tok) (hE : ∀ x ∈ E, x.kind = .data ∧ x.part = 0) (hlv : ∀ x ∈ E, s1.pp.hwm ≤ x.retries)
    (lks : List (Option Nat)) (hl : FreshLks olds1 lks)
    (hV : ∀ kept, kept.Sublist E →
      VInv (pushV M ⟨s1.pp, gw1, s1.pq ++ s1.dq ++ s1.ret ++ (lanes M s1 olds1 ++ tc1), g1⟩ kept) ∧
      (∀ a, LiveId (pushV M ⟨s1.pp, gw1, s1.pq ++ s1.dq ++ s1.ret ++ (lanes M s1 olds1 ++ tc1), g1⟩ kept) a →
        LiveId v a))
    (hcap : s1.cur = none → ∀ x ∈ data (s1.pq ++ s1.dq ++ s1.ret ++ (lanes M s1 olds1 ++ tc1)), x.retries ≤ s1.pp.hwm) :
    ∃ v', GoodC M (ppActs s1 lks (E.map emitA)) olds1 v' := by
  obtain ⟨kept, hk, r2, p2, f, c2⟩ := emitsLC E hE hr1 hp1 hl hlv
  obtain ⟨hvi, hlive⟩ := hV kept hk
  refine ⟨_, ⟨_, _, _, r2, ?_⟩, hvi, concC_of_P p2 (by simp [pushV, f.pp]) ?_, ?_⟩
  · simp only [pushV]
    rw [f.pp, f.pq, f.dq, f.ret, lanes_other olds1 f.olds]
    cases g1 <;> simp [List.append_assoc]
  · intro hn
    obtain ⟨e1, e2⟩ := c2 hn
    rw [e1, pushV_nil]
    exact hcap e2
  · refine logC_same h.log (f.next.trans e_next) (f.log.trans e_log) (f.succ.trans e_succ) hlive ?_
    intro u vd base hp
    rw [f.pend u, e_pend u] at hp
    exact ⟨hp, by rw [f.bp u, e_bp u]⟩

end Lemmas.C02sys
