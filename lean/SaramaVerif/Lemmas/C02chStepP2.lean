/-
  C02 composition, handover chain: the partition producer forwards a list of data tokens (`ppActs` over emits).
-/
import SaramaVerif.Lemmas.C02chStepP

set_option linter.unusedSimpArgs false

namespace Lemmas.C02sys
open Model Model.Pipeline

/-- leader lookups never select a worker the partition producer has left -/
def FreshLks (olds : List Nat) (lks : List (Option Nat)) : Prop := ∀ w, some w ∈ lks → w ∉ olds

/-- what forwarding leaves untouched -/
structure FrameP (s s2 : Sys) (olds : List Nat) : Prop where
  pp : s2.pp = s.pp
  pq : s2.pq = s.pq
  dq : s2.dq = s.dq
  ret : s2.ret = s.ret
  next : s2.next = s.next
  log : s2.log = s.log
  succ : s2.succ = s.succ
  crash : s2.crash = s.crash
  bp : ∀ u, (s2.wk u).bp = (s.wk u).bp
  pend : ∀ u, (s2.wk u).pend = (s.wk u).pend
  olds : ∀ u ∈ olds, s2.wk u = s.wk u

theorem FrameP.refl (s : Sys) (olds : List Nat) : FrameP s s olds :=
  ⟨rfl, rfl, rfl, rfl, rfl, rfl, rfl, rfl, fun _ => rfl, fun _ => rfl, fun _ _ => rfl⟩

theorem FrameP.trans {s s2 s3 : Sys} {olds : List Nat} (a : FrameP s s2 olds) (b : FrameP s2 s3 olds) :
    FrameP s s3 olds :=
  ⟨b.pp.trans a.pp, b.pq.trans a.pq, b.dq.trans a.dq, b.ret.trans a.ret, b.next.trans a.next, b.log.trans a.log,
   b.succ.trans a.succ, b.crash.trans a.crash, fun u => (b.bp u).trans (a.bp u), fun u => (b.pend u).trans (a.pend u),
   fun u hu => (b.olds u hu).trans (a.olds u hu)⟩

theorem concP_congr {M : Nat} {s s' : Sys} {olds : List Nat} (h : ConcP M s olds) (hpp : s'.pp = s.pp)
    (hc : s'.cur = s.cur) (hw : s'.wk = s.wk) (hcr : s'.crash = s.crash) (hpq : s'.pq = s.pq) (hdq : s'.dq = s.dq)
    (hret : s'.ret = s.ret) : ConcP M s' olds := by
  refine ⟨⟨by rw [hw]; exact h.pinv, by rw [hpq, hdq, hret]; exact h.p0q, by simpa [insW, hw] using h.p0w,
    by rw [hpq, hdq, hret]; exact h.lvl, by rw [hw]; exact h.finq, by rw [hret]; exact h.ret1, h.nodup,
    by rw [hc]; exact h.curNo, by rw [hc, hw]; exact h.fresh, by rw [hcr]; exact h.crash⟩,
    ?_, bands_congr hw _ _ h.bands, by rw [hc, hw, hpp]; exact h.tcHi, by rw [hc, hw]; exact h.noFin⟩
  intro w hwo
  have := h.oldok w hwo
  simpa [OldOK, insW, hw] using this

end Lemmas.C02sys
