/-
  C02 composition: conservation of tokens in the single-worker system - counting lemmas.
  `census M s i` = how often the id `i` occurs among the data tokens of all places (queues, partition producer
  buffers, worker 0) plus the terminal outcomes (successes, errors).
-/
import SaramaVerif.Lemmas.C02sysStepP3

set_option linter.unusedSimpArgs false

namespace Lemmas.C02sys
open Model Model.Pipeline

/-- ids parked in the retry buffers of levels `< B` -/
def bufIdsUpTo (B : Nat) (bufs : Nat → List PartProd.Tok) : List Int :=
  (List.range B).flatMap (fun k => (bufs k).map (·.id))

def census (M : Nat) (s : Sys) (i : Int) : Nat :=
  (dataIds s.pq).count i + (dataIds s.dq).count i + (dataIds s.ret).count i + (dataIds (W s).inq).count i +
  (dataIds (ins s)).count i + (bufIdsUpTo (M + 1) s.pp.bufs).count i + (s.succ.map (·.1)).count i + s.errs.count i

theorem dataIds_append (a b : List Tok) : dataIds (a ++ b) = dataIds a ++ dataIds b := by simp [dataIds]

theorem dataIds_cons_data {t : Tok} (l : List Tok) (h : t.kind = .data) : dataIds (t :: l) = t.id :: dataIds l := by
  simp [dataIds, h]

theorem dataIds_cons_not {t : Tok} (l : List Tok) (h : t.kind ≠ .data) : dataIds (t :: l) = dataIds l := by
  simp [dataIds, h]

/-- bouncing conserves: a bounced data token is either re-queued or reported as an error -/
theorem count_bounce (M : Nat) (X : List Tok) (i : Int) :
    (dataIds (bumpF M X)).count i + (errOut M X).count i = (dataIds X).count i := by
  induction X with
  | nil => rfl
  | cons t r ih =>
    rw [bumpF_cons]
    have e : errOut M (t :: r) = errOut M [t] ++ errOut M r := by rw [← errOut_append]; rfl
    rw [e, dataIds_append, List.count_append, List.count_append]
    have h1 : (dataIds (bumpF M [t])).count i + (errOut M [t]).count i = (dataIds [t]).count i := by
      by_cases hk : t.kind = .data <;> by_cases hm : t.retries < M <;>
        simp [bumpF, errOut, dataIds, isData, bump, hk, hm, Nat.not_le.2, Nat.le_of_not_lt]
    have e2 : dataIds (t :: r) = dataIds [t] ++ dataIds r := by rw [← dataIds_append]; rfl
    rw [e2, List.count_append]; omega

theorem offs_ids (l : List Tok) (off : Nat) : (offs l off).map (·.1) = l.map (·.id) := by
  induction l generalizing off with
  | nil => rfl
  | cons t r ih => simp [offs, ih]

theorem flatMap_congr' {α β : Type} {l : List α} {f g : α → List β} (h : ∀ k ∈ l, f k = g k) :
    l.flatMap f = l.flatMap g := by
  induction l with
  | nil => rfl
  | cons x r ih =>
    simp only [List.flatMap_cons]
    rw [h x (List.mem_cons_self ..), ih (fun k hk => h k (List.mem_cons_of_mem _ hk))]

theorem count_range_flatMap_set (B : Nat) (bufs : Nat → List PartProd.Tok) (j : Nat) (v : List PartProd.Tok)
    (i : Int) (hj : j < B) :
    (bufIdsUpTo B (PartProd.setBuf bufs j v)).count i + ((bufs j).map (·.id)).count i =
      (bufIdsUpTo B bufs).count i + (v.map (·.id)).count i := by
  induction B with
  | zero => omega
  | succ n ih =>
    simp only [bufIdsUpTo, List.range_succ, List.flatMap_append, List.flatMap_cons, List.flatMap_nil,
      List.append_nil, List.count_append] at ih ⊢
    by_cases hjn : j = n
    · subst hjn
      have hsame : (List.range j).flatMap (fun k => (PartProd.setBuf bufs j v k).map (·.id)) =
          (List.range j).flatMap (fun k => (bufs k).map (·.id)) := by
        apply flatMap_congr'
        intro k hk
        have : k ≠ j := by have := List.mem_range.1 hk; omega
        simp [PartProd.setBuf, this]
      rw [hsame]; simp [PartProd.setBuf]; omega
    · have := ih (by omega)
      have hn : PartProd.setBuf bufs j v n = bufs n := by
        simp [PartProd.setBuf, Ne.symm hjn]
      rw [hn]; omega

theorem emToks_buf_ids (l : List PartProd.Tok) :
    (emToks (l.map (fun t => PartProd.Action.emit t.id t.retries t.fin))).map (·.id) = l.map (·.id) := by
  rw [emToks_buf]; simp [ofPP, mkTok]

/-- flushRetryBuffers conserves: what leaves the buffers is emitted -/
theorem flush_count (B : Nat) (i : Int) : ∀ (h : Nat) (bufs : Nat → List PartProd.Tok) (e : Nat → Bool), h ≤ B →
    (bufIdsUpTo B (PartProd.flush h bufs e).2.1).count i +
      ((emToks (PartProd.flush h bufs e).2.2).map (·.id)).count i = (bufIdsUpTo B bufs).count i := by
  intro h
  induction h with
  | zero => intro bufs e _; simp [PartProd.flush, emToks]
  | succ n ih =>
    intro bufs e hB
    have hset := count_range_flatMap_set B bufs n [] i (by omega)
    simp only [List.map_nil, List.count_nil, Nat.add_zero] at hset
    rw [PartProd.flush]
    split
    · simp only [emToks_buf_ids]; exact hset
    · split
      · simp only [emToks_buf_ids]; exact hset
      · have := ih (PartProd.setBuf bufs n []) e (by omega)
        simp only [emToks_append, List.map_append, List.count_append, emToks_buf_ids]
        omega

/-- data tokens on the way into worker 0 plus the error outcomes -/
def mu (s : Sys) (i : Int) : Nat := (dataIds (W s).inq).count i + s.errs.count i

theorem emit1_count {s : Sys} {lks : List (Option Nat)} (hc : s.cur = none ∨ s.cur = some 0) (hl : OkLks lks)
    (x : Tok) (hx : x.kind = .data) (hp : x.part = 0) (i : Int) :
    mu (ppAct s lks (emitA x)).1 i = mu s i + [x.id].count i ∧
      ((ppAct s lks (emitA x)).1.cur = none ∨ (ppAct s lks (emitA x)).1.cur = some 0) ∧
      OkLks (ppAct s lks (emitA x)).2 := by
  rcases hc with hc | hc
  · cases lks with
    | nil =>
      refine ⟨?_, Or.inl (by simp [ppAct, emitA, hc]), fun _ h => by simp [ppAct, emitA, hc] at h⟩
      simp [mu, ppAct, emitA, hc, W, List.count_append]; omega
    | cons l0 r =>
      have hr : OkLks r := fun l hl' => hl l (List.mem_cons_of_mem _ hl')
      rcases hl l0 (List.mem_cons_self ..) with rfl | rfl
      · refine ⟨?_, Or.inl (by simp [ppAct, emitA, hc]), by simpa [ppAct, emitA, hc] using hr⟩
        simp [mu, ppAct, emitA, hc, W, List.count_append]; omega
      · refine ⟨?_, Or.inr (by simp [ppAct, emitA, hc]), by simpa [ppAct, emitA, hc] using hr⟩
        simp only [mu, ppAct, emitA, hc, W, pushW, setW, mkTok_eq x hx hp, ↓reduceIte, dataIds_append,
          List.count_append]
        simp [dataIds, synTok, hx]; omega
  · refine ⟨?_, Or.inr (by simp [ppAct, emitA, hc]), by simpa [ppAct, emitA, hc] using hl⟩
    simp only [mu, ppAct, emitA, hc, W, pushW, setW, mkTok_eq x hx hp, ↓reduceIte, dataIds_append,
      List.count_append]
    simp [dataIds, hx]; omega

theorem emits_count (E : List Tok) (hE : ∀ x ∈ E, x.kind = .data ∧ x.part = 0) (i : Int) :
    ∀ {s : Sys} {lks : List (Option Nat)}, (s.cur = none ∨ s.cur = some 0) → OkLks lks →
      mu (ppActs s lks (E.map emitA)) i = mu s i + (E.map (·.id)).count i := by
  induction E with
  | nil => intro s lks _ _; simp [ppActs]
  | cons x E' ih =>
    intro s lks hc hl
    obtain ⟨hx, hp⟩ := hE x (List.mem_cons_self ..)
    obtain ⟨h1, h2, h3⟩ := emit1_count hc hl x hx hp i
    have := ih (fun y hy => hE y (List.mem_cons_of_mem _ hy)) h2 h3
    simp only [List.map_cons, ppActs, List.count_cons] at this ⊢
    rw [this, h1]; simp only [List.count_cons, List.count_nil]; omega

end Lemmas.C02sys
