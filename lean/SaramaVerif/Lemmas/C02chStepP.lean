/-
  C02 composition, handover chain: micro-steps of the partition producer - forwarding to the current worker,
  selecting a FRESH worker (syn), leaving the current worker at a retry-level change (chaser; the worker becomes
  the newest old worker).
-/
import SaramaVerif.Lemmas.C02chStepD3
import SaramaVerif.Lemmas.C02sysStepP3

set_option linter.unusedSimpArgs false

namespace Lemmas.C02sys
open Model Model.Pipeline

/-- side conditions of the chain that do not mention the view (the high watermark is the partition producer's) -/
structure ConcP (M : Nat) (s : Sys) (olds : List Nat) : Prop extends ConcE M s olds where
  oldok : ∀ w ∈ olds, OldOK M s w
  bands : Bands M s 0 olds
  tcHi  : ∀ c, s.cur = some c → BrokerProd.needsRetry (s.wk c).bp 0 = true →
            ∀ t ∈ (s.wk c).inq, t.kind = .data → s.pp.hwm ≤ t.retries
  noFin : ∀ c, s.cur = some c → ∀ t ∈ (s.wk c).inq, t.kind ≠ .fin

theorem concP_of_C {M : Nat} {s : Sys} {olds : List Nat} {v : View} (h : ConcC M s olds v) (hv : v.pp = s.pp) :
    ConcP M s olds :=
  ⟨h.toConcE, h.oldok, h.bands, by rw [← hv]; exact h.tcHi, h.noFin⟩

theorem concC_of_P {M : Nat} {s : Sys} {olds : List Nat} {v : View} (h : ConcP M s olds) (hv : v.pp = s.pp)
    (hcap : s.cur = none → ∀ x ∈ data v.av, x.retries ≤ v.pp.hwm) : ConcC M s olds v :=
  ⟨h.toConcE, ⟨h.oldok, h.bands, by rw [hv]; exact h.tcHi, h.noFin, hcap⟩⟩

/-- token `x` goes on the input channel of worker `c` -/
def pushSw (s : Sys) (c : Nat) (x : Tok) : Sys := { s with wk := pushW s.wk c x }

theorem wk_pushSw_same (s : Sys) (c : Nat) (x : Tok) :
    (pushSw s c x).wk c = ⟨(s.wk c).inq ++ [x], (s.wk c).bp, (s.wk c).pend⟩ := by
  simp [pushSw, pushW, setW]

theorem wk_pushSw_other (s : Sys) {c u : Nat} (x : Tok) (h : u ≠ c) : (pushSw s c x).wk u = s.wk u := by
  simp [pushSw, pushW, setW, h]

theorem curRep_push {M : Nat} {s : Sys} {gw tc : List Tok} {g : Bool} (h : CurRep M s gw tc g) (c : Nat)
    (hc : s.cur = some c) (x : Tok) (hx : x.kind = .data) :
    CurRep M (pushSw s c x) (gw ++ if g then [x] else []) (tc ++ if g then [] else bumpF M [x]) g := by
  have hww := wk_pushSw_same s c x
  have hins : insW (pushSw s c x) c = insW s c := by simp [insW, hww]
  have hall : ∀ {q : List Tok}, AllData q → AllData (q ++ [x]) := by
    intro q hq y hy
    rcases List.mem_append.1 hy with hy | hy
    · exact hq y hy
    · rw [List.mem_singleton.1 hy]; exact hx
  cases h with
  | none h1 => rw [hc] at h1; cases h1
  | closed c' h1 h2 h3 h4 =>
    rw [hc] at h1; cases h1
    have := CurRep.closed (M := M) (s := pushSw s c x) c hc (by rw [hww]; exact h2) (by rw [hins]; exact h3)
      (by rw [hww]; exact hall h4)
    rw [hww] at this
    simpa [bumpF_append] using this
  | normal c' mk G h1 h2 h3 h4 h5 h6 =>
    rw [hc] at h1; cases h1
    have := CurRep.normal (M := M) (s := pushSw s c x) c mk (G ++ [x]) hc (by rw [hww]; exact h2)
      (by rw [hww]; exact h3) (by rw [hww]; simp [h4]) (hall h5) (by rw [hww]; exact h6)
    rw [hins] at this
    simpa [List.append_assoc] using this
  | failed c' h1 h2 h3 h4 h5 =>
    rw [hc] at h1; cases h1
    have := CurRep.failed (M := M) (s := pushSw s c x) c hc (by rw [hww]; exact h2) (by rw [hww]; exact h3)
      (by rw [hins]; exact h4) (by rw [hww]; exact hall h5)
    rw [hww] at this
    simpa [bumpF_append] using this

/-- the view-independent side conditions after a token has been put on the queue of the current worker `c`
    (`hx`: it is a data token at or above the high watermark, or - `hsyn` - nothing is required of it) -/
theorem concP_push {M : Nat} {s : Sys} {olds : List Nat} (h : ConcP M s olds) (c : Nat) (hc : s.cur = some c)
    (x : Tok) (hx : x.kind = .data) (hp : x.part = 0) (hl : s.pp.hwm ≤ x.retries) :
    ConcP M (pushSw s c x) olds := by
  have hww := wk_pushSw_same s c x
  have hcn : c ∉ olds := h.curNo c hc
  have hother : ∀ u, u ≠ c → (pushSw s c x).wk u = s.wk u := fun u hu => wk_pushSw_other s x hu
  have holds : ∀ u ∈ olds, (pushSw s c x).wk u = s.wk u := fun u hu => hother u (fun e => hcn (e ▸ hu))
  refine ⟨⟨?_, h.p0q, ?_, h.lvl, ?_, h.ret1, h.nodup, h.curNo, ?_, h.crash⟩, ?_, bands_other _ _ holds h.bands, ?_, ?_⟩
  · intro u
    by_cases e : u = c
    · subst e; rw [hww]; exact h.pinv u
    · rw [hother u e]; exact h.pinv u
  · intro u
    by_cases e : u = c
    · subst e
      intro y hy
      have : insW (pushSw s u x) u = insW s u := by simp [insW, hww]
      rw [hww, this] at hy
      simp only [List.mem_append, List.mem_singleton] at hy
      rcases hy with (hy | hy) | hy
      · exact h.p0w u y (List.mem_append_left _ hy)
      · rw [hy]; exact hp
      · exact h.p0w u y (List.mem_append_right _ hy)
    · have := h.p0w u; simpa [insW, hother u e] using this
  · intro u
    by_cases e : u = c
    · subst e
      intro y hy hk
      rw [hww] at hy
      rcases List.mem_append.1 hy with hy | hy
      · exact h.finq u y hy hk
      · rw [List.mem_singleton.1 hy, hx] at hk; cases hk
    · rw [hother u e]; exact h.finq u
  · intro u h1 h2
    have : u ≠ c := fun e => h2 (e ▸ hc)
    rw [hother u this]; exact h.fresh u h1 h2
  · intro u hu; exact oldOK_other (h.oldok u hu) (holds u hu)
  · intro c' hc' hn t ht hk
    have : c' = c := by
      have : (pushSw s c x).cur = s.cur := rfl
      rw [this, hc] at hc'; cases hc'; rfl
    subst this
    rw [hww] at hn ht
    rcases List.mem_append.1 ht with ht | ht
    · exact h.tcHi c' hc hn t ht hk
    · rw [List.mem_singleton.1 ht]; exact hl
  · intro c' hc' t ht
    have : c' = c := by
      have : (pushSw s c x).cur = s.cur := rfl
      rw [this, hc] at hc'; cases hc'; rfl
    subst this
    rw [hww] at ht
    rcases List.mem_append.1 ht with ht | ht
    · exact h.noFin c' hc t ht
    · rw [List.mem_singleton.1 ht, hx]; simp

/-- updateLeader selects the FRESH worker `w`: a syn goes on its (empty) input channel -/
def selectS (s : Sys) (w : Nat) : Sys := { pushSw s w synTok with cur := some w }

theorem wk_selectS_same (s : Sys) (w : Nat) (hf : s.wk w = {}) : (selectS s w).wk w = ⟨[synTok], {}, none⟩ := by
  have := wk_pushSw_same s w synTok
  simp only [selectS]
  rw [this, hf]; rfl

theorem wk_selectS_other (s : Sys) {w u : Nat} (h : u ≠ w) : (selectS s w).wk u = s.wk u :=
  wk_pushSw_other s synTok h

theorem curRep_select {M : Nat} {s : Sys} (w : Nat) (hf : s.wk w = {}) : CurRep M (selectS s w) [] [] true := by
  have hww := wk_selectS_same s w hf
  have := CurRep.normal (M := M) (s := selectS s w) w [synTok] [] rfl (by rw [hww]) (by rw [hww])
    (by rw [hww]; rfl) (fun _ h => by cases h) (Or.inr ⟨rfl, by rw [hww]⟩)
  simpa [insW, hww, insideB, Props.C02bp.inside] using this

theorem concP_select {M : Nat} {s : Sys} {olds : List Nat} (h : ConcP M s olds) (hc : s.cur = none) (w : Nat)
    (hw : w ∉ olds) : ConcP M (selectS s w) olds := by
  have hf : s.wk w = {} := h.fresh w hw (by rw [hc]; simp)
  have hww := wk_selectS_same s w hf
  have hother : ∀ u, u ≠ w → (selectS s w).wk u = s.wk u := fun u hu => wk_selectS_other s hu
  have holds : ∀ u ∈ olds, (selectS s w).wk u = s.wk u := fun u hu => hother u (fun e => hw (e ▸ hu))
  have hcur : ∀ c, (selectS s w).cur = some c → c = w := by
    intro c hcc; simp [selectS] at hcc; exact hcc.symm
  refine ⟨⟨?_, h.p0q, ?_, h.lvl, ?_, h.ret1, h.nodup, ?_, ?_, h.crash⟩, ?_, bands_other _ _ holds h.bands, ?_, ?_⟩
  · intro u
    by_cases e : u = w
    · subst e; rw [hww]; exact Props.C02bp.init_inv
    · rw [hother u e]; exact h.pinv u
  · intro u
    by_cases e : u = w
    · subst e
      intro y hy
      simp [insW, hww, insideB, Props.C02bp.inside] at hy
      rw [hy]; rfl
    · have := h.p0w u; simpa [insW, hother u e] using this
  · intro u
    by_cases e : u = w
    · subst e
      intro y hy hk
      rw [hww] at hy
      rw [List.mem_singleton.1 hy] at hk; simp [synTok] at hk
    · rw [hother u e]; exact h.finq u
  · intro c hcc; rw [hcur c hcc]; exact hw
  · intro u h1 h2
    have : u ≠ w := fun e => h2 (by simp [selectS, e])
    rw [hother u this]; exact h.fresh u h1 (by rw [hc]; simp)
  · intro u hu; exact oldOK_other (h.oldok u hu) (holds u hu)
  · intro c hcc hn
    rw [hcur c hcc, hww] at hn
    simp [BrokerProd.needsRetry] at hn
  · intro c hcc t ht
    rw [hcur c hcc, hww] at ht
    rw [List.mem_singleton.1 ht]; simp [synTok]

end Lemmas.C02sys
