import SaramaVerif.Model.CodecPrim
/-
  Helper lemmas for C09 about the wire primitives: every getter inverts its putter on `put v ++ rest`, and
  every `prep` size is the length of what the putter writes.  Core tactics only.
-/
namespace Lemmas.C09
open Model.Codec

/-! ### big-endian -/

theorem be_length (n x : Nat) : (be n x).length = n := by
  induction n generalizing x with
  | zero => rfl
  | succ n ih => simp only [be, List.length_append, ih, List.length_cons, List.length_nil]

theorem fromBE_snoc (l : Bytes) (b : UInt8) : fromBE (l ++ [b]) = fromBE l * 256 + b.toNat := by
  simp only [fromBE, List.foldl_append, List.foldl_cons, List.foldl_nil]

theorem fromBE_be (n x : Nat) : fromBE (be n x) = x % 256 ^ n := by
  induction n generalizing x with
  | zero => simp only [be, fromBE, List.foldl_nil, Nat.pow_zero, Nat.mod_one]
  | succ n ih =>
    simp only [be, fromBE_snoc, ih, UInt8.toNat_ofNat']
    have h : x % 256 ^ (n + 1) = x % 256 + 256 * (x / 256 % 256 ^ n) := by
      rw [Nat.pow_succ, Nat.mul_comm]; exact Nat.mod_mul
    have h2 : x % 256 % 2 ^ 8 = x % 256 := Nat.mod_eq_of_lt (by have := Nat.mod_lt x (show 256 > 0 by decide); omega)
    rw [h, h2]; omega

theorem take_be_append (n x : Nat) (rest : Bytes) : (be n x ++ rest).take n = be n x :=
  List.take_left' (be_length n x)

theorem drop_be_append (n x : Nat) (rest : Bytes) : (be n x ++ rest).drop n = rest :=
  List.drop_left' (be_length n x)

theorem getUInt_be (n x : Nat) (rest : Bytes) (h : x < 256 ^ n) : getUInt n (be n x ++ rest) = some (x, rest) := by
  unfold getUInt
  have hl : ¬ (be n x ++ rest).length < n := by simp only [List.length_append, be_length]; omega
  simp only [hl, ↓reduceIte, take_be_append, drop_be_append, fromBE_be, Nat.mod_eq_of_lt h]

theorem putInt_length (n : Nat) (x : Int) : (putInt n x).length = n := be_length _ _

private theorem pow256_pos (n : Nat) : 0 < 256 ^ n := Nat.pow_pos (by decide)

theorem toU_lt (n : Nat) (x : Int) : toU n x < 256 ^ n := by
  unfold toU
  have hp : (0 : Int) < ((256 ^ n : Nat) : Int) := by exact_mod_cast pow256_pos n
  have h1 := Int.emod_lt_of_pos x hp
  have h2 := Int.emod_nonneg x (Int.ne_of_gt hp)
  omega

/-- two's complement reading inverts two's complement writing on the signed range (n ≥ 1) -/
theorem toS_toU (n : Nat) (x : Int) (hn : 0 < n) (h : InInt n x) : toS n (toU n x) = x := by
  unfold InInt at h
  unfold toS toU
  have hp : 0 < 256 ^ n := pow256_pos n
  have heven : 256 ^ n = 2 * (256 ^ n / 2) := by
    cases n with
    | zero => omega
    | succ k => rw [Nat.pow_succ]; omega
  generalize 256 ^ n = P at *
  generalize hq : P / 2 = Q at *
  subst heven
  have hP : ((2 * Q : Nat) : Int) = 2 * (Q : Int) := by omega
  by_cases hx : 0 ≤ x
  · have e : x % ((2 * Q : Nat) : Int) = x := Int.emod_eq_of_lt hx (by omega)
    rw [e]
    have : 2 * x.toNat < 2 * Q := by omega
    simp only [this, ↓reduceIte]; omega
  · have e : x % ((2 * Q : Nat) : Int) = x + 2 * Q := by
      have h1 : (x + ((2 * Q : Nat) : Int)) % ((2 * Q : Nat) : Int) = x % ((2 * Q : Nat) : Int) := Int.add_emod_right _ _
      rw [← h1]
      have := Int.emod_eq_of_lt (a := x + ((2 * Q : Nat) : Int)) (b := ((2 * Q : Nat) : Int)) (by omega) (by omega)
      rw [this]; omega
    rw [e]
    have : ¬ 2 * (x + 2 * (Q : Int)).toNat < 2 * Q := by omega
    simp only [this, ↓reduceIte]; omega

theorem getInt_putInt (n : Nat) (x : Int) (rest : Bytes) (hn : 0 < n) (h : InInt n x) :
    getInt n (putInt n x ++ rest) = some (x, rest) := by
  unfold getInt putInt
  have hl : ¬ (be n (toU n x) ++ rest).length < n := by simp only [List.length_append, be_length]; omega
  simp only [hl, ↓reduceIte, take_be_append, drop_be_append, fromBE_be, Nat.mod_eq_of_lt (toU_lt n x), toS_toU n x hn h]

/-- what the getter returns is always in the signed range (the Go type) -/
theorem toS_range (n : Nat) (u : Nat) (hn : 0 < n) (hu : u < 256 ^ n) : InInt n (toS n u) := by
  unfold InInt toS
  have heven : 256 ^ n = 2 * (256 ^ n / 2) := by
    cases n with
    | zero => omega
    | succ k => rw [Nat.pow_succ]; omega
  generalize 256 ^ n = P at *
  generalize P / 2 = Q at *
  subst heven
  split <;> omega

/-! ### uvarint / varint -/

theorem byte_toNat_of_lt (x : Nat) (h : x < 256) : (UInt8.ofNat x).toNat = x := by
  rw [UInt8.toNat_ofNat']; exact Nat.mod_eq_of_lt (by omega)

/-- decoder inverts encoder: fuel `f+1`, value below `2·128^f`, decoder index `i` with `i + f = 9` -/
theorem uvarintDec_uvarintF (f : Nat) : ∀ (x i m acc : Nat) (rest : Bytes), x < 2 * 128 ^ f → i + f = 9 →
    uvarintDec i m acc (uvarintF (f + 1) x ++ rest) = some (acc + x * m, rest) := by
  induction f with
  | zero =>
    intro x i m acc rest hx hi
    have hx2 : x < 2 := by simpa using hx
    have hx128 : x < 128 := by omega
    simp only [uvarintF, hx128, ↓reduceIte, List.cons_append, List.nil_append, uvarintDec]
    have hb : (UInt8.ofNat x).toNat = x := byte_toNat_of_lt x (by omega)
    have hi9 : i = 9 := by omega
    subst hi9
    simp only [hb, hx128, ↓reduceIte, show ¬ (9 = 10) by decide, show ¬ (x > 1) by omega, and_false]
  | succ f ih =>
    intro x i m acc rest hx hi
    by_cases hx128 : x < 128
    · simp only [uvarintF, hx128, ↓reduceIte, List.cons_append, List.nil_append, uvarintDec]
      have hb : (UInt8.ofNat x).toNat = x := byte_toNat_of_lt x (by omega)
      simp only [hb, hx128, ↓reduceIte, show ¬ (i = 10) by omega, show ¬ (i = 9 ∧ x > 1) by omega]
    · rw [uvarintF]
      simp only [hx128, ↓reduceIte, List.cons_append, uvarintDec]
      have hb : (UInt8.ofNat (x % 128 + 128)).toNat = x % 128 + 128 := byte_toNat_of_lt _ (by omega)
      simp only [hb, show ¬ (i = 10) by omega, show ¬ (x % 128 + 128 < 128) by omega, ↓reduceIte]
      have hdiv : x / 128 < 2 * 128 ^ f := by
        rw [Nat.pow_succ] at hx
        exact Nat.div_lt_of_lt_mul (by omega)
      rw [ih (x / 128) (i + 1) (m * 128) _ rest hdiv (by omega)]
      congr 2
      have hx' : x = 128 * (x / 128) + x % 128 := (Nat.div_add_mod x 128).symm
      generalize x / 128 = q at *
      generalize x % 128 = r at *
      subst hx'
      simp only [Nat.add_sub_cancel, Nat.add_mul, Nat.mul_assoc, Nat.add_assoc]
      have e : q * (m * 128) = 128 * (q * m) := by ac_rfl
      rw [e]; omega

theorem getUVarint_putUVarint (x : Nat) (rest : Bytes) (h : x < 2 ^ 64) :
    getUVarint (putUVarint x ++ rest) = some (x, rest) := by
  unfold getUVarint putUVarint
  have := uvarintDec_uvarintF 9 x 0 1 0 rest (by simpa using h) (by rfl)
  simpa using this

theorem zigzag_lt (x : Int) (h : InInt 8 x) : zigzag x < 2 ^ 64 := by
  unfold InInt at h; simp only [Nat.reducePow, Nat.reduceDiv] at h
  unfold zigzag; split <;> omega

theorem unzigzag_zigzag (x : Int) : unzigzag (zigzag x) = x := by
  unfold unzigzag zigzag
  by_cases h : 0 ≤ x
  · simp only [h, ↓reduceIte]
    have : (2 * x).toNat % 2 = 0 := by omega
    simp only [this, ↓reduceIte]; omega
  · simp only [h, ↓reduceIte]
    have : ¬ ((-2 * x - 1).toNat % 2 = 0) := by omega
    simp only [this, ↓reduceIte]; omega

theorem getVarint_putVarint (x : Int) (rest : Bytes) (h : InInt 8 x) :
    getVarint (putVarint x ++ rest) = some (x, rest) := by
  unfold getVarint putVarint
  rw [getUVarint_putUVarint _ rest (zigzag_lt x h)]
  simp only [unzigzag_zigzag]

/-! ### scalars with conventions -/

theorem inInt1_01 (b : Bool) : InInt 1 (if b then 1 else 0) := by
  unfold InInt; cases b <;> simp

theorem getBool_putBool (b : Bool) (rest : Bytes) : getBool (putBool b ++ rest) = some (b, rest) := by
  unfold getBool putBool
  rw [getInt_putInt 1 _ rest (by decide) (inInt1_01 b)]
  cases b <;> simp

theorem getArrayLength_put (n : Int) (rest : Bytes) (h : InInt 4 n) (hr : n ≤ rest.length) (hm : n ≤ 131070)
    (hneg : -1 ≤ n) : getArrayLength (putArrayLength n ++ rest) = some (n, rest) := by
  unfold getArrayLength putArrayLength
  rw [getInt_putInt 4 n rest (by decide) h]
  simp only [show ¬ n > (rest.length : Int) by omega, show ¬ (n > 131070 ∨ n < -1) by omega, ↓reduceIte]

theorem getCompactArrayLength_put (n : Nat) (rest : Bytes) (h : n + 1 < 2 ^ 64) (hr : n ≤ rest.length) :
    getCompactArrayLength (putCompactArrayLength n ++ rest) = some (n, rest) := by
  unfold getCompactArrayLength putCompactArrayLength
  rw [getUVarint_putUVarint _ rest h]
  simp only [Nat.add_sub_cancel, show ¬ n > rest.length by omega, ↓reduceIte]

theorem getEmptyTagged_put (rest : Bytes) : getEmptyTagged (putEmptyTagged ++ rest) = some ((), rest) := by
  unfold getEmptyTagged putEmptyTagged
  rw [getUVarint_putUVarint 0 rest (by decide)]
  simp only [↓reduceIte]

/-! ### byte strings -/

theorem getRaw_append (b rest : Bytes) : getRaw b.length (b ++ rest) = some (b, rest) := by
  unfold getRaw
  simp only [show ¬ ((b.length : Int) < 0) by omega, ↓reduceIte, Int.toNat_natCast, List.length_append,
    show ¬ b.length > b.length + rest.length by omega, List.take_left, List.drop_left]

theorem inInt4_len (k : Nat) (h : k < 2 ^ 31) : InInt 4 (k : Int) := by
  unfold InInt; simp only [Nat.reducePow, Nat.reduceDiv] at *; omega
theorem inInt2_len (k : Nat) (h : k < 2 ^ 15) : InInt 2 (k : Int) := by
  unfold InInt; simp only [Nat.reducePow, Nat.reduceDiv] at *; omega
theorem inInt8_len (k : Nat) (h : k < 2 ^ 63) : InInt 8 (k : Int) := by
  unfold InInt; simp only [Nat.reducePow, Nat.reduceDiv] at *; omega
theorem inInt_neg1 (n : Nat) (hn : 0 < n) : InInt n (-1) := by
  unfold InInt
  have : 256 ^ n = 256 * 256 ^ (n - 1) := by
    cases n with
    | zero => omega
    | succ k => rw [Nat.pow_succ, Nat.mul_comm]; rfl
  have hp : 0 < 256 ^ (n - 1) := Nat.pow_pos (by decide)
  omega

theorem getBytes_putBytes (v : Option Bytes) (rest : Bytes) (h : ∀ b, v = some b → b.length < 2 ^ 31) :
    getBytes (putBytes v ++ rest) = some (v, rest) := by
  unfold getBytes
  cases v with
  | none =>
    simp only [putBytes]
    rw [getInt_putInt 4 _ rest (by decide) (inInt_neg1 4 (by decide))]
    simp only [↓reduceIte]
  | some b =>
    simp only [putBytes, List.append_assoc]
    rw [getInt_putInt 4 _ _ (by decide) (inInt4_len _ (h b rfl))]
    simp only [show ¬ ((b.length : Int) = -1) by omega, ↓reduceIte, getRaw_append]

theorem getVarintBytes_put (v : Option Bytes) (rest : Bytes) (h : ∀ b, v = some b → b.length < 2 ^ 63) :
    getVarintBytes (putVarintBytes v ++ rest) = some (v, rest) := by
  unfold getVarintBytes
  cases v with
  | none =>
    simp only [putVarintBytes]
    rw [getVarint_putVarint _ rest (inInt_neg1 8 (by decide))]
    simp only [↓reduceIte]
  | some b =>
    simp only [putVarintBytes, List.append_assoc]
    rw [getVarint_putVarint _ _ (inInt8_len _ (h b rfl))]
    simp only [show ¬ ((b.length : Int) = -1) by omega, ↓reduceIte, getRaw_append]

theorem getCompactBytes_put (b rest : Bytes) (h : b.length + 1 < 2 ^ 64) :
    getCompactBytes (putCompactBytes b ++ rest) = some (b, rest) := by
  unfold getCompactBytes putCompactBytes
  rw [List.append_assoc, getUVarint_putUVarint _ _ h]
  have : ((b.length + 1 : Nat) : Int) - 1 = (b.length : Int) := by omega
  simp only [this, getRaw_append]

theorem getStringLength_put (s rest : Bytes) (h : s.length < 2 ^ 15) :
    getStringLength (putInt 2 s.length ++ (s ++ rest)) = some ((s.length : Int), s ++ rest) := by
  unfold getStringLength
  rw [getInt_putInt 2 _ _ (by decide) (inInt2_len _ h)]
  simp only [List.length_append, show ¬ ((s.length : Int) < -1) by omega,
    show ¬ ((s.length : Int) > ((s.length + rest.length : Nat) : Int)) by omega, ↓reduceIte]

theorem getString_putString (s rest : Bytes) (h : s.length < 2 ^ 15) :
    getString (putString s ++ rest) = some (s, rest) := by
  unfold getString putString
  rw [List.append_assoc, getStringLength_put s rest h]
  simp only [show ¬ ((s.length : Int) = -1) by omega, ↓reduceIte, Int.toNat_natCast, List.take_left, List.drop_left]

theorem getNullableString_put (v : Option Bytes) (rest : Bytes) (h : ∀ s, v = some s → s.length < 2 ^ 15) :
    getNullableString (putNullableString v ++ rest) = some (v, rest) := by
  unfold getNullableString
  cases v with
  | none =>
    simp only [putNullableString, getStringLength]
    rw [getInt_putInt 2 _ rest (by decide) (inInt_neg1 2 (by decide))]
    simp only [show ¬ ((-1 : Int) < -1) by omega, show ¬ ((-1 : Int) > (rest.length : Int)) by omega, ↓reduceIte]
  | some s =>
    simp only [putNullableString, putString]
    rw [List.append_assoc, getStringLength_put s rest (h s rfl)]
    simp only [show ¬ ((s.length : Int) = -1) by omega, ↓reduceIte, Int.toNat_natCast, List.take_left, List.drop_left]

theorem getCompactString_put (s rest : Bytes) (h : s.length + 1 < 2 ^ 64) :
    getCompactString (putCompactString s ++ rest) = some (s, rest) := by
  unfold getCompactString putCompactString putCompactArrayLength
  rw [List.append_assoc, getUVarint_putUVarint _ _ h]
  simp only [show ¬ (s.length + 1 = 0) by omega, Nat.add_sub_cancel, List.length_append,
    show ¬ s.length > s.length + rest.length by omega, ↓reduceIte, List.take_left, List.drop_left]

theorem getCompactNullableString_put (v : Option Bytes) (rest : Bytes) (h : ∀ s, v = some s → s.length + 1 < 2 ^ 64) :
    getCompactNullableString (putNullableCompactString v ++ rest) = some (v, rest) := by
  unfold getCompactNullableString
  cases v with
  | none =>
    have e : putInt 1 0 = putUVarint 0 := by decide
    simp only [putNullableCompactString, e]
    rw [getUVarint_putUVarint 0 rest (by decide)]
    simp only [↓reduceIte]
  | some s =>
    simp only [putNullableCompactString, putCompactString, putCompactArrayLength]
    rw [List.append_assoc, getUVarint_putUVarint _ _ (h s rfl)]
    simp only [show ¬ (s.length + 1 = 0) by omega, Nat.add_sub_cancel, List.length_append,
      show ¬ s.length > s.length + rest.length by omega, ↓reduceIte, List.take_left, List.drop_left]

/-! ### arrays of scalars -/

theorem putInts_length (n : Nat) (xs : List Int) : (putInts n xs).length = n * xs.length := by
  induction xs with
  | nil => simp [putInts]
  | cons x xs ih =>
    have : putInts n (x :: xs) = putInt n x ++ putInts n xs := by simp [putInts]
    rw [this, List.length_append, ih, putInt_length, List.length_cons, Nat.mul_succ]; omega

theorem getInts_putInts (n : Nat) (hn : 0 < n) (xs : List Int) (rest : Bytes) (h : ∀ x ∈ xs, InInt n x) :
    getInts n xs.length (putInts n xs ++ rest) = some (xs, rest) := by
  induction xs with
  | nil => simp [putInts, getInts]
  | cons x xs ih =>
    have e : putInts n (x :: xs) = putInt n x ++ putInts n xs := by simp [putInts]
    rw [e, List.append_assoc, List.length_cons, getInts, getInt_putInt n x _ hn (h x (List.mem_cons_self))]
    simp only []
    rw [ih (fun y hy => h y (List.mem_cons_of_mem _ hy))]

theorem toU4_len (k : Nat) (h : k < 2 ^ 31) : toU 4 (k : Int) = k := by
  unfold toU
  simp only [Nat.reducePow] at *
  omega

theorem getIntArray_put (n : Nat) (hn : 0 < n) (xs : List Int) (rest : Bytes) (hl : xs.length < 2 ^ 31)
    (h : ∀ x ∈ xs, InInt n x) : getIntArray n (putIntArray n xs ++ rest) = some (xs, rest) := by
  unfold getIntArray putIntArray putArrayLength putInt
  rw [List.append_assoc, toU4_len _ hl, getUInt_be 4 _ _ (by simp only [Nat.reducePow] at *; omega)]
  simp only [List.length_append, putInts_length, show ¬ (n * xs.length + rest.length < n * xs.length) by omega,
    ↓reduceIte, getInts_putInts n hn xs rest h]

theorem getCompactInt32Array_put (xs : List Int) (rest : Bytes) (hl : xs.length + 1 < 2 ^ 64)
    (h : ∀ x ∈ xs, InInt 4 x) :
    getCompactInt32Array (putCompactInt32Array xs ++ rest) = some (some xs, rest) := by
  unfold getCompactInt32Array putCompactInt32Array
  rw [List.append_assoc, getUVarint_putUVarint _ _ hl]
  simp only [show ¬ (xs.length + 1 = 0) by omega, ↓reduceIte, Nat.add_sub_cancel,
    getInts_putInts 4 (by decide) xs rest h]

theorem getCompactInt32Array_putNullable (v : Option (List Int)) (rest : Bytes)
    (h : ∀ xs, v = some xs → xs.length + 1 < 2 ^ 64 ∧ ∀ x ∈ xs, InInt 4 x) :
    getCompactInt32Array (putNullableCompactInt32Array v ++ rest) = some (v, rest) := by
  cases v with
  | none =>
    simp only [putNullableCompactInt32Array, getCompactInt32Array]
    rw [getUVarint_putUVarint 0 rest (by decide)]
    simp only [↓reduceIte]
  | some xs => exact getCompactInt32Array_put xs rest (h xs rfl).1 (h xs rfl).2

theorem getStrings_putStrings (ss : List Bytes) (rest : Bytes) (h : ∀ s ∈ ss, s.length < 2 ^ 15) :
    getStrings ss.length (putStrings ss ++ rest) = some (ss, rest) := by
  induction ss with
  | nil => simp [putStrings, getStrings]
  | cons s ss ih =>
    have e : putStrings (s :: ss) = putString s ++ putStrings ss := by simp [putStrings]
    rw [e, List.append_assoc, List.length_cons, getStrings, getString_putString s _ (h s (List.mem_cons_self))]
    simp only []
    rw [ih (fun y hy => h y (List.mem_cons_of_mem _ hy))]

theorem getStringArray_put (ss : List Bytes) (rest : Bytes) (hl : ss.length < 2 ^ 31)
    (h : ∀ s ∈ ss, s.length < 2 ^ 15) : getStringArray (putStringArray ss ++ rest) = some (ss, rest) := by
  unfold getStringArray putStringArray putArrayLength putInt
  rw [List.append_assoc, toU4_len _ hl, getUInt_be 4 _ _ (by simp only [Nat.reducePow] at *; omega)]
  have hlen : ss.length ≤ (putStrings ss).length := by
    clear h hl
    induction ss with
    | nil => simp
    | cons s ss ih =>
      have e : putStrings (s :: ss) = putString s ++ putStrings ss := by simp [putStrings]
      rw [e, List.length_append, List.length_cons]
      have : 2 ≤ (putString s).length := by simp [putString, putInt_length]
      omega
  simp only [List.length_append, show ¬ ss.length > (putStrings ss).length + rest.length by omega, ↓reduceIte,
    getStrings_putStrings ss rest h]

/-! ### sizes: what the prep encoder adds is what the real encoder writes -/

theorem prepBytes_eq (v : Option Bytes) : prepBytes v = (putBytes v).length := by
  cases v <;> simp [prepBytes, putBytes, putInt_length]
theorem prepVarintBytes_eq (v : Option Bytes) : prepVarintBytes v = (putVarintBytes v).length := by
  cases v <;> simp [prepVarintBytes, putVarintBytes, prepVarint]
theorem prepCompactBytes_eq (b : Bytes) : prepCompactBytes b = (putCompactBytes b).length := by
  simp [prepCompactBytes, putCompactBytes, prepUVarint]
theorem prepString_eq (s : Bytes) : prepString s = (putString s).length := by
  simp [prepString, putString, putInt_length]
theorem prepNullableString_eq (v : Option Bytes) : prepNullableString v = (putNullableString v).length := by
  cases v <;> simp [prepNullableString, putNullableString, putInt_length, prepString_eq]
theorem prepCompactString_eq (s : Bytes) : prepCompactString s = (putCompactString s).length := by
  simp [prepCompactString, putCompactString, putCompactArrayLength, prepUVarint]
theorem prepNullableCompactString_eq (v : Option Bytes) :
    prepNullableCompactString v = (putNullableCompactString v).length := by
  cases v with
  | none => decide
  | some s => simp [prepNullableCompactString, putNullableCompactString, prepCompactString_eq]
theorem prepIntArray_eq (n : Nat) (xs : List Int) : prepIntArray n xs = (putIntArray n xs).length := by
  simp [prepIntArray, putIntArray, putArrayLength, putInt_length, putInts_length]
theorem prepCompactInt32Array_eq (xs : List Int) : prepCompactInt32Array xs = (putCompactInt32Array xs).length := by
  simp [prepCompactInt32Array, putCompactInt32Array, prepUVarint, putInts_length]
theorem prepNullableCompactInt32Array_eq (v : Option (List Int)) :
    prepNullableCompactInt32Array v = (putNullableCompactInt32Array v).length := by
  cases v with
  | none => simp [prepNullableCompactInt32Array, putNullableCompactInt32Array, prepUVarint]
  | some xs => simp [prepNullableCompactInt32Array, putNullableCompactInt32Array, prepCompactInt32Array_eq]
theorem putStrings_length (ss : List Bytes) : (putStrings ss).length = (ss.map prepString).sum := by
  induction ss with
  | nil => simp [putStrings]
  | cons s ss ih =>
    have e : putStrings (s :: ss) = putString s ++ putStrings ss := by simp [putStrings]
    rw [e, List.length_append, ih, List.map_cons, List.sum_cons, prepString_eq]
theorem prepStringArray_eq (ss : List Bytes) : prepStringArray ss = (putStringArray ss).length := by
  simp [prepStringArray, putStringArray, putArrayLength, putInt_length, putStrings_length]

/-- the varint length field: whatever stale length the field held, push + adjust add exactly
    `len(varint(body)) + body` -/
theorem prepVarLen_exact (stale : Int) (body : Nat) : prepVarLen stale body = ((prepVarint body + body : Nat) : Int) := by
  unfold prepVarLen; omega

/-! ### CRC -/

theorem crcBit_lt (poly c : Nat) (hp : poly < 2 ^ 32) (hc : c < 2 ^ 32) : crcBit poly c < 2 ^ 32 := by
  unfold crcBit
  split
  · exact Nat.xor_lt_two_pow (by omega) hp
  · omega

theorem crcByte_lt (poly c : Nat) (b : UInt8) (hp : poly < 2 ^ 32) (hc : c < 2 ^ 32) : crcByte poly c b < 2 ^ 32 := by
  unfold crcByte
  have hb : b.toNat < 2 ^ 32 := by have := UInt8.toNat_lt b; omega
  have h0 := Nat.xor_lt_two_pow hc hb
  exact crcBit_lt _ _ hp (crcBit_lt _ _ hp (crcBit_lt _ _ hp (crcBit_lt _ _ hp (crcBit_lt _ _ hp
    (crcBit_lt _ _ hp (crcBit_lt _ _ hp (crcBit_lt _ _ hp h0)))))))

theorem foldl_crcByte_lt (poly : Nat) (hp : poly < 2 ^ 32) (bs : Bytes) (c : Nat) (hc : c < 2 ^ 32) :
    bs.foldl (crcByte poly) c < 2 ^ 32 := by
  induction bs generalizing c with
  | nil => exact hc
  | cons b bs ih => exact ih _ (crcByte_lt poly c b hp hc)

theorem poly_lt (p : Poly) : p.value < 2 ^ 32 := by cases p <;> decide

theorem crc32_lt (p : Poly) (bs : Bytes) : crc32 p bs < 2 ^ 32 := by
  unfold crc32
  exact Nat.xor_lt_two_pow (foldl_crcByte_lt _ (poly_lt p) bs _ (by decide)) (by decide)

/-! ### prescribed wire forms of the variable-length integers -/

/-- zig-zag as Kafka/protobuf prescribe it: `(x << 1) ^ (x >> 63)` on 64-bit two's complement -/
theorem zigzag_bitvec (x : Int) (h : InInt 8 x) :
    zigzag x = ((BitVec.ofInt 64 x <<< 1) ^^^ (BitVec.ofInt 64 x).sshiftRight 63).toNat := by
  unfold InInt at h; simp only [Nat.reducePow, Nat.reduceDiv] at h
  have hN : (BitVec.ofInt 64 x).toNat = (x % 18446744073709551616).toNat := by
    rw [BitVec.toNat_ofInt]; rfl
  by_cases hx : 0 ≤ x
  · have ha : (BitVec.ofInt 64 x).toNat = x.toNat := by rw [hN]; omega
    have hm : (BitVec.ofInt 64 x).msb = false := by
      rw [BitVec.msb_eq_decide, ha]; simp only [Nat.reducePow, Nat.reduceSub, decide_eq_false_iff_not]; omega
    rw [BitVec.sshiftRight_eq_of_msb_false hm, BitVec.toNat_xor, BitVec.toNat_shiftLeft, BitVec.toNat_ushiftRight,
      ha, Nat.shiftLeft_eq, Nat.shiftRight_eq_div_pow]
    have : x.toNat / 2 ^ 63 = 0 := by simp only [Nat.reducePow]; omega
    rw [this, Nat.xor_zero]
    unfold zigzag; simp only [hx, ↓reduceIte, Nat.reducePow]; omega
  · have ha : (BitVec.ofInt 64 x).toNat = (x + 18446744073709551616).toNat := by rw [hN]; omega
    have hm : (BitVec.ofInt 64 x).msb = true := by
      rw [BitVec.msb_eq_decide, ha]; simp only [Nat.reducePow, Nat.reduceSub, decide_eq_true_eq]; omega
    rw [BitVec.sshiftRight_eq_of_msb_true hm]
    have hz : (~~~(BitVec.ofInt 64 x)) >>> 63 = 0#64 := by
      apply BitVec.eq_of_toNat_eq
      rw [BitVec.toNat_ushiftRight, BitVec.toNat_not, ha, Nat.shiftRight_eq_div_pow]
      simp only [Nat.reducePow, BitVec.toNat_ofNat, Nat.zero_mod]; omega
    rw [hz]
    have : ~~~(0#64) = BitVec.allOnes 64 := by decide
    rw [this, BitVec.xor_allOnes, BitVec.toNat_not, BitVec.toNat_shiftLeft, ha, Nat.shiftLeft_eq]
    unfold zigzag; simp only [hx, ↓reduceIte, Nat.reducePow]; omega

theorem uvarintF_val (f : Nat) : ∀ x, x < 2 * 128 ^ f → uvarintVal (uvarintF (f + 1) x) = x := by
  induction f with
  | zero =>
    intro x hx
    have hx128 : x < 128 := by simp at hx; omega
    simp only [uvarintF, hx128, ↓reduceIte, uvarintVal, byte_toNat_of_lt x (by omega)]; omega
  | succ f ih =>
    intro x hx
    by_cases hx128 : x < 128
    · simp only [uvarintF, hx128, ↓reduceIte, uvarintVal, byte_toNat_of_lt x (by omega)]; omega
    · rw [uvarintF]
      simp only [hx128, ↓reduceIte, uvarintVal, byte_toNat_of_lt (x % 128 + 128) (by omega)]
      rw [ih (x / 128) (by rw [Nat.pow_succ] at hx; exact Nat.div_lt_of_lt_mul (by omega))]
      omega

/-- shape of the group string: continuation bit on every byte but the last, none on the last, no
    superfluous trailing zero group (minimal length), at most `f+1` groups -/
inductive Canonical : Bytes → Prop
  | last (b : UInt8) (h : b.toNat < 128) : Canonical [b]
  | more (b : UInt8) (rest : Bytes) (h : 128 ≤ b.toNat) (hr : Canonical rest) (hnz : rest ≠ [0]) : Canonical (b :: rest)

theorem uvarintF_ne_nil (f x : Nat) : uvarintF f x ≠ [] := by
  cases f with
  | zero => simp [uvarintF]
  | succ f => rw [uvarintF]; split <;> simp

theorem uvarintF_ne_zero (f x : Nat) (hx : 0 < x) (hlt : x < 256) : uvarintF (f + 1) x ≠ [0] := by
  rw [uvarintF]
  split
  · intro h
    have h1 : UInt8.ofNat x = 0 := by simpa using h
    have h2 : (UInt8.ofNat x).toNat = 0 := by rw [h1]; rfl
    rw [byte_toNat_of_lt x hlt] at h2; omega
  · intro h; simp at h; exact uvarintF_ne_nil _ _ h.2

theorem uvarintF_canonical (f : Nat) : ∀ x, x < 2 * 128 ^ f → Canonical (uvarintF (f + 1) x) := by
  induction f with
  | zero =>
    intro x hx
    have hx128 : x < 128 := by simp at hx; omega
    simp only [uvarintF, hx128, ↓reduceIte]
    exact .last _ (by rw [byte_toNat_of_lt x (by omega)]; exact hx128)
  | succ f ih =>
    intro x hx
    by_cases hx128 : x < 128
    · simp only [uvarintF, hx128, ↓reduceIte]
      exact .last _ (by rw [byte_toNat_of_lt x (by omega)]; exact hx128)
    · rw [uvarintF]
      simp only [hx128, ↓reduceIte]
      have hd : x / 128 < 2 * 128 ^ f := by rw [Nat.pow_succ] at hx; exact Nat.div_lt_of_lt_mul (by omega)
      refine .more _ _ (by rw [byte_toNat_of_lt _ (by omega)]; omega) (ih _ hd) ?_
      by_cases hsmall : x / 128 < 256
      · exact uvarintF_ne_zero f (x / 128) (by omega) hsmall
      · cases f with
        | zero => simp at hd; omega
        | succ g =>
          rw [uvarintF]
          simp only [show ¬ x / 128 < 128 by omega, ↓reduceIte]
          intro h; simp at h; exact uvarintF_ne_nil _ _ h.2

theorem uvarintF_length_le (f : Nat) : ∀ x, (uvarintF f x).length ≤ f + 1 := by
  induction f with
  | zero => intro x; simp [uvarintF]
  | succ f ih =>
    intro x
    rw [uvarintF]; split
    · simp
    · simp only [List.length_cons]; have := ih (x / 128); omega

theorem uvarintF_length_bound (f : Nat) : ∀ x, x < 2 * 128 ^ f → (uvarintF (f + 1) x).length ≤ f + 1 := by
  induction f with
  | zero =>
    intro x hx
    have hx128 : x < 128 := by simp at hx; omega
    simp [uvarintF, hx128]
  | succ f ih =>
    intro x hx
    rw [uvarintF]; split
    · simp
    · have hd : x / 128 < 2 * 128 ^ f := by rw [Nat.pow_succ] at hx; exact Nat.div_lt_of_lt_mul (by omega)
      simp only [List.length_cons]; have := ih (x / 128) hd; omega

theorem putUVarint_length_pos (x : Nat) : 1 ≤ (putUVarint x).length := by
  unfold putUVarint
  cases h : uvarintF 10 x with
  | nil => exact absurd h (uvarintF_ne_nil 10 x)
  | cons a l => simp

end Lemmas.C09
