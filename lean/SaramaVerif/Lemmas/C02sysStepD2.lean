/-
  C02 composition: `deliver` keeps `Good` (assembly of the cases of Lemmas/C02sysStepD.lean).
-/
import SaramaVerif.Lemmas.C02sysStepD

set_option linter.unusedSimpArgs false

namespace Lemmas.C02sys
open Model Model.Pipeline

theorem deliver_split {M : Nat} {s s' : Sys} {still : Bool} (h : sysStep M s (.deliver 0 still) = some s') :
    ∃ vd base, (W s).pend = some (vd, base) ∧
      (BrokerProd.step M (W s).bp (.resp vd.toResp still)).2 ≠ [.disabled] ∧
      s' = bpActs (midS M s (W s).inq none (.resp vd.toResp still)) base
        (BrokerProd.step M (W s).bp (.resp vd.toResp still)).2 := by
  simp only [sysStep] at h
  cases hp : (s.wk 0).pend with
  | none => simp [hp] at h
  | some p =>
    obtain ⟨vd, base⟩ := p
    simp only [hp] at h
    obtain ⟨hd, he⟩ := bpRun_eq h
    exact ⟨vd, base, rfl, hd, he⟩

theorem mid_deliverS (M : Nat) (s : Sys) (i : BrokerProd.In) :
    midS M s (W s).inq none i = deliverS M s (BrokerProd.step M (W s).bp i).1 [] s.succ s.errs := by
  simp [midS, deliverS, afterW, bumpF_nil]

theorem deliver_shrink_core {M : Nat} {s : Sys} {v : View} (h : Good M s v)
    (hn : BrokerProd.needsRetry (W s).bp 0 = false) (b' : BrokerProd.St) (hp : Props.C02bp.PInv b')
    (hc : b'.closing = (W s).bp.closing) (hcr : b'.cr = (W s).bp.cr) (sent : List Tok)
    (hi : ins s = sent ++ insideB b') (sc : List (Int × Nat)) (e : List Int) :
    ∃ v', Rep M (deliverS M s b' [] sc e) v' ∧ VInv v' ∧ Conc M (deliverS M s b' [] sc e) v' ∧
      (∀ a, LiveId v' a → LiveId v a) ∧ (∀ x ∈ sent, ∀ a, LiveId v' a → x.id < a) ∧
      sent.Pairwise (fun a b => a.id < b.id) ∧ (∀ x ∈ sent, LiveId v x.id) := by
  obtain ⟨G, hgw, hgood, hrep⟩ := rep_deliver_shrink h.rep hn b' hc hcr sent hi sc e
  have hsh : Shrink ⟨v.pp, insideB b' ++ G, v.av, v.good⟩ v :=
    ⟨rfl, rfl, by rw [hgw]; exact List.sublist_append_right _ _, List.Sublist.refl _, rfl⟩
  have hv' := h.vinv.shrink hsh
  have hsorted := gw_sorted h.vinv
  rw [hgw, List.pairwise_append] at hsorted
  refine ⟨_, hrep, hv', ?_, fun a ha => live_shrink hsh ha, ?_, hsorted.1, ?_⟩
  · refine conc_deliver h.conc b' hp [] (fun _ hx => by cases hx) ?_ sc e h.conc.capN
    rw [hi]; exact List.sublist_append_right _ _
  · intro x hx a ⟨y, hy, hya⟩
    have hxg : x ∈ v.gw := by rw [hgw]; exact List.mem_append_left _ hx
    rw [← hya]
    rcases hy with hy | hy
    · exact hsorted.2.2 x hx y hy
    · exact h.vinv.low x hxg y hy
  · intro x hx
    exact ⟨x, Or.inl (by rw [hgw]; exact List.mem_append_left _ hx), rfl⟩

theorem ins_P0 {M : Nat} {s : Sys} {v : View} (hc : Conc M s v) : P0 (ins s) :=
  fun x hx => hc.p0 x (List.mem_append_right _ hx)

theorem cap_fail {M : Nat} {s : Sys} {v : View} (h : Good M s v) :
    s.cur = none → ∀ x ∈ data (v.av ++ bumpF M v.gw), x.retries ≤ v.pp.hwm := by
  intro hcur x hx
  rw [gw_nil_of_cur_none h.rep hcur] at hx
  exact h.conc.capN hcur x (by simpa [bumpF_nil] using hx)

theorem deliver_fail_core {M : Nat} {s : Sys} {v : View} (h : Good M s v)
    (hn : BrokerProd.needsRetry (W s).bp 0 = false) (b' : BrokerProd.St) (hp : Props.C02bp.PInv b')
    (hi : insideB b' = []) (hmode : b'.closing = true ∨ (b'.closing = false ∧ b'.cr 0 = true ∧ ins s ≠ []))
    (sc : List (Int × Nat)) (e : List Int) :
    ∃ v', Rep M (deliverS M s b' (ins s) sc e) v' ∧ VInv v' ∧ Conc M (deliverS M s b' (ins s) sc e) v' ∧
      (∀ a, LiveId v' a → LiveId v a) := by
  obtain ⟨hgood, hrep⟩ := rep_deliver_fail h.rep hn b' hi hmode sc e
  refine ⟨_, hrep, h.vinv.fail M hgood, ?_, fun a ha => live_fail M ha⟩
  refine conc_deliver h.conc b' hp (ins s) (ins_P0 h.conc) ?_ sc e (cap_fail h)
  rw [hi]; exact List.nil_sublist _

theorem good_deliver {M : Nat} (hM : 1 ≤ M) {s s' : Sys} {v : View} {still : Bool} (h : Good M s v)
    (hs : sysStep M s (.deliver 0 still) = some s') : ∃ v', Good M s' v' := by
  obtain ⟨vd, base, hpend, hd, rfl⟩ := deliver_split hs
  obtain ⟨sent, hsets, hb1, hb2⟩ := h.log.pend vd base hpend
  have hP : P0 (insideB (W s).bp) := ins_P0 h.conc
  have hN : NoSyn (insideB (W s).bp) := fun t ht => by rw [h.conc.pinv.data t ht]; simp
  have hpinv := (Props.C02bp.step_fifo M (W s).bp (.resp vd.toResp still) h.conc.pinv).2
  have hins : ins s = sent ++ ((W s).bp.buffer ++ (W s).bp.wait.toList) := by
    simp [ins, insideB, Props.C02bp.inside, hsets]
  rw [mid_deliverS]
  cases hn : BrokerProd.needsRetry (W s).bp 0 with
  | false =>
    cases vd with
    | ok =>
      obtain ⟨a1, a2, a3, a4, a5⟩ := resp_ok_spec M (W s).bp sent still hsets hn hP
      rw [a5]
      obtain ⟨v', r1, r2, r3, r4, r5, r6, r7⟩ := deliver_shrink_core h hn _ hpinv a1 a2 sent
        (by rw [hins, a4]) (s.succ ++ offs sent base) s.errs
      exact ⟨v', r1, r2, r3, log_deliver_ok h.log r4 _ _ _ sent base hb1 (hb2 rfl) r6 r7 r5⟩
    | fatal =>
      obtain ⟨a1, a2, a3, a4, a5⟩ := resp_fatal_spec M hM (W s).bp sent still hsets hn hP
      rw [a5]
      obtain ⟨v', r1, r2, r3, r4, _⟩ := deliver_shrink_core h hn _ hpinv a1 a2 sent
        (by rw [hins, a4]) s.succ (s.errs ++ sent.map (·.id))
      exact ⟨v', r1, r2, r3, log_deliver_same h.log r4 _ _ _⟩
    | retriable a =>
      cases sent with
      | nil =>
        obtain ⟨a1, a2, a3, a4, a5⟩ := resp_retr_nil_spec M (W s).bp a still hsets hn hP
        rw [a5]
        obtain ⟨v', r1, r2, r3, r4, _⟩ := deliver_shrink_core h hn _ hpinv a1 a2 []
          (by rw [hins, a4]) s.succ s.errs
        exact ⟨v', r1, r2, r3, log_deliver_same h.log r4 _ _ _⟩
      | cons t r =>
        obtain ⟨a1, a2, a3, a4, a5⟩ := resp_retr_cons_spec M hM (W s).bp t r a still hsets hP hN
        rw [a5]
        have hcl : (W s).bp.closing = false := by
          rw [needsRetry_iff] at hn; cases hc : (W s).bp.closing <;> simp_all
        obtain ⟨v', r1, r2, r3, r4⟩ := deliver_fail_core h hn _ hpinv a4
          (Or.inr ⟨by rw [a1]; exact hcl, a2, by rw [hins]; simp⟩) s.succ (s.errs ++ errOut M (ins s))
        refine ⟨v', ?_, r2, ?_, ?_⟩
        · simpa [deliverS, bumpF_nil] using r1
        · simpa [deliverS, bumpF_nil] using r3
        · have := log_deliver_same (M := M) h.log r4 (BrokerProd.step M (W s).bp
            (.resp (Pipeline.Verdict.retriable a).toResp still)).1 (ins s) (s.errs ++ errOut M (ins s))
          simpa [deliverS, bumpF_nil] using this
    | conn a =>
      obtain ⟨a1, a2, a3, a4, a5⟩ := resp_conn_spec M (W s).bp sent a still hsets hP hN
      rw [a5]
      obtain ⟨v', r1, r2, r3, r4⟩ := deliver_fail_core h hn _ hpinv a4 (Or.inl a1) s.succ
        (s.errs ++ errOut M (ins s))
      refine ⟨v', ?_, r2, ?_, ?_⟩
      · simpa [deliverS, bumpF_nil] using r1
      · simpa [deliverS, bumpF_nil] using r3
      · have := log_deliver_same (M := M) h.log r4 (BrokerProd.step M (W s).bp
          (.resp (Pipeline.Verdict.conn a).toResp still)).1 (ins s) (s.errs ++ errOut M (ins s))
        simpa [deliverS, bumpF_nil] using this
  | true =>
    have hempty : ins s = [] := by
      have := h.conc.pinv.quiet 0 hn
      rwa [onPart_P0 hP] at this
    rw [hempty] at hins
    have hsent : sent = [] := (List.append_eq_nil_iff.1 hins.symm).1
    have hbw := (List.append_eq_nil_iff.1 hins.symm).2
    have hbuf : (W s).bp.buffer = [] := (List.append_eq_nil_iff.1 hbw).1
    have hwait : (W s).bp.wait = none := by
      have := (List.append_eq_nil_iff.1 hbw).2
      cases hw : (W s).bp.wait with
      | none => rfl
      | some w => rw [hw] at this; simp at this
    subst hsent
    obtain ⟨a1, a2, a3, a4, a5⟩ := resp_empty_spec M hM (W s).bp vd still hsets hbuf hwait
    rw [a5]
    have hcd : ∀ v', (s.cur = none → ∀ x ∈ data v'.av, x.retries ≤ v'.pp.hwm) →
        Conc M (deliverS M s (BrokerProd.step M (W s).bp (.resp vd.toResp still)).1 [] s.succ s.errs) v' :=
      fun v' hcap => conc_deliver h.conc _ hpinv [] (fun _ hx => by cases hx)
        (by rw [a3]; exact List.nil_sublist _) s.succ s.errs hcap
    rcases rep_deliver_empty h.rep hn _ a1 a3 a4 h.conc.finq s.succ s.errs with r | ⟨hg, r⟩
    · exact ⟨v, r, h.vinv, hcd v h.conc.capN, log_deliver_same h.log (fun a ha => ha) _ _ _⟩
    · exact ⟨_, r, h.vinv.fail M hg, hcd _ (cap_fail h), log_deliver_same h.log (fun a ha => live_fail M ha) _ _ _⟩

end Lemmas.C02sys
