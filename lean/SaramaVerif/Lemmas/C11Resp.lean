import SaramaVerif.Lemmas.C11Keeps
/-
  C11: assembly – annotated log, single-response theorem under read-committed, generic history induction.
-/
namespace Lemmas.C11
open Model.ConsumerParse Model.Txn Lemmas.C03

/-- annotate `A` knowing that `T` follows it in the log -/
def annotS (rc : Bool) : List LUnit → List LUnit → List (LUnit × Bool)
  | [], _ => []
  | u :: us, T => (u, keepIso rc u (us ++ T)) :: annotS rc us T

theorem annot_append (rc : Bool) : ∀ (A T : List LUnit), annot rc (A ++ T) = annotS rc A T ++ annot rc T
  | [], _ => rfl
  | u :: us, T => by simp [annot, annotS, annot_append rc us T]

theorem annotS_append (rc : Bool) : ∀ (A B T : List LUnit), annotS rc (A ++ B) T = annotS rc A (B ++ T) ++ annotS rc B T
  | [], _, _ => rfl
  | u :: us, B, T => by simp [annotS, annotS_append rc us B T, List.append_assoc]

theorem annotS_fst (rc : Bool) : ∀ (A T : List LUnit), (annotS rc A T).map Prod.fst = A
  | [], _ => rfl
  | u :: us, T => by simp [annotS, annotS_fst rc us T]

theorem annot_fst (rc : Bool) : ∀ (L : List LUnit), (annot rc L).map Prod.fst = L
  | [] => rfl
  | u :: us => by simp [annot, annot_fst rc us]

theorem annotS_blks (rc : Bool) : ∀ (blks : List LBlock) (T : List LUnit),
    annotS rc (blks.map LUnit.blk) T = blks.map (fun b => (LUnit.blk b, true))
  | [], _ => rfl
  | x :: xs, T => by
      simp only [List.map_cons, annotS, annotS_blks rc xs T]
      cases rc <;> simp [keepIso, keepRC, unitIsControl]

theorem annotS_units (rc : Bool) : ∀ (es : List Entry) (post : List LUnit),
    annotS rc (es.flatMap entryUnits) post = annUnits es (truthKeeps rc es post)
  | [], _ => rfl
  | .legacy blks :: es, post => by
      simp only [List.flatMap_cons, entryUnits, annotS_append, annotS_blks, truthKeeps, annUnits, annotS_units rc es post]
  | .batch b :: es, post => by
      simp only [List.flatMap_cons, entryUnits, truthKeeps, annUnits, List.cons_append, List.nil_append, annotS,
        annotS_units rc es post]

theorem truthKeeps_length (rc : Bool) : ∀ (es : List Entry) (post : List LUnit), (truthKeeps rc es post).length = es.length
  | [], _ => rfl
  | .legacy _ :: es, post => by simp [truthKeeps, truthKeeps_length rc es post]
  | .batch _ :: es, post => by simp [truthKeeps, truthKeeps_length rc es post]

theorem segsWF_ann (tsw : Bool) : ∀ (AL : List (LUnit × Bool)) (b : Int), LogWF tsw b (AL.map Prod.fst) →
    SegsWF b (annSegs tsw AL)
  | [], _, _ => trivial
  | p :: ps, b, ⟨h1, h2, h3, h4⟩ => ⟨h1, h2, h3, segsWF_ann tsw ps _ h4⟩

theorem visibleIso_eq (rc tsw : Bool) (L : List LUnit) :
    visibleIso rc tsw L = segVis (annSegs tsw (annot rc L)) := by
  simp only [visibleIso, segVis, annSegs, List.flatMap_map, unitSeg]
  rfl

theorem logWF_sorted (tsw : Bool) : ∀ (L : List LUnit) (b : Int), LogWF tsw b L →
    HiSorted L ∧ ∀ u ∈ L, b < unitHi u
  | [], _, _ => ⟨List.Pairwise.nil, fun _ h => by cases h⟩
  | u :: us, b, ⟨_, _, h3, h4⟩ => by
      have ⟨i1, i2⟩ := logWF_sorted tsw us _ h4
      refine ⟨List.Pairwise.cons i2 i1, ?_⟩
      intro v hv
      rcases List.mem_cons.1 hv with rfl | hv
      · exact h3
      · have := i2 v hv; omega

theorem decodeView_id {es : List Entry} (hb : ∀ b, Entry.batch b ∈ es → b.recs ≠ [])
    (hl : ∀ blks, Entry.legacy blks ∈ es → blks ≠ []) : decodeView es = es := by
  unfold decodeView
  apply List.filter_eq_self.2
  intro e he
  cases e with
  | legacy blks =>
    have := hl blks he
    simp only [entryCount, ne_eq]
    exact decide_eq_true (fun h => this (List.eq_nil_of_length_eq_zero h))
  | batch b =>
    have := hb b he
    simp only [entryCount, ne_eq]
    exact decide_eq_true (fun h => this (List.eq_nil_of_length_eq_zero h))

theorem nRecs_ne_nil {es : List Entry} (h : nRecs es ≠ 0) : es ≠ [] := by
  intro he; subst he; exact h rfl

/-- **single response, read-committed**: a faithful data response (with its faithful aborted-transaction index) of
    a well-formed transactional log: what is handed over is exactly the read-committed-visible part of the LOG with
    `asked ≤ offset < next`; the next offset is strictly larger and lies beyond every record of the response
    (control records included). -/
theorem resp_rc (cfg : Cfg) (hrc : cfg.readCommitted = true) (L : List LUnit) (b0 : Int) (st : PState)
    (es : List Entry) (pt : Bool) (idx : List (Int × Int))
    (hwf : LogWF cfg.tsFromWrapper b0 L) (hbase : BaseWF L) (hf : FaithfulTxnData L st.offset es idx)
    (hn : nRecs es ≠ 0) :
    (parseBlock cfg st (.data es pt idx)).1 =
      window st.offset (parseBlock cfg st (.data es pt idx)).2.1.offset (visibleIso true cfg.tsFromWrapper L) ∧
    st.offset < (parseBlock cfg st (.data es pt idx)).2.1.offset ∧
    (parseBlock cfg st (.data es pt idx)).2.2 = .ok ∧
    (parseBlock cfg st (.data es pt idx)).2.1.fetchSize = cfg.fetchDefault ∧
    (∀ e ∈ es, ∀ r ∈ entryRecs cfg.tsFromWrapper e, r.off < (parseBlock cfg st (.data es pt idx)).2.1.offset) := by
  obtain ⟨⟨pre, post, hL, hpre, hhead, hne, hbad⟩, hnoempty, hiEnd, hend, hidx⟩ := hf
  have hdv := decodeView_id hnoempty hne
  have hes := nRecs_ne_nil hn
  have ⟨hsorted, _⟩ := logWF_sorted _ L b0 hwf
  -- every unit of the run reaches the asked offset
  have hrun : ∀ u ∈ es.flatMap entryUnits, st.offset ≤ unitHi u := by
    intro u hu
    match hU : es.flatMap entryUnits with
    | [] => rw [hU] at hu; cases hu
    | u0 :: us =>
      have h0 := hhead u0 (by rw [hU]; rfl)
      rw [hU] at hu
      rcases List.mem_cons.1 hu with rfl | hu
      · exact h0
      · have hs2 := hsorted
        rw [hL, hU] at hs2
        unfold HiSorted at hs2
        rw [List.append_assoc, List.pairwise_append] at hs2
        have := (List.pairwise_cons.1 (List.pairwise_append.1 hs2.2.1).1).1 u hu
        omega
  have hk := keeps_truth cfg hrc L pre post es idx st.offset hiEnd hL hsorted hbase hidx hpre hrun hend es []
    (sortAborted idx) [] rfl (JInv.init idx)
  -- the annotated log
  have hann : annot true L = annotS true pre (es.flatMap entryUnits ++ post) ++
      annUnits es (truthKeeps true es post) ++ annot true post := by
    rw [hL, List.append_assoc, annot_append, annot_append, annotS_units, List.append_assoc]
  have hwfA : SegsWF b0 (annSegs cfg.tsFromWrapper (annot true L)) :=
    segsWF_ann _ _ _ (by rw [annot_fst]; exact hwf)
  rw [hann] at hwfA
  have hlen := truthKeeps_length true es post
  have hheadA : ∀ p, (annUnits es (truthKeeps true es post)).head? = some p → st.offset ≤ unitHi p.1 := by
    intro p hp
    have hm : p ∈ annUnits es (truthKeeps true es post) := List.mem_of_mem_head? hp
    rw [← annotS_units] at hm
    have : p.1 ∈ (annotS true (es.flatMap entryUnits) post).map Prod.fst := List.mem_map.2 ⟨p, hm, rfl⟩
    rw [annotS_fst] at this
    exact hrun _ this
  have ⟨r1, r2, r3⟩ := resp_core cfg.tsFromWrapper es (truthKeeps true es post)
    (annotS true pre (es.flatMap entryUnits ++ post)) (annot true post) b0 st.offset hlen hwfA (by
      intro p hp
      have : p.1 ∈ (annotS true pre (es.flatMap entryUnits ++ post)).map Prod.fst := List.mem_map.2 ⟨p, hp, rfl⟩
      rw [annotS_fst] at this
      exact hpre _ this) hheadA hne hes
  have hpe := parse_eq_walk cfg es st.offset (sortAborted idx) [] hbad
  rw [hk] at hpe
  have r3' : ∀ e ∈ es, ∀ r ∈ entryRecs cfg.tsFromWrapper e,
      r.off < (segWalk st.offset (entrySegs cfg.tsFromWrapper es (truthKeeps true es post))).2 := by
    intro e he r hr
    obtain ⟨s, hs, hrs⟩ := entrySegs_mem cfg.tsFromWrapper hlen e he
    exact r3 s hs r (by rw [hrs]; exact hr)
  rw [visibleIso_eq, hann]
  simp only [parseBlock, hn, ↓reduceIte, hdv, hpe]
  first | exact ⟨r1, r2, r3'⟩ | exact ⟨r1, r2, trivial, trivial, r3'⟩

/-! ### generic induction over a history -/

def HistOK (cfg : Cfg) (OK : PState → Block → Prop) : PState → List Block → Prop
  | _, [] => True
  | st, b :: bs => OK st b ∧ HistOK cfg OK (parseBlock cfg st b).2.1 bs

theorem hist_window (cfg : Cfg) (V : List SRec) (b0 : Int) (hV : Asc b0 V) (OK : PState → Block → Prop)
    (hstep : ∀ st b, OK st b → (parseBlock cfg st b).1 = window st.offset (parseBlock cfg st b).2.1.offset V ∧
      st.offset ≤ (parseBlock cfg st b).2.1.offset) :
    ∀ (bs : List Block) (st : PState), HistOK cfg OK st bs →
      (run cfg st bs).1 = window st.offset (run cfg st bs).2.offset V ∧ st.offset ≤ (run cfg st bs).2.offset
  | [], st, _ => by
      refine ⟨?_, Int.le_refl _⟩
      show [] = window st.offset st.offset V
      unfold window
      symm; apply List.filter_eq_nil_iff.2
      intro r _; simp only [decide_eq_true_eq]; omega
  | b :: bs, st, ⟨hf, hrest⟩ => by
      have ⟨s1, s2⟩ := hstep st b hf
      have ⟨i1, i2⟩ := hist_window cfg V b0 hV OK hstep bs _ hrest
      simp only [run]
      refine ⟨?_, by omega⟩
      rw [s1, i1]
      exact (window_split hV s2 i2).symm

end Lemmas.C11
