import SaramaVerif.Model.Txn
/-
  C11: the sorted aborted-transaction index and its consumption (`getAbortedTransactions`, the
  `for _, txn := range abortedTransactions` loop of parseResponse).
-/
namespace Lemmas.C11
open Model.ConsumerParse

/-- sorted by first offset -/
def SortedA : List (Int × Int) → Prop
  | [] => True
  | x :: xs => (∀ y ∈ xs, x.2 ≤ y.2) ∧ SortedA xs

theorem mem_insAborted (x : Int × Int) : ∀ (l : List (Int × Int)) (t : Int × Int), t ∈ insAborted x l ↔ t = x ∨ t ∈ l
  | [], t => by simp [insAborted]
  | y :: ys, t => by
      unfold insAborted
      split
      · simp
      · simp only [List.mem_cons, mem_insAborted x ys t]
        constructor
        · rintro (h | h | h)
          · exact Or.inr (Or.inl h)
          · exact Or.inl h
          · exact Or.inr (Or.inr h)
        · rintro (h | h | h)
          · exact Or.inr (Or.inl h)
          · exact Or.inl h
          · exact Or.inr (Or.inr h)

theorem sorted_insAborted (x : Int × Int) : ∀ (l : List (Int × Int)), SortedA l → SortedA (insAborted x l)
  | [], _ => ⟨(fun _ h => by cases h), trivial⟩
  | y :: ys, ⟨h1, h2⟩ => by
      unfold insAborted
      split
      · rename_i hlt
        refine ⟨?_, h1, h2⟩
        intro z hz
        rcases List.mem_cons.1 hz with rfl | hz
        · omega
        · have := h1 z hz; omega
      · rename_i hge
        refine ⟨?_, sorted_insAborted x ys h2⟩
        intro z hz
        rcases (mem_insAborted x ys z).1 hz with rfl | hz
        · omega
        · exact h1 z hz

theorem sorted_sortAborted : ∀ (l : List (Int × Int)), SortedA (sortAborted l)
  | [] => trivial
  | x :: xs => sorted_insAborted x _ (sorted_sortAborted xs)

/-- sorting keeps exactly the listed pairs: the result does not depend on the order of the index -/
theorem mem_sortAborted : ∀ (l : List (Int × Int)) (t : Int × Int), t ∈ sortAborted l ↔ t ∈ l
  | [], t => by simp [sortAborted]
  | x :: xs, t => by simp [sortAborted, mem_insAborted, mem_sortAborted xs t]

/-- consuming a sorted index up to `last`: what remains are exactly the entries beginning above `last` (still
    sorted); the producers of all other entries have joined the aborted set -/
theorem consume_spec (last : Int) : ∀ (rem : List (Int × Int)) (abs : List Int), SortedA rem →
    SortedA (consumeAborted last rem abs).1 ∧
    (∀ t, t ∈ (consumeAborted last rem abs).1 ↔ t ∈ rem ∧ last < t.2) ∧
    (∀ p, p ∈ (consumeAborted last rem abs).2 ↔ p ∈ abs ∨ ∃ f, (p, f) ∈ rem ∧ f ≤ last)
  | [], abs, _ => ⟨trivial, fun t => by simp [consumeAborted], fun p => by simp [consumeAborted]⟩
  | t0 :: ts, abs, ⟨h1, h2⟩ => by
      unfold consumeAborted
      by_cases h : t0.2 > last
      · simp only [h, ↓reduceIte]
        refine ⟨⟨h1, h2⟩, ?_, ?_⟩
        · intro t
          constructor
          · intro ht
            refine ⟨ht, ?_⟩
            rcases List.mem_cons.1 ht with rfl | ht
            · omega
            · have := h1 t ht; omega
          · exact fun h => h.1
        · intro p
          constructor
          · exact Or.inl
          · rintro (hp | ⟨f, hf, hle⟩)
            · exact hp
            · rcases List.mem_cons.1 hf with heq | hf
              · rw [← heq] at h; simp only at h; omega
              · have := h1 _ hf; simp only at this; omega
      · simp only [h, ↓reduceIte]
        have ⟨i1, i2, i3⟩ := consume_spec last ts (t0.1 :: abs) h2
        refine ⟨i1, ?_, ?_⟩
        · intro t
          rw [i2 t]
          constructor
          · exact fun ⟨a, b⟩ => ⟨List.mem_cons_of_mem _ a, b⟩
          · rintro ⟨a, b⟩
            rcases List.mem_cons.1 a with rfl | a
            · omega
            · exact ⟨a, b⟩
        · intro p
          rw [i3 p]
          constructor
          · rintro (hp | ⟨f, hf, hle⟩)
            · rcases List.mem_cons.1 hp with rfl | hp
              · exact Or.inr ⟨t0.2, List.mem_cons_self, by omega⟩
              · exact Or.inl hp
            · exact Or.inr ⟨f, List.mem_cons_of_mem _ hf, hle⟩
          · rintro (hp | ⟨f, hf, hle⟩)
            · exact Or.inl (List.mem_cons_of_mem _ hp)
            · rcases List.mem_cons.1 hf with heq | hf
              · left; rw [← heq]; exact List.mem_cons_self
              · exact Or.inr ⟨f, hf, hle⟩

end Lemmas.C11
