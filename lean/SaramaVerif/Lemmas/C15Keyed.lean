import SaramaVerif.Model.Metadata
/-
  Helper lemmas for C15: keyed lists (Go maps), insertion sort. Core Lean only.
-/
namespace Lemmas.C15
open Model.Metadata

section Keyed
variable {α : Type} (key : α → Int)

theorem kget_nil (k : Int) : kget key k ([] : List α) = none := rfl

theorem kget_cons (k : Int) (a : α) (m : List α) :
    kget key k (a :: m) = if key a = k then some a else kget key k m := by
  unfold kget
  by_cases h : key a = k <;> simp [h]

theorem kget_append (k : Int) (m₁ m₂ : List α) :
    kget key k (m₁ ++ m₂) = (kget key k m₁).or (kget key k m₂) := by
  induction m₁ with
  | nil => simp [kget_nil]
  | cons a m ih =>
    simp only [List.cons_append, kget_cons]
    by_cases h : key a = k <;> simp [h, ih]

theorem kget_some {k : Int} {m : List α} {a : α} (h : kget key k m = some a) : key a = k ∧ a ∈ m := by
  unfold kget at h
  have h1 := List.find?_some h
  have h2 := List.mem_of_find?_eq_some h
  exact ⟨by simpa using h1, h2⟩

theorem kget_none {k : Int} {m : List α} : kget key k m = none ↔ ∀ a ∈ m, key a ≠ k := by
  unfold kget
  simp [List.find?_eq_none]

theorem kget_isSome {k : Int} {m : List α} : (kget key k m).isSome ↔ ∃ a ∈ m, key a = k := by
  unfold kget
  simp [List.find?_isSome]

theorem kget_kerase (k k' : Int) (m : List α) :
    kget key k (kerase key k' m) = if k = k' then none else kget key k m := by
  induction m with
  | nil => simp [kerase, kget_nil]
  | cons a m ih =>
    unfold kerase at ih ⊢
    by_cases h1 : key a = k'
    · simp only [List.filter_cons, h1, ne_eq, not_true_eq_false, decide_false, Bool.false_eq_true, ↓reduceIte, ih, kget_cons]
      by_cases h2 : k = k'
      · simp [h2]
      · have : ¬ k' = k := fun e => h2 e.symm
        simp [h2, this]
    · simp only [List.filter_cons, ne_eq, h1, not_false_eq_true, decide_true, ↓reduceIte, kget_cons, ih]
      by_cases h2 : k = k'
      · subst h2
        simp [h1]
      · simp [h2]

theorem kget_kset (k : Int) (a : α) (m : List α) :
    kget key k (kset key a m) = if key a = k then some a else kget key k m := by
  unfold kset
  rw [kget_cons, kget_kerase]
  by_cases h : key a = k
  · simp [h]
  · have : ¬ k = key a := fun e => h e.symm
    simp [h, this]

theorem kget_filter_key (q : Int → Bool) (k : Int) (m : List α) :
    kget key k (m.filter (fun a => q (key a))) = if q k then kget key k m else none := by
  induction m with
  | nil => simp [kget_nil]
  | cons a m ih =>
    by_cases hq : q (key a) = true
    · simp only [List.filter_cons, hq, ↓reduceIte, kget_cons, ih]
      by_cases h : key a = k
      · subst h
        simp [hq]
      · simp [h]
    · simp only [List.filter_cons, hq, Bool.false_eq_true, ↓reduceIte, ih, kget_cons]
      by_cases h : key a = k
      · have : ¬ q k = true := by rw [← h]; exact hq
        simp [this]
      · simp [h]

theorem mem_kerase {k : Int} {m : List α} {a : α} : a ∈ kerase key k m ↔ a ∈ m ∧ key a ≠ k := by
  unfold kerase
  simp [List.mem_filter]

/-- keys of a keyed list -/
def keys (m : List α) : List Int := m.map key

theorem keys_kerase_nodup {k : Int} {m : List α} (h : (keys key m).Nodup) : (keys key (kerase key k m)).Nodup := by
  unfold keys kerase at *
  exact List.Nodup.sublist (List.Sublist.map key List.filter_sublist) h

theorem keys_kset_nodup {a : α} {m : List α} (h : (keys key m).Nodup) : (keys key (kset key a m)).Nodup := by
  unfold kset
  have h1 := keys_kerase_nodup key (k := key a) h
  unfold keys at *
  rw [List.map_cons, List.nodup_cons]
  refine ⟨?_, h1⟩
  intro hm
  rcases List.mem_map.mp hm with ⟨b, hb, e⟩
  exact ((mem_kerase key).mp hb).2 e

/-- a fold of stores answers every key with the LAST element carrying it, older content otherwise -/
theorem kget_foldl_kset (k : Int) (l : List α) (m0 : List α) :
    kget key k (l.foldl (fun m a => kset key a m) m0) = (kget key k l.reverse).or (kget key k m0) := by
  induction l generalizing m0 with
  | nil => simp [kget_nil]
  | cons a l ih =>
    simp only [List.foldl_cons, List.reverse_cons]
    rw [ih, kget_append, kget_kset, kget_cons, kget_nil]
    by_cases h : key a = k
    · simp [h]
    · simp [h]

theorem keys_foldl_kset_nodup (l : List α) (m0 : List α) (h : (keys key m0).Nodup) :
    (keys key (l.foldl (fun m a => kset key a m) m0)).Nodup := by
  induction l generalizing m0 with
  | nil => simpa using h
  | cons a l ih => exact ih _ (keys_kset_nodup key h)

/-- membership in the keys ↔ lookup succeeds -/
theorem mem_keys_iff {k : Int} {m : List α} : k ∈ keys key m ↔ (kget key k m).isSome := by
  rw [kget_isSome]
  unfold keys
  simp [List.mem_map]

end Keyed

/-! ### insertion sort -/
theorem mem_ins {x y : Int} {l : List Int} : y ∈ ins x l ↔ y = x ∨ y ∈ l := by
  induction l with
  | nil => simp [ins]
  | cons z zs ih =>
    unfold ins
    split
    · simp
    · simp only [List.mem_cons, ih]
      constructor
      · rintro (h | h | h)
        · exact Or.inr (Or.inl h)
        · exact Or.inl h
        · exact Or.inr (Or.inr h)
      · rintro (h | h | h)
        · exact Or.inr (Or.inl h)
        · exact Or.inl h
        · exact Or.inr (Or.inr h)

theorem mem_isort {y : Int} {l : List Int} : y ∈ isort l ↔ y ∈ l := by
  induction l with
  | nil => simp [isort]
  | cons x xs ih => simp [isort, mem_ins, ih]

theorem ins_strict {x : Int} {l : List Int} (hx : x ∉ l) (h : l.Pairwise (· < ·)) : (ins x l).Pairwise (· < ·) := by
  induction l with
  | nil => simp [ins]
  | cons z zs ih =>
    unfold ins
    have hz : x ≠ z := fun e => hx (by simp [e])
    have hzs : x ∉ zs := fun e => hx (by simp [e])
    rw [List.pairwise_cons] at h
    split
    · rename_i hle
      have hlt : x < z := by omega
      rw [List.pairwise_cons]
      refine ⟨?_, List.pairwise_cons.mpr h⟩
      intro y hy
      rcases List.mem_cons.mp hy with e | e
      · omega
      · have := h.1 y e; omega
    · rename_i hle
      rw [List.pairwise_cons]
      refine ⟨?_, ih hzs h.2⟩
      intro y hy
      rcases mem_ins.mp hy with e | e
      · omega
      · exact h.1 y e

theorem isort_strict {l : List Int} (h : l.Nodup) : (isort l).Pairwise (· < ·) := by
  induction l with
  | nil => simp [isort]
  | cons x xs ih =>
    rw [List.nodup_cons] at h
    unfold isort
    exact ins_strict (fun e => h.1 (mem_isort.mp e)) (ih h.2)

/-- two strictly sorted lists with the same members are equal -/
theorem strict_sorted_ext {l₁ l₂ : List Int} (h₁ : l₁.Pairwise (· < ·)) (h₂ : l₂.Pairwise (· < ·))
    (h : ∀ x, x ∈ l₁ ↔ x ∈ l₂) : l₁ = l₂ := by
  induction l₁ generalizing l₂ with
  | nil =>
    cases l₂ with
    | nil => rfl
    | cons b bs => exact absurd ((h b).mpr (by simp)) (by simp)
  | cons a as ih =>
    cases l₂ with
    | nil => exact absurd ((h a).mp (by simp)) (by simp)
    | cons b bs =>
      rw [List.pairwise_cons] at h₁ h₂
      have hab : a = b := by
        have h1 := (h a).mp (by simp)
        have h2 := (h b).mpr (by simp)
        rcases List.mem_cons.mp h1 with e | e
        · exact e
        · rcases List.mem_cons.mp h2 with e' | e'
          · exact e'.symm
          · have := h₂.1 a e; have := h₁.1 b e'; omega
      subst hab
      congr 1
      apply ih h₁.2 h₂.2
      intro x
      constructor
      · intro hx
        have := (h x).mp (by simp [hx])
        rcases List.mem_cons.mp this with e | e
        · have := h₁.1 x hx; omega
        · exact e
      · intro hx
        have := (h x).mpr (by simp [hx])
        rcases List.mem_cons.mp this with e | e
        · have := h₂.1 x hx; omega
        · exact e

end Lemmas.C15
