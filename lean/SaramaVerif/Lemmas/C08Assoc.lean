import SaramaVerif.Model.BalancePlan
/-
  Lemmas about the association-list operations and `Plan.add` used by the balance models.
-/
namespace Model.Balance
namespace AL
variable {α : Type}

theorem get_set_same (a : AL α) (k : Nat) (v : List α) : get (set a k v) k = v := by
  induction a with
  | nil => simp [set, get]
  | cons e r ih =>
    obtain ⟨k', v'⟩ := e
    by_cases h : k' = k
    · simp [set, get, h]
    · simp [set, get, h, ih]

theorem get_set_other (a : AL α) (k k2 : Nat) (v : List α) (h : k ≠ k2) : get (set a k v) k2 = get a k2 := by
  induction a with
  | nil => simp [set, get, h]
  | cons e r ih =>
    obtain ⟨k', v'⟩ := e
    by_cases h1 : k' = k
    · subst h1; simp [set, get, h]
    · by_cases h2 : k' = k2
      · subst h2; simp [set, get, h1]
      · simp [set, get, h1, h2, ih]

theorem countAll_set [BEq α] (a : AL α) (k : Nat) (v : List α) (x : α) :
    countAll (set a k v) x + (get a k).count x = countAll a x + v.count x := by
  induction a with
  | nil => simp [set, get, countAll]
  | cons e r ih =>
    obtain ⟨k', v'⟩ := e
    by_cases h : k' = k
    · simp only [set, get, h, ↓reduceIte, countAll]; omega
    · simp only [set, get, h, ↓reduceIte, countAll]; omega

theorem mem_set {a : AL α} {k : Nat} {v : List α} {e : Nat × List α} (h : e ∈ set a k v) :
    e = (k, v) ∨ e ∈ a := by
  induction a with
  | nil => simp [set] at h; exact Or.inl h
  | cons e' r ih =>
    obtain ⟨k', v'⟩ := e'
    by_cases h1 : k' = k
    · simp only [set, h1, ↓reduceIte, List.mem_cons] at h
      rcases h with h | h
      · exact Or.inl h
      · exact Or.inr (List.mem_cons_of_mem _ h)
    · simp only [set, h1, ↓reduceIte, List.mem_cons] at h
      rcases h with h | h
      · exact Or.inr (by rw [h]; exact List.mem_cons_self)
      · rcases ih h with h | h
        · exact Or.inl h
        · exact Or.inr (List.mem_cons_of_mem _ h)

/-- whatever `get` returns non-trivially is an entry of the list -/
theorem get_mem {a : AL α} {k : Nat} {x : α} (h : x ∈ get a k) : (k, get a k) ∈ a := by
  induction a with
  | nil => simp [get] at h
  | cons e r ih =>
    obtain ⟨k', v'⟩ := e
    by_cases h1 : k' = k
    · subst h1; simp [get]
    · simp only [get, h1, ↓reduceIte] at h ⊢
      exact List.mem_cons_of_mem _ (ih h)

theorem keys_set (a : AL α) (k : Nat) (v : List α) (m : Nat) :
    m ∈ keys (set a k v) ↔ m = k ∨ m ∈ keys a := by
  induction a with
  | nil => simp [set, keys]
  | cons e r ih =>
    obtain ⟨k', v'⟩ := e
    by_cases h1 : k' = k
    · subst h1; simp [set, keys]
    · simp only [set, h1, ↓reduceIte]
      simp only [keys, List.map_cons, List.mem_cons] at ih ⊢
      rw [ih]
      constructor
      · rintro (h | h | h)
        · exact Or.inr (Or.inl h)
        · exact Or.inl h
        · exact Or.inr (Or.inr h)
      · rintro (h | h | h)
        · exact Or.inr (Or.inl h)
        · exact Or.inl h
        · exact Or.inr (Or.inr h)

theorem countAll_eq_zero_of_not_mem [BEq α] [LawfulBEq α] (a : AL α) (x : α)
    (h : ∀ e, e ∈ a → x ∉ e.2) : countAll a x = 0 := by
  induction a with
  | nil => rfl
  | cons e r ih =>
    obtain ⟨k', v'⟩ := e
    simp only [countAll]
    have h1 : v'.count x = 0 := List.count_eq_zero.mpr (h (k', v') List.mem_cons_self)
    rw [h1, ih (fun e he => h e (List.mem_cons_of_mem _ he))]

end AL

theorem count_map_pair (t t' : Topic) (p : Int) (ps : List Int) :
    (ps.map (fun q => ((t, q) : TP))).count (t', p) = if t' = t then ps.count p else 0 := by
  induction ps with
  | nil => simp
  | cons q r ih =>
    simp only [List.map_cons, List.count_cons, ih]
    by_cases h : t' = t
    · subst h
      by_cases h2 : q = p
      · subst h2; simp
      · have : ¬ (p = q) := fun e => h2 e.symm
        simp [h2]
    · have : ¬ (t = t') := fun e => h e.symm
      simp [h, this]

theorem countAll_add (plan : Plan) (m : Member) (t : Topic) (ps : List Int) (x : TP) :
    AL.countAll (plan.add m t ps) x = AL.countAll plan x + (ps.map (fun q => ((t, q) : TP))).count x := by
  unfold Plan.add
  cases ps with
  | nil => simp
  | cons q r =>
    simp only [List.isEmpty_cons, Bool.false_eq_true, ↓reduceIte]
    have := AL.countAll_set plan m (AL.get plan m ++ (q :: r).map (fun q => ((t, q) : TP))) x
    rw [List.count_append] at this
    omega

/-- a property of (holder, partition) pairs that `Plan.add` preserves when the added partitions have it -/
def PlanAll (P : Member → TP → Prop) (plan : Plan) : Prop := ∀ e, e ∈ plan → ∀ tp, tp ∈ e.2 → P e.1 tp

theorem planAll_add {P : Member → TP → Prop} {plan : Plan} (h : PlanAll P plan) (m : Member) (t : Topic)
    (ps : List Int) (hp : ∀ p, p ∈ ps → P m (t, p)) : PlanAll P (plan.add m t ps) := by
  unfold Plan.add
  split
  · exact h
  · intro e he tp htp
    rcases AL.mem_set he with rfl | he
    · simp only [List.mem_append, List.mem_map] at htp
      rcases htp with htp | ⟨q, hq, rfl⟩
      · exact h _ (AL.get_mem htp) tp htp
      · exact hp q hq
    · exact h e he tp htp

theorem heldOf_add (plan : Plan) (m m' : Member) (t t' : Topic) (ps : List Int) :
    heldOf (plan.add m' t' ps) m t = heldOf plan m t ++ (if m' = m ∧ t' = t then ps else []) := by
  unfold Plan.add heldOf
  cases ps with
  | nil => simp
  | cons q r =>
    simp only [List.isEmpty_cons, Bool.false_eq_true, ↓reduceIte]
    by_cases hm : m' = m
    · subst hm
      rw [AL.get_set_same, List.filterMap_append]
      congr 1
      by_cases ht : t' = t
      · subst ht
        simp only [and_self, ↓reduceIte]
        generalize q :: r = l
        induction l with
        | nil => rfl
        | cons a l ih => simp [ih]
      · simp only [ht, and_false, ↓reduceIte]
        generalize q :: r = l
        induction l with
        | nil => rfl
        | cons a l ih => simp [ih, ht]
    · rw [AL.get_set_other _ _ _ _ hm]
      simp [hm]

end Model.Balance
