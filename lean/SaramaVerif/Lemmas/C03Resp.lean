import SaramaVerif.Lemmas.C03Core
/-
  From the loop of parseResponse to the segment walk, and the single-response theorem over a log with
  keep-annotated units (shared by C03: static annotation "not a control batch", and C11: ground truth of the
  transactional log).
-/
namespace Lemmas.C03
open Model.ConsumerParse

/-- the keep decision parseResponse takes for each entry (legacy sets are always delivered; a control batch
    never; a batch of a producer currently in the aborted set not under read-committed) -/
def keeps (cfg : Cfg) : List Entry → List (Int × Int) → List Int → List Bool
  | [], _, _ => []
  | .legacy _ :: es, rem, abs => true :: keeps cfg es rem abs
  | .batch b :: es, rem, abs =>
      if b.control then
        false :: keeps cfg es (consumeAborted (batchLast b) rem abs).1 (absAfter b (consumeAborted (batchLast b) rem abs).2)
      else
        (!(decide (cfg.readCommitted ∧ b.txn ∧ b.pid ∈ (consumeAborted (batchLast b) rem abs).2))) ::
          keeps cfg es (consumeAborted (batchLast b) rem abs).1 (consumeAborted (batchLast b) rem abs).2

def entryRecs (tsw : Bool) : Entry → List SRec
  | .legacy blks => blks.flatMap (blockRecs tsw)
  | .batch b => batchRecs b

def entryHi : Entry → Int
  | .legacy blks => (blks.getLast?.map (·.off)).getD 0
  | .batch b => batchLast b

/-- legacy sets are always kept -/
def entryKeep : Entry → Bool → Bool
  | .legacy _, _ => true
  | .batch _, k => k

def entrySegs (tsw : Bool) : List Entry → List Bool → List Seg
  | e :: es, k :: ks => ⟨entryRecs tsw e, entryHi e, entryKeep e k⟩ :: entrySegs tsw es ks
  | _, _ => []

theorem keeps_length (cfg : Cfg) : ∀ es rem abs, (keeps cfg es rem abs).length = es.length
  | [], _, _ => rfl
  | .legacy _ :: es, rem, abs => by simp [keeps, keeps_length cfg es]
  | .batch b :: es, rem, abs => by
      unfold keeps; split <;> simp [keeps_length cfg es]

/-- the loop of parseResponse is the segment walk with the keep decisions `keeps` -/
theorem parse_eq_walk (cfg : Cfg) : ∀ (es : List Entry) (o : Int) (rem : List (Int × Int)) (abs : List Int),
    (∀ e ∈ es, entryBadCtl e = false) →
    parseEntries cfg es o rem abs =
      ((segWalk o (entrySegs cfg.tsFromWrapper es (keeps cfg es rem abs))).1,
       (segWalk o (entrySegs cfg.tsFromWrapper es (keeps cfg es rem abs))).2, Verdict.ok)
  | [], o, rem, abs, _ => rfl
  | .legacy blks :: es, o, rem, abs, hb => by
      have ih := parse_eq_walk cfg es (parseMessages cfg.tsFromWrapper blks o).2 rem abs
        (fun e he => hb e (List.mem_cons_of_mem _ he))
      simp only [parseEntries, keeps, entrySegs, segWalk, prepend, ih, ↓reduceIte]
      rfl
  | .batch b :: es, o, rem, abs, hb => by
      have hbad : (b.control && Ctl.bad b) = false := hb (.batch b) List.mem_cons_self
      have ih := fun rem' abs' => parse_eq_walk cfg es (parseRecords b o).2 rem' abs'
        (fun e he => hb e (List.mem_cons_of_mem _ he))
      simp only [parseEntries, batchStep, keeps]
      by_cases hc : b.control = true
      · have hnb : Ctl.bad b = false := by simpa [hc] using hbad
        simp only [hc, hnb, ↓reduceIte, Bool.false_eq_true, ih, entrySegs, segWalk, List.nil_append]
        rfl
      · simp only [hc, Bool.false_eq_true, ↓reduceIte]
        by_cases ha : cfg.readCommitted = true ∧ b.txn = true ∧ b.pid ∈ (consumeAborted (batchLast b) rem abs).2
        · simp only [ha, and_self, ↓reduceIte, ih, decide_true, Bool.not_true, entrySegs, segWalk,
            Bool.false_eq_true, List.nil_append]
          rfl
        · simp only [ha, ↓reduceIte, ih, prepend, decide_false, Bool.not_false, entrySegs, segWalk]
          rfl

/-! ### unit level vs entry level -/

def unitSeg (tsw : Bool) (p : LUnit × Bool) : Seg := ⟨unitRecs tsw p.1, unitHi p.1, p.2⟩

/-- keep-annotated units of a response: the blocks of a legacy set are all kept, a batch carries its flag -/
def annUnits : List Entry → List Bool → List (LUnit × Bool)
  | .legacy blks :: es, _ :: ks => blks.map (fun b => (LUnit.blk b, true)) ++ annUnits es ks
  | .batch b :: es, k :: ks => (LUnit.bat b, k) :: annUnits es ks
  | _, _ => []

def annSegs (tsw : Bool) (al : List (LUnit × Bool)) : List Seg := al.map (unitSeg tsw)

theorem segVis_blks (tsw : Bool) (blks : List LBlock) (rest : List Seg) :
    segVis (blks.map (fun b => unitSeg tsw (LUnit.blk b, true)) ++ rest) = blks.flatMap (blockRecs tsw) ++ segVis rest := by
  induction blks with
  | nil => rfl
  | cons x xs ih =>
    simp only [List.map_cons, List.cons_append, List.flatMap_cons, List.append_assoc]
    rw [← ih]
    simp [segVis, unitSeg, unitRecs]

/-- a non-empty run of legacy blocks at the head of a chain merges into one segment -/
theorem merge_blks (tsw : Bool) : ∀ (blks : List LBlock) (rest : List Seg) (b : Int), blks ≠ [] →
    SegsWF b (blks.map (fun x => unitSeg tsw (LUnit.blk x, true)) ++ rest) →
    SegsWF b (⟨blks.flatMap (blockRecs tsw), (blks.getLast?.map (·.off)).getD 0, true⟩ :: rest) ∧
    (∀ x ∈ blks, x.off ≤ (blks.getLast?.map (·.off)).getD 0)
  | [], _, _, h, _ => absurd rfl h
  | [x], rest, b, _, ⟨h1, h2, h3, h4⟩ => by
      simp only [List.flatMap_cons, List.flatMap_nil, List.append_nil, List.getLast?_singleton, Option.map_some,
        Option.getD_some]
      exact ⟨⟨h1, h2, h3, h4⟩, fun y hy => by rcases List.mem_singleton.1 hy with rfl; exact Int.le_refl _⟩
  | x :: y :: ys, rest, b, _, ⟨h1, h2, h3, h4⟩ => by
      have ⟨⟨i1, i2, i3, i4⟩, i5⟩ := merge_blks tsw (y :: ys) rest x.off (List.cons_ne_nil _ _) h4
      have hl : (x :: y :: ys).getLast? = (y :: ys).getLast? := by simp [List.getLast?_cons_cons]
      rw [hl]
      simp only [unitSeg, unitRecs, unitHi] at h1 h2 h3
      dsimp only at i1 i2 i3 ⊢
      refine ⟨⟨?_, ?_, by dsimp only; omega, i4⟩, ?_⟩
      · simp only [List.flatMap_cons]
        exact Asc.append h1 h2 (by omega) i1
      · intro r hr
        dsimp only
        simp only [List.flatMap_cons, List.mem_append] at hr
        rcases hr with hr | hr
        · have := h2 r hr; omega
        · exact i2 r (by simpa [List.flatMap_cons] using hr)
      · intro z hz
        rcases List.mem_cons.1 hz with rfl | hz
        · omega
        · exact i5 z hz

theorem unit_to_entry (tsw : Bool) : ∀ (es : List Entry) (ks : List Bool) (rest : List Seg) (b : Int),
    (∀ blks, Entry.legacy blks ∈ es → blks ≠ []) →
    SegsWF b (annSegs tsw (annUnits es ks) ++ rest) →
    SegsWF b (entrySegs tsw es ks ++ rest) ∧
    segVis (annSegs tsw (annUnits es ks) ++ rest) = segVis (entrySegs tsw es ks ++ rest)
  | [], _, _, _, _, h => by simpa [annUnits, annSegs, entrySegs] using h
  | _ :: _, [], _, _, _, h => by
      rename_i e es rest b _
      cases e <;> simpa [annUnits, annSegs, entrySegs] using h
  | .legacy blks :: es, k :: ks, rest, b, hne, h => by
      have hb : blks ≠ [] := hne blks List.mem_cons_self
      have e1 : annSegs tsw (annUnits (.legacy blks :: es) (k :: ks)) ++ rest =
          blks.map (fun x => unitSeg tsw (LUnit.blk x, true)) ++ (annSegs tsw (annUnits es ks) ++ rest) := by
        simp [annUnits, annSegs, List.map_append, List.append_assoc, Function.comp_def]
      rw [e1] at h ⊢
      have h' := SegsWF.append_right h
      have ⟨i1, i2⟩ := unit_to_entry tsw es ks rest _ (fun bl hbl => hne bl (List.mem_cons_of_mem _ hbl)) h'
      -- rebuild the chain with the tail replaced, then merge the head run
      have hrep : SegsWF b (blks.map (fun x => unitSeg tsw (LUnit.blk x, true)) ++ (entrySegs tsw es ks ++ rest)) :=
        SegsWF.replace_tail h i1
      have ⟨m1, _⟩ := merge_blks tsw blks _ b hb hrep
      refine ⟨by simpa [entrySegs, entryKeep, entryRecs, entryHi] using m1, ?_⟩
      rw [segVis_blks, i2]
      simp [entrySegs, segVis, entryRecs, entryKeep]
  | .batch bt :: es, k :: ks, rest, b, hne, h => by
      have e1 : annSegs tsw (annUnits (.batch bt :: es) (k :: ks)) ++ rest =
          unitSeg tsw (LUnit.bat bt, k) :: (annSegs tsw (annUnits es ks) ++ rest) := by
        simp [annUnits, annSegs]
      rw [e1] at h ⊢
      obtain ⟨h1, h2, h3, h4⟩ := h
      have ⟨i1, i2⟩ := unit_to_entry tsw es ks rest _ (fun bl hbl => hne bl (List.mem_cons_of_mem _ hbl)) h4
      refine ⟨⟨h1, h2, h3, i1⟩, ?_⟩
      simp only [entrySegs, List.cons_append]
      have : ∀ (s : Seg) (l : List Seg), segVis (s :: l) = (if s.keep then s.recs else []) ++ segVis l := by
        intro s l; simp [segVis]
      rw [this, this, i2]
      rfl

theorem entrySegs_ne_nil (tsw : Bool) : ∀ {es : List Entry} {ks : List Bool}, ks.length = es.length → es ≠ [] →
    entrySegs tsw es ks ≠ []
  | [], _, _, h => absurd rfl h
  | _ :: _, [], hl, _ => by simp at hl
  | _ :: _, _ :: _, _, _ => by simp [entrySegs]

/-- **single response, keep-annotated log**: the log (as annotated units) is `pre ++ run ++ post`, the run is the
    response's content, everything in `pre` ends below the asked offset `o` and the first unit of the run reaches
    `o`.  Then the walk delivers exactly the kept records of the LOG with `o ≤ offset < new offset`, and the
    offset grows strictly. -/
theorem resp_core (tsw : Bool) (es : List Entry) (ks : List Bool) (pre post : List (LUnit × Bool)) (b0 o : Int)
    (hlen : ks.length = es.length)
    (hwf : SegsWF b0 (annSegs tsw (pre ++ annUnits es ks ++ post)))
    (hpre : ∀ p ∈ pre, unitHi p.1 < o)
    (hhead : ∀ p, (annUnits es ks).head? = some p → o ≤ unitHi p.1)
    (hne : ∀ blks, Entry.legacy blks ∈ es → blks ≠ [])
    (hes : es ≠ []) :
    (segWalk o (entrySegs tsw es ks)).1 =
      window o (segWalk o (entrySegs tsw es ks)).2 (segVis (annSegs tsw (pre ++ annUnits es ks ++ post))) ∧
    o < (segWalk o (entrySegs tsw es ks)).2 ∧
    (∀ s ∈ entrySegs tsw es ks, ∀ r ∈ s.recs, r.off < (segWalk o (entrySegs tsw es ks)).2) := by
  have hsplit : annSegs tsw (pre ++ annUnits es ks ++ post) =
      annSegs tsw pre ++ (annSegs tsw (annUnits es ks) ++ annSegs tsw post) := by
    simp [annSegs, List.map_append, List.append_assoc]
  rw [hsplit] at hwf ⊢
  have h1 := SegsWF.append_right hwf
  have ⟨e1, e2⟩ := unit_to_entry tsw es ks (annSegs tsw post) _ hne h1
  have hnn := entrySegs_ne_nil tsw hlen hes
  -- the first entry reaches o
  have hhd : ∀ s, (entrySegs tsw es ks).head? = some s → o ≤ s.hi := by
    intro s hs
    match es, ks, hlen, hes with
    | e :: es', k :: ks', _, _ =>
      simp only [entrySegs, List.head?_cons, Option.some.injEq] at hs
      subst hs
      cases e with
      | batch bt => exact hhead (LUnit.bat bt, k) (by simp [annUnits])
      | legacy blks =>
        have hb : blks ≠ [] := hne blks List.mem_cons_self
        have h1' : SegsWF (lastHi b0 (annSegs tsw pre))
            (blks.map (fun x => unitSeg tsw (LUnit.blk x, true)) ++ (annSegs tsw (annUnits es' ks') ++ annSegs tsw post)) := by
          simpa [annUnits, annSegs, List.map_append, List.append_assoc, Function.comp_def] using h1
        have ⟨_, m2⟩ := merge_blks tsw blks _ _ hb h1'
        match blks, hb with
        | x :: xs, _ =>
          have := hhead (LUnit.blk x, true) (by simp [annUnits])
          have := m2 x List.mem_cons_self
          simp only [entryHi, unitHi] at *
          omega
  have ⟨w1, w2, w3, w4⟩ := walk_spec (SegsWF.append_left e1) hnn hhd
  refine ⟨?_, w2, w4⟩
  rw [segVis_append, e2, segVis_append, window_append, window_append, w1]
  have hp : window o (segWalk o (entrySegs tsw es ks)).2 (segVis (annSegs tsw pre)) = [] := by
    apply window_nil_of_lt
    intro r hr
    rcases segVis_mem hr with ⟨s, hs, hrs⟩
    have hle := SegsWF.recs_le_hi (SegsWF.append_left hwf) s hs r hrs
    unfold annSegs at hs
    rcases List.mem_map.1 hs with ⟨p, hp, rfl⟩
    have := hpre p hp
    simp only [unitSeg] at hle
    omega
  have hq : window o (segWalk o (entrySegs tsw es ks)).2 (segVis (annSegs tsw post)) = [] := by
    apply window_nil_of_ge
    intro r hr
    rcases segVis_mem hr with ⟨s, hs, hrs⟩
    have := SegsWF.recs_gt (SegsWF.append_right e1) s hs r hrs
    omega
  rw [hp, hq]; simp

/-- the offset after the walk does not depend on the keep decisions -/
theorem walk_offset_indep (tsw : Bool) : ∀ (es : List Entry) (ks ks' : List Bool) (o : Int), ks.length = ks'.length →
    (segWalk o (entrySegs tsw es ks)).2 = (segWalk o (entrySegs tsw es ks')).2
  | [], _, _, _, _ => by cases ‹List Bool› <;> cases ‹List Bool› <;> rfl
  | _ :: _, [], [], _, _ => rfl
  | _ :: _, [], _ :: _, _, h => by simp at h
  | _ :: _, _ :: _, [], _, h => by simp at h
  | e :: es, k :: ks, k' :: ks', o, h => by
      simp only [entrySegs, segWalk, segStep]
      exact walk_offset_indep tsw es ks ks' _ (by simpa using h)

theorem entrySegs_mem (tsw : Bool) : ∀ {es : List Entry} {ks : List Bool}, ks.length = es.length → ∀ e ∈ es,
    ∃ s ∈ entrySegs tsw es ks, s.recs = entryRecs tsw e
  | [], _, _, _, h => by cases h
  | _ :: _, [], hl, _, _ => by simp at hl
  | e0 :: es, k :: ks, hl, e, he => by
      rcases List.mem_cons.1 he with rfl | he
      · exact ⟨_, List.mem_cons_self, rfl⟩
      · obtain ⟨s, hs, hr⟩ := entrySegs_mem tsw (es := es) (ks := ks) (by simpa using hl) e he
        exact ⟨s, List.mem_cons_of_mem _ hs, hr⟩

end Lemmas.C03
