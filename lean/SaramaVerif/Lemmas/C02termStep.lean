/-
  C02 composition, progress, variant: every token-moving choice makes `vmu` strictly smaller.
-/
import SaramaVerif.Lemmas.C02termBP

set_option linter.unusedSimpArgs false

namespace Lemmas.C02sys
open Model Model.Pipeline Model.BrokerProd

theorem wW_mk (M : Nat) (q : List Tok) (b : St) (pend : Option (Pipeline.Verdict × Nat)) :
    wW M ⟨q, b, pend⟩ = lW (inW M) q + kW M b pend := by simp only [wW, kW]; omega

/-- a worker step that is lighter inside the worker makes the whole system lighter -/
theorem mu_bpRun {M B : Nat} {ws : List Nat} {s s' : Sys} {w : Nat} {q : List Tok}
    {pend' : Option (Pipeline.Verdict × Nat)} {off : Nat} {inp : In} (hnd : ws.Nodup) (hw : w ∈ ws)
    (hs : bpRun M s w q pend' off inp = some s')
    (hk : lW (inW M) q + kW M (step M (s.wk w).bp inp).1 pend' + oW M (step M (s.wk w).bp inp).2 + 1 ≤
      wW M (s.wk w)) : vmu M B ws s' + 1 ≤ vmu M B ws s := by
  obtain ⟨hwk, hpp, _, hd⟩ := bpRun_keep hs
  obtain ⟨hpq, hdq, _, _⟩ := bpRun_frame hs
  simp only [bpRun, hd, if_false, Option.some.injEq] at hs
  have hret := bpActs_retW M (step M (s.wk w).bp inp).2
    { s with wk := setW s.wk w ⟨q, (step M (s.wk w).bp inp).1, pend'⟩ } off
  rw [hs] at hret
  have hret' : lW (qW M 24 3) s'.ret = lW (qW M 24 3) s.ret + oW M (step M (s.wk w).bp inp).2 := hret
  have hsum := wsW_setW M ws hnd s.wk w ⟨q, (step M (s.wk w).bp inp).1, pend'⟩ hw
  have e := wW_mk M q (step M (s.wk w).bp inp).1 pend'
  simp only [vmu, hwk, hpp, hpq, hdq, hret']
  omega

theorem mu_bpRecv {M B : Nat} {ws : List Nat} {s s' : Sys} {w : Nat} {ov : Bool} (hnd : ws.Nodup) (hw : w ∈ ws)
    (hs : sysStep M s (.bpRecv w ov) = some s') : vmu M B ws s' + 1 ≤ vmu M B ws s := by
  cases hq : (s.wk w).inq with
  | nil => simp [sysStep, hq] at hs
  | cons t r =>
    simp only [sysStep, hq] at hs
    have hwait := recv_disabled M _ t ov (bpRun_keep hs).2.2.2
    refine mu_bpRun hnd hw hs ?_
    have := recv_weight M (s.wk w).bp t ov (s.wk w).pend hwait
    simp only [wW, hq, lW_cons, kW] at this ⊢
    omega

theorem mu_handover {M B : Nat} {ws : List Nat} {s s' : Sys} {w : Nat} (hnd : ws.Nodup) (hw : w ∈ ws)
    (hs : sysStep M s (.handover w) = some s') : vmu M B ws s' + 1 ≤ vmu M B ws s := by
  simp only [sysStep] at hs
  refine mu_bpRun hnd hw hs ?_
  have := handover_weight M (s.wk w).bp (s.wk w).pend (bpRun_keep hs).2.2.2
  simp only [wW, kW] at this ⊢
  omega

theorem mu_deliver {M B : Nat} (hM : 1 ≤ M) {ws : List Nat} {s s' : Sys} {w : Nat} {still : Bool}
    (hnd : ws.Nodup) (hw : w ∈ ws)
    (hpend : ∀ vd base, (s.wk w).pend = some (vd, base) → ∃ sent, (s.wk w).bp.sets = [sent])
    (hP : P0 (insideB (s.wk w).bp)) (hs : sysStep M s (.deliver w still) = some s') :
    vmu M B ws s' + 1 ≤ vmu M B ws s := by
  cases hp : (s.wk w).pend with
  | none => simp [sysStep, hp] at hs
  | some vb =>
    obtain ⟨v, base⟩ := vb
    simp only [sysStep, hp] at hs
    obtain ⟨sent, hsent⟩ := hpend v base hp
    refine mu_bpRun hnd hw hs ?_
    have := resp_weight M hM (s.wk w).bp sent v still (v, base) hsent hP
    simp only [wW, kW, hp] at this ⊢
    omega

theorem mu_broker {M B : Nat} {ws : List Nat} {s s' : Sys} {w : Nat} {v : Pipeline.Verdict} (hnd : ws.Nodup)
    (hw : w ∈ ws) (hs : sysStep M s (.broker w v) = some s') : vmu M B ws s' + 1 ≤ vmu M B ws s := by
  simp only [sysStep] at hs
  split at hs
  · rename_i sent rest hsets hp
    split at hs
    · cases hs
    · simp only [Option.some.injEq] at hs; subst hs
      have hsum := wsW_setW M ws hnd s.wk w ⟨(s.wk w).inq, (s.wk w).bp, some (v, s.log.length)⟩ hw
      have e : wW M ⟨(s.wk w).inq, (s.wk w).bp, some (v, s.log.length)⟩ + 1 = wW M (s.wk w) := by
        simp [wW, bridgeW, hsets, hp]
      show lW (qW M 24 3) s.ret + lW (qW M 23 2) s.dq + lW (qW M 22 1) s.pq + bufW M B s.pp.bufs +
        wsW M ws (setW s.wk w ⟨(s.wk w).inq, (s.wk w).bp, some (v, s.log.length)⟩) + 1 ≤ vmu M B ws s
      simp only [vmu]
      omega
  · cases hs

theorem qW_step (M : Nat) (t : Tok) : qW M 23 2 t + 1 = qW M 24 3 t ∧ qW M 22 1 t + 1 = qW M 23 2 t := by
  simp only [qW, dW]; split <;> omega

theorem mu_retryOut {M B : Nat} {ws : List Nat} {s s' : Sys} (hs : sysStep M s .retryOut = some s') :
    vmu M B ws s' + 1 = vmu M B ws s := by
  cases hr : s.ret with
  | nil => simp [sysStep, hr] at hs
  | cons t r =>
    simp only [sysStep, hr, Option.some.injEq] at hs; subst hs
    have := (qW_step M t).1
    simp only [vmu, hr, lW_cons, lW_append, lW_nil]; omega

theorem mu_dispatch {M B : Nat} {ws : List Nat} {s s' : Sys} (hs : sysStep M s .dispatch = some s') :
    vmu M B ws s' + 1 = vmu M B ws s := by
  cases hr : s.dq with
  | nil => simp [sysStep, hr] at hs
  | cons t r =>
    simp only [sysStep, hr, Option.some.injEq] at hs; subst hs
    have := (qW_step M t).2
    simp only [vmu, hr, lW_cons, lW_append, lW_nil]; omega

end Lemmas.C02sys
