/-
  C02 composition: what `Model.BrokerProd.step` does when every token belongs to partition 0, in closed form,
  and what the resulting actions do to the rest of the system (`Model.Pipeline.bpActs`).
-/
import SaramaVerif.Lemmas.C02sysView
import SaramaVerif.Props.C02bp

set_option linter.unusedSimpArgs false

namespace Lemmas.C02sys
open Model Model.Pipeline Model.BrokerProd

def P0 (l : List Tok) : Prop := ∀ t ∈ l, t.part = 0
def NoSyn (l : List Tok) : Prop := ∀ t ∈ l, t.kind ≠ .syn

/-- ids of the data tokens of `l` whose retry budget is spent -/
def errOut (M : Nat) (l : List Tok) : List Int :=
  (l.filter (fun t => decide (M ≤ t.retries) && isData t)).map (·.id)

/-- (id, offset) of an acknowledged set -/
def offs : List Tok → Nat → List (Int × Nat)
  | [], _ => []
  | t :: r, off => (t.id, off) :: offs r (off + 1)

theorem bpActs_nil (s : Sys) (off : Nat) : bpActs s off [] = s := rfl

theorem requeue_eq (t : Tok) (h : t.kind ≠ .syn) :
    (⟨t.id, t.part, t.retries + 1, if t.isFin then Kind.fin else Kind.data⟩ : Tok) = bump t := by
  cases t with
  | mk id part retries kind => cases kind <;> simp_all [bump, Tok.isFin]

theorem bpActs_retry (M : Nat) (l : List Tok) (hl : NoSyn l) : ∀ (s : Sys) (off : Nat),
    bpActs s off (retryMsgs M l) = { s with ret := s.ret ++ bumpF M l, errs := s.errs ++ errOut M l } := by
  induction l with
  | nil => intro s off; simp [retryMsgs, bpActs, bumpF, errOut]
  | cons t r ih =>
    intro s off
    have ht : t.kind ≠ .syn := hl t (List.mem_cons_self ..)
    have ih' := ih (fun x hx => hl x (List.mem_cons_of_mem _ hx))
    simp only [retryMsgs, List.map_cons, bpActs] at ih' ⊢
    by_cases hm : M ≤ t.retries
    · have hnot : ¬ t.retries < M := by omega
      simp only [retryMsg, ge_iff_le, hm, ↓reduceIte, bpAct]
      rw [ih']
      cases hk : t.kind <;>
        simp_all [bumpF, errOut, isData, Tok.isFin, List.append_assoc]
    · have hlt : t.retries < M := by omega
      simp only [retryMsg, ge_iff_le, hm, ↓reduceIte, bpAct]
      rw [ih', requeue_eq t ht]
      simp [bumpF, errOut, hlt, hm, List.append_assoc]

theorem bpActs_succ (l : List Tok) : ∀ (s : Sys) (off : Nat),
    bpActs s off (l.map (fun t => Action.succ t.id t.part)) = { s with succ := s.succ ++ offs l off } := by
  induction l with
  | nil => intro s off; simp [bpActs, offs]
  | cons t r ih =>
    intro s off
    simp only [List.map_cons, bpActs, bpAct, offs]
    rw [ih]; simp [List.append_assoc]

theorem bpActs_fail (l : List Tok) : ∀ (s : Sys) (off : Nat),
    bpActs s off (l.map (fun t => Action.fail t.id t.part)) = { s with errs := s.errs ++ l.map (·.id) } := by
  induction l with
  | nil => intro s off; simp [bpActs]
  | cons t r ih =>
    intro s off
    simp only [List.map_cons, bpActs, bpAct]
    rw [ih]; simp [List.append_assoc]

/-- actions that leave the offset counter alone -/
def noSucc : Action → Bool
  | .succ _ _ => false
  | _ => true

theorem bpAct_off (s : Sys) (off : Nat) (a : Action) (h : noSucc a = true) : (bpAct s off a).2 = off := by
  cases a <;> simp_all [bpAct, noSucc]

theorem bpActs_append (a b : List Action) (ha : ∀ x ∈ a, noSucc x = true) : ∀ (s : Sys) (off : Nat),
    bpActs s off (a ++ b) = bpActs (bpActs s off a) off b := by
  induction a with
  | nil => intro s off; rfl
  | cons x r ih =>
    intro s off
    simp only [List.cons_append, bpActs]
    rw [bpAct_off s off x (ha x (List.mem_cons_self ..))]
    exact ih (fun y hy => ha y (List.mem_cons_of_mem _ hy)) _ _

theorem noSucc_retry (M : Nat) (l : List Tok) : ∀ x ∈ retryMsgs M l, noSucc x = true := by
  intro x hx
  simp only [retryMsgs, List.mem_map] at hx
  obtain ⟨t, _, rfl⟩ := hx
  simp only [retryMsg]; split <;> rfl

/-! ### single-partition closed forms -/

theorem onPart_P0 {l : List Tok} (h : P0 l) : onPart 0 l = l := by
  simp only [onPart, List.filter_eq_self]; intro t ht; simp [h t ht]

theorem offPart_P0 {l : List Tok} (h : P0 l) : offPart 0 l = [] := by
  simp only [offPart, List.filter_eq_nil_iff]; intro t ht; simp [h t ht]

theorem P0_cons {t : Tok} {l : List Tok} (h : P0 (t :: l)) : t.part = 0 ∧ P0 l :=
  ⟨h t (List.mem_cons_self ..), fun x hx => h x (List.mem_cons_of_mem _ hx)⟩

theorem P0_append {a b : List Tok} : P0 (a ++ b) ↔ P0 a ∧ P0 b := by
  simp only [P0, List.mem_append]
  exact ⟨fun h => ⟨fun t ht => h t (Or.inl ht), fun t ht => h t (Or.inr ht)⟩,
         fun h t ht => ht.elim (h.1 t) (h.2 t)⟩

theorem arrange_nil (ps : List Int) : arrange ps [] = [] := by
  induction ps with
  | nil => rfl
  | cons p ps ih => simp [arrange, onPart, offPart, ih]

theorem arrange_P0 {l : List Tok} (h : P0 l) : arrange (partsOf l) l = l := by
  cases l with
  | nil => rfl
  | cons t r =>
    have ht := (P0_cons h).1
    simp only [partsOf, List.map_cons, arrange, ht]
    rw [onPart_P0 h, offPart_P0 h, arrange_nil]; simp

theorem loop1_nil (M : Nat) (v : Int → BrokerProd.Verdict) (ps : List Int) : loop1 M v ps [] = [] := by
  induction ps with
  | nil => rfl
  | cons p ps ih => simp [loop1, onPart, offPart, verdictActs, ih]

theorem loop1_P0 (M : Nat) (v : Int → BrokerProd.Verdict) {l : List Tok} (h : P0 l) :
    loop1 M v (partsOf l) l = verdictActs M (v 0) l := by
  cases l with
  | nil => simp [partsOf, loop1, verdictActs]
  | cons t r =>
    have ht := (P0_cons h).1
    simp only [partsOf, List.map_cons, loop1, ht]
    rw [onPart_P0 h, offPart_P0 h, loop1_nil]; simp

theorem loop2_nil (M : Nat) (v : Int → BrokerProd.Verdict) (ps : List Int) (s : St) :
    loop2 M v ps [] s = (s, []) := by
  induction ps with
  | nil => rfl
  | cons p ps ih => simp [loop2, onPart, offPart, ih]

theorem loop2_P0_skip (M : Nat) (v : Int → BrokerProd.Verdict) {l : List Tok} (h : P0 l) (s : St)
    (hv : v 0 ≠ .retriable) : loop2 M v (partsOf l) l s = (s, []) := by
  cases l with
  | nil => rfl
  | cons t r =>
    have ht := (P0_cons h).1
    simp only [partsOf, List.map_cons, loop2, ht]
    rw [offPart_P0 h, loop2_nil]; simp [hv]

theorem loop2_P0_hit (M : Nat) (v : Int → BrokerProd.Verdict) (t : Tok) (r : List Tok) (h : P0 (t :: r)) (s : St)
    (hb : P0 s.buffer) (hv : v 0 = .retriable) :
    loop2 M v (partsOf (t :: r)) (t :: r) s =
      ({ s with cr := setCr s.cr 0 true, buffer := [] },
       retryMsgs M (t :: r) ++ Action.drop 0 :: retryMsgs M s.buffer) := by
  have ht := (P0_cons h).1
  simp only [partsOf, List.map_cons, loop2, ht]
  rw [onPart_P0 h, offPart_P0 h, onPart_P0 hb, offPart_P0 hb]
  simp [hv, loop2_nil]

theorem handle_ok (M : Nat) (b : St) {sent : List Tok} (h : P0 sent) :
    handle M b sent Pipeline.Verdict.ok.toResp = (b, sent.map (fun t => Action.succ t.id t.part)) := by
  have hrt : retryTopics M (fun _ => BrokerProd.Verdict.ok) sent = false := by simp [retryTopics]
  simp only [Pipeline.Verdict.toResp, handle, hrt, List.nil_append, loop1_P0 M _ h, verdictActs]
  cases sent <;> simp

theorem handle_fatal (M : Nat) (hM : 1 ≤ M) (b : St) {sent : List Tok} (h : P0 sent) :
    handle M b sent Pipeline.Verdict.fatal.toResp = (b, sent.map (fun t => Action.fail t.id t.part)) := by
  have hrt : retryTopics M (fun _ => BrokerProd.Verdict.fatal) sent = false := by simp [retryTopics]
  have hM0 : ¬ M = 0 := by omega
  simp only [Pipeline.Verdict.toResp, handle, hrt, List.nil_append, loop1_P0 M _ h, verdictActs, hM0]
  cases sent <;> simp

theorem handle_retr_nil (M : Nat) (b : St) (a : Bool) :
    handle M b [] (Pipeline.Verdict.retriable a).toResp = (b, []) := by
  simp [Pipeline.Verdict.toResp, handle, retryTopics, partsOf, loop1]

theorem handle_retr_cons (M : Nat) (hM : 1 ≤ M) (b : St) (t : Tok) (r : List Tok) (h : P0 (t :: r))
    (hb : P0 b.buffer) (a : Bool) :
    handle M b (t :: r) (Pipeline.Verdict.retriable a).toResp =
      ({ b with cr := setCr b.cr 0 true, buffer := [] },
       retryMsgs M (t :: r) ++ Action.drop 0 :: retryMsgs M b.buffer) := by
  have hrt : retryTopics M (fun _ => BrokerProd.Verdict.retriable) (t :: r) = true := by
    simp [retryTopics]; omega
  have hM0 : ¬ M = 0 := by omega
  have h2 := loop2_P0_hit M (fun _ => BrokerProd.Verdict.retriable) t r h b hb rfl
  simp only [Pipeline.Verdict.toResp, handle, hrt, ↓reduceIte, List.nil_append, loop1_P0 M _ h, h2, verdictActs, hM0]
  simp

theorem handle_conn (M : Nat) (b : St) {sent : List Tok} (h : P0 sent) (hb : P0 b.buffer) (a : Bool) :
    handle M b sent (Pipeline.Verdict.conn a).toResp =
      ({ b with closing := true, buffer := [] },
       Action.closing :: Action.abandon :: retryMsgs M sent ++ retryMsgs M b.buffer) := by
  simp only [Pipeline.Verdict.toResp, handle, List.nil_append, arrange_P0 h, arrange_P0 hb]

abbrev insideB (b : St) : List Tok := Props.C02bp.inside b

theorem bpActs_add (s : Sys) (off : Nat) (id p : Int) : bpActs s off [Action.add id p] = s := rfl

theorem bpActs_succ_add (l : List Tok) (s : Sys) (off : Nat) (id p : Int) :
    bpActs s off (l.map (fun t => Action.succ t.id t.part) ++ [Action.add id p]) =
      { s with succ := s.succ ++ offs l off } := by
  induction l generalizing s off with
  | nil => simp [bpActs, bpAct, offs]
  | cons t r ih =>
    simp only [List.map_cons, List.cons_append, bpActs, bpAct, offs]
    rw [ih]; simp [List.append_assoc]

/-- the answer `ok` for the set at the bridge, worker not in retry mode -/
theorem resp_ok_spec (M : Nat) (b : St) (sent : List Tok) (still : Bool) (hs : b.sets = [sent])
    (hn : needsRetry b 0 = false) (hP : P0 (insideB b)) :
    (step M b (.resp Pipeline.Verdict.ok.toResp still)).1.closing = b.closing ∧
    (step M b (.resp Pipeline.Verdict.ok.toResp still)).1.cr = b.cr ∧
    (step M b (.resp Pipeline.Verdict.ok.toResp still)).1.sets = [] ∧
    insideB (step M b (.resp Pipeline.Verdict.ok.toResp still)).1 = b.buffer ++ b.wait.toList ∧
    ∀ (s : Sys) (off : Nat), bpActs s off (step M b (.resp Pipeline.Verdict.ok.toResp still)).2 =
      { s with succ := s.succ ++ offs sent off } := by
  have hsent : P0 sent := by
    intro t ht; apply hP t
    simp [insideB, Props.C02bp.inside, hs, ht]
  simp only [step, resp, hs, handle_ok M _ hsent, recheck]
  cases hw : b.wait with
  | none => simp [insideB, Props.C02bp.inside, bpActs_succ]
  | some w =>
    have hwp : w.part = 0 := by apply hP w; simp [insideB, Props.C02bp.inside, hw]
    have hn' : (b.closing || b.cr 0) = false := by simpa [needsRetry] using hn
    simp only [needsRetry, hwp, hn']
    cases still <;> simp [insideB, Props.C02bp.inside, bpActs_succ, bpActs_succ_add]

theorem bpActs_fail_add (l : List Tok) (s : Sys) (off : Nat) (id p : Int) :
    bpActs s off (l.map (fun t => Action.fail t.id t.part) ++ [Action.add id p]) =
      { s with errs := s.errs ++ l.map (·.id) } := by
  induction l generalizing s off with
  | nil => simp [bpActs, bpAct]
  | cons t r ih =>
    simp only [List.map_cons, List.cons_append, bpActs, bpAct]
    rw [ih]; simp [List.append_assoc]

/-- the answer `fatal` for the set at the bridge, worker not in retry mode -/
theorem resp_fatal_spec (M : Nat) (hM : 1 ≤ M) (b : St) (sent : List Tok) (still : Bool) (hs : b.sets = [sent])
    (hn : needsRetry b 0 = false) (hP : P0 (insideB b)) :
    (step M b (.resp Pipeline.Verdict.fatal.toResp still)).1.closing = b.closing ∧
    (step M b (.resp Pipeline.Verdict.fatal.toResp still)).1.cr = b.cr ∧
    (step M b (.resp Pipeline.Verdict.fatal.toResp still)).1.sets = [] ∧
    insideB (step M b (.resp Pipeline.Verdict.fatal.toResp still)).1 = b.buffer ++ b.wait.toList ∧
    ∀ (s : Sys) (off : Nat), bpActs s off (step M b (.resp Pipeline.Verdict.fatal.toResp still)).2 =
      { s with errs := s.errs ++ sent.map (·.id) } := by
  have hsent : P0 sent := by
    intro t ht; apply hP t
    simp [insideB, Props.C02bp.inside, hs, ht]
  simp only [step, resp, hs, handle_fatal M hM _ hsent, recheck]
  cases hw : b.wait with
  | none => simp [insideB, Props.C02bp.inside, bpActs_fail]
  | some w =>
    have hwp : w.part = 0 := by apply hP w; simp [insideB, Props.C02bp.inside, hw]
    have hn' : (b.closing || b.cr 0) = false := by simpa [needsRetry] using hn
    simp only [needsRetry, hwp, hn']
    cases still <;> simp [insideB, Props.C02bp.inside, bpActs_fail, bpActs_fail_add]

/-- a retriable answer for an empty set: nothing happens -/
theorem resp_retr_nil_spec (M : Nat) (b : St) (a still : Bool) (hs : b.sets = [[]])
    (hn : needsRetry b 0 = false) (hP : P0 (insideB b)) :
    (step M b (.resp (Pipeline.Verdict.retriable a).toResp still)).1.closing = b.closing ∧
    (step M b (.resp (Pipeline.Verdict.retriable a).toResp still)).1.cr = b.cr ∧
    (step M b (.resp (Pipeline.Verdict.retriable a).toResp still)).1.sets = [] ∧
    insideB (step M b (.resp (Pipeline.Verdict.retriable a).toResp still)).1 = b.buffer ++ b.wait.toList ∧
    ∀ (s : Sys) (off : Nat), bpActs s off (step M b (.resp (Pipeline.Verdict.retriable a).toResp still)).2 = s := by
  simp only [step, resp, hs, handle_retr_nil, recheck]
  cases hw : b.wait with
  | none => simp [insideB, Props.C02bp.inside, bpActs]
  | some w =>
    have hwp : w.part = 0 := by apply hP w; simp [insideB, Props.C02bp.inside, hw]
    have hn' : (b.closing || b.cr 0) = false := by simpa [needsRetry] using hn
    simp only [needsRetry, hwp, hn']
    cases still <;> simp [insideB, Props.C02bp.inside, bpActs, bpAct]

/-- any answer for an empty set when the worker holds nothing -/
theorem resp_empty_spec (M : Nat) (hM : 1 ≤ M) (b : St) (v : Pipeline.Verdict) (still : Bool) (hs : b.sets = [[]])
    (hb : b.buffer = []) (hw : b.wait = none) :
    (step M b (.resp v.toResp still)).1.cr = b.cr ∧
    (step M b (.resp v.toResp still)).1.sets = [] ∧
    insideB (step M b (.resp v.toResp still)).1 = [] ∧
    ((step M b (.resp v.toResp still)).1.closing = true ∨
      (step M b (.resp v.toResp still)).1.closing = b.closing) ∧
    ∀ (s : Sys) (off : Nat), bpActs s off (step M b (.resp v.toResp still)).2 = s := by
  have hP : P0 ([] : List Tok) := fun _ h => by cases h
  cases v with
  | ok => simp [step, resp, hs, handle_ok M _ hP, recheck, hw, hb, insideB, Props.C02bp.inside, bpActs]
  | fatal => simp [step, resp, hs, handle_fatal M hM _ hP, recheck, hw, hb, insideB, Props.C02bp.inside, bpActs]
  | retriable a => simp [step, resp, hs, handle_retr_nil, recheck, hw, hb, insideB, Props.C02bp.inside, bpActs]
  | conn a =>
    have hb' : P0 ({ b with sets := [] } : St).buffer := by simp [hb, P0]
    simp only [step, resp, hs]
    rw [handle_conn M _ hP hb']
    simp [recheck, hw, hb, insideB, Props.C02bp.inside, bpActs, bpAct, retryMsgs]

theorem errOut_append (M : Nat) (a b : List Tok) : errOut M (a ++ b) = errOut M a ++ errOut M b := by
  simp [errOut]

theorem NoSyn_append {a b : List Tok} : NoSyn (a ++ b) ↔ NoSyn a ∧ NoSyn b := by
  simp only [NoSyn, List.mem_append]
  exact ⟨fun h => ⟨fun t ht => h t (Or.inl ht), fun t ht => h t (Or.inr ht)⟩,
         fun h t ht => ht.elim (h.1 t) (h.2 t)⟩

/-- effect of bouncing three token lists in a row, with the bookkeeping actions in between -/
theorem bpActs_bounce3 (M : Nat) (pre : List Action) (hpre : ∀ s off, bpActs s off pre = s)
    (hpre' : ∀ x ∈ pre, noSucc x = true) (a b c : List Tok) (mid : List Action)
    (hmid : ∀ s off, bpActs s off mid = s) (hmid' : ∀ x ∈ mid, noSucc x = true)
    (ha : NoSyn a) (hb : NoSyn b) (hc : NoSyn c) (s : Sys) (off : Nat) :
    bpActs s off (pre ++ retryMsgs M a ++ mid ++ retryMsgs M b ++ retryMsgs M c) =
      { s with ret := s.ret ++ bumpF M (a ++ b ++ c), errs := s.errs ++ errOut M (a ++ b ++ c) } := by
  have hall : ∀ x ∈ pre ++ retryMsgs M a ++ mid ++ retryMsgs M b, noSucc x = true := by
    intro x hx
    simp only [List.mem_append] at hx
    rcases hx with ((hx | hx) | hx) | hx
    · exact hpre' x hx
    · exact noSucc_retry M a x hx
    · exact hmid' x hx
    · exact noSucc_retry M b x hx
  rw [bpActs_append _ _ hall, bpActs_retry M c hc]
  have h3 : ∀ x ∈ pre ++ retryMsgs M a ++ mid, noSucc x = true :=
    fun x hx => hall x (List.mem_append_left _ hx)
  rw [bpActs_append _ _ h3, bpActs_retry M b hb]
  have h2 : ∀ x ∈ pre ++ retryMsgs M a, noSucc x = true := fun x hx => h3 x (List.mem_append_left _ hx)
  rw [bpActs_append _ _ h2, hmid, bpActs_append _ _ hpre', hpre, bpActs_retry M a ha]
  simp [bumpF_append, errOut_append, List.append_assoc]

/-- a retriable answer for a non-empty set, worker not in retry mode: everything inside is bounced, in order -/
theorem resp_retr_cons_spec (M : Nat) (hM : 1 ≤ M) (b : St) (t : Tok) (r : List Tok) (a still : Bool)
    (hs : b.sets = [t :: r]) (hP : P0 (insideB b)) (hN : NoSyn (insideB b)) :
    (step M b (.resp (Pipeline.Verdict.retriable a).toResp still)).1.closing = b.closing ∧
    (step M b (.resp (Pipeline.Verdict.retriable a).toResp still)).1.cr 0 = true ∧
    (step M b (.resp (Pipeline.Verdict.retriable a).toResp still)).1.sets = [] ∧
    insideB (step M b (.resp (Pipeline.Verdict.retriable a).toResp still)).1 = [] ∧
    ∀ (s : Sys) (off : Nat), bpActs s off (step M b (.resp (Pipeline.Verdict.retriable a).toResp still)).2 =
      { s with ret := s.ret ++ bumpF M (insideB b), errs := s.errs ++ errOut M (insideB b) } := by
  have hin : insideB b = (t :: r) ++ b.buffer ++ b.wait.toList := by simp [insideB, Props.C02bp.inside, hs]
  rw [hin] at hP hN ⊢
  rw [P0_append, P0_append] at hP
  rw [NoSyn_append, NoSyn_append] at hN
  have hb' : P0 ({ b with sets := [] } : St).buffer := hP.1.2
  simp only [step, resp, hs]
  rw [handle_retr_cons M hM _ t r hP.1.1 hb' a]
  cases hw : b.wait with
  | none =>
    refine ⟨by simp [recheck, hw], by simp [recheck, hw, setCr], by simp [recheck, hw],
      by simp [recheck, hw, insideB, Props.C02bp.inside], fun s off => ?_⟩
    have := bpActs_bounce3 M [] (fun _ _ => rfl) (by simp) (t :: r) b.buffer [] [Action.drop 0]
      (fun _ _ => rfl) (by simp [noSucc]) hN.1.1 hN.1.2 (by simp [NoSyn]) s off
    simpa [recheck, hw, retryMsgs] using this
  | some w =>
    have hwp : w.part = 0 := hP.2 w (by simp [hw])
    have hwn : NoSyn [w] := by intro x hx; exact hN.2 x (by simpa [hw] using hx)
    refine ⟨by simp [recheck, hw, needsRetry, hwp, setCr], by simp [recheck, hw, needsRetry, hwp, setCr],
      by simp [recheck, hw, needsRetry, hwp, setCr],
      by simp [recheck, hw, needsRetry, hwp, setCr, insideB, Props.C02bp.inside], fun s off => ?_⟩
    have := bpActs_bounce3 M [] (fun _ _ => rfl) (by simp) (t :: r) b.buffer [w] [Action.drop 0]
      (fun _ _ => rfl) (by simp [noSucc]) hN.1.1 hN.1.2 hwn s off
    simpa [recheck, hw, needsRetry, hwp, setCr, retryMsgs] using this

/-- a connection error: the worker starts closing and bounces everything inside, in order -/
theorem resp_conn_spec (M : Nat) (b : St) (sent : List Tok) (a still : Bool)
    (hs : b.sets = [sent]) (hP : P0 (insideB b)) (hN : NoSyn (insideB b)) :
    (step M b (.resp (Pipeline.Verdict.conn a).toResp still)).1.closing = true ∧
    (step M b (.resp (Pipeline.Verdict.conn a).toResp still)).1.cr = b.cr ∧
    (step M b (.resp (Pipeline.Verdict.conn a).toResp still)).1.sets = [] ∧
    insideB (step M b (.resp (Pipeline.Verdict.conn a).toResp still)).1 = [] ∧
    ∀ (s : Sys) (off : Nat), bpActs s off (step M b (.resp (Pipeline.Verdict.conn a).toResp still)).2 =
      { s with ret := s.ret ++ bumpF M (insideB b), errs := s.errs ++ errOut M (insideB b) } := by
  have hin : insideB b = sent ++ b.buffer ++ b.wait.toList := by simp [insideB, Props.C02bp.inside, hs]
  rw [hin] at hP hN ⊢
  rw [P0_append, P0_append] at hP
  rw [NoSyn_append, NoSyn_append] at hN
  have hb' : P0 ({ b with sets := [] } : St).buffer := hP.1.2
  simp only [step, resp, hs]
  rw [handle_conn M _ hP.1.1 hb' a]
  cases hw : b.wait with
  | none =>
    refine ⟨by simp [recheck, hw], by simp [recheck, hw], by simp [recheck, hw],
      by simp [recheck, hw, insideB, Props.C02bp.inside], fun s off => ?_⟩
    have := bpActs_bounce3 M [Action.closing, Action.abandon] (fun _ _ => rfl) (by simp [noSucc]) sent b.buffer []
      [] (fun _ _ => rfl) (by simp) hN.1.1 hN.1.2 (by simp [NoSyn]) s off
    simpa [recheck, hw, retryMsgs] using this
  | some w =>
    have hwn : NoSyn [w] := by intro x hx; exact hN.2 x (by simpa [hw] using hx)
    refine ⟨by simp [recheck, hw, needsRetry], by simp [recheck, hw, needsRetry],
      by simp [recheck, hw, needsRetry],
      by simp [recheck, hw, needsRetry, insideB, Props.C02bp.inside], fun s off => ?_⟩
    have := bpActs_bounce3 M [Action.closing, Action.abandon] (fun _ _ => rfl) (by simp [noSucc]) sent b.buffer [w]
      [] (fun _ _ => rfl) (by simp) hN.1.1 hN.1.2 hwn s off
    simpa [recheck, hw, needsRetry, retryMsgs] using this

/-! ### tokens arriving at the worker -/

theorem recv_syn_spec (M : Nat) (b : St) (t : Tok) (ov : Bool) (hw : b.wait = none) (hk : t.kind = .syn)
    (hp : t.part = 0) :
    step M b (.recv t ov) = ({ b with cr := setCr b.cr 0 false }, [Action.ackSyn 0]) := by
  simp [step, recv, hw, hk, hp]

/-- a data token while the worker refuses the partition: bounced, state unchanged -/
theorem recv_refuse_spec (M : Nat) (b : St) (t : Tok) (ov : Bool) (hw : b.wait = none) (hk : t.kind = .data)
    (hp : t.part = 0) (hn : needsRetry b 0 = true) :
    step M b (.recv t ov) = (b, [Action.refuse t.id, retryMsg M t]) := by
  simp [step, recv, hw, hk, hp, hn]

/-- a fin chaser: always bounced; it ends the retry mode of the partition unless the worker is closing -/
theorem recv_fin_spec (M : Nat) (b : St) (t : Tok) (ov : Bool) (hw : b.wait = none) (hk : t.kind = .fin)
    (hp : t.part = 0) :
    (step M b (.recv t ov)).2 = [Action.refuse t.id, retryMsg M t] ∧
    (step M b (.recv t ov)).1.closing = b.closing ∧
    (step M b (.recv t ov)).1.buffer = b.buffer ∧ (step M b (.recv t ov)).1.sets = b.sets ∧
    (step M b (.recv t ov)).1.wait = b.wait ∧
    ((step M b (.recv t ov)).1.cr 0 = if b.closing then b.cr 0 else false) := by
  cases hc : b.closing <;> cases hr : b.cr 0 <;> simp [step, recv, hw, hk, hp, needsRetry, hc, hr, setCr]

/-- a data token the worker accepts -/
theorem recv_add_spec (M : Nat) (b : St) (t : Tok) (ov : Bool) (hw : b.wait = none) (hk : t.kind = .data)
    (hp : t.part = 0) (hn : needsRetry b 0 = false) :
    (step M b (.recv t ov)).1.closing = b.closing ∧ (step M b (.recv t ov)).1.cr = b.cr ∧
    (step M b (.recv t ov)).1.sets = b.sets ∧
    insideB (step M b (.recv t ov)).1 = insideB b ++ [t] ∧
    (∀ s off, bpActs s off (step M b (.recv t ov)).2 = s) ∧ (step M b (.recv t ov)).2 ≠ [Action.disabled] := by
  cases ov <;> simp [step, recv, hw, hk, hp, hn, insideB, Props.C02bp.inside, bpActs, bpAct]

theorem bpActs_bounce1 (M : Nat) (t : Tok) (ht : t.kind ≠ .syn) (s : Sys) (off : Nat) :
    bpActs s off [Action.refuse t.id, retryMsg M t] =
      { s with ret := s.ret ++ bumpF M [t], errs := s.errs ++ errOut M [t] } := by
  have := bpActs_retry M [t] (by intro x hx; rw [List.mem_singleton.1 hx]; exact ht) s off
  simpa [bpActs, bpAct, retryMsgs] using this

/-- the bridge takes the buffer: nothing moves with respect to `inside` -/
theorem handover_spec (M : Nat) (b : St) (h : (step M b .handover).2 ≠ [Action.disabled]) :
    (step M b .handover).1.closing = b.closing ∧ (step M b .handover).1.cr = b.cr ∧
    insideB (step M b .handover).1 = insideB b ∧ b.sets = [] ∧
    (∃ sent, (step M b .handover).1.sets = [sent]) ∧
    (∀ s off, bpActs s off (step M b .handover).2 = s) := by
  simp only [step, handover] at h ⊢
  cases hs : b.sets with
  | cons x r => simp [hs] at h
  | nil =>
    cases hw : b.wait with
    | none =>
      by_cases hd : (b.buffer.isEmpty && !b.stale) = true
      · simp [hs, hw, hd] at h
      · simp [hs, hw, hd, insideB, Props.C02bp.inside, bpActs]
    | some w => simp [hs, hw, insideB, Props.C02bp.inside, bpActs, bpAct]

theorem recv_disabled (M : Nat) (b : St) (t : Tok) (ov : Bool) (h : (step M b (.recv t ov)).2 ≠ [Action.disabled]) :
    b.wait = none := by
  cases hw : b.wait with
  | none => rfl
  | some w => simp [step, recv, hw] at h

theorem resp_disabled (M : Nat) (b : St) (r : Resp) (still : Bool) (h1 : b.sets.length ≤ 1)
    (h : (step M b (.resp r still)).2 ≠ [Action.disabled]) : ∃ sent, b.sets = [sent] := by
  cases hs : b.sets with
  | nil => simp [step, resp, hs] at h
  | cons x r =>
    cases r with
    | nil => exact ⟨x, rfl⟩
    | cons y r' => rw [hs] at h1; simp at h1

end Lemmas.C02sys
