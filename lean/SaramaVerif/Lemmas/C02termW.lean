/-
  C02 composition, progress: the VARIANT.  A weight for every token by where it is (the further along the
  pipeline the lighter; one retry costs 32), so that every token-moving choice makes the total strictly smaller.
-/
import SaramaVerif.Lemmas.C02liveLoss

set_option linter.unusedSimpArgs false

namespace Lemmas.C02sys
open Model Model.Pipeline Model.BrokerProd

/-- weight of a message with `r` retries used, at a place of rank `d` -/
def dW (M d r : Nat) : Nat := (M - r) * 32 + d

/-- in a channel of the way back (retries 24/3, p.input 23/2, pp.input 22/1): message / chaser -/
def qW (M d f : Nat) (t : Tok) : Nat := if t.kind = .fin then f else dW M d t.retries

def lW (g : Tok → Nat) (l : List Tok) : Nat := (l.map g).sum

/-- in a worker's input channel -/
def inW (M : Nat) (t : Tok) : Nat :=
  match t.kind with
  | .syn => 1
  | .fin => 4
  | .data => dW M 16 t.retries

/-- inside a worker (held in waitForSpace 14, buffer 10, at the bridge 2) -/
def inT (M d : Nat) (t : Tok) : Nat := dW M d t.retries

def bridgeW (sets : List (List Tok)) (pend : Option (Pipeline.Verdict × Nat)) : Nat :=
  if sets.isEmpty then 0 else if pend.isNone then 3 else 2

def bpW (M : Nat) (b : St) : Nat :=
  lW (inT M 14) b.wait.toList + lW (inT M 10) b.buffer + lW (inT M 2) b.sets.flatten + (if b.stale then 4 else 0)

def wW (M : Nat) (k : Worker) : Nat := lW (inW M) k.inq + bpW M k.bp + bridgeW k.bp.sets k.pend

/-- what an action of a worker puts on the retries queue -/
def outW (M : Nat) : Action → Nat
  | .requeue _ _ r fin => if fin then 3 else dW M 24 r
  | _ => 0

def bufW (M B : Nat) (bufs : Nat → List PartProd.Tok) : Nat :=
  ((List.range B).map (fun k => ((bufs k).map (fun x => dW M 18 x.retries)).sum)).sum

def wsW (M : Nat) (ws : List Nat) (f : Nat → Worker) : Nat := (ws.map (fun w => wW M (f w))).sum

/-- the variant: `B` bounds the retry levels of the partition producer, `ws` lists the workers in use -/
def vmu (M B : Nat) (ws : List Nat) (s : Sys) : Nat :=
  lW (qW M 24 3) s.ret + lW (qW M 23 2) s.dq + lW (qW M 22 1) s.pq + bufW M B s.pp.bufs + wsW M ws s.wk

theorem lW_nil (g : Tok → Nat) : lW g [] = 0 := rfl
theorem lW_cons (g : Tok → Nat) (t : Tok) (l : List Tok) : lW g (t :: l) = g t + lW g l := by simp [lW]
theorem lW_append (g : Tok → Nat) (a b : List Tok) : lW g (a ++ b) = lW g a + lW g b := by
  simp [lW, List.sum_append]
theorem lW_single (g : Tok → Nat) (t : Tok) : lW g [t] = g t := by simp [lW]

theorem lW_le {g h : Tok → Nat} (l : List Tok) (hgh : ∀ t ∈ l, g t ≤ h t) : lW g l ≤ lW h l := by
  induction l with
  | nil => simp [lW]
  | cons t r ih =>
    rw [lW_cons, lW_cons]
    have := hgh t (List.mem_cons_self ..)
    have := ih (fun x hx => hgh x (List.mem_cons_of_mem _ hx))
    omega

theorem wsW_setW_not (M : Nat) (ws : List Nat) (f : Nat → Worker) (w : Nat) (v : Worker) (h : w ∉ ws) :
    wsW M ws (setW f w v) = wsW M ws f := by
  induction ws with
  | nil => rfl
  | cons a r ih =>
    have ha : a ≠ w := fun e => h (e ▸ List.mem_cons_self ..)
    have hr : w ∉ r := fun e => h (List.mem_cons_of_mem _ e)
    simp only [wsW, List.map_cons, List.sum_cons] at ih ⊢
    rw [ih hr]; simp [setW, ha]

/-- replacing one worker of the list changes the sum by the difference -/
theorem wsW_setW (M : Nat) (ws : List Nat) (hnd : ws.Nodup) (f : Nat → Worker) (w : Nat) (v : Worker)
    (h : w ∈ ws) : wsW M ws (setW f w v) + wW M (f w) = wsW M ws f + wW M v := by
  induction ws with
  | nil => cases h
  | cons a r ih =>
    obtain ⟨hna, hnr⟩ := List.nodup_cons.1 hnd
    simp only [wsW, List.map_cons, List.sum_cons]
    by_cases ha : a = w
    · subst ha
      have := wsW_setW_not M r f a v hna
      simp only [wsW] at this
      rw [this]; simp [setW]; omega
    · have hw : w ∈ r := by
        rcases List.mem_cons.1 h with e | e
        · exact absurd e.symm ha
        · exact e
      have := ih hnr hw
      simp only [wsW, setW] at this
      simp only [setW, ha, if_false]; omega

theorem wW_default (M : Nat) : wW M {} = 0 := by simp [wW, bpW, lW, bridgeW]

/-- pushing a token onto a listed worker's input channel -/
theorem wsW_pushW (M : Nat) (ws : List Nat) (hnd : ws.Nodup) (f : Nat → Worker) (w : Nat) (t : Tok) (h : w ∈ ws) :
    wsW M ws (pushW f w t) = wsW M ws f + inW M t := by
  have := wsW_setW M ws hnd f w ⟨(f w).inq ++ [t], (f w).bp, (f w).pend⟩ h
  have e : wW M ⟨(f w).inq ++ [t], (f w).bp, (f w).pend⟩ = wW M (f w) + inW M t := by
    simp only [wW, lW_append, lW_single]; omega
  rw [e] at this
  show wsW M ws (setW f w ⟨(f w).inq ++ [t], (f w).bp, (f w).pend⟩) = _
  omega

end Lemmas.C02sys
