/-
  C02 composition, handover chain: an OLD worker takes the head of its queue (a doomed data token or its chaser)
  and bounces it; in the view the token jumps over the lanes of the older workers.
-/
import SaramaVerif.Lemmas.C02chStepB

set_option linter.unusedSimpArgs false

namespace Lemmas.C02sys
open Model Model.Pipeline

/-- the lanes after worker `w` (not in `pre`, `post`) changed its queue -/
theorem lanes_split {M : Nat} {s s' : Sys} (pre : List Nat) (w : Nat) (post : List Nat)
    (hsame : ∀ u, u ≠ w → s'.wk u = s.wk u) (hpre : w ∉ pre) (hpost : w ∉ post) :
    lanes M s' (pre ++ w :: post) = lanes M s pre ++ lane M s' w ++ lanes M s post := by
  rw [lanes_append, lanes_cons,
    lanes_other pre (fun u hu => hsame u (fun e => hpre (e ▸ hu))),
    lanes_other post (fun u hu => hsame u (fun e => hpost (e ▸ hu)))]
  simp [List.append_assoc]

theorem nodup_split {pre post : List Nat} {w : Nat} (h : (pre ++ w :: post).Nodup) : w ∉ pre ∧ w ∉ post := by
  rw [List.nodup_append] at h
  obtain ⟨_, h2, h3⟩ := h
  rw [List.nodup_cons] at h2
  exact ⟨fun hm => h3 w hm w (List.mem_cons_self ..) rfl, h2.1⟩

theorem oldOK_other {M : Nat} {s s' : Sys} {u : Nat} (h : OldOK M s u) (e : s'.wk u = s.wk u) : OldOK M s' u := by
  simpa [OldOK, insW, e] using h

/-- the side conditions of the chain after old worker `w` bounced the head `t` of its queue -/
theorem concH_old_bounce {M : Nat} {s s' : Sys} {olds : List Nat} {v v' : View} (hc : ConcH M s olds v)
    (hcur : ∀ c, s.cur = some c → c ∉ olds) (w : Nat) (hw : w ∈ olds)
    (e_cur : s'.cur = s.cur) (hsame : ∀ u, u ≠ w → s'.wk u = s.wk u) (hold : OldOK M s' w)
    (hshr : (s'.wk w).inq = [] ∨ ∃ d D' k, (s.wk w).inq = d :: D' ++ [finTok k] ∧ (s'.wk w).inq = D' ++ [finTok k])
    (hpp : v'.pp = v.pp) (hmem : ∀ x, x ∈ data v'.av → x ∈ data v.av) : ConcH M s' olds v' := by
  have hne : ∀ c, s.cur = some c → c ≠ w := fun c hcc e => hcur c hcc (e ▸ hw)
  refine ⟨?_, bands_shrink w hsame hshr _ _ hc.bands, ?_, ?_, ?_⟩
  · intro u hu
    by_cases e : u = w
    · rw [e]; exact hold
    · exact oldOK_other (hc.oldok u hu) (hsame u e)
  · intro c hcc
    rw [e_cur] at hcc
    rw [hsame c (hne c hcc), hpp]; exact hc.tcHi c hcc
  · intro c hcc
    rw [e_cur] at hcc
    rw [hsame c (hne c hcc)]; exact hc.noFin c hcc
  · intro hcn x hx
    rw [e_cur] at hcn
    rw [hpp]; exact hc.capN hcn x (hmem x hx)

theorem bumpF_kept {M : Nat} {t : Tok} (h : bumpF M [t] = [bump t]) : t.retries < M := by
  apply Nat.lt_of_not_le
  intro hle
  have : bumpF M [t] = [] := by
    have : ¬ t.retries < M := by omega
    simp [bumpF, this]
  rw [this] at h; cases h

theorem lane_cons_nosyn {M : Nat} {s : Sys} {w : Nat} {t : Tok} {r : List Tok} (hq : (s.wk w).inq = t :: r)
    (hns : t.kind ≠ .syn) : lane M s w = bumpF M [t] ++ bumpF M (nosynq r) := by
  rw [lane, hq, nosynq_cons_data _ hns, bumpF_cons]

/-- old worker `w` (between the lanes `pre` and `post`) bounces the head `t` of its queue -/
theorem goodC_old_bounce {M : Nat} {s : Sys} {olds : List Nat} {v : View} (h : GoodC M s olds v)
    (pre : List Nat) (w : Nat) (post : List Nat) (ho : olds = pre ++ w :: post) (t : Tok) (r : List Tok)
    (hq : (s.wk w).inq = t :: r) (hns : t.kind ≠ .syn) (hins : insW s w = [])
    (b' : BrokerProd.St) (hpinv : Props.C02bp.PInv b') (hins' : insideB b' = [])
    (hsets : b'.sets = (s.wk w).bp.sets) (hold : OldOK M (bounceWw M s w r b' t) w)
    (hshr : r = [] ∨ ∃ d D' k, t :: r = d :: D' ++ [finTok k] ∧ r = D' ++ [finTok k])
    (hne : isData t = true → t.retries < M → ∀ y ∈ data (lanes M s pre), y.retries ≠ t.retries + 1)
    (hfin : t.kind = .fin → ∀ y ∈ data (lanes M s pre), Cov v.pp.expect (bump t) y) :
    ∃ v', GoodC M (bounceWw M s w r b' t) olds v' := by
  obtain ⟨⟨gw, tc, g, hcur, hv⟩, hvi, hco, hlo⟩ := h
  have hwo : w ∈ olds := by rw [ho]; simp
  obtain ⟨hpre, hpost⟩ := nodup_split (ho ▸ hco.nodup)
  have hsame : ∀ u, u ≠ w → (bounceWw M s w r b' t).wk u = s.wk u := fun u hu => wk_afterWw_other s _ hu
  have hww : (bounceWw M s w r b' t).wk w = ⟨r, b', (s.wk w).pend⟩ := wk_afterWw_same s w _
  have hnec : ∀ c, s.cur = some c → c ≠ w := fun c hcc e => hco.curNo c hcc (e ▸ hwo)
  have hcur' : CurRep M (bounceWw M s w r b' t) gw tc g :=
    curRep_other hcur rfl (fun c hcc => hsame c (hnec c hcc))
  have hlane' : lane M (bounceWw M s w r b' t) w = bumpF M (nosynq r) := by simp [lane, hww]
  have hl' : lanes M (bounceWw M s w r b' t) olds =
      lanes M s pre ++ bumpF M (nosynq r) ++ lanes M s post := by
    rw [ho, lanes_split pre w post hsame hpre hpost, hlane']
  have hav : v.av = (s.pq ++ s.dq ++ s.ret) ++ lanes M s pre ++
      (bumpF M [t] ++ (bumpF M (nosynq r) ++ (lanes M s post ++ tc))) := by
    rw [hv, ho, lanes_append, lanes_cons, lane_cons_nosyn hq hns]; simp [List.append_assoc]
  have hpp0 : v.pp = s.pp := by rw [hv]
  -- everything but the view
  have finish : ∀ v' : View, VInv v' →
      v' = ⟨s.pp, gw, s.pq ++ s.dq ++ (s.ret ++ bumpF M [t]) ++
        (lanes M (bounceWw M s w r b' t) olds ++ tc), g⟩ →
      (∀ a, LiveId v' a → LiveId v a) → (∀ x, x ∈ data v'.av → x ∈ data v.av) →
      ∃ v', GoodC M (bounceWw M s w r b' t) olds v' := by
    intro v' hvi' hv' hlive hmem
    have hpp : v'.pp = v.pp := by rw [hv', hpp0]
    refine ⟨v', ⟨gw, tc, g, hcur', hv'⟩, hvi', ⟨?_, ?_⟩, ?_⟩
    · refine concE_workerStep hco.toConcE w (Or.inl hwo) rfl rfl rfl rfl hsame (by rw [hww]; exact hpinv)
        (by rw [hww, hq]; intro x hx; exact List.mem_cons_of_mem _ hx)
        (by intro x hx; simp [insW, hww, hins'] at hx) ?_
      intro x hx
      rcases List.mem_append.1 hx with hx | hx
      · exact Or.inl hx
      · right
        simp only [bumpF, List.mem_map, List.mem_filter, decide_eq_true_eq, List.mem_singleton] at hx
        obtain ⟨y, ⟨rfl, hy⟩, rfl⟩ := hx
        exact ⟨y, Or.inl (by rw [hq]; exact List.mem_cons_self ..), hy, rfl⟩
    · refine concH_old_bounce hco.toConcH hco.curNo w hwo rfl hsame hold ?_ hpp hmem
      rw [hww, hq]
      rcases hshr with e | ⟨d, D', k, e1, e2⟩
      · exact Or.inl e
      · exact Or.inr ⟨d, D', k, e1, e2⟩
    · refine logC_same hlo rfl rfl rfl hlive ?_
      intro u vd base hp
      by_cases e : u = w
      · subst e; rw [hww] at hp ⊢; exact ⟨hp, hsets⟩
      · rw [hsame u e] at hp ⊢; exact ⟨hp, rfl⟩
  have hlowY : ∀ y ∈ data (lanes M s pre), y.retries ≤ v.pp.hwm := by
    obtain ⟨p, _, hy⟩ := lanes_pre_facts ⟨⟨gw, tc, g, hcur, hv⟩, hvi, hco, hlo⟩ pre w post ho
    exact fun y hyy => (hy y (mem_data.1 hyy).1).1
  rcases bumpF_single M t with hb | hb
  · -- the budget of `t` is spent: it was not in the view
    refine finish v hvi ?_ (fun a ha => ha) (fun x hx => hx)
    rw [hv, hl', ho, lanes_append, lanes_cons, lane_cons_nosyn hq hns, hb]
    simp [List.append_assoc]
  · rw [hb] at hav
    have hmv := hvi.moveLeft (s.pq ++ s.dq ++ s.ret) (lanes M s pre)
      (bumpF M (nosynq r) ++ (lanes M s post ++ tc)) (bump t) (by rw [hav]; simp [List.append_assoc])
      (fun hd y hy => by rw [bump_retries]; exact hne (by simpa [bump, isData] using hd) (bumpF_kept hb) y hy) hlowY
      (fun hk y hy => hfin (by simpa [bump] using hk) y hy)
    refine finish _ hmv ?_ (fun a ha => live_move _ _ _ _ (by rw [hav]; simp [List.append_assoc]) ha) ?_
    · rw [hl', hb]; simp [moveV, hv, List.append_assoc]
    · intro x hx
      change x ∈ data ((s.pq ++ s.dq ++ s.ret) ++ bump t :: (lanes M s pre ++
        (bumpF M (nosynq r) ++ (lanes M s post ++ tc)))) at hx
      rw [mem_data] at hx ⊢
      refine ⟨?_, hx.2⟩
      rw [hav]; have := hx.1
      simp only [List.mem_append, List.mem_cons] at this ⊢; grind

theorem goodC_old_recv {M : Nat} {s s' : Sys} {olds : List Nat} {v : View} {w : Nat} {ov : Bool}
    (h : GoodC M s olds v) (hw : w ∈ olds) (hs : sysStep M s (.bpRecv w ov) = some s') :
    ∃ v', GoodC M s' olds v' := by
  obtain ⟨t, r, hq, hwait, rfl⟩ := bpRecvW_split hs
  obtain ⟨pre, post, ho⟩ := List.append_of_mem hw
  obtain ⟨hins, hshape⟩ := h.conc.oldok w hw
  rcases hshape with he | ⟨hnr, D, k, hD, hDd, hk⟩
  · rw [he] at hq; cases hq
  obtain ⟨p, hbp, hy⟩ := lanes_pre_facts h pre w post ho
  have hpinv := (Props.C02bp.step_fifo M (s.wk w).bp (.recv t ov) (h.conc.pinv w)).2
  have htp : t.part = 0 := h.conc.p0w w t (by simp [hq])
  -- the band of `w` starts at `p`
  have hband : ∃ D0 k0, (s.wk w).inq = D0 ++ [finTok k0] ∧ p ≤ k0 ∧ ∀ d ∈ D0, d.retries < M → p ≤ d.retries := by
    rcases hbp with ⟨e, _⟩ | ⟨D0, k0, e, _, _, e4, e5, _⟩
    · rw [e] at hq; cases hq
    · exact ⟨D0, k0, e, e4, fun d hd hm => (e5 d hd hm).1⟩
  obtain ⟨D0, k0, e0, hpk, hpd⟩ := hband
  obtain ⟨rfl, rfl⟩ := snoc_inj (hD.symm.trans e0)
  cases D with
  | cons d D' =>
    rw [hq] at hD
    simp only [List.cons_append, List.cons.injEq] at hD
    obtain ⟨rfl, rfl⟩ := hD
    have hkd : t.kind = .data := hDd t (List.mem_cons_self ..)
    have hst := recv_refuse_spec M (s.wk w).bp t ov hwait hkd htp hnr
    have hs' : bpActs (afterWw s w ⟨D' ++ [finTok k], (BrokerProd.step M (s.wk w).bp (.recv t ov)).1, (s.wk w).pend⟩) 0
        (BrokerProd.step M (s.wk w).bp (.recv t ov)).2 = bounceWw M s w (D' ++ [finTok k]) (s.wk w).bp t := by
      rw [hst, bpActs_bounce1 M t (by rw [hkd]; simp)]; simp [bounceWw, afterWw, hst]
    rw [hs']
    refine goodC_old_bounce h pre w post ho t _ hq (by rw [hkd]; simp) hins (s.wk w).bp (h.conc.pinv w) hins rfl
      ?_ (Or.inr ⟨t, D', k, rfl, rfl⟩) ?_ (fun hk' => by rw [hkd] at hk'; cases hk')
    · refine ⟨by simpa [insW, bounceWw, wk_afterWw_same] using hins, Or.inr ⟨?_, D', k, ?_, ?_, hk⟩⟩
      · simpa [bounceWw, wk_afterWw_same] using hnr
      · simp [bounceWw, wk_afterWw_same]
      · exact fun x hx => hDd x (List.mem_cons_of_mem _ hx)
    · intro _ hm y hyy
      obtain ⟨_, hj, a, b, _, _⟩ := hy y (mem_data.1 hyy).1
      have := hpd t (List.mem_cons_self ..) hm
      omega
  | nil =>
    rw [hq] at hD
    simp only [List.nil_append, List.cons.injEq] at hD
    obtain ⟨rfl, rfl⟩ := hD
    obtain ⟨f1, f2, f3, f4, f5, f6⟩ := recv_fin_spec M (s.wk w).bp (finTok k) ov hwait rfl htp
    have hs' : bpActs (afterWw s w ⟨[], (BrokerProd.step M (s.wk w).bp (.recv (finTok k) ov)).1, (s.wk w).pend⟩) 0
        (BrokerProd.step M (s.wk w).bp (.recv (finTok k) ov)).2 =
        bounceWw M s w [] (BrokerProd.step M (s.wk w).bp (.recv (finTok k) ov)).1 (finTok k) := by
      rw [f1, bpActs_bounce1 M (finTok k) (by simp [finTok])]; simp [bounceWw, afterWw]
    rw [hs']
    have hins' : insideB (BrokerProd.step M (s.wk w).bp (.recv (finTok k) ov)).1 = [] := by
      have : insW s w = [] := hins
      simpa [insW, insideB, Props.C02bp.inside, f3, f4, f5] using this
    refine goodC_old_bounce h pre w post ho (finTok k) [] hq (by simp [finTok]) hins _ hpinv hins' f4
      ?_ (Or.inl rfl) (fun hd _ => by simp [isData, finTok] at hd) ?_
    · exact ⟨by simpa [insW, bounceWw, wk_afterWw_same] using hins', Or.inl (by simp [bounceWw, wk_afterWw_same])⟩
    · intro _ y hyy _ _
      obtain ⟨_, hj, a, b, _, c⟩ := hy y (mem_data.1 hyy).1
      right; right
      exact ⟨hj, by show hj < (bump (finTok k)).retries; rw [bump_retries]; show hj < k + 1; omega, c, a⟩

end Lemmas.C02sys
