/-
  C02 composition, progress, variant: every step of a broker worker makes the weight strictly smaller.
-/
import SaramaVerif.Lemmas.C02termW

set_option linter.unusedSimpArgs false

namespace Lemmas.C02sys
open Model Model.Pipeline Model.BrokerProd

def oW (M : Nat) (as : List Action) : Nat := (as.map (outW M)).sum

theorem oW_nil (M : Nat) : oW M [] = 0 := rfl
theorem oW_cons (M : Nat) (a : Action) (l : List Action) : oW M (a :: l) = outW M a + oW M l := by simp [oW]
theorem oW_append (M : Nat) (a b : List Action) : oW M (a ++ b) = oW M a + oW M b := by
  simp [oW, List.sum_append]

/-- the worker's actions add exactly `oW` to the weight of the retries queue -/
theorem bpActs_retW (M : Nat) (as : List Action) : ∀ (s : Sys) (off : Nat),
    lW (qW M 24 3) (bpActs s off as).ret = lW (qW M 24 3) s.ret + oW M as := by
  induction as with
  | nil => intro s off; simp [bpActs, oW]
  | cons a r ih =>
    intro s off
    simp only [bpActs, oW_cons]
    rw [ih]
    have : lW (qW M 24 3) (bpAct s off a).1.ret = lW (qW M 24 3) s.ret + outW M a := by
      cases a <;> simp only [bpAct, outW, Nat.add_zero]
      case requeue id p rr fin =>
        rw [lW_append, lW_single]
        cases fin <;> simp [qW]
    omega

/-- a token handed to retryMessage comes back lighter than anything inside a worker -/
theorem outW_retry (M : Nat) (t : Tok) : outW M (retryMsg M t) ≤ dW M 2 t.retries := by
  simp only [retryMsg]
  split
  · simp [outW]
  · rename_i h
    simp only [outW, dW]
    split <;> omega

theorem outW_retry_fin (M : Nat) (t : Tok) (h : t.kind = .fin) : outW M (retryMsg M t) ≤ 3 := by
  simp only [retryMsg]
  split
  · simp [outW]
  · simp [outW, Tok.isFin, h]

theorem oW_retryMsgs (M : Nat) (l : List Tok) : oW M (retryMsgs M l) ≤ lW (inT M 2) l := by
  induction l with
  | nil => simp [retryMsgs, oW, lW]
  | cons t r ih =>
    simp only [retryMsgs, List.map_cons, oW_cons, lW_cons] at ih ⊢
    have := outW_retry M t
    simp only [inT]; omega

def kW (M : Nat) (b : St) (pend : Option (Pipeline.Verdict × Nat)) : Nat := bpW M b + bridgeW b.sets pend

theorem inW_data {M : Nat} {t : Tok} (h1 : t.kind ≠ .syn) (h2 : t.kind ≠ .fin) : inW M t = dW M 16 t.retries := by
  cases hk : t.kind <;> simp_all [inW]

theorem kW_congr (M : Nat) {b b' : St} (pend : Option (Pipeline.Verdict × Nat)) (h1 : b'.wait = b.wait)
    (h2 : b'.buffer = b.buffer) (h3 : b'.sets = b.sets) (h4 : b'.stale = b.stale) : kW M b' pend = kW M b pend := by
  simp only [kW, bpW, h1, h2, h3, h4]

/-- a worker takes a token from its input channel -/
theorem recv_weight (M : Nat) (b : St) (t : Tok) (ov : Bool) (pend : Option (Pipeline.Verdict × Nat))
    (hw : b.wait = none) :
    kW M (step M b (.recv t ov)).1 pend + oW M (step M b (.recv t ov)).2 + 1 ≤ kW M b pend + inW M t := by
  by_cases hk : t.kind = .syn
  · have e : step M b (.recv t ov) = ({ b with cr := setCr b.cr t.part false }, [.ackSyn t.part]) := by
      simp [step, recv, hw, hk]
    rw [e]
    simp [kW, bpW, oW, outW, inW, hk]
  · by_cases hf : t.kind = .fin
    · have e2 : (step M b (.recv t ov)).2 = [.refuse t.id, retryMsg M t] := recv_fin_acts M b t ov hw hf
      have e1 : kW M (step M b (.recv t ov)).1 pend = kW M b pend := by
        apply kW_congr <;> cases hn : needsRetry b t.part <;> cases hc : b.closing <;>
          simp [step, recv, hw, hk, hf, hn, hc]
      have := outW_retry_fin M t hf
      have r0 : outW M (.refuse t.id) = 0 := rfl
      rw [e1, e2, oW_cons, oW_cons, oW_nil, r0]
      simp only [inW, hf]; omega
    · rw [inW_data hk hf]
      cases hn : needsRetry b t.part with
      | true =>
        have e : step M b (.recv t ov) = (b, [.refuse t.id, retryMsg M t]) := by
          simp [step, recv, hw, hk, hf, hn]
        have := outW_retry M t
        have r0 : outW M (.refuse t.id) = 0 := rfl
        rw [e, oW_cons, oW_cons, oW_nil, r0]
        simp only [dW] at this ⊢; omega
      | false =>
        cases ov with
        | true =>
          have e : step M b (.recv t true) = ({ b with wait := some t }, []) := by
            simp [step, recv, hw, hk, hf, hn]
          rw [e]
          simp only [kW, bpW, hw, Option.toList_some, Option.toList_none, lW_single, lW_nil, oW_nil, inT, dW]; omega
        | false =>
          have e : step M b (.recv t false) = ({ b with buffer := b.buffer ++ [t], stale := false }, [.add t.id t.part]) := by
            simp [step, recv, hw, hk, hf, hn]
          rw [e]
          simp only [kW, bpW, lW_append, lW_single, oW_cons, oW_nil, outW, inT, dW]
          split <;> simp <;> omega

theorem bridgeW_le (sets : List (List Tok)) (pend : Option (Pipeline.Verdict × Nat)) : bridgeW sets pend ≤ 3 := by
  simp only [bridgeW]; split
  · omega
  · split <;> omega

theorem lW_pos {g : Tok → Nat} {l : List Tok} {c : Nat} (hl : l ≠ []) (hg : ∀ t, c ≤ g t) : c ≤ lW g l := by
  cases l with
  | nil => exact absurd rfl hl
  | cons t r => rw [lW_cons]; have := hg t; omega

theorem lW_inT_shift (M d e : Nat) (l : List Tok) : lW (inT M (d + e)) l = lW (inT M d) l + e * l.length := by
  induction l with
  | nil => simp [lW]
  | cons t r ih =>
    rw [lW_cons, lW_cons, ih]
    simp only [inT, dW, List.length_cons, Nat.mul_add]; omega

/-- the bridge takes the buffer -/
theorem handover_weight (M : Nat) (b : St) (pend : Option (Pipeline.Verdict × Nat))
    (hd : (step M b .handover).2 ≠ [Action.disabled]) :
    kW M (step M b .handover).1 pend + oW M (step M b .handover).2 + 1 ≤ kW M b pend := by
  cases hs : b.sets with
  | cons x r => simp [step, handover, hs] at hd
  | nil =>
    have hbr := bridgeW_le [b.buffer] pend
    have h8 : lW (inT M 10) b.buffer = lW (inT M 2) b.buffer + 8 * b.buffer.length := lW_inT_shift M 2 8 b.buffer
    have h0 : bridgeW [] pend = 0 := rfl
    cases hw : b.wait with
    | some t =>
      have e : step M b .handover =
          ({ b with sets := [b.buffer], buffer := [t], wait := none, stale := false }, [.add t.id t.part]) := by
        simp [step, handover, hs, hw]
      rw [e]
      simp only [kW, bpW, hs, hw, Option.toList_some, Option.toList_none, lW_single, lW_nil, oW_cons, oW_nil, outW,
        List.flatten_cons, List.flatten_nil, List.append_nil, h0] at hbr ⊢
      simp only [inT, dW]
      simp only [Bool.false_eq_true, if_false]; omega
    | none =>
      by_cases hb : b.buffer = []
      · have hst : b.stale = true := by
          cases h : b.stale with
          | true => rfl
          | false => simp [step, handover, hs, hw, hb, h] at hd
        have e : step M b .handover = ({ b with sets := [b.buffer], buffer := [], stale := false }, []) := by
          simp [step, handover, hs, hw, hb, hst]
        rw [e]
        simp only [kW, bpW, hs, hw, hb, hst, Option.toList_none, lW_nil, oW_nil, List.flatten_cons,
          List.flatten_nil, List.append_nil, h0] at hbr ⊢
        simp; omega
      · have e : step M b .handover = ({ b with sets := [b.buffer], buffer := [], stale := false }, []) := by
          cases hb' : b.buffer with
          | nil => exact absurd hb' hb
          | cons x r => simp [step, handover, hs, hw, hb']
        have hlen : 1 ≤ b.buffer.length := by
          cases hb' : b.buffer with
          | nil => exact absurd hb' hb
          | cons x r => simp
        rw [e]
        simp only [kW, bpW, hs, hw, Option.toList_none, lW_nil, oW_nil, List.flatten_cons,
          List.flatten_nil, List.append_nil, h0] at hbr ⊢
        split <;> simp <;> omega

/-- the weight of a worker without the set at the bridge -/
def nW (M : Nat) (b : St) : Nat :=
  lW (inT M 14) b.wait.toList + lW (inT M 10) b.buffer + (if b.stale then 4 else 0)

theorem bpW_eq (M : Nat) (b : St) : bpW M b = nW M b + lW (inT M 2) b.sets.flatten := by
  simp only [bpW, nW]; omega

/-- the re-check of waitForSpace never adds weight -/
theorem recheck_weight (M : Nat) (b : St) (acts : List Action) (still : Bool) :
    nW M (recheck M b acts still).1 + oW M (recheck M b acts still).2 ≤ nW M b + oW M acts ∧
    (recheck M b acts still).1.sets = b.sets := by
  simp only [recheck]
  cases hw : b.wait with
  | none =>
    refine ⟨?_, rfl⟩
    simp only [nW, hw, Option.toList_none, lW_nil, Bool.false_eq_true, if_false]
    split <;> omega
  | some t =>
    simp only
    split
    · refine ⟨?_, rfl⟩
      have := outW_retry M t
      simp only [nW, hw, Option.toList_some, Option.toList_none, lW_single, lW_nil, oW_append, oW_cons, oW_nil,
        inT, dW] at this ⊢
      split <;> simp <;> omega
    · split
      · exact ⟨Nat.le_refl _, rfl⟩
      · refine ⟨?_, rfl⟩
        simp only [nW, hw, Option.toList_some, Option.toList_none, lW_single, lW_nil, lW_append, oW_append, oW_cons,
          oW_nil, outW, inT, dW]
        split <;> simp <;> omega

theorem oW_map_zero (M : Nat) (l : List Tok) (f : Tok → Action) (hf : ∀ t, outW M (f t) = 0) : oW M (l.map f) = 0 := by
  induction l with
  | nil => rfl
  | cons t r ih => simp only [List.map_cons, oW_cons, hf, ih]

theorem lW_inT_mono (M : Nat) {d e : Nat} (h : d ≤ e) (l : List Tok) : lW (inT M d) l ≤ lW (inT M e) l :=
  lW_le l (fun t _ => by simp only [inT, dW]; omega)

/-- handling the answer: what is bounced is lighter than it was in the set / in the buffer -/
theorem handle_weight (M : Nat) (hM : 1 ≤ M) (b0 : St) (sent : List Tok) (v : Pipeline.Verdict)
    (hP : P0 sent) (hb : P0 b0.buffer) :
    nW M (handle M b0 sent v.toResp).1 + oW M (handle M b0 sent v.toResp).2 ≤ nW M b0 + lW (inT M 2) sent ∧
    (handle M b0 sent v.toResp).1.sets = b0.sets := by
  have hbuf := lW_inT_mono M (show 2 ≤ 10 by omega) b0.buffer
  have h1 := oW_retryMsgs M sent
  have h2 := oW_retryMsgs M b0.buffer
  cases v with
  | ok =>
    rw [handle_ok M b0 hP]
    exact ⟨by show nW M b0 + oW M _ ≤ _; rw [oW_map_zero M sent _ (fun _ => rfl)]; omega, rfl⟩
  | fatal =>
    rw [handle_fatal M hM b0 hP]
    exact ⟨by show nW M b0 + oW M _ ≤ _; rw [oW_map_zero M sent _ (fun _ => rfl)]; omega, rfl⟩
  | retriable a =>
    cases sent with
    | nil => rw [handle_retr_nil]; exact ⟨by simp [oW], rfl⟩
    | cons t r =>
      rw [handle_retr_cons M hM b0 t r hP hb a]
      refine ⟨?_, rfl⟩
      have r0 : outW M (.drop 0) = 0 := rfl
      simp only [nW, lW_nil, oW_append, oW_cons, r0]
      omega
  | conn a =>
    rw [handle_conn M b0 hP hb a]
    refine ⟨?_, rfl⟩
    have r0 : outW M .closing = 0 := rfl
    have r1 : outW M .abandon = 0 := rfl
    simp only [nW, lW_nil, oW_append, oW_cons, r0, r1]
    omega

/-- the answer reaches the run loop: the set leaves the bridge -/
theorem resp_weight (M : Nat) (hM : 1 ≤ M) (b : St) (sent : List Tok) (v : Pipeline.Verdict) (still : Bool)
    (x : Pipeline.Verdict × Nat) (hs : b.sets = [sent]) (hP : P0 (insideB b)) :
    kW M (step M b (.resp v.toResp still)).1 none + oW M (step M b (.resp v.toResp still)).2 + 1 ≤
      kW M b (some x) := by
  have hPs : P0 sent := fun t ht => hP t (by simp [insideB, Props.C02bp.inside, hs, ht])
  have hPb : P0 b.buffer := fun t ht => hP t (by simp [insideB, Props.C02bp.inside, ht])
  obtain ⟨h1, h1s⟩ := handle_weight M hM { b with sets := [] } sent v hPs hPb
  obtain ⟨h2, h2s⟩ := recheck_weight M (handle M { b with sets := [] } sent v.toResp).1
    (handle M { b with sets := [] } sent v.toResp).2 still
  have e : step M b (.resp v.toResp still) =
      recheck M (handle M { b with sets := [] } sent v.toResp).1 (handle M { b with sets := [] } sent v.toResp).2
        still := by
    simp [step, resp, hs]
  rw [e]
  have hn0 : nW M { b with sets := [] } = nW M b := rfl
  rw [hn0] at h1
  simp only [kW, bpW_eq, h2s, h1s, hs, List.flatten_nil, lW_nil, List.flatten_cons, List.append_nil]
  simp only [bridgeW]
  simp
  omega

end Lemmas.C02sys
