/-
  C02 composition: `ppRecv` keeps `Good`, branch by branch of `Model.PartProd.recv`.
-/
import SaramaVerif.Lemmas.C02sysStepP2

set_option linter.unusedSimpArgs false

namespace Lemmas.C02sys
open Model Model.Pipeline

theorem recv_rise (pp : PartProd.St) (px : PartProd.Tok) (h : px.retries > pp.hwm) :
    PartProd.recv pp px = ({ pp with hwm := px.retries, expect := PartProd.setExp pp.expect px.retries true },
      [.finSend (px.retries - 1), .emit px.id px.retries px.fin]) := by
  simp [PartProd.recv, h]

theorem recv_finLow (pp : PartProd.St) (px : PartProd.Tok) (h1 : ¬ px.retries > pp.hwm) (h2 : px.retries < pp.hwm)
    (hf : px.fin = true) :
    PartProd.recv pp px = ({ pp with expect := PartProd.setExp pp.expect px.retries false }, [.finDone]) := by
  have : pp.hwm > 0 := by omega
  simp [PartProd.recv, h1, h2, hf, this]

theorem recv_park (pp : PartProd.St) (px : PartProd.Tok) (h1 : ¬ px.retries > pp.hwm) (h2 : px.retries < pp.hwm)
    (hf : px.fin = false) :
    PartProd.recv pp px =
      ({ pp with bufs := PartProd.setBuf pp.bufs px.retries (pp.bufs px.retries ++ [px]) }, [.park px.id]) := by
  have : pp.hwm > 0 := by omega
  simp [PartProd.recv, h1, h2, hf, this]

theorem recv_finTop (pp : PartProd.St) (px : PartProd.Tok) (h1 : px.retries = pp.hwm) (h0 : pp.hwm > 0)
    (hf : px.fin = true) :
    PartProd.recv pp px =
      ({ hwm := (PartProd.flush pp.hwm pp.bufs (PartProd.setExp pp.expect pp.hwm false)).1,
         bufs := (PartProd.flush pp.hwm pp.bufs (PartProd.setExp pp.expect pp.hwm false)).2.1,
         expect := PartProd.setExp pp.expect pp.hwm false },
       .finDone :: (PartProd.flush pp.hwm pp.bufs (PartProd.setExp pp.expect pp.hwm false)).2.2) := by
  have a : ¬ px.retries > pp.hwm := by omega
  have b : ¬ px.retries < pp.hwm := by omega
  simp [PartProd.recv, a, b, hf, h0]

theorem recv_emit (pp : PartProd.St) (px : PartProd.Tok) (h1 : ¬ px.retries > pp.hwm)
    (h2 : pp.hwm = 0 ∨ (¬ px.retries < pp.hwm ∧ px.fin = false)) :
    PartProd.recv pp px = (pp, [.emit px.id px.retries px.fin]) := by
  rcases h2 with h2 | ⟨h2, h3⟩
  · have : ¬ pp.hwm > 0 := by omega
    simp [PartProd.recv, h1, this]
  · by_cases h0 : pp.hwm > 0
    · simp [PartProd.recv, h1, h2, h3, h0]
    · simp [PartProd.recv, h1, h0]

theorem pp_case_park {M : Nat} {s : Sys} {v : View} (h : Good M s v) (t : Tok) (r : List Tok)
    (hq : s.pq = t :: r) (lks : List (Option Nat)) (hk : t.kind = .data) (hlt : t.retries < s.pp.hwm) :
    ∃ v', Good M (ppActs (popS s r (PartProd.recv s.pp (toPP t)).1) lks (PartProd.recv s.pp (toPP t)).2) v' := by
  obtain ⟨hp0, hns, _, _⟩ := head_facts h t r hq
  have hvp := rep_pp h.rep
  obtain ⟨rest, hav, _⟩ := rep_pop h.rep t r hq s.pp
  have hfin : (toPP t).fin = false := isFin_data hk
  have hrec := recv_park s.pp (toPP t) (by show ¬ t.retries > s.pp.hwm; omega) hlt hfin
  rw [hrec]
  have hav' : v.av = ofPP (toPP t) :: rest := by rw [ofPP_toPP t hp0 hns]; exact hav
  refine ⟨parkV v (toPP t) rest, ?_⟩
  have := good_pp_quiet (v' := parkV v (toPP t) rest) h t r hq
    { s.pp with bufs := PartProd.setBuf s.pp.bufs (toPP t).retries (s.pp.bufs (toPP t).retries ++ [toPP t]) } rest
    (by simp [parkV, hvp]) hav (h.vinv.park (toPP t) rest hav' hfin (by rw [hvp]; exact hlt))
    (fun a ha => live_park (toPP t) rest hav' hfin ha) (by rw [hvp])
  simpa [ppActs, ppAct] using this

theorem pp_case_finLow {M : Nat} {s : Sys} {v : View} (h : Good M s v) (t : Tok) (r : List Tok)
    (hq : s.pq = t :: r) (lks : List (Option Nat)) (hk : t.kind = .fin) (hlt : t.retries < s.pp.hwm) :
    ∃ v', Good M (ppActs (popS s r (PartProd.recv s.pp (toPP t)).1) lks (PartProd.recv s.pp (toPP t)).2) v' := by
  have hvp := rep_pp h.rep
  obtain ⟨rest, hav, _⟩ := rep_pop h.rep t r hq s.pp
  have hfin : (toPP t).fin = true := isFin_fin hk
  have hrec := recv_finLow s.pp (toPP t) (by show ¬ t.retries > s.pp.hwm; omega) hlt hfin
  rw [hrec]
  refine ⟨finV v t.retries rest, ?_⟩
  have := good_pp_quiet (v' := finV v t.retries rest) h t r hq
    { s.pp with expect := PartProd.setExp s.pp.expect (toPP t).retries false } rest
    (by simp [finV, hvp, toPP]) hav (h.vinv.finDrop t rest hav hk)
    (fun a ha => live_finV t rest hav ha) (by rw [hvp])
  simpa [ppActs, ppAct] using this

theorem sublist_single {t : Tok} {k : List Tok} (h : k.Sublist [t]) : k = [] ∨ k = [t] := by
  cases k with
  | nil => exact Or.inl rfl
  | cons x k' =>
    right
    have hl := h.length_le
    cases k' with
    | nil =>
      have := h.subset (List.mem_cons_self ..)
      rw [List.mem_singleton.1 this]
    | cons y k'' => simp at hl

theorem pp_case_emit {M : Nat} {s : Sys} {v : View} (h : Good M s v) (t : Tok) (r : List Tok)
    (hq : s.pq = t :: r) (lks : List (Option Nat)) (hl : OkLks lks) (hk : t.kind = .data)
    (heq : t.retries = s.pp.hwm) :
    ∃ v', Good M (ppActs (popS s r (PartProd.recv s.pp (toPP t)).1) lks (PartProd.recv s.pp (toPP t)).2) v' := by
  obtain ⟨hp0, hns, _, _⟩ := head_facts h t r hq
  have hvp := rep_pp h.rep
  obtain ⟨rest, hav, hrep1⟩ := rep_pop h.rep t r hq s.pp
  have hfin : (toPP t).fin = false := isFin_data hk
  have hrec := recv_emit s.pp (toPP t) (by show ¬ t.retries > s.pp.hwm; omega)
    (Or.inr ⟨by show ¬ t.retries < s.pp.hwm; omega, hfin⟩)
  rw [hrec]
  have hact : [PartProd.Action.emit (toPP t).id (toPP t).retries (toPP t).fin] = [t].map emitA := by
    simp [emitA, toPP, isFin_data hk]
  rw [hact]
  have hd : isData t = true := by simp [isData, hk]
  refine good_pp_emits (w := ⟨s.pp, v.gw, rest, v.good⟩) h t r hq hrep1 h.conc.cur01 rfl rfl rfl rfl rfl rfl rfl
    rfl rfl (fun y hy => Or.inl hy) [t] (fun x hx => by rw [List.mem_singleton.1 hx]; exact ⟨hk, hp0⟩) lks hl ?_ ?_
  · intro kept hkept
    rw [← hvp]
    exact vinv_push1 h.vinv M t rest hav hd (by rw [hvp]; exact heq) kept (sublist_single hkept)
  · intro hcur x hx
    show x.retries ≤ s.pp.hwm
    rw [← hvp]
    exact h.conc.capN hcur x (by rw [hav]; exact (data_sublist (List.sublist_cons_self _ _)).subset hx)

def risePP (pp : PartProd.St) (l : Nat) : PartProd.St :=
  { pp with hwm := l, expect := PartProd.setExp pp.expect l true }

theorem pp_case_rise {M : Nat} {s : Sys} {v : View} (h : Good M s v) (t : Tok) (r : List Tok)
    (hq : s.pq = t :: r) (lks : List (Option Nat)) (hl : OkLks lks) (hk : t.kind = .data)
    (hgt : t.retries > s.pp.hwm) :
    ∃ v', Good M (ppActs (popS s r (PartProd.recv s.pp (toPP t)).1) lks (PartProd.recv s.pp (toPP t)).2) v' := by
  obtain ⟨hp0, hns, hM, _⟩ := head_facts h t r hq
  have hvp := rep_pp h.rep
  have hd : isData t = true := by simp [isData, hk]
  have hrec : PartProd.recv s.pp (toPP t) = (risePP s.pp t.retries,
      [.finSend (t.retries - 1), .emit t.id t.retries false]) := by
    rw [recv_rise s.pp (toPP t) hgt]; simp [risePP, toPP, isFin_data hk]
  rw [hrec]
  obtain ⟨rest, hav, hrep0⟩ := rep_pop h.rep t r hq (risePP s.pp t.retries)
  have hgt' : v.pp.hwm < t.retries := by rw [hvp]; exact hgt
  have hbad := rise_bad h.vinv hav hd hgt'
  have hcur : s.cur = some 0 := by
    rcases h.conc.cur01 with hc | hc
    · have := h.conc.capN hc t (by rw [hav, data_cons_data _ hd]; exact List.mem_cons_self ..)
      omega
    · exact hc
  obtain ⟨g', hrep1⟩ := rep_finSend hrep0 hbad (t.retries - 1) (by omega)
  have hl1 : t.retries - 1 + 1 = t.retries := by omega
  rw [hl1] at hrep1
  have hv1 := h.vinv.rise t rest hav hd hgt' g'
  have hav1 : (riseV v t.retries g').av = t :: (rest ++ [finTok t.retries]) := by simp [riseV, hav]
  have hact : ppActs (popS s r (risePP s.pp t.retries)) lks
      [.finSend (t.retries - 1), .emit t.id t.retries false] =
      ppActs (finS (popS s r (risePP s.pp t.retries)) (t.retries - 1)) lks ([t].map emitA) := by
    simp [ppActs, ppAct, popS, hcur, finS, pushS, emitA]
  rw [hact]
  have hw : (⟨risePP s.pp t.retries, v.gw, rest ++ [finTok t.retries], g'⟩ : View) =
      ⟨(riseV v t.retries g').pp, (riseV v t.retries g').gw, rest ++ [finTok t.retries],
        (riseV v t.retries g').good⟩ := by
    simp [riseV, risePP, hvp]
  refine good_pp_emits (w := ⟨risePP s.pp t.retries, v.gw, rest ++ [finTok t.retries], g'⟩) h t r hq hrep1
    (Or.inl rfl) rfl rfl rfl rfl rfl rfl rfl (by rw [W_finS]; rfl) (by rw [W_finS]; rfl) ?_ [t]
    (fun x hx => by rw [List.mem_singleton.1 hx]; exact ⟨hk, hp0⟩) lks hl ?_ ?_
  · intro y hy
    rw [W_finS] at hy
    rcases List.mem_append.1 hy with hy | hy
    · exact Or.inl hy
    · right
      rw [List.mem_singleton.1 hy]
      exact ⟨rfl, fun _ => by show t.retries - 1 < M; omega⟩
  · intro kept hkept
    rw [hw]
    have := vinv_push1 hv1 M t (rest ++ [finTok t.retries]) hav1 hd rfl kept (sublist_single hkept)
    exact ⟨this.1, fun a ha => live_rise t.retries g' (this.2 a ha)⟩
  · intro _ x hx
    show x.retries ≤ t.retries
    have hx' : x ∈ data v.av := by
      rw [hav, data_cons_data _ hd]
      rw [data_append, data_cons_not _ (finTok_notData _)] at hx
      exact List.mem_cons_of_mem _ (by simpa [data] using hx)
    exact rise_cap h.vinv hav hd hgt' x hx'

/-- every action of flushRetryBuffers forwards a parked token -/
theorem flush_all_emit : ∀ (h : Nat) (bufs : Nat → List PartProd.Tok) (e : Nat → Bool) (a : PartProd.Action),
    a ∈ (PartProd.flush h bufs e).2.2 → ∃ l, ∃ px ∈ bufs l, a = .emit px.id px.retries px.fin := by
  intro h
  induction h with
  | zero => intro bufs e a ha; simp [PartProd.flush] at ha
  | succ n ih =>
    intro bufs e a ha
    rw [PartProd.flush] at ha
    have hhead : ∀ a, a ∈ (bufs n).map (fun t => PartProd.Action.emit t.id t.retries t.fin) →
        ∃ l, ∃ px ∈ bufs l, a = .emit px.id px.retries px.fin := by
      intro a ha
      obtain ⟨px, hpx, rfl⟩ := List.mem_map.1 ha
      exact ⟨n, px, hpx, rfl⟩
    split at ha
    · exact hhead a ha
    · split at ha
      · exact hhead a ha
      · rcases List.mem_append.1 ha with ha | ha
        · exact hhead a ha
        · obtain ⟨l, px, hpx, rfl⟩ := ih _ _ _ ha
          refine ⟨l, px, ?_, rfl⟩
          simp only [PartProd.setBuf] at hpx
          split at hpx
          · cases hpx
          · exact hpx

/-- flushRetryBuffers stops at (or above) every lower level that still expects its chaser -/
theorem flush_hwm_ge : ∀ (h : Nat) (bufs : Nat → List PartProd.Tok) (e : Nat → Bool) (k : Nat), k < h → e k = true →
    k ≤ (PartProd.flush h bufs e).1 := by
  intro h
  induction h with
  | zero => intro bufs e k hk; omega
  | succ n ih =>
    intro bufs e k hk hek
    rw [PartProd.flush]
    split
    · show k ≤ n; omega
    · rename_i hn
      have hkn : k ≠ n := fun e' => by rw [e'] at hek; exact hn hek
      split
      · show k ≤ 0; omega
      · exact ih _ _ k (by omega) hek

theorem emits_normal {as : List PartProd.Action}
    (h : ∀ a ∈ as, ∃ id l, a = PartProd.Action.emit id l false) : as = (emToks as).map emitA := by
  induction as with
  | nil => rfl
  | cons a r ih =>
    obtain ⟨id, l, rfl⟩ := h _ (List.mem_cons_self ..)
    have := ih (fun b hb => h b (List.mem_cons_of_mem _ hb))
    simp only [emToks, List.filterMap_cons, emTok, List.map_cons] at this ⊢
    rw [← this]; simp [emitA, mkTok]

theorem emToks_data {as : List PartProd.Action}
    (h : ∀ a ∈ as, ∃ id l, a = PartProd.Action.emit id l false) :
    ∀ x ∈ emToks as, x.kind = .data ∧ x.part = 0 := by
  intro x hx
  simp only [emToks, List.mem_filterMap] at hx
  obtain ⟨a, ha, hax⟩ := hx
  obtain ⟨id, l, rfl⟩ := h a ha
  simp only [emTok, Option.some.injEq] at hax
  rw [← hax]; simp [mkTok]

theorem bumpF_sublist {M : Nat} {a b : List Tok} (h : a.Sublist b) : (bumpF M a).Sublist (bumpF M b) :=
  (h.filter _).map _

theorem bumpF_noFin {M : Nat} {E : List Tok} (h : ∀ x ∈ E, x.kind = .data) : (bumpF M E).filter isFin = [] := by
  simp only [List.filter_eq_nil_iff]
  intro x hx
  obtain ⟨y, hy, rfl⟩ := mem_bumpF hx
  simp [isFin, bump, h y hy]

theorem shrink_pushV (M : Nat) (w : View) {kept E : List Tok} (hk : kept.Sublist E)
    (hE : ∀ x ∈ E, x.kind = .data) : Shrink (pushV M w kept) (pushV M w E) := by
  have hK : ∀ x ∈ kept, x.kind = .data := fun x hx => hE x (hk.subset hx)
  refine ⟨rfl, rfl, ?_, ?_, ?_⟩
  · show (w.gw ++ _).Sublist (w.gw ++ _)
    refine (List.Sublist.refl _).append ?_
    split
    · exact hk
    · exact List.Sublist.refl _
  · show (w.av ++ _).Sublist (w.av ++ _)
    refine (List.Sublist.refl _).append ?_
    split
    · exact List.Sublist.refl _
    · exact bumpF_sublist hk
  · show (w.av ++ _).filter isFin = (w.av ++ _).filter isFin
    rw [List.filter_append, List.filter_append]
    congr 1
    split
    · rfl
    · rw [bumpF_noFin hK, bumpF_noFin hE]

def flushPP (pp : PartProd.St) : PartProd.St :=
  { hwm := (PartProd.flush pp.hwm pp.bufs (PartProd.setExp pp.expect pp.hwm false)).1,
    bufs := (PartProd.flush pp.hwm pp.bufs (PartProd.setExp pp.expect pp.hwm false)).2.1,
    expect := PartProd.setExp pp.expect pp.hwm false }

def flushActs (pp : PartProd.St) : List PartProd.Action :=
  (PartProd.flush pp.hwm pp.bufs (PartProd.setExp pp.expect pp.hwm false)).2.2

theorem pp_case_finTop {M : Nat} {s : Sys} {v : View} (h : Good M s v) (t : Tok) (r : List Tok)
    (hq : s.pq = t :: r) (lks : List (Option Nat)) (hl : OkLks lks) (hk : t.kind = .fin)
    (heq : t.retries = s.pp.hwm) :
    ∃ v', Good M (ppActs (popS s r (PartProd.recv s.pp (toPP t)).1) lks (PartProd.recv s.pp (toPP t)).2) v' := by
  obtain ⟨hp0, hns, _, hmem⟩ := head_facts h t r hq
  have hvp := rep_pp h.rep
  have hf1 := h.vinv.fin1 t hmem hk
  have hpos : s.pp.hwm > 0 := by rw [← heq]; omega
  have hrec : PartProd.recv s.pp (toPP t) = (flushPP s.pp, .finDone :: flushActs s.pp) :=
    recv_finTop s.pp (toPP t) heq hpos (isFin_fin hk)
  rw [hrec]
  obtain ⟨rest, hav, hrep1⟩ := rep_pop h.rep t r hq (flushPP s.pp)
  have hform : ∀ a ∈ flushActs s.pp, ∃ id l, a = PartProd.Action.emit id l false := by
    intro a ha
    obtain ⟨l, px, hpx, rfl⟩ := flush_all_emit _ _ _ a ha
    have := h.vinv.pinv.typed l px (by rw [hvp]; exact hpx)
    exact ⟨px.id, px.retries, by rw [this.2]⟩
  have hact : ppActs (popS s r (flushPP s.pp)) lks (.finDone :: flushActs s.pp) =
      ppActs (popS s r (flushPP s.pp)) lks ((emToks (flushActs s.pp)).map emitA) := by
    rw [← emits_normal hform]; simp [ppActs, ppAct]
  rw [hact]
  have hED := emToks_data hform
  have hvfin := h.vinv.finDrop t rest hav hk
  have hzv : ZV (finV v t.retries rest) := by
    intro y hy
    rcases finDrop_Z h.vinv t rest hav hk y hy with g | g | ⟨k, k1, k2, k3⟩
    · exact Or.inl g
    · right; left; show v.pp.hwm < y.retries; rw [hvp, ← heq]; exact g
    · refine Or.inr (Or.inr ⟨k, by show k < v.pp.hwm; rw [hvp, ← heq]; exact k1, ?_, k3⟩)
      have : ¬ k = t.retries := by omega
      simp only [finV, PartProd.setExp, this, ↓reduceIte]; exact k2
  have hflush : flushV M (finV v t.retries rest) =
      pushV M ⟨flushPP s.pp, v.gw, rest, v.good⟩ (emToks (flushActs s.pp)) := by
    simp [flushV, finV, pushV, flushPP, flushActs, hvp, heq]
  have hvall : VInv (flushV M (finV v t.retries rest)) := by
    refine VInv.flushAll M (s.pp.hwm - 1) hvfin hzv ?_ ?_
    · show v.pp.hwm = s.pp.hwm - 1 + 1; rw [hvp]; omega
    · show PartProd.setExp v.pp.expect t.retries false (s.pp.hwm - 1 + 1) = false
      have : s.pp.hwm - 1 + 1 = t.retries := by omega
      simp [PartProd.setExp, this]
  refine good_pp_emits (w := ⟨flushPP s.pp, v.gw, rest, v.good⟩) h t r hq hrep1 h.conc.cur01 rfl rfl rfl rfl rfl
    rfl rfl rfl rfl (fun y hy => Or.inl hy) (emToks (flushActs s.pp)) hED lks hl ?_ ?_
  · intro kept hkept
    have hsh := shrink_pushV M ⟨flushPP s.pp, v.gw, rest, v.good⟩ hkept (fun x hx => (hED x hx).1)
    rw [← hflush] at hsh
    refine ⟨hvall.shrink hsh, fun a ha => ?_⟩
    have h1 := live_shrink hsh ha
    have h2 := live_flushV M (s.pp.hwm - 1) (v := finV v t.retries rest)
      (by show v.pp.hwm = s.pp.hwm - 1 + 1; rw [hvp]; omega) h1
    exact live_finV t rest hav h2
  · intro hcur x hx
    have hx' : x ∈ data v.av := by rw [hav]; exact (data_sublist (List.sublist_cons_self _ _)).subset hx
    have h1 := h.conc.capN hcur x hx'
    rw [hvp] at h1
    rcases finDrop_Z h.vinv t rest hav hk x hx with g | g | ⟨k, k1, k2, k3⟩
    · rw [g]; exact Nat.zero_le _
    · omega
    · have hk' : k ≠ s.pp.hwm := by omega
      have := flush_hwm_ge s.pp.hwm s.pp.bufs (PartProd.setExp s.pp.expect s.pp.hwm false) k (by omega)
        (by simp only [PartProd.setExp, hk', ↓reduceIte]; rw [← hvp]; exact k2)
      show x.retries ≤ (flushPP s.pp).hwm
      simp only [flushPP]; omega

theorem good_ppRecv {M : Nat} {s s' : Sys} {v : View} {lks : List (Option Nat)} (h : Good M s v) (hl : OkLks lks)
    (hs : sysStep M s (.ppRecv lks) = some s') : ∃ v', Good M s' v' := by
  obtain ⟨t, r, hq, rfl⟩ := ppRecv_split hs
  obtain ⟨_, hns, _, hmem⟩ := head_facts h t r hq
  have hvp := rep_pp h.rep
  rcases kind_cases t with hk | hk | hk
  · by_cases hgt : t.retries > s.pp.hwm
    · exact pp_case_rise h t r hq lks hl hk hgt
    · by_cases hlt : t.retries < s.pp.hwm
      · exact pp_case_park h t r hq lks hk hlt
      · exact pp_case_emit h t r hq lks hl hk (by omega)
  · exact absurd hk hns
  · have hf1 := h.vinv.fin1 t hmem hk
    rw [hvp] at hf1
    by_cases hlt : t.retries < s.pp.hwm
    · exact pp_case_finLow h t r hq lks hk hlt
    · exact pp_case_finTop h t r hq lks hl hk (by omega)

end Lemmas.C02sys
