/-
  C02 composition, handover chain: the answer reaches the CURRENT worker.
-/
import SaramaVerif.Lemmas.C02chStepD

set_option linter.unusedSimpArgs false

namespace Lemmas.C02sys
open Model Model.Pipeline

theorem logC_deliver_ok {M : Nat} {s : Sys} {v v' : View} (hl : LogInvC s v)
    (hlive : ∀ a, LiveId v' a → LiveId v a) (w : Nat) (b' : BrokerProd.St) (X : List Tok) (e : List Int)
    (sent : List Tok) (base : Nat) (hb1 : ∀ p ∈ s.succ, p.2 < base) (hb2 : base + sent.length ≤ s.log.length)
    (hsorted : sent.Pairwise (fun a b => a.id < b.id)) (hsl : ∀ x ∈ sent, LiveId v x.id)
    (hnew : ∀ x ∈ sent, ∀ a, LiveId v' a → x.id < a)
    (hothers : ∀ u, u ≠ w → ∀ sent', (s.wk u).bp.sets = [sent'] → sent' = []) :
    LogInvC (deliverSw M s w b' X (s.succ ++ offs sent base) e) v' := by
  refine ⟨fun b hb a ha => hl.K b hb a (hlive a ha), hl.J, ?_, ?_, ?_, ?_, fun a ha => hl.idlt a (hlive a ha),
    hl.Llt, ?_⟩
  · intro p hp a ha
    rcases List.mem_append.1 hp with hp | hp
    · exact hl.S1 p hp a (hlive a ha)
    · obtain ⟨⟨x, hx, e1⟩, _⟩ := mem_offs hp
      rw [← e1]; exact hnew x hx a ha
  · intro p hp q hq hpq
    rcases List.mem_append.1 hp with hp | hp <;> rcases List.mem_append.1 hq with hq | hq
    · exact hl.S3 p hp q hq hpq
    · have := hb1 p hp; have := (mem_offs hq).2.1; omega
    · exfalso
      obtain ⟨⟨x, hx, e1⟩, _⟩ := mem_offs hp
      have := hl.S1 q hq x.id (hsl x hx); omega
    · exact offs_sorted hsorted hp hq hpq
  · intro p hp
    rcases List.mem_append.1 hp with hp | hp
    · exact hl.S5 p hp
    · have := (mem_offs hp).2.2
      show p.2 < s.log.length; omega
  · intro p hp
    rcases List.mem_append.1 hp with hp | hp
    · exact hl.S6 p hp
    · obtain ⟨⟨x, hx, e1⟩, _⟩ := mem_offs hp
      rw [← e1]; exact hl.idlt x.id (hsl x hx)
  · intro u vd base' hp
    by_cases eu : u = w
    · subst eu; rw [wk_deliverSw_same] at hp; cases hp
    · rw [wk_deliverSw_other M s b' X _ e eu] at hp ⊢
      obtain ⟨sent', a, _⟩ := hl.pend u vd base' hp
      exact ⟨sent', a, fun hne => absurd (hothers u eu sent' a) hne⟩

theorem logC_deliver_same {M : Nat} {s : Sys} {v v' : View} (hl : LogInvC s v)
    (hlive : ∀ a, LiveId v' a → LiveId v a) (w : Nat) (b' : BrokerProd.St) (X : List Tok) (e : List Int) :
    LogInvC (deliverSw M s w b' X s.succ e) v' := by
  refine logC_same hl rfl rfl rfl hlive ?_
  intro u vd base hpp
  by_cases eu : u = w
  · subst eu; rw [wk_deliverSw_same] at hpp; cases hpp
  · rw [wk_deliverSw_other M s b' X _ e eu] at hpp ⊢; exact ⟨hpp, rfl⟩

/-- the set `sent` leaves the current worker (normal mode) with a terminal outcome -/
theorem cur_shrink_core {M : Nat} {s : Sys} {olds : List Nat} {v : View} (h : GoodC M s olds v) (c : Nat)
    (hc : s.cur = some c) (hn : BrokerProd.needsRetry (s.wk c).bp 0 = false) (hnp : (s.wk c).bp ≠ {})
    (b' : BrokerProd.St)
    (hpinv : Props.C02bp.PInv b') (hcl : b'.closing = (s.wk c).bp.closing) (hcr : b'.cr = (s.wk c).bp.cr)
    (sent : List Tok) (hi : insW s c = sent ++ insideB b') (sc : List (Int × Nat)) (e : List Int) :
    ∃ v', (RepC M (deliverSw M s c b' [] sc e) olds v' ∧ ConcC M (deliverSw M s c b' [] sc e) olds v') ∧ VInv v' ∧
      (∀ a, LiveId v' a → LiveId v a) ∧ (∀ x ∈ sent, ∀ a, LiveId v' a → x.id < a) ∧
      sent.Pairwise (fun a b => a.id < b.id) ∧ (∀ x ∈ sent, LiveId v x.id) := by
  obtain ⟨gw, tc, g, hcur, hv⟩ := h.rep
  have hww := wk_deliverSw_same M s c b' [] sc e
  cases hcur with
  | none h1 => rw [hc] at h1; cases h1
  | closed c' h1 h2 h3 _ => rw [hc] at h1; cases h1; rw [needsRetry_iff, h2] at hn; cases hn
  | failed c' h1 h2 h3 h4 h5 => rw [hc] at h1; cases h1; rw [needsRetry_iff, h2, h3] at hn; cases hn
  | normal c' mk G h1 h2 h3 h4 h5 h6 =>
    rw [hc] at h1; cases h1
    have hgw : v.gw = sent ++ (insideB b' ++ G) := by rw [hv]; simp [hi, List.append_assoc]
    have hsh : Shrink ⟨v.pp, insideB b' ++ G, v.av, v.good⟩ v :=
      ⟨rfl, rfl, by rw [hgw]; exact List.sublist_append_right _ _, List.Sublist.refl _, rfl⟩
    have hv' := h.vinv.shrink hsh
    have hsorted := gw_sorted h.vinv
    rw [hgw, List.pairwise_append] at hsorted
    have hcur' : CurRep M (deliverSw M s c b' [] sc e) (insideB b' ++ G) [] true := by
      have := CurRep.normal (M := M) (s := deliverSw M s c b' [] sc e) c mk G hc (by rw [hww]; rw [hcl]; exact h2)
        (by rw [hww]; rw [hcr]; exact h3) (by rw [hww]; exact h4) h5
        (by
          rcases h6 with e1 | ⟨_, e2⟩
          · exact Or.inl e1
          · exact absurd e2 hnp)
      simpa [insW, hww] using this
    refine ⟨_, ?_, hv', fun a ha => live_shrink hsh ha, ?_, hsorted.1, ?_⟩
    · refine partsC_cur_frame h.conc c hc rfl rfl rfl rfl (fun u hu => wk_deliverSw_other M s b' [] sc e hu)
        (by rw [hww]; exact hpinv) (by rw [hww]; exact fun y hy => hy)
        (by intro y hy; left; rw [hi]; exact List.mem_append_right _ (by simpa [insW, hww] using hy))
        (by intro y hy; left; simpa [deliverSw, afterWw, bumpF_nil] using hy)
        (insideB b' ++ G) [] true hcur' (by rw [hv]; simp [deliverSw, afterWw, bumpF_nil]) ?_
      intro hnr
      rw [hww, needsRetry_iff, hcl, hcr, ← needsRetry_iff, hn] at hnr; cases hnr
    · intro x hx a ⟨y, hy, hya⟩
      have hxg : x ∈ v.gw := by rw [hgw]; exact List.mem_append_left _ hx
      rw [← hya]
      rcases hy with hy | hy
      · exact hsorted.2.2 x hx y hy
      · exact h.vinv.low x hxg y hy
    · intro x hx
      exact ⟨x, Or.inl (by rw [hgw]; exact List.mem_append_left _ hx), rfl⟩

/-- the set fails while the current worker is in normal mode: what it holds is bounced (and reaches the retries
    queue before whatever the old workers still have to bounce), what is in its queue will be bounced -/
theorem cur_fail_core {M : Nat} {s : Sys} {olds : List Nat} {v : View} (h : GoodC M s olds v) (c : Nat)
    (hc : s.cur = some c) (hn : BrokerProd.needsRetry (s.wk c).bp 0 = false) (hnp : (s.wk c).bp = {} → headSyn (s.wk c).inq = false)
    (b' : BrokerProd.St)
    (hpinv : Props.C02bp.PInv b') (hi : insideB b' = [])
    (hmode : b'.closing = true ∨ (b'.closing = false ∧ b'.cr 0 = true ∧ insW s c ≠ []))
    (sc : List (Int × Nat)) (e : List Int) :
    ∃ v', (RepC M (deliverSw M s c b' (insW s c) sc e) olds v' ∧ ConcC M (deliverSw M s c b' (insW s c) sc e) olds v') ∧
      VInv v' ∧ (∀ a, LiveId v' a → LiveId v a) := by
  obtain ⟨gw, tc, g, hcur, hv⟩ := h.rep
  have hww := wk_deliverSw_same M s c b' (insW s c) sc e
  cases hcur with
  | none h1 => rw [hc] at h1; cases h1
  | closed c' h1 h2 h3 _ => rw [hc] at h1; cases h1; rw [needsRetry_iff, h2] at hn; cases hn
  | failed c' h1 h2 h3 h4 h5 => rw [hc] at h1; cases h1; rw [needsRetry_iff, h2, h3] at hn; cases hn
  | normal c' mk G h1 h2 h3 h4 h5 h6 =>
    rw [hc] at h1; cases h1
    have hgood : v.good = true := by rw [hv]
    have hgwe : v.gw = insW s c ++ G := by rw [hv]
    have hf := h.vinv.fail M hgood
    have hav1 : (⟨v.pp, [], v.av ++ bumpF M v.gw, false⟩ : View).av =
        (s.pq ++ s.dq ++ s.ret) ++ lanes M s olds ++ bumpF M (insW s c) ++ bumpF M G := by
      rw [hv]; simp [bumpF_append, List.append_assoc]
    have hle := lanes_le_hwm h
    obtain ⟨hmb, hml⟩ := VInv.moveBlock (bumpF M (insW s c)) (s.pq ++ s.dq ++ s.ret) (lanes M s olds) (bumpF M G)
      hf hav1
      (by
        intro b hb
        obtain ⟨y, hy, rfl⟩ := mem_bumpF hb
        have hyg : y ∈ v.gw := by rw [hgwe]; exact List.mem_append_left _ hy
        refine ⟨bump_data (by simp [isData, h.vinv.gdata y hyg]), fun z hz => ?_⟩
        have := hle z (mem_data.1 hz).1
        have := h.vinv.ghw y hyg
        rw [bump_retries]; omega)
      (fun z hz => hle z (mem_data.1 hz).1)
    have hmk : mk = [] := by
      rcases h6 with e1 | ⟨e1, e2⟩
      · exact e1
      · have := hnp e2
        rw [h4, e1] at this
        simp [headSyn, synTok] at this
    subst hmk
    have hq : (s.wk c).inq = G := by rw [h4]; simp
    have hins' : insW (deliverSw M s c b' (insW s c) sc e) c = [] := by simp [insW, hww, hi]
    -- the new phase of the current worker
    have hcur' : CurRep M (deliverSw M s c b' (insW s c) sc e) [] (bumpF M G) false := by
      rcases hmode with hcl | ⟨hcl, hcr, hne⟩
      · have := CurRep.closed (M := M) (s := deliverSw M s c b' (insW s c) sc e) c hc (by rw [hww]; exact hcl) hins'
          (by rw [hww, hq]; exact h5)
        rw [hww] at this
        simpa [hq] using this
      · have := CurRep.failed (M := M) (s := deliverSw M s c b' (insW s c) sc e) c hc (by rw [hww]; exact hcl)
          (by rw [hww]; exact hcr) hins' (by rw [hww, hq]; exact h5)
        rw [hww] at this
        simpa [hq] using this
    refine ⟨_, ?_, hmb, fun a ha => live_fail M (hml a ha)⟩
    refine partsC_cur_frame h.conc c hc rfl rfl rfl rfl (fun u hu => wk_deliverSw_other M s b' _ sc e hu)
      (by rw [hww]; exact hpinv) (by rw [hww]; exact fun y hy => hy)
      (by intro y hy; rw [hins'] at hy; cases hy) ?_ [] (bumpF M G) false hcur'
      (by rw [hv]; simp [deliverSw, afterWw, List.append_assoc]) ?_
    · intro y hy
      rcases List.mem_append.1 hy with hy | hy
      · exact Or.inl hy
      · right
        simp only [bumpF, List.mem_map, List.mem_filter, decide_eq_true_eq] at hy
        obtain ⟨z, ⟨hz, hzl⟩, rfl⟩ := hy
        exact ⟨z, Or.inr hz, hzl, rfl⟩
    · intro _ x hx hxk
      rw [hww, h4] at hx
      have hxG : x ∈ G := by simpa using hx
      have := h.vinv.ghw x (by rw [hgwe]; exact List.mem_append_right _ hxG)
      show v.pp.hwm ≤ x.retries
      exact this

/-- an answer for the (empty) set of the current worker while it refuses the partition: the view stays -/
theorem cur_empty_core {M : Nat} {s : Sys} {olds : List Nat} {v : View} (h : GoodC M s olds v) (c : Nat)
    (hc : s.cur = some c) (hn : BrokerProd.needsRetry (s.wk c).bp 0 = true) (b' : BrokerProd.St)
    (hpinv : Props.C02bp.PInv b') (hcr : b'.cr = (s.wk c).bp.cr) (hi : insideB b' = [])
    (hcl : b'.closing = true ∨ b'.closing = (s.wk c).bp.closing) (sc : List (Int × Nat)) (e : List Int) :
    RepC M (deliverSw M s c b' [] sc e) olds v ∧ ConcC M (deliverSw M s c b' [] sc e) olds v := by
  obtain ⟨gw, tc, g, hcur, hv⟩ := h.rep
  have hww := wk_deliverSw_same M s c b' [] sc e
  have hins' : insW (deliverSw M s c b' [] sc e) c = [] := by simp [insW, hww, hi]
  have hnr' : BrokerProd.needsRetry b' 0 = true := by
    rw [needsRetry_iff] at hn ⊢
    rw [hcr]
    rcases hcl with e1 | e1
    · rw [e1]; rfl
    · rw [e1]; exact hn
  have build : ∀ tc', v = ⟨s.pp, [], s.pq ++ s.dq ++ s.ret ++ (lanes M s olds ++ tc'), false⟩ →
      CurRep M (deliverSw M s c b' [] sc e) [] tc' false →
      RepC M (deliverSw M s c b' [] sc e) olds v ∧ ConcC M (deliverSw M s c b' [] sc e) olds v := by
    intro tc' hv' hcur'
    refine partsC_cur_frame h.conc c hc rfl rfl rfl rfl (fun u hu => wk_deliverSw_other M s b' _ sc e hu)
      (by rw [hww]; exact hpinv) (by rw [hww]; exact fun y hy => hy)
      (by intro y hy; rw [hins'] at hy; cases hy)
      (by intro y hy; left; simpa [deliverSw, afterWw, bumpF_nil] using hy) [] tc' false hcur'
      (by rw [hv']; simp [deliverSw, afterWw, bumpF_nil]) ?_
    intro _ x hx hxk
    rw [hww] at hx
    exact h.conc.tcHi c hc hn x hx hxk
  cases hcur with
  | none h1 => rw [hc] at h1; cases h1
  | normal c' mk G h1 h2 h3 h4 h5 h6 => rw [hc] at h1; cases h1; rw [needsRetry_iff, h2, h3] at hn; cases hn
  | closed c' h1 h2 h3 h4 =>
    rw [hc] at h1; cases h1
    have hcl' : b'.closing = true := by
      rcases hcl with e1 | e1
      · exact e1
      · rw [e1]; exact h2
    refine build _ hv ?_
    have := CurRep.closed (M := M) (s := deliverSw M s c b' [] sc e) c hc (by rw [hww]; exact hcl') hins'
      (by rw [hww]; exact h4)
    rw [hww] at this; exact this
  | failed c' h1 h2 h3 h4 h5 =>
    rw [hc] at h1; cases h1
    refine build _ hv ?_
    by_cases hcl' : b'.closing = true
    · have := CurRep.closed (M := M) (s := deliverSw M s c b' [] sc e) c hc (by rw [hww]; exact hcl') hins'
        (by rw [hww]; exact h5)
      rw [hww] at this; exact this
    · have hcl'' : b'.closing = false := by
        rcases hcl with e1 | e1
        · exact absurd e1 hcl'
        · rw [e1]; exact h2
      have := CurRep.failed (M := M) (s := deliverSw M s c b' [] sc e) c hc (by rw [hww]; exact hcl'')
        (by rw [hww, hcr]; exact h3) hins' (by rw [hww]; exact h5)
      rw [hww] at this; exact this

end Lemmas.C02sys
