/-
  C02 composition, progress: NO LOSS.  Every submitted id is held somewhere - as a data token in a channel, at a
  worker, in a retry buffer of the partition producer - or has an outcome.  (Membership only; the exact count
  is `conservation_sys` for the single-worker runs.)  General: any number of workers, any choice.
-/
import SaramaVerif.Lemmas.C02liveEn

set_option linter.unusedSimpArgs false

namespace Lemmas.C02sys
open Model Model.Pipeline Model.BrokerProd
open Props.C02bp (ids inside outData outD PInv)

theorem mem_dataIds {i : Int} {l : List Tok} : i ∈ dataIds l ↔ ∃ t ∈ l, t.kind = .data ∧ t.id = i := by
  simp [dataIds, and_assoc]

/-- the outcome lists and the retries queue only grow under the worker's actions -/
theorem bpActs_mono (as : List Action) : ∀ (s : Sys) (off : Nat),
    (∀ x ∈ s.ret, x ∈ (bpActs s off as).ret) ∧ (∀ x ∈ s.succ.map (·.1), x ∈ (bpActs s off as).succ.map (·.1)) ∧
    (∀ x ∈ s.errs, x ∈ (bpActs s off as).errs) := by
  induction as with
  | nil => intro s off; exact ⟨fun _ h => h, fun _ h => h, fun _ h => h⟩
  | cons a r ih =>
    intro s off
    obtain ⟨h1, h2, h3⟩ := ih (bpAct s off a).1 (bpAct s off a).2
    have hb : (∀ x ∈ s.ret, x ∈ (bpAct s off a).1.ret) ∧
        (∀ x ∈ s.succ.map (·.1), x ∈ (bpAct s off a).1.succ.map (·.1)) ∧ (∀ x ∈ s.errs, x ∈ (bpAct s off a).1.errs) := by
      cases a <;> simp only [bpAct] <;> refine ⟨?_, ?_, ?_⟩ <;> intro x hx <;>
        first | exact hx | (split <;> simp_all) | simp_all
    exact ⟨fun x hx => h1 x (hb.1 x hx), fun x hx => h2 x (hb.2.1 x hx), fun x hx => h3 x (hb.2.2 x hx)⟩

/-- a data id that leaves a worker is in the retries queue or has an outcome -/
theorem bpActs_out (as : List Action) : ∀ (s : Sys) (off : Nat) (p : Int) (i : Int), i ∈ outData p as →
    i ∈ dataIds (bpActs s off as).ret ∨ i ∈ (bpActs s off as).succ.map (·.1) ∨ i ∈ (bpActs s off as).errs := by
  induction as with
  | nil => intro s off p i h; simp [outData] at h
  | cons a r ih =>
    intro s off p i h
    simp only [outData, List.filterMap_cons] at h
    obtain ⟨m1, m2, m3⟩ := bpActs_mono r (bpAct s off a).1 (bpAct s off a).2
    cases ho : outD p a with
    | none => rw [ho] at h; exact ih _ _ p i h
    | some j =>
      rw [ho] at h
      rcases List.mem_cons.1 h with e | e
      · subst e
        simp only [bpActs]
        cases a <;> simp only [outD] at ho
        case requeue id q rr fin =>
          cases fin <;> simp only at ho
          · split at ho
            · simp only [Option.some.injEq] at ho; subst ho
              refine Or.inl (mem_dataIds.2 ⟨⟨id, q, rr, .data⟩, m1 _ (by simp [bpAct]), rfl, rfl⟩)
            · cases ho
          · cases ho
        case expire id q fin =>
          cases fin <;> simp only at ho
          · split at ho
            · simp only [Option.some.injEq] at ho; subst ho
              exact Or.inr (Or.inr (m3 _ (by simp [bpAct])))
            · cases ho
          · cases ho
        case succ id q =>
          split at ho
          · simp only [Option.some.injEq] at ho; subst ho
            exact Or.inr (Or.inl (m2 _ (by simp [bpAct])))
          · cases ho
        case fail id q =>
          split at ho
          · simp only [Option.some.injEq] at ho; subst ho
            exact Or.inr (Or.inr (m3 _ (by simp [bpAct])))
          · cases ho
        all_goals cases ho
      · exact ih _ _ p i e

theorem mem_ids {i : Int} {l : List Tok} : i ∈ ids l ↔ ∃ t ∈ l, t.id = i := by simp [ids]

/-- ONE STEP of a worker loses nothing: what was inside, and the data token taken in, is inside afterwards or
    leaves with an action -/
theorem bp_noloss (M : Nat) (b : St) (inp : In) (h : PInv b) (i : Int)
    (hi : i ∈ ids (inside b) ∨ ∃ p, i ∈ ids (Props.C02bp.dataArrived p b inp)) :
    i ∈ ids (inside (step M b inp).1) ∨ ∃ p, i ∈ outData p (step M b inp).2 := by
  have hf := (Props.C02bp.step_fifo M b inp h).1
  have key : ∀ p, i ∈ ids (onPart p (inside b)) ++ ids (Props.C02bp.dataArrived p b inp) →
      i ∈ ids (inside (step M b inp).1) ∨ ∃ p, i ∈ outData p (step M b inp).2 := by
    intro p hm
    rw [← hf p] at hm
    rcases List.mem_append.1 hm with e | e
    · exact Or.inr ⟨p, e⟩
    · obtain ⟨t, ht, rfl⟩ := mem_ids.1 e
      exact Or.inl (mem_ids.2 ⟨t, Props.C02bp.mem_onPart ht, rfl⟩)
  rcases hi with hi | ⟨p, hi⟩
  · obtain ⟨t, ht, rfl⟩ := mem_ids.1 hi
    refine key t.part (List.mem_append_left _ (mem_ids.2 ⟨t, ?_, rfl⟩))
    simp [onPart, ht]
  · exact key p (List.mem_append_right _ hi)

/-- a data token taken from the input channel counts as arrived -/
theorem arrived_data (b : St) (t : Tok) (ov : Bool) (hw : b.wait = none) (hk : t.kind = .data) :
    t.id ∈ ids (Props.C02bp.dataArrived t.part b (.recv t ov)) := by
  simp [Props.C02bp.dataArrived, arrived, hw, hk, onPart, ids, Tok.isFin]

/-- the id `i` is held by the system: a data token in a channel, at a worker (input channel or inside), in a
    retry buffer of the partition producer; or it has an outcome -/
def Held (s : Sys) (i : Int) : Prop :=
  i ∈ dataIds (s.pq ++ s.dq ++ s.ret) ∨
  (∃ w, i ∈ dataIds (s.wk w).inq ∨ i ∈ ids (inside (s.wk w).bp)) ∨
  (∃ k, i ∈ (s.pp.bufs k).map (·.id)) ∨
  i ∈ s.succ.map (·.1) ∨ i ∈ s.errs

theorem dataIds_mono {a b : List Tok} (h : ∀ x ∈ a, x ∈ b) {i : Int} (hi : i ∈ dataIds a) : i ∈ dataIds b := by
  obtain ⟨t, ht, h1, h2⟩ := mem_dataIds.1 hi
  exact mem_dataIds.2 ⟨t, h t ht, h1, h2⟩

theorem held_bpRun {M : Nat} {s s' : Sys} {w : Nat} {q : List Tok} {pend : Option (Pipeline.Verdict × Nat)}
    {off : Nat} {inp : In} (hp : PInv (s.wk w).bp) {i : Int}
    (hq : i ∈ dataIds (s.wk w).inq → i ∈ dataIds q ∨ ∃ p, i ∈ ids (Props.C02bp.dataArrived p (s.wk w).bp inp))
    (hs : bpRun M s w q pend off inp = some s') (h : Held s i) : Held s' i := by
  obtain ⟨hwk, hpp, _, hd⟩ := bpRun_keep hs
  obtain ⟨hpq, hdq, post, hret⟩ := bpRun_frame hs
  simp only [bpRun, hd, if_false, Option.some.injEq] at hs
  obtain ⟨m1, m2, m3⟩ := bpActs_mono (step M (s.wk w).bp inp).2
    { s with wk := setW s.wk w ⟨q, (step M (s.wk w).bp inp).1, pend⟩ } off
  rw [hs] at m1 m2 m3
  have hout : ∀ p, i ∈ outData p (step M (s.wk w).bp inp).2 → Held s' i := by
    intro p ho
    have := bpActs_out _ { s with wk := setW s.wk w ⟨q, (step M (s.wk w).bp inp).1, pend⟩ } off p i ho
    rw [hs] at this
    rcases this with e | e | e
    · exact Or.inl (dataIds_mono (fun x hx => by simp only [List.mem_append]; exact Or.inr hx) e)
    · exact Or.inr (Or.inr (Or.inr (Or.inl e)))
    · exact Or.inr (Or.inr (Or.inr (Or.inr e)))
  have hin : (i ∈ ids (inside (s.wk w).bp) ∨ ∃ p, i ∈ ids (Props.C02bp.dataArrived p (s.wk w).bp inp)) →
      Held s' i := by
    intro hi
    rcases bp_noloss M _ inp hp i hi with e | ⟨p, e⟩
    · exact Or.inr (Or.inl ⟨w, Or.inr (by rw [hwk]; simpa [setW] using e)⟩)
    · exact hout p e
  rcases h with h | ⟨k, h⟩ | h | h | h
  · refine Or.inl (dataIds_mono ?_ h)
    intro x hx; rw [hpq, hdq, hret]; simp only [List.mem_append] at hx ⊢; grind
  · by_cases hk : k = w
    · subst hk
      rcases h with h | h
      · rcases hq h with e | e
        · exact Or.inr (Or.inl ⟨k, Or.inl (by rw [hwk]; simpa [setW] using e)⟩)
        · exact hin (Or.inr e)
      · exact hin (Or.inl h)
    · exact Or.inr (Or.inl ⟨k, by rw [hwk]; simpa [setW, hk] using h⟩)
  · exact Or.inr (Or.inr (Or.inl (by rw [hpp]; exact h)))
  · exact Or.inr (Or.inr (Or.inr (Or.inl (m2 _ h))))
  · exact Or.inr (Or.inr (Or.inr (Or.inr (m3 _ h))))

theorem pushW_bp (f : Nat → Worker) (w : Nat) (t : Tok) (k : Nat) : (pushW f w t k).bp = (f k).bp := by
  by_cases h : k = w
  · simp [pushW, setW, h]
  · simp [pushW, setW, h]

/-- the partition producer's actions leave the workers' insides and the successes alone; errors only grow -/
theorem ppAct_keep (s : Sys) (lks : List (Option Nat)) (a : PartProd.Action) :
    (∀ k, ((ppAct s lks a).1.wk k).bp = (s.wk k).bp) ∧ (ppAct s lks a).1.succ = s.succ ∧
    (∀ x ∈ s.errs, x ∈ (ppAct s lks a).1.errs) := by
  cases a with
  | finSend l =>
    simp only [ppAct]; split
    · exact ⟨fun _ => rfl, rfl, fun _ h => h⟩
    · exact ⟨fun k => pushW_bp _ _ _ k, rfl, fun _ h => h⟩
  | emit id l fin =>
    simp only [ppAct]; split
    · exact ⟨fun k => pushW_bp _ _ _ k, rfl, fun _ h => h⟩
    · split
      · exact ⟨fun k => (pushW_bp _ _ _ k).trans (pushW_bp _ _ _ k), rfl, fun _ h => h⟩
      · refine ⟨fun _ => rfl, rfl, fun x h => ?_⟩
        show x ∈ (if fin = true then s.errs else s.errs ++ [id])
        split
        · exact h
        · exact List.mem_append_left _ h
  | park id => exact ⟨fun _ => rfl, rfl, fun _ h => h⟩
  | finDone => exact ⟨fun _ => rfl, rfl, fun _ h => h⟩

theorem ppActs_keep (as : List PartProd.Action) : ∀ (s : Sys) (lks : List (Option Nat)),
    (∀ k, ((ppActs s lks as).wk k).bp = (s.wk k).bp) ∧ (ppActs s lks as).succ = s.succ ∧
    (∀ x ∈ s.errs, x ∈ (ppActs s lks as).errs) := by
  induction as with
  | nil => intro s lks; exact ⟨fun _ => rfl, rfl, fun _ h => h⟩
  | cons a r ih =>
    intro s lks
    obtain ⟨h1, h2, h3⟩ := ih (ppAct s lks a).1 (ppAct s lks a).2
    obtain ⟨g1, g2, g3⟩ := ppAct_keep s lks a
    exact ⟨fun k => (h1 k).trans (g1 k), h2.trans g2, fun x hx => h3 x (g3 x hx)⟩

/-- an emitted data token lands in a worker's input channel, or (no leader) among the errors -/
theorem ppActs_emit (as : List PartProd.Action) : ∀ (s : Sys) (lks : List (Option Nat)) (id : Int) (l : Nat),
    PartProd.Action.emit id l false ∈ as →
    (∃ w, id ∈ dataIds ((ppActs s lks as).wk w).inq) ∨ id ∈ (ppActs s lks as).errs := by
  induction as with
  | nil => intro s lks id l h; cases h
  | cons a r ih =>
    intro s lks id l h
    rcases List.mem_cons.1 h with e | e
    · subst e
      simp only [ppActs]
      obtain ⟨_, _, g3⟩ := ppActs_grow r (ppAct s lks (.emit id l false)).1 (ppAct s lks (.emit id l false)).2
      obtain ⟨_, _, k3⟩ := ppActs_keep r (ppAct s lks (.emit id l false)).1 (ppAct s lks (.emit id l false)).2
      have hm : mkTok id l false ∈ [mkTok id l false] := List.mem_singleton.2 rfl
      have hd : ∀ (_ : Nat) (q : List Tok), mkTok id l false ∈ q → id ∈ dataIds q := fun _ q hq =>
        mem_dataIds.2 ⟨_, hq, by simp [mkTok], rfl⟩
      have land : ∀ w, mkTok id l false ∈ ((ppAct s lks (.emit id l false)).1.wk w).inq →
          ∃ w, id ∈ dataIds ((ppActs (ppAct s lks (.emit id l false)).1 (ppAct s lks (.emit id l false)).2 r).wk w).inq := by
        intro w hw
        obtain ⟨post, e⟩ := g3 w
        exact ⟨w, hd w _ (by rw [e]; exact List.mem_append_left _ hw)⟩
      cases hc : s.cur with
      | some w => exact Or.inl (land w (by simp only [ppAct, hc]; exact pushW_mem _ _ _))
      | none =>
        cases lks with
        | nil => exact Or.inr (k3 _ (by simp [ppAct, hc]))
        | cons x rest =>
          cases x with
          | none => exact Or.inr (k3 _ (by simp [ppAct, hc]))
          | some w => exact Or.inl (land w (by simp only [ppAct, hc]; exact pushW_mem _ _ _))
    · simp only [ppActs]; exact ih _ _ id l e

def emitOf (y : PartProd.Tok) : PartProd.Action := .emit y.id y.retries y.fin

theorem flush_noloss : ∀ (h : Nat) (bufs : Nat → List PartProd.Tok) (e : Nat → Bool) (k : Nat) (y : PartProd.Tok),
    y ∈ bufs k → y ∈ (PartProd.flush h bufs e).2.1 k ∨ emitOf y ∈ (PartProd.flush h bufs e).2.2 := by
  intro h
  induction h with
  | zero => intro bufs e k y hy; exact Or.inl (by simpa [PartProd.flush] using hy)
  | succ h ih =>
    intro bufs e k y hy
    have one : y ∈ PartProd.setBuf bufs h [] k ∨
        emitOf y ∈ (bufs h).map (fun t => PartProd.Action.emit t.id t.retries t.fin) := by
      by_cases hk : k = h
      · subst hk; exact Or.inr (List.mem_map.2 ⟨y, hy, rfl⟩)
      · exact Or.inl (by simpa [PartProd.setBuf, hk] using hy)
    simp only [PartProd.flush]
    split
    · exact one
    · split
      · exact one
      · rcases one with o | o
        · rcases ih _ e k y o with r | r
          · exact Or.inl r
          · exact Or.inr (List.mem_append_right _ r)
        · exact Or.inr (List.mem_append_left _ o)

/-- ONE STEP of the partition producer loses nothing: a parked message stays parked or is emitted; the message
    taken in is parked or emitted -/
theorem recv_noloss (p : PartProd.St) (x : PartProd.Tok) :
    (∀ k y, y ∈ p.bufs k → y ∈ (PartProd.recv p x).1.bufs k ∨ emitOf y ∈ (PartProd.recv p x).2) ∧
    (x.fin = false → (∃ k, x ∈ (PartProd.recv p x).1.bufs k) ∨ emitOf x ∈ (PartProd.recv p x).2) := by
  simp only [PartProd.recv]
  split
  · exact ⟨fun k y hy => Or.inl hy, fun _ => Or.inr (by simp [emitOf])⟩
  · split
    · split
      · split
        · rename_i hf; exact ⟨fun k y hy => Or.inl hy, fun h => by rw [h] at hf; cases hf⟩
        · refine ⟨fun k y hy => Or.inl ?_, fun _ => Or.inl ⟨x.retries, by simp [PartProd.setBuf]⟩⟩
          by_cases hk : k = x.retries
          · subst hk; simp [PartProd.setBuf, hy]
          · simpa [PartProd.setBuf, hk] using hy
      · split
        · rename_i hf
          refine ⟨fun k y hy => ?_, fun h => by rw [h] at hf; cases hf⟩
          rcases flush_noloss p.hwm p.bufs (PartProd.setExp p.expect p.hwm false) k y hy with r | r
          · exact Or.inl r
          · exact Or.inr (List.mem_cons_of_mem _ r)
        · exact ⟨fun k y hy => Or.inl hy, fun _ => Or.inr (by simp [emitOf])⟩
    · exact ⟨fun k y hy => Or.inl hy, fun _ => Or.inr (by simp [emitOf])⟩

theorem held_ppRecv {M : Nat} {s s' : Sys} {lks : List (Option Nat)}
    (htyped : ∀ l, ∀ t ∈ s.pp.bufs l, t.fin = false) (hs : sysStep M s (.ppRecv lks) = some s') {i : Int}
    (h : Held s i) : Held s' i := by
  cases hq : s.pq with
  | nil => simp [sysStep, hq] at hs
  | cons t r =>
    simp only [sysStep, hq, Option.some.injEq] at hs
    obtain ⟨f1, f2, f3⟩ := ppActs_frame (PartProd.recv s.pp (toPP t)).2
      { s with pq := r, pp := (PartProd.recv s.pp (toPP t)).1 } lks
    obtain ⟨g1, _, g3⟩ := ppActs_grow (PartProd.recv s.pp (toPP t)).2
      { s with pq := r, pp := (PartProd.recv s.pp (toPP t)).1 } lks
    obtain ⟨k1, k2, k3⟩ := ppActs_keep (PartProd.recv s.pp (toPP t)).2
      { s with pq := r, pp := (PartProd.recv s.pp (toPP t)).1 } lks
    have hem := ppActs_emit (PartProd.recv s.pp (toPP t)).2
      { s with pq := r, pp := (PartProd.recv s.pp (toPP t)).1 } lks
    rw [hs] at f1 f2 f3 g1 g3 k1 k2 k3 hem
    simp only at f1 f2 f3 g1 g3 k1 k2 k3
    obtain ⟨n1, n2⟩ := recv_noloss s.pp (toPP t)
    have emitted : ∀ y : PartProd.Tok, y.fin = false → emitOf y ∈ (PartProd.recv s.pp (toPP t)).2 →
        Held s' y.id := by
      intro y hy he
      simp only [emitOf, hy] at he
      rcases hem y.id y.retries he with ⟨w, e⟩ | e
      · exact Or.inr (Or.inl ⟨w, Or.inl e⟩)
      · exact Or.inr (Or.inr (Or.inr (Or.inr e)))
    rcases h with h | ⟨k, h⟩ | ⟨k, h⟩ | h | h
    · obtain ⟨x, hx, x1, x2⟩ := mem_dataIds.1 h
      rw [hq] at hx
      have hx' : x = t ∨ x ∈ r ++ s.dq ++ s.ret := by
        simp only [List.mem_append, List.cons_append, List.mem_cons] at hx ⊢; grind
      rcases hx' with e | e
      · subst e
        have hf : (toPP x).fin = false := by simp [toPP, Tok.isFin, x1]
        rcases n2 hf with ⟨k, hk⟩ | he
        · refine Or.inr (Or.inr (Or.inl ⟨k, ?_⟩))
          rw [g1]; exact List.mem_map.2 ⟨_, hk, by simp [toPP, x2]⟩
        · have := emitted _ hf he
          simpa [toPP, x2] using this
      · exact Or.inl (mem_dataIds.2 ⟨x, by rw [f1, f2, f3]; exact e, x1, x2⟩)
    · rcases h with h | h
      · obtain ⟨post, e⟩ := g3 k
        exact Or.inr (Or.inl ⟨k, Or.inl (dataIds_mono (fun x hx => by rw [e]; exact List.mem_append_left _ hx) h)⟩)
      · exact Or.inr (Or.inl ⟨k, Or.inr (by rw [k1 k]; exact h)⟩)
    · obtain ⟨y, hy, rfl⟩ := List.mem_map.1 h
      rcases n1 k y hy with e | e
      · exact Or.inr (Or.inr (Or.inl ⟨k, by rw [g1]; exact List.mem_map.2 ⟨y, e, rfl⟩⟩))
      · exact emitted y (htyped k y hy) e
    · exact Or.inr (Or.inr (Or.inr (Or.inl (by rw [k2]; exact h))))
    · exact Or.inr (Or.inr (Or.inr (Or.inr (k3 _ h))))

theorem held_mono {s s' : Sys} {i : Int} (h : Held s i)
    (hq : ∀ x ∈ s.pq ++ s.dq ++ s.ret, x ∈ s'.pq ++ s'.dq ++ s'.ret)
    (hw : ∀ w, (s'.wk w).inq = (s.wk w).inq ∧ inside (s'.wk w).bp = inside (s.wk w).bp) (hp : s'.pp = s.pp)
    (hsucc : s'.succ = s.succ) (he : s'.errs = s.errs) : Held s' i := by
  rcases h with h | ⟨k, h⟩ | h | h | h
  · exact Or.inl (dataIds_mono hq h)
  · exact Or.inr (Or.inl ⟨k, by rw [(hw k).1, (hw k).2]; exact h⟩)
  · exact Or.inr (Or.inr (Or.inl (by rw [hp]; exact h)))
  · exact Or.inr (Or.inr (Or.inr (Or.inl (by rw [hsucc]; exact h))))
  · exact Or.inr (Or.inr (Or.inr (Or.inr (by rw [he]; exact h))))

/-- NO LOSS, one step: an id that is held stays held -/
theorem held_step {M : Nat} {s s' : Sys} {c : Choice} (hp : ∀ w, PInv (s.wk w).bp)
    (htyped : ∀ l, ∀ t ∈ s.pp.bufs l, t.fin = false) (hs : sysStep M s c = some s') {i : Int}
    (h : Held s i) : Held s' i := by
  cases c with
  | submit =>
    simp only [sysStep, Option.some.injEq] at hs; subst hs
    exact held_mono h (by intro f hf; simp only [List.mem_append] at hf ⊢; grind) (fun _ => ⟨rfl, rfl⟩) rfl rfl rfl
  | retryOut =>
    cases hr : s.ret with
    | nil => simp [sysStep, hr] at hs
    | cons t r =>
      simp only [sysStep, hr, Option.some.injEq] at hs; subst hs
      exact held_mono h (by intro f hf; rw [hr] at hf; simp only [List.mem_append, List.mem_cons] at hf ⊢; grind)
        (fun _ => ⟨rfl, rfl⟩) rfl rfl rfl
  | dispatch =>
    cases hr : s.dq with
    | nil => simp [sysStep, hr] at hs
    | cons t r =>
      simp only [sysStep, hr, Option.some.injEq] at hs; subst hs
      exact held_mono h (by intro f hf; rw [hr] at hf; simp only [List.mem_append, List.mem_cons] at hf ⊢; grind)
        (fun _ => ⟨rfl, rfl⟩) rfl rfl rfl
  | ppRecv lks => exact held_ppRecv htyped hs h
  | bpRecv w ov =>
    cases hq : (s.wk w).inq with
    | nil => simp [sysStep, hq] at hs
    | cons t r =>
      simp only [sysStep, hq] at hs
      have hw := recv_disabled M _ t ov (bpRun_keep hs).2.2.2
      refine held_bpRun (hp w) (fun hi => ?_) hs h
      rw [hq] at hi
      obtain ⟨x, hx, x1, x2⟩ := mem_dataIds.1 hi
      rcases List.mem_cons.1 hx with e | e
      · subst e; exact Or.inr ⟨x.part, x2 ▸ arrived_data _ x ov hw x1⟩
      · exact Or.inl (mem_dataIds.2 ⟨x, e, x1, x2⟩)
  | handover w => exact held_bpRun (hp w) (fun hi => Or.inl hi) (by simpa [sysStep] using hs) h
  | broker w v =>
    simp only [sysStep] at hs
    split at hs
    · split at hs
      · cases hs
      · simp only [Option.some.injEq] at hs; subst hs
        refine held_mono h (fun _ hf => hf) (fun k => ?_) rfl rfl rfl
        by_cases hk : k = w
        · subst hk; simp [setW]
        · simp [setW, hk]
    · cases hs
  | deliver w still =>
    simp only [sysStep] at hs
    split at hs
    · cases hs
    · exact held_bpRun (hp w) (fun hi => Or.inl hi) hs h
  | moveLeader b =>
    simp only [sysStep, Option.some.injEq] at hs; subst hs
    exact held_mono h (fun _ hf => hf) (fun _ => ⟨rfl, rfl⟩) rfl rfl rfl
  | closeW w =>
    obtain ⟨_, rfl⟩ := closeW_spec hs
    refine held_mono h (fun _ hf => hf) (fun k => ?_) rfl rfl rfl
    by_cases hk : k = w
    · subst hk; simp [setW, closeBp, inside]
    · simp [setW, hk]

theorem bpActs_next (as : List Action) : ∀ (s : Sys) (off : Nat), (bpActs s off as).next = s.next := by
  induction as with
  | nil => intro s off; rfl
  | cons a r ih =>
    intro s off
    simp only [bpActs]; rw [ih]
    cases a <;> rfl

theorem bpRun_next {M : Nat} {s s' : Sys} {w : Nat} {q : List Tok} {pend : Option (Pipeline.Verdict × Nat)}
    {off : Nat} {inp : In} (hs : bpRun M s w q pend off inp = some s') : s'.next = s.next := by
  simp only [bpRun] at hs
  split at hs
  · cases hs
  · simp only [Option.some.injEq] at hs; rw [← hs, bpActs_next]

theorem ppActs_next (as : List PartProd.Action) : ∀ (s : Sys) (lks : List (Option Nat)),
    (ppActs s lks as).next = s.next := by
  induction as with
  | nil => intro s lks; rfl
  | cons a r ih =>
    intro s lks
    simp only [ppActs]; rw [ih]
    cases a with
    | finSend l => simp only [ppAct]; split <;> rfl
    | emit id l fin =>
      simp only [ppAct]; split
      · rfl
      · split <;> rfl
    | park id => rfl
    | finDone => rfl

theorem sysStep_next {M : Nat} {s s' : Sys} {c : Choice} (hs : sysStep M s c = some s') (hc : c ≠ .submit) :
    s'.next = s.next := by
  cases c with
  | submit => exact absurd rfl hc
  | retryOut => simp only [sysStep] at hs; split at hs <;> simp only [Option.some.injEq, reduceCtorEq] at hs; subst hs; rfl
  | dispatch => simp only [sysStep] at hs; split at hs <;> simp only [Option.some.injEq, reduceCtorEq] at hs; subst hs; rfl
  | ppRecv lks =>
    simp only [sysStep] at hs; split at hs <;> simp only [Option.some.injEq, reduceCtorEq] at hs
    subst hs; exact ppActs_next _ _ _
  | bpRecv w ov =>
    simp only [sysStep] at hs; split at hs
    · cases hs
    · exact bpRun_next hs
  | handover w => exact bpRun_next (by simpa [sysStep] using hs)
  | broker w v =>
    simp only [sysStep] at hs
    split at hs
    · split at hs
      · cases hs
      · simp only [Option.some.injEq] at hs; subst hs; rfl
    · cases hs
  | deliver w still =>
    simp only [sysStep] at hs; split at hs
    · cases hs
    · exact bpRun_next hs
  | moveLeader b => simp only [sysStep, Option.some.injEq] at hs; subst hs; rfl
  | closeW w => obtain ⟨_, rfl⟩ := closeW_spec hs; rfl

/-- every submitted id is held -/
def NoLoss (s : Sys) : Prop := ∀ i : Int, 0 ≤ i → i < (s.next : Int) → Held s i

theorem noLoss_init : NoLoss {} := by intro i h0 h1; simp at h1; omega

theorem noLoss_step {M : Nat} {s s' : Sys} {c : Choice} (hp : ∀ w, PInv (s.wk w).bp)
    (htyped : ∀ l, ∀ t ∈ s.pp.bufs l, t.fin = false) (hs : sysStep M s c = some s') (h : NoLoss s) :
    NoLoss s' := by
  intro i h0 h1
  by_cases hc : c = .submit
  · subst hc
    by_cases hi : i < (s.next : Int)
    · exact held_step hp htyped hs (h i h0 hi)
    · simp only [sysStep, Option.some.injEq] at hs
      subst hs
      have : i = (s.next : Int) := by simp at h1; omega
      refine Or.inl (mem_dataIds.2 ⟨mkTok (s.next : Int) 0 false, by simp, by simp [mkTok], by simp [mkTok, this]⟩)
  · have hn := sysStep_next hs hc
    exact held_step hp htyped hs (h i h0 (by rw [hn] at h1; exact h1))

/-- in a quiet state every held id has its outcome -/
theorem quiet_outcome {s : Sys} (hq : Quiet s) {i : Int} (h : Held s i) : i ∈ s.succ.map (·.1) ∨ i ∈ s.errs := by
  obtain ⟨q1, q2, q3, q4, q5⟩ := hq
  rcases h with h | ⟨k, h⟩ | ⟨k, h⟩ | h | h
  · simp [q1, q2, q3, dataIds] at h
  · obtain ⟨i1, i2, i3, i4, _⟩ := q4 k
    rcases h with h | h
    · simp [i1, dataIds] at h
    · simp [inside, ids, i2, i3, i4] at h
  · simp [q5 k] at h
  · exact Or.inl h
  · exact Or.inr h

end Lemmas.C02sys
