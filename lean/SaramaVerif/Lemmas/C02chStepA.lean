/-
  C02 composition, handover chain: submit / retryOut / dispatch / moveLeader keep the chain invariant `GoodC`.
-/
import SaramaVerif.Lemmas.C02chRep
import SaramaVerif.Lemmas.C02sysStepA

set_option linter.unusedSimpArgs false

namespace Lemmas.C02sys
open Model Model.Pipeline

theorem curRep_congr {M : Nat} {s s' : Sys} {gw tc : List Tok} {g : Bool} (h : CurRep M s gw tc g)
    (hc : s'.cur = s.cur) (hw : s'.wk = s.wk) : CurRep M s' gw tc g := by
  cases h with
  | none h1 => exact CurRep.none (by rw [hc]; exact h1)
  | closed c h1 h2 h3 h4 =>
    have := CurRep.closed (M := M) (s := s') c (by rw [hc]; exact h1) (by rw [hw]; exact h2) (by simpa [insW, hw] using h3)
      (by rw [hw]; exact h4)
    simpa [hw] using this
  | normal c mk G h1 h2 h3 h4 h5 h6 =>
    have := CurRep.normal (M := M) (s := s') c mk G (by rw [hc]; exact h1) (by rw [hw]; exact h2) (by rw [hw]; exact h3)
      (by rw [hw]; exact h4) h5 (by rw [hw]; exact h6)
    simpa [insW, hw] using this
  | failed c h1 h2 h3 h4 h5 =>
    have := CurRep.failed (M := M) (s := s') c (by rw [hc]; exact h1) (by rw [hw]; exact h2) (by rw [hw]; exact h3)
      (by simpa [insW, hw] using h4) (by rw [hw]; exact h5)
    simpa [hw] using this

theorem lanes_congr {M : Nat} {s s' : Sys} (hw : s'.wk = s.wk) (olds : List Nat) : lanes M s' olds = lanes M s olds := by
  have : lane M s' = lane M s := by funext w; simp [lane, hw]
  simp [lanes, this]

theorem bands_congr {M : Nat} {s s' : Sys} (hw : s'.wk = s.wk) : ∀ (olds : List Nat) (p : Nat),
    Bands M s p olds → Bands M s' p olds := by
  intro olds
  induction olds with
  | nil => intro _ _; trivial
  | cons w r ih =>
    intro p h
    rcases h with ⟨h1, h2⟩ | ⟨D, k, h1, h2, h3, h4, h5, h6⟩
    · exact Or.inl ⟨by rw [hw]; exact h1, ih p h2⟩
    · exact Or.inr ⟨D, k, by rw [hw]; exact h1, h2, h3, h4, h5, ih _ h6⟩

/-- a step that leaves the partition producer, the workers and the outcomes alone and does not change the
    concatenation pp.input ++ p.input ++ retries -/
theorem goodC_queue_move {M : Nat} {s s' : Sys} {olds : List Nat} {v : View} (h : GoodC M s olds v)
    (hpp : s'.pp = s.pp) (hc : s'.cur = s.cur) (hw : s'.wk = s.wk) (hn : s'.next = s.next) (hl : s'.log = s.log)
    (hs : s'.succ = s.succ) (hcr : s'.crash = s.crash) (hq : s'.pq ++ s'.dq ++ s'.ret = s.pq ++ s.dq ++ s.ret)
    (hr : ∀ t ∈ s'.ret, t ∈ s.ret) : GoodC M s' olds v := by
  obtain ⟨⟨gw, tc, g, hcur, hv⟩, hvi, hco, hlo⟩ := h
  refine ⟨⟨gw, tc, g, curRep_congr hcur hc hw, ?_⟩, hvi, ?_, ?_⟩
  · rw [hv, hpp, hq, lanes_congr hw]
  · refine ⟨⟨by rw [hw]; exact hco.pinv, by rw [hq]; exact hco.p0q, by simpa [insW, hw] using hco.p0w,
      by rw [hq]; exact hco.lvl, by rw [hw]; exact hco.finq, fun t ht => hco.ret1 t (hr t ht), hco.nodup,
      by rw [hc]; exact hco.curNo, by rw [hc, hw]; exact hco.fresh, by rw [hcr]; exact hco.crash⟩,
      ⟨?_, bands_congr hw _ _ hco.bands, by rw [hc, hw]; exact hco.tcHi, by rw [hc, hw]; exact hco.noFin,
       by rw [hc]; exact hco.capN⟩⟩
    intro w hwo
    have := hco.oldok w hwo
    simpa [OldOK, insW, hw] using this
  · refine ⟨by rw [hl]; exact hlo.K, by rw [hl]; exact hlo.J, by rw [hs]; exact hlo.S1, by rw [hs]; exact hlo.S3,
      by rw [hs, hl]; exact hlo.S5, by rw [hs, hn]; exact hlo.S6, by rw [hn]; exact hlo.idlt,
      by rw [hl, hn]; exact hlo.Llt, by rw [hw, hs, hl]; exact hlo.pend⟩

theorem goodC_retryOut {M : Nat} {s : Sys} {olds : List Nat} {v : View} (h : GoodC M s olds v) (t : Tok)
    (r : List Tok) (hr : s.ret = t :: r) : GoodC M { s with ret := r, dq := s.dq ++ [t] } olds v :=
  goodC_queue_move h rfl rfl rfl rfl rfl rfl rfl (by simp [hr]) (fun x hx => by rw [hr]; exact List.mem_cons_of_mem _ hx)

theorem goodC_dispatch {M : Nat} {s : Sys} {olds : List Nat} {v : View} (h : GoodC M s olds v) (t : Tok)
    (r : List Tok) (hr : s.dq = t :: r) : GoodC M { s with dq := r, pq := s.pq ++ [t] } olds v :=
  goodC_queue_move h rfl rfl rfl rfl rfl rfl rfl (by simp [hr]) (fun x hx => hx)

theorem goodC_moveLeader {M : Nat} {s : Sys} {olds : List Nat} {v : View} (h : GoodC M s olds v) (b : Nat) :
    GoodC M { s with ldr := b } olds v :=
  goodC_queue_move h rfl rfl rfl rfl rfl rfl rfl rfl (fun x hx => hx)

theorem curRep_tc_ge1 {M : Nat} {s : Sys} {gw tc : List Tok} {g : Bool} (h : CurRep M s gw tc g) :
    ∀ t ∈ tc, 1 ≤ t.retries := by
  cases h with
  | none => intro t ht; cases ht
  | normal => intro t ht; cases ht
  | closed => intro t ht; obtain ⟨y, _, rfl⟩ := mem_bumpF ht; simp [bump_retries]
  | failed => intro t ht; obtain ⟨y, _, rfl⟩ := mem_bumpF ht; simp [bump_retries]

theorem lanes_ge1 (M : Nat) (s : Sys) (olds : List Nat) : ∀ t ∈ lanes M s olds, 1 ≤ t.retries := by
  intro t ht
  simp only [lanes, List.mem_flatMap] at ht
  obtain ⟨w, _, hw⟩ := ht
  obtain ⟨y, _, rfl⟩ := mem_bumpF hw
  simp [bump_retries]

theorem goodC_submit {M : Nat} {s : Sys} {olds : List Nat} {v : View} (h : GoodC M s olds v) :
    ∃ v', GoodC M (submitS s) olds v' := by
  obtain ⟨⟨gw, tc, g, hcur, hv⟩, hvi, hco, hlo⟩ := h
  have hav : v.av = (s.pq ++ s.dq) ++ (s.ret ++ (lanes M s olds ++ tc)) := by rw [hv]; simp [List.append_assoc]
  have hidlt : ∀ x, (x ∈ v.gw ∨ x ∈ data v.av ∨ ∃ k, x ∈ v.buf k) → x.id < (s.next : Int) :=
    fun x hx => hlo.idlt x.id ⟨x, hx, rfl⟩
  have hl2 : ∀ x ∈ data (s.ret ++ (lanes M s olds ++ tc)), 1 ≤ x.retries := by
    intro x hx
    have := (mem_data.1 hx).1
    simp only [List.mem_append] at this
    rcases this with h1 | h1 | h1
    · exact hco.ret1 x h1
    · exact lanes_ge1 M s olds x h1
    · exact curRep_tc_ge1 hcur x h1
  have hv' := hvi.fresh (s.pq ++ s.dq) _ (s.next : Int) hav hidlt hl2
  have hlive : ∀ a, LiveId { v with av := (s.pq ++ s.dq) ++ freshTok (s.next : Int) ::
      (s.ret ++ (lanes M s olds ++ tc)) } a → LiveId v a ∨ a = (s.next : Int) := fun a ha => live_fresh _ _ _ hav ha
  refine ⟨_, ⟨gw, tc, g, curRep_congr hcur rfl rfl, ?_⟩, hv', ?_, ?_⟩
  · rw [hv, lanes_congr (s' := submitS s) (s := s) rfl olds]; simp [submitS, freshTok, List.append_assoc]
  · refine ⟨⟨hco.pinv, ?_, hco.p0w, ?_, hco.finq, hco.ret1, hco.nodup, hco.curNo, hco.fresh, hco.crash⟩,
      ⟨?_, bands_congr (s := s) (s' := submitS s) rfl _ _ hco.bands, hco.tcHi, hco.noFin, ?_⟩⟩
    · intro x hx
      simp only [submitS, List.mem_append, List.mem_singleton] at hx
      rcases hx with ((hx | hx | hx) | hx)
      · exact hco.p0q x (by simp [hx])
      · exact hco.p0q x (by simp [hx])
      · rw [hx]; rfl
      · exact hco.p0q x (by simp [hx])
    · intro x hx
      simp only [submitS, List.mem_append, List.mem_singleton] at hx
      rcases hx with (hx | hx | hx) | hx
      · exact hco.lvl x (by simp [hx])
      · exact hco.lvl x (by simp [hx])
      · rw [hx]; exact Nat.zero_le _
      · exact hco.lvl x (by simp [hx])
    · intro w hwo
      have := hco.oldok w hwo
      simpa [OldOK, insW, submitS] using this
    · intro hcur' x hx
      change x ∈ data ((s.pq ++ s.dq) ++ freshTok (s.next : Int) :: (s.ret ++ (lanes M s olds ++ tc))) at hx
      rw [data_append, data_cons_data _ (freshTok_data _)] at hx
      simp only [List.mem_append, List.mem_cons] at hx
      rcases hx with hx | rfl | hx
      · exact hco.capN hcur' x (by rw [hav, data_append]; exact List.mem_append_left _ hx)
      · exact Nat.zero_le _
      · exact hco.capN hcur' x (by rw [hav, data_append]; exact List.mem_append_right _ hx)
  · have hnext : ((submitS s).next : Int) = (s.next : Int) + 1 := by simp [submitS]
    refine ⟨?_, hlo.J, ?_, hlo.S3, hlo.S5, ?_, ?_, ?_, hlo.pend⟩
    · intro b hb a ha hab
      rcases hlive a ha with ha | ha
      · exact hlo.K b hb a ha hab
      · have := hlo.Llt b hb; omega
    · intro p hp a ha
      rcases hlive a ha with ha | ha
      · exact hlo.S1 p hp a ha
      · rw [ha]; exact hlo.S6 p hp
    · intro p hp; have := hlo.S6 p hp; rw [hnext]; omega
    · intro a ha
      rw [hnext]
      rcases hlive a ha with ha | ha
      · have := hlo.idlt a ha; omega
      · omega
    · intro b hb; have := hlo.Llt b hb; rw [hnext]; omega

end Lemmas.C02sys
