import SaramaVerif.Model.Txn
/-
  C11: a faithful aborted-transaction index exists for every log and every fetch (`brokerIndex`), so the
  hypothesis of `read_committed_exact` is satisfiable for all inputs.
-/
namespace Lemmas.C11
open Model.ConsumerParse Model.Txn

theorem mem_batches {b : Batch} : ∀ {L : List LUnit}, b ∈ batches L ↔ LUnit.bat b ∈ L
  | [] => by simp [batches]
  | .blk x :: us => by
      have ih := mem_batches (b := b) (L := us)
      simp only [batches, List.filterMap_cons, List.mem_cons, reduceCtorEq, false_or] at ih ⊢
      exact ih
  | .bat x :: us => by
      have ih := mem_batches (b := b) (L := us)
      simp only [batches, List.filterMap_cons, List.mem_cons, LUnit.bat.injEq] at ih ⊢
      rw [ih]

theorem abortedTxn_iff (L : List LUnit) (p f m : Int) :
    AbortedTxn L p f m ↔ ∃ d ∈ batches L, ∃ mk ∈ batches L, abortedPair L p d mk ∧ d.base = f ∧ batchLast mk = m := by
  constructor
  · rintro ⟨d, mk, hd, hmk, hdd, hdf, hmab, hmm, hlt, hclean, hfirst⟩
    refine ⟨d, mem_batches.2 hd, mk, mem_batches.2 hmk, ⟨hdd, hmab, by omega, ?_, ?_⟩, hdf, hmm⟩
    · intro c hc hcm; rw [hmm]; exact hclean c (mem_batches.1 hc) hcm
    · intro d' hd' hdd' hl
      obtain ⟨c, hc, h⟩ := hfirst d' (mem_batches.1 hd') hdd' hl
      exact ⟨c, mem_batches.2 hc, h⟩
  · rintro ⟨d, hd, mk, hmk, ⟨hdd, hmab, hlt, hclean, hfirst⟩, hdf, hmm⟩
    refine ⟨d, mk, mem_batches.1 hd, mem_batches.1 hmk, hdd, hdf, hmab, hmm, by omega, ?_, ?_⟩
    · intro c hc hcm; rw [← hmm]; exact hclean c (mem_batches.2 hc) hcm
    · intro d' hd' hdd' hl
      obtain ⟨c, hc, h⟩ := hfirst d' (mem_batches.2 hd') hdd' hl
      exact ⟨c, mem_batches.1 hc, h⟩

/-- **a faithful index exists** for every log, fetch offset and range end -/
theorem brokerIndex_faithful (L : List LUnit) (o hiEnd : Int) : FaithfulIndex L o hiEnd (brokerIndex L o hiEnd) := by
  constructor
  · intro p f m hab hom hfe
    obtain ⟨d, hd, mk, hmk, hpair, hdf, hmm⟩ := (abortedTxn_iff L p f m).1 hab
    have hp : d.pid = p := hpair.1.2.2
    unfold brokerIndex
    refine List.mem_flatMap.2 ⟨d, hd, List.mem_filterMap.2 ⟨mk, hmk, ?_⟩⟩
    have : abortedPair L d.pid d mk ∧ o ≤ batchLast mk ∧ d.base ≤ hiEnd := ⟨by rw [hp]; exact hpair, by omega, by omega⟩
    rw [if_pos this, hp, hdf]
  · intro p f hin hfe
    unfold brokerIndex at hin
    obtain ⟨d, hd, hin⟩ := List.mem_flatMap.1 hin
    obtain ⟨mk, hmk, hsome⟩ := List.mem_filterMap.1 hin
    split at hsome
    · rename_i hc
      simp only [Option.some.injEq, Prod.mk.injEq] at hsome
      obtain ⟨hp, hf⟩ := hsome
      refine ⟨batchLast mk, (abortedTxn_iff L p f _).2 ⟨d, hd, mk, hmk, by rw [← hp]; exact hc.1, hf, rfl⟩, hc.2.1⟩
    · cases hsome

end Lemmas.C11
