import SaramaVerif.Model.CodecRecords
import SaramaVerif.Lemmas.C09Fmt
/-
  Helper lemmas for C09 about the hand models of records, record batches and legacy message sets.
-/
namespace Lemmas.C09
open Model.Codec

/-! ### Record -/

theorem valOptBytes_opt (o : Option Bytes) : valOptBytes (optBytesVal o) = some o := by cases o <;> rfl

theorem valHeaders_map (hs : List (Option Bytes × Option Bytes)) : valHeaders (hs.map headerVal) = some hs := by
  induction hs with
  | nil => rfl
  | cons h hs ih =>
    simp only [List.map_cons, valHeaders, headerVal, valHeader, valOptBytes_opt, ih]

theorem ofVal_toVal (r : Record) : Record.ofVal r.toVal = some r := by
  simp only [Record.toVal, Record.ofVal, valOptBytes_opt, valHeaders_map]

theorem record_dec_enc (r : Record) (rest : Bytes) (h : r.WT = true) :
    decRecord (encRecord r ++ rest) = some (r, rest) := by
  unfold decRecord encRecord
  rw [dec_enc recordFmt 0 r.toVal rest h]
  simp only [ofVal_toVal]

theorem records_dec_enc (rs : List Record) (rest : Bytes) (h : ∀ r ∈ rs, r.WT = true) :
    decRecords rs.length (encRecords rs ++ rest) = some (rs, rest) := by
  induction rs with
  | nil => simp [decRecords, encRecords]
  | cons r rs ih =>
    have e : encRecords (r :: rs) = encRecord r ++ encRecords rs := by simp [encRecords]
    rw [e, List.append_assoc, List.length_cons, decRecords, record_dec_enc r _ (h r List.mem_cons_self)]
    simp only []
    have ih' := ih (fun x hx => h x (List.mem_cons_of_mem _ hx))
    rw [ih']

/-! ### fixed-width field groups -/

def FieldsOK : List Nat → List Int → Prop
  | w :: ws, x :: xs => 0 < w ∧ InInt w x ∧ FieldsOK ws xs
  | [], [] => True
  | _, _ => False

theorem getFields_putFields (ws : List Nat) : ∀ (xs : List Int) (rest : Bytes), FieldsOK ws xs →
    getFields ws (putFields ws xs ++ rest) = some (xs, rest) := by
  induction ws with
  | nil => intro xs rest h; cases xs <;> simp [FieldsOK, getFields, putFields] at *
  | cons w ws ih =>
    intro xs rest h
    cases xs with
    | nil => simp [FieldsOK] at h
    | cons x xs =>
      simp only [FieldsOK] at h
      simp only [putFields, getFields, List.append_assoc]
      rw [getInt_putInt w x _ h.1 h.2.1]
      simp only []
      rw [ih xs rest h.2.2]

theorem putFields_length (ws : List Nat) : ∀ (xs : List Int), ws.length = xs.length →
    (putFields ws xs).length = ws.sum := by
  induction ws with
  | nil => intro xs h; cases xs <;> simp [putFields] at *
  | cons w ws ih =>
    intro xs h
    cases xs with
    | nil => simp at h
    | cons x xs =>
      simp only [putFields, List.length_append, putInt_length, List.sum_cons]
      rw [ih xs (by simpa using h)]

/-! ### RecordBatch -/

theorem batch_attrs (b : Batch) (h0 : 0 ≤ b.codec) (h8 : b.codec < 8) :
    (toU 1 b.attributes : Int) % 8 = b.codec ∧ bit (toU 2 b.attributes) 32 = b.control ∧
    bit (toU 2 b.attributes) 8 = b.logAppendTime ∧ bit (toU 2 b.attributes) 16 = b.isTransactional ∧
    InInt 2 b.attributes := by
  unfold Batch.attributes toU bit InInt
  simp only [Nat.reducePow, Nat.reduceDiv]
  cases b.control <;> cases b.logAppendTime <;> cases b.isTransactional <;>
    simp only [Bool.false_eq_true, ↓reduceIte, decide_eq_true_eq, decide_eq_false_iff_not] <;> omega

theorem normTs_id (t : Int) (h : -1 ≤ t) : normTs t = t := by unfold normTs; split <;> omega

/-- the encoded batch, field group by field group -/
theorem encBatch_form (comp : Int → Bytes → Bytes) (b : Batch) (rest : Bytes) :
    encBatch comp b ++ rest =
    putFields [8, 4, 4, 1] [b.firstOffset, ((b.lenBody comp).length : Int), b.partitionLeaderEpoch, b.magic] ++
    (be 4 (crc32 .castagnoli (b.crcBody comp)) ++
     (putFields [2, 4, 8, 8, 8, 2, 4] [b.attributes, b.lastOffsetDelta, b.firstTimestamp, b.maxTimestamp,
        b.producerID, b.producerEpoch, b.firstSequence] ++
      (putArrayLength b.records.length ++ (comp b.codec (encRecords b.records) ++ rest)))) := by
  simp only [encBatch, putLen32, Batch.lenBody, putCrc, Batch.crcBody, putFields, List.append_assoc, List.append_nil]

theorem crcBody_form (comp : Int → Bytes → Bytes) (b : Batch) :
    b.crcBody comp =
     putFields [2, 4, 8, 8, 8, 2, 4] [b.attributes, b.lastOffsetDelta, b.firstTimestamp, b.maxTimestamp,
        b.producerID, b.producerEpoch, b.firstSequence] ++
      (putArrayLength b.records.length ++ comp b.codec (encRecords b.records)) := by
  simp only [Batch.crcBody, putFields, List.append_assoc, List.append_nil]

/-- `batch_length_overhead`: the int32 length prefix of a batch is 49 + the size of the (compressed) records -/
theorem lenBody_length (comp : Int → Bytes → Bytes) (b : Batch) :
    (b.lenBody comp).length = recordBatchOverhead + (comp b.codec (encRecords b.records)).length := by
  simp only [Batch.lenBody, putCrc, Batch.crcBody, List.length_append, putInt_length, be_length, putArrayLength,
    recordBatchOverhead]
  omega

theorem decBatchTail_ok (decomp : Int → Bytes → Option Bytes) (hdr : Batch) (pre payload raw rest : Bytes)
    (rs : List Record) (n : Int) (hd : decomp hdr.codec payload = some raw) (hn : n ≤ raw.length)
    (hr : decRecords n.toNat raw = some (rs, [])) :
    decBatchTail decomp hdr ((payload.length : Int) + 49) (crc32 .castagnoli (pre ++ payload))
      ((pre ++ payload) ++ rest) (payload ++ rest) n = some ({ hdr with records := rs }, rest) := by
  unfold decBatchTail
  have e1 : ((payload.length : Int) + 49 - 49) = (payload.length : Int) := by omega
  rw [e1]
  have e2 : ¬ ((payload.length : Int) < 0) := by omega
  have e3 : ¬ (payload.length > (payload ++ rest).length) := by
    simp only [List.length_append]; omega
  have e4 : ¬ (n > (raw.length : Int)) := by omega
  simp only [e2, e3, e4, ↓reduceIte, Int.toNat_natCast, List.drop_left, List.take_left, length_append_sub,
    ne_eq, not_true_eq_false, hd, hr, List.isEmpty_nil]

theorem records_length_le (rs : List Record) : rs.length ≤ (encRecords rs).length := by
  induction rs with
  | nil => simp [encRecords]
  | cons r rs ih =>
    have e : encRecords (r :: rs) = encRecord r ++ encRecords rs := by simp [encRecords]
    have h1 : 1 ≤ (encRecord r).length := by
      have := putUVarint_length_pos (zigzag ((size recordBodyFmt 0 r.toVal : Nat) : Int))
      simp only [encRecord, recordFmt, enc, putVarLen, List.length_append, putVarint]
      omega
    rw [e, List.length_append, List.length_cons]; omega

theorem batch_dec_enc (comp : Int → Bytes → Bytes) (decomp : Int → Bytes → Option Bytes) (b : Batch) (rest : Bytes)
    (hlaw : decomp b.codec (comp b.codec (encRecords b.records)) = some (encRecords b.records))
    (hwt : b.WTP comp) :
    decBatch decomp (encBatch comp b ++ rest) = some (b, rest) := by
  obtain ⟨hfo, hple, hmagic, hcodec, hlod, hfts, hmts, hpid, hpe, hfs, hrecs, hpart, hn, hsize⟩ := hwt
  have hat := batch_attrs b hcodec.1 hcodec.2
  have hlen := lenBody_length comp b
  simp only [recordBatchOverhead] at hlen
  rw [encBatch_form]
  unfold decBatch
  rw [getFields_putFields [8, 4, 4, 1] _ _ (by
    simp only [FieldsOK]
    exact ⟨by decide, hfo, by decide, inInt4_len _ (by simp only [Nat.reducePow] at *; omega), by decide, hple,
      by decide, hmagic, trivial⟩)]
  simp only []
  rw [getUInt_be 4 _ _ (crc32_lt _ _)]
  simp only []
  rw [getFields_putFields [2, 4, 8, 8, 8, 2, 4] _ _ (by
    simp only [FieldsOK]
    exact ⟨by decide, hat.2.2.2.2, by decide, hlod, by decide, hfts.1, by decide, hmts.1, by decide, hpid,
      by decide, hpe, by decide, hfs, trivial⟩)]
  simp only []
  unfold putArrayLength
  rw [getInt_putInt 4 _ _ (by decide) (inInt4_len _ hn)]
  simp only [show ¬ ((b.records.length : Int) < -1) by omega, ↓reduceIte]
  have hbl : ((b.lenBody comp).length : Int) = ((comp b.codec (encRecords b.records)).length : Int) + 49 := by omega
  have hcov : (putFields [2, 4, 8, 8, 8, 2, 4] [b.attributes, b.lastOffsetDelta, b.firstTimestamp, b.maxTimestamp,
        b.producerID, b.producerEpoch, b.firstSequence] ++
      (putArrayLength b.records.length ++ (comp b.codec (encRecords b.records) ++ rest))) =
      ((putFields [2, 4, 8, 8, 8, 2, 4] [b.attributes, b.lastOffsetDelta, b.firstTimestamp, b.maxTimestamp,
        b.producerID, b.producerEpoch, b.firstSequence] ++ putArrayLength b.records.length) ++
        comp b.codec (encRecords b.records)) ++ rest := by
    simp only [List.append_assoc]
  have hcb : b.crcBody comp = (putFields [2, 4, 8, 8, 8, 2, 4] [b.attributes, b.lastOffsetDelta, b.firstTimestamp,
        b.maxTimestamp, b.producerID, b.producerEpoch, b.firstSequence] ++ putArrayLength b.records.length) ++
        comp b.codec (encRecords b.records) := by
    rw [crcBody_form]; simp only [List.append_assoc]
  have hc : (batchHdr b.firstOffset b.partitionLeaderEpoch b.magic b.attributes b.lastOffsetDelta b.firstTimestamp
      b.maxTimestamp b.producerID b.producerEpoch b.firstSequence).codec = b.codec := hat.1
  have hr := records_dec_enc b.records [] hrecs
  rw [List.append_nil] at hr
  have hcov' : (putFields [2, 4, 8, 8, 8, 2, 4] [b.attributes, b.lastOffsetDelta, b.firstTimestamp, b.maxTimestamp,
        b.producerID, b.producerEpoch, b.firstSequence] ++
      (putInt 4 b.records.length ++ (comp b.codec (encRecords b.records) ++ rest))) =
      ((putFields [2, 4, 8, 8, 8, 2, 4] [b.attributes, b.lastOffsetDelta, b.firstTimestamp, b.maxTimestamp,
        b.producerID, b.producerEpoch, b.firstSequence] ++ putArrayLength b.records.length) ++
        comp b.codec (encRecords b.records)) ++ rest := by
    simp only [putArrayLength, List.append_assoc]
  rw [hbl, hcov', hcb]
  rw [decBatchTail_ok decomp _ _ _ (encRecords b.records) rest b.records _ (by rw [hc]; exact hlaw)
    (by have := records_length_le b.records; omega) (by rw [Int.toNat_natCast]; exact hr)]
  congr 2
  have n1 := normTs_id _ hfts.2
  have n2 := normTs_id _ hmts.2
  obtain ⟨a1, a2, a3, a4, _⟩ := hat
  cases b
  simp only [batchHdr, Batch.mk.injEq, true_and]
  exact ⟨a1, a2, a3, a4, n1, n2, hpart.symm⟩

theorem decompress_compress (clib : Int → Bytes → Bytes) (dlib : Int → Bytes → Option Bytes) (c : Int) (x : Bytes)
    (hc : 0 ≤ c ∧ c ≤ 4) (hlib : c ≠ 0 → dlib c (clib c x) = some x) :
    decompress dlib c (compress clib c x) = some x := by
  unfold decompress compress
  by_cases h0 : c = 0
  · simp only [h0, ↓reduceIte]
  · simp only [h0, ↓reduceIte, show (1 ≤ c ∧ c ≤ 4) by omega, and_self, hlib h0]

/-! ### legacy messages -/

theorem msg_attrs (m : Msg) (h0 : 0 ≤ m.codec) (h8 : m.codec < 8) :
    (toU 1 m.attributes : Int) % 8 = m.codec ∧ bit (toU 1 m.attributes) 8 = m.logAppendTime ∧ InInt 1 m.attributes := by
  unfold Msg.attributes toU bit InInt
  simp only [Nat.reducePow, Nat.reduceDiv]
  cases m.logAppendTime <;>
    simp only [Bool.false_eq_true, ↓reduceIte, decide_eq_true_eq, decide_eq_false_iff_not] <;> omega

theorem message_dec_enc (comp : Int → Bytes → Bytes) (decomp : Int → Bytes → Option Bytes) (innerOK : Bytes → Bool)
    (m : Msg) (rest : Bytes) (hwt : m.WTP comp)
    (hnone : ∀ v, m.value = some v → m.codec = 0 → comp m.codec v = v)
    (hlaw : ∀ v, m.value = some v → m.codec ≠ 0 → decomp m.codec (comp m.codec v) = some v ∧ innerOK v = true) :
    decMessage decomp innerOK (encMessage comp m ++ rest) = some (m, rest) := by
  obtain ⟨hmagic, hcodec, hts, hts0, hkey, hval⟩ := hwt
  obtain ⟨a1, a2, a3⟩ := msg_attrs m hcodec.1 hcodec.2
  have hm1 : InInt 1 m.magic := by unfold InInt; simp only [Nat.reducePow, Nat.reduceDiv]; omega
  have hform : encMessage comp m ++ rest = be 4 (crc32 .ieee (m.crcBody comp)) ++ (m.crcBody comp ++ rest) := by
    simp only [encMessage, putCrc, List.append_assoc]
  have hbody : m.crcBody comp ++ rest = putInt 1 m.magic ++ (putInt 1 m.attributes ++
      ((if m.magic ≥ 1 then putInt 8 m.timestamp else []) ++ (putBytes m.key ++
        (putBytes (m.value.map (comp m.codec)) ++ rest)))) := by
    simp only [Msg.crcBody, List.append_assoc]
  have hv : msgValue decomp innerOK m.codec (m.value.map (comp m.codec)) = some m.value := by
    cases hvv : m.value with
    | none => rfl
    | some v =>
      simp only [Option.map_some, msgValue]
      by_cases hc0 : m.codec = 0
      · simp only [hc0, ↓reduceIte]; rw [← hc0, hnone v hvv hc0]
      · have := hlaw v hvv hc0
        simp only [hc0, ↓reduceIte, this.1, this.2]
  have hwire : ∀ b, m.value.map (comp m.codec) = some b → b.length < 2 ^ 31 := by
    intro b hb
    cases hvv : m.value with
    | none => rw [hvv] at hb; cases hb
    | some v => rw [hvv] at hb; simp only [Option.map_some, Option.some.injEq] at hb; rw [← hb]; exact hval v hvv
  unfold decMessage
  rw [hform, getUInt_be 4 _ _ (crc32_lt _ _)]
  simp only []
  rw [hbody, getInt_putInt 1 _ _ (by decide) hm1]
  simp only [show ¬ m.magic > 1 by omega, ↓reduceIte]
  rw [getInt_putInt 1 _ _ (by decide) a3]
  simp only []
  have hcrc : ∀ (x : Bytes), x = m.crcBody comp ++ rest →
      crc32 .ieee (x.take (x.length - rest.length)) = crc32 .ieee (m.crcBody comp) := by
    intro x hx; rw [hx, length_append_sub, List.take_left]
  rcases hmagic with h0 | h1
  · simp only [h0, show ¬ ((0 : Int) = 1) by decide, show ¬ ((0 : Int) ≥ 1) by decide, ↓reduceIte, List.nil_append]
    rw [getBytes_putBytes m.key _ hkey]
    simp only []
    rw [getBytes_putBytes _ rest hwire]
    simp only [a1, hv]
    have hb2 := hbody
    simp only [h0, show ¬ ((0 : Int) ≥ 1) by decide, ↓reduceIte, List.nil_append] at hb2
    rw [← hb2, hcrc _ rfl]
    simp only [ne_eq, not_true_eq_false, ↓reduceIte, a2]
    congr 2
    have t0 := hts0 h0
    cases m
    simp only [Msg.mk.injEq, true_and] at *
    exact ⟨h0.symm, by rw [t0]; decide⟩
  · simp only [h1, show ((1 : Int) ≥ 1) by decide, ↓reduceIte]
    rw [getInt_putInt 8 _ _ (by decide) hts.1]
    simp only []
    rw [getBytes_putBytes m.key _ hkey]
    simp only []
    rw [getBytes_putBytes _ rest hwire]
    simp only [a1, hv]
    have hb2 := hbody
    simp only [h1, show ((1 : Int) ≥ 1) by decide, ↓reduceIte] at hb2
    rw [← hb2, hcrc _ rfl]
    simp only [ne_eq, not_true_eq_false, ↓reduceIte, a2]
    congr 2
    have n1 := normTs_id _ hts.2
    cases m
    simp only [Msg.mk.injEq, true_and] at *
    exact ⟨h1.symm, n1, trivial⟩

/-- per-block hypothesis of the message-set round trip -/
def BlockOK (comp : Int → Bytes → Bytes) (decomp : Int → Bytes → Option Bytes) (innerOK : Bytes → Bool) (b : Block) : Prop :=
  InInt 8 b.1 ∧ b.2.WTP comp ∧ (encMessage comp b.2).length < 2 ^ 31 ∧
  (∀ v, b.2.value = some v → b.2.codec = 0 → comp b.2.codec v = v) ∧
  (∀ v, b.2.value = some v → b.2.codec ≠ 0 → decomp b.2.codec (comp b.2.codec v) = some v ∧ innerOK v = true)

theorem block_dec_enc (comp : Int → Bytes → Bytes) (decomp : Int → Bytes → Option Bytes) (innerOK : Bytes → Bool)
    (b : Block) (rest : Bytes) (h : BlockOK comp decomp innerOK b) :
    decBlock decomp innerOK (encBlock comp b ++ rest) = some (b, rest) := by
  obtain ⟨hoff, hwt, hlen, hnone, hlaw⟩ := h
  unfold decBlock encBlock putLen32
  simp only [List.append_assoc]
  rw [getInt_putInt 8 _ _ (by decide) hoff]
  simp only []
  rw [getInt_putInt 4 _ _ (by decide) (inInt4_len _ hlen)]
  simp only [List.length_append, show ¬ (((encMessage comp b.2).length : Int) >
    (((encMessage comp b.2).length + rest.length : Nat) : Int)) by omega, ↓reduceIte]
  rw [message_dec_enc comp decomp innerOK b.2 rest hwt hnone hlaw]
  simp only [show (encMessage comp b.2).length + rest.length - rest.length = (encMessage comp b.2).length by omega,
    ↓reduceIte]

/-- byte 16 of an encoded message block is the magic byte (offset 8 + length 4 + crc 4) -/
theorem block_magic_at_16 (comp : Int → Bytes → Bytes) (b : Block) (rest : Bytes) :
    ((encBlock comp b ++ rest).drop 16).take 1 = putInt 1 b.2.magic := by
  have e : encBlock comp b ++ rest = (putInt 8 b.1 ++ putInt 4 ((encMessage comp b.2).length : Int) ++
      be 4 (crc32 .ieee (b.2.crcBody comp))) ++ (putInt 1 b.2.magic ++ (putInt 1 b.2.attributes ++
        ((if b.2.magic ≥ 1 then putInt 8 b.2.timestamp else []) ++ (putBytes b.2.key ++
        (putBytes (b.2.value.map (comp b.2.codec)) ++ rest))))) := by
    simp only [encBlock, putLen32, encMessage, putCrc, Msg.crcBody, List.append_assoc]
  rw [e, List.drop_left' (by simp only [List.length_append, putInt_length, be_length])]
  exact List.take_left' (putInt_length 1 _)

/-- byte 16 of an encoded record batch is the magic byte (offset 8 + length 4 + leader epoch 4) -/
theorem batch_magic_at_16 (comp : Int → Bytes → Bytes) (b : Batch) (rest : Bytes) :
    ((encBatch comp b ++ rest).drop 16).take 1 = putInt 1 b.magic := by
  have e : encBatch comp b ++ rest = (putInt 8 b.firstOffset ++ putInt 4 ((b.lenBody comp).length : Int) ++
      putInt 4 b.partitionLeaderEpoch) ++ (putInt 1 b.magic ++ (putCrc .castagnoli (b.crcBody comp) ++ rest)) := by
    simp only [encBatch, putLen32, Batch.lenBody, List.append_assoc]
  rw [e, List.drop_left' (by simp only [List.length_append, putInt_length])]
  exact List.take_left' (putInt_length 1 _)

theorem magic_byte_read (x : Int) (h : InInt 1 x) : toS 1 (fromBE (putInt 1 x)) = x := by
  unfold putInt
  rw [fromBE_be, Nat.mod_eq_of_lt (toU_lt 1 x), toS_toU 1 x (by decide) h]

theorem encBlock_length_ge (comp : Int → Bytes → Bytes) (b : Block) : 17 ≤ (encBlock comp b).length := by
  simp only [encBlock, putLen32, encMessage, putCrc, Msg.crcBody, List.length_append, putInt_length, be_length]
  omega

theorem set_dec_enc (comp : Int → Bytes → Bytes) (decomp : Int → Bytes → Option Bytes) (innerOK : Bytes → Bool)
    (bs : List Block) : ∀ fuel, bs.length ≤ fuel → (∀ b ∈ bs, BlockOK comp decomp innerOK b) →
    decSet decomp innerOK fuel (encSet comp bs) = some ⟨bs, false, false, []⟩ := by
  induction bs with
  | nil =>
    intro fuel _ _
    cases fuel <;> simp [decSet, encSet]
  | cons b bs ih =>
    intro fuel hf hall
    cases fuel with
    | zero => simp at hf
    | succ fuel =>
      have e : encSet comp (b :: bs) = encBlock comp b ++ encSet comp bs := by simp [encSet]
      have hb := hall b List.mem_cons_self
      have hlen := encBlock_length_ge comp b
      have hne : (encBlock comp b ++ encSet comp bs).isEmpty = false := by
        cases hh : encBlock comp b with
        | nil => rw [hh] at hlen; simp at hlen
        | cons x xs => rfl
      have hmag : InInt 1 b.2.magic := by
        have := hb.2.1.1
        unfold InInt; simp only [Nat.reducePow, Nat.reduceDiv]; omega
      rw [e, decSet]
      simp only [hne, Bool.false_eq_true, ↓reduceIte, List.length_append,
        show ¬ ((encBlock comp b).length + (encSet comp bs).length < 17) by omega,
        block_magic_at_16, magic_byte_read _ hmag, show ¬ (b.2.magic > 1) by have := hb.2.1.1; omega]
      rw [block_dec_enc comp decomp innerOK b _ hb]
      simp only []
      rw [ih fuel (by simpa using hf) (fun x hx => hall x (List.mem_cons_of_mem _ hx))]

/-- a wrapper's value that is the encoding of a set whose blocks satisfy the block hypothesis at nesting depth
    `d` passes `decodeSet` at depth `d+1` -/
theorem innerOKd_encSet (comp : Int → Bytes → Bytes) (decomp : Int → Bytes → Option Bytes) (d : Nat)
    (bs : List Block) (h : ∀ b ∈ bs, BlockOK comp decomp (innerOKd decomp d) b) :
    innerOKd decomp (d + 1) (encSet comp bs) = true := by
  simp only [innerOKd]
  have hlen : bs.length ≤ (encSet comp bs).length := by
    clear h
    induction bs with
    | nil => simp
    | cons b bs ih =>
      have e : encSet comp (b :: bs) = encBlock comp b ++ encSet comp bs := by simp [encSet]
      have := encBlock_length_ge comp b
      rw [e, List.length_append, List.length_cons]; omega
  rw [set_dec_enc comp decomp _ bs _ hlen h]
  rfl

/-- `Records.setTypeFromMagic` on what the two encoders write -/
theorem recordsKind_batch (comp : Int → Bytes → Bytes) (b : Batch) (rest : Bytes) (h : InInt 1 b.magic) :
    recordsKind (encBatch comp b ++ rest) = some (if b.magic < 2 then .legacy else .default) := by
  unfold recordsKind
  have hl : ¬ (encBatch comp b ++ rest).length < 17 := by
    simp only [encBatch, putLen32, Batch.lenBody, putCrc, List.length_append, putInt_length, be_length]; omega
  simp only [hl, ↓reduceIte, batch_magic_at_16, magic_byte_read _ h]
  split <;> rfl

theorem recordsKind_set (comp : Int → Bytes → Bytes) (b : Block) (bs : List Block) (h : InInt 1 b.2.magic) :
    recordsKind (encSet comp (b :: bs)) = some (if b.2.magic < 2 then .legacy else .default) := by
  unfold recordsKind
  have e : encSet comp (b :: bs) = encBlock comp b ++ encSet comp bs := by simp [encSet]
  have := encBlock_length_ge comp b
  have hl : ¬ (encBlock comp b ++ encSet comp bs).length < 17 := by simp only [List.length_append]; omega
  rw [e]
  simp only [hl, ↓reduceIte, block_magic_at_16, magic_byte_read _ h]
  split <;> rfl

end Lemmas.C09
