/-
  C02 composition, handover chain: the current worker, holding nothing of the partition, is closed by the
  connection error of a request that carries other partitions' messages (`Choice.closeW`): the same change of
  phase as a failed set of its own (`cur_fail_core`), with nothing to bounce.
-/
import SaramaVerif.Lemmas.C02chStepD3

set_option linter.unusedSimpArgs false

namespace Lemmas.C02sys
open Model Model.Pipeline

theorem canClose_facts {s : Sys} {w : Nat} (h : canClose s w = true) :
    s.cur = some w ∧ headSyn (s.wk w).inq = false ∧ (s.wk w).bp.closing = false ∧ (s.wk w).bp.cr 0 = false ∧
    (s.wk w).bp.sets = [] ∧ (s.wk w).bp.buffer = [] ∧ (s.wk w).bp.wait = none ∧ (s.wk w).pend = none := by
  simp only [canClose, Bool.and_eq_true, decide_eq_true_eq, Bool.not_eq_true', List.isEmpty_iff,
    Option.isNone_iff_eq_none] at h
  obtain ⟨⟨⟨⟨⟨⟨⟨h1, h2⟩, h3⟩, h4⟩, h5⟩, h6⟩, h7⟩, h8⟩ := h
  exact ⟨h1, h2, h3, h4, h5, h6, h7, h8⟩

theorem goodC_closeW {M : Nat} {s s' : Sys} {olds : List Nat} {v : View} {w : Nat} (h : GoodC M s olds v)
    (hs : sysStep M s (.closeW w) = some s') : ∃ v', GoodC M s' olds v' := by
  obtain ⟨hg, rfl⟩ := closeW_spec hs
  obtain ⟨hc, hsyn, hcl, hcr, hsets, hbuf, hwait, hpend⟩ := canClose_facts hg
  have hins : insW s w = [] := by simp [insW, insideB, Props.C02bp.inside, hsets, hbuf, hwait]
  have hn : BrokerProd.needsRetry (s.wk w).bp 0 = false := by rw [needsRetry_iff, hcl, hcr]; rfl
  have hi : insideB (closeBp (s.wk w).bp) = [] := by
    simp [closeBp, insideB, Props.C02bp.inside, hsets, hbuf, hwait]
  have hpinv : Props.C02bp.PInv (closeBp (s.wk w).bp) := by
    refine ⟨by simp [closeBp, hsets], ?_, ?_⟩
    · intro t ht; rw [show Props.C02bp.inside (closeBp (s.wk w).bp) = [] from hi] at ht; cases ht
    · intro p _; rw [show Props.C02bp.inside (closeBp (s.wk w).bp) = [] from hi]; rfl
  obtain ⟨v', r1, r2, r4⟩ := cur_fail_core h w hc hn (fun _ => hsyn) (closeBp (s.wk w).bp) hpinv hi
    (Or.inl rfl) s.succ s.errs
  have hl := logC_deliver_same (M := M) h.log r4 w (closeBp (s.wk w).bp) (insW s w) s.errs
  rw [hins] at r1 hl
  refine ⟨v', ?_, r2, ?_, ?_⟩
  · simpa [deliverSw, afterWw, bumpF_nil] using r1.1
  · simpa [deliverSw, afterWw, bumpF_nil] using r1.2
  · simpa [deliverSw, afterWw, bumpF_nil] using hl

end Lemmas.C02sys
