import SaramaVerif.Driver.Util
import SaramaVerif.Model.DecoderFmt
/-
  Line-protocol driver for C10: primitive-level operations of the decoder model.

    p <variant> <primitive> <hex> <off> [args…]     → ok <value> <off'> | err <kind> <off'> | panic | oversize | hang
    crc <ieee|castagnoli> <hex>                     → checksum (ties the CRC below to Go's hash/crc32)
    hdr <maxResponseSize> <version> <hex>           → versionedDecode(header): ok <length> <correlationID> <bodySize> | err <kind>
    fmt <variant> <format> <hex>                    → decode(buf, T): ok | err <kind> | panic | oversize | hang

  An outcome whose allocation exceeds 2^20 + 64·|buffer| bytes is printed as `oversize` (the harness uses the
  same rule on the measured allocation of the real decoder; a worker killed by the memory cap is `oversize` too).
-/
namespace Driver.C10
open Model.Decoder Driver

/-- bitwise CRC-32 (reflected), polynomial 0xEDB88320 (IEEE) or 0x82F63B78 (Castagnoli) -/
def crcByte (poly : UInt32) (crc : UInt32) (b : UInt8) : UInt32 :=
  (List.range 8).foldl (fun c _ => if c &&& 1 = 1 then (c >>> 1) ^^^ poly else c >>> 1) (crc ^^^ b.toUInt32)

def crc32 (castagnoli : Bool) (bs : Bytes) : Nat :=
  ((bs.foldl (crcByte (if castagnoli then 0x82F63B78 else 0xEDB88320)) 0xFFFFFFFF) ^^^ 0xFFFFFFFF).toNat

def showErr : Err → String
  | .insufficient => "insufficient" | .invalidArrayLength => "invalidArrayLength"
  | .invalidByteSliceLength => "invalidByteSliceLength" | .invalidStringLength => "invalidStringLength"
  | .varintOverflow => "varintOverflow" | .uvarintOverflow => "uvarintOverflow" | .invalidBool => "invalidBool"
  | .taggedFields => "taggedFields" | .lengthField => "lengthField" | .crc => "crc"
  | .invalidLength => "invalidLength" | .headerLength => "headerLength"

def limit (raw : Bytes) : Nat := 1048576 + 64 * raw.length

def showRes (raw : Bytes) (sv : α → String) : Res α → String
  | .ok v off a => if a > limit raw then "oversize" else s!"ok {sv v} {off}"
  | .err e off a => if a > limit raw then "oversize" else s!"err {showErr e} {off}"
  | .panic a => if a > limit raw then "oversize" else "panic"
  | .hang => "hang"

/-- top-level entry points do not expose the offset -/
def showTop (raw : Bytes) (sv : α → String) : Res α → String
  | .ok v _ a => if a > limit raw then "oversize" else (if (sv v).isEmpty then "ok" else s!"ok {sv v}")
  | .err e _ a => if a > limit raw then "oversize" else s!"err {showErr e}"
  | .panic a => if a > limit raw then "oversize" else "panic"
  | .hang => "hang"

def showOptBytes : Option Bytes → String
  | none => "nil"
  | some b => showHex b

def showBytesList (l : List Bytes) : String :=
  if l.isEmpty then "-" else ",".intercalate (l.map showHex)

def variant (s : String) : Variant := if s = "checked" then .checked else .pinned

/-- push; skip k bytes; pop -/
def fieldOp (v : Variant) (push : Bytes → Nat → Res Frame) (raw : Bytes) (off : Nat) (k : Int) : Res Unit :=
  (push raw off).bind fun fr off1 =>
    (getRawBytes raw off1 k).bind fun _ off2 => pop v crc32 raw fr off2

def prim (v : Variant) (name : String) (raw : Bytes) (off : Nat) (args : List Int) : String :=
  let i := fun (r : Res Int) => showRes raw toString r
  match name, args with
  | "getInt8", [] => i (getInt8 raw off)
  | "getInt16", [] => i (getInt16 raw off)
  | "getInt32", [] => i (getInt32 raw off)
  | "getInt64", [] => i (getInt64 raw off)
  | "getVarint", [] => i (getVarint raw off)
  | "getUVarint", [] => showRes raw toString (getUVarint raw off)
  | "getArrayLength", [] => i (getArrayLength v raw off)
  | "getCompactArrayLength", [] => i (getCompactArrayLength v raw off)
  | "getBool", [] => showRes raw toString (getBool raw off)
  | "getEmptyTaggedFieldArray", [] => i (getEmptyTaggedFieldArray raw off)
  | "getBytes", [] => showRes raw showOptBytes (getBytes raw off)
  | "getVarintBytes", [] => showRes raw showOptBytes (getVarintBytes raw off)
  | "getCompactBytes", [] => showRes raw showHex (getCompactBytes raw off)
  | "getStringLength", [] => i (getStringLength raw off)
  | "getString", [] => showRes raw showHex (getString raw off)
  | "getNullableString", [] => showRes raw showOptBytes (getNullableString raw off)
  | "getCompactString", [] => showRes raw showHex (getCompactString v raw off)
  | "getCompactNullableString", [] => showRes raw showOptBytes (getCompactNullableString v raw off)
  | "getCompactInt32Array", [] => showRes raw showIntList (getCompactInt32Array v raw off)
  | "getInt32Array", [] => showRes raw showIntList (getInt32Array raw off)
  | "getInt64Array", [] => showRes raw showIntList (getInt64Array raw off)
  | "getStringArray", [] => showRes raw showBytesList (getStringArray v raw off)
  | "getRawBytes", [n] => showRes raw showHex (getRawBytes raw off n)
  | "getSubset", [n] => showRes raw showHex (getSubset raw off n)
  | "peek", [o, n] => showRes raw showHex (peek raw off o n)
  | "peekInt8", [o] => i (peekInt8 raw off o)
  | "lengthField", [k] => showRes raw (fun _ => "-") (fieldOp v pushLength raw off k)
  | "varintLengthField", [k] => showRes raw (fun _ => "-") (fieldOp v pushVarintLength raw off k)
  | "crcIEEE", [k] => showRes raw (fun _ => "-") (fieldOp v (pushCrc false) raw off k)
  | "crcCastagnoli", [k] => showRes raw (fun _ => "-") (fieldOp v (pushCrc true) raw off k)
  | "varintCount", [] => i (varintCount v raw off)
  | _, _ => "bad-op"

def namedFmt : String → Option Fmt
  | "Record" => some recordFmt
  | "ConsumerGroupMemberMetadata" => some memberMetadataFmt
  | "ConsumerGroupMemberAssignment" => some memberAssignmentFmt
  | "StickyAssignorUserDataV0" => some stickyV0Fmt
  | "StickyAssignorUserDataV1" => some stickyV1Fmt
  | "MetadataResponseV0" => some metadataV0Fmt
  | "MetadataResponseV0Guarded" => some metadataV0FmtGuarded
  | _ => none

def step (_ : Unit) (t : List String) : Unit × String :=
  match t with
  | "p" :: v :: name :: hex :: off :: args =>
      ((), prim (variant v) name (hexBytes hex) (nat! off) (args.map int!))
  | ["crc", poly, hex] =>
      if poly = "ieee" then ((), toString (crc32 false (hexBytes hex)))
      else if poly = "castagnoli" then ((), toString (crc32 true (hexBytes hex)))
      else ((), "bad-op")
  | ["hdr", maxResp, ver, hex] =>
      ((), showTop (hexBytes hex)
        (fun (p : Int × Int) => s!"{p.1} {p.2} {bodySize p.1 (int! ver)}")
        (topLevel (decodeHeader (int! maxResp) (int! ver) (hexBytes hex) 0) (hexBytes hex).length))
  | ["fmt", v, name, hex] =>
      match namedFmt name with
      | some f => ((), showTop (hexBytes hex) (fun _ => "")
                    (topLevel (run (variant v) crc32 f (hexBytes hex) 0) (hexBytes hex).length))
      | none => ((), "bad-op")
  | _ => ((), "bad-op")

end Driver.C10

def main : IO Unit := do
  Driver.loop (← IO.getStdin) (← IO.getStdout) Driver.C10.step ()
