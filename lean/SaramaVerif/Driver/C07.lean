import SaramaVerif.Driver.GroupTrace
def main : IO Unit := do
  Driver.loop (← IO.getStdin) (← IO.getStdout) Driver.GroupTrace.step {}
