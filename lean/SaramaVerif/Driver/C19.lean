import SaramaVerif.Driver.Util
import SaramaVerif.Model.Admin
/-
  Line-protocol driver for the admin model (C19). One line = one scripted admin operation; the answer is
  the canonical text the Go harness derives from the real ClusterAdmin's result and the mock brokers'
  request log. Formats: see harness/cmd/c19/main.go.
-/
namespace Driver.C19
open Model.Admin Driver

def tail1 (s : String) : String := String.ofList (s.toList.drop 1)
def head1 (s : String) : Char := s.toList.headD ' '

def splitList (sep : String) (s : String) : List String :=
  if s = "-" ∨ s = "" then [] else s.splitOn sep

def natList (s : String) : List Nat := (splitList "," s).map nat!

def showNats (l : List Nat) : String :=
  if l.isEmpty then "-" else ",".intercalate (l.map toString)

def kver (s : String) : List Nat := (s.splitOn ".").map nat!

def sortStrings (l : List String) : List String := l.mergeSort (fun a b => a < b || a == b)

def showCause : Cause → String
  | .code c => s!"c{c}"
  | .transport => "t"
  | .incomplete => "i"
  | .unsupported => "u"

def showErr : Err → String
  | .kerr c => s!"kerr {c}"
  | .incomplete => "incomplete"
  | .transport => "transport"
  | .unsupported => "unsupported"
  | .wrapped cs => "wrapped " ++ ",".intercalate (sortStrings (cs.map showCause))
  | .lookup c => s!"lookup {c}"

def showOutcome : Outcome → String
  | none => "ok"
  | some e => showErr e

/-- "p=code" / "p:code" pairs -/
def pairList (sep item : String) (s : String) : List (Nat × Int) :=
  (splitList sep s).map (fun t => match t.splitOn item with
    | [a, b] => (nat! a, int! b)
    | _ => (0, 0))

def showPairs (l : List (Nat × Int)) : String :=
  if l.isEmpty then "-" else ",".intercalate (sortStrings (l.map (fun p => s!"{p.1}={p.2}")))

/-- reply of a controller attempt: `T` | `R<top>:<p>=<code>,…` -/
def parseReply (s : String) : Reply :=
  if s = "T" then .transport
  else match (tail1 s).splitOn ":" with
    | [top, items] => .resp (int! top) (pairList "," "=" items)
    | _ => .transport

def parseOp (s : String) : Option COp :=
  if s = "ct" then some .createTopic
  else if s = "dt" then some .deleteTopic
  else if s = "cp" then some .createPartitions
  else if s.startsWith "ar" then some (.reassign (nat! (tail1 (tail1 s))))
  else none

def parseBudget (c : Char) : Option Budget :=
  if c = 'a' then some .asIs else if c = 'o' then some .atLeastOne else if c = 'p' then some .plusOne else none

def parseVariant (s : String) : Option Variant :=
  match s.toList with
  | [b, r, t, m] => (parseBudget b).map (fun bb => ⟨bb, r = '1', t = '1', m = '1'⟩)
  | _ => none

/-- `p=b` | `p=E<code>` -/
def parseLookups (s : String) : List (Nat × Except Int Nat) :=
  (splitList "," s).map (fun t => match t.splitOn "=" with
    | [a, b] => (nat! a, if b.startsWith "E" then .error (int! (tail1 b)) else .ok (nat! b))
    | _ => (0, .error 0))

def lookupFn (l : List (Nat × Except Int Nat)) (p : Nat) : Except Int Nat :=
  match l.lookup p with
  | some r => r
  | none => .error 0

def parseOne (b : String) : Except Int Nat :=
  if b.startsWith "E" then .error (int! (tail1 b)) else .ok (nat! b)

/-- `b=X…;b=X…` → association list broker ↦ payload text -/
def perBroker (s : String) : List (Nat × String) :=
  (splitList ";" s).map (fun t => match t.splitOn "=" with
    | a :: rest => (nat! a, "=".intercalate rest)
    | _ => (0, ""))

def parseDR (s : String) : DRReply :=
  if s = "T" then .transport else if s = "N" then .noTopic
  else .parts (pairList "/" ":" (tail1 s))

def showLog (l : List (Nat × List Nat)) : String :=
  if l.isEmpty then "-" else ";".intercalate (l.map (fun g => s!"{g.1}:" ++ "/".intercalate (g.2.map toString)))

/-- `b0` (trailing marker: the harness ran the line on a cluster with broker ids 0,1,2) means nothing to the
    model, which speaks about abstract broker ids -/
def step (_ : Unit) (t0 : List String) : Unit × String :=
  match (if t0.getLast? = some "b0" then t0.dropLast else t0) with
  | ["retry", b, max, script] =>
    (match parseBudget (head1 b) with
     | none => ((), "bad-op")
     | some bb =>
       let sc := (splitList "," script)
       let r := retryScript bb (int! max) isErrNoController (fun i =>
         match sc.getD i "n" with
         | "r" => some (.kerr NOT_CONTROLLER)
         | "e" => some .transport
         | _ => none)
       ((), s!"calls={r.1} " ++ (match r.2 with
         | none => "nil"
         | some e => if isErrNoController e then "retryable" else "other")))
  | ["ctrl", flags, op, kv, max, ctrls, replies] =>
    (match parseVariant flags, parseOp op with
     | some v, some o =>
       let cs := natList ctrls
       let rs := (splitList ";" replies).map parseReply
       let w : World := ⟨fun i => cs.getD i 0, fun i => rs.getD i .transport⟩
       let r := runCtrl v o (kver kv) (int! max) w
       ((), s!"{showOutcome r.2} v{if r.1.log.isEmpty then "-" else toString (reqVersion o (kver kv))} log={showNats r.1.log} refreshes={r.1.refreshes}")
     | _, _ => ((), "bad-op"))
  | ["dr", kv, brokers, parts, replies] =>
    let ls := parseLookups parts
    let rs := perBroker replies
    let r := deleteRecords (kver kv) (natList brokers) (ls.map (·.1)) (lookupFn ls)
      (fun b => match rs.lookup b with | some p => parseDR p | none => .transport)
    ((), s!"{showOutcome r.1} log={showLog r.2}")
  | ["dg", brokers, groups, replies] =>
    let ls := parseLookups groups
    let rs := perBroker replies
    let r := describeGroups (natList brokers) (ls.map (·.1)) (lookupFn ls)
      (fun b => match rs.lookup b with
        | some p => if p = "T" then none else some (pairList "/" ":" (tail1 p))
        | none => none)
    ((), match r.1 with
      | .ok ds => s!"ok {showPairs ds} log={showLog r.2}"
      | .error (.lookup c) => s!"err lookup {c} log=-"
      | .error e => s!"err {showErr e}")
  | ["delg", kv, coord, reply] =>
    let rp : Option DGReply :=
      if reply = "T" then some .transport else if reply = "M" then some .missing
      else if reply.startsWith "C" then some (.code (int! (tail1 reply))) else none
    (match rp with
     | none => ((), "bad-op")
     | some rp =>
       let r := deleteGroup (kver kv) (parseOne coord) rp
       ((), s!"{showOutcome r.1} log={showNats r.2}"))
  | ["lgo", kv, coord, reply] =>
    let rp : Option (Int × List (Nat × Int)) :=
      if reply = "T" then none
      else match (tail1 reply).splitOn ":" with
        | [top, items] => some (int! top, pairList "," "=" items)
        | _ => none
    let r := listGroupOffsets (kver kv) (parseOne coord) rp
    ((), match r.1 with
      | .ok (top, blocks) => s!"ok v{r.2.1} top={top} parts={showPairs blocks} log={showNats r.2.2}"
      | .error e => s!"err {showErr e} v{r.2.1} log={showNats r.2.2}")
  | ["dld", ids, replies] =>
    let rs := perBroker replies
    let r := describeLogDirs (natList ids) (fun b => rs.lookup b == some "O")
    ((), s!"err={if r.1 then 1 else 0} ok={showNats r.2.1} log={showNats r.2.2}")
  | _ => ((), "bad-op")

end Driver.C19

def main : IO Unit := do
  Driver.loop (← IO.getStdin) (← IO.getStdout) Driver.C19.step ()
