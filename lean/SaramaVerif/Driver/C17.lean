import SaramaVerif.Driver.Util
import SaramaVerif.Model.Partitioner
namespace Driver.C17
open Model.Partitioner Driver

def exceptList (s : String) : Except Int (List Int) :=
  if s.startsWith "E" then .error (int! (s.drop 1).toString) else .ok (intList s)

def exceptInt (s : String) : Except Int Int :=
  if s.startsWith "E" then .error (int! (s.drop 1).toString) else .ok (int! s)

def showRouted : Routed → String
  | .sent p => s!"sent {p}"
  | .errLeaderNotAvailable => "errLeaderNotAvailable"
  | .errInvalidPartition => "errInvalidPartition"
  | .errPartitioner c => s!"errPartitioner {c}"
  | .errClient c => s!"errClient {c}"

def step (_ : Unit) (t : List String) : Unit × String :=
  match t with
  | ["hash", ra, h, n] => ((), toString (hashChoice (ra = "1") (int! h) (int! n)))
  | ["hk", ra, key, n] => ((), toString (hashKeyChoice (ra = "1") (hexBytes key) (int! n)))
  | ["rr", ns] => ((), showIntList (rrRun 0 (intList ns)))
  | ["pm", rc, all, wr, ch] =>
      ((), showRouted (partitionMessage (rc = "1") (exceptList all) (exceptList wr) (fun _ => exceptInt ch)))
  | ["fb", variant, n, r, a] =>
      let fb := if variant = "arg" then Fallback.arg else if variant = "self" then Fallback.self else Fallback.random
      ((), match hashPartition 64 fb false none (int! n) (int! r) (int! a) with
           | some c => s!"ok {c}" | none => "diverges")
  | _ => ((), "bad-op")

end Driver.C17

def main : IO Unit := do
  Driver.loop (← IO.getStdin) (← IO.getStdout) Driver.C17.step ()
