import SaramaVerif.Driver.Util
import SaramaVerif.Model.ProduceSet
/-
  Line-protocol driver for C04 (what a partition batch carries on the wire, where the broker puts it, which
  offsets handleSuccess reports).

  conf ver v1 v2 v21 codec idem mrs mmb fMsgs fBytes fFreq maxMsgs     -> ok   (resets the set)
  topics lens | level n | newset                                    -> ok   (names / compression level: bytes only; newset: fresh produce set)
  add now id topic part klen vlen hdrs ts seq                       -> ok=<0|1> bc=
  batch topic part base                                             -> kind= rv= magic= codec= lod= wts= recs=off:id:ts;… log=pos:id,…
        ts of a record is printed only where the application supplied one ("*" otherwise, "-" = format has none)
  succ dup retryMax hasResp hasBlock err base lat topic part        -> succ id:off,… ts= | succ-unassigned ids | err code ids | retry code ids
-/
namespace Driver.C04
open Model.ProduceSet Driver

def b! (s : String) : Bool := s = "1"

def pairs : List Int → List (Nat × Nat)
  | a :: b :: t => (a.toNat, b.toNat) :: pairs t
  | _ => []

def optInt (s : String) : Option Int := if s = "-" then none else some (int! s)

def mkMsg (id topic part klen vlen hdrs ts seq : String) : Msg :=
  { id := nat! id, tp := (nat! topic, nat! part), keyLen := nat! klen, valLen := nat! vlen,
    headers := pairs (intList hdrs), ts := optInt ts, seq := int! seq }

structure St where
  c : Conf
  s : State

def St.init : St :=
  ⟨⟨false, false, false, 0, false, defaultMaxRequestSize, 1000000, 0, 0, 0, 0⟩, State.empty⟩

def join (sep : String) (l : List String) : String := if l.isEmpty then "-" else sep.intercalate l

def showTs (supplied : Bool) (t : Option Int) : String :=
  match t with
  | none => "-"
  | some v => if supplied then toString v else "*"

/-- per-record items `off:id:ts` (ts as the decoded batch shows it) -/
def recItems (b : Batch) (msgs : List Msg) : List String :=
  let entries := b.decoded
  let offs : List Int := match b with
    | .recordBatch _ _ _ recs => recs.map (·.offset)
    | .msgSet _ recs => recs.map (·.offset)
    | .wrapper _ _ _ inner => inner.map (·.offset)
  (List.zip (List.zip offs entries) msgs).map (fun x =>
    s!"{x.1.1}:{x.1.2.2.id}:{showTs x.2.ts.isSome x.1.2.2.ts}")

def showBatch (c : Conf) (p : PSet) (base : Int) : String :=
  let b := buildBatch c p
  let log := join "," ((brokerAppend base b).map (fun x => s!"{x.1}:{x.2.id}"))
  let firstSupplied := match p.msgs with | m :: _ => m.ts.isSome | [] => false
  let recs := join ";" (recItems b p.msgs)
  match b with
  | .recordBatch _ lod codec _ => s!"kind=rb rv={reqVersion c} magic=2 codec={codec} lod={lod} wts=- recs={recs} log={log}"
  | .msgSet magic _ => s!"kind=set rv={reqVersion c} magic={magic} codec=0 lod=- wts=- recs={recs} log={log}"
  | .wrapper codec magic ts _ =>
      s!"kind=wrap rv={reqVersion c} magic={magic} codec={codec} lod=- wts={showTs firstSupplied ts} recs={recs} log={log}"

def showIds (l : List Nat) : String := join "," (l.map toString)

def showVerdict : Verdict → String
  | .successes offs lat =>
      s!"succ {join "," (offs.map (fun x => s!"{x.1}:{x.2}"))} ts={match lat with | some t => toString t | none => "-"}"
  | .successesUnassigned ids => s!"succ-unassigned {showIds ids}"
  | .errors code ids => s!"err {code} {showIds ids}"
  | .retry code ids => s!"retry {code} {showIds ids}"

def step (st : St) (t : List String) : St × String :=
  match t with
  | ["conf", _ver, v1, v2, v21, codec, idem, mrs, mmb, fm, fb, ff, mx] =>
      ({ c := ⟨b! v1, b! v2, b! v21, int! codec, b! idem, int! mrs, int! mmb, int! fm, int! fb, int! ff, int! mx⟩,
         s := State.empty }, "ok")
  | ["topics", _] => (st, "ok")
  | ["level", _] => (st, "ok")
  | ["newset"] => ({ st with s := State.empty }, "ok")
  | ["add", now, id, topic, part, klen, vlen, hdrs, ts, seq] =>
      let m := mkMsg id topic part klen vlen hdrs ts seq
      let ok := addOk st.c st.s m
      let s1 := add st.c st.s (int! now) m
      ({ st with s := s1 }, s!"ok={if ok then 1 else 0} bc={s1.bufferCount}")
  | ["batch", topic, part, base] =>
      (st, match lookup (nat! topic, nat! part) st.s.parts with
           | some p => showBatch st.c p (int! base)
           | none => "no-such-partition")
  | ["succ", dup, retryMax, hasResp, hasBlock, err, base, lat, topic, part] =>
      (st, match lookup (nat! topic, nat! part) st.s.parts with
           | some p => showVerdict (handleBlock st.c (b! dup) (int! retryMax) (b! hasResp)
                         (if b! hasBlock then some (int! err, int! base, optInt lat) else none) p.msgs)
           | none => "no-such-partition")
  | _ => (st, "bad-op")

end Driver.C04

def main : IO Unit := do
  Driver.loop (← IO.getStdin) (← IO.getStdout) Driver.C04.step Driver.C04.St.init
