import SaramaVerif.Driver.Util
import SaramaVerif.Model.ProduceSet
/-
  Line-protocol driver for C16 (produce set sizes / limits / flush predicates, wire size, run-loop fragment).

  conf ver v1 v2 v21 codec idem mrs mmb fMsgs fBytes fFreq maxMsgs     -> ok            (also resets set and BP)
  add chk now id topic part klen vlen hdrs ts seq                   -> wo= ok= bb= bc= pbb= pn= rtf= empty=
        chk=1: broker-producer discipline (an overflowing message first hands the set over: fresh set)
        chk=0: plain produceSet.add
  drop topic part                                                   -> n= bb= bc= rtf= empty=
  bs version klen vlen hdrs                                         -> byteSize
  disp hdrNonNil klen vlen hdrs                                     -> forward | errHeaders | errTooLarge
  consts                                                            -> pmo= mro= rbo= mv32= margin= mrs=
  topics len0,len1,…                                                -> ok            (length of the name of topic i)
  wire clientIdLen                                                  -> acc=1 size= | acc=0   (uncompressed sets only)
  bpmsg now id topic part klen vlen hdrs ts seq | bptimer | bptake | bpdrop topic part
                                                                    -> [fired=] armed= bc= out=<message counts of the sets handed over>
-/
namespace Driver.C16
open Model.ProduceSet Driver

def b! (s : String) : Bool := s = "1"
def showB (b : Bool) : String := if b then "1" else "0"

def pairs : List Int → List (Nat × Nat)
  | a :: b :: t => (a.toNat, b.toNat) :: pairs t
  | _ => []

def optInt (s : String) : Option Int := if s = "-" then none else some (int! s)

def mkMsg (id topic part klen vlen hdrs ts seq : String) : Msg :=
  { id := nat! id, tp := (nat! topic, nat! part), keyLen := nat! klen, valLen := nat! vlen,
    headers := pairs (intList hdrs), ts := optInt ts, seq := int! seq }

structure St where
  c : Conf
  s : State
  bp : BP
  topicLens : List Int := []

def St.init : St :=
  ⟨⟨false, false, false, 0, false, defaultMaxRequestSize, 1000000, 0, 0, 0, 0⟩, State.empty, BP.init, []⟩

def partLine (s : State) (tp : Nat × Nat) : String :=
  match lookup tp s.parts with
  | some p => s!"pbb={p.bufferBytes} pn={p.msgs.length}"
  | none => "pbb=- pn=0"

def showBP (b : BP) (out : List State) : String :=
  s!"armed={showB b.timerArmed} bc={b.buffer.bufferCount} out={showIntList (out.map (·.bufferCount))}"

def nthLen (l : List Int) (t : Nat) : Nat := (l.getD t 0).toNat

def step (st : St) (t : List String) : St × String :=
  match t with
  | ["conf", _ver, v1, v2, v21, codec, idem, mrs, mmb, fm, fb, ff, mx] =>
      ({ c := ⟨b! v1, b! v2, b! v21, int! codec, b! idem, int! mrs, int! mmb, int! fm, int! fb, int! ff, int! mx⟩,
         s := State.empty, bp := BP.init, topicLens := st.topicLens }, "ok")
  | ["topics", tls] => ({ st with topicLens := intList tls }, "ok")
  | ["add", chk, now, id, topic, part, klen, vlen, hdrs, ts, seq] =>
      let m := mkMsg id topic part klen vlen hdrs ts seq
      let wo := wouldOverflow st.c st.s m
      let s0 := if wo && b! chk then State.empty else st.s
      let ok := addOk st.c s0 m
      let s1 := add st.c s0 (int! now) m
      ({ st with s := s1 },
       s!"wo={showB wo} ok={showB ok} bb={s1.bufferBytes} bc={s1.bufferCount} {partLine s1 m.tp} rtf={showB (readyToFlush st.c s1)} empty={showB (isEmpty s1)}")
  | ["drop", topic, part] =>
      let tp := (nat! topic, nat! part)
      let n := match lookup tp st.s.parts with | some p => p.msgs.length | none => 0
      let s1 := dropPartition st.s tp
      ({ st with s := s1 },
       s!"n={n} bb={s1.bufferBytes} bc={s1.bufferCount} rtf={showB (readyToFlush st.c s1)} empty={showB (isEmpty s1)}")
  | ["bs", version, klen, vlen, hdrs] =>
      (st, toString (byteSize (int! version) (mkMsg "0" "0" "0" klen vlen hdrs "-" "0")))
  | ["disp", hnn, klen, vlen, hdrs] =>
      (st, match dispatch st.c (b! hnn) (mkMsg "0" "0" "0" klen vlen hdrs "-" "0") with
           | .forward => "forward" | .errHeadersNeedV011 => "errHeaders" | .errMessageSizeTooLarge => "errTooLarge")
  | ["consts"] =>
      (st, s!"pmo={producerMessageOverhead} mro={maximumRecordOverhead} rbo={recordBatchOverhead} mv32={maxVarintLen32} margin={safetyMargin} mrs={defaultMaxRequestSize}")
  | ["wire", cid] =>
      let sz := wireSize st.c (nat! cid) (nthLen st.topicLens) st.s
      (st, if encodeAccepts st.c sz then s!"acc=1 size={sz}" else "acc=0")
  | ["bpmsg", now, id, topic, part, klen, vlen, hdrs, ts, seq] =>
      let r := BP.step st.c st.bp (.msg (int! now) (mkMsg id topic part klen vlen hdrs ts seq))
      ({ st with bp := r.1 }, showBP r.1 r.2)
  | ["bptimer"] =>
      let r := BP.step st.c st.bp .timer
      ({ st with bp := r.1 }, s!"fired={showB r.1.timerFired} " ++ showBP r.1 r.2)
  | ["bptake"] => let r := BP.step st.c st.bp .take; ({ st with bp := r.1 }, showBP r.1 r.2)
  | ["bpdrop", topic, part] =>
      let r := BP.step st.c st.bp (.drop (nat! topic, nat! part)); ({ st with bp := r.1 }, showBP r.1 r.2)
  | _ => (st, "bad-op")

end Driver.C16

def main : IO Unit := do
  Driver.loop (← IO.getStdin) (← IO.getStdout) Driver.C16.step Driver.C16.St.init
