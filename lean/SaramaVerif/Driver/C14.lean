import SaramaVerif.Driver.Util
import SaramaVerif.Model.BrokerConn
/-
  Trace-validation driver for C14.  One input line = one OBSERVED event of a real run of sarama's Broker
  against the scripted server of harness/cmd/c14; the driver replays it through `Model.BrokerConn.step` and
  applies the unobservable internal events (enqueue, receiver dequeue / header / body / EOF) eagerly, each of
  them again through `step`.  A rejected event is a correspondence failure.

    case <id> M=<maxOpen> mr=<maxResp> rpbw=<0|1> cid0=<n> …   new connection                 → ok
    W <call> <cid> <hv> <expect>     client wrote a request (lock, write)                      → ok | reject …
    WF <call> <hv> <expect>          a request write failed with 0 bytes written               → ok | reject …
    S <hex>                          server sent bytes                                         → ok | reject …
    X                                server closed                                             → ok | reject …
    T                                a client read hit its deadline                            → ok | reject …
    R <call> …                       the call returned: answer is the model's outcome of the call
    RN <call> <class> <hv> <expect>  the call returned without having written (notconn | sendio)
    CB                               Close() called (no model event)                           → ok
    CE <class>                       Close() returned                                          → closed | notconn | reject …
    END                              all calls returned                                         → end pending=<n>
-/
namespace Driver.C14
open Model.BrokerConn Driver

structure DS where
  st : State
  pendingCB : Nat := 0     -- Close() calls that were announced (CB) and whose return (CE) is still to come
  inferred : Nat := 0      -- Close() calls whose completion was inferred from a later call's ErrNotConnected

def DS.start : DS := { st := init ⟨1, 0, false⟩ 0 }

def showReject : Reject → String
  | .lockHeld => "lockHeld" | .notHolder => "notHolder" | .slotBusy => "slotBusy" | .fifoFull => "fifoFull"
  | .receiverBusy => "receiverBusy" | .fifoEmpty => "fifoEmpty" | .receiverGone => "receiverGone"
  | .notReading => "notReading" | .needBytes => "needBytes" | .dataAvailable => "dataAvailable"
  | .noEof => "noEof" | .serverClosed => "serverClosed" | .notConnected => "notConnected"
  | .notClosing => "notClosing" | .notDrained => "notDrained"

def showErr : Err → String
  | .io => "io" | .timeout => "timeout" | .badLength => "len" | .badTag => "tag" | .cidMismatch => "cid"
  | .notConnected => "notconn" | .sendFailed => "sendio"

def digest (s : State) : String :=
  s!"[wire={s.wire.length} q={s.queue.length} cur={curCount s} hw={(holderWritten s).length} dead={(s.dead.map showErr).getD "-"} inbuf={s.inbuf.length} eof={s.eof} done={s.done.length}]"

/-- apply the first enabled internal event, until none is enabled (fuel bounds the number of events) -/
def settle : Nat → State → State
  | 0, s => s
  | fuel + 1, s =>
    let tryEnq : Option State :=
      match s.holder with
      | .written p => (match step s (.enqueue p.call) with | .ok s' => some s' | .error _ => none)
      | _ => none
    match tryEnq with
    | some s' => settle fuel s'
    | none =>
      match step s .recvDeq with
      | .ok s' => settle fuel s'
      | .error _ =>
        match step s .recvHeader with
        | .ok s' => settle fuel s'
        | .error _ =>
          match step s .recvBody with
          | .ok s' => settle fuel s'
          | .error _ =>
            match step s .recvEOF with
            | .ok s' => settle fuel s'
            | .error _ => s

def fuelOf (s : State) : Nat := 4 * (s.queue.length + 4) + 8

def runEvents (s : State) (evs : List Event) : Except Reject State := run s evs

/-- apply observed events, then settle -/
def obs (s : State) (evs : List Event) : State × String :=
  match run s evs with
  | .ok s' => (settle (fuelOf s') s', "ok")
  | .error r => (s, s!"reject {showReject r} {digest s}")

def kv (key : String) (ts : List String) : Option String :=
  (ts.find? (fun t => t.startsWith (key ++ "="))).map (fun t => (t.drop (key.length + 1)).toString)

def outcomeOf (s : State) (call : Nat) : String :=
  match s.done.find? (fun d => d.p.call = call) with
  | some d =>
    (match d.out with
     | .delivered b => s!"delivered {showHex b}"
     | .failed e => s!"failed {showErr e}")
  | none =>
    match s.early.find? (fun x => x.1 = call) with
    | some (_, none) => "sent"
    | some (_, some e) => s!"failed {showErr e}"
    | none => "pending"

/-- the model events of a whole Close(): lock, close the FIFO, let the receiver drain and exit, drop the conn -/
def doClose (s : State) : Except String State :=
  match obs s [.closeBegin] with
  | (s1, "ok") =>
    (match run s1 [.recvExit, .closeEnd] with
     | .ok s2 => .ok s2
     | .error r => .error s!"reject {showReject r} {digest s1}")
  | (_, o) => .error o

def step (d : DS) (t : List String) : DS × String :=
  let s := d.st
  match t with
  | "case" :: _ :: rest =>
    match kv "M" rest, kv "mr" rest, kv "rpbw" rest, kv "cid0" rest with
    | some m, some mr, some v, some c0 =>
      ({ st := init ⟨nat! m, int! mr, v = "1"⟩ (int! c0) }, "ok")
    | _, _, _, _ => (d, "bad-op")
  | ["W", call, cid, hv, ex] =>
    if s.connNil ∨ int! cid ≠ s.nextCid then (d, s!"reject cid-or-conn want={s.nextCid} {digest s}")
    else
      let (s', o) := obs s [.sendBegin (nat! call) (nat! hv) (ex = "1"), .write (nat! call)]
      ({ d with st := s' }, o)
  | ["WF", call, hv, ex] =>
    -- a request write that failed with 0 bytes written (logged by the connection at the moment of the attempt):
    -- lock, failed write, unlock - no promise, correlation id not advanced
    if s.connNil then (d, s!"reject conn-is-nil {digest s}")
    else
      let (s', o) := obs s [.sendBegin (nat! call) (nat! hv) (ex = "1"), .writeFail (nat! call)]
      ({ d with st := s' }, o)
  | ["S", hex] => let (s', o) := obs s [.srvBytes (hexBytes hex)]; ({ d with st := s' }, o)
  | ["X"] => let (s', o) := obs s [.srvClose]; ({ d with st := s' }, o)
  | ["T"] => let (s', o) := obs s [.recvTimeout]; ({ d with st := s' }, o)
  | ["R", call, "decodefail"] =>
    (d, match s.done.find? (fun r => r.p.call = nat! call) with
        | some r => (match r.out with | .delivered _ => "decodefail" | .failed e => s!"failed {showErr e}")
        | none => outcomeOf s (nat! call))
  | ["R", call, "insuff"] =>
    -- ErrInsufficientData is the header's tag check (tag byte ≥ 0x80) or the decoding of a delivered body
    (d, match s.done.find? (fun r => r.p.call = nat! call) with
        | some r => (match r.out with
                     | .delivered _ => "insuff"
                     | .failed .badTag => "insuff"
                     | .failed e => s!"failed {showErr e}")
        | none => outcomeOf s (nat! call))
  | "R" :: call :: _ => (d, outcomeOf s (nat! call))
  | ["RN", call, cls, hv, ex] =>
    if cls = "notconn" then
      -- a racing Close() may have completed although its return was not logged yet
      let pre : Except String DS :=
        if s.connNil then .ok d
        else if d.pendingCB > 0 then
          (match doClose s with
           | .ok s2 => .ok { st := s2, pendingCB := d.pendingCB - 1, inferred := d.inferred + 1 }
           | .error o => .error o)
        else .error s!"reject conn-is-open {digest s}"
      match pre with
      | .error o => (d, o)
      | .ok d1 =>
        let (s', o) := obs d1.st [.sendBegin (nat! call) (nat! hv) (ex = "1")]
        ({ d1 with st := s' }, if o = "ok" then outcomeOf s' (nat! call) else o)
    else if cls = "sendio" then
      if s.connNil then (d, s!"reject conn-is-nil {digest s}")
      else
        let (s', o) := obs s [.sendBegin (nat! call) (nat! hv) (ex = "1"), .writeFail (nat! call)]
        ({ d with st := s' }, if o = "ok" then outcomeOf s' (nat! call) else o)
    else (d, "bad-op")
  | ["CB"] => ({ d with pendingCB := d.pendingCB + 1 }, "ok")
  | ["CE", cls] =>
    if cls = "notconn" then
      ({ d with pendingCB := d.pendingCB - 1 }, if s.connNil then "notconn" else s!"reject conn-is-open {digest s}")
    else if d.inferred > 0 then ({ d with inferred := d.inferred - 1 }, "closed")
    else
      match doClose s with
      | .ok s2 => ({ d with st := s2, pendingCB := d.pendingCB - 1 }, "closed")
      | .error o => (d, o)
  | ["END"] => (d, s!"end pending={onWire s}")
  | _ => (d, "bad-op")

end Driver.C14

def main : IO Unit := do
  Driver.loop (← IO.getStdin) (← IO.getStdout) Driver.C14.step Driver.C14.DS.start
