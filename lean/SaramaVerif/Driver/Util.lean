/-
  Line-protocol helpers shared by all model drivers (core-only).
-/
namespace Driver

def toks (line : String) : List String :=
  (line.splitOn " ").filter (· ≠ "")

def int! (s : String) : Int := s.toInt?.getD 0
def nat! (s : String) : Nat := s.toNat?.getD 0

/-- "a,b,c" → [a,b,c];  "-" → [] -/
def intList (s : String) : List Int :=
  if s = "-" then [] else (s.splitOn ",").map int!

def showIntList (l : List Int) : String :=
  if l.isEmpty then "-" else ",".intercalate (l.map toString)

def hexDigit (c : Char) : Nat :=
  if '0' ≤ c ∧ c ≤ '9' then c.toNat - '0'.toNat
  else if 'a' ≤ c ∧ c ≤ 'f' then c.toNat - 'a'.toNat + 10
  else if 'A' ≤ c ∧ c ≤ 'F' then c.toNat - 'A'.toNat + 10 else 0

/-- hex string → bytes ("-" = empty) -/
def hexBytes (s : String) : List UInt8 :=
  if s = "-" then [] else
  let rec go : List Char → List UInt8
    | a :: b :: r => UInt8.ofNat (hexDigit a * 16 + hexDigit b) :: go r
    | _ => []
  go s.toList

def hexOfByte (b : UInt8) : String :=
  let d (n : Nat) : Char := if n < 10 then Char.ofNat (n + '0'.toNat) else Char.ofNat (n - 10 + 'a'.toNat)
  String.ofList [d (b.toNat / 16), d (b.toNat % 16)]

def showHex (bs : List UInt8) : String :=
  if bs.isEmpty then "-" else String.join (bs.map hexOfByte)

/-- generic stateful line loop -/
partial def loop {σ : Type} (h : IO.FS.Stream) (out : IO.FS.Stream) (step : σ → List String → σ × String) (s : σ) : IO Unit := do
  let line ← h.getLine
  if line.isEmpty then return ()
  let line := (line.dropEndWhile (fun c => c = '\n' || c = '\r')).toString
  -- `scmark <token> <seed> …` names the scenario the following lines belong to (so that a difference can be re-run by
  -- the check); it is not an operation of any model
  if line.startsWith "scmark " then
    out.putStrLn "ok"
    loop h out step s
  else
  let (s', o) := step s (toks line)
  out.putStrLn o
  loop h out step s'

end Driver
