import SaramaVerif.Driver.ProducerTrace
def main : IO Unit := Driver.ProducerTrace.main
