import SaramaVerif.Driver.ProducerTrace
import SaramaVerif.Driver.FeederTrace
import SaramaVerif.Driver.GroupTrace
import SaramaVerif.Driver.LifecycleTrace
/- C12 driver: producer traces (reset/ev/bb/end), consumer feeder traces (creset/cf), group session traces (greset/q/h)
   and the lifecycle (shutdown handshake) traces of consumer / group / offset manager / client / broker (lreset/lc) -/
structure All where
  p : Driver.ProducerTrace.DS
  c : Driver.FeederTrace.DS
  g : Driver.GroupTrace.DS
  l : Driver.LifecycleTrace.DS

def allStep (b : All) (t : List String) : All × String :=
  match t with
  | "creset" :: _ | "cf" :: _ =>
    let r := Driver.FeederTrace.step b.c t
    ({ b with c := r.1 }, r.2)
  | "greset" :: _ | "q" :: _ | "h" :: _ =>
    let r := Driver.GroupTrace.step b.g t
    ({ b with g := r.1 }, r.2)
  | "lreset" :: _ | "lc" :: _ =>
    let r := Driver.LifecycleTrace.step b.l t
    ({ b with l := r.1 }, r.2)
  | _ =>
    let r := Driver.ProducerTrace.step b.p t
    ({ b with p := r.1 }, r.2)

def main : IO Unit := do
  Driver.loop (← IO.getStdin) (← IO.getStdout) allStep
    { p := { st := Model.Producer.init { retryMax := 0, icepts := 0, idem := false }, failed := false }, c := {}, g := {}, l := {} }
