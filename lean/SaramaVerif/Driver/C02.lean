import SaramaVerif.Driver.ProducerTrace
import SaramaVerif.Driver.PipelineTrace
/-
  C02 model driver: the producer-trace protocol of Driver/ProducerTrace.lean, plus the `sys …` lines that replay
  the run through the composed system model Model.Pipeline (Driver/PipelineTrace.lean).
-/
namespace Driver.C02

structure St where
  tr : Driver.ProducerTrace.DS
  sys : Driver.PipelineTrace.PS := {}

def step (s : St) (t : List String) : St × String :=
  match t with
  | "sys" :: rest =>
    let r := Driver.PipelineTrace.step s.sys rest
    ({ s with sys := r.1 }, r.2)
  | _ =>
    let r := Driver.ProducerTrace.step s.tr t
    ({ s with tr := r.1 }, r.2)

end Driver.C02

def main : IO Unit := do
  Driver.loop (← IO.getStdin) (← IO.getStdout) Driver.C02.step
    { tr := { st := Model.Producer.init { retryMax := 0, icepts := 0, idem := false }, failed := false } }
