import SaramaVerif.Driver.Util
import SaramaVerif.Model.BalanceLine
/-! Driver of C08: the balance models behind the line protocol (all ops live in Model/BalanceLine.lean). -/

def main : IO Unit := do
  Driver.loop (← IO.getStdin) (← IO.getStdout) Model.Balance.Line.step ()
