import SaramaVerif.Driver.Util
import SaramaVerif.Model.Lifecycle
/-
  Replays the lifecycle hook events (`lc.*` of /repo, build tag verif) of consumer / consumer-group / client
  scenarios through the acceptors of Model/Lifecycle.lean: one acceptor state per object id.  An event that
  concerns two objects (a partition consumer sending itself to a broker worker, a POM released by its offset
  manager, ...) is fed to both acceptors.
  Lines:  lreset <tag>  |  lc <tag> <event> <key|-> <object id> <value>.     Answer: ok | reject: <component> <id>: <reason>
-/
namespace Driver.LifecycleTrace
open Model.Lifecycle Driver

structure DS where
  pcs   : List (Nat × PC.St) := []
  bcs   : List (Nat × BC.St) := []
  conss : List (Nat × Cons.St) := []
  grps  : List (Nat × Grp.St) := []
  sessGrp : List (Nat × Nat) := []      -- session id -> group id
  oms   : List (Nat × OM.St) := []
  poms  : List (Nat × POM.St) := []
  clis  : List (Nat × Cli.St) := []
  brs   : List (Nat × Br.St) := []
  failed : Bool := false

def getD {σ : Type} (dflt : σ) (l : List (Nat × σ)) (id : Nat) : σ :=
  match l.find? (fun x => x.1 = id) with
  | some x => x.2
  | none => dflt

def put {σ : Type} (l : List (Nat × σ)) (id : Nat) (s : σ) : List (Nat × σ) := (id, s) :: l.filter (fun x => x.1 ≠ id)

/-- feed one event to the acceptor state of object `id` -/
def feed {σ ε : Type} (name : String) (step : σ → ε → Except String σ) (dflt : σ) (l : List (Nat × σ)) (id : Nat) (e : ε) :
    Except String (List (Nat × σ)) :=
  match step (getD dflt l id) e with
  | .ok s' => .ok (put l id s')
  | .error m => .error s!"{name} {id}: {m}"

def fPC (d : DS) (id : Nat) (e : PC.Ev) : Except String DS := do
  let l ← feed "partition-consumer" PC.step {} d.pcs id e; pure { d with pcs := l }
def fBC (d : DS) (id : Nat) (e : BC.Ev) : Except String DS := do
  let l ← feed "broker-consumer" BC.step {} d.bcs id e; pure { d with bcs := l }
def fCons (d : DS) (id : Nat) (e : Cons.Ev) : Except String DS := do
  let l ← feed "consumer" Cons.step {} d.conss id e; pure { d with conss := l }
def fGrp (d : DS) (id : Nat) (e : Grp.Ev) : Except String DS := do
  let l ← feed "consumer-group" Grp.step {} d.grps id e; pure { d with grps := l }
def fOM (d : DS) (id : Nat) (e : OM.Ev) : Except String DS := do
  let l ← feed "offset-manager" OM.step {} d.oms id e; pure { d with oms := l }
def fPOM (d : DS) (id : Nat) (e : POM.Ev) : Except String DS := do
  let l ← feed "partition-offset-manager" POM.step {} d.poms id e; pure { d with poms := l }
def fCli (d : DS) (id : Nat) (e : Cli.Ev) : Except String DS := do
  let l ← feed "client" Cli.step {} d.clis id e; pure { d with clis := l }
def fBr (d : DS) (id : Nat) (e : Br.Ev) : Except String DS := do
  let l ← feed "broker" Br.step {} d.brs id e; pure { d with brs := l }

/-- a session event goes to the group the session belongs to -/
def fSess (d : DS) (sess : Nat) (e : Grp.Ev) : Except String DS :=
  match d.sessGrp.find? (fun x => x.1 = sess) with
  | some x => fGrp d x.2 e
  | none => .error s!"session {sess}: unknown session"

def apply (d : DS) (ev key : String) (a b : Nat) : Option (Except String DS) :=
  match ev, key with
  -- partition consumer
  | "pc.start", _ => some (fPC d a .start)
  | "pc.input.send", "new" => some (do let d ← fPC d a (.inputSend .new b); fBC d b .inputSend)
  | "pc.input.send", "disp" => some (do let d ← fPC d a (.inputSend .disp b); fBC d b .inputSend)
  | "pc.input.send", "feeder" => some (do let d ← fPC d a (.inputSend .feeder b); fBC d b .inputSend)
  | "pc.dying.close", _ => some (fPC d a .dyingClose)
  | "pc.disp.token", _ => some (fPC d a .dispToken)
  | "pc.trigger.send", "disp" => some (fPC d a .trigSendDisp)
  | "pc.trigger.send", "bc" => some (fPC d a (.trigSendBc b))
  | "pc.trigger.send", "bc.abort" => some (fPC d a (.trigSendBc b))
  | "pc.trigger.close", "disp" => some (fPC d a .trigCloseDisp)
  | "pc.trigger.close", "bc.dying" => some (fPC d a (.trigCloseBc b false))
  | "pc.trigger.close", "bc.oor" => some (fPC d a (.trigCloseBc b true))
  | "pc.unref", "redispatch" => some (fPC d a (.unrefRedispatch b))
  | "pc.unref", "exit" => some (fPC d a (.unrefExit b))
  | "pc.feeder.close", _ => some (fPC d a .feederClose)
  | "pc.feeder.send", _ => some (fPC d a (.feederSend b))
  | "pc.feeder.recv", _ => some (fPC d a .feederRecv)
  | "pc.messages.send", _ => some (fPC d a .msgSend)
  | "pc.ack", _ => some (fPC d a (.ack b))
  | "pc.errors.send", _ => some (fPC d a .errSend)
  | "pc.feeder.exit", _ => some (fPC d a .feederExit)
  | "pc.messages.close", _ => some (fPC d a .msgsClose)
  | "pc.errors.close", _ => some (fPC d a .errsClose)
  -- consumer
  | "cons.child.add", _ => some (fCons d a (.childAdd b))
  | "cons.child.remove", _ => some (do let d ← fCons d a (.childRemove b); fPC d b .remove)
  | "cons.close", _ => some (fCons d a .close)
  -- broker consumer
  | "bc.new", _ => some (fBC d a .new)
  | "bc.ref", _ => some (fBC d a (.ref b))
  | "bc.unref", _ => some (fBC d a (.unref b))
  | "bc.input.close", _ => some (fBC d a .inputClose)
  | "bc.sub.add", _ => some (fBC d a .subAdd)
  | "bc.wait.close", _ => some (fBC d a .waitClose)
  | "bc.newsubs.flush", _ => some (fBC d a (.flush b))
  | "bc.newsubs.close", _ => some (fBC d a .newsubsClose)
  | "bc.abort", _ => some (fBC d a .abort)
  | "bc.exit", "drained" => some (fBC d a (.exit false))
  | "bc.exit", "aborted" => some (fBC d a (.exit true))
  -- consumer group and sessions
  | "grp.closed.close", _ => some (fGrp d a .closedClose)
  | "grp.leave.lock", _ => some (fGrp d a .leaveLock)
  | "grp.leave.unlock", _ => some (fGrp d a .leaveUnlock)
  | "grp.errors.close", _ => some (fGrp d a .errorsClose)
  | "grp.errors.send", _ => some (fGrp d a .errorsSend)
  | "grp.client.close", _ => some (fGrp d a .clientClose)
  | "grp.close.done", _ => some (fGrp d a .closeDone)
  | "grp.consume.lock", _ => some (fGrp d a .consumeLock)
  | "grp.consume.unlock", _ => some (fGrp d a .consumeUnlock)
  | "sess.start", _ => some (fGrp { d with sessGrp := put d.sessGrp a b } b (.sessStart a))
  | "sess.claim.add", _ => some (fSess d a (.claimAdd a))
  | "sess.claim.done", _ => some (fSess d a (.claimDone a))
  | "sess.release", _ => some (fSess d a (.release a))
  | "sess.claims.joined", _ => some (fSess d a (.claimsJoined a))
  | "sess.cleanup", _ => some (fSess d a (.cleanup a))
  | "sess.offsets.close", _ => some (fSess d a (.offsetsClose a))
  | "sess.hbdying.close", _ => some (fSess d a (.hbDyingClose a))
  | "sess.hbdead.close", _ => some (fSess d a (.hbDeadClose a))
  | "sess.hbdead.recv", _ => some (fSess d a (.hbDeadRecv a))
  | "sess.release.done", _ => some (fSess d a (.releaseDone a))
  -- offset manager
  | "pom.new", _ => some (do let d ← fPOM d a .new; fOM d b .pomNew)
  | "pom.done", _ => some (fPOM d a .done)
  | "pom.errors.send", _ => some (fPOM d a .errSend)
  | "pom.errors.close", _ => some (do let d ← fPOM d a .errClose; fOM d b .pomRelease)
  | "om.closing.close", _ => some (fOM d a .closingClose)
  | "om.closed.close", _ => some (fOM d a .closedClose)
  | "om.closed.recv", _ => some (fOM d a .closedRecv)
  | "om.poms.asyncclose", _ => some (fOM d a .asyncClose)
  | "om.final.begin", _ => some (fOM d a (.finalBegin b))
  | "om.final.flush", _ => some (fOM d a (.finalFlush b))
  | "om.final.clean", _ => some (fOM d a .finalClean)
  | "om.release.force", _ => some (fOM d a .releaseForce)
  | "om.close.done", _ => some (fOM d a .closeDone)
  -- client
  | "cli.closer.close", _ => some (fCli d a .closerClose)
  | "cli.closed.close", _ => some (fCli d a .closedClose)
  | "cli.closed.recv", _ => some (fCli d a .closedRecv)
  | "cli.broker.close", _ => some (fCli d a .brokerClose)
  | "cli.maps.nil", _ => some (fCli d a .mapsNil)
  | "cli.close.again", _ => some (fCli d a .closeAgain)
  -- broker
  | "br.open", _ => some (fBr d a .open_)
  | "br.responses.send", _ => some (fBr d a .send)
  | "br.responses.recv", _ => some (fBr d a .recv)
  | "br.responses.close", _ => some (fBr d a .respClose)
  | "br.done.close", _ => some (fBr d a .doneClose)
  | "br.conn.close", _ => some (fBr d a .connClose)
  | "br.close.notconn", _ => some (fBr d a .closeNotConn)
  | _, _ => none

def step (d : DS) (t : List String) : DS × String :=
  match t with
  | ["lreset", _tag] => ({}, "ok")
  | ["lc", _tag, ev, key, a, b] =>
    if d.failed then (d, "ok") else
    match apply d ev key (nat! a) (nat! b) with
    | none => (d, "bad-op")
    | some (.ok d') => (d', "ok")
    | some (.error m) => ({ d with failed := true }, s!"reject: {m}")
  | _ => (d, "bad-op")

end Driver.LifecycleTrace
