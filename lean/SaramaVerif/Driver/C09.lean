import SaramaVerif.Driver.Util
import SaramaVerif.Model.CodecMachine
import SaramaVerif.Model.CodecRecords
import SaramaVerif.Model.CodecSchemas
/-
  Line-protocol driver for C09 (see harness/cmd/c09/main.go for the producer of the lines).

    enc  <tok>…                 → <prepLength> <hex>          the call sequence of an encode(), both passes
    dec  <hex> <dtok>…          → <out>… off=<n> | … ERR      the call sequence of a decode() on these bytes
    rec  <record>               → <prepLength> <hex>
    drec <hex>                  → ok <record> rest=<n> | err
    batch <fields> lv=<level> cz=<hex|-> <record>…   → <prepLength> <hex> <hex of the uncompressed records>
    dbatch cz=<comp>:<raw> <hex>          → ok <fields> <record>… rest=<n> | partial | err
    mset cz=<raw>:<comp>,… <block>…       → <hex>
    dmset cz=<comp>:<raw>,… <hex>         → ok p=<0|1> o=<0|1> rest=<n> <block>… | err
    kind <hex>                  → legacy | default | none
    const <name>                → value of the model's constant
    schema <Body> <ver> <tok>…  → <size> <hex> rt=ok   (schema interpreters size / enc / dec on the parsed value)
    dschema <Body> <ver> <hex>  → <out>… off=<n>       (schema decoder on the real bytes, as decode-call results)
-/
namespace Driver.C09
open Model.Codec Driver

def splitKV (s : String) (sep : Char) : String × String :=
  match s.splitOn (String.singleton sep) with
  | [] => ("", "")
  | k :: rest => (k, (String.singleton sep).intercalate rest)

def optBytes (s : String) : Option Bytes := if s = "N" then none else some (hexBytes s)
def showOptBytes : Option Bytes → String
  | none => "N"
  | some b => showHex b

def bytesVal (s : String) : Val := if s = "N" then .null else .bytes (hexBytes s)

def intsVal (s : String) : Val :=
  if s = "N" then .null else .list ((intList s).map Val.int)

def strsVal (s : String) : Val :=
  if s = "-" then .list [] else .list ((s.splitOn ",").map (fun e => Val.bytes (if e = "_" then [] else hexBytes e)))

def parseTok (t : String) : Option Tok :=
  let (k, v) := splitKV t ':'
  match k with
  | "i8" => some (.prim .i8 (.int (int! v)))
  | "i16" => some (.prim .i16 (.int (int! v)))
  | "i32" => some (.prim .i32 (.int (int! v)))
  | "i64" => some (.prim .i64 (.int (int! v)))
  | "vi" => some (.prim .varint (.int (int! v)))
  | "uv" => some (.prim .uvarint (.int (int! v)))
  | "bo" => some (.prim .bool (.int (int! v)))
  | "al" => some (.arrLen (int! v))
  | "cal" => some (.cArrLen (int! v))
  | "by" => some (.prim .bytes (bytesVal v))
  | "vb" => some (.prim .vbytes (bytesVal v))
  | "cb" => some (.prim .cbytes (.bytes (if v = "N" then [] else hexBytes v)))
  | "rb" => some (.prim (.raw (hexBytes v).length) (.bytes (hexBytes v)))
  | "st" => some (.prim .str (bytesVal v))
  | "ns" => some (.prim .nstr (bytesVal v))
  | "cs" => some (.prim .cstr (bytesVal v))
  | "ncs" => some (.prim .ncstr (bytesVal v))
  | "sa" => some (.prim .strarr (strsVal v))
  | "a4" => some (.prim .i32arr (intsVal v))
  | "a8" => some (.prim .i64arr (intsVal v))
  | "ca4" => some (.prim .ci32arr (intsVal v))
  | "nca4" => some (.prim .nci32arr (intsVal v))
  | "tg" => some (.prim .tagged .unit)
  | "pl" => some (.push .len32 0)
  | "pc0" => some (.push (.crc .ieee) 0)
  | "pc1" => some (.push (.crc .castagnoli) 0)
  | "pv" => some (.push .varlen (int! v))
  | "pop" => some .pop
  | _ => none

def parseAll {α : Type} (p : String → Option α) : List String → Option (List α)
  | [] => some []
  | t :: ts =>
    match p t, parseAll p ts with
    | some x, some xs => some (x :: xs)
    | _, _ => none

def parseDTok (t : String) : Option DTok :=
  let (k, v) := splitKV t ':'
  match k with
  | "i8" => some (.prim .i8)
  | "i16" => some (.prim .i16)
  | "i32" => some (.prim .i32)
  | "i64" => some (.prim .i64)
  | "vi" => some (.prim .varint)
  | "uv" => some (.prim .uvarint)
  | "bo" => some (.prim .bool)
  | "al" => some .arrLen
  | "cal" => some .cArrLen
  | "by" => some (.prim .bytes)
  | "vb" => some (.prim .vbytes)
  | "cb" => some (.prim .cbytes)
  | "st" => some (.prim .str)
  | "ns" => some (.prim .nstr)
  | "cs" => some (.prim .cstr)
  | "ncs" => some (.prim .ncstr)
  | "sa" => some (.prim .strarr)
  | "a4" => some (.prim .i32arr)
  | "a8" => some (.prim .i64arr)
  | "nca4" => some (.prim .nci32arr)
  | "tg" => some (.prim .tagged)
  | "rw" => some (.raw (int! v))
  | "rem" => some .remaining
  | "pk" => some (.peek8 (int! v))
  | "pl" => some (.push .len32)
  | "pc0" => some (.push (.crc .ieee))
  | "pc1" => some (.push (.crc .castagnoli))
  | "pv" => some (.push .varlen)
  | "pop" => some .pop
  | _ => none

partial def showVal : Val → String
  | .int i => toString i
  | .bytes b => showHex b
  | .null => "N"
  | .unit => "ok"
  | .pair a b => showVal a ++ "+" ++ showVal b
  | .list vs =>
    if vs.isEmpty then "-" else
    ",".intercalate (vs.map (fun v => match v with
      | .bytes [] => "_"
      | w => showVal w))

def showOut : DOut → String
  | .val v => showVal v
  | .int i => toString i
  | .ok => "ok"
  | .err => "ERR"

/-! records -/

def parseHeaders (s : String) : List (Option Bytes × Option Bytes) :=
  if s = "-" then [] else (s.splitOn ",").map (fun e => let (k, v) := splitKV e ':'; (optBytes k, optBytes v))

def showHeaders (hs : List (Option Bytes × Option Bytes)) : String :=
  if hs.isEmpty then "-" else ",".intercalate (hs.map (fun h => showOptBytes h.1 ++ ":" ++ showOptBytes h.2))

/-- `attr;tsDelta;offDelta;key;value;headers` -/
def parseRecord (s : String) : Option Record :=
  match s.splitOn ";" with
  | [a, t, o, k, v, h] => some ⟨int! a, int! t, int! o, optBytes k, optBytes v, parseHeaders h⟩
  | _ => none

def showRecord (r : Record) : String :=
  ";".intercalate [toString r.attributes, toString r.timestampDelta, toString r.offsetDelta,
    showOptBytes r.key, showOptBytes r.value, showHeaders r.headers]

def b01 (b : Bool) : String := if b then "1" else "0"

/-- `fo;ple;magic;codec;ctl;lat;tx;lod;fts;mts;pid;pe;fs` -/
def parseBatchHdr (s : String) (rs : List Record) : Option Batch :=
  match s.splitOn ";" with
  | [fo, ple, magic, codec, ctl, lat, tx, lod, fts, mts, pid, pe, fs] =>
    some { firstOffset := int! fo, partitionLeaderEpoch := int! ple, magic := int! magic, codec := int! codec,
           control := ctl = "1", logAppendTime := lat = "1", isTransactional := tx = "1", lastOffsetDelta := int! lod,
           firstTimestamp := int! fts, maxTimestamp := int! mts, producerID := int! pid, producerEpoch := int! pe,
           firstSequence := int! fs, records := rs }
  | _ => none

def showBatchHdr (b : Batch) : String :=
  ";".intercalate [toString b.firstOffset, toString b.partitionLeaderEpoch, toString b.magic, toString b.codec,
    b01 b.control, b01 b.logAppendTime, b01 b.isTransactional, toString b.lastOffsetDelta, toString b.firstTimestamp,
    toString b.maxTimestamp, toString b.producerID, toString b.producerEpoch, toString b.firstSequence]

/-- table of (input, output) pairs standing for a compression library on this line -/
def parsePairs (s : String) : List (Bytes × Bytes) :=
  if s = "-" ∨ s = "" then [] else (s.splitOn ",").map (fun e => let (a, b) := splitKV e ':'; (hexBytes a, hexBytes b))

def lookupLib (tbl : List (Bytes × Bytes)) (x : Bytes) : Option Bytes :=
  match tbl.find? (fun e => e.1 == x) with
  | some e => some e.2
  | none => none

def compLib (tbl : List (Bytes × Bytes)) : Int → Bytes → Bytes := fun _ x => (lookupLib tbl x).getD []
def decompLib (tbl : List (Bytes × Bytes)) : Int → Bytes → Option Bytes := fun _ x => lookupLib tbl x

/-- `off;magic;codec;level;lat;ts;key;value` (the compression level is not part of the model) -/
def parseBlock (s : String) : Option Block :=
  match s.splitOn ";" with
  | [off, magic, codec, _, lat, ts, k, v] =>
    some (int! off, { magic := int! magic, codec := int! codec, logAppendTime := lat = "1", timestamp := int! ts,
                      key := optBytes k, value := optBytes v })
  | _ => none

def showBlock (b : Block) : String :=
  ";".intercalate [toString b.1, toString b.2.magic, toString b.2.codec, b01 b.2.logAppendTime, toString b.2.timestamp,
    showOptBytes b.2.key, showOptBytes b.2.value]

def cz (t : String) : String := (splitKV t '=').2

/-- what the calls of a decode() return, in order, for a value of a schema (counts, then elements; `ok` for
    tagged sections and push/pop) -/
partial def flatOuts : Fmt → Nat → Val → List String
  | .prim _, _, v => [showVal v]
  | .unit, _, _ => []
  | .seq a b, ver, .pair x y => flatOuts a ver x ++ flatOuts b ver y
  | .seq _ _, _, _ => ["?"]
  | .ite lo hi a b, ver, v => if lo ≤ ver ∧ ver ≤ hi then flatOuts a ver v else flatOuts b ver v
  | .arr _ e, ver, .list vs => toString vs.length :: (vs.map (flatOuts e ver)).flatten
  | .arr _ _, _, .null => ["-1"]
  | .arr _ _, _, _ => ["?"]
  | .len32 f, ver, v => "ok" :: flatOuts f ver v ++ ["ok"]
  | .varlen f, ver, v => "ok" :: flatOuts f ver v ++ ["ok"]
  | .crc _ f, ver, v => "ok" :: flatOuts f ver v ++ ["ok"]

/-- `dschema`: the schema's decoder on the real bytes, printed as the results of the decode calls -/
def dschemaAnswer (name : String) (ver : Nat) (bytes : Bytes) : String :=
  match bodySchema name with
  | none => "no-schema"
  | some f =>
    match dec f ver bytes with
    | some (v, rest) => " ".intercalate (flatOuts f ver v ++ [s!"off={bytes.length - rest.length}"])
    | none => "ERR"

partial def valEq : Val → Val → Bool
  | .int a, .int b => a == b
  | .bytes a, .bytes b => a == b
  | .null, .null => true
  | .unit, .unit => true
  | .pair a b, .pair c d => valEq a c && valEq b d
  | .list as, .list bs => as.length == bs.length && (as.zip bs).all (fun ab => valEq ab.1 ab.2)
  | _, _ => false

/-- `schema`: the recorded calls, read as a value of the body's schema, through `size` / `enc` / `dec` -/
def schemaAnswer (name : String) (ver : Nat) (toks : List Tok) : String :=
  match bodySchema name with
  | none => "no-schema"
  | some f =>
    match parseToks f ver toks with
    | some (v, []) =>
      let bytes := enc f ver v
      let rt := WT f ver v && (match dec f ver bytes with
                               | some (v', []) => valEq v v'
                               | _ => false)
      s!"{size f ver v} {showHex bytes} rt={if rt then "ok" else "FAIL"}"
    | _ => "schema-mismatch"

def step (_ : Unit) (t : List String) : Unit × String :=
  match t with
  | "enc" :: ts =>
    (match parseAll parseTok ts with
     | none => ((), "bad-op")
     | some toks =>
       let r := runEncode toks
       ((), s!"{r.1} {showHex r.2}"))
  | "dec" :: hex :: ts =>
    (match parseAll parseDTok ts with
     | none => ((), "bad-op")
     | some dtoks =>
       let s := runDecode (hexBytes hex) dtoks
       let outs := " ".intercalate (s.outs.reverse.map showOut)
       ((), if s.failed then outs else (if outs = "" then "" else outs ++ " ") ++ s!"off={s.off}"))
  | ["rec", r] =>
    (match parseRecord r with
     | none => ((), "bad-op")
     | some rec => ((), s!"{sizeRecord rec} {showHex (encRecord rec)}"))
  | ["drec", hex] =>
    (match decRecord (hexBytes hex) with
     | none => ((), "err")
     | some (r, rest) => ((), s!"ok {showRecord r} rest={rest.length}"))
  | "batch" :: hdr :: _ :: c :: rs =>
    (match parseAll parseRecord rs with
     | none => ((), "bad-op")
     | some recs =>
       match parseBatchHdr hdr recs with
       | none => ((), "bad-op")
       | some b =>
         let raw := encRecords recs
         let lib : Int → Bytes → Bytes := fun _ _ => hexBytes (cz c)
         ((), s!"{sizeBatch (compress lib) b} {showHex (encBatch (compress lib) b)} {showHex raw}"))
  | ["dbatch", c, hex] =>
    (match decBatch (decompress (decompLib (parsePairs (cz c)))) (hexBytes hex) with
     | none => ((), "err")
     | some (b, rest) =>
       if b.partialTrailing then ((), "partial")
       else ((), "ok " ++ showBatchHdr b ++ " " ++ " ".intercalate (b.records.map showRecord) ++ s!" rest={rest.length}"))
  | "mset" :: c :: bs =>
    (match parseAll parseBlock bs with
     | none => ((), "bad-op")
     | some blocks => ((), showHex (encSet (compress (compLib (parsePairs (cz c)))) blocks)))
  | ["dmset", c, hex] =>
    let d := decompress (decompLib (parsePairs (cz c)))
    let bytes := hexBytes hex
    (match decSet d (innerOKd d 4) (bytes.length + 1) bytes with
     | none => ((), "err")
     | some r =>
       ((), s!"ok p={b01 r.partialTrailing} o={b01 r.overflow} rest={r.rest.length} " ++
            " ".intercalate (r.blocks.map showBlock)))
  | "schema" :: name :: ver :: ts =>
    (match parseAll parseTok ts with
     | none => ((), "bad-op")
     | some toks => ((), schemaAnswer name (nat! ver) toks))
  | ["const", name] =>
    ((), if name = "maximumRecordOverhead" then toString maximumRecordOverhead
         else if name = "recordBatchOverhead" then toString recordBatchOverhead else "bad-op")
  | ["dschema", name, ver, hex] => ((), dschemaAnswer name (nat! ver) (hexBytes hex))
  | ["kind", hex] =>
    ((), match recordsKind (hexBytes hex) with
         | none => "none"
         | some .legacy => "legacy"
         | some .default => "default")
  | _ => ((), "bad-op")

end Driver.C09

def main : IO Unit := do
  Driver.loop (← IO.getStdin) (← IO.getStdout) Driver.C09.step ()
