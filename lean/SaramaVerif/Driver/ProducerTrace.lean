import SaramaVerif.Driver.Util
import SaramaVerif.Model.Producer
import SaramaVerif.Model.IdemBroker
import SaramaVerif.Model.PartProd
import SaramaVerif.Model.BrokerProd
/-
  Replays hook-event traces of the real async producer through Model.Producer.step (trace validation).
  Lines:  reset <retryMax> <icepts> <idem>   |   ev <kind> <id> <a> <b>   |   end <closedSeen>
  Answer: ok | reject: <reason>   (after a rejection the rest of the scenario is answered ok: one difference per scenario)
-/
namespace Driver.ProducerTrace
open Model.Producer Driver

def getB (l : List (Int × Model.IdemBroker.PState)) (p : Int) : Model.IdemBroker.PState :=
  match l.find? (fun x => x.1 = p) with
  | some x => x.2
  | none => {}

def setB (l : List (Int × Model.IdemBroker.PState)) (p : Int) (s : Model.IdemBroker.PState) :
    List (Int × Model.IdemBroker.PState) :=
  (p, s) :: l.filter (fun x => x.1 ≠ p)

def getPP (l : List (Int × Model.PartProd.St × List Model.PartProd.Action)) (p : Int) :
    Model.PartProd.St × List Model.PartProd.Action :=
  match l.find? (fun x => x.1 = p) with
  | some x => x.2
  | none => ({}, [])

def setPP (l : List (Int × Model.PartProd.St × List Model.PartProd.Action)) (p : Int)
    (v : Model.PartProd.St × List Model.PartProd.Action) : List (Int × Model.PartProd.St × List Model.PartProd.Action) :=
  (p, v) :: l.filter (fun x => x.1 ≠ p)

/-- the partition-producer part of an event: `none` = not a partition-producer event -/
def ppObserved (kind : String) (id a b : Int) : Option Model.PartProd.Action :=
  match kind with
  | "pp.buf" => some (.park id)
  | "pp.fwd" => some (.emit id a.toNat false)
  | "pp.fail" => some (.emit id a.toNat false)
  | "wg.add.fin" => some (.finSend (b.toNat - 1))
  | "wg.done.fin" => some .finDone
  | _ => none

/-- validate one event against the partition-producer model; returns the new table or a rejection -/
def ppCheck (d : List (Int × Model.PartProd.St × List Model.PartProd.Action)) (kind : String) (id a b p : Int) :
    Except String (List (Int × Model.PartProd.St × List Model.PartProd.Action)) :=
  if kind = "pp.recv" then
    let (st, q) := getPP d p
    if ¬ q.isEmpty then .error s!"pp.recv on partition {p} while the model still expects {(repr q).pretty 1000000}"
    else
      let r := Model.PartProd.recv st { id := id, retries := a.toNat, fin := (b.toNat / 2) % 2 = 1 }
      .ok (setPP d p r)
  else
    let part := if kind = "wg.add.fin" then a else p
    match ppObserved kind id a b with
    | none => .ok d
    | some act =>
      let (st, q) := getPP d part
      match q with
      | [] => .error s!"partition producer {part}: unexpected {(repr act).pretty 1000000}"
      | x :: rest =>
        let same : Bool := match x, act with
          | .emit i l _, .emit j m _ => i == j && l == m      -- the fin flag is not carried by pp.fwd events
          | _, _ => x == act
        if same then .ok (setPP d part (st, rest))
        else .error s!"partition producer {part}: expected {(repr x).pretty 1000000}, observed {(repr act).pretty 1000000}"

/-! ### broker workers (Model.BrokerProd)

  Every broker worker of the scenario is replayed through `Model.BrokerProd.step`: each input of its run loop
  (bp.recv, bp.handover, bp.resp … bp.resp.end) is fed to the model and the actions the real worker takes until
  its next input (wg.done.syn, bp.bounce, bp.add, retry, ret.err, ret.succ, bp.drop, bp.closing) must equal the
  model's.  What the hooks do not say is reconstructed:
    * syn / fin of a marker token: from the partition producer's announcement (wg.add.syn / wg.add.fin) - per
      partition, announcements and arrivals are in the same order (one sender, unbuffered channel);
    * which worker an event belongs to: token events by the worker that took the token in (bp.recv), tokens of a
      partition go to the worker that acknowledged the partition's last syn; events without a token (bp.handover,
      bp.resp.end, bp.verdict, bp.drop, bp.closing) and the question whether a syn reached the latest worker of
      its broker id or a newly created one are resolved by keeping every consistent attribution alive (`World`s)
      and rejecting only when none is left;
    * (more than 64 consistent attributions: the scenario's broker workers are not checked any further)
    * the parameters of an input that are visible only in the reaction (wouldOverflow, the verdicts and the map
      iteration orders): the check of an input is deferred to the worker's next input (`settle`).
  Idempotent scenarios are not replayed (retryBatch hands sets to other workers' bridges). -/
namespace BPW
open Model.BrokerProd

inductive Pend
  | idle
  | eager (exp : List Action)     -- model already stepped; these (normalised) actions must be observed
  | recvTok (t : Tok)             -- token taken in; `overflow` is read off the reaction
  | respList (ids : List Int)     -- bp.resp events of the answered set are being listed
  | resp                          -- bp.resp.end seen; verdicts and reactions are being collected

structure BW where
  key : Nat
  broker : Int
  st : Model.BrokerProd.St := {}
  pend : Pend := .idle
  obs : List Action := []         -- observed since the pending input, newest first
  verd : List (Int × Int) := []   -- bp.verdict (partition, code), newest first
  closedAt : Option Nat := none   -- clock of the first event of this worker after its abandonBrokerConnection

structure World where
  ws : List BW := []
  att : List (Int × Nat) := []        -- partition → worker that took the partition's last syn
  holder : List (Int × Nat) := []     -- token id → worker holding it
  marks : List (Int × Kind × Nat) := []  -- announced markers (partition, kind, clock of the partition producer's previous event), oldest first
  known : List (Int × Kind) := []     -- marker id → kind
  next : Nat := 0
  clock : Nat := 0                    -- number of events seen
  lastPP : List (Int × Nat) := []     -- partition → clock of the last event of its partition producer

def assocSet {α : Type} (l : List (Int × α)) (k : Int) (v : α) : List (Int × α) := (k, v) :: l.filter (fun x => x.1 != k)
def assocDel {α : Type} (l : List (Int × α)) (k : Int) : List (Int × α) := l.filter (fun x => x.1 != k)

def getW (wd : World) (k : Nat) : Option BW := wd.ws.find? (fun x => x.key == k)
def putW (wd : World) (w : BW) : World := { wd with ws := wd.ws.map (fun x => if x.key == w.key then w else x) }
def holderOf (wd : World) (id : Int) : Option BW := (wd.holder.lookup id).bind (getW wd)

/-- what the hooks can show of an action list: abandonBrokerConnection has no hook, and a spent retry budget
    and a returned error are both `ret.err` -/
def norm (as : List Action) : List Action :=
  as.filterMap fun
    | .abandon => none
    | .expire i p _ => some (.fail i p)
    | a => some a

def actId : Action → Option Int
  | .refuse i | .requeue i _ _ _ | .expire i _ _ | .add i _ | .succ i _ | .fail i _ => some i
  | _ => none

def name (w : BW) : String := s!"broker worker {w.broker}#{w.key}"

/-- one-line rendering (a rejection is one line of the protocol) -/
def showAct : Action → String
  | .ackSyn p => s!"ackSyn(p{p})"
  | .refuse i => s!"refuse({i})"
  | .requeue i p r f => s!"requeue({i},p{p},retries={r}{if f then ",fin" else ""})"
  | .expire i p f => s!"expire({i},p{p}{if f then ",fin" else ""})"
  | .add i p => s!"add({i},p{p})"
  | .succ i p => s!"succ({i},p{p})"
  | .fail i p => s!"fail({i},p{p})"
  | .drop p => s!"drop(p{p})"
  | .closing => "closing"
  | .abandon => "abandon"
  | .disabled => "disabled"

def showActs (l : List Action) : String := "[" ++ " ".intercalate (l.map showAct) ++ "]"
def showInts (l : List Int) : String := "[" ++ " ".intercalate (l.map toString) ++ "]"

def cmp (final : Bool) (w : BW) (st' : Model.BrokerProd.St) (exp obs : List Action) : Except String BW :=
  if exp.contains .disabled then .error s!"{name w}: input not enabled in the model state"
  else if (if final then obs.isPrefixOf exp else obs == exp) then .ok { w with st := st', pend := .idle, obs := [], verd := [] }
  else .error s!"{name w}: expected {showActs exp}, observed {showActs obs}"

/-- reconstruct the response input from what was observed -/
def respOf (w : BW) (sent : List Tok) (obs : List Action) : Except String Resp :=
  let verd := w.verd.reverse
  let waitId := w.st.wait.map (·.id)
  let core := obs.filter (fun a => actId a != waitId || waitId.isNone)
  if obs.contains .closing then
    let leaves := core.filterMap fun | .requeue _ p _ _ => some p | .fail _ p => some p | _ => none
    .ok (.connErr (leaves.take sent.length) (leaves.drop sent.length))
  else if verd.isEmpty then
    if core.any (fun | .fail _ _ => true | _ => false) then
      .ok (.encErr (core.filterMap fun | .fail _ p => some p | _ => none))
    else .ok (.verdicts (fun _ => .ok) (core.filterMap fun | .succ _ p => some p | _ => none) [])
  else
    match (partsOf sent).find? (fun p => (verd.lookup p).isNone) with
    | some p => .error s!"{name w}: no verdict observed for partition {p} of the answered set"
    | none =>
      .ok (.verdicts (fun p => match verd.lookup p with | some c => classOf c | none => .ok) (verd.map (·.1))
            (obs.filterMap fun | .drop p => some p | _ => none))

/-- feed the pending input of a worker to the model and compare (final: the trace ended, a prefix suffices) -/
def settle (max : Nat) (final : Bool) (w : BW) : Except String BW :=
  let obs := w.obs.reverse
  match w.pend with
  | .idle => if obs.isEmpty then .ok w else .error s!"{name w}: unexpected {showActs obs}"
  | .eager exp => cmp final w w.st exp obs
  | .recvTok t =>
    if final && obs.isEmpty then .ok { w with pend := .idle }
    else
      let r := Model.BrokerProd.step max w.st (.recv t obs.isEmpty)
      cmp final w r.1 (norm r.2) obs
  | .respList _ => if final then .ok { w with pend := .idle, obs := [] } else .error s!"{name w}: response listing not terminated"
  | .resp =>
    match w.st.sets with
      | [] => .error s!"{name w}: response without a set in flight"
      | sent :: _ =>
        match respOf w sent obs with
        | .error m => if final then .ok { w with pend := .idle, obs := [], verd := [] } else .error m
        | .ok r =>
          let still := match w.st.wait with
            | some t => !(obs.contains (.add t.id t.part))
            | none => false
          let x := Model.BrokerProd.step max w.st (.resp r still)
          cmp final w x.1 (norm x.2) obs

def pristine (max : Nat) (w : BW) : Bool :=
  match settle max false w with
  | .ok w' => !w'.st.closing && w'.st.buffer.isEmpty && w'.st.sets.isEmpty && w'.st.wait.isNone
  | .error _ => false

/-- push an observed action to the worker that holds token `id`; `leave` = the token is gone afterwards -/
def observe (wd : World) (id : Int) (act : Action) (leave must : Bool) : List (Except String World) :=
  match holderOf wd id with
  | none => if must then [.error s!"broker worker event {showAct act} for a token no worker holds"] else [.ok wd]
  | some w =>
    let ca : Option Nat := if w.closedAt.isNone && w.obs.contains .closing then some wd.clock else w.closedAt
    let wd' := putW wd { w with obs := act :: w.obs, closedAt := ca }
    [.ok (if leave then { wd' with holder := assocDel wd'.holder id } else wd')]

def orErr (l : List (Except String World)) (m : String) : List (Except String World) :=
  if l.isEmpty then [.error m] else l

/-- no worker of this scenario fits: the event is a stray one (see bp.resp.end below) and is ignored -/
def orStray (l : List (Except String World)) (wd : World) : List (Except String World) :=
  if l.isEmpty then [.ok wd] else l

/-- one hook event in one world: every consistent continuation (or an error) -/
def wstep (max : Nat) (wd : World) (kind : String) (id a b p : Int) : List (Except String World) :=
  match kind with
  | "wg.add.syn" => [.ok { wd with marks := wd.marks ++ [(a, Kind.syn, (wd.lastPP.lookup a).getD 0)] }]
  | "wg.add.fin" => [.ok { wd with marks := wd.marks ++ [(a, Kind.fin, 0)] }]
  | "bp.recv" =>
    let kd : Except String (Kind × Nat × World) :=
      if id > 0 then .ok (.data, 0, wd)
      else match wd.known.lookup id with
        | some k => .ok (k, 0, wd)
        | none =>
          match wd.marks.find? (fun x => x.1 == p) with
          | some x => .ok (x.2.1, x.2.2, { wd with marks := wd.marks.eraseP (fun x => x.1 == p), known := (id, x.2.1) :: wd.known })
          | none => .error s!"bp.recv of marker {id} for partition {p} that no partition producer announced"
    match kd with
    | .error m => [.error m]
    | .ok (k, since, wd) =>
      let tok : Tok := { id := id, part := p, retries := a.toNat, kind := k }
      let deliver (w : BW) (wd : World) : Except String World :=
        match settle max false w with
        | .error m => .error m
        | .ok w' =>
          let ca : Option Nat := if w'.closedAt.isNone && w'.st.closing then some wd.clock else w'.closedAt
          let wd := putW wd { w' with pend := Pend.recvTok tok, closedAt := ca }
          .ok { wd with holder := assocSet wd.holder id w.key,
                        att := if k == .syn then assocSet wd.att p w.key else wd.att }
      if k == .syn then
        let fresh : BW := { key := wd.next, broker := b }
        let wdNew : World := { wd with ws := wd.ws ++ [fresh], next := wd.next + 1 }
        -- the partition producer took its worker when it announced the syn: any worker of this broker id that
        -- exists by now, or one that this world has not seen yet.  A worker in the initial state (up to
        -- currentRetries, which the syn resets for this partition) behaves like a new one: one representative.
        -- Not a candidate: a worker that had finished abandonBrokerConnection (it was seen acting after its
        -- bp.closing) before the partition producer's last event preceding the announcement - it was no longer
        -- registered when the partition producer asked for a worker.
        let cands := (wd.ws.filter (fun w => w.broker == b &&
                        !(match w.closedAt with | some j => decide (j < since) | none => false))).reverse
        let used := cands.filter (fun w => !pristine max w)
        let blank := match cands.find? (pristine max) with
          | some l => deliver l wd
          | none => deliver fresh wdNew
        (used.filter (fun w => !w.st.closing)).map (fun w => deliver w wd) ++ [blank] ++
          (used.filter (fun w => w.st.closing)).map (fun w => deliver w wd)
      else
        match (wd.att.lookup p).bind (getW wd) with
        | none => [.error s!"token {id} of partition {p} at broker {b}, but the partition is attached to no worker"]
        | some w =>
          if w.broker != b then [.error s!"token {id} of partition {p} at broker {b}, but the partition is attached to {name w}"]
          else [deliver w wd]
  | "wg.done.syn" => observe wd id (.ackSyn a) true true
  | "bp.bounce" => observe wd id (.refuse id) false true
  | "bp.add" => observe wd id (.add id p) false true
  | "retry" => observe wd id (.requeue id p a.toNat ((b.toNat / 2) % 2 == 1)) true false
  | "ret.err" => observe wd id (.fail id p) true false
  | "ret.succ" => observe wd id (.succ id p) true false
  | "bp.handover" =>
    -- (workers with something in the buffer first: the order of the alternatives is the order of plausibility)
    orErr (((wd.ws.filter (fun w => w.broker == a && !w.st.buffer.isEmpty)) ++
            (wd.ws.filter (fun w => w.broker == a && w.st.buffer.isEmpty))).map fun w =>
      match settle max false w with
      | .error m => .error m
      | .ok w' =>
        if (b == 2) != w'.st.wait.isSome then .error s!"{name w}: bp.handover site {b} does not fit waitForSpace state"
        else
          let r := Model.BrokerProd.step max w'.st .handover
          if r.2.contains .disabled then .error s!"{name w}: handover while a set is in flight"
          else .ok (putW wd { w' with st := r.1, pend := .eager (norm r.2) }))
      s!"bp.handover at broker {a} without a worker"
  | "bp.resp" =>
    match holderOf wd id with
    | none => [.error s!"bp.resp lists token {id} that no worker holds"]
    | some w =>
      if w.broker != a then [.error s!"bp.resp at broker {a} lists token {id} held by {name w}"]
      else match w.pend with
        | .respList ids => [.ok (putW wd { w with pend := .respList (ids ++ [id]) })]
        | _ =>
          match settle max false w with
          | .error m => [.error m]
          | .ok w' => [.ok (putW wd { w' with pend := .respList [id] })]
  | "bp.resp.end" =>
    -- the listed set must be the set in flight (an empty set has no bp.resp events at all).
    -- When no worker has a listed or an empty set in flight the event is ignored: the harness runs the scenarios
    -- of a process one after the other with one global hook sink, and a producer that was closed while an EMPTY
    -- produce set was still at its bridge (the stale-`output` hand-over) reports the answer - bp.answered.end,
    -- bp.resp.end, bp.closing - into the NEXT scenario's trace.
    orStray ((wd.ws.filter (fun w => w.broker == a)).filterMap fun w =>
      match w.pend with
      | .respList ids =>
        match w.st.sets with
        | sent :: _ =>
          let ord := ids.filterMap (fun i => (sent.find? (fun t => t.id == i)).map (·.part))
          if (arrange (ord ++ partsOf sent) sent).map (·.id) == ids then some (.ok (putW wd { w with pend := .resp, obs := [], verd := [] }))
          else some (.error s!"{name w}: response for {showInts ids}, but the set in flight is {showInts (sent.map (·.id))}")
        | [] => some (.error s!"{name w}: response without a set in flight")
      | .resp => none
      | _ =>
        match settle max false w with
        | .ok w' => match w'.st.sets with
          | [] :: _ => some (.ok (putW wd { w' with pend := .resp, obs := [], verd := [] }))
          | _ => none
        | .error _ => none)
      wd
  | "bp.verdict" =>
    orErr ((wd.ws.filter (fun w => (match w.pend, w.st.sets with
        | .resp, sent :: _ => (partsOf sent).contains a && (w.verd.lookup a).isNone
        | _, _ => false))).map fun w => .ok (putW wd { w with verd := (a, b) :: w.verd }))
      s!"bp.verdict for partition {a} fits no worker that is handling a response"
  | "bp.drop" =>
    orErr ((wd.ws.filter (fun w => w.broker == b && (match w.pend with | .resp => true | _ => false)
        && (w.verd.lookup a).isSome)).map fun w => .ok (putW wd { w with obs := .drop a :: w.obs }))
      s!"bp.drop of partition {a} at broker {b} fits no worker that is handling a response"
  | "bp.closing" =>
    orStray ((wd.ws.filter (fun w => w.broker == a && (match w.pend with | .resp => true | _ => false)
        && w.obs.isEmpty && w.verd.isEmpty)).map fun w => .ok (putW wd { w with obs := [.closing] }))
      wd
  | _ => [.ok wd]

/-- end of the trace: every pending input must be consistent with a prefix of the model's reaction -/
def wend (max : Nat) (wd : World) : Except String World :=
  match wd.ws.filterMap (fun w => match settle max true w with | .error m => some m | .ok _ => none) with
  | m :: _ => .error m
  | [] => .ok wd

def successes (l : List (Except String World)) : List World :=
  l.filterMap fun | .ok w => some w | .error _ => none

def firstError (l : List (Except String World)) : String :=
  match l.filterMap (fun | .error m => some m | .ok _ => none) with
  | m :: _ => m
  | [] => "no consistent attribution"

def worldCap : Nat := 64

/-- advance the clock; remember when each partition producer was last seen -/
def tick (wd : World) (kind : String) (a p : Int) : World :=
  let pp : Option Int :=
    if kind == "wg.add.syn" || kind == "wg.add.fin" then some a
    else if kind == "pp.recv" || kind == "pp.buf" || kind == "pp.fwd" || kind == "pp.fail" || kind == "pp.abandon"
         || kind == "pp.seq" || kind == "wg.done.fin" then some p
    else none
  match pp with
  | some q => { wd with clock := wd.clock + 1, lastPP := assocSet wd.lastPP q wd.clock }
  | none => { wd with clock := wd.clock + 1 }

/-- all worlds, one event.  `.ok []` = too many attributions are consistent: the broker workers of this scenario
    are not checked any further (never a rejection). -/
def bpCheck (max : Nat) (wds : List World) (kind : String) (id a b p : Int) : Except String (List World) :=
  if wds.isEmpty then .ok []
  else
    let r := wds.flatMap (fun wd => (wstep max wd kind id a b p).map (fun x => x.map (fun w => tick w kind a p)))
    match successes r with
    | [] => .error (firstError r)
    | l => if l.length > worldCap then .ok [] else .ok l

def bpEnd (max : Nat) (wds : List World) : Except String Unit :=
  if wds.isEmpty then .ok ()
  else
    let r := wds.map (wend max)
    match successes r with
    | [] => .error (firstError r)
    | _ => .ok ()

end BPW

structure DS where
  st : St
  failed : Bool
  brokers : List (Int × Model.IdemBroker.PState) := []   -- partition → leader state for the scenario's producer id
  pps : List (Int × Model.PartProd.St × List Model.PartProd.Action) := []  -- partition → partition-producer state, expected actions
  rmax : Nat := 0                  -- Producer.Retry.Max of the scenario
  bpOn : Bool := false             -- broker workers are replayed (not idempotent)
  bws : List BPW.World := [{}]     -- consistent attributions of the events to broker workers

def showVerdict : Model.IdemBroker.Verdict → String
  | .appended b => s!"app {b}"
  | .duplicate b => s!"dup {b}"
  | .outOfOrder => "ooo"
  | .fenced => "fenced"

def toEv (kind : String) (id a : Int) : Option Ev :=
  match kind with
  | "d.accept" => some (.accept id)
  | "d.reject" => some (.reject id)
  | "d.icept" => some (.icept id)
  | "d.pass" => some (.pass id a.toNat)
  | "d.shutdown" => some .shutdownSeen
  | "wg.add.syn" => some (.wgAdd false)
  | "wg.add.fin" => some (.wgAdd false)
  | "wg.add.shutdown" => some (.wgAdd true)
  | "wg.done.syn" => some (.wgDone id)
  | "wg.done.fin" => some (.wgDone id)
  | "retry" => some (.retry id a.toNat)
  | "retrybatch" => some (.retry id a.toNat)
  | "ret.err" => some (.retErr id)
  | "ret.succ" => some (.retSucc id)
  | "pp.seq" => some (.seq id)
  | "wg.waited" => some .waited
  | "close" => some .close
  | "pp.recv" | "pp.buf" | "pp.fwd" | "pp.fail" | "pp.abandon" | "bp.bounce" | "bp.add" | "bp.sent" | "bp.sent.end"
  | "bp.answered" | "bp.answered.end" | "bp.recv" | "bp.handover" | "bp.resp" | "bp.resp.end" | "bp.verdict"
  | "bp.closing" | "bp.drop" | "bp.sent.stamp" | "bp.answered.stamp" | "bp.resp.stamp" => some .other
  | _ => none

def step (d : DS) (t : List String) : DS × String :=
  match t with
  | ["reset", rm, ic, idem] =>
    ({ st := init { retryMax := nat! rm, icepts := nat! ic, idem := idem = "1" }, failed := false, brokers := [], pps := [],
       rmax := nat! rm, bpOn := idem != "1", bws := [{}] }, "ok")
  | ["bb", p, epoch, firstSeq, payloads] =>
    -- one batch arriving at the leader of partition p (simulated cluster ↔ Model.IdemBroker.arrive)
    let st := getB d.brokers (int! p)
    let (st', v) := Model.IdemBroker.arrive st (int! epoch) (nat! firstSeq) (intList payloads)
    ({ d with brokers := setB d.brokers (int! p) st' }, showVerdict v)
  | ["ev", kind, id, a, b, p] =>
    if d.failed then (d, "ok") else
    match toEv kind (int! id) (int! a) with
    | none => ({ d with failed := true }, s!"reject: unknown event kind {kind}")
    | some e =>
      match Model.Producer.step d.st e with
      | .error m => ({ d with failed := true }, s!"reject: {m}")
      | .ok s' =>
        match ppCheck d.pps kind (int! id) (int! a) (int! b) (int! p) with
        | .error m => ({ d with failed := true }, s!"reject: {m}")
        | .ok pps' =>
          if !d.bpOn then ({ d with st := s', pps := pps' }, "ok")
          else match BPW.bpCheck d.rmax d.bws kind (int! id) (int! a) (int! b) (int! p) with
            | .ok bws' => ({ d with st := s', pps := pps', bws := bws' }, "ok")
            | .error m => ({ d with failed := true }, s!"reject: {m}")
  | ["end", c] =>
    if d.failed then (d, "ok")
    else if c = "1" ∧ ¬ d.st.closed then (d, "reject: channels closed without close event")
    else if c = "1" ∧ d.st.live ≠ [] then (d, "reject: closed with live messages")
    else if d.bpOn then
      match BPW.bpEnd d.rmax d.bws with
      | .ok _ => (d, "ok")
      | .error m => (d, s!"reject: {m}")
    else (d, "ok")
  | _ => (d, "bad-op")

def main : IO Unit := do
  Driver.loop (← IO.getStdin) (← IO.getStdout) step { st := init { retryMax := 0, icepts := 0, idem := false }, failed := false }

end Driver.ProducerTrace
