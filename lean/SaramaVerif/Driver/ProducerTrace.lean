import SaramaVerif.Driver.Util
import SaramaVerif.Model.Producer
import SaramaVerif.Model.IdemBroker
import SaramaVerif.Model.PartProd
/-
  Replays hook-event traces of the real async producer through Model.Producer.step (trace validation).
  Lines:  reset <retryMax> <icepts> <idem>   |   ev <kind> <id> <a> <b>   |   end <closedSeen>
  Answer: ok | reject: <reason>   (after a rejection the rest of the scenario is answered ok: one difference per scenario)
-/
namespace Driver.ProducerTrace
open Model.Producer Driver

structure DS where
  st : St
  failed : Bool
  brokers : List (Int × Model.IdemBroker.PState) := []   -- partition → leader state for the scenario's producer id
  pps : List (Int × Model.PartProd.St × List Model.PartProd.Action) := []  -- partition → partition-producer state, expected actions

def getB (l : List (Int × Model.IdemBroker.PState)) (p : Int) : Model.IdemBroker.PState :=
  match l.find? (fun x => x.1 = p) with
  | some x => x.2
  | none => {}

def setB (l : List (Int × Model.IdemBroker.PState)) (p : Int) (s : Model.IdemBroker.PState) :
    List (Int × Model.IdemBroker.PState) :=
  (p, s) :: l.filter (fun x => x.1 ≠ p)

def getPP (l : List (Int × Model.PartProd.St × List Model.PartProd.Action)) (p : Int) :
    Model.PartProd.St × List Model.PartProd.Action :=
  match l.find? (fun x => x.1 = p) with
  | some x => x.2
  | none => ({}, [])

def setPP (l : List (Int × Model.PartProd.St × List Model.PartProd.Action)) (p : Int)
    (v : Model.PartProd.St × List Model.PartProd.Action) : List (Int × Model.PartProd.St × List Model.PartProd.Action) :=
  (p, v) :: l.filter (fun x => x.1 ≠ p)

/-- the partition-producer part of an event: `none` = not a partition-producer event -/
def ppObserved (kind : String) (id a b : Int) : Option Model.PartProd.Action :=
  match kind with
  | "pp.buf" => some (.park id)
  | "pp.fwd" => some (.emit id a.toNat false)
  | "pp.fail" => some (.emit id a.toNat false)
  | "wg.add.fin" => some (.finSend (b.toNat - 1))
  | "wg.done.fin" => some .finDone
  | _ => none

/-- validate one event against the partition-producer model; returns the new table or a rejection -/
def ppCheck (d : List (Int × Model.PartProd.St × List Model.PartProd.Action)) (kind : String) (id a b p : Int) :
    Except String (List (Int × Model.PartProd.St × List Model.PartProd.Action)) :=
  if kind = "pp.recv" then
    let (st, q) := getPP d p
    if ¬ q.isEmpty then .error s!"pp.recv on partition {p} while the model still expects {repr q}"
    else
      let r := Model.PartProd.recv st { id := id, retries := a.toNat, fin := (b.toNat / 2) % 2 = 1 }
      .ok (setPP d p r)
  else
    let part := if kind = "wg.add.fin" then a else p
    match ppObserved kind id a b with
    | none => .ok d
    | some act =>
      let (st, q) := getPP d part
      match q with
      | [] => .error s!"partition producer {part}: unexpected {repr act}"
      | x :: rest =>
        let same : Bool := match x, act with
          | .emit i l _, .emit j m _ => i == j && l == m      -- the fin flag is not carried by pp.fwd events
          | _, _ => x == act
        if same then .ok (setPP d part (st, rest))
        else .error s!"partition producer {part}: expected {repr x}, observed {repr act}"

def showVerdict : Model.IdemBroker.Verdict → String
  | .appended b => s!"app {b}"
  | .duplicate b => s!"dup {b}"
  | .outOfOrder => "ooo"
  | .fenced => "fenced"

def toEv (kind : String) (id a : Int) : Option Ev :=
  match kind with
  | "d.accept" => some (.accept id)
  | "d.reject" => some (.reject id)
  | "d.icept" => some (.icept id)
  | "d.pass" => some (.pass id a.toNat)
  | "d.shutdown" => some .shutdownSeen
  | "wg.add.syn" => some (.wgAdd false)
  | "wg.add.fin" => some (.wgAdd false)
  | "wg.add.shutdown" => some (.wgAdd true)
  | "wg.done.syn" => some (.wgDone id)
  | "wg.done.fin" => some (.wgDone id)
  | "retry" => some (.retry id a.toNat)
  | "retrybatch" => some (.retry id a.toNat)
  | "ret.err" => some (.retErr id)
  | "ret.succ" => some (.retSucc id)
  | "pp.seq" => some (.seq id)
  | "wg.waited" => some .waited
  | "close" => some .close
  | "pp.recv" | "pp.buf" | "pp.fwd" | "pp.fail" | "pp.abandon" | "bp.bounce" | "bp.add" | "bp.sent" | "bp.sent.end"
  | "bp.answered" | "bp.answered.end" | "bp.recv" | "bp.handover" | "bp.resp" | "bp.resp.end" | "bp.verdict"
  | "bp.closing" | "bp.drop" => some .other
  | _ => none

def step (d : DS) (t : List String) : DS × String :=
  match t with
  | ["reset", rm, ic, idem] =>
    ({ st := init { retryMax := nat! rm, icepts := nat! ic, idem := idem = "1" }, failed := false, brokers := [], pps := [] }, "ok")
  | ["bb", p, epoch, firstSeq, payloads] =>
    -- one batch arriving at the leader of partition p (simulated cluster ↔ Model.IdemBroker.arrive)
    let st := getB d.brokers (int! p)
    let (st', v) := Model.IdemBroker.arrive st (int! epoch) (nat! firstSeq) (intList payloads)
    ({ d with brokers := setB d.brokers (int! p) st' }, showVerdict v)
  | ["ev", kind, id, a, b, p] =>
    if d.failed then (d, "ok") else
    match toEv kind (int! id) (int! a) with
    | none => ({ d with failed := true }, s!"reject: unknown event kind {kind}")
    | some e =>
      match Model.Producer.step d.st e with
      | .error m => ({ d with failed := true }, s!"reject: {m}")
      | .ok s' =>
        match ppCheck d.pps kind (int! id) (int! a) (int! b) (int! p) with
        | .ok pps' => ({ d with st := s', pps := pps' }, "ok")
        | .error m => ({ d with failed := true }, s!"reject: {m}")
  | ["end", c] =>
    if d.failed then (d, "ok")
    else if c = "1" ∧ ¬ d.st.closed then (d, "reject: channels closed without close event")
    else if c = "1" ∧ d.st.live ≠ [] then (d, "reject: closed with live messages")
    else (d, "ok")
  | _ => (d, "bad-op")

def main : IO Unit := do
  Driver.loop (← IO.getStdin) (← IO.getStdout) step { st := init { retryMax := 0, icepts := 0, idem := false }, failed := false }

end Driver.ProducerTrace
