import SaramaVerif.Model.SyncShim
import SaramaVerif.Driver.Util
import SaramaVerif.Model.Producer
import SaramaVerif.Model.IdemBroker
import SaramaVerif.Model.PartProd
import SaramaVerif.Model.BrokerProd
import SaramaVerif.Model.BrokerProdIdem
/-
  Replays hook-event traces of the real async producer through Model.Producer.step (trace validation).
  Lines:  reset <retryMax> <icepts> <idem>   |   ev <kind> <id> <a> <b>   |   end <closedSeen>
  Answer: ok | reject: <reason>   (after a rejection the rest of the scenario is answered ok: one difference per scenario)
-/
namespace Driver.ProducerTrace
open Model.Producer Driver

def getB (l : List (Int × Model.IdemBroker.PState)) (p : Int) : Model.IdemBroker.PState :=
  match l.find? (fun x => x.1 = p) with
  | some x => x.2
  | none => {}

def setB (l : List (Int × Model.IdemBroker.PState)) (p : Int) (s : Model.IdemBroker.PState) :
    List (Int × Model.IdemBroker.PState) :=
  (p, s) :: l.filter (fun x => x.1 ≠ p)

def getPP (l : List (Int × Model.PartProd.St × List Model.PartProd.Action)) (p : Int) :
    Model.PartProd.St × List Model.PartProd.Action :=
  match l.find? (fun x => x.1 = p) with
  | some x => x.2
  | none => ({}, [])

def setPP (l : List (Int × Model.PartProd.St × List Model.PartProd.Action)) (p : Int)
    (v : Model.PartProd.St × List Model.PartProd.Action) : List (Int × Model.PartProd.St × List Model.PartProd.Action) :=
  (p, v) :: l.filter (fun x => x.1 ≠ p)

/-- the partition-producer part of an event: `none` = not a partition-producer event -/
def ppObserved (kind : String) (id a b : Int) : Option Model.PartProd.Action :=
  match kind with
  | "pp.buf" => some (.park id)
  | "pp.fwd" => some (.emit id a.toNat false)
  | "pp.fail" => some (.emit id a.toNat false)
  | "wg.add.fin" => some (.finSend (b.toNat - 1))
  | "wg.done.fin" => some .finDone
  | _ => none

/-- key under which the alternative reaction of a partition is kept (see `ppCheck`) -/
def altKey (p : Int) : Int := p + 1000000007

def sameAct (x act : Model.PartProd.Action) : Bool :=
  match x, act with
  | .emit i l _, .emit j m _ => i == j && l == m      -- the fin flag is not carried by pp.fwd events
  | _, _ => x == act

/-- validate one event against the partition-producer model; returns the new table or a rejection.
    A token of a new, higher level has two possible reactions (`Model.PartProd.recvG`): the leader look-up of
    `updateLeaderIfBrokerProducerIsNil` fails and the token is failed on the spot, or the level is opened (`recv`).
    Which one applies is visible only in the first event that follows, so both are kept until then. -/
def ppCheck (d : List (Int × Model.PartProd.St × List Model.PartProd.Action)) (kind : String) (id a b p : Int) :
    Except String (List (Int × Model.PartProd.St × List Model.PartProd.Action)) :=
  if kind = "pp.recv" then
    let (st, q) := getPP d p
    if ¬ q.isEmpty then .error s!"pp.recv on partition {p} while the model still expects {(repr q).pretty 1000000}"
    else
      let tok : Model.PartProd.Tok := { id := id, retries := a.toNat, fin := (b.toNat / 2) % 2 = 1 }
      let r := Model.PartProd.recvG st tok true
      let alt := if tok.retries > st.hwm then Model.PartProd.recvG st tok false else ({}, [])
      .ok (setPP (setPP d p r) (altKey p) alt)
  else
    let part := if kind = "wg.add.fin" then a else p
    match ppObserved kind id a b with
    | none => .ok d
    | some act =>
      let (st, q) := getPP d part
      let (stA, qA) := getPP d (altKey part)
      match q with
      | [] => .error s!"partition producer {part}: unexpected {(repr act).pretty 1000000}"
      | x :: rest =>
        if sameAct x act then .ok (setPP (setPP d part (st, rest)) (altKey part) ({}, []))
        else match qA with
          | y :: restA =>
            if sameAct y act then .ok (setPP (setPP d part (stA, restA)) (altKey part) ({}, []))
            else .error s!"partition producer {part}: expected {(repr x).pretty 1000000}, observed {(repr act).pretty 1000000}"
          | [] => .error s!"partition producer {part}: expected {(repr x).pretty 1000000}, observed {(repr act).pretty 1000000}"

/-! ### broker workers (Model.BrokerProd)

  Every broker worker of the scenario is replayed through `Model.BrokerProd.step`: each input of its run loop
  (bp.recv, bp.handover, bp.resp … bp.resp.end) is fed to the model and the actions the real worker takes until
  its next input (wg.done.syn, bp.bounce, bp.add, retry, ret.err, ret.succ, bp.drop, bp.closing) must equal the
  model's.
    * Every bp.* event carries the worker tag `brokerID*4096 + serial` (serial unique per brokerProducer), so the
      attribution of events to workers is exact; retry / ret.err / ret.succ carry no tag and go to the worker
      that took the token in and has not let it go yet.
    * bp.recv carries `retries*8 + flags` (syn = 1, fin = 2): the token kind is read from there.
    * The parameters of an input that are visible only in the reaction (wouldOverflow, the verdicts and the map
      iteration orders) are read off the reaction: the check of an input is deferred to the worker's next input
      (`settle`); at the end of the trace a prefix of the model's reaction suffices.
    * An event with a tag no worker of this scenario has (a producer of an earlier scenario of the same process
      that was closed while an empty produce set was still at its bridge reports the answer late) is ignored.
  Idempotent scenarios are not replayed (retryBatch hands sets to other workers' bridges). -/
namespace BPW
open Model.BrokerProd Model.BrokerProdIdem

inductive Pend
  | idle
  | eager (exp : List Action)     -- model already stepped; these (normalised) actions must be observed
  | recvTok (t : Tok)             -- token taken in; `overflow` is read off the reaction
  | respList (ids : List Int)     -- bp.resp events of the answered set are being listed
  | resp                          -- bp.resp.end seen; verdicts and reactions are being collected
  | handoverW                     -- idempotent: hand-over inside waitForSpace; `again` is read off the reaction

structure BW where
  key : Int                       -- worker tag: broker id * 4096 + serial
  broker : Int
  st : Model.BrokerProd.St := {}
  pend : Pend := .idle
  obs : List Action := []         -- observed since the pending input, newest first
  verd : List (Int × Int) := []   -- bp.verdict (partition, code), newest first
  reg : List (List Tok) := []     -- idempotent: batches given to retryBatch during the pending response

structure World where
  ws : List BW := []
  holder : List (Int × Int) := []     -- token id → tag of the worker holding it (-1: a retryBatch goroutine)
  idem : Bool := false
  batches : List (List Tok) := []     -- idempotent: batches in the hands of retryBatch goroutines
  bev : List (Int × Option Nat) := [] -- their events, oldest first: (id, new retries) = retrybatch, (id, none) = ret.err

def assocSet {α : Type} (l : List (Int × α)) (k : Int) (v : α) : List (Int × α) := (k, v) :: l.filter (fun x => x.1 != k)
def assocDel {α : Type} (l : List (Int × α)) (k : Int) : List (Int × α) := l.filter (fun x => x.1 != k)

def getW (wd : World) (k : Int) : Option BW := wd.ws.find? (fun x => x.key == k)
def putW (wd : World) (w : BW) : World := { wd with ws := wd.ws.map (fun x => if x.key == w.key then w else x) }
def holderOf (wd : World) (id : Int) : Option BW := (wd.holder.lookup id).bind (getW wd)

/-- what the hooks can show of an action list: abandonBrokerConnection has no hook, and a spent retry budget
    and a returned error are both `ret.err` -/
def norm (as : List Action) : List Action :=
  as.filterMap fun
    | .abandon => none
    | .expire i p _ => some (.fail i p)
    | a => some a

def actId : Action → Option Int
  | .refuse i | .requeue i _ _ _ | .expire i _ _ | .add i _ | .succ i _ | .fail i _ => some i
  | _ => none

def name (w : BW) : String := s!"broker worker {w.broker}#{w.key % 4096}"

/-- one-line rendering (a rejection is one line of the protocol) -/
def showAct : Action → String
  | .ackSyn p => s!"ackSyn(p{p})"
  | .refuse i => s!"refuse({i})"
  | .requeue i p r f => s!"requeue({i},p{p},retries={r}{if f then ",fin" else ""})"
  | .expire i p f => s!"expire({i},p{p}{if f then ",fin" else ""})"
  | .add i p => s!"add({i},p{p})"
  | .succ i p => s!"succ({i},p{p})"
  | .fail i p => s!"fail({i},p{p})"
  | .drop p => s!"drop(p{p})"
  | .closing => "closing"
  | .abandon => "abandon"
  | .disabled => "disabled"

def showActs (l : List Action) : String := "[" ++ " ".intercalate (l.map showAct) ++ "]"
def showInts (l : List Int) : String := "[" ++ " ".intercalate (l.map toString) ++ "]"

def cmp (final : Bool) (w : BW) (st' : Model.BrokerProd.St) (exp obs : List Action) : Except String BW :=
  if exp.contains .disabled then .error s!"{name w}: input not enabled in the model state"
  else if (if final then obs.isPrefixOf exp else obs == exp) then .ok { w with st := st', pend := .idle, obs := [], verd := [] }
  else .error s!"{name w}: expected {showActs exp}, observed {showActs obs}"

/-- reconstruct the response input from what was observed -/
def respOf (w : BW) (sent : List Tok) (obs : List Action) : Except String Resp :=
  let verd := w.verd.reverse
  let waitId := w.st.wait.map (·.id)
  let core := obs.filter (fun a => actId a != waitId || waitId.isNone)
  if obs.contains .closing then
    let leaves := core.filterMap fun | .requeue _ p _ _ => some p | .fail _ p => some p | _ => none
    .ok (.connErr (leaves.take sent.length) (leaves.drop sent.length))
  else if verd.isEmpty then
    if core.any (fun | .fail _ _ => true | _ => false) then
      .ok (.encErr (core.filterMap fun | .fail _ p => some p | _ => none))
    else .ok (.verdicts (fun _ => .ok) (core.filterMap fun | .succ _ p => some p | _ => none) [])
  else
    match (partsOf sent).find? (fun p => (verd.lookup p).isNone) with
    | some p => .error s!"{name w}: no verdict observed for partition {p} of the answered set"
    | none =>
      .ok (.verdicts (fun p => match verd.lookup p with | some c => classOf c | none => .ok) (verd.map (·.1))
            (obs.filterMap fun | .drop p => some p | _ => none))

/-- the model: `Model.BrokerProd.step` for the plain producer, `Model.BrokerProdIdem.stepI` for the idempotent one -/
def stepU (idem : Bool) (max : Nat) (s : Model.BrokerProd.St) (i : InI) (obs : List Action) :
    Model.BrokerProd.St × List Action × List (List Tok) :=
  if idem then
    -- `bp.buffer.add` failed: the reaction ends with bp.add, ret.err of the same message
    let addErr := match obs.reverse with
      | .fail i _ :: .add j _ :: _ => i == j
      | _ => false
    stepIE max s i addErr
  else match i with
    | .recv t o => ((Model.BrokerProd.step max s (.recv t o)).1, (Model.BrokerProd.step max s (.recv t o)).2, [])
    | .handover _ => ((Model.BrokerProd.step max s .handover).1, (Model.BrokerProd.step max s .handover).2, [])
    | .resp r st => ((Model.BrokerProd.step max s (.resp r st)).1, (Model.BrokerProd.step max s (.resp r st)).2, [])
    | .inject _ => (s, [.disabled], [])

def sameBatches (a b : List (List Tok)) : Bool :=
  a.length == b.length && a.all (fun x => b.contains x)

/-- feed the pending input of a worker to the model and compare (final: the trace ended, a prefix suffices) -/
def settle (idem : Bool) (max : Nat) (final : Bool) (w : BW) : Except String BW :=
  let obs := w.obs.reverse
  match w.pend with
  | .idle => if obs.isEmpty then .ok w else .error s!"{name w}: unexpected {showActs obs}"
  | .eager exp => cmp final w w.st exp obs
  | .recvTok t =>
    if final && obs.isEmpty then .ok { w with pend := .idle }
    else
      let r := stepU idem max w.st (.recv t obs.isEmpty) obs
      cmp final w r.1 (norm r.2.1) obs
  | .respList _ => if final then .ok { w with pend := .idle, obs := [] } else .error s!"{name w}: response listing not terminated"
  | .resp =>
    match w.st.sets with
      | [] => .error s!"{name w}: response without a set in flight"
      | sent :: _ =>
        match respOf w sent obs with
        | .error m => if final then .ok { w with pend := .idle, obs := [], verd := [] } else .error m
        | .ok r =>
          let still := match w.st.wait with
            | some t => !(obs.contains (.add t.id t.part))
            | none => false
          let x := stepU idem max w.st (.resp r still) obs
          if !final && !sameBatches x.2.2 w.reg.reverse then
            .error s!"{name w}: the model gives {showInts ((x.2.2.flatten).map (·.id))} to retryBatch, the verdicts said {showInts ((w.reg.reverse.flatten).map (·.id))}"
          else (cmp final w x.1 (norm x.2.1) obs).map (fun w' => { w' with reg := [] })
  | .handoverW =>
    if final && obs.isEmpty then .ok { w with pend := .idle }
    else
      let r := stepU idem max w.st (.handover obs.isEmpty) obs
      cmp final w r.1 (norm r.2.1) obs

/-- push an observed action to a worker -/
def see (wd : World) (w : BW) (act : Action) : World := putW wd { w with obs := act :: w.obs }

/-- an action reported without a worker tag (retry, ret.err, ret.succ): it belongs to the worker holding the token;
    the token is gone afterwards.  No holder: the event is not a broker worker's (dispatcher, partition producer). -/
def leave (wd : World) (id : Int) (act : Action) : Except String World :=
  match holderOf wd id with
  | none => .ok wd
  | some w => .ok { see wd w act with holder := assocDel wd.holder id }

/-- an action reported with the worker tag -/
def tagged (wd : World) (tag id : Int) (act : Action) : Except String World :=
  match getW wd tag with
  | none => .ok wd                       -- stray
  | some w =>
    if (wd.holder.lookup id) != some tag then .error s!"{name w}: {showAct act} for token {id}, which it does not hold"
    else .ok (see wd w act)

def bevOf (wd : World) (b : List Tok) : List BatchAct :=
  (wd.bev.filter (fun e => b.any (fun t => t.id == e.1))).map fun e =>
    match e.2 with
    | some r => BatchAct.bump e.1 r
    | none => BatchAct.fail e.1

/-- the listed set is not the worker's own but one that a retryBatch goroutine put into its bridge: the goroutine
    must have done exactly `retryBatch` (all counts bumped, leader found), and the worker's model takes `inject` -/
def foreign (max : Nat) (wd : World) (w : BW) (ids : List Int) : Except String (World × BW) :=
  match ids with
  | [] => .ok (wd, w)
  | i :: _ =>
    if wd.holder.lookup i != some (-1) then .ok (wd, w)
    else match wd.batches.find? (fun b => b.any (fun t => t.id == i)) with
      | none => .error s!"{name w}: response for {showInts ids}, which no retryBatch goroutine holds"
      | some b =>
        let exp := retryBatch max b true
        if exp != bevOf wd b ++ [BatchAct.offer (b.map bumped)] then
          .error s!"{name w}: retryBatch of {showInts (b.map (·.id))} did not bump every message exactly once before re-sending"
        else if ids != b.map (·.id) then
          .error s!"{name w}: response for {showInts ids}, but retryBatch re-sent {showInts (b.map (·.id))}"
        else
          let r := stepI max w.st (.inject (b.map bumped))
          if r.2.1.contains .disabled then .error s!"{name w}: a re-sent batch at the bridge while another set is in flight"
          else
            let w' := { w with st := r.1 }
            let wd' := putW wd w'
            .ok ({ wd' with batches := wd'.batches.filter (fun x => x != b),
                            bev := wd'.bev.filter (fun e => !b.any (fun t => t.id == e.1)),
                            holder := b.foldl (fun h t => assocSet h t.id w.key) wd'.holder }, w')

/-- one hook event -/
def wstep (max : Nat) (wd : World) (kind : String) (id a b p : Int) : Except String World :=
  match kind with
  | "bp.recv" =>
    let fl := a.toNat % 8
    let k : Kind := if fl % 2 == 1 then .syn else if (fl / 2) % 2 == 1 then .fin else .data
    let tok : Tok := { id := id, part := p, retries := a.toNat / 8, kind := k }
    let nw : BW := { key := b, broker := b / 4096 }
    let (w, wd) : BW × World := match getW wd b with
      | some w => (w, wd)
      | none => (nw, { wd with ws := wd.ws ++ [nw] })
    match settle wd.idem max false w with
    | .error m => .error m
    | .ok w' => .ok { putW wd { w' with pend := Pend.recvTok tok } with holder := assocSet wd.holder id b }
  | "wg.done.syn" =>
    match tagged wd b id (.ackSyn a) with
    | .ok wd' => .ok { wd' with holder := assocDel wd'.holder id }
    | e => e
  | "bp.bounce" => tagged wd b id (.refuse id)
  | "bp.add" => tagged wd b id (.add id p)
  | "retry" => leave wd id (.requeue id p a.toNat ((b.toNat / 2) % 2 == 1))
  | "retrybatch" => .ok { wd with bev := wd.bev ++ [(id, some a.toNat)] }
  | "ret.err" =>
    -- idempotent: a message that was given to a retryBatch goroutine is failed by that goroutine, not by the worker
    if wd.holder.lookup id == some (-1) then
      .ok { wd with bev := wd.bev ++ [(id, none)], holder := assocDel wd.holder id }
    else leave wd id (.fail id p)
  | "ret.succ" => leave wd id (.succ id p)
  | "bp.handover" =>
    match getW wd a with
    | none => .ok wd
    | some w =>
      match settle wd.idem max false w with
      | .error m => .error m
      | .ok w' =>
        if (b == 2) != w'.st.wait.isSome then .error s!"{name w}: bp.handover site {b} does not fit waitForSpace state"
        else if wd.idem && b == 2 then
          if !w'.st.sets.isEmpty then .error s!"{name w}: handover while a set is in flight"
          else .ok (putW wd { w' with pend := .handoverW })
        else
          let r := Model.BrokerProd.step max w'.st .handover
          if r.2.contains .disabled then .error s!"{name w}: handover while a set is in flight, or of an empty buffer with a fresh `output`"
          else .ok (putW wd { w' with st := r.1, pend := .eager (norm r.2) })
  | "bp.resp" =>
    -- (a set sent by a retryBatch goroutine can be the first thing seen of the worker it made getBrokerProducer create)
    let wd : World := if (getW wd a).isNone && wd.holder.lookup id == some (-1)
      then { wd with ws := wd.ws ++ [({ key := a, broker := a / 4096 } : BW)] } else wd
    match getW wd a with
    | none => .ok wd
    | some w =>
      if (wd.holder.lookup id) != some a && (wd.holder.lookup id) != some (-1) then
        .error s!"{name w}: bp.resp lists token {id}, which it does not hold"
      else match w.pend with
        | .respList ids => .ok (putW wd { w with pend := .respList (ids ++ [id]) })
        | _ =>
          match settle wd.idem max false w with
          | .error m => .error m
          | .ok w' => .ok (putW wd { w' with pend := .respList [id] })
  | "bp.resp.end" =>
    -- the listed set must be the set in flight (an empty set has no bp.resp events at all)
    match getW wd a with
    | none => .ok wd
    | some w =>
      match w.pend with
      | .respList ids =>
        match foreign max wd w ids with
        | .error m => .error m
        | .ok (wd, w) =>
        match w.st.sets with
        | sent :: _ =>
          let ord := ids.filterMap (fun i => (sent.find? (fun t => t.id == i)).map (·.part))
          if (arrange (ord ++ partsOf sent) sent).map (·.id) == ids then .ok (putW wd { w with pend := .resp, obs := [], verd := [] })
          else .error s!"{name w}: response for {showInts ids}, but the set in flight is {showInts (sent.map (·.id))}"
        | [] => .error s!"{name w}: response without a set in flight"
      | _ =>
        match settle wd.idem max false w with
        | .error m => .error m
        | .ok w' => match w'.st.sets with
          | [] :: _ => .ok (putW wd { w' with pend := .resp, obs := [], verd := [] })
          | sent :: _ => .error s!"{name w}: response without bp.resp events, but the set in flight is {showInts (sent.map (·.id))}"
          | [] => .error s!"{name w}: response without a set in flight"
  | "bp.verdict" =>
    match getW wd b with
    | none => .ok wd
    | some w =>
      match w.pend, w.st.sets with
      | .resp, sent :: _ =>
        if !(partsOf sent).contains p then .error s!"{name w}: verdict for partition {p}, which is not in the answered set"
        else if (w.verd.lookup p).isSome then .error s!"{name w}: second verdict for partition {p}"
        else if wd.idem && max > 0 && classOf a == Verdict.retriable then
          -- second pass of handleSuccess will start `go retryBatch` with this partition's part of the set
          let b := onPart p sent
          let wd1 := putW wd { w with verd := (p, a) :: w.verd, reg := b :: w.reg }
          .ok { wd1 with batches := wd1.batches ++ [b],
                         holder := b.foldl (fun h t => assocSet h t.id (-1)) wd1.holder }
        else .ok (putW wd { w with verd := (p, a) :: w.verd })
      | _, _ => .error s!"{name w}: bp.verdict outside response handling"
  | "bp.drop" =>
    match getW wd b with
    | none => .ok wd
    | some w =>
      match w.pend with
      | .resp => .ok (see wd w (.drop a))
      | _ => .error s!"{name w}: bp.drop outside response handling"
  | "bp.closing" =>
    match getW wd a with
    | none => .ok wd
    | some w =>
      match w.pend with
      | .resp => if w.obs.isEmpty && w.verd.isEmpty then .ok (see wd w .closing) else .error s!"{name w}: bp.closing after other reactions to the response"
      | _ => .error s!"{name w}: bp.closing outside response handling"
  | _ => .ok wd

def bpCheck (max : Nat) (wd : World) (kind : String) (id a b p : Int) : Except String World := wstep max wd kind id a b p

/-- end of the trace: every pending input must be consistent with a prefix of the model's reaction -/
def bpEnd (max : Nat) (wd : World) : Except String Unit :=
  match wd.ws.filterMap (fun w => match settle wd.idem max true w with | .error m => some m | .ok _ => none) with
  | m :: _ => .error m
  | [] =>
    -- batches that were not re-sent: what their goroutine did must be the beginning of a failing (budget spent or no
    -- leader) or of a succeeding retryBatch
    match wd.batches.find? (fun b => !((bevOf wd b).isPrefixOf (retryBatch max b false) || (bevOf wd b).isPrefixOf (retryBatch max b true))) with
    | some b => .error s!"retryBatch of {showInts (b.map (·.id))}: its retrybatch / ret.err events fit neither a failed nor a re-sent batch"
    | none => .ok ()

end BPW

structure DS where
  st : St
  failed : Bool
  brokers : List (Int × Model.IdemBroker.PState) := []   -- partition → leader state for the scenario's producer id
  pps : List (Int × Model.PartProd.St × List Model.PartProd.Action) := []  -- partition → partition-producer state, expected actions
  rmax : Nat := 0                  -- Producer.Retry.Max of the scenario
  bpOn : Bool := false             -- broker workers are replayed (not idempotent)
  bws : BPW.World := {}            -- the broker workers of the scenario
  sy : Model.SyncShim.St := {}     -- SyncProducer shim (expectation slots) of the scenario
  tmLog : List (Int × Int × Int) := []   -- transaction-manager ops: stamps given (topic·100000+partition, epoch, sequence)
  tmEpoch : Int := 0

def showVerdict : Model.IdemBroker.Verdict → String
  | .appended b => s!"app {b}"
  | .duplicate b => s!"dup {b}"
  | .outOfOrder => "ooo"
  | .fenced => "fenced"

def toEv (kind : String) (id a : Int) : Option Ev :=
  match kind with
  | "d.accept" => some (.accept id)
  | "d.reject" => some (.reject id)
  | "d.icept" => some (.icept id)
  | "d.pass" => some (.pass id a.toNat)
  | "d.shutdown" => some .shutdownSeen
  | "wg.add.syn" => some (.wgAdd false)
  | "wg.add.fin" => some (.wgAdd false)
  | "wg.add.shutdown" => some (.wgAdd true)
  | "wg.done.syn" => some (.wgDone id)
  | "wg.done.fin" => some (.wgDone id)
  | "retry" => some (.retry id a.toNat)
  | "retrybatch" => some (.retry id a.toNat)
  | "ret.err" => some (.retErr id)
  | "ret.succ" => some (.retSucc id)
  | "pp.seq" => some (.seq id)
  | "txn.bump" => some (.bump id)
  | "wg.waited" => some .waited
  | "close" => some .close
  | "pp.recv" | "pp.buf" | "pp.fwd" | "pp.fail" | "pp.abandon" | "bp.bounce" | "bp.add" | "bp.sent" | "bp.sent.end"
  | "bp.answered" | "bp.answered.end" | "bp.recv" | "bp.handover" | "bp.resp" | "bp.resp.end" | "bp.verdict"
  | "bp.closing" | "bp.drop" | "bp.sent.stamp" | "bp.answered.stamp" | "bp.resp.stamp" => some .other
  | _ => none

def step (d : DS) (t : List String) : DS × String :=
  match t with
  | ["reset", rm, ic, idem] =>
    ({ st := init { retryMax := nat! rm, icepts := nat! ic, idem := idem = "1" }, failed := false, brokers := [], pps := [],
       rmax := nat! rm, bpOn := true, bws := { idem := idem == "1" }, sy := {} }, "ok")
  | ["bb", p, epoch, firstSeq, payloads] =>
    -- one batch arriving at the leader of partition p (simulated cluster ↔ Model.IdemBroker.arrive)
    let st := getB d.brokers (int! p)
    let (st', v) := Model.IdemBroker.arrive st (int! epoch) (nat! firstSeq) (intList payloads)
    ({ d with brokers := setB d.brokers (int! p) st' }, showVerdict v)
  | ["ev", kind, id, a, b, p] =>
    if d.failed then (d, "ok") else
    match toEv kind (int! id) (int! a) with
    | none => ({ d with failed := true }, s!"reject: unknown event kind {kind}")
    | some e =>
      -- stamp bookkeeping events that ride on the same hook line (C05 rules R1/R2 of Model.Producer)
      let extra : List Ev :=
        if kind = "pp.seq" then [.stamp (int! id) (int! b) (int! a), .stampAt (int! p) (int! b) (int! a)]
        else if kind = "bp.sent.stamp" then (if int! a ≥ 0 then [.setStamp (int! a) (int! b)] else [])  -- epoch −1: not idempotent
        else if kind = "bp.sent" then [.sent (int! id) (int! b)]
        else if kind = "bp.sent.end" then [.sentEnd]
        else if kind = "retry" then [.reentry (int! id) false]
        else if kind = "retrybatch" then [.reentry (int! id) true]
        else []
      match (e :: extra).foldlM (fun s ev => Model.Producer.step s ev) d.st with
      | .error m => ({ d with failed := true }, s!"reject: {m}")
      | .ok s' =>
        match ppCheck d.pps kind (int! id) (int! a) (int! b) (int! p) with
        | .error m => ({ d with failed := true }, s!"reject: {m}")
        | .ok pps' =>
          if !d.bpOn then ({ d with st := s', pps := pps' }, "ok")
          else match BPW.bpCheck d.rmax d.bws kind (int! id) (int! a) (int! b) (int! p) with
            | .ok bws' => ({ d with st := s', pps := pps', bws := bws' }, "ok")
            | .error m => ({ d with failed := true }, s!"reject: {m}")
  | ["tm", "reset"] => ({ d with tmLog := [], tmEpoch := 0 }, "ok")
  | ["tm", "bump"] => ({ d with tmEpoch := d.tmEpoch + 1 }, "ok")
  | ["tm", "seq", t, p] =>
    -- the counter value the model's stamp rule prescribes (Model.Producer.stampCount, the function `stamps_dense` is about)
    let q : Int := Model.Producer.stampCount d.tmLog (int! t * 100000 + int! p) d.tmEpoch
    ({ d with tmLog := (int! t * 100000 + int! p, d.tmEpoch, q) :: d.tmLog }, s!"{q} {d.tmEpoch}")
  | ["sy", "submit", id] =>
    match Model.SyncShim.step d.sy (.submit (int! id)) with
    | .ok s' => ({ d with sy := s' }, "ok")
    | .error m => (d, s!"reject: {m}")
  | ["sy", "event", id, o] =>
    match Model.SyncShim.step d.sy (.event (int! id) (if o = "ok" then .ok else .err 0)) with
    | .ok s' => ({ d with sy := s' }, "ok")
    | .error m => (d, s!"reject: {m}")
  | ["sy", "read", id] =>
    match Model.SyncShim.step d.sy (.read (int! id)) with
    | .ok s' => ({ d with sy := s' },
        match s'.returns.head? with
        | some (_, .ok) => "ret ok"
        | some (_, .err _) => "ret err"
        | none => "reject: no return recorded")
    | .error m => (d, s!"reject: {m}")
  | ["end", c] =>
    if d.failed then (d, "ok")
    else if c = "1" ∧ ¬ d.st.closed then (d, "reject: channels closed without close event")
    else if c = "1" ∧ d.st.live ≠ [] then (d, "reject: closed with live messages")
    else if c = "1" ∧ Model.Producer.unbumped d.st ≠ [] then
      (d, s!"reject: a message that carried a sequence number failed without an epoch bump: {Model.Producer.unbumped d.st}")
    else if d.bpOn then
      match BPW.bpEnd d.rmax d.bws with
      | .ok _ => (d, "ok")
      | .error m => (d, s!"reject: {m}")
    else (d, "ok")
  | _ => (d, "bad-op")

def main : IO Unit := do
  Driver.loop (← IO.getStdin) (← IO.getStdout) step { st := init { retryMax := 0, icepts := 0, idem := false }, failed := false }

end Driver.ProducerTrace
