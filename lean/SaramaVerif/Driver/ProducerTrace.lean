import SaramaVerif.Driver.Util
import SaramaVerif.Model.Producer
import SaramaVerif.Model.IdemBroker
/-
  Replays hook-event traces of the real async producer through Model.Producer.step (trace validation).
  Lines:  reset <retryMax> <icepts> <idem>   |   ev <kind> <id> <a> <b>   |   end <closedSeen>
  Answer: ok | reject: <reason>   (after a rejection the rest of the scenario is answered ok: one difference per scenario)
-/
namespace Driver.ProducerTrace
open Model.Producer Driver

structure DS where
  st : St
  failed : Bool
  brokers : List (Int × Model.IdemBroker.PState) := []   -- partition → leader state for the scenario's producer id

def getB (l : List (Int × Model.IdemBroker.PState)) (p : Int) : Model.IdemBroker.PState :=
  match l.find? (fun x => x.1 = p) with
  | some x => x.2
  | none => {}

def setB (l : List (Int × Model.IdemBroker.PState)) (p : Int) (s : Model.IdemBroker.PState) :
    List (Int × Model.IdemBroker.PState) :=
  (p, s) :: l.filter (fun x => x.1 ≠ p)

def showVerdict : Model.IdemBroker.Verdict → String
  | .appended b => s!"app {b}"
  | .duplicate b => s!"dup {b}"
  | .outOfOrder => "ooo"
  | .fenced => "fenced"

def toEv (kind : String) (id a : Int) : Option Ev :=
  match kind with
  | "d.accept" => some (.accept id)
  | "d.reject" => some (.reject id)
  | "d.icept" => some (.icept id)
  | "d.pass" => some (.pass id a.toNat)
  | "d.shutdown" => some .shutdownSeen
  | "wg.add.syn" => some (.wgAdd false)
  | "wg.add.fin" => some (.wgAdd false)
  | "wg.add.shutdown" => some (.wgAdd true)
  | "wg.done.syn" => some (.wgDone id)
  | "wg.done.fin" => some (.wgDone id)
  | "retry" => some (.retry id a.toNat)
  | "retrybatch" => some (.retry id a.toNat)
  | "ret.err" => some (.retErr id)
  | "ret.succ" => some (.retSucc id)
  | "pp.seq" => some (.seq id)
  | "wg.waited" => some .waited
  | "close" => some .close
  | "pp.recv" | "pp.buf" | "pp.fwd" | "bp.bounce" | "bp.add" | "bp.sent" | "bp.sent.end"
  | "bp.answered" | "bp.answered.end" => some .other
  | _ => none

def step (d : DS) (t : List String) : DS × String :=
  match t with
  | ["reset", rm, ic, idem] =>
    ({ st := init { retryMax := nat! rm, icepts := nat! ic, idem := idem = "1" }, failed := false, brokers := [] }, "ok")
  | ["bb", p, epoch, firstSeq, payloads] =>
    -- one batch arriving at the leader of partition p (simulated cluster ↔ Model.IdemBroker.arrive)
    let st := getB d.brokers (int! p)
    let (st', v) := Model.IdemBroker.arrive st (int! epoch) (nat! firstSeq) (intList payloads)
    ({ d with brokers := setB d.brokers (int! p) st' }, showVerdict v)
  | ["ev", kind, id, a, _b] =>
    if d.failed then (d, "ok") else
    match toEv kind (int! id) (int! a) with
    | none => ({ d with failed := true }, s!"reject: unknown event kind {kind}")
    | some e =>
      match Model.Producer.step d.st e with
      | .ok s' => ({ d with st := s' }, "ok")
      | .error m => ({ d with failed := true }, s!"reject: {m}")
  | ["end", c] =>
    if d.failed then (d, "ok")
    else if c = "1" ∧ ¬ d.st.closed then (d, "reject: channels closed without close event")
    else if c = "1" ∧ d.st.live ≠ [] then (d, "reject: closed with live messages")
    else (d, "ok")
  | _ => (d, "bad-op")

def main : IO Unit := do
  Driver.loop (← IO.getStdin) (← IO.getStdout) step { st := init { retryMax := 0, icepts := 0, idem := false }, failed := false }

end Driver.ProducerTrace
