import SaramaVerif.Driver.Util
import SaramaVerif.Model.Mocks
/-
  Line-protocol driver for C20 (mocks). One line = one complete case:

    async <fixed|pinned> <retSucc 0|1> <retErr 0|1> <partitioner> <op>…
    sync  <chosen|zero> <partitioner> <op>…
    cons  <ChannelBufferSize> <op>…
    multi <fixed|pinned> <chosen|zero> <partitioner> <op>…     several mocks, configured from map objects the test keeps:
          n:<h>,<a|s>  new async/sync mock      mk:<map>,<t>=<n>;…  new map object   mu:<map>,<t>,<n> / mx:<map>,<t>  the
          test changes its map    sp:<h>,<map>  SetPartitions(map)    sd:<h>,<n>   x:<h>,<exp>   s:<h>,<msg>   c:<h>

  producer ops:  x:<S|E<code>>/<n|p|f<code>|o<code>>   expectation (checker: none, passes, fails, fails on odd partition)
                 d:<n>  SetDefaultPartitions      p:<topic>,<n>  SetPartitions
                 s:<id>,<topic>,<key>,<part0>     one input / SendMessage
                 b:<msg>;<msg>…  (b:- empty)      SendMessages (sync only)
                 c  Close                         m:<text>  annotation (ignored)
  partitioners:  manual | hash | fnv | rr | cerr<code> | cecho | cfix<c> | cmix
  consumer ops:  e:<t>,<p>,<off>  ym:<t>,<p>  ye:<t>,<p>,<code>  dm:<t>,<p>  de:<t>,<p>  cp:<t>,<p>,<off>
                 rm:<t>,<p>  re:<t>,<p>  pc:<t>,<p>  pa:<t>,<p>  cc  hw  tp  pt:<t>  md:<t>=<p>.<p>;…
  The answer has one token per op that shows something (see the harness for the same canonical forms).
-/
namespace Driver.C20
open Model.Mocks Driver

def insertS (x : String) : List String → List String
  | [] => [x]
  | y :: ys => if y < x then y :: insertS x ys else x :: y :: ys
def sortS (l : List String) : List String := l.foldr insertS []

def plus (l : List String) : String := "+".intercalate l

def showKind : ErrKind → String
  | .scripted => "s" | .checker => "c" | .partitioner => "p" | .outOfExpectations => "o"

def showOutcome : Outcome → String
  | .success _ p o => s!"S:{p}:{o}"
  | .error _ k c p => s!"E{showKind k}{c}:{p}"

def showKey (k : Key) : String := s!"{k.1}/{k.2}"

def showReport : Report → String
  | .noExpectation => "noexp"
  | .insufficient => "insuff"
  | .leftover n => s!"left{n}"
  | .checkerFailed c => s!"chk{c}"
  | .partitionerError c => s!"part{c}"
  | .noPartitionExpectation k => s!"noexp{showKey k}"
  | .unexpectedOffset k e g => s!"off{showKey k}:{e}:{g}"
  | .notStarted k => s!"ns{showKey k}"
  | .errorsNotDrained k n => s!"ed{showKey k}:{n}"
  | .messagesNotDrained k n => s!"md{showKey k}:{n}"
  | .noMetadata => "nometa"

def showReports (l : List Report) : String := plus (l.map showReport)

def showErr : Option (ErrKind × Int) → String
  | none => "nil"
  | some (k, c) => s!"E{showKind k}{c}"

def tail1 (s : String) : String := (s.drop 1).toString
def tail2 (s : String) : String := (s.drop 2).toString
def tail3 (s : String) : String := (s.drop 3).toString

def parseExp (s : String) : Option Exp :=
  match s.splitOn "/" with
  | [r, c] =>
    let res : Option (Option Int) :=
      if r = "S" then some none else if r.startsWith "E" then some (some (int! (tail1 r))) else none
    let chk : Option (Option (Msg → Int → Option Int)) :=
      if c = "n" then some none
      else if c = "p" then some (some (fun _ _ => none))
      else if c.startsWith "f" then some (some (fun _ _ => some (int! (tail1 c))))
      else if c.startsWith "o" then some (some (fun _ p => if p % 2 ≠ 0 then some (int! (tail1 c)) else none))
      else none
    match res, chk with
    | some r, some c => some ⟨r, c⟩
    | _, _ => none
  | _ => none

def parseMsg (s : String) : Option Msg :=
  match s.splitOn "," with
  | [a, b, c, d] => some ⟨nat! a, nat! b, int! c, int! d⟩
  | _ => none

def parseMsgs (s : String) : Option (List Msg) :=
  if s = "-" then some [] else (s.splitOn ";").mapM parseMsg

inductive Mode
  | async (fx : Bool) (cfg : ACfg)
  | sync (rc : Bool)

/-- one producer op: new state and the token it shows (`none` = nothing shown); outer `none` = bad op -/
def prodTok {σ : Type} (P : Part σ) (mode : Mode) (s : PState σ) (tok : String) : Option (PState σ × Option String) :=
  if tok = "c" then some (s, some s!"c[{showReports (closeReports s)}]")
  else if tok.startsWith "m:" then some (s, none)
  else if tok.startsWith "x:" then (parseExp (tail2 tok)).map (fun e => (s.expect e, none))
  else if tok.startsWith "d:" then some (s.withTc (s.tc.setDefault (int! (tail2 tok))), none)
  else if tok.startsWith "p:" then
    match (tail2 tok).splitOn "," with
    | [t, n] => some (s.withTc (s.tc.setPartitions (nat! t) (int! n)), none)
    | _ => none
  else if tok.startsWith "s:" then
    (parseMsg (tail2 tok)).map (fun m =>
      match mode with
      | .async fx cfg =>
        let r := asyncSend P fx cfg s m
        (r.1, some s!"{m.id}[{plus (sortS (r.2.1.map showOutcome))}|{showReports r.2.2}]")
      | .sync rc =>
        let r := syncSend P rc s m
        let o := r.2.1
        (r.1, some s!"{m.id}[{o.retPartition},{o.retOffset},{showErr o.err},{o.msgPartition},{o.msgOffset}|{showReports r.2.2}]"))
  else if tok.startsWith "b:" then
    match mode with
    | .async _ _ => none
    | .sync _ =>
      (parseMsgs (tail2 tok)).map (fun ms =>
        let r := syncSendBatch P s ms
        let per := ",".intercalate (r.2.1.msgs.map (fun x => s!"{x.1}:{x.2}"))
        (r.1, some s!"b[{showErr r.2.1.err};{per}|{showReports r.2.2}]"))
  else none

def prodRun {σ : Type} (P : Part σ) (mode : Mode) : PState σ → List String → List String → String
  | _, [], acc => " ".intercalate acc.reverse
  | s, t :: ts, acc =>
    match prodTok P mode s t with
    | none => "bad-op"
    | some (s', none) => prodRun P mode s' ts acc
    | some (s', some o) => prodRun P mode s' ts (o :: acc)

/-- FNV-1a (32 bit) of the key bytes: what `sarama.NewHashPartitioner` hashes with -/
def fnv1a (bs : List UInt8) : Nat :=
  bs.foldl (fun h b => ((h ^^^ b.toNat) * 16777619) % 4294967296) 2166136261

/-- `NewHashPartitioner` on a message whose key bytes are the decimal text of `m.key` -/
def fnvPart : Part Unit :=
  { init := fun _ => (),
    step := fun _ m n => (.ok (Model.Partitioner.hashChoice false (fnv1a (toString m.key).toUTF8.toList) n), ()) }

def withPart (name : String) (mode : Mode) (ops : List String) : String :=
  let go {σ : Type} (P : Part σ) : String := prodRun P mode (PState.init P [] TopicCfg.new) ops []
  if name = "manual" then go manualPart
  else if name = "hash" then go hashPart
  else if name = "fnv" then go fnvPart
  else if name = "rr" then go rrPart
  else if name = "cecho" then go echoPart
  else if name = "cmix" then go mixPart
  else if name.startsWith "cerr" then go (errPart (int! ((name.drop 4).toString)))
  else if name.startsWith "cfix" then go (fixPart (int! ((name.drop 4).toString)))
  else "bad-op"

/-! several mocks configured from shared map objects (`multi`) -/

def liftUnit (P : Part Unit) : Part Int :=
  { init := fun _ => 0, step := fun _ m n => ((P.step () m n).1, 0) }

def partInt (name : String) : Option (Part Int) :=
  if name = "manual" then some (liftUnit manualPart)
  else if name = "hash" then some (liftUnit hashPart)
  else if name = "fnv" then some (liftUnit fnvPart)
  else if name = "rr" then some rrPart
  else if name = "cecho" then some (liftUnit echoPart)
  else if name = "cmix" then some (liftUnit mixPart)
  else if name.startsWith "cerr" then some (liftUnit (errPart (int! ((name.drop 4).toString))))
  else if name.startsWith "cfix" then some (liftUnit (fixPart (int! ((name.drop 4).toString))))
  else none

structure MMock where
  h : Nat
  mode : Mode
  st : PState Int

/-- the mocks of the case (each with its OWN state, in particular its own `TopicCfg`) and the map objects the
    test holds (id ↦ entries) -/
structure MState where
  mocks : List MMock
  maps : List (Nat × List (Nat × Int))

def splitHead (s : String) : Nat × String :=
  match s.splitOn "," with
  | h :: rest => (nat! h, ",".intercalate rest)
  | [] => (0, "")

def parseEntries (s : String) : List (Nat × Int) :=
  if s = "-" ∨ s = "" then [] else
  (s.splitOn ";").filterMap (fun e =>
    match e.splitOn "=" with
    | [t, n] => some (nat! t, int! n)
    | _ => none)

def setEntry (l : List (Nat × Int)) (t : Nat) (n : Int) : List (Nat × Int) :=
  if l.any (·.1 = t) then l.map (fun x => if x.1 = t then (t, n) else x) else l ++ [(t, n)]

def setMap (ms : List (Nat × List (Nat × Int))) (id : Nat) (v : List (Nat × Int)) : List (Nat × List (Nat × Int)) :=
  if ms.any (·.1 = id) then ms.map (fun x => if x.1 = id then (id, v) else x) else ms ++ [(id, v)]

def getMap (ms : List (Nat × List (Nat × Int))) (id : Nat) : Option (List (Nat × Int)) :=
  (ms.find? (·.1 = id)).map (·.2)

def onMock (P : Part Int) (s : MState) (h : Nat) (tok : String) : Option (MState × Option String) :=
  match s.mocks.find? (·.h = h) with
  | none => none
  | some mk =>
    (prodTok P mk.mode mk.st tok).map (fun r =>
      ({ s with mocks := s.mocks.map (fun x => if x.h = h then { x with st := r.1 } else x) }, r.2))

def multiTok (P : Part Int) (fx rc : Bool) (s : MState) (tok : String) : Option (MState × Option String) :=
  if tok.startsWith "n:" then
    match (tail2 tok).splitOn "," with
    | [h, k] =>
      if s.mocks.any (·.h = nat! h) then none
      else if k = "a" then some ({ s with mocks := s.mocks ++ [⟨nat! h, .async fx ⟨true, true⟩, PState.init P [] TopicCfg.new⟩] }, none)
      else if k = "s" then some ({ s with mocks := s.mocks ++ [⟨nat! h, .sync rc, PState.init P [] TopicCfg.new⟩] }, none)
      else none
    | _ => none
  else if tok.startsWith "mk:" then
    let (id, rest) := splitHead (tail3 tok)
    some ({ s with maps := setMap s.maps id (parseEntries rest) }, none)
  else if tok.startsWith "mu:" then
    match (tail3 tok).splitOn "," with
    | [id, t, n] => (getMap s.maps (nat! id)).map (fun m => ({ s with maps := setMap s.maps (nat! id) (setEntry m (nat! t) (int! n)) }, none))
    | _ => none
  else if tok.startsWith "mx:" then
    match (tail3 tok).splitOn "," with
    | [id, t] => (getMap s.maps (nat! id)).map (fun m => ({ s with maps := setMap s.maps (nat! id) (m.filter (·.1 ≠ nat! t)) }, none))
    | _ => none
  else if tok.startsWith "sp:" then
    match (tail3 tok).splitOn "," with
    | [h, id] =>
      match getMap s.maps (nat! id), s.mocks.find? (·.h = nat! h) with
      | some m, some _ =>
        some ({ s with mocks := s.mocks.map (fun x =>
          if x.h = nat! h then { x with st := x.st.withTc (x.st.tc.setPartitionsMap m) } else x) }, none)
      | _, _ => none
    | _ => none
  else if tok.startsWith "sd:" then
    let (h, rest) := splitHead (tail3 tok)
    onMock P s h ("d:" ++ rest)
  else if tok.startsWith "x:" then
    let (h, rest) := splitHead (tail2 tok)
    onMock P s h ("x:" ++ rest)
  else if tok.startsWith "s:" then
    let (h, rest) := splitHead (tail2 tok)
    onMock P s h ("s:" ++ rest)
  else if tok.startsWith "c:" then
    onMock P s (nat! (tail2 tok)) "c"
  else if tok.startsWith "m:" then some (s, none)
  else none

def multiRun (P : Part Int) (fx rc : Bool) : MState → List String → List String → String
  | _, [], acc => " ".intercalate acc.reverse
  | s, t :: ts, acc =>
    match multiTok P fx rc s t with
    | none => "bad-op"
    | some (s', none) => multiRun P fx rc s' ts acc
    | some (s', some o) => multiRun P fx rc s' ts (o :: acc)

/-! consumer -/

def parseKey (s : String) : Option Key :=
  match s.splitOn "," with
  | [t, p] => some (nat! t, int! p)
  | _ => none

def parseKey3 (s : String) : Option (Key × Int) :=
  match s.splitOn "," with
  | [t, p, x] => some ((nat! t, int! p), int! x)
  | _ => none

def parseMeta (s : String) : List (Nat × List Int) :=
  if s = "-" then [] else
  (s.splitOn ";").map (fun e =>
    match e.splitOn "=" with
    | [t, ps] => (nat! t, if ps = "" then [] else (ps.splitOn ".").map int!)
    | _ => (0, []))

def br (tag : String) (rs : List Report) : String := s!"{tag}[{showReports rs}]"

def showPcOut (o : PcOut) (rs : List Report) : String :=
  match o with
  | .ok => "ok"
  | .panic => "panic"
  | .block => "block"
  | .msg off => s!"m{off}"
  | .err c => s!"e{c}"
  | .empty => "empty"
  | .chanClosed => "closed"
  | .consumeOk => br "cok" rs
  | .alreadyConsumed => "dup"
  | .closeRet errs => s!"cl[{showIntList errs}|{showReports rs}]"
  | .notStarted => br "ns" rs

def showCOut (o : COut) (rs : List Report) : String :=
  match o with
  | .ok => "ok"
  | .bad => "bad"
  | .pc po => showPcOut po rs
  | .consumeNoExpectation => br "noexp" rs
  | .hwms l => s!"hw[{",".intercalate (sortS (l.map (fun x => s!"{showKey x.1}={x.2}")))}]"
  | .topics l => s!"tp[{",".intercalate (sortS (l.map toString))}]"
  | .partitions l => s!"pt[{showIntList l}]"
  | .outOfBrokers => br "oob" rs
  | .unknownTopic => "unk"

def parseCOp (tok : String) : Option COp :=
  if tok = "cc" then some .closeAll
  else if tok = "hw" then some .hwms
  else if tok = "tp" then some .topics
  else if tok.startsWith "e:" then (parseKey3 (tail2 tok)).map (fun x => .expect x.1 x.2)
  else if tok.startsWith "ym:" then (parseKey (tail3 tok)).map (fun k => .pc k .yieldMsg)
  else if tok.startsWith "ye:" then (parseKey3 (tail3 tok)).map (fun x => .pc x.1 (.yieldErr x.2))
  else if tok.startsWith "dm:" then (parseKey (tail3 tok)).map (fun k => .pc k .expectMsgsDrained)
  else if tok.startsWith "de:" then (parseKey (tail3 tok)).map (fun k => .pc k .expectErrsDrained)
  else if tok.startsWith "cp:" then (parseKey3 (tail3 tok)).map (fun x => .pc x.1 (.consume x.2))
  else if tok.startsWith "rm:" then (parseKey (tail3 tok)).map (fun k => .pc k .readMsg)
  else if tok.startsWith "re:" then (parseKey (tail3 tok)).map (fun k => .pc k .readErr)
  else if tok.startsWith "pc:" then (parseKey (tail3 tok)).map (fun k => .pc k .close)
  else if tok.startsWith "pa:" then (parseKey (tail3 tok)).map (fun k => .pc k .asyncClose)
  else if tok.startsWith "pt:" then some (.partitions (nat! (tail3 tok)))
  else if tok.startsWith "md:" then some (.setMeta (parseMeta (tail3 tok)))
  else none

def consRun (buf : Nat) : CState → List String → List String → String
  | _, [], acc => " ".intercalate acc.reverse
  | s, t :: ts, acc =>
    match parseCOp t with
    | none => "bad-op"
    | some op =>
      let r := cStep buf s op
      let shown := match op with
        | .closeAll => s!"ok[{plus (sortS (r.2.2.map showReport))}]"
        | _ => showCOut r.2.1 r.2.2
      consRun buf r.1 ts (shown :: acc)

def step (_ : Unit) (t : List String) : Unit × String :=
  match t with
  | "async" :: v :: rs :: re :: part :: ops =>
    if v = "fixed" ∨ v = "pinned" then
      ((), withPart part (.async (v = "fixed") ⟨rs = "1", re = "1"⟩) ops)
    else ((), "bad-op")
  | "sync" :: v :: part :: ops =>
    if v = "chosen" ∨ v = "zero" then ((), withPart part (.sync (v = "chosen")) ops) else ((), "bad-op")
  | "multi" :: av :: sv :: part :: ops =>
    if (av = "fixed" ∨ av = "pinned") ∧ (sv = "chosen" ∨ sv = "zero") then
      match partInt part with
      | some P => ((), multiRun P (av = "fixed") (sv = "chosen") ⟨[], []⟩ ops [])
      | none => ((), "bad-op")
    else ((), "bad-op")
  | "cons" :: buf :: ops => ((), consRun (nat! buf) CState.init ops [])
  | _ => ((), "bad-op")

end Driver.C20

def main : IO Unit := do
  Driver.loop (← IO.getStdin) (← IO.getStdout) Driver.C20.step ()
