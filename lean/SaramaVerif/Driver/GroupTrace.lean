import SaramaVerif.Driver.Util
import SaramaVerif.Model.Group
/-
  Replays the merged coordinator-request / handler-callback sequence of every group scenario through
  Model.Group.step.   Lines:
    greset <retryMax>
    q join <member> <kerror> <dropped> <issuedMember> <issuedGen>
    q sync|heartbeat|commit <member> <gen> <kerror> <dropped>
    h setup <session> <member> <gen> | h claimstart <session> <p> <off> | h claimend <session> <p> | h cleanup <session> | h return <session>
-/
namespace Driver.GroupTrace
open Model.Group Driver

structure DS where
  st : St := {}
  failed : Bool := false

def classify (code : Int) (dropped : Bool) : Verdict :=
  if dropped then .dropped else classOfCode code

def toEv : List String → Option Ev
  | ["q", "join", m, code, d, im, ig] => some (.join (nat! m) (classify (int! code) (d = "1")) (nat! im) (int! ig))
  | ["q", "sync", m, g, code, d] => some (.sync (nat! m) (int! g) (classify (int! code) (d = "1")))
  | ["q", "heartbeat", m, g, code, d] => some (.heartbeat (nat! m) (int! g) (classify (int! code) (d = "1")))
  | ["q", "commit", m, g, code, d] => some (.commit (nat! m) (int! g) (classify (int! code) (d = "1")))
  | ["h", "setup", n, m, g] => some (.setup (nat! n) (nat! m) (int! g))
  | ["h", "claimstart", n, p, _off] => some (.claimStart (nat! n) (nat! p))
  | ["h", "claimend", n, p] => some (.claimEnd (nat! n) (nat! p))
  | ["h", "cleanup", n] => some (.cleanup (nat! n))
  | ["h", "return", n] => some (.ret (nat! n))
  | _ => none

def step (d : DS) (t : List String) : DS × String :=
  match t with
  | ["greset", _rm] => ({}, "ok")
  | _ =>
    if d.failed then (d, "ok") else
    match toEv t with
    | none => (d, "bad-op")
    | some e =>
      match Model.Group.step d.st e with
      | .ok s' => ({ d with st := s' }, "ok")
      | .error m => ({ d with failed := true }, s!"reject: {m}")

end Driver.GroupTrace

