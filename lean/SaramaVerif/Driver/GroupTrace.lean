import SaramaVerif.Driver.Util
import SaramaVerif.Model.Group
import SaramaVerif.Model.GroupWorld
/-
  Replays the merged coordinator-request / handler-callback sequence of every group scenario through
  Model.Group.step.   Lines:
    greset <retryMax>
    q join <member> <kerror> <dropped> <issuedMember> <issuedGen>
    q sync|heartbeat|commit <member> <gen> <kerror> <dropped>
    h setup <session> <member> <gen> | h claimstart <session> <p> <off> | h claimend <session> <p> | h cleanup <session> | h return <session>
  Multi-member scenarios are replayed a second time, interleaved as they happened, through Model.GroupWorld.wstep:
    gw reset | gw <client> <q… or h… line as above> | gw <client> plan <p,p,…|->
-/
namespace Driver.GroupTrace
open Model.Group Driver

structure DS where
  st : St := {}
  failed : Bool := false
  world : Model.GroupWorld.World := {}
  wfailed : Bool := false

def classify (code : Int) (dropped : Bool) : Verdict :=
  if dropped then .dropped else classOfCode code

def toEv : List String → Option Ev
  | ["q", "join", m, code, d, im, ig] => some (.join (nat! m) (classify (int! code) (d = "1")) (nat! im) (int! ig))
  | ["q", "sync", m, g, code, d] => some (.sync (nat! m) (int! g) (classify (int! code) (d = "1")))
  | ["q", "heartbeat", m, g, code, d] => some (.heartbeat (nat! m) (int! g) (classify (int! code) (d = "1")))
  | ["q", "commit", m, g, code, d] => some (.commit (nat! m) (int! g) (classify (int! code) (d = "1")))
  | ["h", "setup", n, m, g] => some (.setup (nat! n) (nat! m) (int! g))
  | ["h", "claimstart", n, p, _off] => some (.claimStart (nat! n) (nat! p))
  | ["h", "claimend", n, p] => some (.claimEnd (nat! n) (nat! p))
  | ["h", "cleanup", n] => some (.cleanup (nat! n))
  | ["h", "return", n] => some (.ret (nat! n))
  | _ => none

def step (d : DS) (t : List String) : DS × String :=
  match t with
  | ["greset", _rm] => ({ d with st := {}, failed := false }, "ok")
  | ["gw", "reset"] => ({ d with world := {}, wfailed := false }, "ok")
  | "gw" :: c :: "plan" :: [ps] =>
    if d.wfailed then (d, "ok") else
    match Model.GroupWorld.wstep d.world (.plan (nat! c) ((intList ps).map Int.toNat)) with
    | .ok w' => ({ d with world := w' }, "ok")
    | .error m => ({ d with wfailed := true }, s!"reject: {m}")
  | "gw" :: c :: rest =>
    if d.wfailed then (d, "ok") else
    match toEv rest with
    | none => (d, "bad-op")
    | some e =>
      match Model.GroupWorld.wstep d.world (.member (nat! c) e) with
      | .ok w' => ({ d with world := w' }, "ok")
      | .error m => ({ d with wfailed := true }, s!"reject: {m}")
  | _ =>
    if d.failed then (d, "ok") else
    match toEv t with
    | none => (d, "bad-op")
    | some e =>
      match Model.Group.step d.st e with
      | .ok s' => ({ d with st := s' }, "ok")
      | .error m => ({ d with failed := true }, s!"reject: {m}")

end Driver.GroupTrace

