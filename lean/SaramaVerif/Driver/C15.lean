import SaramaVerif.Driver.Util
import SaramaVerif.Model.Metadata
/-
  Line-protocol driver for C15 (state = the model's client state).

  reset <seeds>                                   new client state with these seed addresses
  upd <full> <resp>                               updateMetadata(resp, full)
  parts|wparts <t>   meta|leader|reps|isr|off <t> <p>   ctrl      cached getters (no state change)
  apiparts <w> <t> <resp>   apireps <reps|isr|off> <t> <p> <resp>   apileader <t> <p> <resp>
                                                  public getters; <resp> = what the single refresh on a miss gets
  deregseed | deregknown <id> | resurrect | register <id>:<addr> | deregctrl | refreshbrokers <addrs>
  try <full> <attempts> <order/order/..> <live/live/..> <resp> [| <resp> ..]     tryRefreshMetadata
  newclient <full> <retryMax> <seeds> <live/live/..> <resp> [| <resp> ..]

  <resp>  = b=<id:addr,..|-> c=<controller> {t=<name>:<err>:<part;part;..|->}
  <part>  = id/leader/replicas/isr/offline/err   with lists a.b.c or -
-/
namespace Driver.C15
open Model.Metadata Driver

def sepInts (sep : String) (s : String) : List Int :=
  if s = "-" then [] else (s.splitOn sep).map int!

def parsePart (s : String) : Option PartMeta :=
  match s.splitOn "/" with
  | [i, l, r, n, o, e] => some ⟨int! i, int! l, sepInts "." r, sepInts "." n, sepInts "." o, int! e⟩
  | _ => none

def parseParts (s : String) : Option (List PartMeta) :=
  if s = "-" then some [] else (s.splitOn ";").mapM parsePart

def parseTopic (s : String) : Option TopicMeta :=
  if s.startsWith "t=" then
    match ((s.drop 2).toString).splitOn ":" with
    | [n, e, ps] => (parseParts ps).map (fun p => ⟨int! n, int! e, p⟩)
    | _ => none
  else none

def parsePair (s : String) : Option (Int × Addr) :=
  match s.splitOn ":" with
  | [a, b] => some (int! a, int! b)
  | _ => none

def parseBrokers (s : String) : Option (List (Int × Addr)) :=
  if s.startsWith "b=" then
    (if (s.drop 2).toString = "-" then some [] else (((s.drop 2).toString).splitOn ",").mapM parsePair)
  else none

def parseResp : List String → Option Resp
  | b :: c :: ts =>
    if c.startsWith "c=" then
      match parseBrokers b, ts.mapM parseTopic with
      | some bs, some tms => some ⟨bs, int! ((c.drop 2).toString), tms⟩
      | _, _ => none
    else none
  | _ => none

/-- split a token list at the "|" tokens -/
def splitBar : List String → List (List String)
  | [] => [[]]
  | "|" :: r => [] :: splitBar r
  | x :: r => match splitBar r with
    | [] => [[x]]
    | g :: gs => (x :: g) :: gs

def dots (l : List Int) : String := if l.isEmpty then "-" else ".".intercalate (l.map toString)

def showPart (p : PartMeta) : String :=
  s!"{p.id}/{p.leader}/{dots p.replicas}/{dots p.isr}/{dots p.offline}/{p.err}"

def sortOn {α : Type} (key : α → Int) (l : List α) : List α := l.mergeSort (fun a b => decide (key a ≤ key b))

def dump (s : State) : String :=
  let bs := ",".intercalate ((sortOn Prod.fst s.brokers).map (fun b => s!"{b.1}:{b.2}"))
  let md := " ".intercalate ((sortOn Prod.fst s.metadata).map (fun e =>
    s!"{e.1}\{{";".intercalate ((sortOn PartMeta.id e.2).map showPart)}}"))
  let ca := " ".intercalate ((sortOn Prod.fst s.cached).map (fun e =>
    s!"{e.1}\{{showIntList e.2.1}|{showIntList e.2.2}}"))
  s!"B[{bs}] C{s.controller} M[{md}] L[{ca}] K[{showIntList (sortOn id s.tracked)}] S[{showIntList s.seeds}] D[{showIntList s.dead}]"

def showOptList : Option (List Int) → String
  | none => "nil"
  | some [] => "empty"
  | some l => showIntList l

def showLeader : LeaderRes → String
  | .broker i a => s!"B {i}:{a}"
  | .leaderNotAvailable => "LNA"
  | .unknownTopicOrPartition => "UNK"

def showListRes : ListRes → String
  | .ok l => s!"ok {showIntList l}"
  | .okReplicaNotAvailable l => s!"rna {showIntList l}"
  | .err e => s!"E{e}"

def selOf (w : String) : Option (PartMeta → List Int) :=
  if w = "reps" then some PartMeta.replicas
  else if w = "isr" then some PartMeta.isr
  else if w = "off" then some PartMeta.offline
  else none

/-- `RefreshMetadata(topic)` with Retry.Max = 0 against a seed that answers `r` -/
def refreshWith (r : Resp) (s : State) : State × Int :=
  ((updateMetadata s r false).s, (updateMetadata s r false).err)

def pickFrom (order : List Int) (bs : List (Int × Addr)) : Nat :=
  match order.find? (fun i => bs.any (fun b => b.1 == i)) with
  | some i => bs.findIdx (fun b => b.1 == i)
  | none => 0

def envOf (attempts : Nat) (live : List (List Int)) (resps : List Resp) (n : Nat) (a : Addr) : Reach :=
  let k := attempts - n
  let lv := live.getD k (live.getLastD [])
  match resps.getD k (resps.getLastD default) with
  | r => if lv.contains a then .answer r else .fail

def showRes : RefreshRes → String
  | .fromUpdate e => s!"ok e={e}"
  | .fatal e => s!"fatal {e}"
  | .outOfBrokers => "oob"

def step (s : State) (t : List String) : State × String :=
  match t with
  | ["reset", seeds] => (init (intList seeds), "ok")
  | "note" :: _ => (s, "ok")
  | "upd" :: full :: rest =>
    match parseResp rest with
    | some r =>
      let a := updateMetadata s r (full = "1")
      (a.s, s!"r={if a.retry then 1 else 0} e={a.err} | {dump a.s}")
    | none => (s, "bad-op")
  | ["parts", tp] => (s, showOptList (cachedPartitions s (int! tp) false))
  | ["wparts", tp] => (s, showOptList (cachedPartitions s (int! tp) true))
  | ["meta", tp, p] => (s, match cachedMetadata s (int! tp) (int! p) with | none => "none" | some pm => showPart pm)
  | ["leader", tp, p] => (s, showLeader (cachedLeader s (int! tp) (int! p)))
  | [w, tp, p] =>
    match selOf w with
    | some sel => (s, showListRes (replicasVerdict sel (cachedMetadata s (int! tp) (int! p))))
    | none => (s, "bad-op")
  | ["ctrl"] => (s, match cachedController s with | none => "none" | some b => s!"{b.1}:{b.2}")
  | "apiparts" :: w :: tp :: rest =>
    match parseResp rest with
    | some r =>
      let o := apiPartitions (refreshWith r) s (int! tp) (w = "1")
      (o.1, s!"{showListRes o.2} | {dump o.1}")
    | none => (s, "bad-op")
  | "apireps" :: w :: tp :: p :: rest =>
    match selOf w, parseResp rest with
    | some sel, some r =>
      let o := apiReplicas (refreshWith r) sel s (int! tp) (int! p)
      (o.1, s!"{showListRes o.2} | {dump o.1}")
    | _, _ => (s, "bad-op")
  | "apileader" :: tp :: p :: rest =>
    match parseResp rest with
    | some r =>
      let o := apiLeader (refreshWith r) s (int! tp) (int! p)
      (o.1, (match o.2 with
             | .res l => showLeader l
             | .err e => if e = 3 then "UNK" else if e = 5 then "LNA" else s!"E{e}") ++ s!" | {dump o.1}")
    | none => (s, "bad-op")
  | ["deregseed"] => let s' := deregisterSeed s; (s', dump s')
  | ["deregknown", i] => let s' := deregisterKnown s (int! i); (s', dump s')
  | ["resurrect"] => let s' := resurrect s; (s', dump s')
  | ["register", b] =>
    match parsePair b with
    | some p => let s' := registerBroker s p; (s', dump s')
    | none => (s, "bad-op")
  | ["deregctrl"] => let s' := deregisterController s; (s', dump s')
  | ["refreshbrokers", a] => let s' := refreshBrokers s (intList a); (s', dump s')
  | "try" :: full :: attempts :: order :: live :: rest =>
    match (splitBar rest).mapM parseResp with
    | some rs =>
      let n := nat! attempts
      let lv := (live.splitOn "/").map intList
      let ords := (order.splitOn "/").map intList
      let o := tryRefresh (fun k => pickFrom (ords.getD (n - k) [])) (envOf n lv rs) (full = "1") n s
      (o.1, s!"{showRes o.2} | {dump o.1}")
    | none => (s, "bad-op")
  | "newclient" :: full :: retryMax :: seeds :: live :: rest =>
    match (splitBar rest).mapM parseResp with
    | some rs =>
      let n := nat! retryMax
      let lv := (live.splitOn "/").map intList
      let o := newClient (fun _ _ => 0) (envOf n lv rs) (full = "1") n (intList seeds)
      match o.1 with
      | some s' => (s', s!"created | {dump s'}")
      | none => (s, s!"failed e={o.2}")
    | none => (s, "bad-op")
  | _ => (s, "bad-op")

end Driver.C15

def main : IO Unit := do
  Driver.loop (← IO.getStdin) (← IO.getStdout) Driver.C15.step (Model.Metadata.init [])
