import SaramaVerif.Driver.Util
import SaramaVerif.Model.OffsetMgr
/-
  Line protocol of the C06 model driver.  One line = one whole case (so that every line replays alone):

    seq <auto 0|1> <retryMax> <retention 0|1> <initial> <st0,st1,...> ; <op> ; <op> ; ...

  st_i = `n` (nothing stored) or `offset:md`.  Operations:
    mg p | mg p f <retries> <lk><ans>*  (initial fetch fault script: ans = ok|nc|ld|fe|x|k<code>)
    mk p o m | rs p o m | nx p | ac p
    cm a <lk> <reply> [w mk p o m | w rs p o m]*                (Commit(): one attempt)
    cl [a <lk> <reply> [w ...]*]*                                (Close(): scripted final attempts)
  lk = 1 (lookup succeeds) | 0 | 2 (RefreshCoordinator / Coordinator fails);
  reply = r<v0>,<v1>,... (v = KError code or x = missing) | e0 | e1 (connection dropped, not applied / applied)
          | e2 (request swallowed, the client's read times out: for the model the same as e0).
  Header `seqr` instead of `seq`: the harness uses the real sarama client (lookups cannot be scripted: lk = 1 only).

  Answer: the per-operation answers joined by " | ", each followed by the errors delivered and a dump of
  the whole state.
-/
namespace Driver.C06
open Model.OffsetMgr Driver

def splitSemi : List String → List (List String)
  | [] => [[]]
  | t :: ts =>
    match splitSemi ts with
    | [] => [[t]]
    | seg :: segs => if t = ";" then [] :: seg :: segs else (t :: seg) :: segs

def showPair (c : Pair) : String := s!"{c.1}:{c.2}"
def showOPair : Option Pair → String
  | none => "n"
  | some c => showPair c
def b01 (b : Bool) : String := if b then "1" else "0"

def showErr : Err → String
  | .code k => s!"K{k}"
  | .incomplete => "INC"
  | .lookup => "LK"
  | .io => "IO"

def showErrs (es : List (List Err)) : String :=
  ";".intercalate (es.map fun l => if l.isEmpty then "-" else "+".intercalate (l.map showErr))

def showPart (p : PState) : String :=
  if p.obj then s!"{p.offset}:{p.md}:{b01 p.dirty}{b01 p.done}{b01 p.live}" else "_"

def dump (s : Sys) : String :=
  "S " ++ " ".intercalate (s.parts.map showPart) ++ " B" ++ b01 s.broker ++ " T " ++
    ",".intercalate (s.parts.map fun p => showOPair p.store)

def parseStore (t : String) : Option Pair :=
  if t = "n" then none else
  match t.splitOn ":" with
  | [a, b] => some (int! a, int! b)
  | _ => none

def parseVerdict (t : String) : Verdict := if t = "x" then .missing else .code (int! t)

def parseReply (t : String) : Option Reply :=
  if t = "e0" then some (.connErr false)
  else if t = "e1" then some (.connErr true)
  else if t = "e2" then some (.connErr false)
  else if t.startsWith "r" then some (.respond (((t.drop 1).toString.splitOn ",").map parseVerdict))
  else none

/-- window operations `w mk p o m` … up to the next `a` -/
def parseWin : List String → Option (List Op × List String)
  | "w" :: "mk" :: p :: o :: m :: rest =>
    match parseWin rest with
    | some (ws, r) => some (Op.mark (nat! p) (int! o) (int! m) :: ws, r)
    | none => none
  | "w" :: "rs" :: p :: o :: m :: rest =>
    match parseWin rest with
    | some (ws, r) => some (Op.reset (nat! p) (int! o) (int! m) :: ws, r)
    | none => none
  | "w" :: _ => none
  | rest => some ([], rest)

def parseAttempts : Nat → List String → Option (List Attempt)
  | _, [] => some []
  | 0, _ => none
  | fuel + 1, "a" :: lk :: rp :: rest =>
    match parseReply rp, parseWin rest with
    | some r, some (ws, rest') =>
      match parseAttempts fuel rest' with
      | some as => some ({ lk := lk = "1", win := ws, r := r } :: as)
      | none => none
    | _, _ => none
  | _, _ => none

def addErrs (a b : List (List Err)) : List (List Err) := List.zipWith (· ++ ·) a b

/-- run steps, collecting the errors delivered per partition -/
def runErrs (s : Sys) (acc : List (List Err)) : List Op → Sys × List (List Err)
  | [] => (s, acc)
  | op :: ops => runErrs (stepSys s op) (addErrs acc (stepErrs s op)) ops

def noErrs (s : Sys) : List (List Err) := s.parts.map fun _ => []

/-- text of one flushToBroker (what request was built, how far it got) -/
def flushText (ret : Bool) (s : Sys) (a : Attempt) : String :=
  if (stepSys s .construct).active then
    if (stepSys (stepSys s .construct) (.lookup a.lk)).active then
      "req v" ++ toString (reqVersion ret) ++ " " ++
        ",".intercalate ((requestBlocks (stepSys s .construct)).map showOPair)
    else "lkfail"
  else "noreq"

/-- texts of the attempts the close loop makes (attempts that build no request are not visible outside) -/
def closeTexts (ret : Bool) : Sys → List Attempt → List String
  | _, [] => []
  | s, a :: as =>
    if remaining (run s (commitOps s a)) = 0 then [flushText ret s a]
    else flushText ret s a :: closeTexts ret (run s (commitOps s a)) as

structure Cfg where
  real : Bool
  auto : Bool
  retryMax : Nat
  ret : Bool
  ini : Int

def fin (s : Sys) (errs : List (List Err)) (txt : String) : Sys × String :=
  (s, txt ++ " E " ++ showErrs errs ++ " " ++ dump s)

def validP (s : Sys) (p : String) : Bool := p.toNat?.isSome && nat! p < s.parts.length

def parseFetchAns (t : String) : Option FetchAns :=
  if t = "ok" then some .ok else if t = "nc" then some .notCoord else if t = "ld" then some .loading
  else if t = "fe" then some .reqErr else if t = "x" then some .missing
  else if t.startsWith "k" then some (.other (int! (t.drop 1).toString)) else none

/-- `<lk 0|1><ok|nc|ld|fe|x|k<code>>` -/
def parseFetchAtt (t : String) : Option FetchAtt :=
  match parseFetchAns (t.drop 1).toString with
  | some a => if t.startsWith "1" then some ⟨true, a⟩ else if t.startsWith "0" then some ⟨false, a⟩ else none
  | none => none

def parseFetchAtts : List String → Option (List FetchAtt)
  | [] => some []
  | t :: ts =>
    match parseFetchAtt t, parseFetchAtts ts with
    | some a, some as => some (a :: as)
    | _, _ => none

/-- one operation of a case; `none` = malformed. The Bool of the state: `Close()` was called. -/
def doOp (c : Cfg) (s : Sys) (closed : Bool) : List String → Option (Sys × Bool × String)
  | ["mg", p] =>
    if validP s p then
      match s.parts[nat! p]? with
      | some q =>
        let (s', t) := fin (stepSys s (.manage (nat! p))) (noErrs s)
                        (if q.live then "dup" else "new " ++ showPair (fetched q.store))
        some (s', closed, t)
      | none => none
    else none
  | "mg" :: p :: "f" :: r :: atts =>
    -- ManagePartition with a fault script for the initial fetch (`r` = Metadata.Retry.Max)
    if c.real || !validP s p || r.toNat?.isNone then none else
    match parseFetchAtts atts, s.parts[nat! p]? with
    | some script, some q =>
      match fetchInitial s.broker (nat! r) script with
      | .ok _ =>
        let (s', t) := fin (stepSys s (.manage (nat! p))) (noErrs s)
                        (if q.live then "dup" else "new " ++ showPair (fetched q.store))
        some (s', closed, t)
      | .fail e b =>
        let (s', t) := fin (stepSys s (.manageFailed b)) (noErrs s) ("mgerr " ++ showErr e)
        some (s', closed, t)
    | _, _ => none
  | ["mk", p, o, m] =>
    if validP s p then
      let (s', t) := fin (stepSys s (.mark (nat! p) (int! o) (int! m))) (noErrs s) "mk"
      some (s', closed, t)
    else none
  | ["rs", p, o, m] =>
    if validP s p then
      let (s', t) := fin (stepSys s (.reset (nat! p) (int! o) (int! m))) (noErrs s) "rs"
      some (s', closed, t)
    else none
  | ["nx", p] =>
    if validP s p then
      let (s', t) := fin s (noErrs s) (match nextAnswer s (nat! p) c.ini with
                                       | some r => "nx " ++ showPair r
                                       | none => "nopom")
      some (s', closed, t)
    else none
  | ["ac", p] =>
    if validP s p then
      let (s', t) := fin (stepSys s (.aclose (nat! p))) (noErrs s) "ac"
      some (s', closed, t)
    else none
  | "cm" :: rest =>
    if s.active then none else
    match parseAttempts 64 rest with
    | some [a] =>
      if c.real && !a.lk then none else
      let (s', es) := runErrs s (noErrs s) (commitOps s a)
      let (s'', t) := fin s' es ("cm " ++ flushText c.ret s a)
      some (s'', closed, t)
    | _ => none
  | "cl" :: rest =>
    if s.active || closed then none else
    match parseAttempts 64 rest with
    | some as =>
      if c.auto && as.length < c.retryMax + 1 then none else
      if c.real && as.any (fun a => !a.lk) then none else
      let (s', es) := runErrs s (noErrs s) (closeOps s c.auto c.retryMax as)
      let txts := if c.auto then closeTexts c.ret (stepSys s .acloseAll) (as.take (c.retryMax + 1)) else []
      let (s'', t) := fin s' es ("cl " ++ " / ".intercalate (txts.filter (· ≠ "noreq")))
      some (s'', true, t)
    | none => none
  -- fine-grained stream: the steps of Commit() one by one
  | ["cs"] =>
    if s.active then
      let (s', t) := fin s (noErrs s) "busy"
      some (s', closed, t)
    else
      let s1 := stepSys s .construct
      let (s', t) := fin s1 (noErrs s)
        (if s1.active then "req v" ++ toString (reqVersion c.ret) ++ " " ++
            ",".intercalate ((requestBlocks s1).map showOPair) else "noreq")
      some (s', closed, t)
  | ["lk", m] =>
    if c.real && m ≠ "1" then none else
    if !s.active then
      let (s', t) := fin s (noErrs s) "idle"
      some (s', closed, t)
    else if s.broker then
      let (s', t) := fin s (noErrs s) "cached"
      some (s', closed, t)
    else
      let (s', t) := fin (stepSys s (.lookup (m = "1"))) (stepErrs s (.lookup (m = "1")))
                        (if m = "1" then "lkok" else "lkfail")
      some (s', closed, t)
  | ["rp", r] =>
    match parseReply r with
    | some rep =>
      if !s.active then
        let (s', t) := fin s (noErrs s) "idle"
        some (s', closed, t)
      else
        let (s', t) := fin (stepSys s (.reply rep)) (stepErrs s (.reply rep)) "rp"
        some (s', closed, t)
    | none => none
  | ["rl", f] =>
    if f = "1" && s.active then
      let (s', t) := fin s (noErrs s) "busy"
      some (s', closed, t)
    else
      let s1 := stepSys s (.release (f = "1"))
      let (s', t) := fin s1 (noErrs s) ("rl " ++ toString (remaining s1))
      some (s', closed, t)
  | _ => none

def doOps (c : Cfg) : Sys → Bool → List (List String) → List String → Option (List String)
  | _, _, [], acc => some acc.reverse
  | s, closed, seg :: segs, acc =>
    match doOp c s closed seg with
    | some (s', closed', txt) => doOps c s' closed' segs (txt :: acc)
    | none => none

def step (_ : Unit) (t : List String) : Unit × String :=
  match splitSemi t with
  | [hd, auto, rmax, ret, ini, sts] :: segs =>
    if hd ≠ "seq" && hd ≠ "seqr" then ((), "bad-op") else
    let stores := (sts.splitOn ",").map parseStore
    let c : Cfg := { real := hd = "seqr", auto := auto = "1", retryMax := nat! rmax, ret := ret = "1", ini := int! ini }
    match doOps c (sinit stores) false segs [] with
    | some outs => ((), " | ".intercalate outs)
    | none => ((), "bad-op")
  | _ => ((), "bad-op")

end Driver.C06

def main : IO Unit := do
  Driver.loop (← IO.getStdin) (← IO.getStdout) Driver.C06.step ()
