import SaramaVerif.Driver.Util
import SaramaVerif.Model.PipelineScope
/-
  Replay of a real producer run through the composed system model `Model.Pipeline.sysStep` (trace validation of
  the model the theorems of Props/C02sys.lean are about).  The harness translates the hook events of one
  partition into choices; every choice must be enabled in the model state, the token it moves must be the token
  the real component moved, and at the end the model's log, successes and errors must be the simulated
  partition's log and the outcomes the real producer reported.
  Lines (all start with `sys`):
    begin <retryMax> | submit <id> | retryOut <id> <retries> <kind> | dispatch <id> <retries> <kind>
    ppRecv <id> <retries> <kind> <lookups> | bpRecv <w> <id> <retries> <kind> <overflow> | handover <w>
    leader <b> | broker <w> <ok|retr|fatal|conn> <appended> | deliver <w> <still>
    end <log ids> <succ id:offset,…> <err ids>
  kind: d (data) | f (fin chaser) | s (syn);  lookups: `-` or a comma list of worker numbers / `n` (lookup failed).
  Model ids are ranks; `ids` maps a rank to the id the harness gave the message.
-/
namespace Driver.PipelineTrace
open Model Model.Pipeline Driver

structure PS where
  s : Sys := {}
  M : Nat := 0
  ids : Array Int := #[]      -- rank → harness id
  on : Bool := false          -- a replay is running
  failed : Bool := false
  steps : Nat := 0
  cs : List Choice := []      -- the choices replayed so far, newest first
  spurs : Nat := 0

def kindOf (t : Tok) : String :=
  match t.kind with
  | .data => "d"
  | .fin => "f"
  | .syn => "s"

def showTok (p : PS) (t : Tok) : String :=
  match t.kind with
  | .data => s!"data {p.ids.getD t.id.toNat (-1)} (rank {t.id}) retries={t.retries}"
  | .fin => s!"fin retries={t.retries}"
  | .syn => "syn"

/-- does the model token `t` match the observed (id, retries, kind)? -/
def tokIs (p : PS) (t : Tok) (id : Int) (r : Nat) (k : String) : Bool :=
  kindOf t == k && (k == "s" || t.retries == r) && (k != "d" || p.ids.getD t.id.toNat (-1) == id)

def reject (p : PS) (m : String) : PS × String := ({ p with failed := true }, s!"reject: sys step {p.steps}: {m}")

def headCheck (p : PS) (what : String) (q : List Tok) (id : Int) (r : Nat) (k : String) : Option String :=
  match q with
  | [] => some s!"{what} is empty in the model, the real component took {k} {id} retries={r}"
  | t :: _ => if tokIs p t id r k then none else some s!"head of {what} is {showTok p t}, the real component took {k} {id} retries={r}"

def doStep (p : PS) (c : Choice) (what : String) : PS × String :=
  match sysStep p.M p.s c with
  | some s' => ({ p with s := s', steps := p.steps + 1, cs := c :: p.cs }, "ok")
  | none => reject p s!"{what} is not enabled in the model state"

def parseLks (s : String) : List (Option Nat) :=
  if s = "-" then [] else (s.splitOn ",").map (fun x => if x = "n" then none else some (nat! x))

def parseSucc (s : String) : List (Int × Nat) :=
  if s = "-" then [] else (s.splitOn ",").map (fun x =>
    match x.splitOn ":" with
    | [a, b] => (int! a, nat! b)
    | _ => (0, 0))

def sortInts (l : List Int) : List Int := (l.toArray.qsort (· < ·)).toList
def sortPairs (l : List (Int × Nat)) : List (Int × Nat) :=
  (l.toArray.qsort (fun a b => a.1 < b.1 || (a.1 == b.1 && a.2 < b.2))).toList

def mapIds (p : PS) (l : List Int) : List Int := l.map (fun r => p.ids.getD r.toNat (-1))

def step (p : PS) (t : List String) : PS × String :=
  match t with
  | ["begin", m] => ({ s := {}, M := nat! m, ids := #[], on := true, failed := false, steps := 0, cs := [], spurs := 0 }, "ok")
  | ["scope2"] =>
    -- "proved": the replayed choices satisfy HandoverChain and the replay never armed `stale` (every step is a choice
    -- of the proved model): the run is covered by log_order_handover_chain / no_stuck_state / moves_bounded
    if p.failed then (p, "ok")
    else (p, if !chainScope p.cs.reverse then "outside" else if p.spurs == 0 then "proved" else "spur")
  | ["scope"] =>
    -- which proved scope the replayed choice sequence is in (Props.C02sys.chainScope_iff)
    if p.failed then (p, "ok")
    else (p, if chainScope p.cs.reverse then "chain" else "outside")
  | _ =>
    if p.failed || !p.on then (p, "ok") else
    match t with
    | ["submit", id] => doStep { p with ids := p.ids.push (int! id) } .submit "submit"
    | ["retryOut", id, r, k] =>
      match headCheck p "the retries queue" p.s.ret (int! id) (nat! r) k with
      | some m => reject p m
      | none => doStep p .retryOut "retryOut"
    | ["dispatch", id, r, k] =>
      match headCheck p "p.input" p.s.dq (int! id) (nat! r) k with
      | some m => reject p m
      | none => doStep p .dispatch "dispatch"
    | ["ppRecv", id, r, k, lks] =>
      match headCheck p "pp.input" p.s.pq (int! id) (nat! r) k with
      | some m => reject p m
      | none => doStep p (.ppRecv (parseLks lks)) "ppRecv"
    | ["bpRecv", w, id, r, k, ov] =>
      match headCheck p s!"the input of worker {w}" (p.s.wk (nat! w)).inq (int! id) (nat! r) k with
      | some m => reject p m
      | none => doStep p (.bpRecv (nat! w) (ov == "1")) s!"bpRecv of worker {w}"
    | ["spur", w] =>
      -- PROJECTION of a run with several partitions on one of them: the worker hands a set to the bridge that holds
      -- no message of this partition.  `Model.Pipeline` (one partition) allows an empty set only after the `stale`
      -- defect; the replay arms it here.  Not a choice of the proved model (open: a `spur` choice, see lib/props_C02.py).
      let k := nat! w
      let wk := p.s.wk k
      let b : BrokerProd.St := { wk.bp with stale := true }
      let s' : Sys := { p.s with wk := setW p.s.wk k ⟨wk.inq, b, wk.pend⟩ }
      ({ p with s := s', spurs := p.spurs + 1 }, "ok")
    | ["closeW", w] => doStep p (.closeW (nat! w)) s!"closeW of worker {w}"
    | ["connEmpty", w, still] =>
      -- a request that carries nothing of this partition fails with a connection error and closes worker `w`.
      -- In the one-partition model: the current worker, holding nothing, is closed (`closeW`); a worker that holds
      -- something of the partition hands it over, the request fails, the answer is delivered; a worker that
      -- already refuses the partition and holds nothing is not affected.
      let k := nat! w
      if canClose p.s k then doStep p (.closeW k) s!"closeW of worker {w}"
      else match sysStep p.M p.s (.handover k) with
        | some s1 =>
          let p1 := { p with s := s1, steps := p.steps + 1, cs := Choice.handover k :: p.cs }
          match doStep p1 (.broker k (.conn false)) s!"broker step of worker {w} (conn)" with
          | (p2, "ok") => doStep p2 (.deliver k (still == "1")) s!"deliver to worker {w}"
          | r => r
        | none =>
          if (BrokerProd.needsRetry (p.s.wk k).bp 0 || p.s.cur != some k) && (p.s.wk k).bp.sets.isEmpty &&
              (p.s.wk k).pend.isNone then (p, "ok")   -- a worker the partition has left, or that refuses it already
          else reject p s!"worker {w} is closed by a foreign request in a state the model has no step for"
    | ["handover", w] => doStep p (.handover (nat! w)) s!"handover of worker {w}"
    | ["leader", b] => doStep p (.moveLeader (nat! b)) "moveLeader"
    | ["broker", w, v, app] =>
      let a := app == "1"
      let vd : Option Pipeline.Verdict := match v with
        | "ok" => some .ok
        | "retr" => some (.retriable a)
        | "fatal" => some .fatal
        | "conn" => some (.conn a)
        | _ => none
      match vd with
      | none => reject p s!"unknown verdict {v}"
      | some vd =>
        if vd.appends != a then reject p s!"verdict {v} with appended={app} is outside the broker model"
        else doStep p (.broker (nat! w) vd) s!"broker step of worker {w} ({v}, appended={app})"
    | ["deliver", w, still] => doStep p (.deliver (nat! w) (still == "1")) s!"deliver to worker {w}"
    | ["end", log, succ, errs] =>
      let mlog := mapIds p p.s.log
      let msucc := sortPairs (p.s.succ.map (fun x => (p.ids.getD x.1.toNat (-1), x.2)))
      let merrs := sortInts (mapIds p p.s.errs)
      if p.s.crash then reject p "the model ran newHighWatermark without a broker worker"
      else if mlog != intList log then
        reject p s!"partition log differs: model {showIntList mlog}, simulated broker {log}"
      else if msucc != sortPairs (parseSucc succ) then
        reject p s!"successes differ: model {msucc}, reported {succ}"
      else if merrs != sortInts (intList errs) then
        reject p s!"errors differ: model {showIntList merrs}, reported {errs}"
      else ({ p with on := false }, "ok")
    | _ => (p, "bad-op")

end Driver.PipelineTrace
