import SaramaVerif.Driver.ProducerTrace
import SaramaVerif.Driver.FeederTrace
/- C18 driver: producer traces (reset/ev/bb/end lines) and consumer feeder traces (creset/cf lines) -/
structure Both where
  p : Driver.ProducerTrace.DS
  c : Driver.FeederTrace.DS

def bothStep (b : Both) (t : List String) : Both × String :=
  match t with
  | "creset" :: _ | "cf" :: _ =>
    let r := Driver.FeederTrace.step b.c t
    ({ b with c := r.1 }, r.2)
  | _ =>
    let r := Driver.ProducerTrace.step b.p t
    ({ b with p := r.1 }, r.2)

def main : IO Unit := do
  Driver.loop (← IO.getStdin) (← IO.getStdout) bothStep
    { p := { st := Model.Producer.init { retryMax := 0, icepts := 0, idem := false }, failed := false }, c := {} }
