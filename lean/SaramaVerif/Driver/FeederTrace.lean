import SaramaVerif.Driver.Util
import SaramaVerif.Model.Feeder
/-
  Replays the feeder hook events of consumer scenarios through Model.Feeder.step, one state per partition.
  Lines: creset | cf <kind> <partition> <value>.   Answer: ok | reject: <reason>
-/
namespace Driver.FeederTrace
open Model.Feeder Driver

structure DS where
  parts : List (Int × St) := []
  failed : Bool := false

def get (l : List (Int × St)) (p : Int) : St :=
  match l.find? (fun x => x.1 = p) with
  | some x => x.2
  | none => {}

def set (l : List (Int × St)) (p : Int) (s : St) : List (Int × St) := (p, s) :: l.filter (fun x => x.1 ≠ p)

def toEv (kind : String) (v : Int) : Option Ev :=
  match kind with
  | "parsed" => some (.parsed v.toNat)
  | "icept" => some (.icept v)
  | "deliver" => some (.deliver v)
  | "ack" => some (.ack v.toNat)
  | "abandon" => some (.abandon v)
  | "resubscribe" => some .resubscribe
  | "closed" => some .closed
  | _ => none

def step (d : DS) (t : List String) : DS × String :=
  match t with
  | ["creset"] => ({}, "ok")
  | ["cf", kind, p, v] =>
    if d.failed then (d, "ok") else
    match toEv kind (int! v) with
    | none => ({ d with failed := true }, s!"reject: unknown feeder event {kind}")
    | some e =>
      match Model.Feeder.step (get d.parts (int! p)) e with
      | .ok s' => ({ d with parts := set d.parts (int! p) s' }, "ok")
      | .error m => ({ d with failed := true }, s!"reject: partition {p}: {m}")
  | _ => (d, "bad-op")

end Driver.FeederTrace
