import SaramaVerif.Model.ConsumerParseWire
/- line-protocol driver of the consumer-parse model (protocol: Model/ConsumerParseWire.lean) -/
def main : IO Unit := do
  Driver.loop (← IO.getStdin) (← IO.getStdout) Model.ConsumerParse.Wire.step Model.ConsumerParse.Wire.DState.init
