/-
  GoSem: the fragment of Go's integer semantics that the regenerated definitions (`Gen/*.lean`) and the
  hand-written models use.  Fixed-width Go integers are modelled as `Int` values kept in range by explicit
  wrap functions, so that `omega` can reason about them.  Core-only (no Mathlib).
-/
namespace Go

/-- two's complement wrap of an unbounded integer into int32 -/
def wrap32 (x : Int) : Int := (x + 2147483648) % 4294967296 - 2147483648
/-- two's complement wrap into int64 -/
def wrap64 (x : Int) : Int := (x + 9223372036854775808) % 18446744073709551616 - 9223372036854775808
/-- wrap into uint32 -/
def wrapU32 (x : Int) : Int := x % 4294967296

def InI32 (x : Int) : Prop := -2147483648 ≤ x ∧ x ≤ 2147483647
def InI64 (x : Int) : Prop := -9223372036854775808 ≤ x ∧ x ≤ 9223372036854775807
def InU32 (x : Int) : Prop := 0 ≤ x ∧ x ≤ 4294967295

instance (x : Int) : Decidable (InI32 x) := by unfold InI32; infer_instance
instance (x : Int) : Decidable (InI64 x) := by unfold InI64; infer_instance
instance (x : Int) : Decidable (InU32 x) := by unfold InU32; infer_instance

def add32 (a b : Int) : Int := wrap32 (a + b)
def sub32 (a b : Int) : Int := wrap32 (a - b)
def mul32 (a b : Int) : Int := wrap32 (a * b)
def neg32 (a : Int) : Int := wrap32 (-a)
/-- Go `/` on signed integers truncates toward zero -/
def div32 (a b : Int) : Int := wrap32 (Int.tdiv a b)
/-- Go `%` on signed integers: sign follows the dividend -/
def rem32 (a b : Int) : Int := wrap32 (Int.tmod a b)
def and32 (a b : Int) : Int := (BitVec.ofInt 32 a &&& BitVec.ofInt 32 b).toInt

def add64 (a b : Int) : Int := wrap64 (a + b)
def sub64 (a b : Int) : Int := wrap64 (a - b)
def mul64 (a b : Int) : Int := wrap64 (a * b)
def neg64 (a : Int) : Int := wrap64 (-a)
def div64 (a b : Int) : Int := wrap64 (Int.tdiv a b)
def rem64 (a b : Int) : Int := wrap64 (Int.tmod a b)

/-- conversion `int32(x)` from any integer type -/
def toI32 (x : Int) : Int := wrap32 x
def toI64 (x : Int) : Int := wrap64 x

theorem wrap32_id {x : Int} (h : InI32 x) : wrap32 x = x := by
  unfold InI32 at h; unfold wrap32; omega
theorem wrap64_id {x : Int} (h : InI64 x) : wrap64 x = x := by
  unfold InI64 at h; unfold wrap64; omega
theorem wrap32_in (x : Int) : InI32 (wrap32 x) := by unfold InI32 wrap32; omega
theorem wrap64_in (x : Int) : InI64 (wrap64 x) := by unfold InI64 wrap64; omega

/-- clearing the sign bit of an int32 whose unsigned reading is `h` -/
theorem and32_mask31_of_u32 (h : Int) (hh : InU32 h) :
    and32 (wrap32 h) 2147483647 = h % 2147483648 := by
  unfold InU32 at hh
  unfold and32
  have e1 : BitVec.ofInt 32 (wrap32 h) = BitVec.ofNat 32 h.toNat := by
    apply BitVec.eq_of_toNat_eq
    simp only [BitVec.toNat_ofInt, BitVec.toNat_ofNat, wrap32]
    omega
  have e2 : BitVec.ofInt 32 2147483647 = BitVec.ofNat 32 (2^31 - 1) := by decide
  rw [e1, e2]
  have e3 : (BitVec.ofNat 32 h.toNat &&& BitVec.ofNat 32 (2^31-1)).toNat = h.toNat % 2^31 := by
    simp only [BitVec.toNat_and, BitVec.toNat_ofNat]
    have : h.toNat % 2^32 = h.toNat := Nat.mod_eq_of_lt (by omega)
    rw [this]
    have : (2^31 - 1) % 2^32 = 2^31 - 1 := by decide
    rw [this]
    exact Nat.and_two_pow_sub_one_eq_mod _ _
  rw [BitVec.toInt_eq_toNat_cond, e3]
  have : h.toNat % 2^31 < 2^31 := Nat.mod_lt _ (by decide)
  simp only [show (2:Nat)^32 = 4294967296 from by decide, show (2:Nat)^31 = 2147483648 from by decide] at *
  split <;> omega

end Go
