import SaramaVerif.Model.CodecFmt
/-
  Operational model of the three packet machines: `prepEncoder`, `realEncoder`, `realDecoder` as state
  machines over the sequence of calls an `encode`/`decode` method makes on its `packetEncoder` /
  `packetDecoder` argument (primitives, push, pop).  This is the level at which the harness observes the real
  protocol bodies (a recording packetEncoder/packetDecoder), so every body × version × value is compared here.

  `Fmt`/`Val` (CodecFmt.lean) denote call sequences: `toks f ver v`; see Props.C09.machine_* for the link.
-/
namespace Model.Codec

inductive PushKind
  | len32
  | crc (p : Poly)
  | varlen
  deriving DecidableEq, Repr

/-- one call on a packetEncoder -/
inductive Tok
  | prim (p : Prim) (v : Val)          -- putX(v)
  | arrLen (n : Int)                   -- putArrayLength(n)
  | cArrLen (n : Int)                  -- putCompactArrayLength(n)
  | push (k : PushKind) (stale : Int)  -- push(field); `stale` = the `length` a varintLengthField holds at that moment
  | pop

/-! ### prepEncoder -/

structure PrepFrame where
  kind : PushKind
  start : Int
  fieldLen : Int      -- `l.length` of a varintLengthField when it was pushed

structure PrepSt where
  length : Int := 0
  stack : List PrepFrame := []
  ok : Bool := true                  -- false after pop on an empty stack (a Go panic)

def reserveLength (k : PushKind) (fieldLen : Int) : Int :=
  match k with
  | .len32 => 4
  | .crc _ => 4
  | .varlen => (prepVarint fieldLen : Nat)

/-- `adjustLength` of a varint length field pushed at `start` holding `fieldLen`, popped at `cur`:
    (new `l.length`, what is added to `prepEncoder.length`) -/
def adjustLength (cur start fieldLen : Int) : Int × Int :=
  (cur - start - reserveLength .varlen fieldLen,
   reserveLength .varlen (cur - start - reserveLength .varlen fieldLen) - reserveLength .varlen fieldLen)

def prepStep (s : PrepSt) : Tok → PrepSt
  | .prim p v => { s with length := s.length + (sizeP p v : Nat) }
  | .arrLen _ => { s with length := s.length + 4 }
  | .cArrLen n => { s with length := s.length + (prepUVarint (n + 1).toNat : Nat) }
  | .push k stale =>
    { s with length := s.length + reserveLength k stale, stack := ⟨k, s.length, stale⟩ :: s.stack }
  | .pop =>
    match s.stack with
    | [] => { s with ok := false }
    | f :: st =>
      match f.kind with
      | .varlen => { s with stack := st, length := s.length + (adjustLength s.length f.start f.fieldLen).2 }
      | _ => { s with stack := st }

def runPrepFrom (s : PrepSt) (ts : List Tok) : PrepSt := ts.foldl prepStep s
def runPrep (ts : List Tok) : PrepSt := runPrepFrom {} ts

/-! ### realEncoder -/

structure RealFrame where
  kind : PushKind
  start : Nat
  fieldLen : Int

structure RealSt where
  buf : Bytes := []
  stack : List RealFrame := []
  ok : Bool := true

def zeros (n : Nat) : Bytes := List.replicate n 0

/-- overwrite `buf[start : start+len(field)]` -/
def patch (buf : Bytes) (start : Nat) (field : Bytes) : Bytes :=
  buf.take start ++ field ++ buf.drop (start + field.length)

/-- the real pass: a varint length field reserves room for, and at pop writes, the length it holds when it is
    pushed (`fieldLen` of the push token: the value the prep pass stored in it) -/
def realStep (s : RealSt) : Tok → RealSt
  | .prim p v => { s with buf := s.buf ++ encP p v }
  | .arrLen n => { s with buf := s.buf ++ putArrayLength n }
  | .cArrLen n => { s with buf := s.buf ++ putUVarint (n + 1).toNat }
  | .push k fieldLen =>
    { s with buf := s.buf ++ zeros (reserveLength k fieldLen).toNat, stack := ⟨k, s.buf.length, fieldLen⟩ :: s.stack }
  | .pop =>
    match s.stack with
    | [] => { s with ok := false }
    | f :: st =>
      match f.kind with
      | .len32 => { s with stack := st, buf := patch s.buf f.start (putInt 4 ((s.buf.length : Int) - f.start - 4)) }
      | .crc p => { s with stack := st, buf := patch s.buf f.start (be 4 (crc32 p (s.buf.drop (f.start + 4)))) }
      | .varlen => { s with stack := st, buf := patch s.buf f.start (putVarint f.fieldLen) }

def runRealFrom (s : RealSt) (ts : List Tok) : RealSt := ts.foldl realStep s
def runReal (ts : List Tok) : RealSt := runRealFrom {} ts

/-- `encode(e)`: prep pass, buffer of that size, real pass -/
def runEncode (ts : List Tok) : Int × Bytes := ((runPrep ts).length, (runReal ts).buf)

/-! ### realDecoder -/

/-- one call on a packetDecoder -/
inductive DTok
  | prim (p : Prim)
  | arrLen
  | cArrLen
  | raw (n : Int)          -- getRawBytes(n) / getSubset(n)
  | remaining
  | peek8 (off : Int)
  | push (k : PushKind)
  | pop

inductive DOut
  | val (v : Val)
  | int (i : Int)
  | ok
  | err

structure DecFrame where
  kind : PushKind
  start : Nat          -- offset of the field
  dataStart : Nat      -- offset after the field as it was read
  fieldLen : Int

structure DecSt where
  raw : Bytes
  off : Nat := 0
  stack : List DecFrame := []
  outs : List DOut := []      -- reversed
  failed : Bool := false

def DecSt.rest (s : DecSt) : Bytes := s.raw.drop s.off

def DecSt.advance (s : DecSt) (rest' : Bytes) (o : DOut) : DecSt :=
  { s with off := s.raw.length - rest'.length, outs := o :: s.outs }

def DecSt.fail (s : DecSt) : DecSt := { s with outs := .err :: s.outs, failed := true }

def decStep (s : DecSt) (t : DTok) : DecSt :=
  if s.failed then s else
  match t with
  | .prim p =>
    (match decP p s.rest with
     | none => s.fail
     | some (v, r) => s.advance r (.val v))
  | .arrLen =>
    (match getArrayLength s.rest with
     | none => s.fail
     | some (n, r) => s.advance r (.int n))
  | .cArrLen =>
    (match getCompactArrayLength s.rest with
     | none => s.fail
     | some (n, r) => s.advance r (.int n))
  | .raw n =>
    (match getRaw n s.rest with
     | none => s.fail
     | some (b, r) => s.advance r (.val (.bytes b)))
  | .remaining => { s with outs := .int s.rest.length :: s.outs }
  | .peek8 o =>
    if o < 0 ∨ (s.rest.length : Int) < o + 1 then s.fail
    else { s with outs := .int (toS 1 (fromBE ((s.rest.drop o.toNat).take 1))) :: s.outs }
  | .push k =>
    (match k with
     | .len32 =>
       -- lengthField.decode
       (match getInt 4 s.rest with
        | none => s.fail
        | some (n, r) =>
          if n > r.length then s.fail
          else { (s.advance r .ok) with stack := ⟨k, s.off, s.off + 4, n⟩ :: s.stack })
     | .varlen =>
       (match getVarint s.rest with
        | none => s.fail
        | some (n, r) => { (s.advance r .ok) with stack := ⟨k, s.off, s.raw.length - r.length, n⟩ :: s.stack })
     | .crc _ =>
       if s.rest.length < 4 then s.fail
       else { s with off := s.off + 4, outs := .ok :: s.outs, stack := ⟨k, s.off, s.off + 4, 0⟩ :: s.stack })
  | .pop =>
    match s.stack with
    | [] => s.fail
    | f :: st =>
      match f.kind with
      | .len32 =>
        if ((s.off : Int) - f.start - 4) = f.fieldLen then { s with stack := st, outs := .ok :: s.outs }
        else { s.fail with stack := st }
      | .varlen =>
        -- varintLengthField.check: curOffset − startOffset − (size of the varint as read) = length
        if ((s.off : Int) - f.dataStart) = f.fieldLen then { s with stack := st, outs := .ok :: s.outs }
        else { s.fail with stack := st }
      | .crc p =>
        if crc32 p ((s.raw.drop (f.start + 4)).take (s.off - (f.start + 4))) = fromBE ((s.raw.drop f.start).take 4)
        then { s with stack := st, outs := .ok :: s.outs }
        else { s.fail with stack := st }

def runDecode (raw : Bytes) (ts : List DTok) : DecSt := ts.foldl decStep { raw := raw }

/-! ### schemas as call sequences -/

/-- the calls `encode` makes for a schema/value (the count of an `i32null` null array is `putInt32(-1)`,
    which writes what `putArrayLength(-1)` writes) -/
def countTok : Count → Option Nat → List Tok
  | .i32, some n => [.arrLen n]
  | .i32null, some n => [.arrLen n]
  | .i32null, none => [.arrLen (-1)]
  | .compact, some n => [.cArrLen n]
  | .varint, some n => [.prim .varint (.int n)]
  | _, none => []

/-- `fresh = true`: the varint length fields hold 0 when pushed (first prep pass over a new value);
    `fresh = false`: they hold the size of their body (every later pass, in particular the real pass) -/
def toks (fresh : Bool) : Fmt → Nat → Val → List Tok
  | .prim p, _, v => [.prim p v]
  | .unit, _, _ => []
  | .seq a b, ver, .pair x y => toks fresh a ver x ++ toks fresh b ver y
  | .seq _ _, _, _ => []
  | .ite lo hi a b, ver, v => if lo ≤ ver ∧ ver ≤ hi then toks fresh a ver v else toks fresh b ver v
  | .arr c e, ver, .list vs => countTok c (some vs.length) ++ (vs.map (toks fresh e ver)).flatten
  | .arr c _, _, .null => countTok c none
  | .arr _ _, _, _ => []
  | .len32 f, ver, v => [.push .len32 0] ++ toks fresh f ver v ++ [.pop]
  | .varlen f, ver, v => [.push .varlen (if fresh then 0 else (size f ver v : Nat))] ++ toks fresh f ver v ++ [.pop]
  | .crc p f, ver, v => [.push (.crc p) 0] ++ toks fresh f ver v ++ [.pop]

end Model.Codec
