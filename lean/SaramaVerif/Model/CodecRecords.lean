import SaramaVerif.Model.CodecFmt
/-
  Hand models of the record formats (record.go, record_batch.go, records.go, message.go, message_set.go,
  timestamp.go).  Compression (compress.go / decompress.go → gzip, snappy, lz4, zstd libraries) is a pair of
  parameters `comp`/`decomp`; theorems assume the law `decomp c (comp c x) = some x` on the payloads involved.

  Timestamps are the int64 millisecond values on the wire (−1 = Go's zero time; `Timestamp.decode` maps every
  negative value to the zero time, i.e. to −1 when re-encoded).
-/
namespace Model.Codec

/-! ## compress.go / decompress.go: the codec switch around the library calls -/

/-- `compress(cc, level, data)`: `lib` stands for gzip / snappy / lz4 / zstd (codecs 1–4) -/
def compress (lib : Int → Bytes → Bytes) (codec : Int) (data : Bytes) : Bytes :=
  if codec = 0 then data else lib codec data

/-- `decompress(cc, data)`: unknown codec → error -/
def decompress (lib : Int → Bytes → Option Bytes) (codec : Int) (data : Bytes) : Option Bytes :=
  if codec = 0 then some data else if 1 ≤ codec ∧ codec ≤ 4 then lib codec data else none

/-! ## Record (magic 2) as a schema -/

def headerFmt : Fmt := .seq (.prim .vbytes) (.prim .vbytes)

/-- `Record.encode` between push(&r.length) and pop() -/
def recordBodyFmt : Fmt :=
  .seq (.prim .i8) (.seq (.prim .varint) (.seq (.prim .varint) (.seq (.prim .vbytes) (.seq (.prim .vbytes)
    (.arr .varint headerFmt)))))

def recordFmt : Fmt := .varlen recordBodyFmt

structure Record where
  attributes : Int
  timestampDelta : Int      -- milliseconds
  offsetDelta : Int
  key : Option Bytes
  value : Option Bytes
  headers : List (Option Bytes × Option Bytes)

def headerVal (h : Option Bytes × Option Bytes) : Val := .pair (optBytesVal h.1) (optBytesVal h.2)

def Record.toVal (r : Record) : Val :=
  .pair (.int r.attributes) (.pair (.int r.timestampDelta) (.pair (.int r.offsetDelta)
    (.pair (optBytesVal r.key) (.pair (optBytesVal r.value) (.list (r.headers.map headerVal))))))

def valOptBytes : Val → Option (Option Bytes)
  | .null => some none
  | .bytes b => some (some b)
  | _ => none

def valHeader : Val → Option (Option Bytes × Option Bytes)
  | .pair a b =>
    match valOptBytes a, valOptBytes b with
    | some x, some y => some (x, y)
    | _, _ => none
  | _ => none

def valHeaders : List Val → Option (List (Option Bytes × Option Bytes))
  | [] => some []
  | v :: vs =>
    match valHeader v, valHeaders vs with
    | some h, some hs => some (h :: hs)
    | _, _ => none

def Record.ofVal : Val → Option Record
  | .pair (.int a) (.pair (.int t) (.pair (.int o) (.pair k (.pair v (.list hs))))) =>
    match valOptBytes k, valOptBytes v, valHeaders hs with
    | some k', some v', some hs' => some ⟨a, t, o, k', v', hs'⟩
    | _, _, _ => none
  | _ => none

def encRecord (r : Record) : Bytes := enc recordFmt 0 r.toVal
def sizeRecord (r : Record) : Nat := size recordFmt 0 r.toVal
def decRecord (bs : Bytes) : Option (Record × Bytes) :=
  match dec recordFmt 0 bs with
  | none => none
  | some (v, rest) =>
    match Record.ofVal v with
    | none => none
    | some r => some (r, rest)

def Record.WT (r : Record) : Bool := Model.Codec.WT recordFmt 0 r.toVal

/-- `recordsArray.encode`: the records one after the other, no count -/
def encRecords (rs : List Record) : Bytes := (rs.map encRecord).flatten

/-- `recordsArray.decode` over a slice of `n` slots -/
def decRecords : Nat → Bytes → Option (List Record × Bytes)
  | 0, bs => some ([], bs)
  | n + 1, bs =>
    match decRecord bs with
    | none => none
    | some (r, rest) =>
      match decRecords n rest with
      | none => none
      | some (rs, rest') => some (r :: rs, rest')

/-! ## RecordBatch (magic 2) -/

structure Batch where
  firstOffset : Int
  partitionLeaderEpoch : Int
  magic : Int                 -- `Version`; the encoder insists on 2
  codec : Int                 -- attributes & 7
  control : Bool
  logAppendTime : Bool
  isTransactional : Bool
  lastOffsetDelta : Int
  firstTimestamp : Int
  maxTimestamp : Int
  producerID : Int
  producerEpoch : Int
  firstSequence : Int
  records : List Record
  partialTrailing : Bool := false

/-- `computeAttributes` -/
def Batch.attributes (b : Batch) : Int :=
  b.codec % 8 + (if b.control then 32 else 0) + (if b.logAppendTime then 8 else 0) + (if b.isTransactional then 16 else 0)

/-- the part of the batch the CRC covers (from the attributes on) -/
def Batch.crcBody (comp : Int → Bytes → Bytes) (b : Batch) : Bytes :=
  putInt 2 b.attributes ++ putInt 4 b.lastOffsetDelta ++ putInt 8 b.firstTimestamp ++ putInt 8 b.maxTimestamp ++
  putInt 8 b.producerID ++ putInt 2 b.producerEpoch ++ putInt 4 b.firstSequence ++
  putArrayLength b.records.length ++ comp b.codec (encRecords b.records)

/-- the part of the batch the length prefix covers (from the partition leader epoch on) -/
def Batch.lenBody (comp : Int → Bytes → Bytes) (b : Batch) : Bytes :=
  putInt 4 b.partitionLeaderEpoch ++ putInt 1 b.magic ++ putCrc .castagnoli (b.crcBody comp)

/-- `RecordBatch.encode` -/
def encBatch (comp : Int → Bytes → Bytes) (b : Batch) : Bytes :=
  putInt 8 b.firstOffset ++ putLen32 (b.lenBody comp)

/-- prep pass of `RecordBatch.encode` -/
def sizeBatch (comp : Int → Bytes → Bytes) (b : Batch) : Nat :=
  8 + 4 + 4 + 1 + 4 + 2 + 4 + 8 + 8 + 8 + 2 + 4 + 4 + (comp b.codec (encRecords b.records)).length

/-- `Timestamp.decode`: negative ⇒ zero time (−1 on the wire) -/
def normTs (t : Int) : Int := if t < 0 then -1 else t

def bit (x : Int) (mask : Int) : Bool := (x / mask) % 2 = 1

/-- consecutive fixed-width signed integers of the given byte widths -/
def putFields : List Nat → List Int → Bytes
  | w :: ws, x :: xs => putInt w x ++ putFields ws xs
  | _, _ => []

def getFields : List Nat → Bytes → Option (List Int × Bytes)
  | [], bs => some ([], bs)
  | w :: ws, bs =>
    match getInt w bs with
    | none => none
    | some (x, r) =>
      match getFields ws r with
      | none => none
      | some (xs, r') => some (x :: xs, r')

/-- the fixed-width fields of a decoded batch header -/
def batchHdr (firstOffset ple magic attrs lod fts mts pid pepoch fseq : Int) : Batch :=
  { firstOffset := firstOffset, partitionLeaderEpoch := ple, magic := magic,
    codec := (toU 1 attrs : Int) % 8, control := bit (toU 2 attrs) 32,
    logAppendTime := bit (toU 2 attrs) 8, isTransactional := bit (toU 2 attrs) 16,
    lastOffsetDelta := lod, firstTimestamp := normTs fts, maxTimestamp := normTs mts,
    producerID := pid, producerEpoch := pepoch, firstSequence := fseq, records := [] }

/-- `RecordBatch.decode` after the record count: slice `batchLen − 49` bytes of records (a short input makes
    the batch a partial trailing one: no error, no records), check the CRC (pop), decompress; a count the
    decompressed records cannot hold (every record takes at least one byte) also gives a partial batch; decode the
    records, which must use up the decompressed buffer.  `c0` = input after the CRC field, `c8` = input after
    the record count. -/
def decBatchTail (decomp : Int → Bytes → Option Bytes) (hdr : Batch) (batchLen : Int) (crc : Nat)
    (c0 c8 : Bytes) (numRecs : Int) : Option (Batch × Bytes) :=
  if batchLen - 49 < 0 then none
  else if (batchLen - 49).toNat > c8.length then some ({ hdr with partialTrailing := true }, [])
  else if crc32 .castagnoli (c0.take (c0.length - (c8.drop (batchLen - 49).toNat).length)) ≠ crc then none
  else
    match decomp hdr.codec (c8.take (batchLen - 49).toNat) with
    | none => none
    | some raw =>
      if numRecs > raw.length then some ({ hdr with partialTrailing := true }, c8.drop (batchLen - 49).toNat) else
      match decRecords numRecs.toNat raw with
      | none => none    -- (an ErrInsufficientData here is reported as a partial batch by the code)
      | some (rs, left) =>
        if left.isEmpty then some ({ hdr with records := rs }, c8.drop (batchLen - 49).toNat) else none

/-- `RecordBatch.decode`: the record count is a plain int32 (−1 is tolerated, anything below is invalid); it is
    compared with the *decompressed* records in `decBatchTail` -/
def decBatch (decomp : Int → Bytes → Option Bytes) (bs : Bytes) : Option (Batch × Bytes) :=
  match getFields [8, 4, 4, 1] bs with
  | some ([firstOffset, batchLen, ple, magic], r4) =>
    (match getUInt 4 r4 with
     | none => none
     | some (crc, c0) =>
       match getFields [2, 4, 8, 8, 8, 2, 4] c0 with
       | some ([attrs, lod, fts, mts, pid, pepoch, fseq], c7) =>
         (match getInt 4 c7 with
          | none => none
          | some (numRecs, c8) =>
            if numRecs < -1 then none else
            decBatchTail decomp (batchHdr firstOffset ple magic attrs lod fts mts pid pepoch fseq)
              batchLen crc c0 c8 numRecs)
       | _ => none)
  | _ => none

/-- batches the encoder accepts and the wire carries faithfully: Go ranges of the fields, codec in the three
    attribute bits, wire timestamps ≥ −1, well-typed records, sizes and record count within int32 -/
def Batch.WTP (comp : Int → Bytes → Bytes) (b : Batch) : Prop :=
  InInt 8 b.firstOffset ∧ InInt 4 b.partitionLeaderEpoch ∧ InInt 1 b.magic ∧ (0 ≤ b.codec ∧ b.codec < 8) ∧
  InInt 4 b.lastOffsetDelta ∧ (InInt 8 b.firstTimestamp ∧ -1 ≤ b.firstTimestamp) ∧
  (InInt 8 b.maxTimestamp ∧ -1 ≤ b.maxTimestamp) ∧
  InInt 8 b.producerID ∧ InInt 2 b.producerEpoch ∧ InInt 4 b.firstSequence ∧
  (∀ r ∈ b.records, r.WT = true) ∧ b.partialTrailing = false ∧ b.records.length < 2 ^ 31 ∧
  (comp b.codec (encRecords b.records)).length + 49 < 2 ^ 31

/-! ## legacy Message / MessageBlock / MessageSet (magic 0 and 1) -/

structure Msg where
  magic : Int
  codec : Int
  logAppendTime : Bool
  timestamp : Int        -- only on the wire for magic ≥ 1
  key : Option Bytes
  value : Option Bytes   -- uncompressed; for a wrapper message: the encoded inner message set

def Msg.attributes (m : Msg) : Int := m.codec % 8 + (if m.logAppendTime then 8 else 0)

/-- what the CRC of a message covers: from the magic byte on -/
def Msg.crcBody (comp : Int → Bytes → Bytes) (m : Msg) : Bytes :=
  putInt 1 m.magic ++ putInt 1 m.attributes ++ (if m.magic ≥ 1 then putInt 8 m.timestamp else []) ++
  putBytes m.key ++ putBytes (m.value.map (comp m.codec))

/-- `Message.encode` -/
def encMessage (comp : Int → Bytes → Bytes) (m : Msg) : Bytes := putCrc .ieee (m.crcBody comp)

/-- the value of a decoded message: decompressed when a codec is set, and then `decodeSet` must succeed -/
def msgValue (decomp : Int → Bytes → Option Bytes) (innerOK : Bytes → Bool) (codec : Int) :
    Option Bytes → Option (Option Bytes)
  | none => some none
  | some w =>
    if codec = 0 then some (some w) else
    match decomp codec w with
    | none => none
    | some v => if innerOK v then some (some v) else none

/-- `Message.decode`; `innerOK v` = "`decodeSet` succeeds on the decompressed value `v`" -/
def decMessage (decomp : Int → Bytes → Option Bytes) (innerOK : Bytes → Bool) (bs : Bytes) : Option (Msg × Bytes) :=
  match getUInt 4 bs with
  | none => none
  | some (crc, c0) =>
  match getInt 1 c0 with
  | none => none
  | some (magic, c1) =>
  if magic > 1 then none else
  match getInt 1 c1 with
  | none => none
  | some (attr, c2) =>
  match (if magic = 1 then getInt 8 c2 else some (-1, c2)) with
  | none => none
  | some (ts, c3) =>
  match getBytes c3 with
  | none => none
  | some (key, c4) =>
  match getBytes c4 with
  | none => none
  | some (wireValue, rest) =>
    match msgValue decomp innerOK ((toU 1 attr : Int) % 8) wireValue with
    | none => none
    | some v =>
      if crc32 .ieee (c0.take (c0.length - rest.length)) ≠ crc then none
      else some ({ magic := magic, codec := (toU 1 attr : Int) % 8, logAppendTime := bit (toU 1 attr) 8,
                   timestamp := normTs ts, key := key, value := v }, rest)

/-- messages the encoder/decoder pair carries faithfully: magic 0 or 1 (a magic ≥ 2 is written by the encoder
    but ends the decoder's loop), codec within the attribute bits, wire timestamp ≥ −1 and absent (−1) for
    magic 0, sizes within the int32 length prefixes -/
def Msg.WTP (comp : Int → Bytes → Bytes) (m : Msg) : Prop :=
  (m.magic = 0 ∨ m.magic = 1) ∧ (0 ≤ m.codec ∧ m.codec < 8) ∧ (InInt 8 m.timestamp ∧ -1 ≤ m.timestamp) ∧
  (m.magic = 0 → m.timestamp = -1) ∧ (∀ k, m.key = some k → k.length < 2 ^ 31) ∧
  (∀ v, m.value = some v → (comp m.codec v).length < 2 ^ 31)

abbrev Block := Int × Msg

/-- `MessageBlock.encode` -/
def encBlock (comp : Int → Bytes → Bytes) (b : Block) : Bytes := putInt 8 b.1 ++ putLen32 (encMessage comp b.2)

def encSet (comp : Int → Bytes → Bytes) (bs : List Block) : Bytes := (bs.map (encBlock comp)).flatten

/-- `MessageBlock.decode` -/
def decBlock (decomp : Int → Bytes → Option Bytes) (innerOK : Bytes → Bool) (bs : Bytes) : Option (Block × Bytes) :=
  match getInt 8 bs with
  | none => none
  | some (off, r1) =>
  match getInt 4 r1 with
  | none => none
  | some (len, r2) =>
    if len > r2.length then none else
    match decMessage decomp innerOK r2 with
    | none => none
    | some (m, rest) => if ((r2.length - rest.length : Nat) : Int) = len then some ((off, m), rest) else none

structure SetResult where
  blocks : List Block
  partialTrailing : Bool
  overflow : Bool
  rest : Bytes

/-- is the block at the head of `bs` cut off by the end of the input? -/
def truncatedBlock (bs : Bytes) : Bool :=
  match getInt 8 bs with
  | none => true
  | some (_, r1) =>
    match getInt 4 r1 with
    | none => true
    | some (len, r2) => len > r2.length

/-- `MessageSet.decode`: blocks until the input is used up; stops without error at a magic > 1 and at a block
    cut off by the end of the input (flagged partial, or overflow when its offset is −1). -/
def decSet (decomp : Int → Bytes → Option Bytes) (innerOK : Bytes → Bool) : Nat → Bytes → Option SetResult
  | 0, bs => if bs.isEmpty then some ⟨[], false, false, []⟩ else none
  | fuel + 1, bs =>
    if bs.isEmpty then some ⟨[], false, false, []⟩
    else if bs.length < 17 then some ⟨[], true, false, bs⟩
    else if toS 1 (fromBE ((bs.drop 16).take 1)) > 1 then some ⟨[], false, false, bs⟩
    else
      match decBlock decomp innerOK bs with
      | none =>
        if truncatedBlock bs then
          -- lengthField.decode has consumed offset and length (12 bytes) when it reports the shortage
          (match getInt 8 bs with
           | some (-1, _) => some ⟨[], false, true, bs.drop 12⟩
           | _ => some ⟨[], true, false, bs.drop 12⟩)
        else none
      | some (b, rest) =>
        match decSet decomp innerOK fuel rest with
        | none => none
        | some r => some { r with blocks := b :: r.blocks }

/-- `Message.decodeSet` succeeds, for wrappers nested at most `d` deep -/
def innerOKd (decomp : Int → Bytes → Option Bytes) : Nat → Bytes → Bool
  | 0, _ => false
  | d + 1, v => (decSet decomp (innerOKd decomp d) v.length v).isSome

/-! ## Records: dispatch on the magic byte at offset 16 (`magicOffset`) -/

inductive RecordsKind | legacy | default
  deriving DecidableEq, Repr

/-- `Records.setTypeFromMagic` -/
def recordsKind (bs : Bytes) : Option RecordsKind :=
  if bs.length < 17 then none
  else if toS 1 (fromBE ((bs.drop 16).take 1)) < 2 then some .legacy else some .default

end Model.Codec
