import SaramaVerif.Model.ConsumerParseSpec
/-
  Transactional partition logs (C11): ground truth of what a read-committed consumer has to see, the aborted
  transactions of a log, and the aborted-transaction index a faithful broker attaches to a fetch response.
  Definitions only.
-/
namespace Model.Txn
open Model.ConsumerParse

/-- control type of the first control batch of producer `pid` in a list of units -/
def nextMarker (pid : Int) : List LUnit → Option Ctl
  | [] => none
  | .blk _ :: us => nextMarker pid us
  | .bat b :: us => if b.control = true ∧ b.pid = pid then some b.ctl else nextMarker pid us

/-- ground truth: the content of unit `u`, followed in the log by `rest`, is visible to a read-committed
    consumer iff it is not a control batch and not a transactional batch whose transaction is closed by an abort
    marker (the first control batch of its producer after it) -/
def keepRC (u : LUnit) (rest : List LUnit) : Bool :=
  match u with
  | .blk _ => true
  | .bat b => !b.control && !(b.txn && nextMarker b.pid rest == some Ctl.abort)

/-- ground truth under either isolation level -/
def keepIso (rc : Bool) (u : LUnit) (rest : List LUnit) : Bool :=
  if rc then keepRC u rest else !unitIsControl u

/-- every unit of the log with its visibility -/
def annot (rc : Bool) : List LUnit → List (LUnit × Bool)
  | [] => []
  | u :: us => (u, keepIso rc u us) :: annot rc us

/-- the application-visible records of a transactional log under the isolation level: data records of
    non-transactional batches, legacy messages and (read-committed: committed or undecided; read-uncommitted: all)
    transactions; never a control record -/
def visibleIso (rc tsw : Bool) (L : List LUnit) : List SRec :=
  (annot rc L).flatMap (fun p => if p.2 then unitRecs tsw p.1 else [])

def isMarker (p : Int) (c : Batch) : Prop := c.control = true ∧ c.pid = p
def isAbortMarker (p : Int) (c : Batch) : Prop := c.control = true ∧ c.pid = p ∧ c.ctl = Ctl.abort
def isTxnData (p : Int) (d : Batch) : Prop := d.control = false ∧ d.txn = true ∧ d.pid = p

instance (p : Int) (c : Batch) : Decidable (isMarker p c) := by unfold isMarker; infer_instance
instance (p : Int) (c : Batch) : Decidable (isAbortMarker p c) := by unfold isAbortMarker; infer_instance
instance (p : Int) (c : Batch) : Decidable (isTxnData p c) := by unfold isTxnData; infer_instance

/-- batch ranges: the base offset of a batch lies above the last offset of every earlier batch and not above its
    own last offset -/
def BaseWF (L : List LUnit) : Prop :=
  (∀ b, LUnit.bat b ∈ L → b.base ≤ batchLast b) ∧
  (∀ a b, LUnit.bat a ∈ L → LUnit.bat b ∈ L → batchLast a < batchLast b → batchLast a < b.base)

/-- `(p, f, m)` is an aborted transaction of the log: producer `p`, first offset `f` (base offset of the first data
    batch `d` of the transaction), abort marker at offset `m`; no control batch of `p` lies between `d` and the
    marker, and `d` is the first data batch of `p` since the previous control batch of `p` -/
def AbortedTxn (L : List LUnit) (p f m : Int) : Prop :=
  ∃ d mk, LUnit.bat d ∈ L ∧ LUnit.bat mk ∈ L ∧ isTxnData p d ∧ d.base = f ∧ isAbortMarker p mk ∧ batchLast mk = m ∧
    batchLast d < m ∧
    (∀ c, LUnit.bat c ∈ L → isMarker p c → ¬ (batchLast d < batchLast c ∧ batchLast c < m)) ∧
    (∀ d', LUnit.bat d' ∈ L → isTxnData p d' → batchLast d' < batchLast d →
       ∃ c, LUnit.bat c ∈ L ∧ isMarker p c ∧ batchLast d' < batchLast c ∧ batchLast c < batchLast d)

def batches (L : List LUnit) : List Batch :=
  L.filterMap (fun u => match u with | .bat b => some b | .blk _ => none)

/-- `d` is the first data batch and `mk` the abort marker of an aborted transaction of `p` (decidable form of the
    body of `AbortedTxn`) -/
def abortedPair (L : List LUnit) (p : Int) (d mk : Batch) : Prop :=
  isTxnData p d ∧ isAbortMarker p mk ∧ batchLast d < batchLast mk ∧
  (∀ c ∈ batches L, isMarker p c → ¬ (batchLast d < batchLast c ∧ batchLast c < batchLast mk)) ∧
  (∀ d' ∈ batches L, isTxnData p d' → batchLast d' < batchLast d →
     ∃ c ∈ batches L, isMarker p c ∧ batchLast d' < batchLast c ∧ batchLast c < batchLast d)

instance (L : List LUnit) (p : Int) (d mk : Batch) : Decidable (abortedPair L p d mk) := by
  unfold abortedPair; infer_instance

/-- the index a broker computes for a fetch at `o` whose data ends at or below `hiEnd` (in log order; any
    permutation is as good) -/
def brokerIndex (L : List LUnit) (o hiEnd : Int) : List (Int × Int) :=
  (batches L).flatMap (fun d => (batches L).filterMap (fun mk =>
    if abortedPair L d.pid d mk ∧ o ≤ batchLast mk ∧ d.base ≤ hiEnd then some (d.pid, d.base) else none))

/-- the aborted-transaction index of a faithful broker for a fetch at offset `o` whose data ends at or below
    `hiEnd`: it lists (producer id, first offset) of every aborted transaction of the log that is not finished
    before `o` and begins at or below `hiEnd`, and every listed pair that begins at or below `hiEnd` is such a
    transaction.  Order, duplicates and additional later transactions are unconstrained. -/
def FaithfulIndex (L : List LUnit) (o hiEnd : Int) (idx : List (Int × Int)) : Prop :=
  (∀ p f m, AbortedTxn L p f m → o ≤ m → f ≤ hiEnd → (p, f) ∈ idx) ∧
  (∀ p f, (p, f) ∈ idx → f ≤ hiEnd → ∃ m, AbortedTxn L p f m ∧ o ≤ m)

/-- a faithful data response of a transactional log: faithful data (C03), no batch emptied by compaction, and a
    faithful aborted-transaction index for the fetched range -/
def FaithfulTxnData (L : List LUnit) (o : Int) (es : List Entry) (idx : List (Int × Int)) : Prop :=
  FaithfulData L o es ∧ (∀ b, Entry.batch b ∈ es → b.recs ≠ []) ∧
  ∃ hiEnd, (∀ b, Entry.batch b ∈ es → batchLast b ≤ hiEnd) ∧ FaithfulIndex L o hiEnd idx

def FaithfulTxnResp (cfg : Cfg) (L : List LUnit) (st : PState) : Block → Prop
  | .data es partialTrail idx => FaithfulTxnData L st.offset es idx ∧
      (partialTrail = true → nRecs es = 0 → ¬ (cfg.fetchMax > 0 ∧ st.fetchSize = cfg.fetchMax))
  | _ => True

def FaithfulTxnHist (cfg : Cfg) (L : List LUnit) : PState → List Block → Prop
  | _, [] => True
  | st, b :: bs => FaithfulTxnResp cfg L st b ∧ FaithfulTxnHist cfg L (parseBlock cfg st b).2.1 bs

/-! ### the FetchRequest the consumer builds (brokerConsumer.fetchNewMessages)

A broker answers according to the isolation level carried by the REQUEST (read committed: data below the last
stable offset plus the aborted-transaction index; read uncommitted: data up to the high watermark, no index), so
`FaithfulTxnData` can only be expected if the request carries the configured isolation level. -/

/-- the Kafka-version thresholds of fetchNewMessages in ascending order: 0.9, 0.10.0, 0.10.1, 0.11, 1.1, 2.1, 2.3;
    `level` = how many of them `Config.Version` reaches (IsAtLeast is monotone) -/
def fetchVersionOf : Nat → Int
  | 0 => 0 | 1 => 1 | 2 => 2 | 3 => 3 | 4 => 4 | 5 => 7 | 6 => 10 | _ => 11

/-- expected request fields (Version, MaxBytes, Isolation, SessionID, SessionEpoch, RackID) for a configuration
    reaching `level` thresholds; `mrs` = MaxResponseSize, `cfgIso` = Consumer.IsolationLevel, `cfgRack` = RackID;
    fields not set keep Go's zero value -/
def fetchRequestSpec (level : Nat) (mrs cfgIso cfgRack : Int) : Int × Int × Int × Int × Int × Int :=
  (fetchVersionOf level, if 3 ≤ level then mrs else 0, if 4 ≤ level then cfgIso else 0, 0,
   if 5 ≤ level then -1 else 0, if 7 ≤ level then cfgRack else 0)

end Model.Txn
