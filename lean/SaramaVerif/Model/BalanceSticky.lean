import SaramaVerif.Model.BalanceStickyPieces
/-
  Op-level model of `stickyBalanceStrategy.Plan` / `balance` / `performReassignments` (balance_strategy.go).

  The Go code iterates over several maps; instead of fixing those orders the model exposes the state changes the
  code can make as operations whose guards are THE CODE'S OWN CONDITIONS.  Every run of the Go code that returns
  is a finite sequence of accepted operations followed by `finish`; the theorems (Props/C08, Props/C13) hold for
  every accepted sequence.  (`performReassignments` need not terminate — see the known finding — so the theorems
  are about the plans that are returned.)

  Two variants.  `.pinned` is the tree as it is:
    * the "previous owner" branch of `performReassignments` moves the partition to
      `prevAssignment[partition].MemberID` after comparing sizes only;
    * the revert in `balance` assigns the restored copy to its local parameter, so `Plan` keeps the un-reverted map
      and the fixed assignments are added to the copy only.
  `.guarded` requires in the first place that the previous owner is still subject to reassignment (a key of the
  working assignment) and may take the partition, and in the second place reverts the map `Plan` goes on to use.
-/
namespace Model.Balance

inductive Variant | pinned | guarded
  deriving DecidableEq, Repr

/-- `currentPartitionConsumer` -/
abbrev OwnerMap := List (TP × Member)

def ownerGet (o : OwnerMap) (p : TP) : Option Member := (o.find? (fun e => e.1 == p)).map (·.2)
def ownerSet (o : OwnerMap) (p : TP) (m : Member) : OwnerMap := (p, m) :: o.filter (fun e => !(e.1 == p))

/-- working state of `balance` -/
structure SState where
  cur : Asg                          -- currentAssignment (members still subject to reassignment)
  owner : OwnerMap                   -- currentPartitionConsumer
  fixed : Asg                        -- fixedAssignments (parked members)
  moves : Movements                  -- s.movements
  snap : Option (Asg × OwnerMap)     -- preBalanceAssignment / preBalancePartitionConsumers
  performed : Bool                   -- reassignmentPerformed
  reverted : Bool
  assigned : Bool                    -- the loop over unassignedPartitions has run
  deriving Repr

/-- what does not change during `balance` -/
structure SEnv where
  pot : Asg                          -- consumer2AllPotentialPartitions
  prev : List (TP × Member)          -- prevAssignment (member only)
  reassignable : List TP             -- sortedPartitions after the "can participate" filter
  initializing : Bool
  parts : List TP                    -- all partitions of the `topics` argument

def prevOf (env : SEnv) (p : TP) : Option Member := (env.prev.find? (fun e => e.1 == p)).map (·.2)

/-- `processPartitionMovement(partition, newConsumer, …)` -/
def processMove (st : SState) (p : TP) (new : Member) : SState :=
  match ownerGet st.owner p with
  | some old =>
    { st with
      moves := movePartition st.moves p old new
      cur := AL.set (AL.set st.cur old ((AL.get st.cur old).erase p)) new
               (AL.get (AL.set st.cur old ((AL.get st.cur old).erase p)) new ++ [p])
      owner := ownerSet st.owner p new
      performed := true }
  | none =>
    -- Go reads the zero value "" here and works on currentAssignment[""]; unreachable once every partition in
    -- reach has a recorded consumer (invariant), kept total for the model
    { st with cur := AL.set st.cur new (AL.get st.cur new ++ [p]), owner := ownerSet st.owner p new,
              performed := true }

inductive SOp
  | assignAll (us : List TP) -- the loop over unassignedPartitions, visited in the order `us`
  | park (m : Member)        -- a member that cannot take part goes to fixedAssignments
  | snapshot                 -- deep copy before performReassignments
  | movePrev (p q : TP)      -- "previous owner" branch for p; q = the partition actually moved
  | moveOther (p q : TP)     -- "better suited consumer" branch for p; q = the partition actually moved
  | revert                   -- balance score did not improve
  deriving Repr, DecidableEq

def sizeIn (cur : Asg) (m : Member) : Nat := (AL.get cur m).length

/-- is `q` an admissible answer of `getTheActualPartitionToBeMoved(p, old, new)` -/
def actualOK (mv : Movements) (p q : TP) (old new : Member) : Bool :=
  match actualCandidates mv p old new with
  | none => q == p
  | some l => l.contains q

/-- the first member of the sorted list that may take `p` (`reassignPartitionToNewConsumer`) -/
def newConsumerFor (cur pot : Asg) (p : TP) : Option Member :=
  (sortMembers cur).find? (fun m => (AL.get pot m).contains p)

/-- `unassignedPartitions`: the existing partitions nobody holds -/
def todoOf (env : SEnv) (cur : Asg) : List TP := env.parts.filter (fun p => AL.countAll cur p == 0)

/-- one round of the loop over unassignedPartitions: skip partitions nobody can take, else `assignPartition` -/
def assignOne (env : SEnv) (co : Asg × OwnerMap) (p : TP) : Asg × OwnerMap :=
  if (consumersOf env.pot p).isEmpty then co else
  match assignPartition p (sortMembers co.1) co.1 env.pot with
  | (cur', some m) => (cur', ownerSet co.2 p m)
  | (_, none) => co

/-- guard of an operation = the conditions the code checks before doing it (plus the phase it happens in) -/
def guard (v : Variant) (env : SEnv) (st : SState) : SOp → Bool
  | .assignAll us =>
    !st.assigned && st.fixed.isEmpty && st.snap.isNone && us.isPerm (todoOf env st.cur)
  | .park m =>
    st.assigned && st.snap.isNone && AL.hasKey st.cur m && !canConsumerParticipate m st.cur env.pot
  | .snapshot => st.assigned && st.snap.isNone
  | .movePrev p q =>
    st.snap.isSome && !st.reverted &&
    env.reassignable.contains p && !isBalanced st.cur env.pot &&
    (match ownerGet st.owner p, prevOf env p with
     | some c, some pm =>
        decide (sizeIn st.cur c > sizeIn st.cur pm + 1) && actualOK st.moves p q c pm &&
        (match v with
         | .pinned => true
         | .guarded => AL.hasKey st.cur pm && (AL.get env.pot pm).contains p)
     | _, _ => false)
  | .moveOther p q =>
    st.snap.isSome && !st.reverted &&
    env.reassignable.contains p && !isBalanced st.cur env.pot &&
    (match ownerGet st.owner p, newConsumerFor st.cur env.pot p with
     | some c, some new =>
        (consumersOf env.pot p).any (fun o => decide (sizeIn st.cur c > sizeIn st.cur o + 1)) &&
        actualOK st.moves p q c new
     | _, _ => false)
  | .revert =>
    !env.initializing && st.performed && !st.reverted &&
    (match st.snap with
     | some s => decide (balanceScore st.cur ≥ balanceScore s.1)
     | none => false)

/-- effect of an operation -/
def apply (v : Variant) (env : SEnv) (st : SState) : SOp → SState
  | .assignAll us =>
    { st with cur := (us.foldl (assignOne env) (st.cur, st.owner)).1,
              owner := (us.foldl (assignOne env) (st.cur, st.owner)).2, assigned := true }
  | .park m => { st with fixed := AL.set st.fixed m (AL.get st.cur m), cur := AL.erase st.cur m }
  | .snapshot => { st with snap := some (st.cur, st.owner), performed := false }
  | .movePrev p q =>
    match prevOf env p with
    | some pm => processMove st q pm
    | none => st
  | .moveOther p q =>
    match newConsumerFor st.cur env.pot p with
    | some new => processMove st q new
    | none => st
  | .revert =>
    match v, st.snap with
    | .guarded, some s => { st with cur := s.1, owner := s.2, reverted := true }
    | _, _ => { st with reverted := true }

/-- run a sequence of operations; `none` as soon as a guard fails -/
def runOps (v : Variant) (env : SEnv) : SState → List SOp → Option SState
  | st, [] => some st
  | st, op :: rest => if guard v env st op then runOps v env (apply v env st op) rest else none

/-- `for consumer, assignments := range fixedAssignments { currentAssignment[consumer] = assignments }` -/
def addFixed (cur fixed : Asg) : Asg := fixed.foldl (fun c e => AL.set c e.1 e.2) cur

/-- the assignment `Plan` assembles its result from -/
def finish (v : Variant) (st : SState) : Plan :=
  match v, st.reverted with
  | .pinned, true => st.cur      -- the fixed assignments went into the local copy only
  | _, _ => addFixed st.cur st.fixed

/-! ### the state `balance` starts from (what `Plan` computes before calling it) -/

/-- `consumer2AllPotentialPartitions` -/
def potOf (ms : Members) (ts : Topics) : Asg :=
  ms.map (fun e => (e.1, e.2.flatMap (fun t => if topicExists ts t then (partsOf ts t).map (fun p => (t, p)) else [])))

/-- all partitions of the `topics` argument -/
def allParts (ts : Topics) : List TP := ts.flatMap (fun e => e.2.map (fun p => (e.1, p)))

/-- one prepopulated partition is kept by its owner if the owner is a member, the partition still exists and the
    owner still lists its topic -/
def keepClaim (ms : Members) (ts : Topics) (cur : Asg) (x : TP × Member × Option Member) : Asg :=
  if isMember ms x.2.1 && (allParts ts).contains x.1 && subscribed ms x.2.1 x.1.1
  then AL.set cur x.2.1 (AL.get cur x.2.1 ++ [x.1]) else cur

/-- `currentAssignment` after the filter loop of `Plan`: every member is a key -/
def initCur (ms : Members) (ts : Topics) (pp : List (TP × Member × Option Member)) : Asg :=
  pp.foldl (keepClaim ms ts) (ms.map (fun e => (e.1, [])))

/-- `currentPartitionConsumers` after that loop -/
def initOwner (ts : Topics) (pp : List (TP × Member × Option Member)) : OwnerMap :=
  (pp.filter (fun x => (allParts ts).contains x.1)).map (fun x => (x.1, x.2.1))

def initState (ms : Members) (ts : Topics) (pp : List (TP × Member × Option Member)) : SState :=
  { cur := initCur ms ts pp, owner := initOwner ts pp, fixed := [], moves := [], snap := none,
    performed := false, reverted := false, assigned := false }

end Model.Balance
