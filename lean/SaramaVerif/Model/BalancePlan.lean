/-
  Shared vocabulary of the balance-strategy models (balance_strategy.go): group inputs, plans as association
  lists, and the EXECUTABLE predicates of the statements C08 (validity) and C13 (balance, stickiness).

  Members, topics and plans are association lists in an arbitrary order: every Go map iteration order is one
  such order, and every theorem quantifies over all of them.  Core Lean only.
-/
namespace Model.Balance

abbrev Member := Nat
abbrev Topic := Nat
/-- a topic partition -/
abbrev TP := Topic × Int

/-- association list keyed by `Nat` with list values (Go: `map[string][]X`); a missing key reads as `[]`. -/
abbrev AL (α : Type) := List (Nat × List α)

namespace AL
variable {α : Type}

/-- `m[k]` (first entry; `[]` when absent) -/
def get : AL α → Nat → List α
  | [], _ => []
  | (k', v) :: r, k => if k' = k then v else get r k

/-- `m[k] = v` (replaces the first entry, appends a new one when absent) -/
def set : AL α → Nat → List α → AL α
  | [], k, v => [(k, v)]
  | (k', v') :: r, k, v => if k' = k then (k, v) :: r else (k', v') :: set r k v

/-- `delete(m, k)` -/
def erase : AL α → Nat → AL α
  | [], _ => []
  | (k', v') :: r, k => if k' = k then r else (k', v') :: erase r k

def keys (a : AL α) : List Nat := a.map (·.1)

def hasKey (a : AL α) (k : Nat) : Bool := (keys a).contains k

/-- how often `x` occurs in all value lists together -/
def countAll [BEq α] : AL α → α → Nat
  | [], _ => 0
  | (_, v) :: r, x => v.count x + countAll r x

end AL

/-- group members as they come out of the `members` map: id and the topic list the member reported
    (any order, a topic may be listed twice) -/
abbrev Members := List (Member × List Topic)
/-- `topics` argument of `Plan`: topic and its partition ids -/
abbrev Topics := AL Int
/-- a plan: member ↦ topic partitions (Go: `map[string]map[string][]int32`, flattened) -/
abbrev Plan := AL TP

/-- `plan.Add(member, topic, partitions...)` -/
def Plan.add (plan : Plan) (m : Member) (t : Topic) (ps : List Int) : Plan :=
  if ps.isEmpty then plan else AL.set plan m (AL.get plan m ++ ps.map (fun p => (t, p)))

def isMember (ms : Members) (m : Member) : Bool := (ms.map (·.1)).contains m
def subscribed (ms : Members) (m : Member) (t : Topic) : Bool := (AL.get ms m).contains t
def hasSubscriber (ms : Members) (t : Topic) : Bool := ms.any (fun e => e.2.contains t)
def partsOf (ts : Topics) (t : Topic) : List Int := AL.get ts t
def topicExists (ts : Topics) (t : Topic) : Bool := AL.hasKey ts t

/-! ### C08: validity of a plan -/

/-- every key of the plan is a group member; every listed partition exists and its holder subscribes to the topic -/
def plannedOK (ms : Members) (ts : Topics) (plan : Plan) : Bool :=
  plan.all (fun e => isMember ms e.1 &&
    e.2.all (fun tp => subscribed ms e.1 tp.1 && (partsOf ts tp.1).contains tp.2))

/-- every partition of every topic with a subscriber is held exactly once -/
def coveredOnce (ms : Members) (ts : Topics) (plan : Plan) : Bool :=
  ts.all (fun e => !hasSubscriber ms e.1 || e.2.all (fun p => AL.countAll plan (e.1, p) == 1))

/-- the C08 statement as an executable predicate -/
def validPlan (ms : Members) (ts : Topics) (plan : Plan) : Bool :=
  plannedOK ms ts plan && coveredOnce ms ts plan

/-! ### C13: balance -/

def size (plan : Plan) (m : Member) : Nat := (AL.get plan m).length

/-- Kafka's balance criterion: no member holds two or more partitions more than another member that could take
    one of them -/
def balanced (ms : Members) (ts : Topics) (plan : Plan) : Bool :=
  ms.all (fun x => ms.all (fun y =>
    !(decide (size plan x.1 ≥ size plan y.1 + 2)) ||
      (AL.get plan x.1).all (fun tp => !(y.2.contains tp.1 && topicExists ts tp.1))))

def sameSet (a b : List Topic) : Bool := a.all (b.contains ·) && b.all (a.contains ·)

/-- all members subscribe to the same set of topics -/
def identicalSubs (ms : Members) : Bool :=
  match ms with
  | [] => false
  | e :: _ => ms.all (fun x => sameSet x.2 e.2)

/-- totals differ by at most one -/
def spreadLE1 (ms : Members) (plan : Plan) : Bool :=
  ms.all (fun x => ms.all (fun y => decide (size plan x.1 ≤ size plan y.1 + 1)))

/-- partitions of topic `t` a member holds, in plan order -/
def heldOf (plan : Plan) (m : Member) (t : Topic) : List Int :=
  (AL.get plan m).filterMap (fun tp => if tp.1 = t then some tp.2 else none)

/-- `l` is a contiguous run of `ps` -/
def isRun (ps l : List Int) : Bool :=
  (List.range (ps.length + 1 - l.length)).any (fun off => (ps.drop off).take l.length == l)

/-- range statement for one topic: every subscriber holds a contiguous run, sizes differ by at most one -/
def rangeTopicOK (ms : Members) (plan : Plan) (t : Topic) (ps : List Int) : Bool :=
  (ms.filter (fun e => e.2.contains t)).all (fun x =>
    isRun ps (heldOf plan x.1 t) &&
    (ms.filter (fun e => e.2.contains t)).all (fun y =>
      decide ((heldOf plan x.1 t).length ≤ (heldOf plan y.1 t).length + 1)))

/-- a topic takes part in the range statement if it has a subscriber and none lists it twice -/
def rangeTopicApplies (ms : Members) (t : Topic) : Bool :=
  hasSubscriber ms t && ms.all (fun e => decide (e.2.count t ≤ 1))

/-- `none` = no topic qualifies -/
def rangeSizes (ms : Members) (ts : Topics) (plan : Plan) : Option Bool :=
  if ts.any (fun e => rangeTopicApplies ms e.1) then
    some (ts.all (fun e => !rangeTopicApplies ms e.1 || rangeTopicOK ms plan e.1 e.2))
  else none

/-! ### C13: stickiness (relations between the previous plan carried in user data and the new plan) -/

inductive UDKind
  | none | gen (g : Int) | v0 | bad
  deriving DecidableEq, Repr

/-- a member with its sticky user data: what it claims to have owned -/
structure MemberS where
  id : Member
  topics : List Topic
  kind : UDKind
  claims : List TP
  deriving Repr

def plainMembers (ms : List MemberS) : Members := ms.map (fun m => (m.id, m.topics))

def nodupB : List TP → Bool
  | [] => true
  | x :: r => !r.contains x && nodupB r

/-- user data is one consistent previous plan: only V1 data of one common generation (or none), claims
    pairwise disjoint and duplicate free -/
def clean (ms : List MemberS) : Bool :=
  ms.all (fun m => match m.kind with | .none => true | .gen _ => true | _ => false) &&
  (match ms.filterMap (fun m => match m.kind with | .gen g => some g | _ => none) with
   | [] => true
   | g :: r => r.all (· == g)) &&
  nodupB ((ms.filter (fun m => m.kind ≠ .none)).flatMap (·.claims))

/-- first of `names` that holds `p` -/
def ownerOf (plan : Plan) (names : List Member) (p : TP) : Option Member :=
  names.find? (fun m => (AL.get plan m).contains p)

/-- (topic, from, to) for every claimed partition that another member holds now -/
def movesOf (ms : List MemberS) (plan : Plan) : List (Topic × Member × Member) :=
  ms.flatMap (fun m => m.claims.filterMap (fun p =>
    match ownerOf plan (ms.map (·.id)) p with
    | some o => if o ≠ m.id then some (p.1, m.id, o) else none
    | none => none))

/-- no two members exchanged partitions of one topic -/
def swapFree (ms : List MemberS) (plan : Plan) : Bool :=
  (movesOf ms plan).all (fun k => !(movesOf ms plan).contains (k.1, k.2.2, k.2.1))

/-- the new plan is the previous plan -/
def samePlan (ms : List MemberS) (plan : Plan) : Bool :=
  ms.all (fun m => m.claims.isPerm (AL.get plan m.id))

/-- every member still holds everything it claimed -/
def keptAll (ms : List MemberS) (plan : Plan) : Bool :=
  ms.all (fun m => m.claims.all (fun p => (AL.get plan m.id).contains p))

/-- every claimed partition stayed or went to a member without user data (a joiner) -/
def movedOnlyToJoiners (ms : List MemberS) (plan : Plan) : Bool :=
  ms.all (fun m => m.claims.all (fun p =>
    match ownerOf plan (ms.map (·.id)) p with
    | none => false
    | some o => o == m.id ||
        (match ms.find? (fun x => x.id == o) with
         | some x => x.kind == .none
         | none => false)))


/-! ### rejoin: a member comes back with the user data of an older generation -/

def genOf (m : MemberS) : Option Int := match m.kind with | .gen g => some g | _ => none

/-- the newest generation reported (`none` when nobody reports one) -/
def latestGen (ms : List MemberS) : Option Int :=
  (ms.filterMap genOf).foldl (fun acc g => match acc with | none => some g | some a => some (if g > a then g else a)) none

/-- only V1 data or none, and the claims of the newest generation are pairwise disjoint and duplicate free -/
def latestClean (ms : List MemberS) : Option Int :=
  if ms.all (fun m => match m.kind with | .none => true | .gen _ => true | _ => false) then
    match latestGen ms with
    | some g => if nodupB ((ms.filter (fun m => genOf m == some g)).flatMap (·.claims)) then some g else none
    | none => none
  else none

/-- every partition claimed by a member of the newest generation `g` stayed, or went to a member that is not of the
    newest generation (the rejoiner or a joiner) -/
def movedOnlyToStale (ms : List MemberS) (plan : Plan) (g : Int) : Bool :=
  (ms.filter (fun m => genOf m == some g)).all (fun m => m.claims.all (fun p =>
    match ownerOf plan (ms.map (·.id)) p with
    | none => false
    | some o => o == m.id ||
        (match ms.find? (fun x => x.id == o) with
         | some x => !(genOf x == some g)
         | none => false)))

end Model.Balance
