import SaramaVerif.Model.Decoder
/-
  A small combinator language for sarama's `decode` methods: sequences of primitive getters, counted loops
  (`n, err := pd.getArrayLength(); x = make([]T, n); for i := 0; i < n; i++ { … }`), pushed length / CRC
  fields, sub-decoders (`getSubset`) and `for pd.remaining() > 0 { … }` loops, with the interpreter `run`
  built from the primitives of Model/Decoder.lean (so every missing check of a primitive or of a loop head
  shows up as a `panic`/allocation of the format).  Version gates are static: one `Fmt` per version.
  Core-only.
-/
namespace Model.Decoder

/-- primitive getters whose value the surrounding decoder only stores -/
inductive Prim
  | int8 | int16 | int32 | int64 | varint | uvarint | bool | emptyTagged
  | bytes | varintBytes | compactBytes | string | nullableString
  | compactString | compactNullableString | compactInt32Array | int32Array | int64Array | stringArray
  deriving DecidableEq, Repr

def unit (r : Res α) : Res Unit := r.map fun _ => ()

def runPrim (v : Variant) (p : Prim) (raw : Bytes) (off : Nat) : Res Unit :=
  match p with
  | .int8 => unit (getInt8 raw off)
  | .int16 => unit (getInt16 raw off)
  | .int32 => unit (getInt32 raw off)
  | .int64 => unit (getInt64 raw off)
  | .varint => unit (getVarint raw off)
  | .uvarint => unit (getUVarint raw off)
  | .bool => unit (getBool raw off)
  | .emptyTagged => unit (getEmptyTaggedFieldArray raw off)
  | .bytes => unit (getBytes raw off)
  | .varintBytes => unit (getVarintBytes raw off)
  | .compactBytes => unit (getCompactBytes raw off)
  | .string => unit (getString raw off)
  | .nullableString => unit (getNullableString raw off)
  | .compactString => unit (getCompactString v raw off)
  | .compactNullableString => unit (getCompactNullableString v raw off)
  | .compactInt32Array => unit (getCompactInt32Array v raw off)
  | .int32Array => unit (getInt32Array raw off)
  | .int64Array => unit (getInt64Array raw off)
  | .stringArray => unit (getStringArray v raw off)

/-- where the element count of a counted loop comes from -/
inductive Count
  | arrayLength          -- pd.getArrayLength()
  | compactArrayLength   -- pd.getCompactArrayLength()
  | varint               -- pd.getVarint() used as a count (Record.decode: numHeaders)
  deriving DecidableEq, Repr

/-- `numHeaders, err := pd.getVarint()`.
    checked: `if numHeaders > int64(pd.remaining()) { return ErrInsufficientData }` -/
def varintCount (v : Variant) (raw : Bytes) (off : Nat) : Res Int :=
  (getVarint raw off).bind fun n off1 =>
    if v = .checked ∧ n > rem raw off1 then .err .insufficient off1 0 else .ok n off1 0

def getCount (v : Variant) (c : Count) (raw : Bytes) (off : Nat) : Res Int :=
  match c with
  | .arrayLength => getArrayLength v raw off
  | .compactArrayLength => getCompactArrayLength v raw off
  | .varint => varintCount v raw off

/-- what the Go code does with the count before the loop -/
inductive MakeKind
  | slice     -- `x = make([]T, n)`                       (panics for n < 0)
  | guarded   -- `if n >= 0 { x = make([]T, n) }` / `if n > 0 {…}`
  | map       -- `x = make(map[K]V, n)`                   (a negative hint is ignored by the runtime)
  | reject    -- `if n < 0 { return errInvalidArrayLength }; x = make([]T, n)`
  deriving DecidableEq, Repr

inductive Fmt
  | prim (p : Prim)
  | seq (a b : Fmt)
  | arr (c : Count) (k : MakeKind) (elem : Nat) (body : Fmt)
  | lenField (body : Fmt)                    -- push(&lengthField{}); body; pop()
  | varintLenField (body : Fmt)              -- push(&varintLengthField{}); body; pop()
  | crcField (castagnoli : Bool) (body : Fmt)-- push(crc32Field); body; pop()
  | subset32 (body : Fmt)                    -- n := getInt32(); sub := getSubset(n); body on sub
  | whileRem (partialOk : Bool) (body : Fmt) -- for pd.remaining() > 0 { body } (partialOk: ErrInsufficientData ends the loop without error)
  deriving Repr

/-- counted loop `for i := 0; i < n; i++ { step }` -/
def iter (step : Nat → Res Unit) : Nat → Nat → Res Unit
  | 0, off => .ok () off 0
  | n+1, off => (step off).bind fun _ off1 => iter step n off1

/-- `for remaining() > 0 { step }` with explicit fuel: running out of fuel while bytes remain = `hang` -/
def loopRem (partialOk : Bool) (len : Nat) (step : Nat → Res Unit) : Nat → Nat → Res Unit
  | 0, off => if off < len then .hang else .ok () off 0
  | f+1, off =>
    if ¬ off < len then .ok () off 0
    else match step off with
      | .ok _ off1 a => (loopRem partialOk len step f off1).addAlloc a
      | .err e off1 a =>
          -- a partial trailing element: the decoder of the (sub-)buffer is abandoned (nothing after it is read)
          if partialOk = true ∧ e = .insufficient then .ok () len a else .err e off1 a
      | .panic a => .panic a
      | .hang => .hang

def makeAlloc (k : MakeKind) (elem : Nat) (n : Int) : Option Nat :=
  match k with
  | .slice => mk elem n
  | .guarded => if n < 0 then some 0 else mk elem n
  | .map => if n < 0 then some 0 else some (n.toNat * elem)
  | .reject => mk elem n     -- only reached with n ≥ 0 (see `run`)

def run (v : Variant) (crcf : Bool → Bytes → Nat) : Fmt → Bytes → Nat → Res Unit
  | .prim p, raw, off => runPrim v p raw off
  | .seq a b, raw, off => (run v crcf a raw off).bind fun _ off1 => run v crcf b raw off1
  | .arr c k elem body, raw, off =>
      (getCount v c raw off).bind fun n off1 =>
        if k = .reject ∧ n < 0 then .err .invalidArrayLength off1 0
        else match makeAlloc k elem n with
          | none => .panic 0
          | some a => (iter (run v crcf body raw) n.toNat off1).addAlloc a
  | .lenField body, raw, off =>
      (pushLength raw off).bind fun fr off1 =>
        (run v crcf body raw off1).bind fun _ off2 => pop v crcf raw fr off2
  | .varintLenField body, raw, off =>
      (pushVarintLength raw off).bind fun fr off1 =>
        (run v crcf body raw off1).bind fun _ off2 => pop v crcf raw fr off2
  | .crcField cast body, raw, off =>
      (pushCrc cast raw off).bind fun fr off1 =>
        (run v crcf body raw off1).bind fun _ off2 => pop v crcf raw fr off2
  | .subset32 body, raw, off =>
      (getInt32 raw off).bind fun n off1 =>
        (getSubset raw off1 n).bind fun sub off2 =>
          match run v crcf body sub 0 with
          | .ok _ _ a => .ok () off2 a
          | .err e _ a => .err e off2 a
          | .panic a => .panic a
          | .hang => .hang
  | .whileRem p body, raw, off => loopRem p raw.length (run v crcf body raw) (raw.length - off + 1) off

/-- static lower bound of the bytes a successful run consumes -/
def minSize : Fmt → Nat
  | .prim _ => 1
  | .seq a b => minSize a + minSize b
  | .arr _ _ _ _ => 1
  | .lenField b => 1 + minSize b
  | .varintLenField b => 1 + minSize b
  | .crcField _ b => 1 + minSize b
  | .subset32 _ => 1
  | .whileRem _ _ => 0

def primCost : Prim → Nat
  | .string | .nullableString | .compactString | .compactNullableString => 1
  | .compactInt32Array | .int32Array => 4
  | .int64Array => 8
  | .stringArray => 17
  | _ => 0

/-- allocation constant of a format: bytes allocated per input byte -/
def cost : Fmt → Nat
  | .prim p => primCost p
  | .seq a b => max (cost a) (cost b)
  | .arr _ _ elem body => elem + cost body
  | .lenField b => cost b
  | .varintLenField b => cost b
  | .crcField _ b => cost b
  | .subset32 b => cost b
  | .whileRem _ b => cost b

def primGood (v : Variant) (p : Prim) : Bool :=
  v = .checked || !(p = .compactString || p = .compactNullableString || p = .compactInt32Array || p = .stringArray)

def countGood (v : Variant) (c : Count) (k : MakeKind) : Bool :=
  match c with
  | .arrayLength => k ≠ .slice                       -- a negative length reaches `make` unless guarded
  | .compactArrayLength => v = .checked
  | .varint => v = .checked && k ≠ .slice

/-- the formats `dec_total_safe` speaks about: safe primitives, guarded loop heads, loop bodies that consume input -/
def Good (v : Variant) : Fmt → Bool
  | .prim p => primGood v p
  | .seq a b => Good v a && Good v b
  | .arr c k elem body => countGood v c k && decide (elem ≤ 65536) && decide (1 ≤ minSize body) && Good v body
  | .lenField b => Good v b
  | .varintLenField b => Good v b
  | .crcField _ b => Good v b
  | .subset32 b => Good v b
  | .whileRem _ b => decide (1 ≤ minSize b) && Good v b

/-! ### named formats (decode methods of /repo written in the language) -/

def seqs : List Fmt → Fmt
  | [] => .prim .emptyTagged   -- unused
  | [f] => f
  | f :: fs => .seq f (seqs fs)

/-- Record.decode (record.go) -/
def recordFmt : Fmt :=
  .varintLenField (seqs [.prim .int8, .prim .varint, .prim .varint, .prim .varintBytes, .prim .varintBytes,
    .arr .varint .guarded 8 (.seq (.prim .varintBytes) (.prim .varintBytes))])

/-- ConsumerGroupMemberMetadata.decode (consumer_group_members.go) -/
def memberMetadataFmt : Fmt := seqs [.prim .int16, .prim .stringArray, .prim .bytes]

/-- `make(map[string][]int32, n)`: about 48 bytes per hinted element -/
def topicMapFmt : Fmt := .arr .arrayLength .map 48 (.seq (.prim .string) (.prim .int32Array))

/-- ConsumerGroupMemberAssignment.decode -/
def memberAssignmentFmt : Fmt := seqs [.prim .int16, topicMapFmt, .prim .bytes]

/-- StickyAssignorUserDataV0.decode / V1.decode (sticky_assignor_user_data.go) -/
def stickyV0Fmt : Fmt := topicMapFmt
def stickyV1Fmt : Fmt := .seq topicMapFmt (.prim .int32)

/-- MetadataResponse v0 (metadata_response.go): brokers, topics → partitions; all three loop heads are
    `make([]*T, n)` without a guard -/
def metadataV0Fmt : Fmt :=
  .seq (.arr .arrayLength .slice 8 (seqs [.prim .int32, .prim .string, .prim .int32]))
       (.arr .arrayLength .slice 8 (seqs [.prim .int16, .prim .string,
          .arr .arrayLength .slice 8 (seqs [.prim .int16, .prim .int32, .prim .int32, .prim .int32Array, .prim .int32Array])]))

/-- the same with the repaired loop heads (`if n < 0 { return errInvalidArrayLength }` before the make) -/
def metadataV0FmtGuarded : Fmt :=
  .seq (.arr .arrayLength .reject 8 (seqs [.prim .int32, .prim .string, .prim .int32]))
       (.arr .arrayLength .reject 8 (seqs [.prim .int16, .prim .string,
          .arr .arrayLength .reject 8 (seqs [.prim .int16, .prim .int32, .prim .int32, .prim .int32Array, .prim .int32Array])]))

end Model.Decoder
