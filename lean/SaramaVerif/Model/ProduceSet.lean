import SaramaVerif.GoSem
/-
  Model of produce_set.go (produceSet / partitionSet: add, wouldOverflow, readyToFlush, empty, dropPartition,
  buildRequest at the level "which message goes into which partition batch in which order, with which
  offsets / offset deltas / timestamps"), of ProducerMessage.byteSize and the dispatcher's size check
  (async_producer.go), of the size-relevant part of the wire encoding (request.go, produce_request.go,
  message_set.go, message.go, record_batch.go, record.go), of the per-block verdict of
  brokerProducer.handleSuccess, of the flush-enabling fragment of brokerProducer.run, and of a broker that
  appends the decoded records of a batch at a base offset.

  External behaviour is a parameter: the wall clock (`now` on every add), payload bytes (a message is
  identified by `id`; only lengths matter for sizes), topic names (index + length function), the broker's
  answer (base offset, error code, log-append time).  Integers are unbounded (`Int`); lengths are `Nat`.
  Core-only (no Mathlib).
-/
namespace Model.ProduceSet

/-! ### constants (tied to /repo by the bridge and by the `consts` line of the harness) -/
def producerMessageOverhead : Int := 26
def maximumRecordOverhead : Int := 36        -- 5*binary.MaxVarintLen32 + binary.MaxVarintLen64 + 1
def recordBatchOverhead : Int := 49
def maxVarintLen32 : Int := 5
def safetyMargin : Int := 10240              -- `10*1024` in wouldOverflow
def defaultMaxRequestSize : Int := 104857600 -- sarama.MaxRequestSize (a variable; the model takes it from Conf)

/-! ### messages, configuration, state -/

/-- a submitted ProducerMessage as far as the produce set looks at it -/
structure Msg where
  id : Nat                      -- identity of the submitted payload (key, value and header bytes)
  tp : Nat × Nat                -- (topic index, partition)
  keyLen : Nat                  -- Key.Length() (0 for a nil key)
  valLen : Nat
  headers : List (Nat × Nat)    -- (len key, len value) of every header
  ts : Option Int               -- supplied Timestamp in ms, `none` = zero time (add uses the clock)
  seq : Int                     -- sequenceNumber (idempotent producer only)
  deriving DecidableEq, Repr

/-- the configuration values the produce set reads -/
structure Conf where
  v1 : Bool                     -- Version.IsAtLeast(V0_10_0_0): message format 1 (timestamps)
  v2 : Bool                     -- Version.IsAtLeast(V0_11_0_0): record batches
  v21 : Bool                    -- Version.IsAtLeast(V2_1_0_0)
  codec : Int                   -- Producer.Compression: 0 none, 1 gzip, 2 snappy, 3 lz4, 4 zstd
  idempotent : Bool
  maxRequestSize : Int          -- sarama.MaxRequestSize
  maxMessageBytes : Int
  flushMessages : Int
  flushBytes : Int
  flushFrequency : Int
  maxMessages : Int             -- Flush.MaxMessages
  deriving DecidableEq, Repr

/-- one KafkaVersion answers the three version gates monotonically -/
def Conf.WF (c : Conf) : Prop := (c.v21 = true → c.v2 = true) ∧ (c.v2 = true → c.v1 = true)

/-- element of `recordsToSend` (a MessageBlock of a MessageSet or a Record of a RecordBatch) -/
structure Rec where
  id : Nat
  keyLen : Nat
  valLen : Nat
  headers : List (Nat × Nat)
  ts : Option Int               -- Message.Timestamp (format 1), `none` for format 0 and for records
  tsDelta : Int                 -- Record.TimestampDelta in ms (records only, else 0)
  offset : Int                  -- MessageBlock.Offset resp. Record.OffsetDelta as stored right now
  deriving DecidableEq, Repr

/-- partitionSet -/
structure PSet where
  tp : Nat × Nat
  msgs : List Msg
  recs : List Rec
  firstTs : Int                 -- RecordBatch.FirstTimestamp (records only, else 0)
  firstSeq : Int                -- RecordBatch.FirstSequence
  bufferBytes : Int
  deriving DecidableEq, Repr

/-- produceSet; `parts` lists the partition sets in creation order (the Go map is unordered; nothing in the
    model depends on the order except the canonical output of the driver) -/
structure State where
  parts : List PSet
  bufferBytes : Int
  bufferCount : Int
  deriving DecidableEq, Repr

def State.empty : State := ⟨[], 0, 0⟩

/-! ### sizes -/

def headersSize : List (Nat × Nat) → Int
  | [] => 0
  | h :: t => ((h.1 : Int) + (h.2 : Int) + 2 * maxVarintLen32) + headersSize t

/-- `ProducerMessage.byteSize(version)` -/
def byteSize (version : Int) (m : Msg) : Int :=
  (if version ≥ 2 then maximumRecordOverhead + headersSize m.headers else producerMessageOverhead)
    + (m.keyLen : Int) + (m.valLen : Int)

/-- the `version` local of wouldOverflow and of the dispatcher -/
def sizeVersion (c : Conf) : Int := if c.v2 then 2 else 1

/-- the `size` that `add` accumulates for one message (`isNew`: the partition set was created by this add) -/
def addSize (c : Conf) (isNew : Bool) (m : Msg) : Int :=
  if c.v2 then
    (if isNew then recordBatchOverhead else 0) + maximumRecordOverhead + ((m.keyLen : Int) + (m.valLen : Int))
      + headersSize m.headers
  else producerMessageOverhead + (m.keyLen : Int) + (m.valLen : Int)

/-! ### add -/

/-- the timestamp `add` works with (already in ms) -/
def effTs (now : Int) (m : Msg) : Int := match m.ts with | some t => t | none => now

def mkRec (c : Conf) (now firstTs : Int) (m : Msg) : Rec :=
  { id := m.id, keyLen := m.keyLen, valLen := m.valLen,
    headers := if c.v2 then m.headers else [],
    ts := if c.v2 then none else if c.v1 then some (effTs now m) else none,
    tsDelta := if c.v2 then effTs now m - firstTs else 0,
    offset := 0 }

def newPSet (c : Conf) (now : Int) (m : Msg) : PSet :=
  { tp := m.tp, msgs := [m], recs := [mkRec c now (effTs now m) m],
    firstTs := if c.v2 then effTs now m else 0,
    firstSeq := if c.v2 ∧ c.idempotent then m.seq else 0,
    bufferBytes := addSize c true m }

def extend (c : Conf) (now : Int) (p : PSet) (m : Msg) : PSet :=
  { p with msgs := p.msgs ++ [m], recs := p.recs ++ [mkRec c now p.firstTs m],
           bufferBytes := p.bufferBytes + addSize c false m }

def lookup (tp : Nat × Nat) : List PSet → Option PSet
  | [] => none
  | p :: ps => if p.tp = tp then some p else lookup tp ps

def addTo (c : Conf) (now : Int) (m : Msg) : List PSet → List PSet
  | [] => [newPSet c now m]
  | p :: ps => if p.tp = m.tp then extend c now p m :: ps else p :: addTo c now m ps

/-- `add` fails (after Encode succeeded) only on the idempotent out-of-sequence assertion -/
def addOk (c : Conf) (s : State) (m : Msg) : Bool :=
  match lookup m.tp s.parts with
  | some p => !(c.v2 && c.idempotent && decide (m.seq < p.firstSeq))
  | none => true

/-- `produceSet.add` (key/value Encode errors are not modelled: such a message never enters the set) -/
def add (c : Conf) (s : State) (now : Int) (m : Msg) : State :=
  if addOk c s m then
    { parts := addTo c now m s.parts,
      bufferBytes := s.bufferBytes + addSize c (lookup m.tp s.parts).isNone m,
      bufferCount := s.bufferCount + 1 }
  else s

/-! ### dropPartition, retryBatch's single-partition set -/

def removeTp (tp : Nat × Nat) : List PSet → List PSet
  | [] => []
  | p :: ps => if p.tp = tp then ps else p :: removeTp tp ps

def dropPartition (s : State) (tp : Nat × Nat) : State :=
  match lookup tp s.parts with
  | none => s
  | some p => { parts := removeTp tp s.parts, bufferBytes := s.bufferBytes - p.bufferBytes,
                bufferCount := s.bufferCount - (p.msgs.length : Int) }

/-- the produce set `retryBatch` builds around one partition set -/
def State.single (p : PSet) : State := ⟨[p], p.bufferBytes, (p.msgs.length : Int)⟩

/-! ### predicates -/

def partBytes (s : State) (tp : Nat × Nat) : Option Int := (lookup tp s.parts).map (·.bufferBytes)

/-- `produceSet.wouldOverflow` -/
def wouldOverflow (c : Conf) (s : State) (m : Msg) : Bool :=
  if s.bufferBytes + byteSize (sizeVersion c) m ≥ c.maxRequestSize - safetyMargin then true
  else if (match partBytes s m.tp with
           | some b => decide (b + byteSize (sizeVersion c) m ≥ c.maxMessageBytes)
           | none => false) then true
  else if c.maxMessages > 0 ∧ s.bufferCount ≥ c.maxMessages then true
  else false

/-- `produceSet.empty` -/
def isEmpty (s : State) : Bool := decide (s.bufferCount = 0)

/-- `produceSet.readyToFlush` -/
def readyToFlush (c : Conf) (s : State) : Bool :=
  if isEmpty s then false
  else if c.flushFrequency = 0 ∧ c.flushBytes = 0 ∧ c.flushMessages = 0 then true
  else if c.flushMessages > 0 ∧ s.bufferCount ≥ c.flushMessages then true
  else if c.flushBytes > 0 ∧ s.bufferBytes ≥ c.flushBytes then true
  else false

/-- the dispatcher's verdict on a first-pass message -/
inductive Dispatch | forward | errHeadersNeedV011 | errMessageSizeTooLarge
  deriving DecidableEq, Repr

/-- size / header check of `asyncProducer.dispatcher` (`headersNonNil`: `msg.Headers != nil`) -/
def dispatch (c : Conf) (headersNonNil : Bool) (m : Msg) : Dispatch :=
  if !c.v2 && headersNonNil then .errHeadersNeedV011
  else if byteSize (sizeVersion c) m > c.maxMessageBytes then .errMessageSizeTooLarge
  else .forward

/-! ### buildRequest -/

/-- `req.Version` as buildRequest computes it (three successive assignments) -/
def reqVersion (c : Conf) : Int :=
  if c.codec = 4 ∧ c.v21 = true then 7
  else if c.v2 then 3
  else if c.v1 then 2
  else 0

/-- `for i, x := range xs { x.Offset = int64(i) }` starting at i -/
def renumber (i : Int) : List Rec → List Rec
  | [] => []
  | r :: t => { r with offset := i } :: renumber (i + 1) t

/-- what one partition contributes to the request -/
inductive Batch
  /-- record batch v2: FirstTimestamp, LastOffsetDelta, codec, records (offset = OffsetDelta) -/
  | recordBatch (firstTs : Int) (lastOffsetDelta : Int) (codec : Int) (recs : List Rec)
  /-- uncompressed message set (format `magic`); offsets as stored -/
  | msgSet (magic : Int) (recs : List Rec)
  /-- one wrapper message (codec, format, timestamp) around the compressed inner message set -/
  | wrapper (codec : Int) (magic : Int) (ts : Option Int) (inner : List Rec)
  deriving DecidableEq, Repr

def headTs : List Rec → Option Int
  | [] => none
  | r :: _ => r.ts

/-- the per-partition body of buildRequest's loop -/
def buildBatch (c : Conf) (p : PSet) : Batch :=
  if reqVersion c ≥ 3 then
    .recordBatch p.firstTs (if p.recs.length > 0 then (p.recs.length : Int) - 1 else 0) c.codec (renumber 0 p.recs)
  else if c.codec = 0 then .msgSet (if c.v1 then 1 else 0) p.recs
  else if c.v1 then .wrapper c.codec 1 (headTs p.recs) (renumber 0 p.recs)
  else .wrapper c.codec 0 none p.recs

def buildRequest (c : Conf) (s : State) : List ((Nat × Nat) × Batch) :=
  s.parts.map (fun p => (p.tp, buildBatch c p))

/-! ### the broker: decoding a batch and appending it at a base offset -/

/-- what a log position holds: the payload identity and the record's timestamp (if the format has one) -/
structure Entry where
  id : Nat
  keyLen : Nat
  valLen : Nat
  headers : List (Nat × Nat)
  ts : Option Int
  deriving DecidableEq, Repr

def Rec.entry (r : Rec) (ts : Option Int) : Entry := ⟨r.id, r.keyLen, r.valLen, r.headers, ts⟩

/-- positions assigned one after the other starting at `i` (formats whose offsets the broker assigns) -/
def seqPlace (i : Int) : List Rec → List (Int × Entry)
  | [] => []
  | r :: t => (i, r.entry r.ts) :: seqPlace (i + 1) t

/-- relative position and content of every record of a batch, as a Kafka broker / consumer reads it:
    record batches and format-1 wrappers carry relative offsets chosen by the producer (KIP-31, KIP-98);
    for uncompressed sets and format-0 wrappers the broker assigns consecutive offsets itself. -/
def Batch.decoded : Batch → List (Int × Entry)
  | .recordBatch fts _ _ recs => recs.map (fun r => (r.offset, r.entry (some (fts + r.tsDelta))))
  | .msgSet _ recs => seqPlace 0 recs
  | .wrapper _ magic _ inner =>
      if magic ≥ 1 then inner.map (fun r => (r.offset, r.entry r.ts)) else seqPlace 0 inner

/-- the broker's structural validation of a record batch: the offset range matches the record count -/
def Batch.wellFormed : Batch → Bool
  | .recordBatch _ lod _ recs => decide (lod = (recs.length : Int) - 1)
  | .msgSet _ _ => true
  | .wrapper _ _ _ _ => true

/-- the log positions written when the broker appends the batch at `base` -/
def brokerAppend (base : Int) (b : Batch) : List (Int × Entry) :=
  b.decoded.map (fun x => (base + x.1, x.2))

/-! ### handleSuccess -/

/-- `for i, msg := range pSet.msgs { msg.Offset = block.Offset + int64(i) }`: (message id, Offset) -/
def assignOffsets (base : Int) (i : Int) : List Msg → List (Nat × Int)
  | [] => []
  | m :: t => (m.id, base + i) :: assignOffsets base (i + 1) t

/-- what handleSuccess does with the messages of one partition set -/
inductive Verdict
  | successes (offsets : List (Nat × Int)) (logAppendTs : Option Int)
  | successesUnassigned (ids : List Nat)      -- returned as successes with Offset left as it was
  | errors (code : Int) (ids : List Nat)
  | retry (code : Int) (ids : List Nat)
  deriving DecidableEq, Repr

def errIncompleteResponse : Int := -1001      -- not a KError: any value outside the table
def errDuplicateSequenceNumber : Int := 46
def retriable : List Int := [2, 3, 5, 6, 7, 19, 20]

/-- `dupAssigns`: variant flag. `false` = pinned tree (the ErrDuplicateSequenceNumber branch reports the
    successes without assigning offsets), `true` = offsets assigned from the block like for ErrNoError. -/
def handleBlock (c : Conf) (dupAssigns : Bool) (retryMax : Int) (hasResponse : Bool)
    (block : Option (Int × Int × Option Int)) (msgs : List Msg) : Verdict :=
  if !hasResponse then .successesUnassigned (msgs.map (·.id))
  else match block with
    | none => .errors errIncompleteResponse (msgs.map (·.id))
    | some (err, base, lat) =>
      if err = 0 then .successes (assignOffsets base 0 msgs) (if c.v1 then lat else none)
      else if err = errDuplicateSequenceNumber then
        (if dupAssigns then .successes (assignOffsets base 0 msgs) none
         else .successesUnassigned (msgs.map (·.id)))
      else if err ∈ retriable then
        (if retryMax ≤ 0 then .errors err (msgs.map (·.id)) else .retry err (msgs.map (·.id)))
      else .errors err (msgs.map (·.id))

/-! ### wire sizes (uncompressed encodings) -/

def zigzag (x : Int) : Int := if x ≥ 0 then 2 * x else -2 * x - 1

/-- number of bytes of `putVarint(x)` for an int64 `x` -/
def varintLen (x : Int) : Int :=
  if zigzag x < 128 then 1
  else if zigzag x < 16384 then 2
  else if zigzag x < 2097152 then 3
  else if zigzag x < 268435456 then 4
  else if zigzag x < 34359738368 then 5
  else if zigzag x < 4398046511104 then 6
  else if zigzag x < 562949953421312 then 7
  else if zigzag x < 72057594037927936 then 8
  else if zigzag x < 9223372036854775808 then 9
  else 10

def hdrsWire : List (Nat × Nat) → Int
  | [] => 0
  | h :: t => (varintLen h.1 + (h.1 : Int) + varintLen h.2 + (h.2 : Int)) + hdrsWire t

/-- body of an encoded Record (after its length varint); a nil key/value is the varint -1, one byte like 0 -/
def recBody (r : Rec) : Int :=
  1 + varintLen r.tsDelta + varintLen r.offset + varintLen r.keyLen + (r.keyLen : Int)
    + varintLen r.valLen + (r.valLen : Int) + varintLen r.headers.length + hdrsWire r.headers

def recWire (r : Rec) : Int := varintLen (recBody r) + recBody r

/-- an encoded MessageBlock: offset 8, size 4, crc 4, magic 1, attributes 1, [timestamp 8], key 4+n, value 4+n -/
def msgWire (magic : Int) (r : Rec) : Int :=
  26 + (if magic ≥ 1 then 8 else 0) + (r.keyLen : Int) + (r.valLen : Int)

def sumMap {α : Type} (f : α → Int) : List α → Int
  | [] => 0
  | a :: t => f a + sumMap f t

/-- encoded size of an uncompressed batch -/
def batchWire : Batch → Int
  | .recordBatch _ _ _ recs => 61 + sumMap recWire recs
  | .msgSet magic recs => sumMap (msgWire magic) recs
  | .wrapper _ _ _ _ => 0      -- compressed: not modelled

/-- request header + the fixed fields of a ProduceRequest: length 4, key 2, version 2, correlation id 4,
    client id 2+n, [transactional id 2], acks 2, timeout 4, topic count 4 -/
def reqFixed (c : Conf) (clientIdLen : Nat) : Int :=
  4 + 2 + 2 + 4 + 2 + (clientIdLen : Int) + (if reqVersion c ≥ 3 then 2 else 0) + 2 + 4 + 4

def topicsOf (s : State) : List Nat := (s.parts.map (·.tp.1)).eraseDups

/-- per topic: name 2+n, partition count 4 -/
def topicsWire (topicLen : Nat → Nat) (s : State) : Int :=
  sumMap (fun t => 2 + (topicLen t : Int) + 4) (topicsOf s)

/-- size on the wire of the request `buildRequest` yields (no compression): per partition id 4, size 4, records -/
def wireSize (c : Conf) (clientIdLen : Nat) (topicLen : Nat → Nat) (s : State) : Int :=
  reqFixed c clientIdLen + topicsWire topicLen s + sumMap (fun p => 8 + batchWire (buildBatch c p)) s.parts

/-- what the running size estimate does not count -/
def slack (c : Conf) (clientIdLen : Nat) (topicLen : Nat → Nat) (s : State) : Int :=
  reqFixed c clientIdLen + topicsWire topicLen s + 8 * (s.parts.length : Int)
    + (if c.v2 then 12 * (s.parts.length : Int) else if c.v1 then 8 * s.bufferCount else 0)

/-- `encode` refuses anything longer than MaxRequestSize (encoder_decoder.go) -/
def encodeAccepts (c : Conf) (size : Int) : Bool := decide (0 ≤ size ∧ size ≤ c.maxRequestSize)

/-! ### the flush-enabling fragment of brokerProducer.run -/

structure BP where
  buffer : State
  timerArmed : Bool             -- bp.timer != nil
  timerFired : Bool
  outputEnabled : Bool          -- `output` is bp.output (not nil)
  deriving DecidableEq, Repr

def BP.init : BP := ⟨State.empty, false, false, false⟩

inductive Ev
  | msg (now : Int) (m : Msg)                 -- a message reaches the overflow test / add path
  | timer                                      -- `<-bp.timer`
  | take                                       -- `output <- bp.buffer` accepted by the bridge
  | drop (tp : Nat × Nat)                      -- a response made handleSuccess drop a partition of the buffer
  deriving DecidableEq, Repr

def BP.rollOver (b : BP) : BP := { b with buffer := State.empty, timerArmed := false, timerFired := false }

/-- loop tail: `if bp.timerFired || bp.buffer.readyToFlush() { output = bp.output } else { output = nil }` -/
def BP.tail (c : Conf) (b : BP) : BP := { b with outputEnabled := b.timerFired || readyToFlush c b.buffer }

/-- one iteration of the run loop; the second component lists the sets handed to the bridge.
    An overflowing message waits in waitForSpace until the buffer is handed over (responses that drop
    partitions while waiting are separate `drop` events before the message; the epoch roll-over of the
    idempotent producer is not part of this fragment).  A failing add `continue`s: nothing changes. -/
def BP.step (c : Conf) (b : BP) : Ev → BP × List State
  | .msg now m =>
      if wouldOverflow c b.buffer m then
        (BP.tail c { buffer := add c State.empty now m,
                     timerArmed := decide (c.flushFrequency > 0), timerFired := false,
                     outputEnabled := b.outputEnabled }, [b.buffer])
      else if addOk c b.buffer m then
        (BP.tail c { b with buffer := add c b.buffer now m,
                            timerArmed := b.timerArmed || decide (c.flushFrequency > 0) }, [])
      else (b, [])
  | .timer => if b.timerArmed && !b.timerFired then (BP.tail c { b with timerFired := true }, []) else (b, [])
  | .take => if b.outputEnabled then (BP.tail c b.rollOver, [b.buffer]) else (b, [])
  | .drop tp =>
      if isEmpty (dropPartition b.buffer tp) then (BP.tail c b.rollOver, [])
      else (BP.tail c { b with buffer := dropPartition b.buffer tp }, [])

def BP.run (c : Conf) : BP → List Ev → BP × List State
  | b, [] => (b, [])
  | b, e :: es => ((BP.run c (BP.step c b e).1 es).1, (BP.step c b e).2 ++ (BP.run c (BP.step c b e).1 es).2)

end Model.ProduceSet
