/-
  Model of partitionConsumer.responseFeeder (consumer.go): how the messages parsed from one fetch response are
  intercepted and handed to the application, including the slow-reader path (MaxProcessingTime expired twice:
  the broker worker is released, the rest of the response is drained, the partition resubscribes).

  Acceptor over the hook events of the real feeder (`verifEvtKV("cf.…")`, build tag verif):
    parsed n            a response was parsed into n messages (their offsets become known as they are intercepted)
    icept off           the consumer interceptor chain was applied to the message with this offset
    deliver off         the message was handed to the application (send on Messages() succeeded)
    ack why             the broker worker was released for this response (0 all delivered, 1 dying, 2 slow reader)
    abandon off         slow path: the partition consumer is dying, the rest of the response is dropped
    resubscribe         slow path finished: the partition goes back to its broker worker
    closed              the feeder exits and closes Messages()/Errors()
-/
namespace Model.Feeder

inductive Ev
  | parsed (n : Nat)
  | icept (off : Int)
  | deliver (off : Int)
  | ack (why : Nat)
  | abandon (off : Int)
  | resubscribe
  | closed
  deriving Repr, DecidableEq

structure St where
  open_     : Bool := false        -- a parsed response is being fed
  todo      : Nat := 0             -- messages of the current response not yet delivered / dropped
  cur       : Option Int := none   -- message intercepted and waiting to be delivered
  acked     : Bool := false        -- the broker worker has been released for the current response
  slow      : Bool := false        -- slow-reader path taken (ack 2)
  closed    : Bool := false
  iceptLog  : List Int := []       -- every interceptor-chain application (offsets)
  delivered : List Int := []       -- every delivery (offsets), newest first
  acks      : Nat := 0
  responses : Nat := 0
  deriving Repr

def step (s : St) : Ev → Except String St
  | .parsed n =>
    if s.closed then .error "parsed: after close"
    else if s.open_ then .error "parsed: previous response not finished (no ack / resubscribe)"
    else if n = 0 then .ok { s with open_ := true, todo := 0, cur := none, acked := false, slow := false, responses := s.responses + 1 }
    else .ok { s with open_ := true, todo := n, cur := none, acked := false, slow := false, responses := s.responses + 1 }
  | .icept off =>
    if ¬ s.open_ then .error "icept: no response being fed"
    else if s.cur.isSome then .error "icept: interceptors applied while another message is waiting to be delivered"
    else if s.todo = 0 then .error "icept: more messages than were parsed"
    else if off ∈ s.iceptLog then .error "icept: interceptor chain applied twice to one message"
    else .ok { s with cur := some off, iceptLog := off :: s.iceptLog }
  | .deliver off =>
    if ¬ s.open_ then .error "deliver: no response being fed"
    else if s.cur ≠ some off then .error "deliver: message was not intercepted immediately before (or delivered twice)"
    else if s.todo = 0 then .error "deliver: more messages than were parsed"
    else .ok { s with cur := none, todo := s.todo - 1, delivered := off :: s.delivered }
  | .ack why =>
    if ¬ s.open_ then .error "ack: no response being fed"
    else if s.acked then .error "ack: broker worker released twice for one response"
    else if why = 0 then
      if s.todo ≠ 0 ∨ s.cur.isSome then .error "ack: response acknowledged before every message was delivered"
      else .ok { s with acked := true, open_ := false, acks := s.acks + 1 }
    else if why = 1 then .ok { s with acked := true, open_ := false, cur := none, todo := 0, acks := s.acks + 1 }
    else
      if s.cur.isNone then .error "ack(slow): no message is blocked"
      else .ok { s with acked := true, slow := true, acks := s.acks + 1 }
  | .abandon off =>
    if ¬ (s.open_ ∧ s.slow) then .error "abandon: not on the slow path"
    else if s.cur ≠ some off then .error "abandon: not the blocked message"
    else .ok { s with cur := none, todo := 0 }
  | .resubscribe =>
    if ¬ (s.open_ ∧ s.slow) then .error "resubscribe: not on the slow path"
    else if s.cur.isSome then .error "resubscribe: a message is still blocked"
    else if s.todo ≠ 0 then .error "resubscribe: messages of the response left undelivered"
    else .ok { s with open_ := false, slow := false }
  | .closed =>
    if s.closed then .error "closed: twice"
    else if s.open_ then .error "closed: while a response is being fed"
    else .ok { s with closed := true }

def run (s : St) : List Ev → Except String St
  | [] => .ok s
  | e :: es => match step s e with
    | .ok s' => run s' es
    | .error m => .error m

end Model.Feeder
