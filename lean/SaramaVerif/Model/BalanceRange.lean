import SaramaVerif.Model.BalancePlan
/-
  Range strategy (balance_strategy.go: BalanceStrategyRange.coreFn, balanceStrategy.Plan).

  Go computes the slice bounds with IEEE-754 doubles: `min = int(floor(i*step + 0.5))`, `step = n/m` (already
  rounded).  That differs from exact half-up rounding of i*n/m at exact half points, so the float expression is
  NOT given a closed formula here; it is a parameter `r : Nat → Nat` (r i = the bound before member i) constrained
  by the relation `RangeBoundary` which both roundings satisfy.  The harness checks the relation on the bounds
  the real code produces, for every (n, m) it runs.
-/
namespace Model.Balance

/-- `r 0 = 0`, `r m = n`, and every bound is within half a partition of the exact point `i·n/m`
    (closed on both sides): |2·m·r(i) − 2·i·n| ≤ m. -/
def RangeBoundary (n m : Nat) (r : Nat → Nat) : Prop :=
  r 0 = 0 ∧ r m = n ∧ ∀ i, i ≤ m → 2 * (m * r i) ≤ 2 * (i * n) + m ∧ 2 * (i * n) ≤ 2 * (m * r i) + m

/-- executable form of `RangeBoundary` (driver, examples) -/
def rangeBoundaryB (n m : Nat) (r : Nat → Nat) : Bool :=
  r 0 == 0 && r m == n &&
  (List.range (m + 1)).all (fun i => decide (2 * (m * r i) ≤ 2 * (i * n) + m) && decide (2 * (i * n) ≤ 2 * (m * r i) + m))

/-- `partitions[min:max]` of member number `i` -/
def slice (r : Nat → Nat) (ps : List Int) (i : Nat) : List Int :=
  (ps.drop (r i)).take (r (i + 1) - r i)

/-- the loop of `coreFn` from member number `i` on -/
def rangeCoreFrom (r : Nat → Nat) (t : Topic) (ps : List Int) : Nat → List Member → Plan → Plan
  | _, [], plan => plan
  | i, m :: ms, plan => rangeCoreFrom r t ps (i + 1) ms (plan.add m t (slice r ps i))

/-- `coreFn(plan, memberIDs, topic, partitions)` -/
def rangeCore (r : Nat → Nat) (plan : Plan) (ms : List Member) (t : Topic) (ps : List Int) : Plan :=
  rangeCoreFrom r t ps 0 ms plan

/-- `balanceStrategy.Plan` after the members-by-topic map `mbt` has been built and each list sorted by hash:
    `mbt` is that map in its iteration order, `r t` the bounds the float computation yields for topic `t`. -/
def rangePlan (r : Topic → Nat → Nat) (ts : Topics) : AL Member → Plan → Plan
  | [], plan => plan
  | (t, ms) :: rest, plan => rangePlan r ts rest (rangeCore (r t) plan ms t (partsOf ts t))

/-- `mbt` is a members-by-topic map of the group: one entry per topic, and a member is listed under a topic
    exactly if it lists the topic (as often as it likes, in any order — the hash order is one). -/
def MbtOf (members : Members) (mbt : AL Member) : Prop :=
  (AL.keys mbt).Nodup ∧
  (∀ t m, m ∈ AL.get mbt t ↔ ∃ e, e ∈ members ∧ e.1 = m ∧ t ∈ e.2)

end Model.Balance
