/-
  Model of one broker worker of the NON-idempotent async producer (async_producer.go: brokerProducer.run,
  needsRetry, waitForSpace, handleResponse, handleSuccess, handleError, rollOver, and the bridge goroutine of
  newBrokerProducer), as a transducer  `step : St → In → St × List Action`.

  Tokens are what arrives on `bp.input`: data messages, the `syn` a partition producer sends when it attaches,
  and the `fin` chaser it sends when it leaves.  Inputs are the three things the run loop selects on: a token
  (`recv`), the bridge taking the buffer (`handover`), and the bridge delivering the response for the set it took
  (`resp`).  Everything the worker cannot decide by itself is a parameter of the input:
    * `overflow`  - the value of `bp.buffer.wouldOverflow(msg)` for an arriving data token,
    * `still`     - the same test re-evaluated inside waitForSpace after a response has been handled,
    * the response: per-partition verdict class or a request-level error,
    * `ord…`      - the order in which Go's map iteration (`produceSet.eachPartition`) visits the partitions.
      Partitions not mentioned in `ord` are visited afterwards in order of first appearance, and a partition is
      handled once (its tokens are removed from the work list when it is visited), so EVERY `ord` yields a
      permutation of the partitions of the set, and every permutation is some `ord`.
  An input that the Go code cannot take in the current state (a token while the loop sits in waitForSpace, a
  second set while the bridge still holds one, a response without a set) leaves the state
  unchanged and yields `[disabled]`.

  Not modelled: the flush timer and size accounting (they only decide WHEN `handover` / `overflow` happen),
  `bp.buffer.add` failing (encoder error of a user key/value), the idempotent path (retryBatch, epoch roll-over).
  `max` is `Producer.Retry.Max` (values ≤ 0 are `0`).
-/
namespace Model.BrokerProd

inductive Kind
  | data | syn | fin
  deriving Repr, DecidableEq

structure Tok where
  id      : Int
  part    : Int
  retries : Nat
  kind    : Kind
  deriving Repr, DecidableEq

/-- what a ProduceResponse says about one partition of the request -/
inductive Verdict
  | ok         -- ErrNoError, ErrDuplicateSequenceNumber, or no response at all (RequiredAcks = NoResponse)
  | retriable  -- the seven codes of the `Retriable errors` case
  | fatal      -- any other code
  | missing    -- the response has no block for the partition
  deriving Repr, DecidableEq

/-- KError code → class, as in the `switch block.Err` of handleSuccess (-1000 is the hook's code for "no block") -/
def classOf (code : Int) : Verdict :=
  if code = 0 ∨ code = 46 then .ok
  else if code = 2 ∨ code = 3 ∨ code = 5 ∨ code = 6 ∨ code = 7 ∨ code = 19 ∨ code = 20 then .retriable
  else if code = -1000 then .missing
  else .fatal

inductive Resp
  | verdicts (v : Int → Verdict) (ord1 ord2 : List Int)  -- err == nil: handleSuccess (two passes over the set)
  | encErr (ord : List Int)                              -- err is a PacketEncodingError
  | connErr (ord1 ord2 : List Int)                       -- any other request-level error (passes: set, buffer)

inductive In
  | recv (t : Tok) (overflow : Bool)
  | handover
  | resp (r : Resp) (still : Bool)

inductive Action
  | ackSyn (p : Int)                          -- syn consumed: currentRetries[p] = nil, inFlight.Done   (wg.done.syn)
  | refuse (id : Int)                         -- the token is not accepted on arrival                  (bp.bounce)
  | requeue (id : Int) (p : Int) (retries : Nat) (fin : Bool)  -- retryMessage: pushed to p.retries, new count (retry)
  | expire (id : Int) (p : Int) (fin : Bool)  -- retryMessage with the budget spent: returnError        (ret.err)
  | add (id : Int) (p : Int)                  -- appended to the buffer                                 (bp.add)
  | succ (id : Int) (p : Int)                 -- returnSuccesses                                        (ret.succ)
  | fail (id : Int) (p : Int)                 -- returnErrors                                           (ret.err)
  | drop (p : Int)                            -- buffer.dropPartition                                   (bp.drop)
  | closing                                   -- state change to [closing]                              (bp.closing)
  | abandon                                   -- abandonBrokerConnection (no hook)
  | disabled                                  -- the input cannot be taken in this state
  deriving Repr, DecidableEq

structure St where
  closing : Bool := false                     -- bp.closing != nil
  cr      : Int → Bool := fun _ => false      -- bp.currentRetries[topic][p] != nil
  buffer  : List Tok := []                    -- bp.buffer, in arrival order
  sets    : List (List Tok) := []             -- handed to the bridge, response not handled yet
  wait    : Option Tok := none                -- the token the loop holds while it sits in waitForSpace
  stale   : Bool := false                     -- the loop's `output` variable was not recomputed after the buffer changed

def setCr (c : Int → Bool) (p : Int) (v : Bool) : Int → Bool := fun k => if k = p then v else c k

/-- the part of a token list that belongs to partition `p` / the rest -/
def onPart (p : Int) (ts : List Tok) : List Tok := ts.filter (fun t => t.part == p)
def offPart (p : Int) (ts : List Tok) : List Tok := ts.filter (fun t => !(t.part == p))

def partsOf (ts : List Tok) : List Int := ts.map (·.part)

def Tok.isFin (t : Tok) : Bool :=
  match t.kind with
  | .fin => true
  | _ => false

/-- asyncProducer.retryMessage -/
def retryMsg (max : Nat) (t : Tok) : Action :=
  if t.retries ≥ max then .expire t.id t.part t.isFin else .requeue t.id t.part (t.retries + 1) t.isFin

def retryMsgs (max : Nat) (ts : List Tok) : List Action := ts.map (retryMsg max)

/-- brokerProducer.needsRetry -/
def needsRetry (s : St) (p : Int) : Bool := s.closing || s.cr p

/-- the `case msg := <-bp.input` arm of brokerProducer.run.  Every branch but the last two ends in `continue`,
    which skips the re-computation of `output` at the bottom of the loop. -/
def recv (max : Nat) (s : St) (t : Tok) (overflow : Bool) : St × List Action :=
  if s.wait.isSome then (s, [.disabled])
  else if t.kind = .syn then ({ s with cr := setCr s.cr t.part false }, [.ackSyn t.part])
  else if needsRetry s t.part then
    (if !s.closing && t.kind = .fin then { s with cr := setCr s.cr t.part false } else s,
     [.refuse t.id, retryMsg max t])
  else if t.kind = .fin then (s, [.refuse t.id, retryMsg max t])   -- a fin is never data
  else if overflow then ({ s with wait := some t }, [])              -- → waitForSpace
  else ({ s with buffer := s.buffer ++ [t], stale := false }, [.add t.id t.part])

/-- the `case output <- bp.buffer` arms (run, shutdown, waitForSpace) followed by rollOver.  The bridge goroutine
    takes a set only when it is idle, i.e. after the run loop has received the previous response.
    The buffer can be EMPTY: when waitForSpace handles a response that empties the buffer and the held message
    is bounced, the `continue` leaves the `output` variable armed (`stale`), and the next loop iteration may
    hand an empty set to the bridge (an empty produce request goes to the broker). -/
def handover (s : St) : St × List Action :=
  if !s.sets.isEmpty then (s, [.disabled])
  else match s.wait with
    | none =>
      if s.buffer.isEmpty && !s.stale then (s, [.disabled])
      else ({ s with sets := [s.buffer], buffer := [], stale := false }, [])
    | some t => ({ s with sets := [s.buffer], buffer := [t], wait := none, stale := false }, [.add t.id t.part])

/-- tokens of `rem` grouped by partition, partitions in the order of the list (a partition is taken once) -/
def arrange : List Int → List Tok → List Tok
  | [], _ => []
  | p :: ps, rem => onPart p rem ++ arrange ps (offPart p rem)

/-- what the first pass of handleSuccess does with the messages of one partition of the set -/
def verdictActs (max : Nat) (v : Verdict) (ts : List Tok) : List Action :=
  if ts.isEmpty then []
  else match v with
    | .ok => ts.map (fun t => Action.succ t.id t.part)
    | .missing => ts.map (fun t => Action.fail t.id t.part)
    | .fatal => (if max = 0 then [Action.abandon] else []) ++ ts.map (fun t => Action.fail t.id t.part)
    | .retriable => if max = 0 then Action.abandon :: ts.map (fun t => Action.fail t.id t.part) else []

/-- first `sent.eachPartition` of handleSuccess -/
def loop1 (max : Nat) (v : Int → Verdict) : List Int → List Tok → List Action
  | [], _ => []
  | p :: ps, rem => verdictActs max (v p) (onPart p rem) ++ loop1 max v ps (offPart p rem)

/-- second `sent.eachPartition` of handleSuccess (runs when retryTopics is not empty) -/
def loop2 (max : Nat) (v : Int → Verdict) : List Int → List Tok → St → St × List Action
  | [], _, s => (s, [])
  | p :: ps, rem, s =>
    if (onPart p rem).isEmpty ∨ v p ≠ .retriable then loop2 max v ps (offPart p rem) s
    else
      ((loop2 max v ps (offPart p rem) { s with cr := setCr s.cr p true, buffer := offPart p s.buffer }).1,
       retryMsgs max (onPart p rem) ++ Action.drop p :: retryMsgs max (onPart p s.buffer) ++
       (loop2 max v ps (offPart p rem) { s with cr := setCr s.cr p true, buffer := offPart p s.buffer }).2)

/-- `len(retryTopics) > 0` -/
def retryTopics (max : Nat) (v : Int → Verdict) (sent : List Tok) : Bool :=
  decide (max > 0) && sent.any (fun t => v t.part == .retriable)

/-- handleSuccess / handleError for the set `sent`; `s` is the state with the set already removed from `sets` -/
def handle (max : Nat) (s : St) (sent : List Tok) : Resp → St × List Action
  | .verdicts v o1 o2 =>
    if retryTopics max v sent then
      ((loop2 max v (o2 ++ partsOf sent) sent s).1,
       loop1 max v (o1 ++ partsOf sent) sent ++ (loop2 max v (o2 ++ partsOf sent) sent s).2)
    else (s, loop1 max v (o1 ++ partsOf sent) sent)
  | .encErr o => (s, (arrange (o ++ partsOf sent) sent).map (fun t => Action.fail t.id t.part))
  | .connErr o1 o2 =>
    ({ s with closing := true, buffer := [] },
     Action.closing :: Action.abandon :: retryMsgs max (arrange (o1 ++ partsOf sent) sent) ++
       retryMsgs max (arrange (o2 ++ partsOf s.buffer) s.buffer))

/-- the re-check of waitForSpace after handleResponse; when the loop is not waiting, handleResponse was called
    from the run loop (or from shutdown) and the bottom of the loop recomputes `output` -/
def recheck (max : Nat) (s : St) (acts : List Action) (still : Bool) : St × List Action :=
  match s.wait with
  | none => ({ s with stale := false }, acts)
  | some t =>
    if needsRetry s t.part then ({ s with wait := none, stale := true }, acts ++ [retryMsg max t])
    else if still then (s, acts)
    else ({ s with wait := none, buffer := s.buffer ++ [t], stale := false }, acts ++ [.add t.id t.part])

/-- the `case response := <-bp.responses` arms: handleResponse, then (inside waitForSpace) the re-check -/
def resp (max : Nat) (s : St) (r : Resp) (still : Bool) : St × List Action :=
  match s.sets with
  | [] => (s, [.disabled])
  | sent :: rest =>
    recheck max (handle max { s with sets := rest } sent r).1 (handle max { s with sets := rest } sent r).2 still

def step (max : Nat) (s : St) : In → St × List Action
  | .recv t overflow => recv max s t overflow
  | .handover => handover s
  | .resp r still => resp max s r still

/-- run over an input sequence, collecting the actions -/
def runAll (max : Nat) (s : St) : List In → St × List Action
  | [] => (s, [])
  | i :: is => ((runAll max (step max s i).1 is).1, (step max s i).2 ++ (runAll max (step max s i).1 is).2)

/-- the non-syn token a step takes in (nothing when the input is disabled or is not a token) -/
def arrived (s : St) : In → List Tok
  | .recv t _ => if s.wait.isSome then [] else if t.kind = .syn then [] else [t]
  | _ => []

/-- all tokens (data and fin) taken in along a run, in arrival order -/
def arrivals (max : Nat) (s : St) : List In → List Tok
  | [] => []
  | i :: is => arrived s i ++ arrivals max (step max s i).1 is

end Model.BrokerProd
