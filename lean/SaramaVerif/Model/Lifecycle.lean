/-
  Shutdown handshakes of the consumer-side components (C12): small acceptors over the hook events `lc.*` of
  /repo (build tag verif; the events are emitted immediately before the action they announce, by the goroutine
  that performs it).  One acceptor per object:

    PC   partitionConsumer   (consumer.go: AsyncClose, dispatcher, responseFeeder, the broker worker's actions on it)
    BC   brokerConsumer      (consumer.go: ref/unref, subscriptionManager, subscriptionConsumer, abort)
    Cons consumer            (children registry, Close)
    Grp  consumerGroup + the session that holds its lock (consumer_group.go: Close, Consume, release, heartbeatLoop)
    OM   offsetManager       (offset_manager.go: Close, mainLoop, final flush loop, releasePOMs)
    POM  partitionOffsetManager
    Cli  client              (client.go: Close, backgroundMetadataUpdater)
    Br   Broker              (broker.go: Open, send, responseReceiver, Close)

  Every channel that is closed during shutdown has an explicit closed flag.  A send on a closed channel and a
  second close of a channel are NOT accepted (`.error`): that is the run-time panic of the real code.  The other
  guards are the hand-shake protocol (who may act when).  All acceptors are prefix-closed.
-/
namespace Model.Lifecycle

/-- run an acceptor over a list of events -/
def runWith {σ ε : Type} (step : σ → ε → Except String σ) : σ → List ε → Except String σ
  | s, [] => .ok s
  | s, e :: es =>
    match step s e with
    | .ok s' => runWith step s' es
    | .error m => .error m

/-- does the acceptor accept the whole sequence? -/
def accepts {σ ε : Type} (step : σ → ε → Except String σ) (s : σ) (evs : List ε) : Bool :=
  match runWith step s evs with
  | .ok _ => true
  | .error _ => false

/-! ## partition consumer -/
namespace PC

inductive Owner
  | nobody            -- created, not yet handed to a broker worker
  | bc (b : Nat)      -- subscribed to (or on its way into) broker worker b
  | disp              -- handed back to its dispatcher (trigger token / trigger closed)
  | feeder            -- slow-reader path: the feeder will resubscribe it
  deriving Repr, DecidableEq

inductive Src | new | disp | feeder
  deriving Repr, DecidableEq

inductive Ev
  | start
  | inputSend (w : Src) (b : Nat)   -- `child.broker.input <- child`
  | dyingClose                      -- AsyncClose (inside closeOnce): close(dying)
  | dispToken                       -- dispatcher received a token from trigger
  | trigSendDisp                    -- dispatcher: dispatch failed, `trigger <- none{}` to itself
  | trigSendBc (b : Nat)            -- broker worker: `child.trigger <- none{}` (handleResponses / abort)
  | trigCloseDisp                   -- dispatcher: dying seen, close(trigger)
  | trigCloseBc (b : Nat) (oor : Bool) -- broker worker: close(trigger) (dying seen / offset out of range)
  | unrefRedispatch (b : Nat)       -- dispatcher gives up its reference before redispatching
  | unrefExit (b : Nat)             -- dispatcher gives up its reference after its loop
  | remove                          -- consumer.removeChild
  | feederClose                     -- dispatcher: close(child.feeder)
  | feederSend (b : Nat)            -- broker worker: `child.feeder <- response`
  | feederRecv                      -- feeder took a response
  | msgSend                         -- feeder: send on Messages() done
  | ack (why : Nat)                 -- feeder releases the broker worker (0 done, 1 dying, 2 slow reader)
  | errSend                         -- sendError: `child.errors <- err`
  | feederExit                      -- feeder left its loop
  | msgsClose                       -- close(child.messages)
  | errsClose                       -- close(child.errors)
  deriving Repr, DecidableEq

structure St where
  started      : Bool := false
  dying        : Bool := false
  owner        : Owner := .nobody
  busy         : Bool := false        -- the dispatcher is handling a token
  token        : Bool := false        -- a token is buffered in trigger
  trigClosed   : Bool := false
  ref          : Option Nat := none   -- child.broker: the broker worker it holds a reference on
  exiting      : Bool := false        -- the dispatcher left its loop
  removed      : Bool := false
  feederClosed : Bool := false        -- child.feeder closed
  inflight     : Bool := false        -- a response sits in child.feeder
  feeding      : Bool := false        -- the feeder has an unacknowledged response in hand
  slow         : Bool := false        -- slow-reader path (between ack 2 and the resubscription)
  feederExited : Bool := false
  msgsClosed   : Bool := false
  errsClosed   : Bool := false
  deriving Repr

def step (s : St) : Ev → Except String St
  | .start =>
    if s.started then .error "start: twice" else .ok { s with started := true }
  | .inputSend .new b =>
    if ¬ s.started then .error "input.send(new): not started"
    else if s.owner ≠ .nobody then .error "input.send(new): already subscribed"
    else .ok { s with owner := .bc b, ref := some b }
  | .inputSend .disp b =>
    if ¬ s.busy then .error "input.send(disp): the dispatcher holds no token"
    else if s.owner ≠ .disp then .error "input.send(disp): the dispatcher does not own the child"
    else if s.trigClosed then .error "input.send(disp): after trigger was closed"
    else if s.ref.isSome then .error "input.send(disp): old broker reference not returned"
    else .ok { s with owner := .bc b, ref := some b, busy := false }
  | .inputSend .feeder b =>
    if s.owner ≠ .feeder then .error "input.send(feeder): not on the slow-reader path"
    else if s.ref ≠ some b then .error "input.send(feeder): resubscription to a broker worker it holds no reference on"
    else .ok { s with owner := .bc b, slow := false }
  | .dyingClose =>
    if ¬ s.started then .error "dying.close: not started"
    else if s.dying then .error "close of closed channel: dying"
    else .ok { s with dying := true }
  | .dispToken =>
    if ¬ s.token then .error "disp.token: no token in trigger"
    else if s.busy then .error "disp.token: dispatcher still busy"
    else if s.exiting then .error "disp.token: dispatcher left its loop"
    else if s.owner ≠ .disp then .error "disp.token: child not handed to the dispatcher"
    else .ok { s with token := false, busy := true }
  | .trigSendDisp =>
    if ¬ s.busy then .error "trigger.send(disp): the dispatcher holds no token"
    else if s.owner ≠ .disp then .error "trigger.send(disp): the dispatcher does not own the child"
    else if s.trigClosed then .error "send on closed channel: trigger"
    else if s.token then .error "trigger.send(disp): trigger is full"
    else .ok { s with token := true, busy := false }
  | .trigSendBc b =>
    if s.owner ≠ .bc b then .error "trigger.send(bc): the broker worker does not own the child"
    else if s.trigClosed then .error "send on closed channel: trigger"
    else if s.token then .error "trigger.send(bc): trigger is full"
    else .ok { s with token := true, owner := .disp }
  | .trigCloseDisp =>
    if ¬ s.busy then .error "trigger.close(disp): the dispatcher holds no token"
    else if s.owner ≠ .disp then .error "trigger.close(disp): the dispatcher does not own the child"
    else if ¬ s.dying then .error "trigger.close(disp): not dying"
    else if s.trigClosed then .error "close of closed channel: trigger"
    else .ok { s with trigClosed := true }
  | .trigCloseBc b oor =>
    if s.owner ≠ .bc b then .error "trigger.close(bc): the broker worker does not own the child"
    else if ¬ (oor ∨ s.dying) then .error "trigger.close(bc): neither dying nor out of range"
    else if s.trigClosed then .error "close of closed channel: trigger"
    else .ok { s with trigClosed := true, owner := .disp }
  | .unrefRedispatch b =>
    if ¬ s.busy then .error "unref(redispatch): the dispatcher holds no token"
    else if s.trigClosed then .error "unref(redispatch): after trigger was closed"
    else if s.ref ≠ some b then .error "unref(redispatch): not the broker worker it holds a reference on"
    else .ok { s with ref := none }
  | .unrefExit b =>
    if ¬ s.trigClosed then .error "unref(exit): trigger still open"
    else if s.owner ≠ .disp then .error "unref(exit): the dispatcher does not own the child"
    else if s.exiting then .error "unref(exit): twice"
    else if s.ref ≠ some b then .error "unref(exit): not the broker worker it holds a reference on"
    else .ok { s with ref := none, exiting := true, busy := false }
  | .remove =>
    if ¬ s.trigClosed then .error "remove: trigger still open"
    else if s.owner ≠ .disp then .error "remove: the dispatcher does not own the child"
    else if s.removed then .error "remove: twice"
    else if s.ref.isSome then .error "remove: broker reference not returned"
    else .ok { s with removed := true, exiting := true, busy := false }
  | .feederClose =>
    if ¬ s.removed then .error "feeder.close: child not removed from the consumer"
    else if s.feederClosed then .error "close of closed channel: feeder"
    else .ok { s with feederClosed := true }
  | .feederSend b =>
    if s.owner ≠ .bc b then .error "feeder.send: the broker worker does not own the child"
    else if s.feederClosed then .error "send on closed channel: feeder"
    else if s.inflight ∨ s.feeding then .error "feeder.send: previous response not acknowledged"
    else .ok { s with inflight := true }
  | .feederRecv =>
    if ¬ s.inflight then .error "feeder.recv: nothing in the feeder channel"
    else .ok { s with inflight := false, feeding := true }
  | .msgSend =>
    if ¬ (s.feeding ∨ s.slow) then .error "messages.send: the feeder has no response in hand"
    else if s.msgsClosed then .error "send on closed channel: messages"
    else .ok s
  | .ack why =>
    if ¬ s.feeding then .error "ack: no unacknowledged response"
    else if why = 2 then
      match s.owner with
      | .bc _ => .ok { s with feeding := false, slow := true, owner := .feeder }
      | _ => .error "ack(slow): child not subscribed to a broker worker"
    else .ok { s with feeding := false }
  | .errSend =>
    if s.trigClosed then .error "errors.send: after trigger was closed (the sender no longer owns the child)"
    else if s.errsClosed then .error "send on closed channel: errors"
    else .ok s
  | .feederExit =>
    if ¬ s.feederClosed then .error "feeder.exit: feeder channel still open"
    else if s.inflight ∨ s.feeding ∨ s.slow then .error "feeder.exit: a response is still being fed"
    else if s.feederExited then .error "feeder.exit: twice"
    else .ok { s with feederExited := true }
  | .msgsClose =>
    if ¬ s.feederExited then .error "messages.close: the feeder is still running"
    else if s.msgsClosed then .error "close of closed channel: messages"
    else .ok { s with msgsClosed := true }
  | .errsClose =>
    if ¬ s.msgsClosed then .error "errors.close: messages still open"
    else if s.errsClosed then .error "close of closed channel: errors"
    else .ok { s with errsClosed := true }

abbrev run := runWith step

/-- events that are performed by the component's own goroutines (not by the application) -/
def internal : Ev → Bool
  | .start => false
  | .dyingClose => false
  | _ => true

end PC

/-! ## broker consumer (one worker per broker, reference-counted) -/
namespace BC

inductive Ev
  | new
  | ref (n : Nat)          -- refBrokerConsumer (n = refs before)
  | unref (n : Nat)        -- unrefBrokerConsumer (n = refs before)
  | inputClose             -- close(input) when the last reference was returned
  | inputSend              -- a partition consumer sends itself on input
  | subAdd                 -- updateSubscriptions adds a child
  | waitClose              -- subscriptionManager: close(wait)
  | flush (n : Nat)        -- subscriptionManager: left-over buffer sent on newSubscriptions
  | newsubsClose           -- subscriptionManager: close(newSubscriptions)
  | abort                  -- subscriptionConsumer: fetch failed
  | exit (aborted : Bool)  -- subscriptionConsumer returns
  deriving Repr, DecidableEq

structure St where
  created       : Bool := false
  refs          : Nat := 0
  inputClosed   : Bool := false
  waitClosed    : Bool := false
  flushed       : Bool := false
  newsubsClosed : Bool := false
  aborted       : Bool := false
  exited        : Bool := false
  deriving Repr

def step (s : St) : Ev → Except String St
  | .new => if s.created then .error "new: twice" else .ok { s with created := true }
  | .ref n =>
    if ¬ s.created then .error "ref: unknown broker worker"
    else if s.inputClosed then .error "ref: after input was closed"
    else if n ≠ s.refs then .error "ref: reference count differs"
    else .ok { s with refs := s.refs + 1 }
  | .unref n =>
    if n ≠ s.refs then .error "unref: reference count differs"
    else if s.refs = 0 then .error "unref: no reference held"
    else .ok { s with refs := s.refs - 1 }
  | .inputClose =>
    if s.refs ≠ 0 then .error "input.close: references still held"
    else if s.inputClosed then .error "close of closed channel: input"
    else .ok { s with inputClosed := true }
  | .inputSend =>
    if s.inputClosed then .error "send on closed channel: input"
    else if s.refs = 0 then .error "input.send: sender holds no reference"
    else .ok s
  | .subAdd =>
    if s.exited then .error "sub.add: after the worker returned"
    else if s.aborted then .error "sub.add: after abort"
    else .ok s
  | .waitClose =>
    if ¬ s.inputClosed then .error "wait.close: input still open"
    else if s.waitClosed then .error "close of closed channel: wait"
    else .ok { s with waitClosed := true }
  | .flush n =>
    if ¬ s.waitClosed then .error "newsubs.flush: wait still open"
    else if s.newsubsClosed then .error "send on closed channel: newSubscriptions"
    else if s.flushed then .error "newsubs.flush: twice"
    else if n = 0 then .error "newsubs.flush: empty buffer"
    else .ok { s with flushed := true }
  | .newsubsClose =>
    if ¬ s.waitClosed then .error "newsubs.close: wait still open"
    else if s.newsubsClosed then .error "close of closed channel: newSubscriptions"
    else .ok { s with newsubsClosed := true }
  | .abort =>
    if s.aborted then .error "abort: twice"
    else if s.exited then .error "abort: after the worker returned"
    else .ok { s with aborted := true }
  | .exit ab =>
    if s.exited then .error "exit: twice"
    else if ab ≠ s.aborted then .error "exit: wrong exit path"
    else if ¬ s.newsubsClosed then .error "exit: newSubscriptions still open"
    else .ok { s with exited := true }

abbrev run := runWith step

def internal : Ev → Bool
  | .waitClose | .flush _ | .newsubsClose | .exit _ => true
  | _ => false

/-- steps left to the worker's two goroutines once input is closed -/
def rank (s : St) : Nat :=
  (if s.waitClosed then 0 else 1) + (if s.flushed then 0 else 1) + (if s.newsubsClosed then 0 else 1) + (if s.exited then 0 else 1)

end BC

/-! ## consumer: registry of its partition consumers -/
namespace Cons

inductive Ev
  | childAdd (c : Nat)
  | childRemove (c : Nat)
  | close
  deriving Repr, DecidableEq

structure St where
  live   : List Nat := []
  closed : Bool := false
  deriving Repr

def step (s : St) : Ev → Except String St
  | .childAdd c =>
    if s.closed then .error "child.add: after Consumer.Close"
    else if c ∈ s.live then .error "child.add: already registered"
    else .ok { s with live := c :: s.live }
  | .childRemove c =>
    if c ∉ s.live then .error "child.remove: not registered"
    else .ok { s with live := s.live.erase c }
  | .close =>
    if s.live ≠ [] then .error "Consumer.Close before its partition consumers were closed (documented order)"
    else .ok { s with closed := true }

abbrev run := runWith step

end Cons

/-! ## consumer group and the session holding its lock -/
namespace Grp

inductive Lock | free | consume | leave
  deriving Repr, DecidableEq

inductive Ev
  | closedClose | leaveLock | leaveUnlock | errorsClose | errorsSend | clientClose | closeDone
  | consumeLock | consumeUnlock
  | sessStart (n : Nat) | claimAdd (n : Nat) | claimDone (n : Nat) | release (n : Nat) | claimsJoined (n : Nat)
  | cleanup (n : Nat) | offsetsClose (n : Nat) | hbDyingClose (n : Nat) | hbDeadClose (n : Nat) | hbDeadRecv (n : Nat)
  | releaseDone (n : Nat)
  deriving Repr, DecidableEq

structure St where
  closed       : Bool := false          -- `closed` channel closed
  lock         : Lock := .free
  left         : Bool := false          -- leave() done
  errsClosed   : Bool := false
  clientClosed : Bool := false
  done         : Bool := false
  sess         : Option Nat := none     -- session of the running Consume call
  claims       : Nat := 0
  claimsDone   : Nat := 0
  releasing    : Bool := false
  joined       : Bool := false          -- waitGroup.Wait() returned
  cleaned      : Bool := false
  omClosed     : Bool := false
  hbDying      : Bool := false
  hbDead       : Bool := false
  hbRecv       : Bool := false
  released     : Bool := false
  deriving Repr

def step (s : St) : Ev → Except String St
  | .closedClose =>
    if s.closed then .error "close of closed channel: closed" else .ok { s with closed := true }
  | .leaveLock =>
    if ¬ s.closed then .error "leave: before closed was closed"
    else if s.lock ≠ .free then .error "leave: lock is held (a session is running)"
    else if s.left then .error "leave: twice"
    else .ok { s with lock := .leave }
  | .leaveUnlock =>
    if s.lock ≠ .leave then .error "leave.unlock: lock not held by leave" else .ok { s with lock := .free, left := true }
  | .errorsClose =>
    if ¬ s.left then .error "errors.close: before the group was left"
    else if s.errsClosed then .error "close of closed channel: errors"
    else .ok { s with errsClosed := true }
  | .errorsSend =>
    if s.errsClosed then .error "send on closed channel: errors" else .ok s
  | .clientClose =>
    if ¬ s.errsClosed then .error "client.close: errors still open"
    else if s.clientClosed then .error "client.close: twice"
    else .ok { s with clientClosed := true }
  | .closeDone =>
    if ¬ s.clientClosed then .error "close.done: client not closed"
    else if s.done then .error "close.done: twice"
    else .ok { s with done := true }
  | .consumeLock =>
    if s.lock ≠ .free then .error "consume: lock is held"
    else .ok { s with lock := .consume, sess := none }
  | .consumeUnlock =>
    if s.lock ≠ .consume then .error "consume.unlock: lock not held by Consume"
    else if s.sess.isSome ∧ ¬ s.released then .error "consume.unlock: session not released"
    else .ok { s with lock := .free, sess := none }
  | .sessStart n =>
    if s.lock ≠ .consume then .error "session.start: Consume does not hold the lock"
    else if s.sess.isSome then .error "session.start: a session is running"
    else if s.left then .error "session.start: after the group was left"
    else .ok { s with sess := some n, claims := 0, claimsDone := 0, releasing := false, joined := false, cleaned := false,
                      omClosed := false, hbDying := false, hbDead := false, hbRecv := false, released := false }
  | .claimAdd n =>
    if s.sess ≠ some n then .error "claim.add: not the running session"
    else if s.releasing then .error "claim.add: session is being released"
    else .ok { s with claims := s.claims + 1 }
  | .claimDone n =>
    if s.sess ≠ some n then .error "claim.done: not the running session"
    else if s.claims ≤ s.claimsDone then .error "claim.done: more than were started"
    else .ok { s with claimsDone := s.claimsDone + 1 }
  | .release n =>
    if s.sess ≠ some n then .error "release: not the running session"
    else .ok { s with releasing := true }
  | .claimsJoined n =>
    if s.sess ≠ some n then .error "claims.joined: not the running session"
    else if ¬ s.releasing then .error "claims.joined: release not started"
    else if s.claimsDone ≠ s.claims then .error "claims.joined: a claim goroutine is still running"
    else .ok { s with joined := true }
  | .cleanup n =>
    if s.sess ≠ some n then .error "cleanup: not the running session"
    else if ¬ s.joined then .error "cleanup: claims not joined"
    else if s.cleaned then .error "cleanup: twice"
    else if s.omClosed then .error "cleanup: after the offset manager was closed"
    else .ok { s with cleaned := true }
  | .offsetsClose n =>
    if s.sess ≠ some n then .error "offsets.close: not the running session"
    else if ¬ s.joined then .error "offsets.close: claims not joined"
    else if s.omClosed then .error "offsets.close: twice"
    else .ok { s with omClosed := true }
  | .hbDyingClose n =>
    if s.sess ≠ some n then .error "hbDying.close: not the running session"
    else if ¬ s.omClosed then .error "hbDying.close: offset manager not closed"
    else if s.hbDying then .error "close of closed channel: hbDying"
    else .ok { s with hbDying := true }
  | .hbDeadClose n =>
    if s.sess ≠ some n then .error "hbDead.close: not the running session"
    else if s.hbDead then .error "close of closed channel: hbDead"
    else .ok { s with hbDead := true }
  | .hbDeadRecv n =>
    if s.sess ≠ some n then .error "hbDead.recv: not the running session"
    else if ¬ s.hbDying then .error "hbDead.recv: hbDying not closed"
    else if ¬ s.hbDead then .error "hbDead.recv: the heartbeat loop has not exited"
    else .ok { s with hbRecv := true }
  | .releaseDone n =>
    if s.sess ≠ some n then .error "release.done: not the running session"
    else if ¬ s.hbRecv then .error "release.done: heartbeat loop not awaited"
    else .ok { s with released := true }

abbrev run := runWith step

def internal : Ev → Bool
  | .closedClose | .consumeLock | .sessStart _ | .claimAdd _ | .errorsSend => false
  | _ => true

end Grp

/-! ## offset manager -/
namespace OM

inductive Ev
  | pomNew | pomRelease
  | closingClose | closedClose | closedRecv | asyncClose
  | finalBegin (max : Nat) | finalFlush (k : Nat) | finalClean | releaseForce | closeDone
  deriving Repr, DecidableEq

structure St where
  live        : Nat := 0        -- registered partition offset managers
  closing     : Bool := false   -- `closing` closed
  loopExited  : Bool := false   -- `closed` closed by mainLoop
  recv        : Bool := false   -- Close received from `closed`
  asyncClosed : Bool := false
  inFinal     : Bool := false
  max         : Nat := 0        -- Consumer.Offsets.Retry.Max
  attempts    : Nat := 0
  clean       : Bool := false
  forced      : Bool := false
  done        : Bool := false
  deriving Repr

def step (s : St) : Ev → Except String St
  | .pomNew =>
    if s.forced then .error "pom.new: after the forced release" else .ok { s with live := s.live + 1 }
  | .pomRelease =>
    if s.live = 0 then .error "pom.release: none registered" else .ok { s with live := s.live - 1 }
  | .closingClose =>
    if s.closing then .error "close of closed channel: closing" else .ok { s with closing := true }
  | .closedClose =>
    if ¬ s.closing then .error "closed.close: mainLoop left before closing was closed"
    else if s.loopExited then .error "close of closed channel: closed"
    else .ok { s with loopExited := true }
  | .closedRecv =>
    if ¬ s.loopExited then .error "closed.recv: mainLoop has not exited"
    else if s.recv then .error "closed.recv: twice"
    else .ok { s with recv := true }
  | .asyncClose =>
    if ¬ s.closing then .error "poms.asyncclose: closing still open"
    else if s.asyncClosed then .error "poms.asyncclose: twice"
    else .ok { s with asyncClosed := true }
  | .finalBegin m =>
    if ¬ s.asyncClosed then .error "final.begin: POMs not marked closed"
    else if ¬ s.recv then .error "final.begin: mainLoop not awaited"
    else if s.inFinal then .error "final.begin: twice"
    else .ok { s with inFinal := true, max := m, attempts := 0 }
  | .finalFlush k =>
    if ¬ s.inFinal then .error "final.flush: outside the final loop"
    else if s.clean ∨ s.forced then .error "final.flush: after the loop ended"
    else if k ≠ s.attempts then .error "final.flush: attempt number differs"
    else if s.max < s.attempts then .error "final.flush: more attempts than Retry.Max + 1"
    else .ok { s with attempts := s.attempts + 1 }
  | .finalClean =>
    if ¬ s.inFinal then .error "final.clean: outside the final loop"
    else if s.attempts = 0 then .error "final.clean: before the first flush"
    else if s.clean ∨ s.forced then .error "final.clean: after the loop ended"
    else if s.live ≠ 0 then .error "final.clean: POMs remain"
    else .ok { s with clean := true }
  | .releaseForce =>
    if ¬ s.asyncClosed then .error "release.force: POMs not marked closed"
    else if s.forced then .error "release.force: twice"
    else if s.inFinal ∧ ¬ s.clean ∧ s.attempts ≠ s.max + 1 then .error "release.force: final loop left early"
    else .ok { s with forced := true }
  | .closeDone =>
    if ¬ s.forced then .error "close.done: before the forced release"
    else if s.live ≠ 0 then .error "close.done: POMs remain"
    else if s.done then .error "close.done: twice"
    else .ok { s with done := true }

abbrev run := runWith step

def internal : Ev → Bool
  | .pomNew | .closingClose => false
  | _ => true

/-- termination measure of Close (lexicographic: phase, then the bounded final loop and the POMs still to release) -/
def phase (s : St) : Nat :=
  (if s.loopExited then 0 else 1) + (if s.recv then 0 else 1) + (if s.asyncClosed then 0 else 1) + (if s.inFinal then 0 else 1)
  + (if s.clean then 0 else 1) + (if s.forced then 0 else 1) + (if s.done then 0 else 1)

def inner (s : St) : Nat := (s.max + 1 - s.attempts) + s.live

end OM

/-! ## partition offset manager -/
namespace POM

inductive Ev | new | errSend | done | errClose
  deriving Repr, DecidableEq

structure St where
  created : Bool := false
  done    : Bool := false
  closed  : Bool := false
  deriving Repr

def step (s : St) : Ev → Except String St
  | .new => if s.created then .error "new: twice" else .ok { s with created := true }
  | .errSend =>
    if s.closed then .error "send on closed channel: pom errors" else .ok s
  | .done => .ok { s with done := true }
  | .errClose =>
    if ¬ s.done then .error "errors.close: POM not closed by its owner"
    else if s.closed then .error "close of closed channel: pom errors"
    else .ok { s with closed := true }

abbrev run := runWith step

end POM

/-! ## client -/
namespace Cli

inductive Ev | closerClose | closedClose | closedRecv | brokerClose | mapsNil | closeAgain
  deriving Repr, DecidableEq

structure St where
  closer  : Bool := false   -- `closer` closed
  closed  : Bool := false   -- `closed` closed (background updater returned)
  waited  : Bool := false   -- Close received from `closed`
  brokers : Nat := 0
  nilled  : Bool := false   -- brokers / metadata maps set to nil: Closed() is true
  again   : Nat := 0
  deriving Repr

def step (s : St) : Ev → Except String St
  | .closerClose =>
    if s.closer then .error "close of closed channel: closer" else .ok { s with closer := true }
  | .closedClose =>
    if s.closed then .error "close of closed channel: closed" else .ok { s with closed := true }
  | .closedRecv =>
    if ¬ s.closer then .error "closed.recv: closer still open"
    else if ¬ s.closed then .error "closed.recv: the background updater has not returned"
    else if s.waited then .error "closed.recv: twice"
    else .ok { s with waited := true }
  | .brokerClose =>
    if ¬ s.waited then .error "broker.close: background updater not awaited"
    else if s.nilled then .error "broker.close: after the maps were dropped"
    else .ok { s with brokers := s.brokers + 1 }
  | .mapsNil =>
    if ¬ s.waited then .error "maps.nil: background updater not awaited"
    else if s.nilled then .error "maps.nil: twice"
    else .ok { s with nilled := true }
  | .closeAgain =>
    if ¬ s.nilled then .error "close.again: ErrClosedClient from a client that is not closed"
    else .ok { s with again := s.again + 1 }

abbrev run := runWith step

def internal : Ev → Bool
  | .closerClose | .closeAgain => false
  | _ => true

def rank (s : St) : Nat :=
  (if s.closed then 0 else 1) + (if s.waited then 0 else 1) + (if s.nilled then 0 else 2)

end Cli

/-! ## broker connection -/
namespace Br

inductive Ev | open_ | send | recv | respClose | doneClose | connClose | closeNotConn
  deriving Repr, DecidableEq

structure St where
  conn       : Bool := false   -- connected: `responses` and `done` exist
  pending    : Nat := 0        -- promises in `responses`
  respClosed : Bool := false
  doneClosed : Bool := false
  epochs     : Nat := 0        -- completed open/close cycles
  deriving Repr

def step (s : St) : Ev → Except String St
  | .open_ =>
    if s.conn then .error "open: already connected"
    else .ok { s with conn := true, pending := 0, respClosed := false, doneClosed := false }
  | .send =>
    if ¬ s.conn then .error "responses.send: not connected"
    else if s.respClosed then .error "send on closed channel: responses"
    else .ok { s with pending := s.pending + 1 }
  | .recv =>
    if s.pending = 0 then .error "responses.recv: nothing pending"
    else if s.doneClosed then .error "responses.recv: after the receiver returned"
    else .ok { s with pending := s.pending - 1 }
  | .respClose =>
    if ¬ s.conn then .error "responses.close: not connected"
    else if s.respClosed then .error "close of closed channel: responses"
    else .ok { s with respClosed := true }
  | .doneClose =>
    if ¬ s.respClosed then .error "done.close: responses still open"
    else if s.pending ≠ 0 then .error "done.close: promises still pending"
    else if s.doneClosed then .error "close of closed channel: done"
    else .ok { s with doneClosed := true }
  | .connClose =>
    if ¬ s.doneClosed then .error "conn.close: the response receiver has not returned"
    else .ok { s with conn := false, respClosed := false, doneClosed := false, epochs := s.epochs + 1 }
  | .closeNotConn =>
    if s.conn then .error "close: ErrNotConnected from a connected broker" else .ok s

abbrev run := runWith step

def internal : Ev → Bool
  | .recv | .doneClose | .connClose => true
  | _ => false

/-- steps left to Close once `responses` is closed -/
def rank (s : St) : Nat := if s.conn then s.pending + (if s.doneClosed then 0 else 1) + 1 else 0

end Br

end Model.Lifecycle
