import SaramaVerif.GoSem
/-
  Model of partitioner.go (hash / reference-hash / round-robin / manual partitioners, hash-partitioner
  option constructors) and of topicProducer.partitionMessage's decision table (async_producer.go).

  External behaviour is a parameter: the 32-bit hash `h` of the key bytes (any `hash.Hash32`), the random
  partitioner's draw `r`, the user partitioner's answer.
-/
namespace Model.Partitioner
open Go

/-- reading of a uint32 hash sum as Go's `int32(sum)` -/
def hashAsI32 (h : Int) : Int := wrap32 h

/-- tail of `hashPartitioner.Partition` after hashing: `h` is `hasher.Sum32()` (0 ≤ h < 2^32),
    `n` is numPartitions. -/
def hashChoice (refAbs : Bool) (h n : Int) : Int :=
  if refAbs then
    Int.tmod (h % 2147483648) n
  else
    if Int.tmod (wrap32 h) n < 0 then -(Int.tmod (wrap32 h) n) else Int.tmod (wrap32 h) n

/-- FNV-1a, 32 bit (hash/fnv New32a): the default hasher of the hash partitioners -/
def fnv1a32 (bs : List UInt8) : Nat :=
  bs.foldl (fun h b => ((Nat.xor h b.toNat) * 16777619) % 4294967296) 2166136261

/-- a keyed message through a default hash partitioner: the choice is a function of the key's encoded bytes
    alone - also for a key that encodes to zero bytes (only a nil key is "keyless") -/
def hashKeyChoice (refAbs : Bool) (key : List UInt8) (n : Int) : Int := hashChoice refAbs (fnv1a32 key) n

/-- Kafka's Java client: `Utils.toPositive(hash) % numPartitions`, i.e. `(hash & 0x7fffffff) % n` -/
def javaChoice (h n : Int) : Int := (h % 2147483648) % n

/-- `roundRobinPartitioner.Partition`: state `p`, returns (choice, new state) -/
def rrStep (p n : Int) : Int × Int :=
  let p1 := if p ≥ n then 0 else p
  (p1, p1 + 1)

/-- run of the round-robin partitioner over a list of partition counts -/
def rrRun : Int → List Int → List Int
  | _, [] => []
  | p, n :: ns => (rrStep p n).1 :: rrRun (rrStep p n).2 ns

/-- which fallback a hash partitioner built by `NewCustomPartitioner(opts…)` uses for keyless messages.
    `selfFallback` is the pinned-tree behaviour of `WithCustomFallbackPartitioner` (stores the receiver
    itself, so a keyless message recurses forever); `argFallback` is what the option documents. -/
inductive Fallback | random | arg | self
  deriving DecidableEq, Repr

/-- one keyless/keyed partition call of a hash partitioner with fuel for the (possibly self-referential)
    fallback chain. `none` = does not return (fuel exhausted ⇒ infinite recursion in Go). -/
def hashPartition (fuel : Nat) (fb : Fallback) (refAbs : Bool) (key : Option Int) (n r argChoice : Int) :
    Option Int :=
  match key with
  | some h => some (hashChoice refAbs h n)
  | none =>
    match fb with
    | .random => some r
    | .arg => some argChoice
    | .self =>
      match fuel with
      | 0 => none
      | fuel + 1 => hashPartition fuel fb refAbs none n r argChoice

/-- outcome of topicProducer.partitionMessage -/
inductive Routed
  | sent (partition : Int)
  | errLeaderNotAvailable
  | errInvalidPartition
  | errPartitioner (code : Int)
  | errClient (code : Int)
  deriving DecidableEq, Repr

/-- `partitionMessage`: `reqCons` is the (dynamic) consistency requirement, `all` / `writable` the client's
    answers (or an error code), `choose n` the partitioner's answer for `n` partitions. -/
def partitionMessage (reqCons : Bool) (all writable : Except Int (List Int))
    (choose : Int → Except Int Int) : Routed :=
  match (if reqCons then all else writable) with
  | .error e => .errClient e
  | .ok parts =>
    let n : Int := parts.length
    if n = 0 then .errLeaderNotAvailable
    else match choose n with
      | .error e => .errPartitioner e
      | .ok c =>
        if c < 0 ∨ c ≥ n then .errInvalidPartition
        else .sent (parts.getD c.toNat 0)

end Model.Partitioner
