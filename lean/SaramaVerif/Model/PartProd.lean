/-
  Model of partitionProducer.dispatch / newHighWatermark / flushRetryBuffers (async_producer.go): the component
  that keeps per-partition order across retries.

  A token is (id, retries, fin?).  The partition producer lets exactly one retry level through (`hwm`), parks
  lower levels in per-level buffers, and on the fin chaser of the current level flushes downwards.  Whether a
  token that leaves the component is forwarded to a broker worker or failed (leader lookup failed) does not
  influence the ordering logic, so both are the action `emit`.

  `recv` mirrors the Go control flow statement by statement; the trace-validation driver replays every
  `pp.recv` event of the real code through it and compares the action list with the events that follow
  (pp.buf, pp.fwd / pp.fail, wg.add.fin, wg.done.fin).
-/
namespace Model.PartProd

structure Tok where
  id      : Int
  retries : Nat
  fin     : Bool
  deriving Repr, DecidableEq

inductive Action
  | emit (id : Int) (level : Nat) (fin : Bool)  -- forwarded to the broker worker (pp.fwd) or failed because no leader (pp.fail)
  | park (id : Int)          -- buffered at its level (pp.buf)
  | finSend (level : Nat)    -- chaser for `level` sent to the current broker worker (wg.add.fin)
  | finDone                  -- a chaser came back and was consumed (wg.done.fin)
  deriving Repr, DecidableEq

structure St where
  hwm    : Nat := 0
  bufs   : Nat → List Tok := fun _ => []     -- retryState[level].buf
  expect : Nat → Bool := fun _ => false      -- retryState[level].expectChaser

def setBuf (b : Nat → List Tok) (l : Nat) (v : List Tok) : Nat → List Tok := fun k => if k = l then v else b k
def setExp (e : Nat → Bool) (l : Nat) (v : Bool) : Nat → Bool := fun k => if k = l then v else e k

/-- flushRetryBuffers, by recursion on the current high watermark: go down one level, emit its buffer, stop if
    that level still expects its chaser or is level 0 -/
def flush : (hwm : Nat) → (bufs : Nat → List Tok) → (expect : Nat → Bool) → Nat × (Nat → List Tok) × List Action
  | 0, bufs, _ => (0, bufs, [])           -- not reachable from `recv` (flush is only called with hwm > 0)
  | h + 1, bufs, expect =>
    if expect h = true then (h, setBuf bufs h [], (bufs h).map (fun t => Action.emit t.id t.retries t.fin))
    else if h = 0 then (0, setBuf bufs h [], (bufs h).map (fun t => Action.emit t.id t.retries t.fin))
    else
      ((flush h (setBuf bufs h []) expect).1, (flush h (setBuf bufs h []) expect).2.1,
       (bufs h).map (fun t => Action.emit t.id t.retries t.fin) ++ (flush h (setBuf bufs h []) expect).2.2)

def recv (s : St) (t : Tok) : St × List Action :=
  if t.retries > s.hwm then
    -- a new, higher retry level: chaser for the level below, then the token itself goes on
    ({ s with hwm := t.retries, expect := setExp s.expect t.retries true },
     [Action.finSend (t.retries - 1), Action.emit t.id t.retries t.fin])
  else if s.hwm > 0 then
    if t.retries < s.hwm then
      if t.fin then ({ s with expect := setExp s.expect t.retries false }, [Action.finDone])
      else ({ s with bufs := setBuf s.bufs t.retries (s.bufs t.retries ++ [t]) }, [Action.park t.id])
    else if t.fin then
      ({ hwm := (flush s.hwm s.bufs (setExp s.expect s.hwm false)).1,
         bufs := (flush s.hwm s.bufs (setExp s.expect s.hwm false)).2.1,
         expect := setExp s.expect s.hwm false },
       -- (the hook announcing the consumed chaser fires before flushRetryBuffers runs)
       Action.finDone :: (flush s.hwm s.bufs (setExp s.expect s.hwm false)).2.2)
    else (s, [Action.emit t.id t.retries t.fin])
  else (s, [Action.emit t.id t.retries t.fin])

/-- dispatch after the repair of the nil dereference in newHighWatermark (`updateLeaderIfBrokerProducerIsNil` runs
    before a new retry level is opened): a token of a new, higher level that arrives while no broker worker is selected
    and whose leader look-up fails (`avail = false`) is failed, and nothing else changes.  In every other case the
    component behaves as `recv`. -/
def recvG (s : St) (t : Tok) (avail : Bool) : St × List Action :=
  if t.retries > s.hwm ∧ avail = false then (s, [Action.emit t.id t.retries t.fin]) else recv s t

def runAllG (s : St) : List (Tok × Bool) → St × List Action
  | [] => (s, [])
  | (t, a) :: ts => ((runAllG (recvG s t a).1 ts).1, (recvG s t a).2 ++ (runAllG (recvG s t a).1 ts).2)

/-- run over an arrival sequence, collecting the actions -/
def runAll (s : St) : List Tok → St × List Action
  | [] => (s, [])
  | t :: ts => ((runAll (recv s t).1 ts).1, (recv s t).2 ++ (runAll (recv s t).1 ts).2)

end Model.PartProd
