/-
  Model of the consumer-group session life-cycle (consumer_group.go): what a member may send to the coordinator and
  which handler callbacks it may run, in which order.

  Events are what the harness observes on the real code: the coordinator's request log (`q…`) and the handler's
  callbacks (`h…`), merged into one sequence by a global counter.  `step` accepts an event only if the life-cycle
  documented for ConsumerGroup allows it in the current state; Props/C07 proves the life-cycle statements for EVERY
  accepted sequence, and the trace-validation harness replays every scenario's sequence through `step`.

  Member ids are numbers (0 = the empty member id).
-/
namespace Model.Group

/-- coordinator verdict classes as consumer_group.go distinguishes them (the case tables are bridged from the source) -/
inductive Verdict
  | ok
  | fence        -- UnknownMemberId / IllegalGeneration: reset the member id, rejoin immediately
  | rebalance    -- RebalanceInProgress
  | notCoord     -- NotCoordinatorForConsumer
  | other
  | dropped      -- no answer (connection lost)
  deriving Repr, DecidableEq

/-- Kafka error code → verdict class, as the switches in newSession / heartbeatLoop classify them
    (Bridge/C07.lean ties this table to the case labels extracted from the source) -/
def classOfCode (code : Int) : Verdict :=
  if code = 0 then .ok
  else if code = 25 ∨ code = 22 then .fence       -- ErrUnknownMemberId, ErrIllegalGeneration
  else if code = 27 then .rebalance                -- ErrRebalanceInProgress
  else if code = 16 then .notCoord                 -- ErrNotCoordinatorForConsumer
  else .other

inductive Ev
  | join (member : Nat) (v : Verdict) (issuedMember : Nat) (issuedGen : Int)
  | sync (member : Nat) (gen : Int) (v : Verdict)
  | heartbeat (member : Nat) (gen : Int) (v : Verdict)
  | commit (member : Nat) (gen : Int) (v : Verdict)
  | setup (session : Nat) (member : Nat) (gen : Int)
  | claimStart (session : Nat) (p : Nat)
  | claimEnd (session : Nat) (p : Nat)
  | cleanup (session : Nat)
  | ret (session : Nat)
  deriving Repr, DecidableEq

structure St where
  member   : Nat := 0          -- member id the coordinator issued last (0 = none)
  gen      : Int := 0
  fenced   : Bool := false     -- the last join/sync answer fenced the member
  synced   : Bool := false     -- a sync with the current identity succeeded (a session may be set up)
  active   : Option Nat := none  -- session whose Setup ran and whose Consume has not returned
  started  : List Nat := []    -- partitions whose ConsumeClaim started in the active session
  ended    : List Nat := []
  cleaned  : Bool := false
  doneSessions : List Nat := []  -- sessions whose Consume returned
  setups   : List Nat := []    -- sessions whose Setup ran (log)
  cleanups : List Nat := []    -- sessions whose Cleanup ran (log)
  hbOver   : Bool := false     -- a heartbeat was answered with an error code: the heartbeat loop of this generation has ended
  deriving Repr

def isFence : Verdict → Bool
  | .fence => true
  | _ => false

/-- answers after which heartbeatLoop returns (every Kafka error code; a lost connection is retried) -/
def endsHeartbeats : Verdict → Bool
  | .ok => false
  | .dropped => false
  | _ => true

def step (s : St) : Ev → Except String St
  | .join m v im ig =>
    if s.fenced ∧ m ≠ 0 then .error "join: fenced member rejoined with its old identity"
    else if m ≠ 0 ∧ m ≠ s.member then .error "join: member id was not issued by the coordinator"
    else match v with
      | .ok => .ok { s with member := im, gen := ig, fenced := false, synced := false, hbOver := false }
      | .fence => .ok { s with fenced := true, synced := false, hbOver := false }
      | _ => .ok { s with fenced := false, synced := false, hbOver := false }
  | .sync m g v =>
    if m ≠ s.member ∨ g ≠ s.gen then .error "sync: does not carry the identity issued by the join"
    else match v with
      | .ok => .ok { s with synced := true }
      | .fence => .ok { s with fenced := true, synced := false }
      | _ => .ok { s with synced := false }
  | .heartbeat m g v =>
    if m ≠ s.member ∨ g ≠ s.gen then .error "heartbeat: does not carry the identity issued by the join"
    else if s.hbOver then .error "heartbeat: sent after the coordinator had answered a heartbeat of this generation with an error (the session must end)"
    else .ok { s with hbOver := endsHeartbeats v }
  | .commit m g _ =>
    if m ≠ s.member ∨ g ≠ s.gen then .error "commit: does not carry the identity issued by the join" else .ok s
  | .setup n m g =>
    if s.active.isSome then .error "setup: previous session still active"
    else if ¬ s.synced then .error "setup: no successful join+sync before Setup"
    else if m ≠ s.member ∨ g ≠ s.gen then .error "setup: session identity differs from the join response"
    else if n ∈ s.setups then .error "setup: Setup ran twice for one session"
    else .ok { s with active := some n, started := [], ended := [], cleaned := false, setups := n :: s.setups }
  | .claimStart n p =>
    if s.active ≠ some n then .error "claimStart: session is not active (Setup has not run or Consume returned)"
    else if s.cleaned then .error "claimStart: after Cleanup"
    else if p ∈ s.started then .error "claimStart: second ConsumeClaim for one partition in a session"
    else .ok { s with started := p :: s.started }
  | .claimEnd n p =>
    if s.active ≠ some n then .error "claimEnd: session is not active"
    else if p ∉ s.started ∨ p ∈ s.ended then .error "claimEnd: claim was not running"
    else .ok { s with ended := p :: s.ended }
  | .cleanup n =>
    if s.active ≠ some n then .error "cleanup: session is not active"
    else if s.cleaned then .error "cleanup: Cleanup ran twice"
    else if ¬ (s.started.all (fun p => p ∈ s.ended)) then .error "cleanup: a ConsumeClaim has not returned yet"
    else .ok { s with cleaned := true, cleanups := n :: s.cleanups }
  | .ret n =>
    match s.active with
    | none => .ok { s with doneSessions := n :: s.doneSessions }     -- Consume failed before a session was set up
    | some a =>
      if a ≠ n then .error "return: of another session"
      else if ¬ s.cleaned then .error "return: Consume returned without Cleanup after Setup"
      else .ok { s with active := none, doneSessions := n :: s.doneSessions }

def run (s : St) : List Ev → Except String St
  | [] => .ok s
  | e :: es => match step s e with
    | .ok s' => run s' es
    | .error m => .error m

/-! ### newSession as a function over coordinator answers (join → sync with error-class driven retry) -/

inductive Ans
  | coordErr                       -- client.Coordinator failed
  | join (v : Verdict) (member : Nat) (gen : Int)
  | sync (v : Verdict)
  deriving Repr, DecidableEq

inductive Req
  | join (member : Nat)
  | sync (member : Nat) (gen : Int)
  deriving Repr, DecidableEq

inductive Outcome
  | session (member : Nat) (gen : Int)
  | failed (v : Verdict)
  | scriptEnded
  deriving Repr, DecidableEq

/-- `newSession` / `retryNewSession`: `retries` is what is left of Consumer.Group.Rebalance.Retry.Max, `member` the
    member id the group object currently holds.  Returns the requests sent, the number of back-off retries taken and
    the outcome.  Structural recursion over the answer script. -/
def newSession (retries : Nat) (member : Nat) : List Ans → List Req × Nat × Outcome
  | [] => ([], 0, .scriptEnded)
  | .coordErr :: rest =>
    if retries = 0 then ([], 0, .failed .other)
    else match newSession (retries - 1) member rest with
      | (rq, n, o) => (rq, n + 1, o)
  | .sync _ :: _ => ([], 0, .scriptEnded)        -- malformed script (a sync answer without a join)
  | .join v m g :: rest =>
    match v with
    | .ok =>
      (match rest with
       | .sync v2 :: rest2 =>
         (match v2 with
          | .ok => ([.join member, .sync m g], 0, .session m g)
          | .fence => (match newSession retries 0 rest2 with
              | (rq, n, o) => (.join member :: .sync m g :: rq, n, o))
          | .rebalance | .notCoord =>
            if retries = 0 then ([.join member, .sync m g], 0, .failed v2)
            else (match newSession (retries - 1) m rest2 with
              | (rq, n, o) => (.join member :: .sync m g :: rq, n + 1, o))
          | _ => ([.join member, .sync m g], 0, .failed v2))
       | _ => ([.join member], 0, .scriptEnded))
    | .fence => (match newSession retries 0 rest with
        | (rq, n, o) => (.join member :: rq, n, o))
    | .rebalance | .notCoord =>
      if retries = 0 then ([.join member], 0, .failed v)
      else (match newSession (retries - 1) member rest with
        | (rq, n, o) => (.join member :: rq, n + 1, o))
    | _ => ([.join member], 0, .failed v)

end Model.Group
