import SaramaVerif.Model.Group
/-
  Several group members sharing one coordinator ("any number of members").

  A world is one session acceptor (`Model.Group.St`) per client plus what the coordinator handed out: the member ids it
  issued and the assignment it answered every successful sync with.  A world event is an event of one client (accepted
  iff that client's own acceptor accepts it, plus two world-level guards) or the assignment a client just received.

  World-level guards (checked on every multi-member trace of the real code against the simulated coordinator):
    * a member id issued by a successful join was never issued to another client;
    * an assignment of generation g overlaps no other member's assignment of generation g (what a valid plan of the
      leader's balance strategy gives, C08) and repeats a member's own assignment of g unchanged;
    * a ConsumeClaim is started only for a partition of the assignment of the client's current (generation, member id).
-/
namespace Model.GroupWorld
open Model.Group

structure Plan where
  gen    : Int
  member : Nat
  parts  : List Nat
  deriving Repr, DecidableEq

structure Issued where
  client : Nat
  member : Nat
  deriving Repr, DecidableEq

structure Claim where
  client : Nat
  gen    : Int
  member : Nat
  p      : Nat
  deriving Repr, DecidableEq

structure World where
  sts    : List (Nat × St) := []     -- client ↦ session state (absent = initial state)
  plans  : List Plan := []           -- assignments the coordinator answered successful syncs with
  issued : List Issued := []         -- member ids the coordinator issued, and to whom
  claims : List Claim := []          -- every ConsumeClaim started
  deriving Repr

def getL (l : List (Nat × St)) (c : Nat) : St :=
  match l.find? (fun x => x.1 = c) with
  | some x => x.2
  | none => {}

def setL (l : List (Nat × St)) (c : Nat) (s : St) : List (Nat × St) :=
  (c, s) :: l.filter (fun x => x.1 ≠ c)

def getSt (w : World) (c : Nat) : St := getL w.sts c

inductive WEv
  | member (c : Nat) (e : Ev)
  | plan (c : Nat) (parts : List Nat)   -- the assignment in the successful sync answer client c just received
  deriving Repr

/-- the new assignment is compatible with one already handed out -/
def compatible (g : Int) (m : Nat) (ps : List Nat) (q : Plan) : Bool :=
  if q.gen = g then (if q.member = m then q.parts == ps else ps.all (fun x => !q.parts.contains x)) else true

def planOk (plans : List Plan) (g : Int) (m : Nat) (ps : List Nat) : Bool := plans.all (compatible g m ps)

def idFresh (issued : List Issued) (c : Nat) (m : Nat) : Bool := issued.all (fun i => i.member ≠ m || i.client = c)

def hasPlan (plans : List Plan) (g : Int) (m : Nat) (p : Nat) : Bool :=
  plans.any (fun q => q.gen = g && q.member = m && q.parts.contains p)

/-- world-level guard of a client event, and the bookkeeping it causes -/
def wguard (w : World) (c : Nat) : Ev → Except String World
  | .join _ .ok im _ =>
    if idFresh w.issued c im then .ok { w with issued := ⟨c, im⟩ :: w.issued }
    else .error "join: the coordinator issued a member id that another client holds"
  | .claimStart _ p =>
    if ¬ w.issued.contains ⟨c, (getSt w c).member⟩ then .error "claimStart: the client's member id was not issued to it"
    else if ¬ hasPlan w.plans (getSt w c).gen (getSt w c).member p then .error "claimStart: partition is not in the assignment of this generation"
    else .ok { w with claims := ⟨c, (getSt w c).gen, (getSt w c).member, p⟩ :: w.claims }
  | _ => .ok w

def wstep (w : World) : WEv → Except String World
  | .plan c ps =>
    if ¬ (getSt w c).synced then .error "plan: no successful sync"
    else if ¬ planOk w.plans (getSt w c).gen (getSt w c).member ps then
      .error "plan: overlaps another member's assignment of the same generation"
    else .ok { w with plans := ⟨(getSt w c).gen, (getSt w c).member, ps⟩ :: w.plans }
  | .member c e =>
    match wguard w c e with
    | .error m => .error m
    | .ok w1 =>
      match Model.Group.step (getSt w c) e with
      | .error m => .error m
      | .ok s' => .ok { w1 with sts := setL w.sts c s' }

def wrun (w : World) : List WEv → Except String World
  | [] => .ok w
  | e :: es => match wstep w e with
    | .ok w' => wrun w' es
    | .error m => .error m

/-- the events of one client -/
def proj (c : Nat) : List WEv → List Ev
  | [] => []
  | .member c' e :: es => if c' = c then e :: proj c es else proj c es
  | .plan _ _ :: es => proj c es

end Model.GroupWorld
