import SaramaVerif.GoSem
/-
  Model of the parse side of the partition consumer (consumer.go: parseResponse, parseRecords,
  parseMessages, chooseStartingOffset; fetch_response.go: getAbortedTransactions).  Pure core, no Mathlib.

  Abstract wire content of one partition block of a FetchResponse, after the (real) decoder:
    * record batches (magic 2): base offset, last offset delta, records (offset delta, key, value, headers,
      timestamp delta), control flag + control type, transactional flag, producer id, log-append flag,
      first / max timestamp;
    * legacy message sets (magic 0/1): top-level message blocks, each either a plain message or a compressed
      wrapper with inner messages (v0: absolute inner offsets, v1: relative inner offsets rebased on the
      wrapper's offset);
    * the partial-trailing flag, error blocks, throttled empty responses, a missing block.
  Payloads (key, value, headers) are opaque strings; timestamps are milliseconds (-1 = Go's zero time).
  Offsets are unbounded integers (int64 wrap-around is not modelled: Kafka offsets stay far below 2^63).
-/
namespace Model.ConsumerParse
open Go

/-- a stored record / delivered message: absolute offset, payload, timestamp -/
structure SRec where
  off : Int
  key : String
  value : String
  headers : String
  ts : Int
  deriving DecidableEq, Repr

/-- record of a magic-2 batch -/
structure Rec where
  delta : Int
  key : String
  value : String
  headers : String
  tsDelta : Int
  deriving DecidableEq, Repr

inductive Ctl | abort | commit | unknown | malformed
  deriving DecidableEq, Repr

structure Batch where
  base : Int
  lastDelta : Int
  recs : List Rec
  control : Bool
  ctl : Ctl
  txn : Bool
  pid : Int
  logAppend : Bool
  firstTs : Int
  maxTs : Int
  deriving DecidableEq, Repr

/-- inner message of a compressed legacy wrapper -/
structure LMsg where
  off : Int
  ver : Int
  logAppend : Bool
  ts : Int
  key : String
  value : String
  deriving DecidableEq, Repr

/-- top-level legacy MessageBlock: plain message (`inner = none`) or compressed wrapper -/
structure LBlock where
  off : Int
  ver : Int
  logAppend : Bool
  ts : Int
  key : String
  value : String
  inner : Option (List LMsg)
  deriving DecidableEq, Repr

/-- one element of `FetchResponseBlock.RecordsSet`: a legacy message set (all consecutive legacy blocks
    are decoded into ONE set) or one record batch -/
inductive Entry
  | legacy (blocks : List LBlock)
  | batch (b : Batch)
  deriving DecidableEq, Repr

inductive Block
  /-- `ThrottleTime ≠ 0` and no blocks at all -/
  | throttled
  /-- the response has no block for this topic/partition -/
  | missing
  /-- block with an error code (≠ 0) -/
  | err (code : Int)
  /-- decoded record sets, `block.isPartial()`, the aborted-transaction index (producer id, first offset) -/
  | data (entries : List Entry) (partialTrail : Bool) (aborted : List (Int × Int))
  deriving DecidableEq, Repr

structure Cfg where
  fetchDefault : Int
  fetchMax : Int
  readCommitted : Bool
  /-- variant flag: `true` = the timestamp of an inner message of a v1 wrapper follows the WRAPPER's
      log-append attribute (Kafka's rule); `false` = it follows the inner message's own attribute
      (what parseMessages of the pinned tree does) -/
  tsFromWrapper : Bool
  deriving DecidableEq, Repr

structure PState where
  offset : Int
  fetchSize : Int
  deriving DecidableEq, Repr

inductive Verdict
  | ok
  /-- ok, and ErrMessageTooLarge was reported to the user (one offset skipped) -/
  | tooLarge
  /-- ErrIncompleteResponse -/
  | incomplete
  | kerr (code : Int)
  /-- a control batch whose control record cannot be decoded -/
  | ctlErr
  deriving DecidableEq, Repr

/-! ### the offset filter shared by parseRecords / parseMessages -/

/-- the loop body `if offset < child.offset {continue}; append; child.offset = offset+1` -/
def scan (o : Int) : List SRec → List SRec × Int
  | [] => ([], o)
  | r :: rs => if r.off < o then scan o rs else (r :: (scan (r.off + 1) rs).1, (scan (r.off + 1) rs).2)

/-- `if len(messages) == 0 { child.offset++ }` -/
def bump (p : List SRec × Int) : List SRec × Int :=
  (p.1, if p.1.isEmpty then p.2 + 1 else p.2)

/-- records of a batch with absolute offsets and the timestamp rule of parseRecords -/
def batchRecs (b : Batch) : List SRec :=
  b.recs.map (fun r => ⟨b.base + r.delta, r.key, r.value, r.headers,
                        if b.logAppend then b.maxTs else b.firstTs + r.tsDelta⟩)

def batchLast (b : Batch) : Int := b.base + b.lastDelta

/-- offset of the last inner message (0 when there is none; never used then) -/
def lastOff (ms : List LMsg) : Int := (ms.getLast?.map (·.off)).getD 0

/-- offset / timestamp rule of parseMessages for one inner message of wrapper `blk` -/
def innerRec (tsFromWrapper : Bool) (blk : LBlock) (last : Int) (m : LMsg) : SRec :=
  ⟨if m.ver ≥ 1 then m.off + (blk.off - last) else m.off, m.key, m.value, "-",
   if m.ver ≥ 1 ∧ (if tsFromWrapper then blk.logAppend else m.logAppend) = true then blk.ts else m.ts⟩

/-- messages of one top-level block (`msgBlock.Messages()` + rebasing) -/
def blockRecs (tsFromWrapper : Bool) (blk : LBlock) : List SRec :=
  match blk.inner with
  | none => [⟨blk.off, blk.key, blk.value, "-", blk.ts⟩]
  | some ms => ms.map (innerRec tsFromWrapper blk (lastOff ms))

/-- parseRecords: delivered candidates and the new offset -/
def parseRecords (b : Batch) (o : Int) : List SRec × Int := bump (scan o (batchRecs b))

/-- parseMessages over a whole legacy set -/
def parseMessages (tsFromWrapper : Bool) (blks : List LBlock) (o : Int) : List SRec × Int :=
  bump (scan o (blks.flatMap (blockRecs tsFromWrapper)))

/-! ### aborted-transaction index -/

/-- insertion into a list sorted by first offset (stable) -/
def insAborted (x : Int × Int) : List (Int × Int) → List (Int × Int)
  | [] => [x]
  | y :: ys => if x.2 < y.2 then x :: y :: ys else y :: insAborted x ys

/-- `getAbortedTransactions`: sorted by first offset (Go's sort.Slice is not stable; the order among equal
    first offsets cannot influence the result, see `Props.C11.index_order_irrelevant`) -/
def sortAborted : List (Int × Int) → List (Int × Int)
  | [] => []
  | x :: xs => insAborted x (sortAborted xs)

/-- the loop `for _, txn := range abortedTransactions { if txn.FirstOffset > last {break}; add; pop }`:
    returns (remaining index, aborted producer ids) -/
def consumeAborted (last : Int) : List (Int × Int) → List Int → List (Int × Int) × List Int
  | [], abs => ([], abs)
  | t :: ts, abs => if t.2 > last then (t :: ts, abs) else consumeAborted last ts (t.1 :: abs)

def Ctl.bad (b : Batch) : Bool := b.recs.isEmpty || b.ctl == Ctl.malformed

abbrev PResult := List SRec × Int × Verdict

/-- `messages = append(messages, …)` in front of the rest of the loop; an error return drops everything -/
def prepend (pre : List SRec) (r : PResult) : PResult :=
  if r.2.2 = .ok then (pre ++ r.1, r.2) else ([], r.2)

/-- `if controlRecord.Type == ControlRecordAbort { delete(abortedProducerIDs, pid) }` -/
def absAfter (b : Batch) (abs : List Int) : List Int :=
  if b.ctl = .abort then abs.filter (· ≠ b.pid) else abs

/-- body of the `case defaultRecords` branch; `ca` is the result of consuming the aborted index up to the
    batch's last offset, `k` the rest of the loop (offset, remaining index, aborted ids) -/
def batchStep (cfg : Cfg) (b : Batch) (o : Int) (ca : List (Int × Int) × List Int)
    (k : Int → List (Int × Int) → List Int → PResult) : PResult :=
  if b.control then
    if Ctl.bad b then ([], (parseRecords b o).2, .ctlErr)
    else k (parseRecords b o).2 ca.1 (absAfter b ca.2)
  else if cfg.readCommitted ∧ b.txn ∧ b.pid ∈ ca.2 then k (parseRecords b o).2 ca.1 ca.2
  else prepend (parseRecords b o).1 (k (parseRecords b o).2 ca.1 ca.2)

/-- the `for _, records := range block.RecordsSet` loop of parseResponse.
    Arguments: current offset, remaining (sorted) aborted index, aborted producer ids.
    Result: delivered messages, new offset, verdict (`ctlErr` returns no messages but keeps the offset). -/
def parseEntries (cfg : Cfg) : List Entry → Int → List (Int × Int) → List Int → PResult
  | [], o, _, _ => ([], o, .ok)
  | .legacy blks :: es, o, rem, abs =>
      prepend (parseMessages cfg.tsFromWrapper blks o).1
        (parseEntries cfg es (parseMessages cfg.tsFromWrapper blks o).2 rem abs)
  | .batch b :: es, o, rem, abs =>
      batchStep cfg b o (consumeAborted (batchLast b) rem abs) (parseEntries cfg es)

def entryCount : Entry → Nat
  | .legacy blks => blks.length
  | .batch b => b.recs.length

/-- `block.numRecords()` -/
def nRecs (es : List Entry) : Nat := (es.map entryCount).sum

/-- the fetch-size growth `child.fetchSize *= 2` with the int32 overflow check and the Fetch.Max cap -/
def growFetch (fetchMax fs : Int) : Int :=
  if fetchMax > 0 ∧ (if mul32 fs 2 < 0 then 2147483647 else mul32 fs 2) > fetchMax then fetchMax
  else (if mul32 fs 2 < 0 then 2147483647 else mul32 fs 2)

/-- `FetchResponseBlock.decode` keeps a decoded record set only when it has records (an empty batch left by
    compaction is dropped before parseResponse sees it) -/
def decodeView (es : List Entry) : List Entry := es.filter (fun e => entryCount e ≠ 0)

/-- parseResponse for this partition's block -/
def parseBlock (cfg : Cfg) (st : PState) : Block → List SRec × PState × Verdict
  | .throttled => ([], st, .ok)
  | .missing => ([], st, .incomplete)
  | .err c => ([], st, .kerr c)
  | .data es partialTrail aborted =>
      if nRecs es = 0 then
        if partialTrail then
          if cfg.fetchMax > 0 ∧ st.fetchSize = cfg.fetchMax then ([], ⟨st.offset + 1, st.fetchSize⟩, .tooLarge)
          else ([], ⟨st.offset, growFetch cfg.fetchMax st.fetchSize⟩, .ok)
        else ([], st, .ok)
      else
        ((parseEntries cfg (decodeView es) st.offset (sortAborted aborted) []).1,
         ⟨(parseEntries cfg (decodeView es) st.offset (sortAborted aborted) []).2.1, cfg.fetchDefault⟩,
         (parseEntries cfg (decodeView es) st.offset (sortAborted aborted) []).2.2)

/-- a fetch history: responses parsed one after the other; delivered messages concatenated -/
def run (cfg : Cfg) : PState → List Block → List SRec × PState
  | st, [] => ([], st)
  | st, b :: bs => ((parseBlock cfg st b).1 ++ (run cfg (parseBlock cfg st b).2.1 bs).1,
                    (run cfg (parseBlock cfg st b).2.1 bs).2)

/-! ### chooseStartingOffset -/

def offsetNewest : Int := -1
def offsetOldest : Int := -2

/-- `none` = ErrOffsetOutOfRange -/
def chooseStart (offset newest oldest : Int) : Option Int :=
  if offset = offsetNewest then some newest
  else if offset = offsetOldest then some oldest
  else if offset ≥ oldest ∧ offset ≤ newest then some offset
  else none

end Model.ConsumerParse
