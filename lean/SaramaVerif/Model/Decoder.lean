import SaramaVerif.GoSem
/-
  Model of sarama's `realDecoder` (real_decoder.go) and of the push-decoders (length_field.go,
  crc32_field.go), written from the Go source *including the checks that are missing there*.

  A getter is a total function of the buffer and the read offset with an explicit outcome:

    ok v off' a    value, new offset, bytes allocated on the way (`make`, `string(...)` copies)
    err e off' a   a Go `error` was returned (decoding stops), offset as the Go code leaves it
    panic a        a Go run-time panic: slice expression out of range, index out of range,
                   `make` with a negative or out-of-range length
    hang           (loops only) the loop makes no progress

  Conventions (each one is a fact about Go on linux/amd64, the platform the harness runs on):
    * `int` is 64 bit; `int(uint64)` / `int(n-1)` wrap (Go.wrap64);
    * `s[a:b]` on a slice panics unless 0 ≤ a ≤ b ≤ cap(s); buffers have cap = len (true for the
      buffer `responseReceiver` allocates; *not* true inside `getSubset` views, see the report);
    * `make([]T, n)` panics when n < 0 or n·sizeof(T) > 2^48 (runtime.maxAlloc), otherwise it allocates
      n·sizeof(T) bytes – recorded in the outcome, so that "allocation out of proportion" is a statement
      about the model;
    * constant-size allocations (a `realDecoder`, a struct) are not counted.

  `Variant.pinned` is the code as it is in /repo; `Variant.checked` adds the missing guard (the exact
  guard is quoted at each primitive and in known_findings.d/C10.json).  Core-only.
-/
namespace Model.Decoder
open Go

abbrev Bytes := List UInt8

inductive Variant | pinned | checked
  deriving DecidableEq, Repr

inductive Err
  | insufficient            -- ErrInsufficientData
  | invalidArrayLength | invalidByteSliceLength | invalidStringLength
  | varintOverflow | uvarintOverflow | invalidBool | taggedFields
  | lengthField             -- "length field invalid"
  | crc                     -- "CRC didn't match"
  | invalidLength           -- decode(): "invalid length" (trailing bytes)
  | headerLength            -- responseHeader: "message of length %d too large or too small"
  deriving DecidableEq, Repr

inductive Res (α : Type) where
  | ok (v : α) (off : Nat) (alloc : Nat)
  | err (e : Err) (off : Nat) (alloc : Nat)
  | panic (alloc : Nat)
  | hang
  deriving Repr, DecidableEq

namespace Res
def addAlloc (a0 : Nat) : Res α → Res α
  | ok v off a => ok v off (a0 + a)
  | err e off a => err e off (a0 + a)
  | panic a => panic (a0 + a)
  | hang => hang

def bind (r : Res α) (f : α → Nat → Res β) : Res β :=
  match r with
  | ok v off a => (f v off).addAlloc a
  | err e off a => err e off a
  | panic a => panic a
  | hang => hang

def map (f : α → β) : Res α → Res β
  | ok v off a => ok (f v) off a
  | err e off a => err e off a
  | panic a => panic a
  | hang => hang
end Res

/-- the safety statement of C10 for one decoding step started at `off`:
    a value or an error – never a panic, never a hang –, the new offset stays inside the buffer and does not
    move backwards (a value consumes at least `m` bytes), and the allocation is at most `c` bytes per byte
    consumed (value) resp. per byte that was left (error) -/
def SafeN (c m : Nat) (raw : Bytes) (off : Nat) : Res α → Prop
  | .ok _ off' a => off + m ≤ off' ∧ off' ≤ raw.length ∧ a ≤ c * (off' - off)
  | .err _ off' a => off ≤ off' ∧ off' ≤ raw.length ∧ a ≤ c * (raw.length - off)
  | .panic _ => False
  | .hang => False

abbrev Safe (c : Nat) (raw : Bytes) (off : Nat) (r : Res α) : Prop := SafeN c 0 raw off r

/-! ### reading bytes -/

def byte (raw : Bytes) (i : Nat) : Nat := (raw.getD i 0).toNat

/-- big-endian unsigned value of `k` bytes starting at `off` (callers have checked that they exist) -/
def beU (raw : Bytes) (off : Nat) : Nat → Nat
  | 0 => 0
  | k+1 => byte raw off * 256 ^ k + beU raw (off + 1) k

def sgn8 (x : Nat) : Int := if x < 128 then x else (x : Int) - 256
def sgn16 (x : Nat) : Int := if x < 32768 then x else (x : Int) - 65536
def sgn32 (x : Nat) : Int := if x < 2147483648 then x else (x : Int) - 4294967296
def sgn64 (x : Nat) : Int := if x < 9223372036854775808 then x else (x : Int) - 18446744073709551616

/-- `rd.remaining()` -/
def rem (raw : Bytes) (off : Nat) : Int := (raw.length : Int) - (off : Int)

/-- bounds rule of a Go slice expression `raw[a:b]` (cap = len) -/
def sliceOK (raw : Bytes) (a b : Int) : Prop := 0 ≤ a ∧ a ≤ b ∧ b ≤ (raw.length : Int)
instance (raw : Bytes) (a b : Int) : Decidable (sliceOK raw a b) := by unfold sliceOK; infer_instance

def slice (raw : Bytes) (a b : Int) : Bytes := (raw.drop a.toNat).take (b - a).toNat

def maxAlloc : Nat := 281474976710656   -- 2^48

/-- `make([]T, n)` with sizeof(T) = elem: `none` = panic, `some bytes` = allocation -/
def mk (elem : Nat) (n : Int) : Option Nat :=
  if n < 0 ∨ n.toNat * elem > maxAlloc then none else some (n.toNat * elem)

/-! ### primitives -/

def getInt8 (raw : Bytes) (off : Nat) : Res Int :=
  if rem raw off < 1 then .err .insufficient raw.length 0 else .ok (sgn8 (beU raw off 1)) (off + 1) 0

def getInt16 (raw : Bytes) (off : Nat) : Res Int :=
  if rem raw off < 2 then .err .insufficient raw.length 0 else .ok (sgn16 (beU raw off 2)) (off + 2) 0

def getInt32 (raw : Bytes) (off : Nat) : Res Int :=
  if rem raw off < 4 then .err .insufficient raw.length 0 else .ok (sgn32 (beU raw off 4)) (off + 4) 0

def getInt64 (raw : Bytes) (off : Nat) : Res Int :=
  if rem raw off < 8 then .err .insufficient raw.length 0 else .ok (sgn64 (beU raw off 8)) (off + 8) 0

/-- encoding/binary.Uvarint: loop over the bytes with index `i`, accumulated value `x`, shift `s`.
    Result (value, n): n = 0 buffer too small, n < 0 overflow after −n bytes, n > 0 bytes read. -/
def uvarintGo : Bytes → Nat → Nat → Nat → Nat × Int
  | [], _, _, _ => (0, 0)
  | b :: rest, i, x, s =>
    if i = 10 then (0, -((i : Int) + 1))
    else if b.toNat < 128 then
      if i = 9 ∧ b.toNat > 1 then (0, -((i : Int) + 1))
      else ((x + b.toNat * 2 ^ s) % 18446744073709551616, (i : Int) + 1)
    else uvarintGo rest (i + 1) (x + (b.toNat % 128) * 2 ^ s) (s + 7)

def getUVarint (raw : Bytes) (off : Nat) : Res Nat :=
  if (uvarintGo (raw.drop off) 0 0 0).2 = 0 then .err .insufficient raw.length 0
  else if (uvarintGo (raw.drop off) 0 0 0).2 < 0 then
    .err .uvarintOverflow (off + (-(uvarintGo (raw.drop off) 0 0 0).2).toNat) 0
  else .ok (uvarintGo (raw.drop off) 0 0 0).1 (off + (uvarintGo (raw.drop off) 0 0 0).2.toNat) 0

/-- zig-zag decoding of encoding/binary.Varint -/
def unzigzag (ux : Nat) : Int := if ux % 2 = 0 then ((ux / 2 : Nat) : Int) else -((ux / 2 : Nat) : Int) - 1

def getVarint (raw : Bytes) (off : Nat) : Res Int :=
  if (uvarintGo (raw.drop off) 0 0 0).2 = 0 then .err .insufficient raw.length 0
  else if (uvarintGo (raw.drop off) 0 0 0).2 < 0 then
    .err .varintOverflow (off + (-(uvarintGo (raw.drop off) 0 0 0).2).toNat) 0
  else .ok (unzigzag (uvarintGo (raw.drop off) 0 0 0).1) (off + (uvarintGo (raw.drop off) 0 0 0).2.toNat) 0

/-- the part of getArrayLength after the 4 bytes were read (`tmp`) and `rd.off += 4` (→ `off`).
    checked: `else if tmp > 2*math.MaxUint16 || tmp < -1 { return -1, errInvalidArrayLength }` -/
def arrayLengthTail (v : Variant) (tmp : Int) (len : Nat) (off : Nat) : Res Int :=
  if tmp > (len : Int) - (off : Int) then .err .insufficient len 0
  else if tmp > 131070 then .err .invalidArrayLength off 0
  else if v = .checked ∧ tmp < -1 then .err .invalidArrayLength off 0
  else .ok tmp off 0

def getArrayLength (v : Variant) (raw : Bytes) (off : Nat) : Res Int :=
  if rem raw off < 4 then .err .insufficient raw.length 0
  else arrayLengthTail v (sgn32 (beU raw off 4)) raw.length (off + 4)

/-- `int(n) - 1` on a uint64 `n` -/
def compactLen (n : Nat) : Int := wrap64 (wrap64 n - 1)

/-- checked: `if l := int(n)-1; l < 0 || l > rd.remaining() { rd.off = len(rd.raw); return 0, ErrInsufficientData }` -/
def getCompactArrayLength (v : Variant) (raw : Bytes) (off : Nat) : Res Int :=
  (getUVarint raw off).bind fun n off1 =>
    if n = 0 then .ok 0 off1 0
    else if v = .checked ∧ (compactLen n < 0 ∨ compactLen n > rem raw off1) then .err .insufficient raw.length 0
    else .ok (compactLen n) off1 0

def getBool (raw : Bytes) (off : Nat) : Res Bool :=
  (getInt8 raw off).bind fun b off1 =>
    if b = 0 then .ok false off1 0 else if b ≠ 1 then .err .invalidBool off1 0 else .ok true off1 0

def getEmptyTaggedFieldArray (raw : Bytes) (off : Nat) : Res Int :=
  (getUVarint raw off).bind fun n off1 => if n ≠ 0 then .err .taggedFields off1 0 else .ok 0 off1 0

/-! ### collections -/

def getRawBytes (raw : Bytes) (off : Nat) (length : Int) : Res Bytes :=
  if length < 0 then .err .invalidByteSliceLength off 0
  else if length > rem raw off then .err .insufficient raw.length 0
  else .ok (slice raw off (off + length)) (off + length.toNat) 0

/-- the new decoder of `getSubset` is a view of the same bytes: the value is the sub-buffer -/
def getSubset (raw : Bytes) (off : Nat) (length : Int) : Res Bytes := getRawBytes raw off length

def getBytes (raw : Bytes) (off : Nat) : Res (Option Bytes) :=
  (getInt32 raw off).bind fun tmp off1 =>
    if tmp = -1 then .ok none off1 0 else (getRawBytes raw off1 tmp).map some

def getVarintBytes (raw : Bytes) (off : Nat) : Res (Option Bytes) :=
  (getVarint raw off).bind fun tmp off1 =>
    if tmp = -1 then .ok none off1 0 else (getRawBytes raw off1 tmp).map some

/-- `length := int(n - 1)` on a uint64 `n` -/
def compactLen' (n : Nat) : Int := wrap64 ((n : Int) - 1)

def getCompactBytes (raw : Bytes) (off : Nat) : Res Bytes :=
  (getUVarint raw off).bind fun n off1 => getRawBytes raw off1 (compactLen' n)

/-- the part of getStringLength after the int16 was read -/
def stringLengthTail (n : Int) (len : Nat) (off : Nat) : Res Int :=
  if n < -1 then .err .invalidStringLength off 0
  else if n > (len : Int) - (off : Int) then .err .insufficient len 0
  else .ok n off 0

def getStringLength (raw : Bytes) (off : Nat) : Res Int :=
  (getInt16 raw off).bind fun n off1 => stringLengthTail n raw.length off1

/-- `string(rd.raw[rd.off : rd.off+n])`: slice-bounds panic when out of range, a copy of n bytes otherwise -/
def takeString (raw : Bytes) (off : Nat) (n : Int) : Res Bytes :=
  if sliceOK raw off (off + n) then .ok (slice raw off (off + n)) (off + n.toNat) n.toNat else .panic 0

def getString (raw : Bytes) (off : Nat) : Res Bytes :=
  (getStringLength raw off).bind fun n off1 => if n = -1 then .ok [] off1 0 else takeString raw off1 n

def getNullableString (raw : Bytes) (off : Nat) : Res (Option Bytes) :=
  (getStringLength raw off).bind fun n off1 =>
    if n = -1 then .ok none off1 0 else (takeString raw off1 n).map some

/-- checked:
    `if length < 0 { return "", errInvalidStringLength }`
    `if length > rd.remaining() { rd.off = len(rd.raw); return "", ErrInsufficientData }` -/
def getCompactString (v : Variant) (raw : Bytes) (off : Nat) : Res Bytes :=
  (getUVarint raw off).bind fun n off1 =>
    if v = .checked ∧ compactLen' n < 0 then .err .invalidStringLength off1 0
    else if v = .checked ∧ compactLen' n > rem raw off1 then .err .insufficient raw.length 0
    else takeString raw off1 (compactLen' n)

/-- checked: `if length > rd.remaining() { rd.off = len(rd.raw); return nil, ErrInsufficientData }` after the
    existing `length < 0` test -/
def getCompactNullableString (v : Variant) (raw : Bytes) (off : Nat) : Res (Option Bytes) :=
  (getUVarint raw off).bind fun n off1 =>
    if compactLen' n < 0 then .ok none off1 0
    else if v = .checked ∧ compactLen' n > rem raw off1 then .err .insufficient raw.length 0
    else (takeString raw off1 (compactLen' n)).map some

def readI32s (raw : Bytes) : Nat → Nat → List Int
  | 0, _ => []
  | n+1, off => sgn32 (beU raw off 4) :: readI32s raw n (off + 4)

def readI64s (raw : Bytes) : Nat → Nat → List Int
  | 0, _ => []
  | n+1, off => sgn64 (beU raw off 8) :: readI64s raw n (off + 8)

/-- `make([]int32, n)` followed by the unchecked read loop `binary.BigEndian.Uint32(rd.raw[rd.off:])` -/
def readI32Loop (raw : Bytes) (off : Nat) (n : Int) : Res (List Int) :=
  match mk 4 n with
  | none => .panic 0
  | some a => if 4 * n > rem raw off then .panic a else .ok (readI32s raw n.toNat off) (off + 4 * n.toNat) a

/-- checked: `if arrayLength < 0 || arrayLength > rd.remaining()/4 { rd.off = len(rd.raw); return nil, ErrInsufficientData }` -/
def getCompactInt32Array (v : Variant) (raw : Bytes) (off : Nat) : Res (List Int) :=
  (getUVarint raw off).bind fun n off1 =>
    if n = 0 then .ok [] off1 0
    else if v = .checked ∧ (compactLen n < 0 ∨ 4 * compactLen n > rem raw off1) then .err .insufficient raw.length 0
    else readI32Loop raw off1 (compactLen n)

/-- `n := int(binary.BigEndian.Uint32(..))` is non-negative on a 64-bit platform -/
def getInt32Array (raw : Bytes) (off : Nat) : Res (List Int) :=
  if rem raw off < 4 then .err .insufficient raw.length 0
  else if rem raw (off + 4) < 4 * (beU raw off 4 : Int) then .err .insufficient raw.length 0
  else if beU raw off 4 = 0 then .ok [] (off + 4) 0
  else .ok (readI32s raw (beU raw off 4) (off + 4)) (off + 4 + 4 * beU raw off 4) (4 * beU raw off 4)

def getInt64Array (raw : Bytes) (off : Nat) : Res (List Int) :=
  if rem raw off < 4 then .err .insufficient raw.length 0
  else if rem raw (off + 4) < 8 * (beU raw off 4 : Int) then .err .insufficient raw.length 0
  else if beU raw off 4 = 0 then .ok [] (off + 4) 0
  else .ok (readI64s raw (beU raw off 4) (off + 4)) (off + 4 + 8 * beU raw off 4) (8 * beU raw off 4)

def stringLoop (raw : Bytes) : Nat → Nat → Res (List Bytes)
  | 0, off => .ok [] off 0
  | n+1, off => (getString raw off).bind fun s off1 => (stringLoop raw n off1).map (s :: ·)

/-- `make([]string, n)` (16 bytes per element) before a single string was read.
    checked: `if n > rd.remaining() { rd.off = len(rd.raw); return nil, ErrInsufficientData }` before the make -/
def getStringArray (v : Variant) (raw : Bytes) (off : Nat) : Res (List Bytes) :=
  if rem raw off < 4 then .err .insufficient raw.length 0
  else if beU raw off 4 = 0 then .ok [] (off + 4) 0
  else if v = .checked ∧ (beU raw off 4 : Int) > rem raw (off + 4) then .err .insufficient raw.length 0
  else (stringLoop raw (beU raw off 4) (off + 4)).addAlloc (16 * beU raw off 4)

/-! ### peeking -/

/-- `peek(offset, length)`; the arguments are `int`s of the caller -/
def peek (raw : Bytes) (off : Nat) (offset length : Int) : Res Bytes :=
  if rem raw off < offset + length then .err .insufficient off 0
  else if sliceOK raw (off + offset) (off + offset + length) then
    .ok (slice raw (off + offset) (off + offset + length)) off 0
  else .panic 0

def peekInt8 (raw : Bytes) (off : Nat) (offset : Int) : Res Int :=
  if rem raw off < offset + 1 then .err .insufficient off 0
  else if 0 ≤ (off : Int) + offset then .ok (sgn8 (byte raw ((off : Int) + offset).toNat)) off 0
  else .panic 0

/-! ### push / pop -/

/-- what a pushed field remembers -/
inductive Frame
  | length (start : Nat) (stored : Int)                 -- lengthField
  | varintLength (start : Nat) (stored : Int) (fieldLen : Nat) -- varintLengthField (+ bytes the varint occupied)
  | crc (start : Nat) (castagnoli : Bool)               -- crc32Field
  deriving Repr, DecidableEq

/-- `push(&lengthField{})`: lengthField is a dynamicPushDecoder, its `decode` runs at push time -/
def pushLength (raw : Bytes) (off : Nat) : Res Frame :=
  (getInt32 raw off).bind fun l off1 =>
    if l > wrap32 (rem raw off1) then .err .insufficient off1 0 else .ok (.length off l) off1 0

def pushVarintLength (raw : Bytes) (off : Nat) : Res Frame :=
  (getVarint raw off).bind fun l off1 => .ok (.varintLength off l (off1 - off)) off1 0

/-- `push(crc32Field)`: static reserve of 4 bytes -/
def pushCrc (castagnoli : Bool) (raw : Bytes) (off : Nat) : Res Frame :=
  if rem raw off < 4 then .err .insufficient raw.length 0 else .ok (.crc off castagnoli) (off + 4) 0

/-- number of bytes of binary.PutUvarint -/
def uvarintSizeFuel : Nat → Nat → Nat
  | 0, _ => 1
  | f+1, u => if u < 128 then 1 else 1 + uvarintSizeFuel f (u / 128)

/-- `varintLengthField.reserveLength()`: size of the *canonical* encoding of the stored length -/
def varintSize (x : Int) : Nat :=
  uvarintSizeFuel 10 (if x ≥ 0 then (2 * x).toNat else (-2 * x - 1).toNat)

/-- `pop()` = `check(curOffset, buf)` of the frame; `crcf castagnoli bytes` is the checksum function.
    checked (varint length only): compare with the bytes the length field really occupied. -/
def pop (v : Variant) (crcf : Bool → Bytes → Nat) (raw : Bytes) (fr : Frame) (cur : Nat) : Res Unit :=
  match fr with
  | .length start stored =>
      if wrap32 ((cur : Int) - start - 4) ≠ stored then .err .lengthField cur 0 else .ok () cur 0
  | .varintLength start stored fieldLen =>
      if wrap64 ((cur : Int) - start - (if v = .checked then (fieldLen : Int) else (varintSize stored : Int))) ≠ stored
      then .err .lengthField cur 0 else .ok () cur 0
  | .crc start cast =>
      if sliceOK raw (start + 4) cur then
        (if crcf cast (slice raw (start + 4) cur) ≠ beU raw start 4 then .err .crc cur 0 else .ok () cur 0)
      else .panic 0

/-! ### entry points -/

/-- `decode` / `versionedDecode` (encoder_decoder.go): run a decoder on the whole buffer, then the
    whole-buffer check `helper.off != len(buf)`.  `checkTrailing = false` models a tree without the check. -/
def topLevel (r : Res α) (len : Nat) : Res α :=
  match r with
  | .ok v off a => if off ≠ len then .err .invalidLength off a else .ok v off a
  | r => r

/-- responseHeader.decode (response_header.go); value = (length, correlationID) -/
def decodeHeader (maxResponseSize : Int) (version : Int) (raw : Bytes) (off : Nat) : Res (Int × Int) :=
  (getInt32 raw off).bind fun length off1 =>
    if length ≤ 4 ∨ length > maxResponseSize then .err .headerLength off1 0
    else
      match getInt32 raw off1 with
      | .ok cid off2 a =>
          if version ≥ 1 then (getEmptyTaggedFieldArray raw off2).bind fun _ off3 => .ok (length, cid) off3 a
          else .ok (length, cid) off2 a
      | .err e off2 a =>
          -- the error of the second getInt32 is kept in `err` and only returned at the end
          if version ≥ 1 then
            (match getEmptyTaggedFieldArray raw off2 with
             | .ok _ off3 _ => .err e off3 a
             | .err e3 off3 a3 => .err e3 off3 a3
             | .panic a3 => .panic a3
             | .hang => .hang)
          else .err e off2 a
      | .panic a => .panic a
      | .hang => .hang

/-- `getHeaderLength` (broker.go) -/
def headerLength (version : Int) : Int := if version < 1 then 8 else 9

/-- size of the body buffer `responseReceiver` allocates: `decodedHeader.length - int32(headerLength) + 4` -/
def bodySize (length version : Int) : Int := wrap32 (wrap32 (length - headerLength version) + 4)

end Model.Decoder
