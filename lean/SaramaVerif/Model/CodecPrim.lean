/-
  Model of sarama's wire primitives (prep_encoder.go, real_encoder.go, real_decoder.go, length_field.go,
  crc32_field.go and the parts of encoding/binary + hash/crc32 they use).

  Bytes are `List UInt8`.  Go's fixed-width integers are unbounded `Int`/`Nat` values; every putter takes the
  value modulo the width exactly as the Go conversion `uint32(in)` does, every getter returns the signed
  reading.  Each primitive exists three times, as in the code:
    `prepX`  – what `prepEncoder.putX` adds to `length`
    `putX`   – the bytes `realEncoder.putX` writes
    `getX`   – `realDecoder.getX` on the remaining input: `none` = any error, `some (value, remaining)`
  Core-only (no Mathlib): this file is linked into the driver executable.
-/
namespace Model.Codec

abbrev Bytes := List UInt8

/-! ## big-endian fixed-width integers (encoding/binary.BigEndian) -/

/-- `n` bytes, big-endian, of `x mod 256^n` (`binary.BigEndian.PutUintN`) -/
def be : Nat → Nat → Bytes
  | 0, _ => []
  | n + 1, x => be n (x / 256) ++ [UInt8.ofNat (x % 256)]

/-- `binary.BigEndian.UintN` of a byte string -/
def fromBE (bs : Bytes) : Nat := bs.foldl (fun acc b => acc * 256 + b.toNat) 0

/-- Go's conversion `uintN(x)` of a signed value: two's complement, `bits = 8·n` -/
def toU (n : Nat) (x : Int) : Nat := (x % (256 ^ n : Nat)).toNat

/-- Go's conversion `intN(u)` of an unsigned value below `256^n` -/
def toS (n : Nat) (u : Nat) : Int := if 2 * u < 256 ^ n then (u : Int) else (u : Int) - (256 ^ n : Nat)

/-- `realEncoder.putIntN` (N = 8·n) -/
def putInt (n : Nat) (x : Int) : Bytes := be n (toU n x)

/-- `realDecoder.getIntN`: insufficient data → error -/
def getInt (n : Nat) (bs : Bytes) : Option (Int × Bytes) :=
  if bs.length < n then none else some (toS n (fromBE (bs.take n)), bs.drop n)

/-- unsigned reading (used by the array getters: `int(binary.BigEndian.Uint32(..))`) -/
def getUInt (n : Nat) (bs : Bytes) : Option (Nat × Bytes) :=
  if bs.length < n then none else some (fromBE (bs.take n), bs.drop n)

/-- signed ranges of the Go types -/
def InInt (n : Nat) (x : Int) : Prop := -((256 ^ n / 2 : Nat) : Int) ≤ x ∧ x < ((256 ^ n / 2 : Nat) : Int)
instance (n : Nat) (x : Int) : Decidable (InInt n x) := by unfold InInt; infer_instance

/-! ## variable-length integers (encoding/binary PutUvarint / Uvarint / PutVarint / Varint) -/

/-- `binary.PutUvarint` with explicit fuel (10 groups of 7 bits cover a uint64) -/
def uvarintF : Nat → Nat → Bytes
  | 0, x => [UInt8.ofNat x]
  | f + 1, x => if x < 128 then [UInt8.ofNat x] else UInt8.ofNat (x % 128 + 128) :: uvarintF f (x / 128)

/-- `binary.PutUvarint` of a uint64 -/
def putUVarint (x : Nat) : Bytes := uvarintF 10 x

/-- `binary.Uvarint`: `i` = index of the byte looked at, `m` = 2^(7·i), `acc` = value so far.
    `none` for n = 0 (buffer too small) and n < 0 (overflow: more than 10 bytes, or 10th byte > 1). -/
def uvarintDec : Nat → Nat → Nat → Bytes → Option (Nat × Bytes)
  | _, _, _, [] => none
  | i, m, acc, b :: rest =>
    if i = 10 then none
    else if b.toNat < 128 then
      (if i = 9 ∧ b.toNat > 1 then none else some (acc + b.toNat * m, rest))
    else uvarintDec (i + 1) (m * 128) (acc + (b.toNat - 128) * m) rest

/-- `realDecoder.getUVarint` -/
def getUVarint (bs : Bytes) : Option (Nat × Bytes) := uvarintDec 0 1 0 bs

/-- zig-zag map of `binary.PutVarint`: `ux := uint64(x) << 1; if x < 0 { ux = ^ux }` -/
def zigzag (x : Int) : Nat := if 0 ≤ x then (2 * x).toNat else (-2 * x - 1).toNat

/-- inverse map of `binary.Varint`: `x := int64(ux >> 1); if ux&1 != 0 { x = ^x }` -/
def unzigzag (u : Nat) : Int := if u % 2 = 0 then ((u / 2 : Nat) : Int) else -((u / 2 : Nat) : Int) - 1

/-- `realEncoder.putVarint` -/
def putVarint (x : Int) : Bytes := putUVarint (zigzag x)

/-- `realDecoder.getVarint` -/
def getVarint (bs : Bytes) : Option (Int × Bytes) :=
  match getUVarint bs with
  | none => none
  | some (u, rest) => some (unzigzag u, rest)

/-- `prepEncoder.putVarint` / `putUVarint`: the code encodes into a scratch buffer and adds the byte count -/
def prepUVarint (x : Nat) : Nat := (putUVarint x).length
def prepVarint (x : Int) : Nat := (putVarint x).length

/-- value denoted by a base-128 little-endian group string (the Kafka/protobuf varint prescription) -/
def uvarintVal : Bytes → Nat
  | [] => 0
  | b :: rest => b.toNat % 128 + 128 * uvarintVal rest

/-! ## CRC-32 (hash/crc32), bitwise reference implementation, reflected polynomials -/

def polyIEEE : Nat := 0xEDB88320
def polyCastagnoli : Nat := 0x82F63B78

inductive Poly | ieee | castagnoli
  deriving DecidableEq, Repr

def Poly.value : Poly → Nat
  | .ieee => polyIEEE
  | .castagnoli => polyCastagnoli

def crcBit (poly c : Nat) : Nat := if c % 2 = 1 then (c / 2) ^^^ poly else c / 2

def crcByte (poly c : Nat) (b : UInt8) : Nat :=
  crcBit poly (crcBit poly (crcBit poly (crcBit poly (crcBit poly (crcBit poly (crcBit poly (crcBit poly
    (c ^^^ b.toNat))))))))

/-- `crc32.Checksum(data, table(poly))` -/
def crc32 (p : Poly) (bs : Bytes) : Nat := (bs.foldl (crcByte p.value) 0xFFFFFFFF) ^^^ 0xFFFFFFFF

/-! ## scalar putters/getters with their own conventions -/

/-- `putBool` writes 1/0; `getBool` accepts exactly 0 and 1 -/
def putBool (b : Bool) : Bytes := putInt 1 (if b then 1 else 0)
def getBool (bs : Bytes) : Option (Bool × Bytes) :=
  match getInt 1 bs with
  | none => none
  | some (x, rest) => if x = 0 then some (false, rest) else if x = 1 then some (true, rest) else none

/-- `putArrayLength(n)` = `putInt32(int32(n))` (the prep encoder rejects n > MaxInt32) -/
def putArrayLength (n : Int) : Bytes := putInt 4 n
/-- `getArrayLength`: the count must not exceed the remaining bytes nor 2·MaxUint16, and −1 (null) is the only
    negative value accepted -/
def getArrayLength (bs : Bytes) : Option (Int × Bytes) :=
  match getInt 4 bs with
  | none => none
  | some (n, rest) => if n > rest.length then none else if n > 131070 ∨ n < -1 then none else some (n, rest)

/-- `putCompactArrayLength(n)` = uvarint(n+1); `getCompactArrayLength`: 0 (null) and 1 (empty) both give 0; the
    count must not exceed the remaining bytes -/
def putCompactArrayLength (n : Nat) : Bytes := putUVarint (n + 1)
def getCompactArrayLength (bs : Bytes) : Option (Nat × Bytes) :=
  match getUVarint bs with
  | none => none
  | some (n, rest) => if n - 1 > rest.length then none else some (n - 1, rest)

/-- `putEmptyTaggedFieldArray` / `getEmptyTaggedFieldArray` (only the empty section is supported) -/
def putEmptyTagged : Bytes := putUVarint 0
def getEmptyTagged (bs : Bytes) : Option (Unit × Bytes) :=
  match getUVarint bs with
  | none => none
  | some (n, rest) => if n = 0 then some ((), rest) else none

/-! ## byte strings -/

/-- `getRawBytes(n)` -/
def getRaw (n : Int) (bs : Bytes) : Option (Bytes × Bytes) :=
  if n < 0 then none else if n.toNat > bs.length then none else some (bs.take n.toNat, bs.drop n.toNat)

/-- `putBytes`: nil → int32 −1, else int32 length + data -/
def putBytes : Option Bytes → Bytes
  | none => putInt 4 (-1)
  | some b => putInt 4 b.length ++ b
def prepBytes : Option Bytes → Nat
  | none => 4
  | some b => 4 + b.length
def getBytes (bs : Bytes) : Option (Option Bytes × Bytes) :=
  match getInt 4 bs with
  | none => none
  | some (n, rest) =>
    if n = -1 then some (none, rest) else
    match getRaw n rest with
    | none => none
    | some (b, rest') => some (some b, rest')

/-- `putVarintBytes`: nil → varint −1, else varint length + data -/
def putVarintBytes : Option Bytes → Bytes
  | none => putVarint (-1)
  | some b => putVarint b.length ++ b
def prepVarintBytes : Option Bytes → Nat
  | none => prepVarint (-1)
  | some b => prepVarint b.length + b.length
def getVarintBytes (bs : Bytes) : Option (Option Bytes × Bytes) :=
  match getVarint bs with
  | none => none
  | some (n, rest) =>
    if n = -1 then some (none, rest) else
    match getRaw n rest with
    | none => none
    | some (b, rest') => some (some b, rest')

/-- `putCompactBytes`: uvarint(len+1) + data (nil and empty coincide); `getCompactBytes`: length n−1 -/
def putCompactBytes (b : Bytes) : Bytes := putUVarint (b.length + 1) ++ b
def prepCompactBytes (b : Bytes) : Nat := prepUVarint (b.length + 1) + b.length
def getCompactBytes (bs : Bytes) : Option (Bytes × Bytes) :=
  match getUVarint bs with
  | none => none
  | some (n, rest) => getRaw ((n : Int) - 1) rest

/-- `putString`: int16 length + bytes (the prep encoder rejects len > MaxInt16) -/
def putString (s : Bytes) : Bytes := putInt 2 s.length ++ s
def prepString (s : Bytes) : Nat := 2 + s.length
/-- `getStringLength` followed by the slice: −1 is accepted by `getString` and yields "" -/
def getStringLength (bs : Bytes) : Option (Int × Bytes) :=
  match getInt 2 bs with
  | none => none
  | some (n, rest) => if n < -1 then none else if n > rest.length then none else some (n, rest)
def getString (bs : Bytes) : Option (Bytes × Bytes) :=
  match getStringLength bs with
  | none => none
  | some (n, rest) => if n = -1 then some ([], rest) else some (rest.take n.toNat, rest.drop n.toNat)

/-- `putNullableString`: nil → int16 −1 -/
def putNullableString : Option Bytes → Bytes
  | none => putInt 2 (-1)
  | some s => putString s
def prepNullableString : Option Bytes → Nat
  | none => 2
  | some s => prepString s
def getNullableString (bs : Bytes) : Option (Option Bytes × Bytes) :=
  match getStringLength bs with
  | none => none
  | some (n, rest) => if n = -1 then some (none, rest) else some (some (rest.take n.toNat), rest.drop n.toNat)

/-- `putCompactString`: uvarint(len+1) + bytes; `getCompactString` slices n−1 bytes -/
def putCompactString (s : Bytes) : Bytes := putCompactArrayLength s.length ++ s
def prepCompactString (s : Bytes) : Nat := prepUVarint (s.length + 1) + s.length
def getCompactString (bs : Bytes) : Option (Bytes × Bytes) :=
  match getUVarint bs with
  | none => none
  | some (n, rest) =>
    -- Go slices `raw[off : off+n-1]`: out of range (n = 0 or too long) is a run-time panic; an error here
    if n = 0 then none else if n - 1 > rest.length then none else some (rest.take (n - 1), rest.drop (n - 1))

/-- `putNullableCompactString`: nil → one byte 0 -/
def putNullableCompactString : Option Bytes → Bytes
  | none => putInt 1 0
  | some s => putCompactString s
def prepNullableCompactString : Option Bytes → Nat
  | none => prepUVarint 0
  | some s => prepCompactString s
def getCompactNullableString (bs : Bytes) : Option (Option Bytes × Bytes) :=
  match getUVarint bs with
  | none => none
  | some (n, rest) =>
    if n = 0 then some (none, rest)
    else if n - 1 > rest.length then none else some (some (rest.take (n - 1)), rest.drop (n - 1))

/-! ## arrays of scalars -/

def putInts (n : Nat) (xs : List Int) : Bytes := (xs.map (putInt n)).flatten

/-- `k` consecutive big-endian signed integers of `n` bytes each -/
def getInts (n : Nat) : Nat → Bytes → Option (List Int × Bytes)
  | 0, bs => some ([], bs)
  | k + 1, bs =>
    match getInt n bs with
    | none => none
    | some (x, rest) =>
      match getInts n k rest with
      | none => none
      | some (xs, rest') => some (x :: xs, rest')

/-- `putInt32Array` / `putInt64Array` (n = 4 / 8): int32 count + elements -/
def putIntArray (n : Nat) (xs : List Int) : Bytes := putArrayLength xs.length ++ putInts n xs
def prepIntArray (n : Nat) (xs : List Int) : Nat := 4 + n * xs.length
/-- `getInt32Array` / `getInt64Array`: unsigned count, `remaining < n·count` → error, 0 → nil -/
def getIntArray (n : Nat) (bs : Bytes) : Option (List Int × Bytes) :=
  match getUInt 4 bs with
  | none => none
  | some (k, rest) => if rest.length < n * k then none else getInts n k rest

/-- `putCompactInt32Array` (nil is rejected by the encoder) and `putNullableCompactInt32Array` -/
def putCompactInt32Array (xs : List Int) : Bytes := putUVarint (xs.length + 1) ++ putInts 4 xs
def prepCompactInt32Array (xs : List Int) : Nat := prepUVarint (xs.length + 1) + 4 * xs.length
def putNullableCompactInt32Array : Option (List Int) → Bytes
  | none => putUVarint 0
  | some xs => putCompactInt32Array xs
def prepNullableCompactInt32Array : Option (List Int) → Nat
  | none => prepUVarint 0
  | some xs => prepCompactInt32Array xs
/-- `getCompactInt32Array`: 0 → nil, else n−1 elements (reading past the end is a run-time panic; error here) -/
def getCompactInt32Array (bs : Bytes) : Option (Option (List Int) × Bytes) :=
  match getUVarint bs with
  | none => none
  | some (n, rest) =>
    if n = 0 then some (none, rest) else
    match getInts 4 (n - 1) rest with
    | none => none
    | some (xs, rest') => some (some xs, rest')

def putStrings (ss : List Bytes) : Bytes := (ss.map putString).flatten
def getStrings : Nat → Bytes → Option (List Bytes × Bytes)
  | 0, bs => some ([], bs)
  | k + 1, bs =>
    match getString bs with
    | none => none
    | some (s, rest) =>
      match getStrings k rest with
      | none => none
      | some (ss, rest') => some (s :: ss, rest')

/-- `putStringArray` / `getStringArray` (unsigned count, which must not exceed the remaining bytes) -/
def putStringArray (ss : List Bytes) : Bytes := putArrayLength ss.length ++ putStrings ss
def prepStringArray (ss : List Bytes) : Nat := 4 + (ss.map prepString).sum
def getStringArray (bs : Bytes) : Option (List Bytes × Bytes) :=
  match getUInt 4 bs with
  | none => none
  | some (k, rest) => if k > rest.length then none else getStrings k rest

/-! ## push/pop fields (length_field.go, crc32_field.go) as wrappers around an already encoded body -/

/-- `lengthField`: 4 reserved bytes, filled by `run` with `curOffset − startOffset − 4` -/
def putLen32 (body : Bytes) : Bytes := putInt 4 body.length ++ body

/-- `crc32Field`: 4 reserved bytes, filled by `run` with the checksum of everything after them up to `pop` -/
def putCrc (p : Poly) (body : Bytes) : Bytes := be 4 (crc32 p body) ++ body

/-- `varintLengthField` in the real pass: `reserveLength()` bytes are reserved for the varint of the length
    stored in the field by the *prep* pass (`l`), and `run` writes that varint -/
def putVarLen (l : Int) (body : Bytes) : Bytes := putVarint l ++ body

/-- `prepEncoder.push(varintLengthField)` … `pop()`: `stale` is whatever `length` the field held before
    (0 for a fresh record, the previous size for a re-encoded one): push adds `reserveLength()` for the stale
    value, `adjustLength` stores the body size and returns the difference of the two field sizes. The result
    is the total added to `prepEncoder.length`, as the code computes it (in `Int`, like Go's `int`). -/
def prepVarLen (stale : Int) (body : Nat) : Int :=
  ((prepVarint stale : Nat) : Int) + body + (((prepVarint body : Nat) : Int) - ((prepVarint stale : Nat) : Int))

/-! ## constants of record.go / record_batch.go (tied to the source by the bridge) -/
def recordBatchOverhead : Nat := 49
def maximumRecordOverhead : Nat := 5 * 5 + 10 + 1

end Model.Codec
