import SaramaVerif.Model.BrokerProd
/-
  The broker worker of the IDEMPOTENT producer (Producer.Idempotent, version ≥ 0.11): `stepI`, a variant of
  `Model.BrokerProd.step` (which is left untouched) built from the same helper functions.  What differs:

    * handleSuccess, second pass: for a partition with a retriable verdict the worker does NOT hand the messages of
      the answered set to retryMessage; it starts `go retryBatch(topic, partition, pSet, err)` and goes on
      (bp.drop, retryMessages of the buffer's part, as before).  The messages given to the goroutine are the third
      component of the step's result (`batches`, one list per partition, in set order).
    * retryBatch (a goroutine of its own, `retryBatch` below): bumps the retry count of the messages one by one; if
      one of them has spent its budget the WHOLE batch is failed (the bumps already made stay); if the leader
      lookup fails the whole batch is failed; otherwise the set is sent to `getBrokerProducer(leader).output`,
      i.e. straight to the bridge goroutine of the leader's worker, without passing that worker's input or buffer.
    * that worker sees the set as an `inject`: its bridge is busy with a set the worker did not build (so it cannot
      hand over its own buffer meanwhile) and the response comes back through its `responses` channel and is
      handled like any other - verdicts, currentRetries, drop of ITS buffer, retryBatch again.
    * waitForSpace is also entered when the buffer's producer epoch differs from the message's (forceRollover): it
      then ends only by a hand-over (never by a response that made room); and after a hand-over that ended a
      wait-for-room the epoch test can send the same message into waitForSpace again (`handover again`), in which
      case the next hand-over passes an EMPTY buffer to the bridge.  In the inputs: `overflow` = wouldOverflow or
      epoch mismatch, `still` = wouldOverflow or forceRollover or a second wait.
    * `bp.buffer.add` can fail (`stepIE … addErr`, see `failAdd`).
    * DuplicateSequenceNumber is a success (class `ok`, see `classOf`); handleError and the fin handling are the same.
-/
namespace Model.BrokerProdIdem
open Model.BrokerProd

inductive InI
  | recv (t : Tok) (overflow : Bool)
  | handover (again : Bool)
  | resp (r : Resp) (still : Bool)
  | inject (set : List Tok)          -- a retryBatch goroutine put `set` into this worker's bridge

/-- second `sent.eachPartition` of handleSuccess, idempotent: state, actions, batches given to retryBatch -/
def loop2I (max : Nat) (v : Int → Verdict) : List Int → List Tok → St → St × List Action × List (List Tok)
  | [], _, s => (s, [], [])
  | p :: ps, rem, s =>
    if (onPart p rem).isEmpty ∨ v p ≠ .retriable then loop2I max v ps (offPart p rem) s
    else
      ((loop2I max v ps (offPart p rem) { s with cr := setCr s.cr p true, buffer := offPart p s.buffer }).1,
       Action.drop p :: retryMsgs max (onPart p s.buffer) ++
         (loop2I max v ps (offPart p rem) { s with cr := setCr s.cr p true, buffer := offPart p s.buffer }).2.1,
       onPart p rem ::
         (loop2I max v ps (offPart p rem) { s with cr := setCr s.cr p true, buffer := offPart p s.buffer }).2.2)

/-- handleSuccess / handleError, idempotent -/
def handleI (max : Nat) (s : St) (sent : List Tok) : Resp → St × List Action × List (List Tok)
  | .verdicts v o1 o2 =>
    if retryTopics max v sent then
      ((loop2I max v (o2 ++ partsOf sent) sent s).1,
       loop1 max v (o1 ++ partsOf sent) sent ++ (loop2I max v (o2 ++ partsOf sent) sent s).2.1,
       (loop2I max v (o2 ++ partsOf sent) sent s).2.2)
    else (s, loop1 max v (o1 ++ partsOf sent) sent, [])
  | .encErr o => ((handle max s sent (.encErr o)).1, (handle max s sent (.encErr o)).2, [])
  | .connErr o1 o2 => ((handle max s sent (.connErr o1 o2)).1, (handle max s sent (.connErr o1 o2)).2, [])

def respI (max : Nat) (s : St) (r : Resp) (still : Bool) : St × List Action × List (List Tok) :=
  match s.sets with
  | [] => (s, [.disabled], [])
  | sent :: rest =>
    ((recheck max (handleI max { s with sets := rest } sent r).1 (handleI max { s with sets := rest } sent r).2.1 still).1,
     (recheck max (handleI max { s with sets := rest } sent r).1 (handleI max { s with sets := rest } sent r).2.1 still).2,
     (handleI max { s with sets := rest } sent r).2.2)

/-- hand-over; `again`: the loop sits in waitForSpace and goes straight into a second (forced) wait -/
def handoverI (s : St) (again : Bool) : St × List Action :=
  if again && s.wait.isSome && s.sets.isEmpty then ({ s with sets := [s.buffer], buffer := [], stale := false }, [])
  else handover s

/-- a set arrives at the bridge from a retryBatch goroutine (the bridge takes one set at a time) -/
def inject (s : St) (set : List Tok) : St × List Action :=
  if !s.sets.isEmpty then (s, [.disabled]) else ({ s with sets := [set] }, [])

def stepI (max : Nat) (s : St) : InI → St × List Action × List (List Tok)
  | .recv t overflow => ((recv max s t overflow).1, (recv max s t overflow).2, [])
  | .handover again => ((handoverI s again).1, (handoverI s again).2, [])
  | .resp r still => respI max s r still
  | .inject set => ((inject s set).1, (inject s set).2, [])

/-- `bp.buffer.add(msg)` can fail in the idempotent producer ("message out of sequence added to a batch": the
    message's sequence number is below the batch's first): the hook bp.add has fired, the message is NOT in the buffer,
    returnError, `continue` (so `output` is not recomputed) -/
def failAdd (r : St × List Action × List (List Tok)) : St × List Action × List (List Tok) :=
  match r.2.1.getLast?, r.1.buffer.getLast? with
  | some (.add _ _), some t =>
    ({ r.1 with buffer := r.1.buffer.dropLast, stale := true }, r.2.1 ++ [Action.fail t.id t.part], r.2.2)
  | _, _ => r

/-- a step whose final `bp.buffer.add` (if it has one) fails when `addErr` -/
def stepIE (max : Nat) (s : St) (i : InI) (addErr : Bool) : St × List Action × List (List Tok) :=
  if addErr then failAdd (stepI max s i) else stepI max s i

def runAllI (max : Nat) (s : St) : List InI → St × List Action × List (List Tok)
  | [] => (s, [], [])
  | i :: is =>
    ((runAllI max (stepI max s i).1 is).1, (stepI max s i).2.1 ++ (runAllI max (stepI max s i).1 is).2.1,
     (stepI max s i).2.2 ++ (runAllI max (stepI max s i).1 is).2.2)

/-! ### the retryBatch goroutine -/

inductive BatchAct
  | bump (id : Int) (retries : Nat)   -- msg.retries++                      (retrybatch)
  | fail (id : Int)                   -- returnError                        (ret.err)
  | offer (set : List Tok)            -- bp.output <- produceSet  (the set appears at the leader's bridge)
  deriving Repr, DecidableEq

def bumped (t : Tok) : Tok := { t with retries := t.retries + 1 }

/-- the messages whose count is bumped before the loop meets one that has spent its budget -/
def bumpable (max : Nat) : List Tok → List Tok
  | [] => []
  | t :: ts => if t.retries ≥ max then [] else t :: bumpable max ts

def retryBatch (max : Nat) (toks : List Tok) (leaderOk : Bool) : List BatchAct :=
  (bumpable max toks).map (fun t => BatchAct.bump t.id (t.retries + 1)) ++
    (if (bumpable max toks).length < toks.length then toks.map (fun t => BatchAct.fail t.id)
     else if !leaderOk then toks.map (fun t => BatchAct.fail t.id)
     else [BatchAct.offer (toks.map bumped)])

end Model.BrokerProdIdem
