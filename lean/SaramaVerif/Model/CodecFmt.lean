import SaramaVerif.Model.CodecPrim
/-
  A schema language for Kafka wire formats as sarama's `encode`/`decode` methods spell them, with the three
  interpreters the code has:  `size` (prepEncoder pass), `enc` (realEncoder pass), `dec` (realDecoder).

  `Fmt` describes one protocol body for all its versions: primitives (one per put/get pair of
  packet_encoder.go / packet_decoder.go), sequencing, version conditions (`if version >= N`, `isFlexible`),
  count-prefixed arrays with the count conventions that occur, and the three push/pop fields
  (int32 length, varint length, CRC32).  Values are a generic tree `Val`.
-/
namespace Model.Codec

/-- generic value tree -/
inductive Val
  | int (i : Int)            -- every integer kind, bool as 0/1
  | bytes (b : Bytes)        -- strings and byte slices
  | null                     -- nil *string / nil []byte where the wire has a null form / null array
  | list (vs : List Val)     -- arrays
  | pair (a b : Val)         -- sequence
  | unit                     -- nothing on the wire (field not carried by this version, empty tagged section)

/-- one constructor per put/get pair -/
inductive Prim
  | i8 | i16 | i32 | i64 | varint | uvarint | bool
  | bytes | vbytes | cbytes | str | nstr | cstr | ncstr
  | i32arr | i64arr | ci32arr | nci32arr | strarr | tagged
  | raw (n : Nat)
  deriving DecidableEq, Repr

def intsOf (vs : List Val) : List Int := vs.map (fun v => match v with | .int i => i | _ => 0)
def bytesOf (vs : List Val) : List Bytes := vs.map (fun v => match v with | .bytes b => b | _ => [])

def allInt (n : Nat) : List Val → Bool
  | [] => true
  | .int i :: vs => decide (InInt n i) && allInt n vs
  | _ :: _ => false
def allStr : List Val → Bool
  | [] => true
  | .bytes b :: vs => decide (b.length < 2 ^ 15) && allStr vs
  | _ :: _ => false

/-- `realEncoder.putX` -/
def encP : Prim → Val → Bytes
  | .i8, .int x => putInt 1 x
  | .i16, .int x => putInt 2 x
  | .i32, .int x => putInt 4 x
  | .i64, .int x => putInt 8 x
  | .varint, .int x => putVarint x
  | .uvarint, .int x => putUVarint x.toNat
  | .bool, .int x => putBool (x != 0)
  | .bytes, .null => putBytes none
  | .bytes, .bytes b => putBytes (some b)
  | .vbytes, .null => putVarintBytes none
  | .vbytes, .bytes b => putVarintBytes (some b)
  | .cbytes, .bytes b => putCompactBytes b
  | .str, .bytes s => putString s
  | .nstr, .null => putNullableString none
  | .nstr, .bytes s => putNullableString (some s)
  | .cstr, .bytes s => putCompactString s
  | .ncstr, .null => putNullableCompactString none
  | .ncstr, .bytes s => putNullableCompactString (some s)
  | .i32arr, .list vs => putIntArray 4 (intsOf vs)
  | .i64arr, .list vs => putIntArray 8 (intsOf vs)
  | .ci32arr, .list vs => putCompactInt32Array (intsOf vs)
  | .nci32arr, .null => putNullableCompactInt32Array none
  | .nci32arr, .list vs => putNullableCompactInt32Array (some (intsOf vs))
  | .strarr, .list vs => putStringArray (bytesOf vs)
  | .tagged, .unit => putEmptyTagged
  | .raw _, .bytes b => b
  | _, _ => []

/-- `prepEncoder.putX` -/
def sizeP : Prim → Val → Nat
  | .i8, .int _ => 1
  | .i16, .int _ => 2
  | .i32, .int _ => 4
  | .i64, .int _ => 8
  | .varint, .int x => prepVarint x
  | .uvarint, .int x => prepUVarint x.toNat
  | .bool, .int _ => 1
  | .bytes, .null => prepBytes none
  | .bytes, .bytes b => prepBytes (some b)
  | .vbytes, .null => prepVarintBytes none
  | .vbytes, .bytes b => prepVarintBytes (some b)
  | .cbytes, .bytes b => prepCompactBytes b
  | .str, .bytes s => prepString s
  | .nstr, .null => prepNullableString none
  | .nstr, .bytes s => prepNullableString (some s)
  | .cstr, .bytes s => prepCompactString s
  | .ncstr, .null => prepNullableCompactString none
  | .ncstr, .bytes s => prepNullableCompactString (some s)
  | .i32arr, .list vs => prepIntArray 4 (intsOf vs)
  | .i64arr, .list vs => prepIntArray 8 (intsOf vs)
  | .ci32arr, .list vs => prepCompactInt32Array (intsOf vs)
  | .nci32arr, .null => prepNullableCompactInt32Array none
  | .nci32arr, .list vs => prepNullableCompactInt32Array (some (intsOf vs))
  | .strarr, .list vs => prepStringArray (bytesOf vs)
  | .tagged, .unit => prepUVarint 0
  | .raw _, .bytes b => b.length
  | _, _ => 0

def optBytesVal : Option Bytes → Val
  | none => .null
  | some b => .bytes b

def mapFst {α β γ : Type} (f : α → γ) : Option (α × β) → Option (γ × β)
  | none => none
  | some (a, b) => some (f a, b)

/-- `realDecoder.getX` -/
def decP : Prim → Bytes → Option (Val × Bytes)
  | .i8, bs => mapFst Val.int (getInt 1 bs)
  | .i16, bs => mapFst Val.int (getInt 2 bs)
  | .i32, bs => mapFst Val.int (getInt 4 bs)
  | .i64, bs => mapFst Val.int (getInt 8 bs)
  | .varint, bs => mapFst Val.int (getVarint bs)
  | .uvarint, bs => mapFst (fun (n : Nat) => Val.int n) (getUVarint bs)
  | .bool, bs => mapFst (fun (b : Bool) => Val.int (if b then 1 else 0)) (getBool bs)
  | .bytes, bs => mapFst optBytesVal (getBytes bs)
  | .vbytes, bs => mapFst optBytesVal (getVarintBytes bs)
  | .cbytes, bs => mapFst Val.bytes (getCompactBytes bs)
  | .str, bs => mapFst Val.bytes (getString bs)
  | .nstr, bs => mapFst optBytesVal (getNullableString bs)
  | .cstr, bs => mapFst Val.bytes (getCompactString bs)
  | .ncstr, bs => mapFst optBytesVal (getCompactNullableString bs)
  | .i32arr, bs => mapFst (fun xs => Val.list (xs.map Val.int)) (getIntArray 4 bs)
  | .i64arr, bs => mapFst (fun xs => Val.list (xs.map Val.int)) (getIntArray 8 bs)
  | .ci32arr, bs => mapFst (fun (o : Option (List Int)) => match o with
                                | none => Val.list [] | some xs => Val.list (xs.map Val.int)) (getCompactInt32Array bs)
  | .nci32arr, bs => mapFst (fun (o : Option (List Int)) => match o with
                                | none => Val.null | some xs => Val.list (xs.map Val.int)) (getCompactInt32Array bs)
  | .strarr, bs => mapFst (fun ss => Val.list (ss.map Val.bytes)) (getStringArray bs)
  | .tagged, bs => mapFst (fun _ => Val.unit) (getEmptyTagged bs)
  | .raw n, bs => mapFst Val.bytes (getRaw n bs)

/-- values a primitive carries faithfully: the Go type's range, and the bounds the encoder enforces -/
def wtP : Prim → Val → Bool
  | .i8, .int x => decide (InInt 1 x)
  | .i16, .int x => decide (InInt 2 x)
  | .i32, .int x => decide (InInt 4 x)
  | .i64, .int x => decide (InInt 8 x)
  | .varint, .int x => decide (InInt 8 x)
  | .uvarint, .int x => decide (0 ≤ x ∧ x < 2 ^ 64)
  | .bool, .int x => decide (x = 0 ∨ x = 1)
  | .bytes, .null => true
  | .bytes, .bytes b => decide (b.length < 2 ^ 31)
  | .vbytes, .null => true
  | .vbytes, .bytes b => decide (b.length < 2 ^ 63)
  | .cbytes, .bytes b => decide (b.length + 1 < 2 ^ 64)
  | .str, .bytes s => decide (s.length < 2 ^ 15)
  | .nstr, .null => true
  | .nstr, .bytes s => decide (s.length < 2 ^ 15)
  | .cstr, .bytes s => decide (s.length + 1 < 2 ^ 64)
  | .ncstr, .null => true
  | .ncstr, .bytes s => decide (s.length + 1 < 2 ^ 64)
  | .i32arr, .list vs => decide (vs.length < 2 ^ 31) && allInt 4 vs
  | .i64arr, .list vs => decide (vs.length < 2 ^ 31) && allInt 8 vs
  | .ci32arr, .list vs => decide (vs.length + 1 < 2 ^ 64) && allInt 4 vs
  | .nci32arr, .null => true
  | .nci32arr, .list vs => decide (vs.length + 1 < 2 ^ 64) && allInt 4 vs
  | .strarr, .list vs => decide (vs.length < 2 ^ 31) && allStr vs
  | .tagged, .unit => true
  | .raw n, .bytes b => decide (b.length = n)
  | _, _ => false

/-- how the element count of an array is written -/
inductive Count
  | i32        -- putArrayLength / getArrayLength (count ≤ remaining bytes, ≤ 2·MaxUint16)
  | i32null    -- the same, with −1 for a nil array
  | compact    -- putCompactArrayLength / getCompactArrayLength
  | varint     -- putVarint(len) / getVarint (record headers)
  deriving DecidableEq, Repr

inductive Fmt
  | prim (p : Prim)
  | unit
  | seq (a b : Fmt)
  | ite (lo hi : Nat) (a b : Fmt)     -- `if lo ≤ version ∧ version ≤ hi { a } else { b }`
  | arr (c : Count) (e : Fmt)
  | len32 (f : Fmt)                   -- push(&lengthField{}) … pop()
  | varlen (f : Fmt)                  -- push(&varintLengthField) … pop()
  | crc (p : Poly) (f : Fmt)          -- push(newCRC32Field(p)) … pop()

/-- `if version >= lo { f }` -/
def Fmt.gate (lo : Nat) (f : Fmt) : Fmt := .ite lo 1000000 f .unit

def putCount : Count → Option Nat → Bytes
  | .i32, some n => putArrayLength n
  | .i32null, some n => putArrayLength n
  | .i32null, none => putArrayLength (-1)
  | .compact, some n => putCompactArrayLength n
  | .varint, some n => putVarint n
  | _, none => []

def prepCount : Count → Option Nat → Nat
  | .i32, some _ => 4
  | .i32null, _ => 4
  | .compact, some n => prepUVarint (n + 1)
  | .varint, some n => prepVarint n
  | _, none => 0

/-- `some none` = null array -/
def getCount : Count → Bytes → Option (Option Nat × Bytes)
  | .i32, bs =>
    match getArrayLength bs with
    | none => none
    | some (n, r) => if n < 0 then none else some (some n.toNat, r)
  | .i32null, bs =>
    match getArrayLength bs with
    | none => none
    | some (n, r) => if n = -1 then some (none, r) else if n < 0 then none else some (some n.toNat, r)
  | .compact, bs =>
    match getCompactArrayLength bs with
    | none => none
    | some (n, r) => some (some n, r)
  | .varint, bs =>
    -- Record.decode: `numHeaders > remaining` → insufficient; a negative count allocates nothing
    match getVarint bs with
    | none => none
    | some (n, r) => if n > r.length then none else some (some n.toNat, r)

/-- `n` elements, one after the other -/
def decMany (d : Bytes → Option (Val × Bytes)) : Nat → Bytes → Option (List Val × Bytes)
  | 0, bs => some ([], bs)
  | n + 1, bs =>
    match d bs with
    | none => none
    | some (v, r) =>
      match decMany d n r with
      | none => none
      | some (vs, r') => some (v :: vs, r')

/-- prepEncoder pass: the number of bytes the body will take.  The `varlen` case is the *result* of
    push(reserve for the stale value) + adjustLength, see `prepVarLen` / `prepVarLen_exact`. -/
def size : Fmt → Nat → Val → Nat
  | .prim p, _, v => sizeP p v
  | .unit, _, _ => 0
  | .seq a b, ver, .pair x y => size a ver x + size b ver y
  | .seq _ _, _, _ => 0
  | .ite lo hi a b, ver, v => if lo ≤ ver ∧ ver ≤ hi then size a ver v else size b ver v
  | .arr c e, ver, .list vs => prepCount c (some vs.length) + (vs.map (size e ver)).sum
  | .arr c _, _, .null => prepCount c none
  | .arr _ _, _, _ => 0
  | .len32 f, ver, v => 4 + size f ver v
  | .varlen f, ver, v => prepVarint (size f ver v) + size f ver v
  | .crc _ f, ver, v => 4 + size f ver v

/-- realEncoder pass.  The varint length field writes the length the *prep* pass stored in it. -/
def enc : Fmt → Nat → Val → Bytes
  | .prim p, _, v => encP p v
  | .unit, _, _ => []
  | .seq a b, ver, .pair x y => enc a ver x ++ enc b ver y
  | .seq _ _, _, _ => []
  | .ite lo hi a b, ver, v => if lo ≤ ver ∧ ver ≤ hi then enc a ver v else enc b ver v
  | .arr c e, ver, .list vs => putCount c (some vs.length) ++ (vs.map (enc e ver)).flatten
  | .arr c _, _, .null => putCount c none
  | .arr _ _, _, _ => []
  | .len32 f, ver, v => putLen32 (enc f ver v)
  | .varlen f, ver, v => putVarLen (size f ver v) (enc f ver v)
  | .crc p f, ver, v => putCrc p (enc f ver v)

/-- realDecoder -/
def dec : Fmt → Nat → Bytes → Option (Val × Bytes)
  | .prim p, _, bs => decP p bs
  | .unit, _, bs => some (.unit, bs)
  | .seq a b, ver, bs =>
    match dec a ver bs with
    | none => none
    | some (x, r) =>
      match dec b ver r with
      | none => none
      | some (y, r') => some (.pair x y, r')
  | .ite lo hi a b, ver, bs => if lo ≤ ver ∧ ver ≤ hi then dec a ver bs else dec b ver bs
  | .arr c e, ver, bs =>
    match getCount c bs with
    | none => none
    | some (none, r) => some (.null, r)
    | some (some n, r) =>
      match decMany (dec e ver) n r with
      | none => none
      | some (vs, r') => some (.list vs, r')
  | .len32 f, ver, bs =>
    -- lengthField.decode: getInt32, `length > remaining` → insufficient; check at pop
    match getInt 4 bs with
    | none => none
    | some (n, r) =>
      if n > r.length then none else
      match dec f ver r with
      | none => none
      | some (v, r') => if ((r.length - r'.length : Nat) : Int) = n then some (v, r') else none
  | .varlen f, ver, bs =>
    -- varintLengthField.decode: getVarint; check at pop: the bytes between the end of the varint as it was
    -- read (`binary.Varint(buf[startOffset:])`) and the current offset are `length` many
    match getVarint bs with
    | none => none
    | some (n, r) =>
      match dec f ver r with
      | none => none
      | some (v, r') => if ((r.length - r'.length : Nat) : Int) = n then some (v, r') else none
  | .crc p f, ver, bs =>
    match getUInt 4 bs with
    | none => none
    | some (c, r) =>
      match dec f ver r with
      | none => none
      | some (v, r') => if crc32 p (r.take (r.length - r'.length)) = c then some (v, r') else none

/-- bounds on an element count `n` whose elements take `body` bytes: the guards of the count getters
    (count ≤ remaining bytes everywhere, count ≤ 2·MaxUint16 for `getArrayLength`) and the width of the count field -/
def countOK : Count → Nat → Nat → Bool
  | .i32, n, body => decide (n ≤ 131070 ∧ n ≤ body)
  | .i32null, n, body => decide (n ≤ 131070 ∧ n ≤ body)
  | .compact, n, body => decide (n + 1 < 2 ^ 64 ∧ n ≤ body)
  | .varint, n, body => decide (n < 2 ^ 63 ∧ n ≤ body)

def allWT (w : Val → Bool) : List Val → Bool
  | [] => true
  | v :: vs => w v && allWT w vs

/-- well-typedness of a value for a schema at a version: shape, Go ranges, encoder bounds, and for the
    `getArrayLength` counts the decoder's own plausibility guards -/
def WT : Fmt → Nat → Val → Bool
  | .prim p, _, v => wtP p v
  | .unit, _, .unit => true
  | .unit, _, _ => false
  | .seq a b, ver, .pair x y => WT a ver x && WT b ver y
  | .seq _ _, _, _ => false
  | .ite lo hi a b, ver, v => if lo ≤ ver ∧ ver ≤ hi then WT a ver v else WT b ver v
  | .arr c e, ver, .list vs =>
    allWT (WT e ver) vs && countOK c vs.length ((vs.map (enc e ver)).flatten).length
  | .arr c _, _, .null => c == .i32null
  | .arr _ _, _, _ => false
  | .len32 f, ver, v => WT f ver v && decide ((enc f ver v).length < 2 ^ 31)
  | .varlen f, ver, v => WT f ver v && decide ((enc f ver v).length < 2 ^ 63)
  | .crc _ f, ver, v => WT f ver v

end Model.Codec
