/-
  Model of offset_manager.go: the partition offset manager state machine and the commit protocol of the
  offset manager against a group coordinator.

  Two levels.

  * Partition level (`PState`, `POp`, `pstep`): everything one partition can observe.  `offset / metadata (md) /
    dirty / done` are the fields of `partitionOffsetManager`; `obj` says that a pom object exists (the
    application holds a handle), `live` that it is registered in `offsetManager.poms` (it is visited by
    constructRequest / handleResponse / releasePOMs).  `inflight` is the block a commit request that is
    under way carries for this partition, `store` what the coordinator holds for it.  `hist` / `commits`
    are ghost logs (never read by the step function): the pairs the position was set to, and the pairs put
    into commit requests, newest first.
  * System level (`Sys`, `Op`, `step`): a list of partitions, the cached coordinator connection
    (`broker`), and `active` = a commit request is under way (between constructRequest and the handling of
    its answer).  By construction `step` applies `pstep p (proj s i op)` to partition `i`, so every
    partition of a system run is a partition-level run (`Props.C06.sys_partition_trace`).

  Metadata strings are opaque values: the code only copies and compares them.  They are represented by
  integer codes (0 = the empty string).

  One committer at a time (the property's quantifier): `construct` is enabled only when no request is under
  way; the forced release of `Close` happens when no request is under way.  constructRequest /
  handleResponse / releasePOMs visit the partitions one after the other, each under its own lock; the model
  makes each of them one atomic step, which loses no behaviour: an application call on partition q commutes
  with the visit of a partition p ≠ q, and the partition-level theorems are about one partition's projection.

  External behaviour is a parameter of the operations: what the coordinator answers (per partition verdict
  code, missing block, connection failure before / after applying the commit), whether the coordinator
  lookup succeeds.
-/
namespace Model.OffsetMgr

/-- (offset, metadata code) -/
abbrev Pair := Int × Int

/-- what OffsetFetch answers for a partition: the stored pair, or (-1, "") when nothing is stored -/
def fetched (st : Option Pair) : Pair := st.getD (-1, 0)

/-! ## field-level transition functions (bridge targets: regenerated from the Go source and proved equal) -/

/-- `MarkOffset`: new (offset, metadata, dirty) -/
def markOffset (offset md : Int) (dirty : Bool) (o m : Int) : Int × Int × Bool :=
  if o > offset then (o, m, true) else (offset, md, dirty)

/-- `ResetOffset` -/
def resetOffset (offset md : Int) (dirty : Bool) (o m : Int) : Int × Int × Bool :=
  if o ≤ offset then (o, m, true) else (offset, md, dirty)

/-- `updateCommitted`: new dirty flag -/
def updateCommitted (offset md : Int) (dirty : Bool) (o m : Int) : Bool :=
  if offset = o ∧ md = m then false else dirty

/-- `NextOffset` (`ini` = Consumer.Offsets.Initial) -/
def nextOffset (offset md ini : Int) : Pair :=
  if offset ≥ 0 then (offset, md) else (ini, 0)

/-- `releaseDue` in releasePOMs -/
def releaseDue (done force dirty : Bool) : Bool := done && (force || !dirty)

/-! ## partition level -/

structure PState where
  offset : Int
  md : Int
  dirty : Bool
  done : Bool
  obj : Bool
  live : Bool
  inflight : Option Pair
  store : Option Pair
  hist : List Pair
  commits : List Pair
  deriving Repr

/-- a partition nobody manages yet; the coordinator holds `st` for it -/
def pinit (st : Option Pair) : PState :=
  { offset := 0, md := 0, dirty := false, done := false, obj := false, live := false,
    inflight := none, store := st, hist := [fetched st], commits := [] }

/-- how one commit attempt ends for one partition that is in the request:
    `ok` the coordinator stored the block and said so; `okLost` it stored the block but the answer was
    lost (connection failure after applying); `fail` nothing stored (any error class, missing block,
    connection failure before applying, coordinator lookup failure) -/
inductive PVerdict | ok | okLost | fail
  deriving DecidableEq, Repr

inductive POp
  | nop
  | manage                    -- ManagePartition: new pom from the fetched pair (if none is registered)
  | mark (o m : Int)          -- MarkOffset
  | reset (o m : Int)         -- ResetOffset
  | aclose                    -- pom.AsyncClose / pom.Close by the application
  | acloseLive                -- asyncClosePOMs of offsetManager.Close (registered poms only)
  | snap                      -- constructRequest visits the partition
  | verdict (v : PVerdict)    -- the commit attempt ends (handleResponse / handleError)
  | release (force : Bool)    -- releasePOMs visits the partition
  deriving DecidableEq, Repr

def pstep (p : PState) : POp → PState
  | .nop => p
  | .manage =>
    if p.live = true then p
    else { p with offset := (fetched p.store).1, md := (fetched p.store).2, dirty := false, done := false,
                  obj := true, live := true, hist := fetched p.store :: p.hist }
  | .mark o m =>
    if p.obj = true ∧ o > p.offset then
      { p with offset := o, md := m, dirty := true, hist := (o, m) :: p.hist }
    else p
  | .reset o m =>
    if p.obj = true ∧ o ≤ p.offset then
      { p with offset := o, md := m, dirty := true, hist := (o, m) :: p.hist }
    else p
  | .aclose => if p.obj = true then { p with done := true } else p
  | .acloseLive => if p.live = true then { p with done := true } else p
  | .snap =>
    if p.live = true ∧ p.dirty = true then
      { p with inflight := some (p.offset, p.md), commits := (p.offset, p.md) :: p.commits }
    else p
  | .verdict v =>
    match p.inflight with
    | none => p
    | some c =>
      match v with
      | .ok => { p with store := some c, inflight := none,
                        dirty := updateCommitted p.offset p.md p.dirty c.1 c.2 }
      | .okLost => { p with store := some c, inflight := none }
      | .fail => { p with inflight := none }
  | .release force =>
    if p.live = true ∧ releaseDue p.done force p.dirty = true ∧ p.inflight = none then
      { p with live := false }
    else p

def prun (p : PState) : List POp → PState
  | [] => p
  | op :: ops => prun (pstep p op) ops

/-- application operations (what the window of a commit may contain) -/
def POp.isApp : POp → Bool
  | .mark _ _ => true
  | .reset _ _ => true
  | _ => false

/-- the final flush of `Close` seen by one partition: AsyncClose, then per attempt
    snapshot / verdict / releasePOMs(false), then releasePOMs(true) -/
def closeAttemptP (p : PState) (v : PVerdict) : PState :=
  pstep (pstep (pstep p .snap) (.verdict v)) (.release false)

def closeP (p : PState) (vs : List PVerdict) : PState :=
  pstep (vs.foldl closeAttemptP (pstep p .acloseLive)) (.release true)

/-! ## system level -/

/-- per partition answer of the coordinator in an OffsetCommitResponse -/
inductive Verdict
  | code (k : Int)   -- KError code
  | missing          -- no entry for the partition (or its topic)
  deriving DecidableEq, Repr

inductive Reply
  | respond (vs : List Verdict)   -- a response arrived; `vs[i]` is the entry for partition `i`
  | connErr (applied : Bool)      -- CommitOffset returned an error; `applied`: the coordinator had stored the blocks
  deriving DecidableEq, Repr

/-- case labels of `switch err` in handleResponse, clause by clause (bridge: equal to the regenerated table) -/
def respCases : List (List Int) := [[0], [6, 5, 15, 16], [12, 28], [14], [3]]

inductive Class
  | commit            -- ErrNoError: updateCommitted
  | redispatch        -- release the coordinator, say nothing
  | tellUser          -- error to the user, keep the coordinator
  | nothing           -- ErrOffsetsLoadInProgress
  | tellRedispatch    -- ErrUnknownTopicOrPartition (fallthrough) and default
  deriving DecidableEq, Repr

def clauseOf : List (List Int) → Int → Nat → Option Nat
  | [], _, _ => none
  | l :: ls, k, n => if l.contains k then some n else clauseOf ls k (n + 1)

def classify (k : Int) : Class :=
  match clauseOf respCases k 0 with
  | some 0 => .commit
  | some 1 => .redispatch
  | some 2 => .tellUser
  | some 3 => .nothing
  | _ => .tellRedispatch

inductive Err
  | code (k : Int)   -- a KError handed to the partition's error channel
  | incomplete       -- ErrIncompleteResponse
  | lookup           -- the error of the failed coordinator lookup
  | io               -- the error CommitOffset returned
  deriving DecidableEq, Repr

def verdictAt (vs : List Verdict) (i : Nat) : Verdict := (vs[i]?).getD .missing

/-- what the body of handleResponse's loop does for one partition that is in the request, given the
    coordinator's entry for it: (updateCommitted is called, the coordinator is released, the error handed to
    the partition).  Bridge: equal to the regenerated loop body (`Bridge.C06.respBody_in_request`). -/
def verdictEffects : Verdict → Bool × Bool × Option Err
  | .missing => (false, false, some .incomplete)
  | .code k =>
    match classify k with
    | .commit => (true, false, none)
    | .redispatch => (false, true, none)
    | .tellUser => (false, false, some (.code k))
    | .nothing => (false, false, none)
    | .tellRedispatch => (false, true, some (.code k))

/-- the partition-level meaning of a reply for partition `i` -/
def pverdictFor (r : Reply) (i : Nat) : PVerdict :=
  match r with
  | .respond vs =>
    match verdictAt vs i with
    | .code k => if classify k = .commit then .ok else .fail
    | .missing => .fail
  | .connErr true => .okLost
  | .connErr false => .fail

/-! ### fetchInitialOffset (ManagePartition) -/

/-- what one attempt of the initial OffsetFetch meets -/
inductive FetchAns
  | ok                -- block with ErrNoError
  | notCoord          -- ErrNotCoordinatorForConsumer: release the coordinator, retry
  | loading           -- ErrOffsetsLoadInProgress: back off, retry
  | reqErr            -- FetchOffset returned an error: release the coordinator, retry
  | missing           -- no block for the partition: ErrIncompleteResponse, no retry
  | other (k : Int)   -- any other KError: returned, no retry
  deriving DecidableEq, Repr

/-- one scripted attempt: does the coordinator lookup succeed (only consulted when no coordinator is
    cached), and the answer to the fetch -/
structure FetchAtt where
  lk : Bool
  ans : FetchAns
  deriving DecidableEq, Repr

inductive FetchOut
  | ok (broker : Bool)                 -- the stored pair was fetched
  | fail (e : Err) (broker : Bool)     -- ManagePartition returns the error; no pom is created
  deriving DecidableEq, Repr

/-- `fetchInitialOffset(topic, partition, retries)`: `b` = a coordinator is cached. An exhausted script means
    the coordinator answers normally. -/
def fetchInitial : Bool → Nat → List FetchAtt → FetchOut
  | _, _, [] => .ok true
  | b, r, a :: as =>
    if b = false ∧ a.lk = false then
      match r with
      | 0 => .fail .lookup false
      | r + 1 => fetchInitial false r as
    else
      match a.ans with
      | .ok => .ok true
      | .missing => .fail .incomplete true
      | .other k => .fail (.code k) true
      | .reqErr =>
        match r with
        | 0 => .fail .io true
        | r + 1 => fetchInitial false r as
      | .notCoord =>
        match r with
        | 0 => .fail (.code 16) true
        | r + 1 => fetchInitial false r as
      | .loading =>
        match r with
        | 0 => .fail (.code 14) true
        | r + 1 => fetchInitial true r as

/-- an attempt that cannot produce the stored pair but may be retried -/
def FetchAtt.retryable (b : Bool) (a : FetchAtt) : Bool :=
  (!b && !a.lk) || a.ans = .notCoord || a.ans = .loading || a.ans = .reqErr

/-- case labels of `switch block.Err` in fetchInitialOffset (bridge: equal to the regenerated table) -/
def fetchCases : List (List Int) := [[0], [16], [14]]

structure Sys where
  parts : List PState
  broker : Bool
  active : Bool
  deriving Repr

def sinit (stores : List (Option Pair)) : Sys :=
  { parts := stores.map pinit, broker := false, active := false }

inductive Op
  | manage (p : Nat)
  | mark (p : Nat) (o m : Int)
  | reset (p : Nat) (o m : Int)
  | next (p : Nat) (ini : Int)
  | aclose (p : Nat)
  | acloseAll                 -- asyncClosePOMs
  | construct                 -- constructRequest
  | lookup (ok : Bool)        -- coordinator() after a request was built
  | reply (r : Reply)         -- CommitOffset returned; handleResponse / handleError + releaseCoordinator
  | release (force : Bool)    -- releasePOMs
  | dropBroker                -- end of Close: om.broker = nil
  | manageFailed (brokerAfter : Bool)  -- ManagePartition whose initial fetch failed: no pom, only the cache moves
  deriving DecidableEq, Repr

/-- does the lookup of this step fail (a request is under way, no cached coordinator, lookup says no) -/
def lookupFails (s : Sys) (ok : Bool) : Bool := s.active && !s.broker && !ok

/-- the partition-level operation partition `i` undergoes when the system does `op` in state `s` -/
def proj (s : Sys) (i : Nat) : Op → POp
  | .manage p => if p = i then .manage else .nop
  | .mark p o m => if p = i then .mark o m else .nop
  | .reset p o m => if p = i then .reset o m else .nop
  | .next _ _ => .nop
  | .aclose p => if p = i then .aclose else .nop
  | .acloseAll => .acloseLive
  | .construct => if s.active = true then .nop else .snap
  | .lookup ok => if lookupFails s ok = true then .verdict .fail else .nop
  | .reply r => if s.active = true then .verdict (pverdictFor r i) else .nop
  | .release force => if force = true ∧ s.active = true then .nop else .release force
  | .dropBroker => .nop
  | .manageFailed _ => .nop

def stepParts (s : Sys) (op : Op) : List PState :=
  s.parts.mapIdx (fun i p => pstep p (proj s i op))

/-- does the reply make handleResponse / flushToBroker drop the cached coordinator -/
def replyDrops (parts : List PState) : Reply → Bool
  | .connErr _ => true
  | .respond vs =>
    (parts.zipIdx.any fun (p, i) =>
      p.inflight.isSome &&
        match verdictAt vs i with
        | .code k => classify k = .redispatch || classify k = .tellRedispatch
        | .missing => false)

def stepBroker (s : Sys) : Op → Bool
  | .manage _ => true                 -- fetchInitialOffset went through coordinator()
  | .lookup ok => if s.active = true ∧ s.broker = false then ok else s.broker
  | .reply r => if s.active = true then (s.broker && !replyDrops s.parts r) else s.broker
  | .dropBroker => false
  | .manageFailed b => b
  | _ => s.broker

def stepActive (s : Sys) (op : Op) : Bool :=
  match op with
  | .construct => if s.active = true then true else (stepParts s op).any (fun p => p.inflight.isSome)
  | .lookup ok => s.active && !lookupFails s ok
  | .reply _ => false
  | _ => s.active

def stepSys (s : Sys) (op : Op) : Sys :=
  { parts := stepParts s op, broker := stepBroker s op, active := stepActive s op }

def run (s : Sys) : List Op → Sys
  | [] => s
  | op :: ops => run (stepSys s op) ops

/-! ### what a step shows to the outside (compared with the implementation by the driver) -/

/-- errors handed to the partitions' error channels by a step -/
def stepErrs (s : Sys) : Op → List (List Err)
  | .lookup ok =>
    s.parts.map fun p => if lookupFails s ok = true ∧ p.live = true then [Err.lookup] else []
  | .reply r =>
    if s.active = true then
      match r with
      | .connErr _ => s.parts.map fun p => if p.live = true then [Err.io] else []
      | .respond vs =>
        s.parts.zipIdx.map fun (p, i) =>
          if p.inflight.isSome then
            match verdictAt vs i with
            | .missing => [Err.incomplete]
            | .code k =>
              if classify k = .tellUser ∨ classify k = .tellRedispatch then [Err.code k] else []
          else []
    else s.parts.map fun _ => []
  | _ => s.parts.map fun _ => []

/-- the blocks of the request constructRequest returns (`none` = partition not in the request) -/
def requestBlocks (s : Sys) : List (Option Pair) := s.parts.map (·.inflight)

/-- answer of NextOffset on partition `p` -/
def nextAnswer (s : Sys) (p : Nat) (ini : Int) : Option Pair :=
  match s.parts[p]? with
  | some q => if q.obj = true then some (nextOffset q.offset q.md ini) else none
  | none => none

/-- version of the commit request (constructRequest: retention unset → v1, set → v2) -/
def reqVersion (retention : Bool) : Int := if retention then 2 else 1

/-! ### the composite calls of the API in terms of steps -/

/-- one scripted commit attempt: lookup answer, application calls landing while the request is at the
    coordinator, the coordinator's reply -/
structure Attempt where
  lk : Bool
  win : List Op
  r : Reply
  deriving Repr

/-- the steps of `flushToBroker` from state `s` -/
def flushOps (s : Sys) (a : Attempt) : List Op :=
  if (stepSys s .construct).active = true then
    if (stepSys (stepSys s .construct) (.lookup a.lk)).active = true then
      [.construct, .lookup a.lk] ++ a.win ++ [.reply a.r]
    else [.construct, .lookup a.lk]
  else [.construct]

/-- `Commit()` = flushToBroker; releasePOMs(false) -/
def commitOps (s : Sys) (a : Attempt) : List Op := flushOps s a ++ [.release false]

def remaining (s : Sys) : Nat := s.parts.countP (·.live)

/-- the final flush loop of `Close` (the script has one entry per permitted attempt) -/
def closeLoopOps : Sys → List Attempt → List Op
  | _, [] => []
  | s, a :: as =>
    if remaining (run s (commitOps s a)) = 0 then commitOps s a
    else commitOps s a ++ closeLoopOps (run s (commitOps s a)) as

/-- `offsetManager.Close()`; `script` is cut to `retryMax + 1` attempts -/
def closeOps (s : Sys) (auto : Bool) (retryMax : Nat) (script : List Attempt) : List Op :=
  [.acloseAll] ++
    (if auto then closeLoopOps (stepSys s .acloseAll) (script.take (retryMax + 1)) else []) ++
    [.release true, .dropBroker]

end Model.OffsetMgr
