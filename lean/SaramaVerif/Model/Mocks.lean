import SaramaVerif.Model.Partitioner
/-
  Model of package `mocks` (mocks/async_producer.go, mocks/sync_producer.go, mocks/consumer.go, mocks/mocks.go):
  the three mocks as small deterministic state machines.

  External behaviour is a parameter, never an axiom:
    * the partitioner is an arbitrary state machine `Part σ` (one instance per topic, created on first use);
    * a `CheckFunction` is an arbitrary function of the message and the partition stored into it;
    * scripted errors, checker errors, partitioner errors are integer codes.

  The single goroutine of the async mock handles one input at a time under the mutex `mp.l`, so a run of the
  async mock is a run of `asyncSend` over the inputs in the order the goroutine received them (every schedule
  of concurrent senders is one such order).

  Variant flags (pinned tree vs. documented behaviour):
    * `fixedChecker = false`  (F11a) async mock: after a failing CheckFunction the code falls through to the
      result handling, so the message gets the checker error AND its scripted outcome (and uses up an offset);
    * `retChosen = false`     (F11b) sync mock: `SendMessage` returns partition 0 (shadowed result variable)
      although `msg.Partition` holds the partitioner's choice.
-/
namespace Model.Mocks

/-- what the mocks look at in a `*sarama.ProducerMessage` -/
structure Msg where
  id : Nat
  topic : Nat
  /-- attribute read by the partitioner (hash of the key bytes, or whatever a custom partitioner looks at) -/
  key : Int
  /-- `msg.Partition` before the message is handed to the mock (read by the manual partitioner) -/
  part0 : Int
  deriving DecidableEq, Repr

/-- a `PartitionerConstructor`: per-topic initial state and the `Partition(msg, numPartitions)` call -/
structure Part (σ : Type) where
  init : Nat → σ
  step : σ → Msg → Int → Except Int Int × σ

/-- `producerExpectation`: `result = none` is `errProduceSuccess`; `check` is the `CheckFunction`
    (answers an error code or `none`), given the message and the partition written into it -/
structure Exp where
  result : Option Int
  check : Option (Msg → Int → Option Int)

inductive ErrKind
  | scripted | checker | partitioner | outOfExpectations
  deriving DecidableEq, Repr

/-- key of a partition consumer: topic, partition -/
abbrev Key := Nat × Int

/-- calls made on the `ErrorReporter` (one constructor per `Errorf` call site / format string) -/
inductive Report
  | noExpectation
  | insufficient
  | leftover (n : Nat)
  | checkerFailed (code : Int)
  | partitionerError (code : Int)
  | noPartitionExpectation (k : Key)
  | unexpectedOffset (k : Key) (expected got : Int)
  | notStarted (k : Key)
  | errorsNotDrained (k : Key) (n : Nat)
  | messagesNotDrained (k : Key) (n : Nat)
  | noMetadata
  deriving DecidableEq, Repr

/-- what arrives on `Successes()` / `Errors()` -/
inductive Outcome
  | success (id : Nat) (partition offset : Int)
  | error (id : Nat) (kind : ErrKind) (code : Int) (partition : Int)
  deriving DecidableEq, Repr

def Outcome.id : Outcome → Nat
  | .success i _ _ => i
  | .error i _ _ _ => i

/-- `TopicConfig` -/
structure TopicCfg where
  dflt : Int
  ovr : Nat → Option Int

def TopicCfg.partitions (tc : TopicCfg) (t : Nat) : Int := (tc.ovr t).getD tc.dflt
def TopicCfg.new : TopicCfg := { dflt := 32, ovr := fun _ => none }
def TopicCfg.setDefault (tc : TopicCfg) (n : Int) : TopicCfg := { dflt := n, ovr := tc.ovr }
def TopicCfg.setPartitions (tc : TopicCfg) (t : Nat) (n : Int) : TopicCfg :=
  { dflt := tc.dflt, ovr := fun x => if x = t then some n else tc.ovr x }

/-- `SetPartitions(m)` for a Go map `m` with the entries `l`: the mock copies the entries into its own table -
    what the caller (or another mock that was given the same map) does with `m` afterwards cannot reach it -/
def TopicCfg.setPartitionsMap : TopicCfg → List (Nat × Int) → TopicCfg
  | tc, [] => tc
  | tc, (t, n) :: l => TopicCfg.setPartitionsMap (tc.setPartitions t n) l

def upd {α : Type} (f : Nat → α) (t : Nat) (v : α) : Nat → α := fun x => if x = t then v else f x

/-- state shared by both producer mocks: `expectations`, `lastOffset`, the per-topic partitioners, `TopicConfig` -/
structure PState (σ : Type) where
  exps : List Exp
  lastOffset : Int
  ps : Nat → σ
  tc : TopicCfg

def PState.init {σ : Type} (P : Part σ) (script : List Exp) (tc : TopicCfg) : PState σ :=
  { exps := script, lastOffset := 0, ps := P.init, tc := tc }

def PState.expect {σ : Type} (s : PState σ) (e : Exp) : PState σ :=
  { exps := s.exps ++ [e], lastOffset := s.lastOffset, ps := s.ps, tc := s.tc }

def PState.withTc {σ : Type} (s : PState σ) (tc : TopicCfg) : PState σ :=
  { exps := s.exps, lastOffset := s.lastOffset, ps := s.ps, tc := tc }

def checkVerdict (e : Exp) (m : Msg) (p : Int) : Option Int :=
  match e.check with
  | none => none
  | some f => f m p

/-- the partitioner call made for message `m` in state `s` -/
def choose {σ : Type} (P : Part σ) (ps : Nat → σ) (tc : TopicCfg) (m : Msg) : Except Int Int × σ :=
  P.step (ps m.topic) m (tc.partitions m.topic)

/-! ### async producer -/

structure ACfg where
  /-- `config.Producer.Return.Successes` -/
  retSucc : Bool
  /-- `config.Producer.Return.Errors` -/
  retErr : Bool

/-- result handling of the goroutine (`if expectation.Result == errProduceSuccess …`): new lastOffset, outcomes -/
def asyncResult (cfg : ACfg) (e : Exp) (m : Msg) (p lo : Int) : Int × List Outcome :=
  match e.result with
  | none => (lo + 1, if cfg.retSucc then [.success m.id p (lo + 1)] else [])
  | some c => (lo, if cfg.retErr then [.error m.id .scripted c p] else [])

/-- body of the goroutine for a message that found the expectation `e`, given the partitioner's answer `c`:
    (new lastOffset, outcomes, reporter calls) -/
def asyncHandle (fixedChecker : Bool) (cfg : ACfg) (e : Exp) (m : Msg) (c : Except Int Int) (lo : Int) :
    Int × List Outcome × List Report :=
  match c with
  | .error pc => (lo, [.error m.id .partitioner pc m.part0], [.partitionerError pc])
  | .ok p =>
    match checkVerdict e m p with
    | some cc =>
      if fixedChecker then (lo, [.error m.id .checker cc p], [.checkerFailed cc])
      else ((asyncResult cfg e m p lo).1, .error m.id .checker cc p :: (asyncResult cfg e m p lo).2, [.checkerFailed cc])
    | none => ((asyncResult cfg e m p lo).1, (asyncResult cfg e m p lo).2, [])

/-- one input message: pop the first expectation (if any), call the topic's partitioner, handle -/
def asyncSend {σ : Type} (P : Part σ) (fx : Bool) (cfg : ACfg) (s : PState σ) (m : Msg) :
    PState σ × List Outcome × List Report :=
  match s.exps with
  | [] => ({ exps := [], lastOffset := s.lastOffset, ps := s.ps, tc := s.tc }, [], [.noExpectation])
  | e :: rest =>
    ({ exps := rest,
       lastOffset := (asyncHandle fx cfg e m (choose P s.ps s.tc m).1 s.lastOffset).1,
       ps := upd s.ps m.topic (choose P s.ps s.tc m).2,
       tc := s.tc },
     (asyncHandle fx cfg e m (choose P s.ps s.tc m).1 s.lastOffset).2)

/-- leftover check after the input channel is closed (also `SyncProducer.Close`) -/
def closeReports {σ : Type} (s : PState σ) : List Report :=
  if s.exps.length > 0 then [.leftover s.exps.length] else []

def asyncOuts {σ : Type} (P : Part σ) (fx : Bool) (cfg : ACfg) : PState σ → List Msg → List (List Outcome × List Report)
  | _, [] => []
  | s, m :: ms => (asyncSend P fx cfg s m).2 :: asyncOuts P fx cfg (asyncSend P fx cfg s m).1 ms

def asyncFinal {σ : Type} (P : Part σ) (fx : Bool) (cfg : ACfg) : PState σ → List Msg → PState σ
  | s, [] => s
  | s, m :: ms => asyncFinal P fx cfg (asyncSend P fx cfg s m).1 ms

/-! ### sync producer -/

/-- what a `SendMessage` call shows: the three results and the message's fields afterwards -/
structure SyncOut where
  retPartition : Int
  retOffset : Int
  err : Option (ErrKind × Int)
  msgPartition : Int
  msgOffset : Int
  deriving DecidableEq, Repr

/-- body of `SendMessage` after the expectation `e` was popped; `off0` is `msg.Offset` before the call -/
def syncHandle (retChosen : Bool) (e : Exp) (m : Msg) (c : Except Int Int) (lo : Int) :
    Int × SyncOut × List Report :=
  match c with
  | .error pc => (lo, ⟨-1, -1, some (.partitioner, pc), m.part0, 0⟩, [.partitionerError pc])
  | .ok p =>
    match checkVerdict e m p with
    | some cc => (lo, ⟨-1, -1, some (.checker, cc), p, 0⟩, [.checkerFailed cc])
    | none =>
      match e.result with
      | none => (lo + 1, ⟨if retChosen then p else 0, lo + 1, none, p, lo + 1⟩, [])
      | some rc => (lo, ⟨-1, -1, some (.scripted, rc), p, 0⟩, [])

def syncSend {σ : Type} (P : Part σ) (rc : Bool) (s : PState σ) (m : Msg) : PState σ × SyncOut × List Report :=
  match s.exps with
  | [] => ({ exps := [], lastOffset := s.lastOffset, ps := s.ps, tc := s.tc },
           ⟨-1, -1, some (.outOfExpectations, 0), m.part0, 0⟩, [.noExpectation])
  | e :: rest =>
    ({ exps := rest,
       lastOffset := (syncHandle rc e m (choose P s.ps s.tc m).1 s.lastOffset).1,
       ps := upd s.ps m.topic (choose P s.ps s.tc m).2,
       tc := s.tc },
     (syncHandle rc e m (choose P s.ps s.tc m).1 s.lastOffset).2)

def syncOuts {σ : Type} (P : Part σ) (rc : Bool) : PState σ → List Msg → List (SyncOut × List Report)
  | _, [] => []
  | s, m :: ms => (syncSend P rc s m).2 :: syncOuts P rc (syncSend P rc s m).1 ms

def syncFinal {σ : Type} (P : Part σ) (rc : Bool) : PState σ → List Msg → PState σ
  | s, [] => s
  | s, m :: ms => syncFinal P rc (syncSend P rc s m).1 ms

/-- result of `SendMessages`: the returned error, `(msg.Partition, msg.Offset)` of every message afterwards -/
structure BatchOut where
  err : Option (ErrKind × Int)
  msgs : List (Int × Int)
  deriving DecidableEq, Repr

/-- the loop of `SendMessages` over the expectations taken for the batch: stops at the first message whose
    handling yields an error (the remaining messages are not touched). State: lastOffset, partitioners. -/
def batchLoop {σ : Type} (P : Part σ) (tc : TopicCfg) : Int → (Nat → σ) → List Exp → List Msg →
    (Int × (Nat → σ)) × BatchOut × List Report
  | lo, ps, e :: es, m :: ms =>
    match (syncHandle true e m (choose P ps tc m).1 lo).2.1.err with
    | some err =>
      ((lo, upd ps m.topic (choose P ps tc m).2),
       ⟨some err, ((syncHandle true e m (choose P ps tc m).1 lo).2.1.msgPartition, 0) :: ms.map (fun x => (x.part0, 0))⟩,
       (syncHandle true e m (choose P ps tc m).1 lo).2.2)
    | none =>
      ((batchLoop P tc (lo + 1) (upd ps m.topic (choose P ps tc m).2) es ms).1,
       ⟨(batchLoop P tc (lo + 1) (upd ps m.topic (choose P ps tc m).2) es ms).2.1.err,
        ((syncHandle true e m (choose P ps tc m).1 lo).2.1.msgPartition, lo + 1) ::
          (batchLoop P tc (lo + 1) (upd ps m.topic (choose P ps tc m).2) es ms).2.1.msgs⟩,
       (batchLoop P tc (lo + 1) (upd ps m.topic (choose P ps tc m).2) es ms).2.2)
  | lo, ps, _, _ => ((lo, ps), ⟨none, []⟩, [])

/-- `SendMessages`: all-or-nothing check of the number of expectations, then the loop -/
def syncSendBatch {σ : Type} (P : Part σ) (s : PState σ) (msgs : List Msg) : PState σ × BatchOut × List Report :=
  if s.exps.length ≥ msgs.length then
    ({ exps := s.exps.drop msgs.length,
       lastOffset := (batchLoop P s.tc s.lastOffset s.ps (s.exps.take msgs.length) msgs).1.1,
       ps := (batchLoop P s.tc s.lastOffset s.ps (s.exps.take msgs.length) msgs).1.2,
       tc := s.tc },
     (batchLoop P s.tc s.lastOffset s.ps (s.exps.take msgs.length) msgs).2)
  else
    (s, ⟨some (.outOfExpectations, 0), msgs.map (fun x => (x.part0, 0))⟩, [.insufficient])

/-! ### consumer -/

/-- `mocks.AnyOffset` -/
def anyOffset : Int := -1000

/-- `PartitionConsumer`: expected start offset, `highWaterMarkOffset`, the two buffered channels (offsets of the
    queued messages / codes of the queued errors), whether the channels are closed, the flags -/
structure PC where
  offset : Int
  hwm : Nat
  msgs : List Nat
  errs : List Int
  closed : Bool
  consumed : Bool
  errsDrained : Bool
  msgsDrained : Bool
  deriving DecidableEq, Repr

def PC.fresh (off : Int) : PC :=
  { offset := off, hwm := 0, msgs := [], errs := [], closed := false, consumed := false,
    errsDrained := false, msgsDrained := false }

inductive PcOp
  | yieldMsg | yieldErr (code : Int) | expectMsgsDrained | expectErrsDrained
  | consume (off : Int) | readMsg | readErr | close | asyncClose
  deriving DecidableEq, Repr

inductive PcOut
  | ok
  /-- send on a closed channel -/
  | panic
  /-- the buffered channel is full: the call would not return -/
  | block
  | msg (off : Nat) | err (code : Int)
  /-- nothing buffered (a receive would wait) -/
  | empty
  /-- receive on the closed, emptied channel -/
  | chanClosed
  | consumeOk | alreadyConsumed
  | closeRet (errs : List Int) | notStarted
  deriving DecidableEq, Repr

/-- `HighWaterMarkOffset()` -/
def PC.hwmAnswer (pc : PC) : Nat := pc.hwm + 1

def drainReports (k : Key) (pc : PC) : List Report :=
  (if pc.errsDrained ∧ pc.errs.length > 0 then [Report.errorsNotDrained k pc.errs.length] else []) ++
  (if pc.msgsDrained ∧ pc.msgs.length > 0 then [Report.messagesNotDrained k pc.msgs.length] else [])

/-- one call on a registered partition consumer (`buf` = `config.ChannelBufferSize`) -/
def pcStep (buf : Nat) (k : Key) (pc : PC) : PcOp → PC × PcOut × List Report
  | .yieldMsg =>
    if pc.closed then ({ pc with hwm := pc.hwm + 1 }, .panic, [])
    else if pc.msgs.length ≥ buf then (pc, .block, [])
    else ({ pc with hwm := pc.hwm + 1, msgs := pc.msgs ++ [pc.hwm + 1] }, .ok, [])
  | .yieldErr c =>
    if pc.closed then (pc, .panic, [])
    else if pc.errs.length ≥ buf then (pc, .block, [])
    else ({ pc with errs := pc.errs ++ [c] }, .ok, [])
  | .expectMsgsDrained => ({ pc with msgsDrained := true }, .ok, [])
  | .expectErrsDrained => ({ pc with errsDrained := true }, .ok, [])
  | .consume off =>
    if pc.consumed then (pc, .alreadyConsumed, [])
    else ({ pc with consumed := true }, .consumeOk,
          if pc.offset ≠ anyOffset ∧ pc.offset ≠ off then [.unexpectedOffset k pc.offset off] else [])
  | .readMsg =>
    match pc.msgs with
    | o :: rest => ({ pc with msgs := rest }, .msg o, [])
    | [] => (pc, if pc.closed then .chanClosed else .empty, [])
  | .readErr =>
    match pc.errs with
    | c :: rest => ({ pc with errs := rest }, .err c, [])
    | [] => (pc, if pc.closed then .chanClosed else .empty, [])
  | .close =>
    if pc.consumed then ({ pc with msgs := [], errs := [], closed := true }, .closeRet pc.errs, drainReports k pc)
    else (pc, .notStarted, [.notStarted k])
  | .asyncClose => ({ pc with closed := true }, .ok, [])

def pcFinal (buf : Nat) (k : Key) : PC → List PcOp → PC
  | pc, [] => pc
  | pc, op :: ops => pcFinal buf k (pcStep buf k pc op).1 ops

def pcOuts (buf : Nat) (k : Key) : PC → List PcOp → List (PcOut × List Report)
  | _, [] => []
  | pc, op :: ops => (pcStep buf k pc op).2 :: pcOuts buf k (pcStep buf k pc op).1 ops

/-- `Consumer`: registered partitions (in registration order), their partition consumers, the metadata -/
structure CState where
  keys : List Key
  pcs : Key → PC
  mdata : Option (List (Nat × List Int))

def CState.init : CState := { keys := [], pcs := fun _ => PC.fresh 0, mdata := none }

inductive COp
  | expect (k : Key) (off : Int)
  | pc (k : Key) (op : PcOp)
  | closeAll | hwms | topics | partitions (t : Nat)
  | setMeta (md : List (Nat × List Int))

inductive COut
  | ok
  /-- call through a handle that `ExpectConsumePartition` never returned -/
  | bad
  | pc (o : PcOut)
  | consumeNoExpectation
  | hwms (l : List (Key × Nat))
  | topics (l : List Nat)
  | partitions (l : List Int)
  | outOfBrokers | unknownTopic
  deriving DecidableEq, Repr

def updK (f : Key → PC) (k : Key) (v : PC) : Key → PC := fun x => if x = k then v else f x

def cStep (buf : Nat) (s : CState) : COp → CState × COut × List Report
  | .expect k off =>
    if k ∈ s.keys then (s, .ok, [])
    else ({ keys := s.keys ++ [k], pcs := updK s.pcs k (PC.fresh off), mdata := s.mdata }, .ok, [])
  | .pc k op =>
    if k ∈ s.keys then
      ({ keys := s.keys, pcs := updK s.pcs k (pcStep buf k (s.pcs k) op).1, mdata := s.mdata },
       .pc (pcStep buf k (s.pcs k) op).2.1, (pcStep buf k (s.pcs k) op).2.2)
    else
      match op with
      | .consume _ => (s, .consumeNoExpectation, [.noPartitionExpectation k])
      | _ => (s, .bad, [])
  | .closeAll =>
    ({ keys := s.keys, pcs := fun k => if k ∈ s.keys then (pcStep buf k (s.pcs k) .close).1 else s.pcs k, mdata := s.mdata },
     .ok, s.keys.flatMap (fun k => (pcStep buf k (s.pcs k) .close).2.2))
  | .hwms => (s, .hwms (s.keys.map (fun k => (k, (s.pcs k).hwmAnswer))), [])
  | .topics =>
    match s.mdata with
    | none => (s, .outOfBrokers, [.noMetadata])
    | some md => (s, .topics (md.map (·.1)), [])
  | .partitions t =>
    match s.mdata with
    | none => (s, .outOfBrokers, [.noMetadata])
    | some md =>
      match md.find? (fun x => x.1 = t) with
      | some x => (s, .partitions x.2, [])
      | none => (s, .unknownTopic, [])
  | .setMeta md => ({ keys := s.keys, pcs := s.pcs, mdata := some md }, .ok, [])

def cFinal (buf : Nat) : CState → List COp → CState
  | s, [] => s
  | s, op :: ops => cFinal buf (cStep buf s op).1 ops

def cOuts (buf : Nat) : CState → List COp → List (COut × List Report)
  | _, [] => []
  | s, op :: ops => (cStep buf s op).2 :: cOuts buf (cStep buf s op).1 ops

/-! ### the partitioners sarama ships, as `Part` instances (used by the driver and the examples) -/

/-- `NewManualPartitioner` -/
def manualPart : Part Unit := { init := fun _ => (), step := fun _ m _ => (.ok m.part0, ()) }
/-- `NewHashPartitioner` on a keyed message whose key hashes (FNV-1a, uint32) to `m.key` -/
def hashPart : Part Unit :=
  { init := fun _ => (), step := fun _ m n => (.ok (Model.Partitioner.hashChoice false m.key n), ()) }
/-- `NewRoundRobinPartitioner` -/
def rrPart : Part Int :=
  { init := fun _ => 0,
    step := fun p _ n => (.ok (Model.Partitioner.rrStep p n).1, (Model.Partitioner.rrStep p n).2) }
/-- custom partitioners of the harness: constant error, echo of numPartitions, constant choice, and a mix
    (error `key` when `key` is a multiple of 5, else `key - 2`) -/
def errPart (code : Int) : Part Unit := { init := fun _ => (), step := fun _ _ _ => (.error code, ()) }
def echoPart : Part Unit := { init := fun _ => (), step := fun _ _ n => (.ok n, ()) }
def fixPart (c : Int) : Part Unit := { init := fun _ => (), step := fun _ _ _ => (.ok c, ()) }
def mixPart : Part Unit :=
  { init := fun _ => (), step := fun _ m _ => (if m.key % 5 = 0 then .error m.key else .ok (m.key - 2), ()) }

end Model.Mocks
