import SaramaVerif.Model.CodecMachine
import SaramaVerif.Model.CodecRecords
/-
  Hand-written schemas (`Fmt`) of a selection of real protocol bodies, all versions each, and the parser that
  reads the call sequence recorded from the real `encode` back into a value tree of the schema.

  The harness sends `schema <Body> <version> <calls…>`; the driver parses the calls against the schema (a call
  sequence that does not fit – e.g. a version gate that differs from the code – is a mismatch), and answers with
  `size`, `enc` and the verdict of `dec (enc v) = v` from the schema interpreters the theorems are about.
  So for these bodies the real bytes are compared with the *denotational* model, for every version.
-/
namespace Model.Codec

def seqL : List Fmt → Fmt
  | [] => .unit
  | [f] => f
  | f :: fs => .seq f (seqL fs)

/-- same put/get pair (raw lengths come from the value) -/
def Prim.sameKind : Prim → Prim → Bool
  | .raw _, .raw _ => true
  | p, q => p == q

def parseCount : Count → List Tok → Option (Option Nat × List Tok)
  | .i32, .arrLen n :: ts => if n < 0 then none else some (some n.toNat, ts)
  | .i32null, .arrLen n :: ts => if n = -1 then some (none, ts) else if n < 0 then none else some (some n.toNat, ts)
  | .i32null, .prim .i32 (.int n) :: ts => if n = -1 then some (none, ts) else none   -- `putInt32(-1)`
  | .compact, .cArrLen n :: ts => if n < 0 then none else some (some n.toNat, ts)
  | .varint, .prim .varint (.int n) :: ts => if n < 0 then none else some (some n.toNat, ts)
  | _, _ => none

def parseMany (p : List Tok → Option (Val × List Tok)) : Nat → List Tok → Option (List Val × List Tok)
  | 0, ts => some ([], ts)
  | n + 1, ts =>
    match p ts with
    | none => none
    | some (v, r) =>
      match parseMany p n r with
      | none => none
      | some (vs, r') => some (v :: vs, r')

/-- inverse of `toks`: read a recorded call sequence as a value of the schema -/
def parseToks : Fmt → Nat → List Tok → Option (Val × List Tok)
  | .prim p, _, ts =>
    (match ts with
     | .prim q v :: r => if p.sameKind q then some (v, r) else none
     | _ => none)
  | .unit, _, ts => some (.unit, ts)
  | .seq a b, ver, ts =>
    (match parseToks a ver ts with
     | none => none
     | some (x, r) =>
       match parseToks b ver r with
       | none => none
       | some (y, r') => some (.pair x y, r'))
  | .ite lo hi a b, ver, ts => if lo ≤ ver ∧ ver ≤ hi then parseToks a ver ts else parseToks b ver ts
  | .arr c e, ver, ts =>
    (match parseCount c ts with
     | none => none
     | some (none, r) => some (.null, r)
     | some (some n, r) =>
       match parseMany (parseToks e ver) n r with
       | none => none
       | some (vs, r') => some (.list vs, r'))
  | .len32 f, ver, ts =>
    (match ts with
     | .push .len32 _ :: r =>
       (match parseToks f ver r with
        | some (v, .pop :: r') => some (v, r')
        | _ => none)
     | _ => none)
  | .varlen f, ver, ts =>
    (match ts with
     | .push .varlen _ :: r =>
       (match parseToks f ver r with
        | some (v, .pop :: r') => some (v, r')
        | _ => none)
     | _ => none)
  | .crc p f, ver, ts =>
    (match ts with
     | .push (.crc q) _ :: r =>
       if p = q then
         (match parseToks f ver r with
          | some (v, .pop :: r') => some (v, r')
          | _ => none)
       else none
     | _ => none)

private def p (x : Prim) : Fmt := .prim x
private def flex (a b : Fmt) : Fmt := .ite 6 1000000 a b

/-- schemas of real bodies, by name -/
def bodySchema : String → Option Fmt
  | "HeartbeatRequest" => some (seqL [p .str, p .i32, p .str])
  | "HeartbeatResponse" => some (p .i16)
  | "MetadataRequest" =>
    some (seqL [.ite 0 0 (.arr .i32 (p .str)) (.arr .i32null (p .str)), Fmt.gate 4 (p .bool)])
  | "FindCoordinatorRequest" => some (seqL [p .str, Fmt.gate 1 (p .i8)])
  | "FindCoordinatorResponse" =>
    some (seqL [Fmt.gate 1 (p .i32), p .i16, Fmt.gate 1 (p .nstr), p .i32, p .str, p .i32])
  | "InitProducerIDRequest" => some (seqL [p .nstr, p .i32])
  | "InitProducerIDResponse" => some (seqL [p .i32, p .i16, p .i64, p .i16])
  | "OffsetCommitResponse" =>
    some (seqL [Fmt.gate 3 (p .i32), .arr .i32 (seqL [p .str, .arr .i32 (seqL [p .i32, p .i16])])])
  | "ApiVersionsResponse" => some (seqL [p .i16, .arr .i32 (seqL [p .i16, p .i16, p .i16])])
  | "ProduceResponse" =>
    some (seqL [.arr .i32 (seqL [p .str, .arr .i32 (seqL [p .i32, p .i16, p .i64, Fmt.gate 2 (p .i64), Fmt.gate 5 (p .i64)])]),
                Fmt.gate 1 (p .i32)])
  | "DeleteTopicsRequest" => some (seqL [p .strarr, p .i32])
  | "DeleteTopicsResponse" => some (seqL [Fmt.gate 1 (p .i32), .arr .i32 (seqL [p .str, p .i16])])
  | "EndTxnRequest" => some (seqL [p .str, p .i64, p .i16, p .bool])
  | "EndTxnResponse" => some (seqL [p .i32, p .i16])
  | "TxnOffsetCommitResponse" =>
    some (seqL [p .i32, .arr .i32 (seqL [p .str, .arr .i32 (seqL [p .i32, p .i16])])])
  | "CreatePartitionsResponse" => some (seqL [p .i32, .arr .i32 (seqL [p .str, p .i16, p .nstr])])
  | "ListGroupsResponse" => some (seqL [p .i16, .arr .i32 (seqL [p .str, p .str])])
  | "LeaveGroupRequest" => some (seqL [p .str, p .str])
  | "LeaveGroupResponse" => some (p .i16)
  | "SyncGroupResponse" => some (seqL [p .i16, p .bytes])
  | "OffsetRequest" =>
    some (seqL [p .i32, Fmt.gate 2 (p .bool),
                .arr .i32 (seqL [p .str, .arr .i32 (seqL [p .i32, p .i64, .ite 0 0 (p .i32) .unit])])])
  | "AddPartitionsToTxnRequest" => some (seqL [p .str, p .i64, p .i16, .arr .i32 (seqL [p .str, p .i32arr])])
  | "AddOffsetsToTxnRequest" => some (seqL [p .str, p .i64, p .i16, p .str])
  | "AddOffsetsToTxnResponse" => some (seqL [p .i32, p .i16])
  | "DescribeGroupsRequest" => some (p .strarr)
  | "SaslHandshakeRequest" => some (p .str)
  | "SaslHandshakeResponse" => some (seqL [p .i16, p .strarr])
  | "SaslAuthenticateRequest" => some (p .bytes)
  | "SaslAuthenticateResponse" => some (seqL [p .i16, p .nstr, p .bytes])
  | "DeleteGroupsRequest" => some (p .strarr)
  | "DeleteGroupsResponse" => some (seqL [p .i32, .arr .i32 (seqL [p .str, p .i16])])
  | "CreateTopicsResponse" =>
    some (seqL [Fmt.gate 2 (p .i32), .arr .i32 (seqL [p .str, p .i16, Fmt.gate 1 (p .nstr)])])
  | "JoinGroupResponse" =>
    some (seqL [Fmt.gate 2 (p .i32), p .i16, p .i32, p .str, p .str, p .str, .arr .i32 (seqL [p .str, p .bytes])])
  | "OffsetFetchResponse" =>
    some (seqL [Fmt.gate 3 (p .i32),
      flex (.arr .compact (seqL [p .cstr, .arr .compact (seqL [p .i32, p .i64, p .i32, p .cstr, p .i16, p .tagged]), p .tagged]))
           (.arr .i32 (seqL [p .str, .arr .i32 (seqL [p .i32, p .i64, Fmt.gate 5 (p .i32), p .str, p .i16])])),
      Fmt.gate 2 (p .i16), flex (p .tagged) .unit])
  | "AlterPartitionReassignmentsRequest" =>
    some (seqL [p .i32, .arr .compact (seqL [p .cstr, .arr .compact (seqL [p .i32, p .nci32arr, p .tagged]), p .tagged]),
                p .tagged])
  | "ListPartitionReassignmentsRequest" =>
    some (seqL [p .i32, .arr .compact (seqL [p .cstr, p .ci32arr, p .tagged]), p .tagged])
  | "MetadataResponse" =>
    some (seqL [Fmt.gate 3 (p .i32),
      .arr .i32 (seqL [p .i32, p .str, p .i32, Fmt.gate 1 (p .nstr)]),
      Fmt.gate 2 (p .nstr), Fmt.gate 1 (p .i32),
      .arr .i32 (seqL [p .i16, p .str, Fmt.gate 1 (p .bool),
        .arr .i32 (seqL [p .i16, p .i32, p .i32, p .i32arr, p .i32arr, Fmt.gate 5 (p .i32arr)])])])
  | "OffsetCommitRequest" =>
    some (seqL [p .str, Fmt.gate 1 (seqL [p .i32, p .str]), Fmt.gate 2 (p .i64),
      .arr .i32 (seqL [p .str, .arr .i32 (seqL [p .i32, p .i64, .ite 1 1 (p .i64) .unit, p .str])])])
  | "FetchRequest" =>
    some (seqL [p .i32, p .i32, p .i32, Fmt.gate 3 (p .i32), Fmt.gate 4 (p .i8), Fmt.gate 7 (seqL [p .i32, p .i32]),
      .arr .i32 (seqL [p .str, .arr .i32 (seqL [p .i32, Fmt.gate 9 (p .i32), p .i64, Fmt.gate 5 (p .i64), p .i32])]),
      Fmt.gate 7 (.arr .i32 (seqL [p .str, .arr .i32 (p .i32)])), Fmt.gate 11 (p .str)])
  | "Record" => some recordFmt
  | _ => none

end Model.Codec
