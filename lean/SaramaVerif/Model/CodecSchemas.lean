import SaramaVerif.Model.CodecMachine
import SaramaVerif.Model.CodecRecords
/-
  Hand-written schemas (`Fmt`) of a selection of real protocol bodies, all versions each, and the parser that
  reads the call sequence recorded from the real `encode` back into a value tree of the schema.

  The harness sends `schema <Body> <version> <calls…>`; the driver parses the calls against the schema (a call
  sequence that does not fit – e.g. a version gate that differs from the code – is a mismatch), and answers with
  `size`, `enc` and the verdict of `dec (enc v) = v` from the schema interpreters the theorems are about.
  So for these bodies the real bytes are compared with the *denotational* model, for every version.
-/
namespace Model.Codec

def seqL : List Fmt → Fmt
  | [] => .unit
  | [f] => f
  | f :: fs => .seq f (seqL fs)

/-- same put/get pair (raw lengths come from the value) -/
def Prim.sameKind : Prim → Prim → Bool
  | .raw _, .raw _ => true
  | p, q => p == q

def parseCount : Count → List Tok → Option (Option Nat × List Tok)
  | .i32, .arrLen n :: ts => if n < 0 then none else some (some n.toNat, ts)
  | .i32null, .arrLen n :: ts => if n = -1 then some (none, ts) else if n < 0 then none else some (some n.toNat, ts)
  | .i32null, .prim .i32 (.int n) :: ts => if n = -1 then some (none, ts) else none   -- `putInt32(-1)`
  | .compact, .cArrLen n :: ts => if n < 0 then none else some (some n.toNat, ts)
  | .varint, .prim .varint (.int n) :: ts => if n < 0 then none else some (some n.toNat, ts)
  | _, _ => none

def parseMany (p : List Tok → Option (Val × List Tok)) : Nat → List Tok → Option (List Val × List Tok)
  | 0, ts => some ([], ts)
  | n + 1, ts =>
    match p ts with
    | none => none
    | some (v, r) =>
      match parseMany p n r with
      | none => none
      | some (vs, r') => some (v :: vs, r')

/-- inverse of `toks`: read a recorded call sequence as a value of the schema -/
def parseToks : Fmt → Nat → List Tok → Option (Val × List Tok)
  | .prim p, _, ts =>
    (match ts with
     | .prim q v :: r => if p.sameKind q then some (v, r) else none
     | _ => none)
  | .unit, _, ts => some (.unit, ts)
  | .seq a b, ver, ts =>
    (match parseToks a ver ts with
     | none => none
     | some (x, r) =>
       match parseToks b ver r with
       | none => none
       | some (y, r') => some (.pair x y, r'))
  | .ite lo hi a b, ver, ts => if lo ≤ ver ∧ ver ≤ hi then parseToks a ver ts else parseToks b ver ts
  | .arr c e, ver, ts =>
    (match parseCount c ts with
     | none =>
       -- one putStringArray call writes what an int32 count followed by putString calls writes
       (match c, e, ts with
        | .i32, .prim .str, .prim .strarr (.list vs) :: r => some (.list vs, r)
        | .i32null, .prim .str, .prim .strarr (.list vs) :: r => some (.list vs, r)
        | _, _, _ => none)
     | some (none, r) => some (.null, r)
     | some (some n, r) =>
       match parseMany (parseToks e ver) n r with
       | none => none
       | some (vs, r') => some (.list vs, r'))
  | .len32 f, ver, ts =>
    (match ts with
     | .push .len32 _ :: r =>
       (match parseToks f ver r with
        | some (v, .pop :: r') => some (v, r')
        | _ => none)
     | _ => none)
  | .varlen f, ver, ts =>
    (match ts with
     | .push .varlen _ :: r =>
       (match parseToks f ver r with
        | some (v, .pop :: r') => some (v, r')
        | _ => none)
     | _ => none)
  | .crc p f, ver, ts =>
    (match ts with
     | .push (.crc q) _ :: r =>
       if p = q then
         (match parseToks f ver r with
          | some (v, .pop :: r') => some (v, r')
          | _ => none)
       else none
     | _ => none)

private def p (x : Prim) : Fmt := .prim x
private def flex (a b : Fmt) : Fmt := .ite 6 1000000 a b

/-- schemas of real bodies, by name -/
def bodySchema : String → Option Fmt
  | "HeartbeatRequest" => some (seqL [p .str, p .i32, p .str])
  | "HeartbeatResponse" => some (p .i16)
  | "MetadataRequest" =>
    some (seqL [.ite 0 0 (.arr .i32 (p .str)) (.arr .i32null (p .str)), Fmt.gate 4 (p .bool)])
  | "FindCoordinatorRequest" => some (seqL [p .str, Fmt.gate 1 (p .i8)])
  | "FindCoordinatorResponse" =>
    some (seqL [Fmt.gate 1 (p .i32), p .i16, Fmt.gate 1 (p .nstr), p .i32, p .str, p .i32])
  | "InitProducerIDRequest" => some (seqL [p .nstr, p .i32])
  | "InitProducerIDResponse" => some (seqL [p .i32, p .i16, p .i64, p .i16])
  | "OffsetCommitResponse" =>
    some (seqL [Fmt.gate 3 (p .i32), .arr .i32 (seqL [p .str, .arr .i32 (seqL [p .i32, p .i16])])])
  | "ApiVersionsResponse" => some (seqL [p .i16, .arr .i32 (seqL [p .i16, p .i16, p .i16])])
  | "ProduceResponse" =>
    some (seqL [.arr .i32 (seqL [p .str, .arr .i32 (seqL [p .i32, p .i16, p .i64, Fmt.gate 2 (p .i64), Fmt.gate 5 (p .i64)])]),
                Fmt.gate 1 (p .i32)])
  | "DeleteTopicsRequest" => some (seqL [p .strarr, p .i32])
  | "DeleteTopicsResponse" => some (seqL [Fmt.gate 1 (p .i32), .arr .i32 (seqL [p .str, p .i16])])
  | "EndTxnRequest" => some (seqL [p .str, p .i64, p .i16, p .bool])
  | "EndTxnResponse" => some (seqL [p .i32, p .i16])
  | "TxnOffsetCommitResponse" =>
    some (seqL [p .i32, .arr .i32 (seqL [p .str, .arr .i32 (seqL [p .i32, p .i16])])])
  | "CreatePartitionsResponse" => some (seqL [p .i32, .arr .i32 (seqL [p .str, p .i16, p .nstr])])
  | "ListGroupsResponse" => some (seqL [p .i16, .arr .i32 (seqL [p .str, p .str])])
  | "LeaveGroupRequest" => some (seqL [p .str, p .str])
  | "LeaveGroupResponse" => some (p .i16)
  | "SyncGroupResponse" => some (seqL [p .i16, p .bytes])
  | "OffsetRequest" =>
    some (seqL [p .i32, Fmt.gate 2 (p .bool),
                .arr .i32 (seqL [p .str, .arr .i32 (seqL [p .i32, p .i64, .ite 0 0 (p .i32) .unit])])])
  | "AddPartitionsToTxnRequest" => some (seqL [p .str, p .i64, p .i16, .arr .i32 (seqL [p .str, p .i32arr])])
  | "AddOffsetsToTxnRequest" => some (seqL [p .str, p .i64, p .i16, p .str])
  | "AddOffsetsToTxnResponse" => some (seqL [p .i32, p .i16])
  | "DescribeGroupsRequest" => some (p .strarr)
  | "SaslHandshakeRequest" => some (p .str)
  | "SaslHandshakeResponse" => some (seqL [p .i16, p .strarr])
  | "SaslAuthenticateRequest" => some (p .bytes)
  | "SaslAuthenticateResponse" => some (seqL [p .i16, p .nstr, p .bytes])
  | "DeleteGroupsRequest" => some (p .strarr)
  | "DeleteGroupsResponse" => some (seqL [p .i32, .arr .i32 (seqL [p .str, p .i16])])
  | "CreateTopicsResponse" =>
    some (seqL [Fmt.gate 2 (p .i32), .arr .i32 (seqL [p .str, p .i16, Fmt.gate 1 (p .nstr)])])
  | "JoinGroupResponse" =>
    some (seqL [Fmt.gate 2 (p .i32), p .i16, p .i32, p .str, p .str, p .str, .arr .i32 (seqL [p .str, p .bytes])])
  | "OffsetFetchResponse" =>
    some (seqL [Fmt.gate 3 (p .i32),
      flex (.arr .compact (seqL [p .cstr, .arr .compact (seqL [p .i32, p .i64, p .i32, p .cstr, p .i16, p .tagged]), p .tagged]))
           (.arr .i32 (seqL [p .str, .arr .i32 (seqL [p .i32, p .i64, Fmt.gate 5 (p .i32), p .str, p .i16])])),
      Fmt.gate 2 (p .i16), flex (p .tagged) .unit])
  | "AlterPartitionReassignmentsRequest" =>
    some (seqL [p .i32, .arr .compact (seqL [p .cstr, .arr .compact (seqL [p .i32, p .nci32arr, p .tagged]), p .tagged]),
                p .tagged])
  | "ListPartitionReassignmentsRequest" =>
    some (seqL [p .i32, .arr .compact (seqL [p .cstr, p .ci32arr, p .tagged]), p .tagged])
  | "MetadataResponse" =>
    some (seqL [Fmt.gate 3 (p .i32),
      .arr .i32 (seqL [p .i32, p .str, p .i32, Fmt.gate 1 (p .nstr)]),
      Fmt.gate 2 (p .nstr), Fmt.gate 1 (p .i32),
      .arr .i32 (seqL [p .i16, p .str, Fmt.gate 1 (p .bool),
        .arr .i32 (seqL [p .i16, p .i32, p .i32, p .i32arr, p .i32arr, Fmt.gate 5 (p .i32arr)])])])
  | "OffsetCommitRequest" =>
    some (seqL [p .str, Fmt.gate 1 (seqL [p .i32, p .str]), Fmt.gate 2 (p .i64),
      .arr .i32 (seqL [p .str, .arr .i32 (seqL [p .i32, p .i64, .ite 1 1 (p .i64) .unit, p .str])])])
  | "FetchRequest" =>
    some (seqL [p .i32, p .i32, p .i32, Fmt.gate 3 (p .i32), Fmt.gate 4 (p .i8), Fmt.gate 7 (seqL [p .i32, p .i32]),
      .arr .i32 (seqL [p .str, .arr .i32 (seqL [p .i32, Fmt.gate 9 (p .i32), p .i64, Fmt.gate 5 (p .i64), p .i32])]),
      Fmt.gate 7 (.arr .i32 (seqL [p .str, .arr .i32 (p .i32)])), Fmt.gate 11 (p .str)])
  | "OffsetResponse" =>
    some (seqL [Fmt.gate 2 (p .i32),
      .arr .i32 (seqL [p .str, .arr .i32 (seqL [p .i32, p .i16, .ite 0 0 (p .i64arr) (seqL [p .i64, p .i64])])])])
  | "OffsetFetchRequest" =>
    some (seqL [flex (p .cstr) (p .str),
      flex (.arr .compact (seqL [p .cstr, p .ci32arr, p .tagged]))
           (.ite 2 5 (.arr .i32null (seqL [p .str, p .i32arr])) (.arr .i32 (seqL [p .str, p .i32arr]))),
      Fmt.gate 7 (p .bool), flex (p .tagged) .unit])
  | "ConsumerMetadataRequest" => some (p .str)
  | "ConsumerMetadataResponse" => some (seqL [p .i16, p .i32, p .str, p .i32])
  | "JoinGroupRequest" =>
    some (seqL [p .str, p .i32, Fmt.gate 1 (p .i32), p .str, p .str, .arr .i32 (seqL [p .str, p .bytes])])
  | "SyncGroupRequest" => some (seqL [p .str, p .i32, p .str, .arr .i32 (seqL [p .str, p .bytes])])
  | "DescribeGroupsResponse" =>
    some (.arr .i32 (seqL [p .i16, p .str, p .str, p .str, p .str,
      .arr .i32 (seqL [p .str, p .str, p .str, p .bytes, p .bytes])]))
  | "ListGroupsRequest" => some .unit
  | "ApiVersionsRequest" => some .unit
  | "CreateTopicsRequest" =>
    some (seqL [.arr .i32 (seqL [p .str, p .i32, p .i16, .arr .i32 (seqL [p .i32, p .i32arr]),
                                 .arr .i32 (seqL [p .str, p .nstr])]),
                p .i32, Fmt.gate 1 (p .bool)])
  | "DeleteRecordsRequest" => some (seqL [.arr .i32 (seqL [p .str, .arr .i32 (seqL [p .i32, p .i64])]), p .i32])
  | "DeleteRecordsResponse" =>
    some (seqL [p .i32, .arr .i32 (seqL [p .str, .arr .i32 (seqL [p .i32, p .i64, p .i16])])])
  | "AddPartitionsToTxnResponse" =>
    some (seqL [p .i32, .arr .i32 (seqL [p .str, .arr .i32 (seqL [p .i32, p .i16])])])
  | "TxnOffsetCommitRequest" =>
    some (seqL [p .str, p .str, p .i64, p .i16, .arr .i32 (seqL [p .str, .arr .i32 (seqL [p .i32, p .i64, p .nstr])])])
  | "DescribeAclsRequest" =>
    some (seqL [p .i8, p .nstr, Fmt.gate 1 (p .i8), p .nstr, p .nstr, p .i8, p .i8])
  | "DescribeAclsResponse" =>
    some (seqL [p .i32, p .i16, p .nstr,
      .arr .i32 (seqL [p .i8, p .str, Fmt.gate 1 (p .i8), .arr .i32 (seqL [p .str, p .str, p .i8, p .i8])])])
  | "CreateAclsRequest" =>
    some (.arr .i32 (seqL [p .i8, p .str, Fmt.gate 1 (p .i8), p .str, p .str, p .i8, p .i8]))
  | "CreateAclsResponse" => some (seqL [p .i32, .arr .i32 (seqL [p .i16, p .nstr])])
  | "DeleteAclsRequest" =>
    some (.arr .i32 (seqL [p .i8, p .nstr, Fmt.gate 1 (p .i8), p .nstr, p .nstr, p .i8, p .i8]))
  | "DeleteAclsResponse" =>
    some (seqL [p .i32, .arr .i32 (seqL [p .i16, p .nstr,
      .arr .i32 (seqL [p .i16, p .nstr, p .i8, p .str, Fmt.gate 1 (p .i8), p .str, p .str, p .i8, p .i8])])])
  | "AlterConfigsRequest" =>
    some (seqL [.arr .i32 (seqL [p .i8, p .str, .arr .i32 (seqL [p .str, p .nstr])]), p .bool])
  | "AlterConfigsResponse" => some (seqL [p .i32, .arr .i32 (seqL [p .i16, p .str, p .i8, p .str])])
  | "IncrementalAlterConfigsRequest" =>
    some (seqL [.arr .i32 (seqL [p .i8, p .str, .arr .i32 (seqL [p .str, p .i8, p .nstr])]), p .bool])
  | "IncrementalAlterConfigsResponse" => some (seqL [p .i32, .arr .i32 (seqL [p .i16, p .str, p .i8, p .str])])
  | "DescribeConfigsRequest" =>
    some (seqL [.arr .i32 (seqL [p .i8, p .str, .arr .i32null (p .str)]), Fmt.gate 1 (p .bool)])
  | "DescribeConfigsResponse" =>
    some (seqL [p .i32, .arr .i32 (seqL [p .i16, p .str, p .i8, p .str,
      .arr .i32 (seqL [p .str, p .str, p .bool, .ite 0 0 (p .bool) (p .i8), p .bool,
                       Fmt.gate 1 (.arr .i32 (seqL [p .str, p .str, p .i8]))])])])
  | "DescribeLogDirsRequest" => some (.arr .i32null (seqL [p .str, p .i32arr]))
  | "DescribeLogDirsResponse" =>
    some (seqL [p .i32, .arr .i32 (seqL [p .i16, p .str,
      .arr .i32 (seqL [p .str, .arr .i32 (seqL [p .i32, p .i64, p .i64, p .bool])])])])
  | "AlterPartitionReassignmentsResponse" =>
    some (seqL [p .i32, p .i16, p .ncstr,
      .arr .compact (seqL [p .cstr, .arr .compact (seqL [p .i32, p .i16, p .ncstr, p .tagged]), p .tagged]), p .tagged])
  | "ListPartitionReassignmentsResponse" =>
    some (seqL [p .i32, p .i16, p .ncstr,
      .arr .compact (seqL [p .cstr, .arr .compact (seqL [p .i32, p .ci32arr, p .ci32arr, p .ci32arr, p .tagged]), p .tagged]),
      p .tagged])
  | "DescribeUserScramCredentialsRequest" => some (seqL [.arr .compact (seqL [p .cstr, p .tagged]), p .tagged])
  | "DescribeUserScramCredentialsResponse" =>
    some (seqL [p .i32, p .i16, p .ncstr,
      .arr .compact (seqL [p .cstr, p .i16, p .ncstr, .arr .compact (seqL [p .i8, p .i32, p .tagged]), p .tagged]), p .tagged])
  | "AlterUserScramCredentialsRequest" =>
    some (seqL [.arr .compact (seqL [p .cstr, p .i8, p .tagged]),
                .arr .compact (seqL [p .cstr, p .i8, p .i32, p .cbytes, p .cbytes, p .tagged]), p .tagged])
  | "AlterUserScramCredentialsResponse" =>
    some (seqL [p .i32, .arr .compact (seqL [p .cstr, p .i16, p .ncstr, p .tagged]), p .tagged])
  | "ConsumerGroupMemberAssignment" => some (seqL [p .i16, .arr .i32 (seqL [p .str, p .i32arr]), p .bytes])
  | "CreatePartitionsRequest" =>
    some (seqL [.arr .i32 (seqL [p .str, p .i32, .arr .i32null (p .i32arr)]), p .i32, p .bool])
  | "ConsumerGroupMemberMetadata" => some (seqL [p .i16, p .strarr, p .bytes])
  | "Record" => some recordFmt
  | _ => none

end Model.Codec
