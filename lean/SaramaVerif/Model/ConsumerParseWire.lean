import SaramaVerif.Driver.Util
import SaramaVerif.Model.ConsumerParse
/-
  Text protocol of the consumer-parse model (shared by the C03 and C11 drivers).

    reset <rc> <tsFromWrapper> <fetchDefault> <fetchMax> <offset> <fetchSize>
    resp T | resp M | resp E<code> | resp D <partial> <aborted> <entry>*
    start <offset> <newest> <oldest>

  entry  = B;base;lastDelta;control;ctl;txn;pid;logAppend;firstTs;maxTs;recs     recs = - | rec('|'rec)*
           rec = delta:key:value:headers:tsDelta
         | L;blk('|'blk)*      blk = off,ver,logAppend,ts,key,value,inner    inner = N | E | m('/'m)*
           m = off.ver.logAppend.ts.key.value
  aborted = - | pid:first(','pid:first)*
-/
namespace Model.ConsumerParse.Wire
open Model.ConsumerParse Driver

def parseRec (s : String) : Option Rec :=
  match s.splitOn ":" with
  | [d, k, v, h, t] => some ⟨int! d, k, v, h, int! t⟩
  | _ => none

def parseCtl : String → Option Ctl
  | "a" => some .abort | "c" => some .commit | "u" => some .unknown | "m" => some .malformed
  | "n" => some .unknown | _ => none

def parseBatch (f : List String) : Option Batch :=
  match f with
  | [base, ld, control, ctl, txn, pid, la, fts, mts, recs] => do
      let rs ← if recs = "-" then some [] else (recs.splitOn "|").mapM parseRec
      let c ← parseCtl ctl
      some ⟨int! base, int! ld, rs, control = "1", c, txn = "1", int! pid, la = "1", int! fts, int! mts⟩
  | _ => none

def parseLMsg (s : String) : Option LMsg :=
  match s.splitOn "." with
  | [o, v, la, ts, k, val] => some ⟨int! o, int! v, la = "1", int! ts, k, val⟩
  | _ => none

def parseLBlock (s : String) : Option LBlock :=
  match s.splitOn "," with
  | [o, v, la, ts, k, val, inner] => do
      let i ← if inner = "N" then some none
              else if inner = "E" then some (some [])
              else (inner.splitOn "/").mapM parseLMsg |>.map some
      some ⟨int! o, int! v, la = "1", int! ts, k, val, i⟩
  | _ => none

def parseEntry (s : String) : Option Entry :=
  match s.splitOn ";" with
  | "B" :: f => (parseBatch f).map .batch
  | ["L", blks] => ((blks.splitOn "|").mapM parseLBlock).map .legacy
  | _ => none

def parseAborted (s : String) : Option (List (Int × Int)) :=
  if s = "-" then some [] else
  (s.splitOn ",").mapM (fun t => match t.splitOn ":" with
    | [p, f] => some (int! p, int! f) | _ => none)

def parseBlockTok : List String → Option Block
  | ["T"] => some .throttled
  | ["M"] => some .missing
  | "D" :: p :: ab :: es => do
      let a ← parseAborted ab
      let entries ← es.mapM parseEntry
      some (.data entries (p = "1") a)
  | [e] => if e.startsWith "E" then some (.err (int! (e.drop 1).toString)) else none
  | _ => none

def showMsg (m : SRec) : String := s!"{m.off}:{m.key}:{m.value}:{m.headers}:{m.ts}"

def showVerdict : Verdict → String
  | .ok => "ok" | .tooLarge => "toolarge" | .incomplete => "incomplete"
  | .kerr c => s!"kerr {c}" | .ctlErr => "ctlerr"

structure DState where
  cfg : Cfg
  st : PState

def DState.init : DState := ⟨⟨0, 0, false, false⟩, ⟨0, 0⟩⟩

/-- tokens starting with `#` carry implementation-side details (codecs, cut position, reserved attribute bits of a
    batch on the wire `#attrs=…`, …) and are skipped: reserved attribute bits are ignored, a batch parses as if
    they were absent -/
def step (s : DState) (t : List String) : DState × String :=
  match t.filter (fun x => !x.startsWith "#") with
  | ["reset", rc, tsw, fd, fm, off, fs] =>
      (⟨⟨int! fd, int! fm, rc = "1", tsw = "1"⟩, ⟨int! off, int! fs⟩⟩, "ok")
  | "resp" :: rest =>
      match parseBlockTok rest with
      | none => (s, "bad-op")
      | some b =>
        let r := parseBlock s.cfg s.st b
        (⟨s.cfg, r.2.1⟩,
         s!"{showVerdict r.2.2} off={r.2.1.offset} fs={r.2.1.fetchSize} |" ++
           String.join (r.1.map (fun m => " " ++ showMsg m)))
  | ["start", o, n, old] =>
      (s, match chooseStart (int! o) (int! n) (int! old) with
          | some x => s!"ok {x}" | none => "out-of-range")
  | _ => (s, "bad-op")

end Model.ConsumerParse.Wire
