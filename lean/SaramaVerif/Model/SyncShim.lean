/-
  Model of sync_producer.go: SendMessage / SendMessages give every message its own one-slot expectation channel,
  hand the message to the async producer, and read that slot; handleSuccesses / handleErrors write the terminal event
  of a message into the slot of THAT message (`msg.expectation`).  SendMessages creates the slots in message order and
  reads them in the same order.
-/
namespace Model.SyncShim

inductive Outcome
  | ok
  | err (code : Int)
  deriving Repr, DecidableEq

inductive Ev
  | submit (id : Int)                -- expectation slot created for the message, message sent to Input()
  | event (id : Int) (o : Outcome)   -- the async producer's terminal event for the message reaches handleSuccesses/handleErrors
  | read (id : Int)                  -- SendMessage(s) takes the value out of the message's slot
  deriving Repr, DecidableEq

structure St where
  slots   : List (Int × Option Outcome) := []   -- message ↦ its one-slot channel (none = empty)
  returns : List (Int × Outcome) := []          -- what SendMessage(s) reported, newest first
  events  : List (Int × Outcome) := []          -- terminal events seen, newest first
  deriving Repr

def slotOfL (l : List (Int × Option Outcome)) (id : Int) : Option (Option Outcome) :=
  match l.find? (fun x => x.1 = id) with
  | some x => some x.2
  | none => none

def slotOf (s : St) (id : Int) : Option (Option Outcome) := slotOfL s.slots id

def setSlotL (l : List (Int × Option Outcome)) (id : Int) (v : Option Outcome) : List (Int × Option Outcome) :=
  (id, v) :: l.filter (fun x => x.1 ≠ id)

def setSlot (s : St) (id : Int) (v : Option Outcome) : List (Int × Option Outcome) := setSlotL s.slots id v

def step (s : St) : Ev → Except String St
  | .submit id =>
    match slotOf s id with
    | some _ => .error "submit: message already has an expectation (submitted twice)"
    | none => .ok { s with slots := setSlot s id none }
  | .event id o =>
    match slotOf s id with
    | none => .error "event: terminal event for a message without an expectation"
    | some (some _) => .error "event: second terminal event for one message (the one-slot channel would block)"
    | some none => .ok { s with slots := setSlot s id (some o), events := (id, o) :: s.events }
  | .read id =>
    match slotOf s id with
    | some (some o) => .ok { s with returns := (id, o) :: s.returns }
    | _ => .error "read: nothing in the message's slot yet (the call is still blocked)"

def run (s : St) : List Ev → Except String St
  | [] => .ok s
  | e :: es => match step s e with
    | .ok s' => run s' es
    | .error m => .error m

end Model.SyncShim
