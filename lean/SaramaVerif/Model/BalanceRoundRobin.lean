import SaramaVerif.Model.BalancePlan
/-
  Round-robin strategy (balance_strategy.go: roundRobinBalancer.Plan).

  Inputs of the model are the two sorted slices the Go code builds: `ms` = members in memberID order,
  `tps` = topic partitions in `comparedValue` ("topic-partition" string) order.  The theorems hold for every order,
  so the sort is only a permutation as far as the properties go (the driver re-does the sort on strings).

  The inner loop `for !m.hasTopic(tp.topic) { i++; m = members[i%n] }` has no exit when nobody subscribes to the
  topic.  It is modelled with an explicit bound `fuel` on the number of cursor positions tried: `none` means
  "not left within `fuel` steps".  `rr_find_complete` (Props/C08) shows fuel = n is enough exactly when the topic
  has a subscriber, and that without one the loop is not left for ANY fuel.
-/
namespace Model.Balance

/-- first cursor position ≥ i (trying at most `fuel` positions) whose member has topic `t` -/
def rrFind (ms : Members) (t : Topic) : Nat → Nat → Option Nat
  | _, 0 => none
  | i, fuel + 1 =>
    match ms[i % ms.length]? with
    | some e => if e.2.contains t then some i else rrFind ms t (i + 1) fuel
    | none => none

/-- member at cursor position `j` -/
def rrMember (ms : Members) (j : Nat) : Member :=
  match ms[j % ms.length]? with
  | some e => e.1
  | none => 0

/-- the assignment loop from cursor `i` -/
def rrLoop (ms : Members) (fuel : Nat) : List TP → Nat → Plan → Option Plan
  | [], _, plan => some plan
  | tp :: rest, i, plan =>
    match rrFind ms tp.1 i fuel with
    | none => none
    | some j => rrLoop ms fuel rest (j + 1) (plan.add (rrMember ms j) tp.1 [tp.2])

inductive RROut
  | err                -- "members and topics are not provided"
  | diverges           -- the inner loop is not left
  | plan (p : Plan)
  deriving DecidableEq, Repr

/-- `roundRobinBalancer.Plan` on the sorted slices; `noTopics` = `len(topics) == 0` -/
def rrPlan (ms : Members) (noTopics : Bool) (tps : List TP) : RROut :=
  if ms.isEmpty || noTopics then .err
  else match rrLoop ms ms.length tps 0 [] with
    | some p => .plan p
    | none => .diverges


/-- `consumerGroup.balance` (consumer_group.go): the `topics` map handed to the strategy has one key per topic some
    member lists (then filled from the client's metadata) -/
def topicsOfMembers (ms : Members) : List Topic := (ms.flatMap (·.2)).eraseDups

end Model.Balance
