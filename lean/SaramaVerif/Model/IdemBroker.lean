/-
  Model of a partition leader that enforces Kafka's idempotent-producer rules for ONE producer id
  (the rules the simulated cluster of the harness implements, harness/overlay/sim_cluster.go `produce`):
    * a batch of a lower epoch than the current one is fenced;
    * a higher epoch (or the first batch ever) is accepted only with first sequence 0 and resets the state;
    * a batch whose first sequence is the next expected one is appended;
    * a batch equal in (first sequence, length) to one of the last five appended batches is a duplicate and is
      answered with the original base offset, nothing is appended;
    * anything else is out of order.
  The correspondence check replays every batch the simulated brokers saw through `arrive` and compares verdicts
  and base offsets.
-/
namespace Model.IdemBroker

structure Rec where
  epoch   : Int
  seq     : Nat
  payload : Int
  deriving Repr, DecidableEq

structure PState where
  known   : Bool := false
  epoch   : Int := 0
  nextSeq : Nat := 0
  cache   : List (Nat × Nat × Nat) := []     -- (first sequence, length, base offset) of the last five batches
  log     : List Rec := []
  deriving Repr

inductive Verdict
  | appended (base : Nat)
  | duplicate (base : Nat)
  | outOfOrder
  | fenced
  deriving Repr, DecidableEq

/-- records of a batch: payload i gets sequence firstSeq + i -/
def mkRecs (epoch : Int) (firstSeq : Nat) : List Int → List Rec
  | [] => []
  | p :: ps => { epoch := epoch, seq := firstSeq, payload := p } :: mkRecs epoch (firstSeq + 1) ps

def findDup (cache : List (Nat × Nat × Nat)) (firstSeq n : Nat) : Option Nat :=
  match cache.filter (fun c => c.1 = firstSeq ∧ c.2.1 = n) with
  | [] => none
  | c :: cs => some ((c :: cs).getLast (by simp)).2.2

def lastFive (l : List (Nat × Nat × Nat)) : List (Nat × Nat × Nat) := l.drop (l.length - 5)

/-- append / duplicate / out-of-order decision once the epoch has been dealt with -/
def arriveSameEpoch (s : PState) (epoch : Int) (firstSeq : Nat) (payloads : List Int) : PState × Verdict :=
  if firstSeq = s.nextSeq then
    ({ s with nextSeq := s.nextSeq + payloads.length,
              cache := lastFive (s.cache ++ [(firstSeq, payloads.length, s.log.length)]),
              log := s.log ++ mkRecs epoch firstSeq payloads },
     .appended s.log.length)
  else match findDup s.cache firstSeq payloads.length with
    | some b => (s, .duplicate b)
    | none => (s, .outOfOrder)

def arrive (s : PState) (epoch : Int) (firstSeq : Nat) (payloads : List Int) : PState × Verdict :=
  if s.known ∧ epoch < s.epoch then (s, .fenced)
  else if ¬ s.known ∨ epoch > s.epoch then
    if firstSeq ≠ 0 then (s, .outOfOrder)
    else arriveSameEpoch { s with known := true, epoch := epoch, nextSeq := 0, cache := [] } epoch firstSeq payloads
  else arriveSameEpoch s epoch firstSeq payloads

/-- a whole arrival history -/
def arriveAll (s : PState) : List (Int × Nat × List Int) → PState
  | [] => s
  | (e, f, ps) :: bs => arriveAll (arrive s e f ps).1 bs

end Model.IdemBroker
