import SaramaVerif.Model.ConsumerParse
/-
  Specification side of C03 / C11: partition logs, what is application-visible in them, what a faithful
  broker may answer to a fetch at a given offset.  Definitions only (the theorems are in Props/C03, Props/C11).
-/
namespace Model.ConsumerParse

/-- one storage unit of a partition log: a legacy top-level message block or a record batch -/
inductive LUnit
  | blk (b : LBlock)
  | bat (b : Batch)
  deriving DecidableEq, Repr

/-- the units an entry of a response consists of -/
def entryUnits : Entry → List LUnit
  | .legacy blks => blks.map .blk
  | .batch b => [.bat b]

/-- the records a unit stores (absolute offset, payload, timestamp by the rule of its format) -/
def unitRecs (tsw : Bool) : LUnit → List SRec
  | .blk b => blockRecs tsw b
  | .bat b => batchRecs b

/-- last offset of the unit's range (a wrapper carries the offset of its last inner message) -/
def unitHi : LUnit → Int
  | .blk b => b.off
  | .bat b => batchLast b

def unitIsControl : LUnit → Bool
  | .blk _ => false
  | .bat b => b.control

def unitIsTxn : LUnit → Bool
  | .blk _ => false
  | .bat b => b.txn

/-- strictly ascending offsets, all above `bnd` -/
def Asc (bnd : Int) : List SRec → Prop
  | [] => True
  | r :: rs => bnd < r.off ∧ Asc r.off rs

/-- well-formed log above `bnd`: the records of every unit ascend and lie in (previous last offset, own last
    offset]; last offsets strictly increase (unit ranges are disjoint and ordered).  Gaps left by compaction
    (missing offsets, records removed at either end of a batch, empty batches) are allowed. -/
def LogWF (tsw : Bool) (bnd : Int) : List LUnit → Prop
  | [] => True
  | u :: us => Asc bnd (unitRecs tsw u) ∧ (∀ r ∈ unitRecs tsw u, r.off ≤ unitHi u) ∧ bnd < unitHi u ∧
               LogWF tsw (unitHi u) us

/-- application-visible records of a log under read-uncommitted: everything except control batches -/
def visible (tsw : Bool) (L : List LUnit) : List SRec :=
  L.flatMap (fun u => if unitIsControl u then [] else unitRecs tsw u)

/-- the records with `a ≤ off < b` -/
def window (a b : Int) (l : List SRec) : List SRec := l.filter (fun r => decide (a ≤ r.off ∧ r.off < b))

/-- what a consumer started at `S` has to deliver: visible records with offset ≥ S -/
def visibleFrom (S : Int) (vis : List SRec) : List SRec := vis.filter (fun r => decide (S ≤ r.off))

/-- a control batch whose control record cannot be read -/
def entryBadCtl : Entry → Bool
  | .legacy _ => false
  | .batch b => b.control && Ctl.bad b

/-- `es` is the content of a faithful data response to a fetch at `o` from log `L`: a run of consecutive
    units of the log, beginning with the first unit whose range reaches `o` (everything before ends below `o`),
    cut anywhere; legacy blocks arrive as non-empty message sets; control batches are readable. -/
def FaithfulData (L : List LUnit) (o : Int) (es : List Entry) : Prop :=
  ∃ pre post, L = pre ++ es.flatMap entryUnits ++ post ∧ (∀ u ∈ pre, unitHi u < o) ∧
    (∀ u, (es.flatMap entryUnits).head? = some u → o ≤ unitHi u) ∧
    (∀ blks, Entry.legacy blks ∈ es → blks ≠ []) ∧ (∀ e ∈ es, entryBadCtl e = false)

/-- a faithful response for state `st`: error block, missing block, throttled-empty, or faithful data where
    partial-only data is sent only because the next unit does not fit into the asked fetch size (`size`),
    never when the fetch size has reached a non-zero `Fetch.Max` that every unit fits into. -/
def FaithfulResp (cfg : Cfg) (L : List LUnit) (st : PState) : Block → Prop
  | .data es partialTrail _ => FaithfulData L st.offset es ∧
      (partialTrail = true → nRecs es = 0 → ¬ (cfg.fetchMax > 0 ∧ st.fetchSize = cfg.fetchMax))
  | _ => True

/-- every response of a history is faithful for the state the consumer is in when it arrives -/
def FaithfulHist (cfg : Cfg) (L : List LUnit) : PState → List Block → Prop
  | _, [] => True
  | st, b :: bs => FaithfulResp cfg L st b ∧ FaithfulHist cfg L (parseBlock cfg st b).2.1 bs

/-- a response that carries at least one complete non-empty record set -/
def productive : Block → Bool
  | .data es _ _ => nRecs es ≠ 0
  | _ => false

end Model.ConsumerParse
