import SaramaVerif.Driver.Util
import SaramaVerif.Model.BalancePlan
import SaramaVerif.Model.BalanceRange
import SaramaVerif.Model.BalanceRoundRobin
import SaramaVerif.Model.BalanceSticky
/-
  Line protocol of the balance models (shared by the drivers of C08 and C13): parsing of the harness' op lines,
  interning of member / topic names, canonical printing.  No theorem depends on this file.
-/
namespace Model.Balance.Line
open Model.Balance Driver

/-- split that maps the empty string to no field -/
def splitNE (s : String) (sep : String) : List String :=
  if s = "" then [] else s.splitOn sep

def parseTP (s : String) : String × Int :=
  match (s.splitOn "/").reverse with
  | p :: rest => ("/".intercalate rest.reverse, int! p)
  | [] => ("", 0)

structure RawMember where
  name : String
  topics : List String
  kind : String
  claims : List (String × Int)

def parseMembers (s : String) : List RawMember :=
  if s = "-" then [] else
  (s.splitOn ";").map (fun x =>
    let f := x.splitOn ":"
    { name := f.getD 0 "", topics := splitNE (f.getD 1 "") ",", kind := f.getD 2 "-",
      claims := (splitNE (f.getD 3 "") ",").map parseTP })

def parseTopics (s : String) : List (String × List Int) :=
  if s = "-" then [] else
  (s.splitOn ";").map (fun x =>
    match x.splitOn ":" with
    | [n] => (n, [])
    | n :: ps :: _ => (n, (splitNE ps ",").map int!)
    | [] => ("", []))

def parseAsg (s : String) : List (String × List (String × Int)) :=
  if s = "-" ∨ s = "" then [] else
  (s.splitOn ";").map (fun x =>
    match x.splitOn "=" with
    | [n] => (n, [])
    | n :: l :: _ => (n, (splitNE l ",").map parseTP)
    | [] => ("", []))

/-- name tables -/
structure Tables where
  members : List String
  topics : List String

def addName (tbl : List String) (s : String) : List String := if tbl.contains s then tbl else tbl ++ [s]

def mkTables (ms : List RawMember) (ts : List (String × List Int)) (extra : List (String × List (String × Int))) : Tables :=
  let mt := (ms.map (·.name)).foldl addName []
  let mt := (extra.map (·.1)).foldl addName mt
  let tt := (ts.map (·.1)).foldl addName []
  let tt := (ms.flatMap (·.topics)).foldl addName tt
  let tt := (ms.flatMap (fun m => m.claims.map (·.1))).foldl addName tt
  let tt := (extra.flatMap (fun e => e.2.map (·.1))).foldl addName tt
  { members := mt, topics := tt }

def Tables.m (tb : Tables) (s : String) : Nat := tb.members.idxOf s
def Tables.t (tb : Tables) (s : String) : Nat := tb.topics.idxOf s
def Tables.mName (tb : Tables) (i : Nat) : String := tb.members.getD i "?"
def Tables.tName (tb : Tables) (i : Nat) : String := tb.topics.getD i "?"

def kindOf (s : String) : UDKind :=
  if s = "-" then .none else if s = "v0" then .v0
  else if s.startsWith "g" then .gen (int! (s.drop 1).toString) else .bad

def toMemberS (tb : Tables) (ms : List RawMember) : List MemberS :=
  ms.map (fun m => { id := tb.m m.name, topics := m.topics.map tb.t, kind := kindOf m.kind,
                     claims := if m.kind = "-" then [] else m.claims.map (fun c => (tb.t c.1, c.2)) })

def toTopics (tb : Tables) (ts : List (String × List Int)) : Topics := ts.map (fun e => (tb.t e.1, e.2))

def toPlan (tb : Tables) (a : List (String × List (String × Int))) : Plan :=
  a.map (fun e => (tb.m e.1, e.2.map (fun c => (tb.t c.1, c.2))))

/-- stable insertion sort -/
def insertBy {α : Type} (le : α → α → Bool) (x : α) : List α → List α
  | [] => [x]
  | y :: r => if le y x then y :: insertBy le x r else x :: y :: r

def sortBy {α : Type} (le : α → α → Bool) (l : List α) : List α :=
  l.foldl (fun acc x => insertBy le x acc) []

def showTPs (tb : Tables) (l : List TP) : String :=
  ",".intercalate (l.map (fun tp => s!"{tb.tName tp.1}/{tp.2}"))

/-- canonical text of a plan: members by name, each list stably by topic name (sortParts: also by partition) -/
def showPlan (tb : Tables) (p : Plan) (sortParts : Bool) : String :=
  if p.isEmpty then "-" else
  let es := sortBy (fun a b => decide (tb.mName a.1 ≤ tb.mName b.1)) p
  ";".intercalate (es.map (fun e =>
    let l := sortBy (fun (a b : TP) =>
      if tb.tName a.1 = tb.tName b.1 then (if sortParts then decide (a.2 ≤ b.2) else true)
      else decide (tb.tName a.1 < tb.tName b.1)) e.2
    s!"{tb.mName e.1}={showTPs tb l}"))

def b01 (b : Bool) : String := if b then "1" else "0"
def ob01 : Option Bool → String
  | none => "-"
  | some b => b01 b

/-- the property predicates on one (strategy, kind, input, plan) line; same layout as the Go oracle prints -/
def verdicts (strat kind : String) (ms : List MemberS) (ts : Topics) (plan : Plan) : String :=
  let pm := plainMembers ms
  let valid := validPlan pm ts plan
  let bal : Option Bool := if strat = "sticky" then some (balanced pm ts plan) else none
  let rsz : Option Bool := if strat = "range" then rangeSizes pm ts plan else none
  let rrd : Option Bool := if strat = "rr" ∧ identicalSubs pm then some (spreadLE1 pm plan) else none
  let st := strat = "sticky" ∧ clean ms
  let swap : Option Bool := if st then some (swapFree ms plan) else none
  let same : Option Bool := if st ∧ kind = "same" then some (samePlan ms plan) else none
  let leave : Option Bool := if st ∧ kind = "leave" ∧ identicalSubs pm then some (keptAll ms plan) else none
  let join : Option Bool := if st ∧ kind = "join" ∧ identicalSubs pm then some (movedOnlyToJoiners ms plan) else none
  let rejoin : Option Bool :=
    if strat = "sticky" ∧ kind = "rejoin" ∧ identicalSubs pm then
      (match latestClean ms with
       | some g => some (movedOnlyToStale ms plan g)
       | none => none)
    else none
  s!"valid={b01 valid} bal={ob01 bal} rsz={ob01 rsz} rrd={ob01 rrd} same={ob01 same} leave={ob01 leave} join={ob01 join} swap={ob01 swap} rejoin={ob01 rejoin}"

def natList (s : String) : List Nat := (s.splitOn ",").map nat!

/-- `rangecore n m r0,..,rm` -/
def doRangeCore (n m : Nat) (rs : List Nat) : String :=
  let r : Nat → Nat := fun i => rs.getD i 0
  if rs.length ≠ m + 1 ∨ !rangeBoundaryB n m r then "boundary-violation" else
  let ps : List Int := if n ≤ 600 then (List.range n).map (fun (i : Nat) => (i : Int)) else []
  "|".intercalate ((List.range m).map (fun i =>
    if n ≤ 600 then
      match slice r ps i with
      | [] => "e"
      | a :: rest => s!"{a}-{(a :: rest).getLast?.getD 0 + 1}"
    else if r (i + 1) ≤ r i then "e" else s!"{r i}-{r (i + 1)}"))

/-- `range <members> <topics> <aux>`; aux = `t:m2,m1:0,2,3;…` (hash order and observed bounds per topic) -/
def doRange (msS tsS auxS : String) : String :=
  let ms := parseMembers msS
  let ts := parseTopics tsS
  let tb := mkTables ms ts []
  let topics := toTopics tb ts
  let aux : List (String × List String × List Nat) :=
    if auxS = "-" then [] else (auxS.splitOn ";").map (fun x =>
      let f := x.splitOn ":"
      (f.getD 0 "", splitNE (f.getD 1 "") ",", natList (f.getD 2 "0")))
  let mbt : AL Member := aux.map (fun e => (tb.t e.1, e.2.1.map tb.m))
  let r : Topic → Nat → Nat := fun t i =>
    match aux.find? (fun e => tb.t e.1 = t) with
    | some e => e.2.2.getD i 0
    | none => 0
  if aux.all (fun e => e.2.2.length = e.2.1.length + 1 &&
      rangeBoundaryB (partsOf topics (tb.t e.1)).length e.2.1.length (r (tb.t e.1))) then
    showPlan tb (rangePlan r topics mbt []) false
  else "boundary-violation"

/-- `rr <members> <topics>`: sorts like the Go code does, then runs the model loop -/
def doRR (msS tsS : String) : String :=
  let ms := parseMembers msS
  let ts := parseTopics tsS
  let tb := mkTables ms ts []
  let sorted := sortBy (fun (a b : RawMember) => decide (a.name ≤ b.name)) ms
  let members : Members := sorted.map (fun m => (tb.m m.name, m.topics.map tb.t))
  let keyed : List (String × TP) := ts.flatMap (fun e => e.2.map (fun p => (s!"{e.1}-{p}", (tb.t e.1, p))))
  let tps := (sortBy (fun (a b : String × TP) => decide (a.1 ≤ b.1)) keyed).map (·.2)
  match rrPlan members ts.isEmpty tps with
  | .err => "err"
  | .diverges => "diverges"
  | .plan p => showPlan tb p false

/-- `vplan <strategy> <kind> <members> <topics> <plan>` -/
def doVPlan (strat kind msS tsS planS : String) : String :=
  let ms := parseMembers msS
  let ts := parseTopics tsS
  if planS = "err" then
    (if (strat = "sticky" ∧ ms.any (fun m => m.kind = "bad")) ∨ (strat = "rr" ∧ (ms.isEmpty ∨ ts.isEmpty))
     then "err" else "no-plan-expected-one")
  else if planS = "diverges" then
    -- only the round-robin model has a diverging behaviour
    (if strat = "rr" then
      match doRR msS tsS with
      | "diverges" => "diverges"
      | _ => "no-plan-expected-one"
     else "no-plan-expected-one")
  else if planS = "panic" then "no-plan-expected-one"
  else
    let a := parseAsg planS
    let tb := mkTables ms ts a
    verdicts strat kind (toMemberS tb ms) (toTopics tb ts) (toPlan tb a)

/-! ### pure pieces of the sticky strategy -/

/-- tables for the piece ops: member ids follow the string order of the names (the models compare ids) -/
def pieceTables (asgs : List (List (String × List (String × Int)))) (extraM : List String)
    (extraT : List (String × Int)) : Tables :=
  let names := (asgs.flatMap (fun a => a.map (·.1)) ++ extraM).foldl addName []
  let tnames := ((asgs.flatMap (fun a => a.flatMap (fun e => e.2.map (·.1)))) ++ extraT.map (·.1)).foldl addName []
  { members := sortBy (fun a b => decide (a ≤ b)) names, topics := tnames }

def toAsg (tb : Tables) (a : List (String × List (String × Int))) : Asg := toPlan tb a

/-- assignment with lists in their order, members by name -/
def showAsg (tb : Tables) (a : Asg) : String :=
  if a.isEmpty then "-" else
  ";".intercalate ((sortBy (fun x y => decide (tb.mName x.1 ≤ tb.mName y.1)) a).map
    (fun e => s!"{tb.mName e.1}={showTPs tb e.2}"))

def showMembers (tb : Tables) (l : List Member) : String :=
  if l.isEmpty then "-" else ",".intercalate (l.map tb.mName)

def tpLE (tb : Tables) (a b : TP) : Bool :=
  if tb.tName a.1 = tb.tName b.1 then decide (a.2 ≤ b.2) else decide (tb.tName a.1 < tb.tName b.1)

def doIsBal (curS potS : String) : String :=
  let c := parseAsg curS; let p := parseAsg potS
  let tb := pieceTables [c, p] [] []
  b01 (isBalanced (toAsg tb c) (toAsg tb p))

def doScore (curS : String) : String :=
  let c := parseAsg curS
  let tb := pieceTables [c] [] []
  toString (balanceScore (toAsg tb c))

def doSortMem (curS : String) : String :=
  let c := parseAsg curS
  let tb := pieceTables [c] [] []
  showMembers tb (sortMembers (toAsg tb c))

def doCanPart (m curS potS : String) : String :=
  let c := parseAsg curS; let p := parseAsg potS
  let tb := pieceTables [c, p] [m] []
  b01 (canConsumerParticipate (tb.m m) (toAsg tb c) (toAsg tb p))

def doAssignP (tpS curS potS : String) : String :=
  let c := parseAsg curS; let p := parseAsg potS
  let x := parseTP tpS
  let tb := pieceTables [c, p] [] [x]
  let cur := toAsg tb c
  let (cur', who) := assignPartition (tb.t x.1, x.2) (sortMembers cur) cur (toAsg tb p)
  let w := match who with | some m => tb.mName m | none => "-"
  s!"{showAsg tb cur'}|{w}|{showMembers tb (sortMembers cur')}"

def doSubsIdent (potS extraS : String) : String :=
  let p := parseAsg potS
  let extra := if extraS = "-" then [] else (extraS.splitOn ",").map parseTP
  let tb := pieceTables [p] [] extra
  let pot := toAsg tb p
  let parts : List TP := (pot.flatMap (·.2) ++ extra.map (fun x => (tb.t x.1, x.2))).eraseDups
  b01 (subscriptionsIdentical (parts.map (consumersOf pot)) (pot.map (·.2)))

def doPrepop (repS : String) : String :=
  let raw : List (String × String × List (String × Int)) :=
    if repS = "-" then [] else (repS.splitOn ";").map (fun x =>
      let f := x.splitOn ":"
      (f.getD 0 "", f.getD 1 "-", (splitNE (f.getD 2 "") ",").map parseTP))
  let tb : Tables :=
    { members := sortBy (fun a b => decide (a ≤ b)) ((raw.map (·.1)).foldl addName []),
      topics := (raw.flatMap (fun r => r.2.2.map (·.1))).foldl addName [] }
  let reps : List Report := raw.filterMap (fun r =>
    let claims := r.2.2.map (fun c => (tb.t c.1, c.2))
    match kindOf r.2.1 with
    | .none => some { id := tb.m r.1, gen := some 0, claims := [] }   -- nil user data decodes to V1, generation 0
    | .gen g => some { id := tb.m r.1, gen := some g, claims := claims }
    | .v0 => some { id := tb.m r.1, gen := none, claims := claims }
    | .bad => none)
  let pp := prepopulate reps
  let cur := (currentOf pp).map (fun e => (e.1, sortBy (tpLE tb) e.2))
  let prevs := sortBy (fun (a b : TP × Member) => tpLE tb a.1 b.1)
    (pp.filterMap (fun e => e.2.2.map (fun pm => (e.1, pm))))
  let ps := if prevs.isEmpty then "-" else
    ",".intercalate (prevs.map (fun e => s!"{tb.tName e.1.1}/{e.1.2}>{tb.mName e.2}"))
  s!"{showAsg tb cur}|{ps}"

def initialOwner (cur : Asg) : OwnerMap := cur.flatMap (fun e => e.2.map (fun p => (p, e.1)))

/-- `moves <cur> <script>`; steps `M:t/p:new` and `Q:t/p:old:new` joined by `+` -/
def doMoves (curS scriptS : String) : String :=
  let c := parseAsg curS
  let steps : List (List String) := if scriptS = "-" then [] else (scriptS.splitOn "+").map (·.splitOn ":")
  let tb := pieceTables [c] (steps.flatMap (fun f => (f.drop 2))) (steps.map (fun f => parseTP (f.getD 1 "")))
  let cur := toAsg tb c
  let st0 : SState := { cur := cur, owner := initialOwner cur, fixed := [], moves := [], snap := none,
                        performed := false, reverted := false, assigned := true }
  let (st, answers) := steps.foldl (fun (acc : SState × List String) f =>
    let x := parseTP (f.getD 1 "")
    let p : TP := (tb.t x.1, x.2)
    if f.getD 0 "" = "Q" then
      let a := match actualCandidates acc.1.moves p (tb.m (f.getD 2 "")) (tb.m (f.getD 3 "")) with
        | none => s!"{x.1}/{x.2}"
        | some [q] => s!"{tb.tName q.1}/{q.2}"
        | some _ => "amb"
      (acc.1, acc.2 ++ [a])
    else (processMove acc.1 p (tb.m (f.getD 2 "")), acc.2)) (st0, [])
  let recs := sortBy (fun (a b : String) => decide (a ≤ b))
    (st.moves.map (fun e => s!"{tb.tName e.1.1}/{e.1.2}:{tb.mName e.2.1}>{tb.mName e.2.2}"))
  let rs := if recs.isEmpty then "-" else ",".intercalate recs
  let as := if answers.isEmpty then "-" else ",".intercalate answers
  s!"{showAsg tb st.cur}|{as}|{rs}"

/-- the F12 witness as an operation sequence of the op-level model: members 1{t2; claims t1/0 at generation 1},
    2{t1; claims t1/0,1,2 at generation 2}, 3{t1}; topics t1, t2 with partitions 0,1,2 -/
def f12Env : SEnv :=
  { pot := potOf [(1, [2]), (2, [1]), (3, [1])] [(1, [0, 1, 2]), (2, [0, 1, 2])],
    prev := [((1, 0), 1)], reassignable := [(1, 0), (1, 1), (1, 2)], initializing := true,
    parts := allParts [(1, [0, 1, 2]), (2, [0, 1, 2])] }
def f12Init : SState :=
  initState [(1, [2]), (2, [1]), (3, [1])] [(1, [0, 1, 2]), (2, [0, 1, 2])]
    [((1, 0), 2, some 1), ((1, 1), 2, none), ((1, 2), 2, none)]
def f12Ops : List SOp :=
  [.assignAll [(2, 1), (2, 0), (2, 2)], .park 1, .snapshot, .movePrev (1, 0) (1, 0), .moveOther (1, 1) (1, 1)]

def doF12 (variant : String) : String :=
  let v := if variant = "weak" then Variant.pinned else Variant.guarded
  match runOps v f12Env f12Init f12Ops with
  | none => "rejected"
  | some st =>
    let plan := finish v st
    if AL.countAll plan (1, 0) == 0 then "accepted unassigned=t1/0" else "accepted complete"

/-- `cgtopics <members> <topics>`: the topics consumerGroup.balance passes on (sorted by name), or `err` when the
    client does not know a subscribed topic -/
def doCGTopics (msS tsS : String) : String :=
  let ms := parseMembers msS
  let ts := parseTopics tsS
  let tb := mkTables ms ts []
  let members : Members := ms.map (fun m => (tb.m m.name, m.topics.map tb.t))
  let topics := toTopics tb ts
  let wanted := topicsOfMembers members
  if wanted.any (fun t => !topicExists topics t) then "err" else
  let names := sortBy (fun (a b : String) => decide (a ≤ b)) (wanted.map tb.tName)
  if names.isEmpty then "-" else
  ";".intercalate (names.map (fun n => s!"{n}:{",".intercalate ((partsOf topics (tb.t n)).map toString)}"))

/-- `lchain kind ms ts plan kind ms ts plan …`: plans of one long-lived strategy value; the model is per Plan call, so
    every step is judged like a `vplan sticky` line -/
def doLChain : List String → List String
  | kind :: ms :: ts :: plan :: rest => doVPlan "sticky" kind ms ts plan :: doLChain rest
  | _ => []

def step (_ : Unit) (t : List String) : Unit × String :=
  match t with
  | ["rangecore", n, m, rs] => ((), doRangeCore (nat! n) (nat! m) (natList rs))
  | ["range", ms, ts, aux] => ((), doRange ms ts aux)
  | ["rr", ms, ts] => ((), doRR ms ts)
  | ["vplan", strat, kind, ms, ts, plan] => ((), doVPlan strat kind ms ts plan)
  | ["isbal", c, p] => ((), doIsBal c p)
  | ["score", c] => ((), doScore c)
  | ["sortmem", c] => ((), doSortMem c)
  | ["canpart", m, c, p] => ((), doCanPart m c p)
  | ["assignp", x, c, p] => ((), doAssignP x c p)
  | ["subsident", p, e] => ((), doSubsIdent p e)
  | ["prepop", r] => ((), doPrepop r)
  | ["moves", c, sc] => ((), doMoves c sc)
  | ["f12", v] => ((), doF12 v)
  | ["cgtopics", ms, ts] => ((), doCGTopics ms ts)
  | "lchain" :: rest => ((), " | ".intercalate (doLChain rest))
  | _ => ((), "bad-op")

end Model.Balance.Line
