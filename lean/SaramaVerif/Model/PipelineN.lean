/-
  The producer pipeline with SEVERAL PARTITIONS (system model, executable).  Per partition: the rank counter, the
  partition producer with its input channel, the worker it is bound to, the leader, the partition log and the
  outcomes.  Shared: p.input (dispatcher), the retries queue, and the broker workers - `Model.BrokerProd.step`
  handles tokens of several partitions (per-partition retry marks, one buffer, one set at the bridge, per-partition
  verdicts, request-level connection errors).  `Model.Pipeline` is the one-partition instance (partition 0).
  Stage C of the C02 composition: the projection of a run of this model on one partition is a run of
  `Model.Pipeline` (Props/C02multi.lean: stated, proved for the steps that do not involve workers, open otherwise).
-/
import SaramaVerif.Model.Pipeline

namespace Model.PipelineN
open Model Model.BrokerProd
open Model.Pipeline (brokerOf)

/-- the answer to a produce request: per-partition verdicts, or a request-level connection error (after the append
    or before) -/
inductive RespN
  | parts (v : Int → Pipeline.Verdict)
  | conn (app : Bool)

def bvOf : Pipeline.Verdict → BrokerProd.Verdict
  | .ok => .ok
  | .retriable _ => .retriable
  | _ => .fatal

def RespN.toResp : RespN → BrokerProd.Resp
  | .parts v => .verdicts (fun q => bvOf (v q)) [] []
  | .conn _ => .connErr [] []

def RespN.appends (r : RespN) (q : Int) : Bool :=
  match r with
  | .parts v => (v q).appends
  | .conn a => a

structure WorkerN where
  inq  : List Tok := []
  bp   : St := {}
  pend : Option (RespN × (Int → Nat)) := none     -- the prepared answer and the base offset per partition

structure SysN where
  next  : Int → Nat := fun _ => 0
  dq    : List Tok := []
  pq    : Int → List Tok := fun _ => []
  pp    : Int → PartProd.St := fun _ => {}
  cur   : Int → Option Nat := fun _ => none
  wk    : Nat → WorkerN := fun _ => {}
  ret   : List Tok := []
  ldr   : Int → Nat := fun _ => 0
  log   : Int → List Int := fun _ => []
  succ  : Int → List (Int × Nat) := fun _ => []
  errs  : Int → List Int := fun _ => []
  crash : Bool := false

def upd {α : Type} (f : Int → α) (p : Int) (v : α) : Int → α := fun q => if q = p then v else f q
def setWN (f : Nat → WorkerN) (w : Nat) (v : WorkerN) : Nat → WorkerN := fun k => if k = w then v else f k
def pushWN (f : Nat → WorkerN) (w : Nat) (t : Tok) : Nat → WorkerN :=
  setWN f w { f w with inq := (f w).inq ++ [t] }

def mkTokP (p : Int) (id : Int) (level : Nat) (fin : Bool) : Tok := ⟨id, p, level, if fin then .fin else .data⟩
def synTokP (p : Int) : Tok := ⟨-1, p, 0, .syn⟩
def finTokP (p : Int) (level : Nat) : Tok := ⟨-2, p, level, .fin⟩
def toPP (t : Tok) : PartProd.Tok := ⟨t.id, t.retries, t.isFin⟩

/-- one action of the partition producer of partition `p` -/
def ppActN (p : Int) (s : SysN) (lks : List (Option Nat)) : PartProd.Action → SysN × List (Option Nat)
  | .finSend l =>
    match s.cur p with
    | none => ({ s with crash := true }, lks)
    | some w => ({ s with wk := pushWN s.wk w (finTokP p l), cur := upd s.cur p none }, lks)
  | .emit id l fin =>
    match s.cur p with
    | some w => ({ s with wk := pushWN s.wk w (mkTokP p id l fin) }, lks)
    | none =>
      match lks with
      | some w :: r =>
        ({ s with cur := upd s.cur p (some w), wk := pushWN (pushWN s.wk w (synTokP p)) w (mkTokP p id l fin) }, r)
      | _ => ({ s with errs := if fin then s.errs else upd s.errs p (s.errs p ++ [id]) }, lks.tail)
  | .park _ => (s, lks)
  | .finDone => (s, lks)

def ppActsN (p : Int) (s : SysN) (lks : List (Option Nat)) : List PartProd.Action → SysN
  | [] => s
  | a :: as => ppActsN p (ppActN p s lks a).1 (ppActN p s lks a).2 as

/-- one action of a broker worker; `off q` is the offset the next acknowledged message of partition `q` gets -/
def bpActN (s : SysN) (off : Int → Nat) : Action → SysN × (Int → Nat)
  | .requeue id q r fin => ({ s with ret := s.ret ++ [⟨id, q, r, if fin then .fin else .data⟩] }, off)
  | .succ id q => ({ s with succ := upd s.succ q (s.succ q ++ [(id, off q)]) }, upd off q (off q + 1))
  | .expire id q fin => ({ s with errs := if fin then s.errs else upd s.errs q (s.errs q ++ [id]) }, off)
  | .fail id q => ({ s with errs := upd s.errs q (s.errs q ++ [id]) }, off)
  | _ => (s, off)

def bpActsN (s : SysN) (off : Int → Nat) : List Action → SysN
  | [] => s
  | a :: as => bpActsN (bpActN s off a).1 (bpActN s off a).2 as

def bpRunN (M : Nat) (s : SysN) (w : Nat) (q : List Tok) (pend : Option (RespN × (Int → Nat))) (off : Int → Nat)
    (i : In) : Option SysN :=
  if (step M (s.wk w).bp i).2 = [.disabled] then none
  else some (bpActsN { s with wk := setWN s.wk w ⟨q, (step M (s.wk w).bp i).1, pend⟩ } off (step M (s.wk w).bp i).2)

def dataIdsOf (q : Int) (ts : List Tok) : List Int :=
  ((ts.filter (fun t => t.part == q)).filter (fun t => t.kind = .data)).map (·.id)

inductive ChoiceN
  | submit (p : Int)
  | retryOut
  | dispatch
  | ppRecv (p : Int) (lks : List (Option Nat))
  | bpRecv (w : Nat) (overflow : Bool)
  | handover (w : Nat)
  | broker (w : Nat) (r : RespN)
  | deliver (w : Nat) (still : Bool)
  | moveLeader (p : Int) (b : Nat)

def sysStepN (M : Nat) (s : SysN) : ChoiceN → Option SysN
  | .submit p => some { s with next := upd s.next p (s.next p + 1), dq := s.dq ++ [mkTokP p (s.next p : Int) 0 false] }
  | .retryOut =>
    match s.ret with
    | [] => none
    | t :: r => some { s with ret := r, dq := s.dq ++ [t] }
  | .dispatch =>
    match s.dq with
    | [] => none
    | t :: r => some { s with dq := r, pq := upd s.pq t.part (s.pq t.part ++ [t]) }
  | .ppRecv p lks =>
    match s.pq p with
    | [] => none
    | t :: r => some (ppActsN p { s with pq := upd s.pq p r, pp := upd s.pp p (PartProd.recv (s.pp p) (toPP t)).1 } lks
                        (PartProd.recv (s.pp p) (toPP t)).2)
  | .bpRecv w ov =>
    match (s.wk w).inq with
    | [] => none
    | t :: r => bpRunN M s w r (s.wk w).pend (fun _ => 0) (.recv t ov)
  | .handover w => bpRunN M s w (s.wk w).inq (s.wk w).pend (fun _ => 0) .handover
  | .broker w r =>
    match (s.wk w).bp.sets, (s.wk w).pend with
    | sent :: _, none =>
      if sent.any (fun t => r.appends t.part && !(brokerOf w == s.ldr t.part)) then none
      else some { s with log := fun q => if r.appends q then s.log q ++ dataIdsOf q sent else s.log q,
                         wk := setWN s.wk w { s.wk w with pend := some (r, fun q => (s.log q).length) } }
    | _, _ => none
  | .deliver w still =>
    match (s.wk w).pend with
    | none => none
    | some (r, base) => bpRunN M s w (s.wk w).inq none base (.resp r.toResp still)
  | .moveLeader p b => some { s with ldr := upd s.ldr p b }

def runN (M : Nat) (s : SysN) : List ChoiceN → Option SysN
  | [] => some s
  | c :: cs => match sysStepN M s c with
    | none => none
    | some s' => runN M s' cs

end Model.PipelineN
