/-
  Scope predicates on choice sequences of `Model.Pipeline`, executable: the trace replay
  (Driver/PipelineTrace.lean) evaluates them on every replayed real run; Props/C02chain.lean proves LogOrder for
  the runs inside (`HandoverChain cs ↔ chainScope cs = true`).
-/
import SaramaVerif.Model.Pipeline

namespace Model.Pipeline

/-- the workers the leader lookups of a choice name -/
def lookupsOf : Choice → List Nat
  | .ppRecv lks => lks.filterMap id
  | _ => []

/-- no leader lookup of the run names a worker that an earlier lookup named -/
def chainScope (cs : List Choice) : Bool := decide ((cs.flatMap lookupsOf).Nodup)

end Model.Pipeline
