/-
  Model of the metadata cache of sarama's `client` (client.go) for property C15 (core Lean only).

  * topic names and broker addresses are opaque identifiers (`Int`); only equality is ever used on them;
  * Go maps are keyed lists (`kget`/`kset`/`kerase`): lookup = first match, store = erase + cons, so keys stay
    unique; everything that leaves the model through the driver is sorted by key;
  * `updateMetadata s resp full` is ONE atomic step (the Go code runs it under the write lock);
  * broker answers / reachability are explicit parameters (`Reach`), never axioms; time (the metadata
    deadline, back-off sleeps) is not modelled: `Metadata.Timeout = 0`.
-/
namespace Model.Metadata

abbrev Topic := Int
abbrev Addr := Int

/-! ### keyed lists (Go maps) -/
section Keyed
variable {α : Type} (key : α → Int)

def kget (k : Int) (m : List α) : Option α := m.find? (fun a => decide (key a = k))
def kerase (k : Int) (m : List α) : List α := m.filter (fun a => decide (key a ≠ k))
def kset (a : α) (m : List α) : List α := a :: kerase key (key a) m
end Keyed

/-! ### KError codes used by the client (errors.go; tied by the bridge's case tables / fragments) -/
def errNone : Int := 0
def errUnknownTopicOrPartition : Int := 3
def errLeaderNotAvailable : Int := 5
def errReplicaNotAvailable : Int := 9
def errInvalidTopic : Int := 17
def errTopicAuthorizationFailed : Int := 29
def errClusterAuthorizationFailed : Int := 31
def errSASLAuthenticationFailed : Int := 58
/-- `ErrOutOfBrokers` is not a KError; the model gives it a code outside the int16 range of KError -/
def errOutOfBrokers : Int := -100000

/-! ### wire data -/
structure PartMeta where
  id : Int
  leader : Int
  replicas : List Int
  isr : List Int
  offline : List Int
  err : Int
deriving DecidableEq, Repr, Inhabited

structure TopicMeta where
  name : Topic
  err : Int
  parts : List PartMeta
deriving DecidableEq, Repr, Inhabited

structure Resp where
  brokers : List (Int × Addr)
  controller : Int
  topics : List TopicMeta
deriving DecidableEq, Repr, Inhabited

/-! ### client state -/
structure State where
  brokers : List (Int × Addr)                       -- client.brokers      (id → address)
  controller : Int                                  -- client.controllerID
  metadata : List (Topic × List PartMeta)           -- client.metadata     (topic → partition id → metadata)
  tracked : List Topic                              -- client.metadataTopics
  cached : List (Topic × (List Int × List Int))     -- client.cachedPartitionsResults (topic → [all, writable])
  seeds : List Addr                                 -- client.seedBrokers (in order)
  dead : List Addr                                  -- client.deadSeeds   (in order)
deriving DecidableEq, Repr, Inhabited

def init (seeds : List Addr) : State :=
  { brokers := [], controller := 0, metadata := [], tracked := [], cached := [], seeds := seeds, dead := [] }

/-! ### sort.Sort(int32Slice) -/
def ins (x : Int) : List Int → List Int
  | [] => [x]
  | y :: ys => if x ≤ y then x :: y :: ys else y :: ins x ys

def isort : List Int → List Int
  | [] => []
  | x :: xs => ins x (isort xs)

/-! ### setPartitionCache -/
def allIds (pm : List PartMeta) : List Int := isort (pm.map (·.id))
def writableIds (pm : List PartMeta) : List Int :=
  isort ((pm.filter (fun p => decide (p.err ≠ errLeaderNotAvailable))).map (·.id))

/-- `setPartitionCache(topic, partitionSet)`: `none` = Go's nil (topic not in `client.metadata`) -/
def setPartitionCache (md : List (Topic × List PartMeta)) (t : Topic) (writable : Bool) : Option (List Int) :=
  (kget Prod.fst t md).map (fun e => if writable then writableIds e.2 else allIds e.2)

def cacheLists (md : List (Topic × List PartMeta)) (t : Topic) : List Int × List Int :=
  ((setPartitionCache md t false).getD [], (setPartitionCache md t true).getD [])

/-! ### updateBroker -/
/-- one iteration of the first loop of `updateBroker` (same test as `registerBroker`) -/
def regBroker (m : List (Int × Addr)) (b : Int × Addr) : List (Int × Addr) :=
  match kget Prod.fst b.1 m with
  | none => kset Prod.fst b m
  | some old => if b.2 ≠ old.2 then kset Prod.fst b m else m

def updateBrokers (cur news : List (Int × Addr)) : List (Int × Addr) :=
  (news.foldl regBroker cur).filter (fun b => news.any (fun n => decide (n.1 = b.1)))

/-! ### updateMetadata -/
inductive TopicClass | store | storeRetry | forget | forgetRetry
deriving DecidableEq, Repr

/-- the `switch topic.Err` of `updateMetadata` -/
def topicClass (e : Int) : TopicClass :=
  if e = errNone then .store
  else if e = errInvalidTopic ∨ e = errTopicAuthorizationFailed then .forget
  else if e = errUnknownTopicOrPartition then .forgetRetry
  else if e = errLeaderNotAvailable then .storeRetry
  else .forget

def TopicClass.stores : TopicClass → Bool
  | .store => true | .storeRetry => true | _ => false
def TopicClass.retries : TopicClass → Bool
  | .storeRetry => true | .forgetRetry => true | _ => false

def track (t : Topic) (tr : List Topic) : List Topic := if t ∈ tr then tr else t :: tr

def buildParts (ps : List PartMeta) : List PartMeta := ps.foldl (fun m p => kset PartMeta.id p m) []

def partsRetry (ps : List PartMeta) : Bool := ps.any (fun p => decide (p.err = errLeaderNotAvailable))

/-- metadataTopics[name] = {} ; delete(metadata, name) ; delete(cachedPartitionsResults, name) -/
def forgetTopic (s : State) (t : Topic) : State :=
  { s with tracked := track t s.tracked, metadata := kerase Prod.fst t s.metadata, cached := kerase Prod.fst t s.cached }

def putMeta (s : State) (t : Topic) (pm : List PartMeta) : State :=
  { s with metadata := (t, pm) :: s.metadata }

/-- the two `setPartitionCache` calls read the map that was just written -/
def rebuildCache (s : State) (t : Topic) : State :=
  { s with cached := (t, cacheLists s.metadata t) :: s.cached }

def storeTopic (s : State) (tm : TopicMeta) : State :=
  rebuildCache (putMeta s tm.name (buildParts tm.parts)) tm.name

/-- running result of `updateMetadata`: state, `retry`, `err` (0 = nil) -/
structure Acc where
  s : State
  retry : Bool
  err : Int
deriving DecidableEq, Repr

def applyTopic (a : Acc) (tm : TopicMeta) : Acc :=
  match topicClass tm.err with
  | .store => ⟨storeTopic (forgetTopic a.s tm.name) tm, a.retry || partsRetry tm.parts, a.err⟩
  | .storeRetry => ⟨storeTopic (forgetTopic a.s tm.name) tm, true, a.err⟩
  | .forget => ⟨forgetTopic a.s tm.name, a.retry, tm.err⟩
  | .forgetRetry => ⟨forgetTopic a.s tm.name, true, tm.err⟩

def withBrokers (s : State) (r : Resp) : State :=
  { s with brokers := updateBrokers s.brokers r.brokers, controller := r.controller }

def resetIfFull (full : Bool) (s : State) : State :=
  if full then { s with metadata := [], tracked := [], cached := [] } else s

/-- `client.updateMetadata(data, allKnownMetaData)` on an open client: one atomic step -/
def updateMetadata (s : State) (r : Resp) (full : Bool) : Acc :=
  r.topics.foldl applyTopic ⟨resetIfFull full (withBrokers s r), false, errNone⟩

/-! ### cached getters -/
def cachedPartitions (s : State) (t : Topic) (writable : Bool) : Option (List Int) :=
  (kget Prod.fst t s.cached).map (fun e => if writable then e.2.2 else e.2.1)

def cachedMetadata (s : State) (t : Topic) (p : Int) : Option PartMeta :=
  (kget Prod.fst t s.metadata).bind (fun e => kget PartMeta.id p e.2)

inductive LeaderRes
  | broker (id : Int) (addr : Addr)
  | leaderNotAvailable
  | unknownTopicOrPartition
deriving DecidableEq, Repr

/-- the verdict of `cachedLeader` once the two map lookups are done -/
def leaderVerdict (md : Option PartMeta) (brokers : List (Int × Addr)) : LeaderRes :=
  match md with
  | none => .unknownTopicOrPartition
  | some m =>
    if m.err = errLeaderNotAvailable then .leaderNotAvailable
    else match kget Prod.fst m.leader brokers with
      | none => .leaderNotAvailable
      | some b => .broker b.1 b.2

def cachedLeader (s : State) (t : Topic) (p : Int) : LeaderRes :=
  leaderVerdict (cachedMetadata s t p) s.brokers

def cachedController (s : State) : Option (Int × Addr) := kget Prod.fst s.controller s.brokers

/-! ### public getters: verdict after the (optional) single refresh -/
inductive ListRes
  | ok (l : List Int)
  | okReplicaNotAvailable (l : List Int)     -- list AND ErrReplicaNotAvailable
  | err (e : Int)
deriving DecidableEq, Repr

def partitionsVerdict (c : Option (List Int)) : ListRes :=
  if (c.getD []).length = 0 then .err errUnknownTopicOrPartition else .ok (c.getD [])

def writableVerdict (c : Option (List Int)) : ListRes :=
  match c with
  | none => .err errUnknownTopicOrPartition
  | some l => .ok l

def replicasVerdict (sel : PartMeta → List Int) (m : Option PartMeta) : ListRes :=
  match m with
  | none => .err errUnknownTopicOrPartition
  | some pm => if pm.err = errReplicaNotAvailable then .okReplicaNotAvailable (sel pm) else .ok (sel pm)

/-- does the first look into the cache count as a miss (→ one `RefreshMetadata(topic)`)? -/
def listMiss (c : Option (List Int)) : Bool := (c.getD []).length = 0

/-- `Partitions` / `WritablePartitions`; `refresh` stands for `RefreshMetadata(topic)`: new state and error (0 = nil) -/
def apiPartitions (refresh : State → State × Int) (s : State) (t : Topic) (writable : Bool) : State × ListRes :=
  if listMiss (cachedPartitions s t writable) then
    if (refresh s).2 ≠ 0 then ((refresh s).1, .err (refresh s).2)
    else ((refresh s).1,
          if writable then writableVerdict (cachedPartitions (refresh s).1 t true)
          else partitionsVerdict (cachedPartitions (refresh s).1 t false))
  else (s, if writable then writableVerdict (cachedPartitions s t true)
           else partitionsVerdict (cachedPartitions s t false))

/-- `Replicas` / `InSyncReplicas` / `OfflineReplicas` -/
def apiReplicas (refresh : State → State × Int) (sel : PartMeta → List Int) (s : State) (t : Topic) (p : Int) :
    State × ListRes :=
  if (cachedMetadata s t p).isNone then
    if (refresh s).2 ≠ 0 then ((refresh s).1, .err (refresh s).2)
    else ((refresh s).1, replicasVerdict sel (cachedMetadata (refresh s).1 t p))
  else (s, replicasVerdict sel (cachedMetadata s t p))

inductive LeaderApiRes
  | res (r : LeaderRes)
  | err (e : Int)
deriving DecidableEq, Repr

def leaderIsBroker : LeaderRes → Bool
  | .broker _ _ => true
  | _ => false

/-- `Leader`: refreshes whenever the cached answer is not a broker -/
def apiLeader (refresh : State → State × Int) (s : State) (t : Topic) (p : Int) : State × LeaderApiRes :=
  if leaderIsBroker (cachedLeader s t p) then (s, .res (cachedLeader s t p))
  else if (refresh s).2 ≠ 0 then ((refresh s).1, .err (refresh s).2)
  else ((refresh s).1, .res (cachedLeader (refresh s).1 t p))

/-! ### broker bookkeeping outside updateMetadata -/
/-- `deregisterBroker(seedBrokers[0])` -/
def deregisterSeed (s : State) : State :=
  match s.seeds with
  | [] => s
  | a :: rest => { s with seeds := rest, dead := s.dead ++ [a] }

/-- `deregisterBroker(b)` for a broker that is not the head seed -/
def deregisterKnown (s : State) (id : Int) : State := { s with brokers := kerase Prod.fst id s.brokers }

def resurrect (s : State) : State := { s with seeds := s.seeds ++ s.dead, dead := [] }

/-- `registerBroker` (coordinator answers) -/
def registerBroker (s : State) (b : Int × Addr) : State := { s with brokers := regBroker s.brokers b }

/-- `deregisterController` -/
def deregisterController (s : State) : State := { s with brokers := kerase Prod.fst s.controller s.brokers }

/-- `RefreshBrokers(addrs)` (addrs already in the randomised order) -/
def refreshBrokers (s : State) (addrs : List Addr) : State := { s with brokers := [], seeds := addrs, dead := [] }

/-! ### candidate iteration of tryRefreshMetadata -/
/-- what a `GetMetadata` call to one candidate yields -/
inductive Reach
  | answer (r : Resp)
  | fail               -- unreachable / refused / failed mid-request / any other error: candidate is set aside
  | fatal (e : Int)    -- PacketEncodingError, ErrSASLAuthenticationFailed, ErrTopicAuthorizationFailed: returned at once
deriving Repr, Inhabited

/-- a `KError` returned by `GetMetadata` sets the candidate aside unless it is one of the two fatal ones -/
def kerrorDeregisters (e : Int) : Bool :=
  if e = errSASLAuthenticationFailed then false
  else if e = errTopicAuthorizationFailed then false
  else true

inductive PassOut
  | answered (r : Resp)
  | fatal (e : Int)
  | outOfBrokers
deriving Repr, Inhabited

structure PassRes where
  s : State
  out : PassOut
  tried : List Addr        -- ghost: addresses asked, in order
deriving Repr, Inhabited

/-- `any()` with no seed left: "not guaranteed to be random *or* deterministic" — `pick` is an arbitrary choice -/
def pickKnown (pick : List (Int × Addr) → Nat) (bs : List (Int × Addr)) : Option (Int × Addr) :=
  bs[pick bs % bs.length]?

/-- the loop of `tryRefreshMetadata` once the seed list is empty; fuel = number of known brokers -/
def passKnown (pick : List (Int × Addr) → Nat) (reach : Addr → Reach) : Nat → State → List Addr → PassRes
  | 0, s, tr => ⟨s, .outOfBrokers, tr⟩
  | n + 1, s, tr =>
    match pickKnown pick s.brokers with
    | none => ⟨s, .outOfBrokers, tr⟩
    | some b =>
      match reach b.2 with
      | .answer r => ⟨s, .answered r, tr ++ [b.2]⟩
      | .fatal e => ⟨s, .fatal e, tr ++ [b.2]⟩
      | .fail => passKnown pick reach n (deregisterKnown s b.1) (tr ++ [b.2])

/-- the loop of `tryRefreshMetadata` while seeds remain: `any()` = `seedBrokers[0]` -/
def passSeeds (pick : List (Int × Addr) → Nat) (reach : Addr → Reach) (s0 : State) :
    List Addr → List Addr → List Addr → PassRes
  | [], dead, tr => passKnown pick reach s0.brokers.length { s0 with seeds := [], dead := dead } tr
  | a :: rest, dead, tr =>
    match reach a with
    | .answer r => ⟨{ s0 with seeds := a :: rest, dead := dead }, .answered r, tr ++ [a]⟩
    | .fatal e => ⟨{ s0 with seeds := a :: rest, dead := dead }, .fatal e, tr ++ [a]⟩
    | .fail => passSeeds pick reach s0 rest (dead ++ [a]) (tr ++ [a])

def pass (pick : List (Int × Addr) → Nat) (reach : Addr → Reach) (s : State) : PassRes :=
  passSeeds pick reach s s.seeds s.dead []

/-- how a refresh ends -/
inductive RefreshRes
  | fromUpdate (err : Int)   -- a candidate answered; `err` is what `updateMetadata` returned (0 = nil)
  | fatal (e : Int)          -- returned at once (PacketEncodingError / SASL / topic authorization)
  | outOfBrokers             -- ErrOutOfBrokers
deriving DecidableEq, Repr, Inhabited

def RefreshRes.code : RefreshRes → Int
  | .fromUpdate e => e
  | .fatal e => e
  | .outOfBrokers => errOutOfBrokers

/-- one invocation of `tryRefreshMetadata` up to its `return`/`retry(...)`: state, "retry wanted", result -/
def attempt (pick : List (Int × Addr) → Nat) (reach : Addr → Reach) (full : Bool) (s : State) :
    State × Bool × RefreshRes :=
  match (pass pick reach s).out with
  | .answered r => ((updateMetadata (pass pick reach s).s r full).s,
                    (updateMetadata (pass pick reach s).s r full).retry,
                    .fromUpdate (updateMetadata (pass pick reach s).s r full).err)
  | .fatal e => ((pass pick reach s).s, false, .fatal e)
  | .outOfBrokers => (resurrect (pass pick reach s).s, true, .outOfBrokers)

/-- `tryRefreshMetadata(topics, attemptsRemaining, deadline = none)`; `env n` = reachability and `pick n` = the
    arbitrary choices of `any()` while `attemptsRemaining = n` -/
def tryRefresh (pick : Nat → List (Int × Addr) → Nat) (env : Nat → Addr → Reach) (full : Bool) :
    Nat → State → State × RefreshRes
  | 0, s => ((attempt (pick 0) (env 0) full s).1, (attempt (pick 0) (env 0) full s).2.2)
  | n + 1, s =>
    if (attempt (pick (n + 1)) (env (n + 1)) full s).2.1 then
      tryRefresh pick env full n (attempt (pick (n + 1)) (env (n + 1)) full s).1
    else ((attempt (pick (n + 1)) (env (n + 1)) full s).1, (attempt (pick (n + 1)) (env (n + 1)) full s).2.2)

/-- errors of the initial refresh that `NewClient` tolerates -/
def newClientTolerates (e : Int) : Bool :=
  decide (e = errNone ∨ e = errLeaderNotAvailable ∨ e = errReplicaNotAvailable ∨
          e = errTopicAuthorizationFailed ∨ e = errClusterAuthorizationFailed)

/-- `NewClient(addrs, conf)`; `seeds` = addrs in the randomised order; `none` = client not created -/
def newClient (pick : Nat → List (Int × Addr) → Nat) (env : Nat → Addr → Reach) (fullConf : Bool) (retryMax : Nat)
    (seeds : List Addr) : Option State × Int :=
  if fullConf then
    if newClientTolerates (tryRefresh pick env true retryMax (init seeds)).2.code then
      (some (tryRefresh pick env true retryMax (init seeds)).1, (tryRefresh pick env true retryMax (init seeds)).2.code)
    else (none, (tryRefresh pick env true retryMax (init seeds)).2.code)
  else (some (init seeds), 0)

/-! ### operation language (for invariants over every op sequence and for the driver) -/
inductive Op
  | update (r : Resp) (full : Bool)
  | deregSeed
  | deregKnown (id : Int)
  | resurrect
  | register (b : Int × Addr)
  | deregController
  | refreshBrokers (addrs : List Addr)
deriving Repr

def step (s : State) : Op → State
  | .update r full => (updateMetadata s r full).s
  | .deregSeed => deregisterSeed s
  | .deregKnown id => deregisterKnown s id
  | .resurrect => resurrect s
  | .register b => registerBroker s b
  | .deregController => deregisterController s
  | .refreshBrokers a => refreshBrokers s a

def run (s : State) (ops : List Op) : State := ops.foldl step s

end Model.Metadata
