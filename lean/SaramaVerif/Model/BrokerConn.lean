import SaramaVerif.GoSem
/-
  Model of ONE broker connection of broker.go (Open … Close): a labelled transition system.

  Processes
  * callers        `Broker.send` under `b.lock`: (conn == nil → ErrNotConnected) · encode · write to the wire ·
                   `correlationID++` · `b.responses <- promise` (blocks while the FIFO of capacity
                   MaxOpenRequests−1 is full and the receiver is busy) · unlock – in exactly this order.
  * receiver       `responseReceiver`: take the oldest promise · (dead → fail it) · read the header bytes ·
                   `responseHeader.decode` (length check, tag check) · compare the correlation id · read the
                   body · deliver, or fail and set the sticky `dead`.
  * server         arbitrary: sends arbitrary bytes in arbitrary chunks, closes, or stays silent (the read
                   deadline is the event `recvTimeout`).
  * Close          takes the lock, closes the FIFO, waits for the receiver to drain and exit, drops the conn.

  Everything external is an event parameter; nothing is an axiom.  Correlation ids are unbounded integers
  (int32 wrap-around after 2^32 requests on one connection is outside the model).

  Variant flag `reserve` (= `reservePromiseBeforeWrite`): `false` is the pinned tree – the request is written
  before the blocking enqueue, so one request more than MaxOpenRequests can be on the wire; `true` is the
  repaired order – a slot for the promise is reserved (blocking) before the write.
-/
namespace Model.BrokerConn
open Go

abbrev Bytes := List UInt8

structure Cfg where
  maxOpen : Nat        -- Net.MaxOpenRequests (≥ 1 by Config.Validate)
  maxResp : Int        -- sarama.MaxResponseSize
  reserve : Bool       -- variant reservePromiseBeforeWrite
  deriving DecidableEq, Repr

inductive Err
  | io | timeout | badLength | badTag | cidMismatch | notConnected | sendFailed
  deriving DecidableEq, Repr

inductive Outcome
  | delivered (body : Bytes)
  | failed (e : Err)
  deriving DecidableEq, Repr

/-- `responsePromise` (plus the call it belongs to) -/
structure Promise where
  call : Nat
  cid : Int
  hv : Nat            -- response header version (0 or 1)
  deriving DecidableEq, Repr

/-- who holds `b.lock` and how far its critical section got -/
inductive Holder
  | free
  | sending (call : Nat) (hv : Nat) (expect : Bool)   -- lock taken, conn checked, nothing written yet
  | written (p : Promise)                              -- request written, cid advanced, promise not yet enqueued
  | closing                                            -- Close holds the lock
  deriving DecidableEq, Repr

/-- what the receiver reads next for the promise in its hand -/
inductive Phase
  | header
  | body (hdr : Bytes) (need : Nat)
  deriving DecidableEq, Repr

/-- a completed promise: outcome and the raw header bytes the receiver consumed for it -/
structure DoneRec where
  p : Promise
  out : Outcome
  hdr : Bytes
  deriving DecidableEq, Repr

structure State where
  cfg : Cfg
  cid0 : Int                          -- correlation id of the first request (ghost)
  nextCid : Int                       -- b.correlationID
  holder : Holder
  wire : List (Promise × Bool)        -- request log of the wire: (call, cid, hv), expects-response
  enq : List Promise                  -- every promise ever put into b.responses, in order (ghost)
  queue : List Promise                -- content of b.responses
  cur : Option (Promise × Phase)      -- promise in the receiver's hand
  dead : Option Err                   -- `dead` of responseReceiver
  inbuf : Bytes                       -- bytes sent by the server, not yet consumed
  eof : Bool                          -- server closed its side
  sent : Bytes                        -- all bytes the server sent (ghost)
  consumed : Bytes                    -- all bytes the receiver consumed (ghost)
  done : List DoneRec                 -- completed promises, in completion order
  early : List (Nat × Option Err)     -- calls finished inside send(): error, or `none` = sent, no response expected
  chanClosed : Bool
  recvExited : Bool
  connNil : Bool
  deriving DecidableEq, Repr

inductive Event
  | sendBegin (call : Nat) (hv : Nat) (expect : Bool)
  | write (call : Nat)
  | writeFail (call : Nat)
  | enqueue (call : Nat)
  | recvDeq
  | recvHeader
  | recvBody
  | recvEOF
  | recvTimeout
  | srvBytes (bs : Bytes)
  | srvClose
  | closeBegin
  | recvExit
  | closeEnd
  deriving DecidableEq, Repr

inductive Reject
  | lockHeld | notHolder | slotBusy | fifoFull | receiverBusy | fifoEmpty | receiverGone | notReading
  | needBytes | dataAvailable | noEof | serverClosed | notConnected | notClosing | notDrained
  deriving DecidableEq, Repr

def init (cfg : Cfg) (cid0 : Int) : State :=
  { cfg := cfg, cid0 := cid0, nextCid := cid0, holder := .free, wire := [], enq := [], queue := [], cur := none,
    dead := none, inbuf := [], eof := false, sent := [], consumed := [], done := [], early := [],
    chanClosed := false, recvExited := false, connNil := false }

/-! ### pure pieces of the receive path (tied to the source by Bridge/C14) -/

/-- `getHeaderLength` -/
def headerLength (hv : Int) : Nat := if hv < 1 then 8 else 9

/-- big-endian int32 at offset `off` (`realDecoder.getInt32`) -/
def be32 (bs : Bytes) (off : Nat) : Int :=
  wrap32 (((bs.getD off 0).toNat * 16777216 + (bs.getD (off + 1) 0).toNat * 65536
          + (bs.getD (off + 2) 0).toNat * 256 + (bs.getD (off + 3) 0).toNat : Nat) : Int)

/-- the length check of `responseHeader.decode` -/
def lengthBad (maxResp len : Int) : Bool := decide (len ≤ 4 ∨ len > maxResp)

/-- size of the body buffer in responseReceiver: `decodedHeader.length - int32(headerLength) + 4` -/
def bodyLength (len : Int) (hlen : Nat) : Nat := (len - (hlen : Int) + 4).toNat

inductive HeaderResult
  | ok (len : Int) (cid : Int)
  | bad (e : Err)
  deriving DecidableEq, Repr

/-- `versionedDecode(header, &responseHeader{}, hv)` on exactly `headerLength hv` bytes -/
def decodeHeader (maxResp : Int) (hv : Nat) (hdr : Bytes) : HeaderResult :=
  if lengthBad maxResp (be32 hdr 0) then .bad .badLength
  else if 1 ≤ hv ∧ hdr.getD 8 0 ≠ 0 then .bad .badTag
  else .ok (be32 hdr 0) (be32 hdr 4)

/-! ### helpers on states -/

def curCount (s : State) : Nat := match s.cur with | none => 0 | some _ => 1
def curList (s : State) : List Promise := match s.cur with | none => [] | some (p, _) => [p]
def holderWritten (s : State) : List Promise := match s.holder with | .written p => [p] | _ => []
def needOf (p : Promise) : Phase → Nat
  | .header => headerLength p.hv
  | .body _ need => need
def hdrOf : Phase → Bytes
  | .header => []
  | .body hdr _ => hdr

/-- requests written whose promise is not completed yet: "on the wire awaiting a response" -/
def onWire (s : State) : Nat := (holderWritten s).length + s.queue.length + curCount s

/-- the current promise fails with `e`: error to the caller, `dead` set -/
def failCur (s : State) (p : Promise) (hdr : Bytes) (e : Err) : State :=
  { s with cur := none, dead := some e, done := s.done ++ [⟨p, .failed e, hdr⟩] }

/-! ### the transitions -/

def stepSendBegin (s : State) (c hv : Nat) (expect : Bool) : Except Reject State :=
  match s.holder with
  | .free =>
    if s.connNil then .ok { s with early := s.early ++ [(c, some .notConnected)] }
    else .ok { s with holder := .sending c hv expect }
  | _ => .error .lockHeld

def stepWrite (s : State) (c : Nat) : Except Reject State :=
  match s.holder with
  | .sending c' hv expect =>
    if c' ≠ c then .error .notHolder
    else if expect then
      if s.cfg.reserve ∧ ¬ (s.queue.length + curCount s < s.cfg.maxOpen) then .error .slotBusy
      else .ok { s with wire := s.wire ++ [(⟨c, s.nextCid, hv⟩, true)], nextCid := s.nextCid + 1,
                        holder := .written ⟨c, s.nextCid, hv⟩ }
    else .ok { s with wire := s.wire ++ [(⟨c, s.nextCid, hv⟩, false)], nextCid := s.nextCid + 1,
                      holder := .free, early := s.early ++ [(c, none)] }
  | _ => .error .notHolder

def stepWriteFail (s : State) (c : Nat) : Except Reject State :=
  match s.holder with
  | .sending c' _ _ =>
    if c' ≠ c then .error .notHolder
    else .ok { s with holder := .free, early := s.early ++ [(c, some .sendFailed)] }
  | _ => .error .notHolder

def stepEnqueue (s : State) (c : Nat) : Except Reject State :=
  match s.holder with
  | .written p =>
    if p.call ≠ c then .error .notHolder
    else if s.queue.length + 1 < s.cfg.maxOpen ∨ (s.queue = [] ∧ s.cur = none) then
      .ok { s with queue := s.queue ++ [p], enq := s.enq ++ [p], holder := .free }
    else .error .fifoFull
  | _ => .error .notHolder

def stepRecvDeq (s : State) : Except Reject State :=
  if s.recvExited then .error .receiverGone
  else match s.cur with
  | some _ => .error .receiverBusy
  | none =>
    match s.queue with
    | [] => .error .fifoEmpty
    | p :: rest =>
      match s.dead with
      | some e => .ok { s with queue := rest, done := s.done ++ [⟨p, .failed e, []⟩] }
      | none => .ok { s with queue := rest, cur := some (p, .header) }

def stepRecvHeader (s : State) : Except Reject State :=
  match s.cur with
  | some (p, .header) =>
    if s.inbuf.length < headerLength p.hv then .error .needBytes
    else
      match decodeHeader s.cfg.maxResp p.hv (s.inbuf.take (headerLength p.hv)) with
      | .bad e =>
        .ok (failCur { s with inbuf := s.inbuf.drop (headerLength p.hv),
                              consumed := s.consumed ++ s.inbuf.take (headerLength p.hv) }
              p (s.inbuf.take (headerLength p.hv)) e)
      | .ok len cid =>
        if cid ≠ p.cid then
          .ok (failCur { s with inbuf := s.inbuf.drop (headerLength p.hv),
                                consumed := s.consumed ++ s.inbuf.take (headerLength p.hv) }
                p (s.inbuf.take (headerLength p.hv)) .cidMismatch)
        else
          .ok { s with inbuf := s.inbuf.drop (headerLength p.hv),
                       consumed := s.consumed ++ s.inbuf.take (headerLength p.hv),
                       cur := some (p, .body (s.inbuf.take (headerLength p.hv))
                                              (bodyLength len (headerLength p.hv))) }
  | _ => .error .notReading

def stepRecvBody (s : State) : Except Reject State :=
  match s.cur with
  | some (p, .body hdr need) =>
    if s.inbuf.length < need then .error .needBytes
    else .ok { s with inbuf := s.inbuf.drop need, consumed := s.consumed ++ s.inbuf.take need, cur := none,
                      done := s.done ++ [⟨p, .delivered (s.inbuf.take need), hdr⟩] }
  | _ => .error .notReading

def stepRecvEOF (s : State) : Except Reject State :=
  match s.cur with
  | some (p, ph) =>
    if ¬ s.eof then .error .noEof
    else if needOf p ph ≤ s.inbuf.length then .error .dataAvailable
    else .ok (failCur s p (hdrOf ph) .io)
  | none => .error .notReading

def stepRecvTimeout (s : State) : Except Reject State :=
  match s.cur with
  | some (p, ph) =>
    if needOf p ph ≤ s.inbuf.length then .error .dataAvailable
    else .ok (failCur s p (hdrOf ph) .timeout)
  | none => .error .notReading

def stepSrvBytes (s : State) (bs : Bytes) : Except Reject State :=
  if s.eof then .error .serverClosed
  else .ok { s with inbuf := s.inbuf ++ bs, sent := s.sent ++ bs }

def stepSrvClose (s : State) : Except Reject State :=
  if s.eof then .error .serverClosed else .ok { s with eof := true }

def stepCloseBegin (s : State) : Except Reject State :=
  match s.holder with
  | .free =>
    if s.connNil then .error .notConnected
    else .ok { s with holder := .closing, chanClosed := true }
  | _ => .error .lockHeld

def stepRecvExit (s : State) : Except Reject State :=
  if s.recvExited then .error .receiverGone
  else if ¬ s.chanClosed then .error .notClosing
  else match s.cur with
  | some _ => .error .notDrained
  | none =>
    match s.queue with
    | [] => .ok { s with recvExited := true }
    | _ :: _ => .error .notDrained

def stepCloseEnd (s : State) : Except Reject State :=
  match s.holder with
  | .closing =>
    if s.recvExited then .ok { s with holder := .free, connNil := true } else .error .notDrained
  | _ => .error .notClosing

/-- the executable transition function -/
def step (s : State) : Event → Except Reject State
  | .sendBegin c hv ex => stepSendBegin s c hv ex
  | .write c => stepWrite s c
  | .writeFail c => stepWriteFail s c
  | .enqueue c => stepEnqueue s c
  | .recvDeq => stepRecvDeq s
  | .recvHeader => stepRecvHeader s
  | .recvBody => stepRecvBody s
  | .recvEOF => stepRecvEOF s
  | .recvTimeout => stepRecvTimeout s
  | .srvBytes bs => stepSrvBytes s bs
  | .srvClose => stepSrvClose s
  | .closeBegin => stepCloseBegin s
  | .recvExit => stepRecvExit s
  | .closeEnd => stepCloseEnd s

/-- run a trace; the first rejected event aborts -/
def run (s : State) : List Event → Except Reject State
  | [] => .ok s
  | e :: es => match step s e with
    | .ok s' => run s' es
    | .error r => .error r

/-- states reachable from the initial state of a configuration -/
def Reach (cfg : Cfg) (cid0 : Int) (s : State) : Prop := ∃ evs, run (init cfg cid0) evs = .ok s

/-! ### observations used by the property statements -/

def isDeliv (d : DoneRec) : Bool := match d.out with | .delivered _ => true | .failed _ => false
def bodyOf (d : DoneRec) : Bytes := match d.out with | .delivered b => b | .failed _ => []
/-- the bytes of the server's stream that a completed promise was served from: header ++ body -/
def rawFrame (d : DoneRec) : Bytes := d.hdr ++ bodyOf d
/-- concatenation of the frames of all delivered promises, in completion order -/
def goodBytes (s : State) : Bytes := ((s.done.filter isDeliv).map rawFrame).flatten
/-- header bytes already consumed for the promise in the receiver's hand -/
def curHdr (s : State) : Bytes := match s.cur with | some (_, ph) => hdrOf ph | none => []
/-- a delivered record is well-formed: its header bytes decode (length and tag checks pass) to the promise's
    own correlation id and the body has exactly the announced size -/
def WF (maxResp : Int) (d : DoneRec) : Prop :=
  ∃ len, decodeHeader maxResp d.p.hv d.hdr = .ok len d.p.cid ∧ d.hdr.length = headerLength d.p.hv ∧
    (bodyOf d).length = bodyLength len (headerLength d.p.hv)

end Model.BrokerConn
