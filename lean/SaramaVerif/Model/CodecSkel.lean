import SaramaVerif.Model.CodecFmt
/-
  Skeletons of sarama's `encode` / `decode` methods, as tools/skel reads them off the Go AST
  (Gen/C09Skel.lean is regenerated from /repo on every run), and their interpretation.

  `Skel` keeps the control structure of the source: version conditions as written (`VCond`), value-dependent
  alternatives of the encoder (`alt`), count statements as written (`CountSel`: which put/get carries the
  count, where the null form `putInt32(-1)` / `putUVarint(0)` is written), loops attached to their count,
  push/pop fields, nested calls inlined (a nested call with a literal version is `atVer`).

  Interpretation is per protocol version: `normAt ver s` resolves every version condition and flattens the
  skeleton to the sequence of wire fields (`NF`) that version reads / writes.  On normal forms:
    `NF.mirror e d`  the decode side reads, field by field, what the encode side writes (a decoder may accept
                     more: a null array the encoder never writes, the nullable compact int32 array getter);
    `NF.toFmt`       the schema (`Fmt` of Model/CodecFmt.lean) of that version.
  `mirror` / `schemaTie` check all versions from 0 up to one above every constant a condition mentions
  (beyond which nothing changes any more: `Props/C09skel.lean`, `normAt_stable`).
-/
namespace Model.Codec

/-- a condition on the protocol version, as the source spells it -/
inductive VCond
  | tt | ff
  | ge (n : Nat) | gt (n : Nat) | le (n : Nat) | lt (n : Nat) | eq (n : Nat) | ne (n : Nat)
  | not (c : VCond) | and (a b : VCond) | or (a b : VCond)
  deriving Repr

def VCond.eval : VCond → Nat → Bool
  | .tt, _ => true
  | .ff, _ => false
  | .ge n, v => decide (n ≤ v)
  | .gt n, v => decide (n < v)
  | .le n, v => decide (v ≤ n)
  | .lt n, v => decide (v < n)
  | .eq n, v => decide (v = n)
  | .ne n, v => decide (v ≠ n)
  | .not c, v => !(c.eval v)
  | .and a b, v => a.eval v && b.eval v
  | .or a b, v => a.eval v || b.eval v

/-- the largest constant a condition mentions -/
def VCond.maxC : VCond → Nat
  | .tt | .ff => 0
  | .ge n | .gt n | .le n | .lt n | .eq n | .ne n => n
  | .not c => c.maxC
  | .and a b | .or a b => max a.maxC b.maxC

/-- which call carries an element count -/
inductive CKind
  | i32          -- putArrayLength / getArrayLength
  | i32raw       -- getInt32 used as a count
  | compact      -- putCompactArrayLength / getCompactArrayLength
  | uvarintRaw   -- getUVarint − 1 used as a count
  | varint       -- putVarint(len) / getVarint (record headers)
  deriving DecidableEq, Repr

/-- what is on the wire -/
inductive WKind | i32 | compact | varint
  deriving DecidableEq, Repr

def CKind.wire : CKind → WKind
  | .i32 | .i32raw => .i32
  | .compact | .uvarintRaw => .compact
  | .varint => .varint

/-- a count statement: a count call, the null literal (`putInt32(-1)`, `putUVarint(0)`), a choice by version, a
    choice by the value (`dsel`, encode side) -/
inductive CountSel
  | cnt (k : CKind)
  | nul (k : CKind)
  | sel (c : VCond) (a b : CountSel)
  | dsel (a b : CountSel)
  deriving Repr

/-- at a version: the wire kind and whether the null form may be written -/
def CountSel.resolve (ver : Nat) : CountSel → Option (WKind × Bool)
  | .cnt k => some (k.wire, false)
  | .nul k => some (k.wire, true)
  | .sel c a b => if c.eval ver then a.resolve ver else b.resolve ver
  | .dsel a b =>
    match a.resolve ver, b.resolve ver with
    | some (w1, n1), some (w2, n2) => if w1 = w2 then some (w1, n1 || n2) else none
    | _, _ => none

def CountSel.maxC : CountSel → Nat
  | .cnt _ | .nul _ => 0
  | .sel c a b => max c.maxC (max a.maxC b.maxC)
  | .dsel a b => max a.maxC b.maxC

inductive Skel
  | skip
  | prim (p : Prim)                     -- pe.putX(field) / field = pd.getX()
  | lit (p : Prim)                      -- pe.putX(constant)
  | seq (a b : Skel)
  | ifv (c : VCond) (t e : Skel)        -- if <version condition> { t } else { e }
  | alt (a b : Skel)                    -- if <condition on the value> { a } else { b }   (encode side)
  | array (cs : CountSel) (acceptNull : Bool) (elem : Skel)   -- count statement + loop over the elements;
                                        -- acceptNull (decode side): no `if n < 0 { return err }` after the count
  | atVer (n : Nat) (s : Skel)          -- nested call with the literal version n
  | len32 (s : Skel)                    -- push(&lengthField{}) … pop()
  | varlen (s : Skel)                   -- push(&varintLengthField) … pop()
  | crc (p : Poly) (s : Skel)           -- push(newCRC32Field(p)) … pop()
  | unsupported (reason : String)
  deriving Repr

def Skel.seqL : List Skel → Skel
  | [] => .skip
  | [s] => s
  | s :: ss => .seq s (Skel.seqL ss)

def Skel.maxC : Skel → Nat
  | .skip | .prim _ | .lit _ | .unsupported _ => 0
  | .seq a b | .alt a b => max a.maxC b.maxC
  | .ifv c t e => max c.maxC (max t.maxC e.maxC)
  | .array cs _ e => max cs.maxC e.maxC
  | .atVer _ _ => 0
  | .len32 s | .varlen s | .crc _ s => s.maxC

/-- normal form of one version: the wire fields in order -/
inductive NF
  | nil
  | prim (p : Prim) (rest : NF)
  | arr (w : WKind) (null : Bool) (elem rest : NF)
  | len32 (body rest : NF)
  | varlen (body rest : NF)
  | crc (p : Poly) (body rest : NF)
  | bad
  deriving DecidableEq, Repr

/-- structural equality (evaluates faster in the kernel than the derived `DecidableEq`) -/
def NF.beq : NF → NF → Bool
  | .nil, .nil => true
  | .bad, .bad => true
  | .prim p r, .prim q s => decide (p = q) && NF.beq r s
  | .arr w n e r, .arr w' n' e' r' => decide (w = w') && (n == n') && NF.beq e e' && NF.beq r r'
  | .len32 b r, .len32 b' r' => NF.beq b b' && NF.beq r r'
  | .varlen b r, .varlen b' r' => NF.beq b b' && NF.beq r r'
  | .crc p b r, .crc q b' r' => decide (p = q) && NF.beq b b' && NF.beq r r'
  | _, _ => false

/-- `normAt ver s k`: the fields of `s` at version `ver`, followed by `k` -/
def normAt : Nat → Skel → NF → NF
  | _, .skip, k => k
  | _, .prim p, k => .prim p k
  | _, .lit p, k => .prim p k
  | ver, .seq a b, k => normAt ver a (normAt ver b k)
  | ver, .ifv c t e, k => if c.eval ver then normAt ver t k else normAt ver e k
  | ver, .alt a b, k => if (normAt ver a .nil).beq (normAt ver b .nil) then normAt ver a k else .bad
  | ver, .array cs acc e, k =>
    match cs.resolve ver with
    | some (w, n) => .arr w (n || acc) (normAt ver e .nil) k
    | none => .bad
  | _, .atVer n s, k => normAt n s k
  | ver, .len32 s, k => .len32 (normAt ver s .nil) k
  | ver, .varlen s, k => .varlen (normAt ver s .nil) k
  | ver, .crc p s, k => .crc p (normAt ver s .nil) k
  | _, .unsupported _, _ => .bad

/-- a getter that reads what the putter writes: the same pair, or `getCompactInt32Array` (which returns nil for
    the null array, i.e. is the nullable getter) against `putCompactInt32Array` -/
def primOK (p q : Prim) : Bool := decide (p = q) || (decide (p = .ci32arr) && decide (q = .nci32arr))

/-- `putCompactInt32Array` on the encode side, an explicit loop `getCompactArrayLength; getInt32 …` on the decode
    side (the other array putters are NOT interchangeable with an explicit loop: `getArrayLength` rejects counts
    above 2·MaxUint16 that `getInt32Array` / `getStringArray` accept) -/
def NF.isPrim (q : Prim) : NF → Bool
  | .prim p .nil => decide (p = q)
  | _ => false

def loopOK (p : Prim) (w : WKind) (e : NF) : Bool := decide (p = .ci32arr) && decide (w = .compact) && e.isPrim .i32

/-- field by field: same wire kinds; where the encoder may write a null array the decoder accepts it -/
def NF.mirror : NF → NF → Bool
  | .nil, .nil => true
  | .prim p r, .prim q s => primOK p q && NF.mirror r s
  | .prim p r, .arr w _ e s => loopOK p w e && NF.mirror r s
  | .arr w n e r, .arr w' n' e' r' => decide (w = w') && (!n || n') && NF.mirror e e' && NF.mirror r r'
  | .len32 b r, .len32 b' r' => NF.mirror b b' && NF.mirror r r'
  | .varlen b r, .varlen b' r' => NF.mirror b b' && NF.mirror r r'
  | .crc p b r, .crc q b' r' => decide (p = q) && NF.mirror b b' && NF.mirror r r'
  | _, _ => false

def countOf : WKind → Bool → Count
  | .i32, false => .i32
  | .i32, true => .i32null
  | .compact, _ => .compact     -- the schema language has no null form for compact counts
  | .varint, _ => .varint

def NF.isNil : NF → Bool
  | .nil => true
  | _ => false

/-- the field `h` followed by the remaining fields (none: `last`; else their schema is `fr`) -/
def consFmt (h : Option Fmt) (last : Bool) (fr : Option Fmt) : Option Fmt :=
  match h, last, fr with
  | some h, true, _ => some h
  | some h, false, some f => some (.seq h f)
  | _, _, _ => none

/-- the schema of a normal form: right-nested `seq`, like `seqL` of Model/CodecSchemas.lean -/
def NF.toFmt : NF → Option Fmt
  | .nil => some .unit
  | .bad => none
  | .prim p r => consFmt (some (.prim p)) r.isNil r.toFmt
  | .arr w n e r => consFmt (e.toFmt.map (Fmt.arr (countOf w n))) r.isNil r.toFmt
  | .len32 b r => consFmt (b.toFmt.map Fmt.len32) r.isNil r.toFmt
  | .varlen b r => consFmt (b.toFmt.map Fmt.varlen) r.isNil r.toFmt
  | .crc p b r => consFmt (b.toFmt.map (Fmt.crc p)) r.isNil r.toFmt

/-- `g` carries everything `f` carries, with the same bytes: the same schema up to a decoder that also accepts
    the null form of an int32-counted array or of a compact int32 array (`sub_sound` in Props/C09skel.lean) -/
def Fmt.isPrim (q : Prim) : Fmt → Bool
  | .prim p => decide (p = q)
  | _ => false

def Fmt.sub : Fmt → Fmt → Bool
  | .prim p, .prim q => primOK p q
  | .prim p, .arr c e => decide (p = .ci32arr) && decide (c = .compact) && e.isPrim .i32
  | .unit, .unit => true
  | .seq a b, .seq c d => Fmt.sub a c && Fmt.sub b d
  | .ite lo hi a b, .ite lo' hi' c d => decide (lo = lo') && decide (hi = hi') && Fmt.sub a c && Fmt.sub b d
  | .arr c e, .arr c' e' => (decide (c = c') || (decide (c = .i32) && decide (c' = .i32null))) && Fmt.sub e e'
  | .len32 f, .len32 g => Fmt.sub f g
  | .varlen f, .varlen g => Fmt.sub f g
  | .crc p f, .crc q g => decide (p = q) && Fmt.sub f g
  | _, _ => false

/-- the schema of a skeleton at a version -/
def Skel.fmtAt (s : Skel) (ver : Nat) : Option Fmt := (normAt ver s .nil).toFmt

def allUpTo (p : Nat → Bool) : Nat → Bool
  | 0 => p 0
  | n + 1 => p (n + 1) && allUpTo p n

/-- one above every constant of both skeletons: from there on nothing changes -/
def vbound (e d : Skel) : Nat := max e.maxC d.maxC + 1

def mirrorAt (ver : Nat) (e d : Skel) : Bool := NF.mirror (normAt ver e .nil) (normAt ver d .nil)

/-- the decode skeleton reads what the encode skeleton writes, at every version -/
def mirror (e d : Skel) : Bool := allUpTo (fun ver => mirrorAt ver e d) (vbound e d)

/-- the same for the versions 0..n only (types whose two sides part beyond the versions they implement) -/
def mirrorUpTo (n : Nat) (e d : Skel) : Bool := allUpTo (fun ver => mirrorAt ver e d) n

/-! ### tie to the hand-written schemas -/

def countSel : Count → CountSel
  | .i32 => .cnt .i32
  | .i32null => .dsel (.cnt .i32) (.nul .i32)
  | .compact => .cnt .compact
  | .varint => .cnt .varint

/-- a schema as a skeleton (`hi ≥ 1000000` is the open end of `Fmt.gate`) -/
def ofFmt : Fmt → Skel
  | .prim p => .prim p
  | .unit => .skip
  | .seq a b => .seq (ofFmt a) (ofFmt b)
  | .ite lo hi a b => .ifv (if Nat.ble 1000000 hi then .ge lo else .and (.ge lo) (.le hi)) (ofFmt a) (ofFmt b)
  | .arr c e => .array (countSel c) false (ofFmt e)
  | .len32 f => .len32 (ofFmt f)
  | .varlen f => .varlen (ofFmt f)
  | .crc p f => .crc p (ofFmt f)

/-- `putStringArray` writes what an int32 count and `putString` per element write: one spelling for comparison;
    compact counts: the null form `putUVarint(0)` has no counterpart in `Fmt` -/
def NF.expand : NF → NF
  | .nil => .nil
  | .bad => .bad
  | .prim .strarr r => .arr .i32 false (.prim .str .nil) r.expand
  | .prim p r => .prim p r.expand
  | .arr .compact _ e r => .arr .compact false e.expand r.expand   -- (the schema language has no null form here)
  | .arr w n e r => .arr w n e.expand r.expand
  | .len32 b r => .len32 b.expand r.expand
  | .varlen b r => .varlen b.expand r.expand
  | .crc p b r => .crc p b.expand r.expand

def NF.ok : NF → Bool
  | .nil => true
  | .bad => false
  | .prim _ r => r.ok
  | .arr _ _ e r => e.ok && r.ok
  | .len32 b r | .varlen b r | .crc _ b r => b.ok && r.ok

def tieAt (ver : Nat) (e s : Skel) : Bool :=
  (normAt ver e .nil).ok && (normAt ver e .nil).expand.beq (normAt ver s .nil).expand

/-- at every version the skeleton has the fields of the hand-written schema: same primitives, same count kinds and
    null forms, same nesting of arrays and push/pop fields, in the same order (units and the grouping of
    sequences do not matter) -/
def schemaTie (e : Skel) : Option Fmt → Bool
  | none => false
  | some f => allUpTo (fun ver => tieAt ver e (ofFmt f)) (vbound e (ofFmt f))

def schemaTieUpTo (n : Nat) (e : Skel) : Option Fmt → Bool
  | none => false
  | some f => allUpTo (fun ver => tieAt ver e (ofFmt f)) n

end Model.Codec
