/-
  Model of the async producer's message accounting (async_producer.go): which events the pipeline may emit
  for a message, in which order, and how the in-flight WaitGroup follows them.

  A message is a token (Int id: > 0 for messages submitted by the application, < 0 for the internal
  syn/fin/shutdown markers, 0 for "no message").  The state keeps *logs* (lists of ids) rather than maps, so
  that every quantity of interest is a `List.count`:
    retries of a message      = count id retryLog
    interceptor applications  = count id iceptLog
    dispatcher passes         = count id passLog
    sequence stamps           = count id seqLog
  Events are the hook points of /repo (`verifEvt` calls, build tag verif); `step` accepts an event only if the
  code was entitled to emit it in the current state.  The trace-validation harness replays the real event
  stream of every scenario through `step` (first rejected event = correspondence failure); the theorems in
  Props/C01, C18 hold for EVERY accepted event sequence, hence for every schedule and fault script.

  A terminal event for an internal marker is never accepted (on the pinned tree the idempotent producer could
  emit one: fixed in /repo, see known_findings.json).
-/
namespace Model.Producer

structure Cfg where
  retryMax : Nat
  icepts   : Nat
  idem     : Bool
  deriving Repr, DecidableEq

inductive Ev
  | accept (id : Int)            -- dispatcher: first pass of a new message, inFlight.Add(1)
  | reject (id : Int)            -- dispatcher: new message after shutdown began → ErrShuttingDown event
  | icept (id : Int)             -- dispatcher: one interceptor applied
  | pass (id : Int) (r : Nat)    -- dispatcher: message goes on to the topic producer (retries = r)
  | shutdownSeen                 -- dispatcher consumed the shutdown marker, inFlight.Done
  | wgAdd (isShutdown : Bool)    -- inFlight.Add(1) for an internal marker (syn / fin / shutdown)
  | wgDone (id : Int)            -- inFlight.Done for a syn / fin marker
  | retry (id : Int) (r : Nat)   -- retryMessage / retryBatch: retries incremented to r, re-queued
  | retErr (id : Int)            -- returnError: error event + inFlight.Done
  | retSucc (id : Int)           -- returnSuccesses: success event + inFlight.Done
  | seq (id : Int)               -- partition producer stamped a sequence number
  | stamp (id : Int) (epoch seq : Int)   -- partition producer stamped (epoch, sequence) on the message (carried by `seq` events)
  | bump (id : Int)              -- returnError bumped the producer epoch because the failed message carried a sequence number
  | stampAt (p epoch seq : Int)          -- … on a message of partition p: the counter value getAndIncrementSequenceNumber returned
  | setStamp (epoch firstSeq : Int)      -- a produce set about to go on the wire: the stamp its batch carries
  | sent (id : Int) (idx : Int)          -- … and the idx-th message of that batch
  | sentEnd                              -- end of the produce set
  | reentry (id : Int) (batch : Bool)    -- the message re-entered through retryBatch (true) or retryMessage (false)
  | waited                       -- shutdown: inFlight.Wait returned
  | close                        -- shutdown: output channels are closed
  | other                        -- events that do not concern the accounting
  deriving Repr, DecidableEq

structure St where
  cfg       : Cfg
  live      : List Int := []     -- accepted application messages without a terminal event
  markers   : Nat := 0           -- syn/fin markers counted in the WaitGroup (the shutdown marker is counted
                                 -- while shutdownStarted ∧ ¬shutdownSeen)
  wg        : Int := 0           -- the WaitGroup counter
  accepted  : List Int := []
  rejected  : List Int := []
  succ      : List Int := []
  errs      : List Int := []
  retryLog  : List Int := []
  iceptLog  : List Int := []
  passLog   : List Int := []
  seqLog    : List Int := []
  msgStamp  : List (Int × Int × Int) := []   -- id ↦ (epoch, sequence) given by the partition producer
  lastSent  : List (Int × Int × Int) := []   -- id ↦ (epoch, sequence) under which it last went on the wire
  viaBatch  : List Int := []                 -- ids whose latest re-entry was a whole-batch resend (retryBatch)
  curStamp  : Option (Int × Int) := none     -- stamp of the produce set currently being reported
  stampLog  : List (Int × Int × Int) := []   -- (partition, epoch, sequence) of every stamp given, newest first
  bumps     : List Int := []                 -- ids whose failure bumped the producer epoch
  shutdownStarted : Bool := false
  shutdownSeen    : Bool := false
  waited    : Bool := false
  closed    : Bool := false
  deriving Repr

def init (cfg : Cfg) : St := { cfg := cfg }

/-- failed messages that carried a sequence number and whose failure has not bumped the epoch (must be none at the end) -/
def unbumped (s : St) : List Int := s.errs.filter (fun id => s.seqLog.count id ≠ 0 ∧ s.bumps.count id = 0)

/-- number of stamps already given in (partition, epoch): the value the sequence counter of that partition holds in
    that epoch (bumpEpoch increments the epoch and resets every counter in one critical section) -/
def stampCount (l : List (Int × Int × Int)) (p e : Int) : Nat :=
  (l.filter (fun x => x.1 = p ∧ x.2.1 = e)).length

def retriesOf (s : St) (id : Int) : Nat := s.retryLog.count id

def lookup3 (l : List (Int × Int × Int)) (id : Int) : Option (Int × Int) :=
  match l.find? (fun x => x.1 = id) with
  | some x => some x.2
  | none => none

def insert3 (l : List (Int × Int × Int)) (id : Int) (v : Int × Int) : List (Int × Int × Int) :=
  (id, v.1, v.2) :: l.filter (fun x => x.1 ≠ id)

def step (s : St) : Ev → Except String St
  | .accept id =>
    if id ≤ 0 then .error "accept: not an application message"
    else if id ∈ s.accepted ∨ id ∈ s.rejected then .error "accept: message submitted twice"
    else if s.shutdownSeen then .error "accept: accepted after the shutdown marker"
    else if s.closed then .error "accept: after close"
    else .ok { s with live := id :: s.live, accepted := id :: s.accepted, wg := s.wg + 1 }
  | .reject id =>
    if id ≤ 0 then .error "reject: not an application message"
    else if id ∈ s.accepted ∨ id ∈ s.rejected then .error "reject: message submitted twice"
    else if ¬ s.shutdownSeen then .error "reject: ErrShuttingDown before the shutdown marker"
    else if s.closed then .error "reject: event after close"
    else .ok { s with rejected := id :: s.rejected, errs := id :: s.errs }
  | .icept id =>
    if id ∉ s.live then .error "icept: interceptor applied to something that is not a live application message"
    else if s.retryLog.count id ≠ 0 then .error "icept: interceptor applied on a retry"
    else if s.passLog.count id ≠ 0 then .error "icept: interceptor applied after the first pass"
    else if s.iceptLog.count id ≥ s.cfg.icepts then .error "icept: more applications than interceptors"
    else .ok { s with iceptLog := id :: s.iceptLog }
  | .pass id r =>
    if id ≤ 0 then .ok s
    else if id ∉ s.live then .error "pass: message is not live"
    else if s.retryLog.count id ≠ r then .error "pass: retry count differs from the accounting"
    else if s.passLog.count id > r then .error "pass: more dispatcher passes than retries + 1"
    else if s.iceptLog.count id ≠ s.cfg.icepts then .error "pass: interceptor chain not applied exactly once"
    else .ok { s with passLog := id :: s.passLog }
  | .shutdownSeen =>
    if ¬ s.shutdownStarted then .error "shutdown marker without shutdown"
    else if s.shutdownSeen then .error "shutdown marker twice"
    else .ok { s with shutdownSeen := true, wg := s.wg - 1 }
  | .wgAdd sh =>
    if s.waited then .error "wgAdd: after Wait returned"
    else if sh && s.shutdownStarted then .error "shutdown started twice"
    else if sh then .ok { s with wg := s.wg + 1, shutdownStarted := true }
    else .ok { s with markers := s.markers + 1, wg := s.wg + 1 }
  | .wgDone id =>
    if id ≥ 0 then .error "wgDone: marker expected"
    else if s.markers = 0 then .error "wgDone: no marker outstanding"
    else .ok { s with markers := s.markers - 1, wg := s.wg - 1 }
  | .retry id r =>
    if id < 0 then .ok s
    else if id ∉ s.live then .error "retry: message is not live"
    else if s.retryLog.count id + 1 ≠ r then .error "retry: retries not incremented by one"
    else if r > s.cfg.retryMax then .error "retry: beyond Retry.Max"
    else .ok { s with retryLog := id :: s.retryLog }
  | .retErr id =>
    if s.closed then .error "retErr: event after close"
    else if id > 0 then
      if id ∈ s.live then .ok { s with live := s.live.erase id, errs := id :: s.errs, wg := s.wg - 1 }
      else .error "retErr: error event for a message that is not live (second outcome or never accepted)"
    else .error "retErr: error event for an internal marker"
  | .retSucc id =>
    if s.closed then .error "retSucc: event after close"
    else if id > 0 then
      if id ∈ s.live then .ok { s with live := s.live.erase id, succ := id :: s.succ, wg := s.wg - 1 }
      else .error "retSucc: success event for a message that is not live (second outcome or never accepted)"
    else .error "retSucc: success event for an internal marker"
  | .seq id =>
    if ¬ s.cfg.idem then .error "seq: sequence number without idempotence"
    else if id ∉ s.live then .error "seq: message is not live"
    else if s.retryLog.count id ≠ 0 then .error "seq: sequence stamped on a retry"
    else if s.seqLog.count id ≠ 0 then .error "seq: sequence stamped twice"
    else .ok { s with seqLog := id :: s.seqLog }
  | .stamp id e q => .ok { s with msgStamp := insert3 s.msgStamp id (e, q) }
  | .bump id =>
    if id ∉ s.errs then .error "bump: epoch bumped for a message that has no error event"
    else if s.seqLog.count id = 0 then .error "bump: epoch bumped for a message that never got a sequence number"
    else if s.bumps.count id ≠ 0 then .error "bump: epoch bumped twice for one message"
    else .ok { s with bumps := id :: s.bumps }
  | .stampAt p e q =>
    if q ≠ (stampCount s.stampLog p e : Int) then
      .error "stampAt: the sequence given is not the number of stamps already given to this partition in this epoch"
    else .ok { s with stampLog := (p, e, q) :: s.stampLog }
  | .setStamp e f => .ok { s with curStamp := some (e, f) }
  | .sentEnd => .ok { s with curStamp := none }
  | .reentry id b =>
    if b then .ok { s with viaBatch := id :: s.viaBatch.filter (· ≠ id) }
    else .ok { s with viaBatch := s.viaBatch.filter (· ≠ id) }
  | .sent id idx =>
    match s.curStamp with
    | none => .ok s                      -- not an idempotent batch: no stamp to check
    | some (e, f) =>
      if id ≤ 0 then .ok s
      else match lookup3 s.msgStamp id with
        | none => .error "sent: idempotent batch carries a message that was never given a sequence number"
        | some (me, _) =>
          if e < me then .error "sent: batch epoch is older than the stamp of one of its messages"
          else match lookup3 s.lastSent id with
            | some prev =>
              if id ∈ s.viaBatch ∧ prev ≠ (e, f + idx) then
                .error "sent: a whole-batch resend (retryBatch) went out under a different (epoch, sequence) than before"
              else .ok { s with lastSent := insert3 s.lastSent id (e, f + idx) }
            | none => .ok { s with lastSent := insert3 s.lastSent id (e, f + idx) }
  | .waited =>
    if ¬ s.shutdownStarted then .error "waited: no shutdown"
    else if s.wg ≠ 0 then .error "waited: WaitGroup counter not zero"
    else .ok { s with waited := true }
  | .close =>
    if ¬ s.waited then .error "close: before Wait returned"
    else if s.closed then .error "close: twice"
    else .ok { s with closed := true }
  | .other => .ok s

/-- run a whole event sequence; `none` if some event is rejected -/
def run (s : St) : List Ev → Except String St
  | [] => .ok s
  | e :: es => match step s e with
    | .ok s' => run s' es
    | .error m => .error m

end Model.Producer
