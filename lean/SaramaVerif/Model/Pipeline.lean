/-
  System model of the NON-idempotent async producer for ONE partition (partition 0) and `Retry.Max = M`:
  the components of async_producer.go connected by FIFO queues the way the Go channels connect them.

    user ─submit─▶ dq (p.input) ─dispatch─▶ pq (topicProducer → pp.input) ─ppRecv─▶ PP (Model.PartProd.recv)
        ─▶ (wk w).inq (bp.input of worker w) ─bpRecv─▶ BP (Model.BrokerProd.step) ─handover─▶ set at the bridge
        ─broker─▶ log / pending answer ─deliver─▶ BP ─▶ successes / errors / ret (p.retries + retryHandler buffer)
        ─retryOut─▶ dq

  `sysStep M s c` is one move of one component; the environment's decisions (verdicts, leader lookups,
  overflow tests, interleaving) are the `Choice`.  A choice that is not enabled yields `none`.
  Tokens are `Model.BrokerProd.Tok` with `part = 0`; the id of a data token is its rank (submission number).
-/
import SaramaVerif.Model.PartProd
import SaramaVerif.Model.BrokerProd

namespace Model.Pipeline
open Model

abbrev Tok := BrokerProd.Tok

/-- what the broker does with the produce request of one set -/
inductive Verdict
  | ok                      -- appended, acknowledged
  | retriable (app : Bool)  -- retriable error code, with or without append
  | fatal                   -- non-retriable error code, nothing appended
  | conn (app : Bool)       -- connection error before (`false`) or after (`true`) the append
  deriving Repr, DecidableEq

def Verdict.appends : Verdict → Bool
  | .ok => true
  | .retriable a => a
  | .fatal => false
  | .conn a => a

def Verdict.toResp : Verdict → BrokerProd.Resp
  | .ok => .verdicts (fun _ => .ok) [] []
  | .retriable _ => .verdicts (fun _ => .retriable) [] []
  | .fatal => .verdicts (fun _ => .fatal) [] []
  | .conn _ => .connErr [] []

/-- one broker worker: its input channel, the brokerProducer state, and the answer the broker has prepared for
    the set at the bridge (verdict, base offset) -/
structure Worker where
  inq  : List Tok := []
  bp   : BrokerProd.St := {}
  pend : Option (Verdict × Nat) := none

structure Sys where
  next  : Nat := 0                    -- rank of the next submission
  dq    : List Tok := []              -- p.input
  pq    : List Tok := []              -- pp.input
  pp    : PartProd.St := {}
  cur   : Option Nat := none          -- pp.brokerProducer
  wk    : Nat → Worker := fun _ => {}
  ret   : List Tok := []              -- p.retries ++ retryHandler buffer
  ldr   : Nat := 0                    -- broker that currently leads the partition
  log   : List Int := []              -- the partition log (ids, in append order)
  succ  : List (Int × Nat) := []      -- successes: (id, offset)
  errs  : List Int := []              -- error outcomes
  crash : Bool := false               -- newHighWatermark ran with pp.brokerProducer == nil

def setW (f : Nat → Worker) (w : Nat) (v : Worker) : Nat → Worker := fun k => if k = w then v else f k

/-- worker → broker (up to 64 worker incarnations per broker: abandoned or released workers and their successors) -/
def brokerOf (w : Nat) : Nat := w / 64

def toPP (t : Tok) : PartProd.Tok := ⟨t.id, t.retries, t.isFin⟩

def mkTok (id : Int) (level : Nat) (fin : Bool) : Tok := ⟨id, 0, level, if fin then .fin else .data⟩

def synTok : Tok := ⟨-1, 0, 0, .syn⟩

def finTok (level : Nat) : Tok := ⟨-2, 0, level, .fin⟩

def pushW (f : Nat → Worker) (w : Nat) (t : Tok) : Nat → Worker :=
  setW f w { f w with inq := (f w).inq ++ [t] }

/-- effect of one action of the partition producer on the rest of the system.  `lks` are the results of the
    leader lookups (`updateLeader`) this step may need: `some w` = worker `w` selected (a syn goes first),
    `none` (or an exhausted list) = the lookup fails and the message is returned with an error. -/
def ppAct (s : Sys) (lks : List (Option Nat)) : PartProd.Action → Sys × List (Option Nat)
  | .finSend l =>
    match s.cur with
    | none => ({ s with crash := true }, lks)
    | some w => ({ s with wk := pushW s.wk w (finTok l), cur := none }, lks)
  | .emit id l fin =>
    match s.cur with
    | some w => ({ s with wk := pushW s.wk w (mkTok id l fin) }, lks)
    | none =>
      match lks with
      | some w :: r => ({ s with cur := some w, wk := pushW (pushW s.wk w synTok) w (mkTok id l fin) }, r)
      | _ => ({ s with errs := if fin then s.errs else s.errs ++ [id] }, lks.tail)
  | .park _ => (s, lks)
  | .finDone => (s, lks)

def ppActs (s : Sys) (lks : List (Option Nat)) : List PartProd.Action → Sys
  | [] => s
  | a :: as => ppActs (ppAct s lks a).1 (ppAct s lks a).2 as

/-- effect of one action of a broker worker on the rest of the system; `off` is the offset the next
    acknowledged message of the answered set gets (offset = base + index, C04) -/
def bpAct (s : Sys) (off : Nat) : BrokerProd.Action → Sys × Nat
  | .requeue id p r fin => ({ s with ret := s.ret ++ [⟨id, p, r, if fin then .fin else .data⟩] }, off)
  | .succ id _ => ({ s with succ := s.succ ++ [(id, off)] }, off + 1)
  | .expire id _ fin => ({ s with errs := if fin then s.errs else s.errs ++ [id] }, off)
  | .fail id _ => ({ s with errs := s.errs ++ [id] }, off)
  | _ => (s, off)

def bpActs (s : Sys) (off : Nat) : List BrokerProd.Action → Sys
  | [] => s
  | a :: as => bpActs (bpAct s off a).1 (bpAct s off a).2 as

/-- run one input of `Model.BrokerProd.step` on worker `w` (with its input queue replaced by `q`) and apply the
    actions; `none` when the worker cannot take the input in its state -/
def bpRun (M : Nat) (s : Sys) (w : Nat) (q : List Tok) (pend : Option (Verdict × Nat)) (off : Nat)
    (i : BrokerProd.In) : Option Sys :=
  if (BrokerProd.step M (s.wk w).bp i).2 = [.disabled] then none
  else some (bpActs { s with wk := setW s.wk w ⟨q, (BrokerProd.step M (s.wk w).bp i).1, pend⟩ } off
               (BrokerProd.step M (s.wk w).bp i).2)

def dataIds (ts : List Tok) : List Int := (ts.filter (fun t => t.kind = .data)).map (·.id)

inductive Choice
  | submit                                  -- the user puts a fresh message on p.input
  | retryOut                                -- retryHandler: oldest bounced token → p.input
  | dispatch                                -- dispatcher + topicProducer: p.input → pp.input
  | ppRecv (lks : List (Option Nat))        -- partitionProducer takes a token; results of the leader lookups
  | bpRecv (w : Nat) (overflow : Bool)      -- worker `w` takes a token from its input channel
  | handover (w : Nat)                      -- the bridge of `w` takes the buffer as a produce set
  | broker (w : Nat) (v : Verdict)          -- the broker of `w` processes the set at the bridge
  | deliver (w : Nat) (still : Bool)        -- the answer reaches the run loop of `w`
  | moveLeader (b : Nat)                    -- leadership of the partition moves to broker `b`
  | closeW (w : Nat)                        -- the CURRENT worker `w`, holding nothing of the partition, is closed by the
                                            -- connection error of a request that carries other partitions' messages
  deriving Repr

def headSyn : List Tok → Bool
  | t :: _ => decide (t.kind = .syn)
  | [] => false

/-- `closeW w` is enabled when `w` is the worker the partition producer is bound to, in normal mode, with its syn
    consumed, and it holds nothing of the partition (nothing in the buffer, at the bridge, held, or answered) -/
def canClose (s : Sys) (w : Nat) : Bool :=
  decide (s.cur = some w) && !headSyn (s.wk w).inq && !(s.wk w).bp.closing && !(s.wk w).bp.cr 0 &&
  (s.wk w).bp.sets.isEmpty && (s.wk w).bp.buffer.isEmpty && (s.wk w).bp.wait.isNone && (s.wk w).pend.isNone

def closeBp (b : BrokerProd.St) : BrokerProd.St := { b with closing := true }

def sysStep (M : Nat) (s : Sys) : Choice → Option Sys
  | .submit => some { s with next := s.next + 1, dq := s.dq ++ [mkTok (s.next : Int) 0 false] }
  | .retryOut =>
    match s.ret with
    | [] => none
    | t :: r => some { s with ret := r, dq := s.dq ++ [t] }
  | .dispatch =>
    match s.dq with
    | [] => none
    | t :: r => some { s with dq := r, pq := s.pq ++ [t] }
  | .ppRecv lks =>
    match s.pq with
    | [] => none
    | t :: r => some (ppActs { s with pq := r, pp := (PartProd.recv s.pp (toPP t)).1 } lks
                        (PartProd.recv s.pp (toPP t)).2)
  | .bpRecv w ov =>
    match (s.wk w).inq with
    | [] => none
    | t :: r => bpRun M s w r (s.wk w).pend 0 (.recv t ov)
  | .handover w => bpRun M s w (s.wk w).inq (s.wk w).pend 0 .handover
  | .broker w v =>
    match (s.wk w).bp.sets, (s.wk w).pend with
    | sent :: _, none =>
      if v.appends && !(brokerOf w == s.ldr) then none
      else some { s with log := if v.appends then s.log ++ dataIds sent else s.log,
                         wk := setW s.wk w { s.wk w with pend := some (v, s.log.length) } }
    | _, _ => none
  | .deliver w still =>
    match (s.wk w).pend with
    | none => none
    | some (v, base) => bpRun M s w (s.wk w).inq none base (.resp v.toResp still)
  | .moveLeader b => some { s with ldr := b }
  | .closeW w =>
    if canClose s w then some { s with wk := setW s.wk w ⟨(s.wk w).inq, closeBp (s.wk w).bp, none⟩ } else none

theorem closeW_spec {M : Nat} {s s' : Sys} {w : Nat} (h : sysStep M s (.closeW w) = some s') :
    canClose s w = true ∧ s' = { s with wk := setW s.wk w ⟨(s.wk w).inq, closeBp (s.wk w).bp, none⟩ } := by
  simp only [sysStep] at h
  split at h
  · rename_i hg; simp only [Option.some.injEq] at h; exact ⟨hg, h.symm⟩
  · cases h

/-- run a choice sequence; `none` as soon as a choice is not enabled -/
def run (M : Nat) (s : Sys) : List Choice → Option Sys
  | [] => some s
  | c :: cs => match sysStep M s c with
    | none => none
    | some s' => run M s' cs

end Model.Pipeline

