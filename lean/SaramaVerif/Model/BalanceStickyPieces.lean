import SaramaVerif.Model.BalancePlan
/-
  The pure, deterministic pieces of the sticky strategy (balance_strategy.go), one definition per Go function.

  Conventions: `cur` is `currentAssignment` (member ↦ partitions it holds), `pot` is
  `consumer2AllPotentialPartitions` (member ↦ partitions it may get; a partition occurs twice if the member lists
  its topic twice), both as association lists in an arbitrary (map iteration) order.  Member ids are numbered in
  memberID (string) order, so `<` on ids is Go's string comparison of member ids.
  `partition2AllPotentialConsumers[p]` is `consumersOf pot p` (members with multiplicity).
-/
namespace Model.Balance

abbrev Asg := AL TP

/-- `partition2AllPotentialConsumers[p]`: every member once per occurrence of `p` in its potential list -/
def consumersOf (pot : Asg) (p : TP) : List Member :=
  pot.flatMap (fun e => List.replicate (e.2.count p) e.1)

/-- `canTopicPartitionParticipateInReassignment` -/
def canPartitionParticipate (pot : Asg) (p : TP) : Bool := decide ((consumersOf pot p).length ≥ 2)

/-- `canConsumerParticipateInReassignment` -/
def canConsumerParticipate (m : Member) (cur pot : Asg) : Bool :=
  decide ((AL.get cur m).length < (AL.get pot m).length) ||
    (AL.get cur m).any (fun p => canPartitionParticipate pot p)

/-- order of `sortMemberIDsByPartitionAssignments`: fewer partitions first, ties by member id -/
def memberLE (cur : Asg) (a b : Member) : Bool :=
  if (AL.get cur a).length = (AL.get cur b).length then decide (a ≤ b)
  else decide ((AL.get cur a).length < (AL.get cur b).length)

def insertMember (cur : Asg) (x : Member) : List Member → List Member
  | [] => [x]
  | y :: r => if memberLE cur y x then y :: insertMember cur x r else x :: y :: r

/-- `sortMemberIDsByPartitionAssignments` -/
def sortMembers (cur : Asg) : List Member :=
  (AL.keys cur).foldl (fun acc x => insertMember cur x acc) []

/-- `assignPartition`: the first member in `sorted` that may take `p` gets it; returns the new assignment and who -/
def assignPartition (p : TP) (sorted : List Member) (cur pot : Asg) : Asg × Option Member :=
  match sorted.find? (fun m => (AL.get pot m).contains p) with
  | some m => (AL.set cur m (AL.get cur m ++ [p]), some m)
  | none => (cur, none)

def minSize (cur : Asg) : Nat :=
  match cur with
  | [] => 0
  | e :: r => r.foldl (fun acc x => min acc x.2.length) e.2.length

def maxSize (cur : Asg) : Nat := cur.foldl (fun acc x => max acc x.2.length) 0

/-- the member recorded for `p` in `allPartitions` of `isBalanced` (with disjoint lists: the one holder) -/
def holderIn (cur : Asg) (p : TP) : Option Member :=
  (cur.find? (fun e => e.2.contains p)).map (·.1)

/-- size of `currentAssignment[allPartitions[p]]` (0 when nobody holds `p`) -/
def holderSize (cur : Asg) (p : TP) : Nat :=
  match holderIn cur p with
  | some o => (AL.get cur o).length
  | none => 0

/-- `isBalanced(currentAssignment, allSubscriptions)`.
    (Go indexes `sortedCurrentSubscriptions[0]`; for an empty assignment the model answers `true`.) -/
def isBalanced (cur pot : Asg) : Bool :=
  decide (minSize cur + 1 ≥ maxSize cur) ||
  cur.all (fun e =>
    decide (e.2.length = (AL.get pot e.1).length) ||
    (AL.get pot e.1).all (fun p => e.2.contains p || !decide (e.2.length < holderSize cur p)))

/-- `getBalanceScore`: sum of |size difference| over all unordered pairs -/
def balanceScore : Asg → Nat
  | [] => 0
  | e :: r => (r.map (fun x => if e.2.length ≤ x.2.length then x.2.length - e.2.length
                                else e.2.length - x.2.length)).sum + balanceScore r

/-- multiset of a list as (element, multiplicity) in first-occurrence order -/
def tally {α : Type} [BEq α] (l : List α) : List (α × Nat) :=
  l.eraseDups.map (fun x => (x, l.count x))

/-- one of the two loops of `areSubscriptionsIdentical`: `base` is the tally taken from the first non-empty
    list seen so far (`none` while `len(curMembers) == 0`) -/
def identicalLoop {α : Type} [BEq α] : Option (List (α × Nat)) → List (List α) → Bool
  | _, [] => true
  | none, l :: rest => identicalLoop (if l.isEmpty then none else some (tally l)) rest
  | some base, l :: rest =>
    if base.length ≠ l.length then false
    else if base.all (fun kv => l.count kv.1 == kv.2) then identicalLoop (some base) rest else false

/-- `areSubscriptionsIdentical`: `p2c` = the values of partition2AllPotentialConsumers in iteration order,
    `c2p` = the values of consumer2AllPotentialPartitions in iteration order.  (Note the Go quirk kept here:
    the length test compares the number of DISTINCT entries of the first list with the length of the others.) -/
def subscriptionsIdentical (p2c : List (List Member)) (c2p : List (List TP)) : Bool :=
  identicalLoop none p2c && identicalLoop none c2p

/-! ### `prepopulateCurrentAssignments` -/

/-- what one member reports: id, generation (`none` = old schema without generation) and claimed partitions -/
structure Report where
  id : Member
  gen : Option Int
  claims : List TP

/-- `defaultGeneration`: the generation key of user data in the old schema (bridge: Gen.C08.defaultGeneration) -/
def defaultGeneration : Int := -1

/-- `sortedPartitionConsumersByGeneration`: partition ↦ (generation ↦ member), both as association lists -/
abbrev GenMap := List (TP × List (Int × Member))

def genInsert (m : Member) (hasGen : Bool) (g : Int) : List (Int × Member) → List (Int × Member)
  | [] => [(g, m)]
  | (g', m') :: r =>
    if g' = g then (if hasGen then (g', m') :: r   -- same generation claimed twice: first one stays
                    else (g, m) :: r)               -- no generation: overwrite the default-generation entry
    else (g', m') :: genInsert m hasGen g r

def genMapInsert (p : TP) (m : Member) (hasGen : Bool) (g : Int) : GenMap → GenMap
  | [] => [(p, [(g, m)])]
  | (p', l) :: r => if p' = p then (p', genInsert m hasGen g l) :: r else (p', l) :: genMapInsert p m hasGen g r

def genMapOf (rs : List Report) : GenMap :=
  rs.foldl (fun gm r => r.claims.foldl (fun gm p =>
    genMapInsert p r.id r.gen.isSome (r.gen.getD defaultGeneration) gm) gm) []

/-- entry with the highest generation -/
def maxGen : List (Int × Member) → Option (Int × Member)
  | [] => none
  | x :: r => match maxGen r with
    | none => some x
    | some y => if y.1 > x.1 then some y else some x

/-- (current owner, previous owner) of a partition: the two highest generations -/
def ownersOf (l : List (Int × Member)) : Option (Member × Option Member) :=
  match maxGen l with
  | none => none
  | some top => some (top.2, (maxGen (l.filter (fun x => x.1 ≠ top.1))).map (·.2))

/-- `prepopulateCurrentAssignments`: partition ↦ (current owner, previous owner if any) -/
def prepopulate (rs : List Report) : List (TP × Member × Option Member) :=
  (genMapOf rs).filterMap (fun e => (ownersOf e.2).map (fun o => (e.1, o.1, o.2)))

/-- `currentAssignment` built from it (members in order of first appearance) -/
def currentOf (pp : List (TP × Member × Option Member)) : Asg :=
  pp.foldl (fun cur e => AL.set cur e.2.1 (AL.get cur e.2.1 ++ [e.1])) []

/-! ### partition movements bookkeeping -/

/-- `partitionMovements.Movements`: partition ↦ (source, destination); `PartitionMovementsByTopic` is its
    grouping by (topic, pair) and carries no further information -/
abbrev Movements := List (TP × Member × Member)

def movGet (mv : Movements) (p : TP) : Option (Member × Member) := (mv.find? (fun e => e.1 == p)).map (·.2)
def movErase (mv : Movements) (p : TP) : Movements := mv.filter (fun e => !(e.1 == p))

/-- `movePartition(partition, oldConsumer, newConsumer)` -/
def movePartition (mv : Movements) (p : TP) (old new : Member) : Movements :=
  match movGet mv p with
  | some ex => if ex.1 ≠ new then movErase mv p ++ [(p, ex.1, new)] else movErase mv p
  | none => mv ++ [(p, old, new)]

/-- candidates of `getTheActualPartitionToBeMoved`: `none` = the partition itself, `some l` = any element of the
    non-empty list `l` (Go takes the last one its map iteration yields) -/
def actualCandidates (mv : Movements) (p : TP) (old new : Member) : Option (List TP) :=
  if !(mv.any (fun e => e.1.1 == p.1)) then none else
  let old' := match movGet mv p with | some ex => ex.1 | none => old
  match (mv.filter (fun e => e.1.1 == p.1 && e.2.1 == new && e.2.2 == old')).map (·.1) with
  | [] => none
  | l => some l

end Model.Balance
