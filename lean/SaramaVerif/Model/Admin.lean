/-
  Model of the ClusterAdmin operations of admin.go that property C19 talks about (core Lean only).

  * `retryOnError`  – the retry wrapper (fuel = number of attempts the configured `Admin.Retry.Max`
    allows; the back-off sleep is ignored).
  * controller-bound operations (`CreateTopic`, `DeleteTopic`, `CreatePartitions`,
    `AlterPartitionReassignments`) as functions over a *script*: for attempt `i` the world says which
    broker the client's metadata names as controller (`ctrl i`; `ctrl 0` is the cached id at the start,
    `ctrl (i+1)` is what a `refreshController` made after attempt `i` learns) and what the broker that
    receives attempt `i` answers (`reply i`).
  * leader / coordinator bound operations (`DeleteRecords`, `DescribeConsumerGroups`,
    `DeleteConsumerGroup`, `ListConsumerGroupOffsets`, `DescribeLogDirs`): grouping of the items by the
    broker that owns them, one request per broker, aggregation of the answers.

  Broker answers, leadership, coordinators and the controller's whereabouts are parameters (scripts).
  The model follows the code that exists; behaviours of the pinned tree that contradict the property are
  selected by `Variant` flags (see `Variant.pinned` / `Variant.fixed`).
-/
namespace Model.Admin

/-! ## Kafka versions (`KafkaVersion.IsAtLeast`) and request-version selection -/

/-- `KafkaVersion.IsAtLeast` on the four components -/
def isAtLeast : List Nat → List Nat → Bool
  | a :: as, b :: bs => if a > b then true else if a < b then false else isAtLeast as bs
  | _, _ => true

def V0_8_2_2 : List Nat := [0, 8, 2, 2]
def V0_9_0_0 : List Nat := [0, 9, 0, 0]
def V0_10_0_0 : List Nat := [0, 10, 0, 0]
def V0_10_1_0 : List Nat := [0, 10, 1, 0]
def V0_10_2_0 : List Nat := [0, 10, 2, 0]
def V0_11_0_0 : List Nat := [0, 11, 0, 0]
def V1_0_0_0 : List Nat := [1, 0, 0, 0]
def V1_1_0_0 : List Nat := [1, 1, 0, 0]
def V2_4_0_0 : List Nat := [2, 4, 0, 0]

/-- `CreateTopic`: `request.Version` from two flags (`IsAtLeast(V0_11_0_0)`, `IsAtLeast(V1_0_0_0)`) -/
def createTopicsVersionOf (ge011 ge100 : Bool) : Nat :=
  if ge100 then 2 else if ge011 then 1 else 0

def createTopicsVersion (kv : List Nat) : Nat :=
  createTopicsVersionOf (isAtLeast kv V0_11_0_0) (isAtLeast kv V1_0_0_0)

/-- `DeleteTopic`: `request.Version` -/
def deleteTopicsVersionOf (ge011 : Bool) : Nat := if ge011 then 1 else 0
def deleteTopicsVersion (kv : List Nat) : Nat := deleteTopicsVersionOf (isAtLeast kv V0_11_0_0)

/-- `ListConsumerGroupOffsets`: `request.Version` (if / else-if chain) -/
def offsetFetchVersionOf (ge0102 ge0822 : Bool) : Nat :=
  if ge0102 then 2 else if ge0822 then 1 else 0
def offsetFetchVersion (kv : List Nat) : Nat :=
  offsetFetchVersionOf (isAtLeast kv V0_10_2_0) (isAtLeast kv V0_8_2_2)

/-- `CreateTopicsRequest.requiredVersion` / `DeleteTopicsRequest.requiredVersion` -/
def createTopicsRequired (ver : Nat) : List Nat :=
  if ver = 2 then V1_0_0_0 else if ver = 1 then V0_11_0_0 else V0_10_1_0
def deleteTopicsRequired (ver : Nat) : List Nat :=
  if ver = 1 then V0_11_0_0 else V0_10_1_0

/-! ## Errors -/

/-- Kafka error code NOT_CONTROLLER -/
def NOT_CONTROLLER : Int := 41

/-- one entry of an aggregated error (`ErrReassignPartitions` / `ErrDeleteRecords`) -/
inductive Cause
  | code (c : Int)     -- an error code reported by a broker
  | transport          -- the call to a broker failed (no usable response)
  | incomplete         -- `ErrIncompleteResponse`
  | unsupported        -- `ErrUnsupportedVersion` from `Broker.send` (nothing was sent)
  deriving DecidableEq, Repr

/-- what an admin operation returns as `error` (nil = `none`) -/
inductive Err
  | kerr (c : Int)             -- the broker's code as `KError` / `*TopicError` / `*TopicPartitionError`
  | incomplete                 -- `ErrIncompleteResponse`
  | transport                  -- error of the broker call itself
  | unsupported                -- `ErrUnsupportedVersion`, nothing sent
  | wrapped (cs : List Cause)  -- `ErrReassignPartitions{…}` / `ErrDeleteRecords{…}`
  | lookup (c : Int)           -- leader / coordinator lookup failed with this code, nothing sent
  deriving DecidableEq, Repr

abbrev Outcome := Option Err

/-- `isErrNoController`: a `*TopicError`, `*TopicPartitionError` or `KError` whose code is NOT_CONTROLLER -/
def isErrNoController : Err → Bool
  | .kerr c => c == NOT_CONTROLLER
  | _ => false

/-! ## `retryOnError` -/

/-- how many attempts `Admin.Retry.Max` buys.
    `asIs`: the pinned loop `for attempt := 0; attempt < Max; attempt++` (candidate F10a: with `Max = 0` –
    accepted by `Config.Validate` – the function is never called and `nil` is returned);
    `atLeastOne`: the minimal repair (always one attempt); `plusOne`: `Max` counts retries (upstream). -/
inductive Budget | asIs | atLeastOne | plusOne
  deriving DecidableEq, Repr

def attempts : Budget → Int → Nat
  | .asIs, m => m.toNat
  | .atLeastOne, m => if m.toNat = 0 then 1 else m.toNat
  | .plusOne, m => m.toNat + 1

/-- the loop of `retryOnError` with `fuel` iterations left; `last` is the variable `err` -/
def retryLoop {σ : Type} (retryable : Err → Bool) (fn : σ → σ × Outcome) : Nat → σ → Outcome → σ × Outcome
  | 0, s, last => (s, last)
  | fuel + 1, s, _ =>
    match fn s with
    | (s', none) => (s', none)
    | (s', some e) => if retryable e then retryLoop retryable fn fuel s' (some e) else (s', some e)

def retryOnError {σ : Type} (b : Budget) (max : Int) (retryable : Err → Bool) (fn : σ → σ × Outcome) (s : σ) :
    σ × Outcome :=
  retryLoop retryable fn (attempts b max) s none

/-- `retryOnError` over a script of attempt results: returns (number of calls of `fn`, returned error) -/
def retryScript (b : Budget) (max : Int) (retryable : Err → Bool) (script : Nat → Outcome) : Nat × Outcome :=
  retryOnError b max retryable (fun i => (i + 1, script i)) 0

/-! ## Controller-bound operations -/

/-- answer of the broker an attempt was sent to. `top` is the response's top-level error code (0 for the
    response types that have none), `items` the per-item codes of the items that are present
    (item 0 = the topic for the single-topic operations, item p = partition p for reassignments). -/
inductive Reply
  | transport
  | resp (top : Int) (items : List (Nat × Int))
  deriving DecidableEq, Repr

inductive COp
  | createTopic | deleteTopic | createPartitions
  | reassign (nparts : Nat)
  deriving DecidableEq, Repr

/-- behaviours of admin.go that differ between the pinned tree and a repaired one -/
structure Variant where
  budget : Budget
  /-- `AlterPartitionReassignments` recognises a top-level NOT_CONTROLLER, refreshes the controller and
      returns a retryable error (pinned tree: every error is wrapped into `ErrReassignPartitions`, F10b) -/
  reassignRetries : Bool
  /-- top-level error test is `≠ ErrNoError` (pinned tree: `> 0`, so code −1 passes as success) -/
  reassignTopNonzero : Bool
  /-- a requested partition that is missing from the response is an error (pinned tree: not noticed) -/
  reassignChecksItems : Bool
  deriving DecidableEq, Repr

def Variant.pinned : Variant := ⟨.asIs, false, false, false⟩
def Variant.fixed (b : Budget) : Variant := ⟨b, true, true, true⟩

/-- the closure body of the single-topic operations after the broker call: (returned error, did it call
    `refreshController`) -/
def inspectItem : Reply → Outcome × Bool
  | .transport => (some .transport, false)
  | .resp _ items =>
    match items.lookup 0 with
    | none => (some .incomplete, false)
    | some c => if c = 0 then (none, false) else (some (.kerr c), c == NOT_CONTROLLER)

def itemCauses (items : List (Nat × Int)) : List Cause :=
  (items.filter (fun it => it.2 != 0)).map (fun it => Cause.code it.2)

def missingCauses (n : Nat) (items : List (Nat × Int)) : List Cause :=
  ((List.range n).filter (fun p => (items.lookup p).isNone)).map (fun _ => Cause.incomplete)

def topCauses (v : Variant) (top : Int) : List Cause :=
  if (if v.reassignTopNonzero then top != 0 else top > 0) then [Cause.code top] else []

def reassignCauses (v : Variant) (n : Nat) (top : Int) (items : List (Nat × Int)) : List Cause :=
  topCauses v top ++ itemCauses items ++ (if v.reassignChecksItems then missingCauses n items else [])

/-- the closure body of `AlterPartitionReassignments` -/
def inspectReassign (v : Variant) (n : Nat) : Reply → Outcome × Bool
  | .transport => (some (.wrapped [Cause.transport]), false)
  | .resp top items =>
    if v.reassignRetries ∧ top = NOT_CONTROLLER then (some (.kerr NOT_CONTROLLER), true)
    else if reassignCauses v n top items = [] then (none, false)
    else (some (.wrapped (reassignCauses v n top items)), false)

def inspect (v : Variant) : COp → Reply → Outcome × Bool
  | .reassign n, r => inspectReassign v n r
  | _, r => inspectItem r

/-- request version used / minimum Kafka version `Broker.send` demands for it -/
def reqVersion : COp → List Nat → Nat
  | .createTopic, kv => createTopicsVersion kv
  | .deleteTopic, kv => deleteTopicsVersion kv
  | _, _ => 0

def required : COp → List Nat → List Nat
  | .createTopic, kv => createTopicsRequired (createTopicsVersion kv)
  | .deleteTopic, kv => deleteTopicsRequired (deleteTopicsVersion kv)
  | .createPartitions, _ => V1_0_0_0
  | .reassign _, _ => V2_4_0_0

def supported (op : COp) (kv : List Nat) : Bool := isAtLeast kv (required op kv)

/-- `Broker.send` refused the request (`ErrUnsupportedVersion`); `AlterPartitionReassignments` wraps it -/
def unsupportedErr : COp → Err
  | .reassign _ => .wrapped [Cause.unsupported]
  | _ => .unsupported

/-- the scripted world of one operation -/
structure World where
  ctrl : Nat → Nat
  reply : Nat → Reply

/-- client-side state during one operation -/
structure St where
  cached : Nat          -- controller id in the client's cache
  log : List Nat        -- brokers the operation's request was sent to, oldest first
  refreshes : Nat       -- calls of refreshController
  deriving DecidableEq, Repr

/-- one call of the closure passed to `retryOnError`: `Controller()` (cached), one request to it, inspection
    of the answer, possibly `refreshController()` -/
def attempt (v : Variant) (op : COp) (kv : List Nat) (w : World) (s : St) : St × Outcome :=
  if supported op kv then
    (⟨if (inspect v op (w.reply s.log.length)).2 then w.ctrl (s.log.length + 1) else s.cached,
      s.log ++ [s.cached],
      if (inspect v op (w.reply s.log.length)).2 then s.refreshes + 1 else s.refreshes⟩,
     (inspect v op (w.reply s.log.length)).1)
  else (s, some (unsupportedErr op))

def runCtrl (v : Variant) (op : COp) (kv : List Nat) (max : Int) (w : World) : St × Outcome :=
  retryOnError v.budget max isErrNoController (attempt v op kv w) ⟨w.ctrl 0, [], 0⟩

/-! ## Leader / coordinator bound operations -/

/-- items of `items` owned by broker `b` -/
def owned (owner : Nat → Nat) (items : List Nat) (b : Nat) : List Nat :=
  items.filter (fun p => owner p == b)

/-- the `map[*Broker][]item` built by DeleteRecords / DescribeConsumerGroups, listed in the order of
    `brokers` (the Go map has no order; the harness canonicalises the same way) -/
def groupBy (brokers : List Nat) (owner : Nat → Nat) (items : List Nat) : List (Nat × List Nat) :=
  (brokers.filter (fun b => !(owned owner items b).isEmpty)).map (fun b => (b, owned owner items b))

/-- first failing lookup, in item order -/
def firstLookupError (look : Nat → Except Int Nat) : List Nat → Option Int
  | [] => none
  | p :: ps => match look p with
    | .error c => some c
    | .ok _ => firstLookupError look ps

def ownerOf (look : Nat → Except Int Nat) (p : Nat) : Nat :=
  match look p with
  | .ok b => b
  | .error _ => 0

/-- answer of one broker to a DeleteRecords request -/
inductive DRReply
  | transport
  | noTopic                               -- response without the topic
  | parts (codes : List (Nat × Int))      -- partitions present in the response with their codes
  deriving DecidableEq, Repr

def drCauses (sup : Bool) : DRReply → List Cause
  | .transport => if sup then [Cause.transport] else [Cause.unsupported]
  | .noTopic => if sup then [Cause.incomplete] else [Cause.unsupported]
  | .parts codes => if sup then itemCauses codes else [Cause.unsupported]

/-- requests `DeleteRecords` plans: one per leader with that leader's partitions -/
def drPlan (brokers : List Nat) (parts : List Nat) (leader : Nat → Except Int Nat) : List (Nat × List Nat) :=
  groupBy brokers (ownerOf leader) parts

/-- the `errs` slice of `DeleteRecords` after all brokers were asked -/
def drErrs (kv : List Nat) (brokers : List Nat) (parts : List Nat) (leader : Nat → Except Int Nat)
    (reply : Nat → DRReply) : List Cause :=
  (drPlan brokers parts leader).flatMap (fun g => drCauses (isAtLeast kv V0_11_0_0) (reply g.1))

/-- `DeleteRecords`: (returned error, requests sent as (broker, partitions)) -/
def deleteRecords (kv : List Nat) (brokers : List Nat) (parts : List Nat) (leader : Nat → Except Int Nat)
    (reply : Nat → DRReply) : Outcome × List (Nat × List Nat) :=
  match firstLookupError leader parts with
  | some c => (some (.lookup c), [])
  | none =>
    (if drErrs kv brokers parts leader reply = [] then none
     else some (.wrapped (drErrs kv brokers parts leader reply)),
     if isAtLeast kv V0_11_0_0 then drPlan brokers parts leader else [])

/-- `DescribeConsumerGroups`: `reply b = none` is a failed broker call, `some ds` the group descriptions
    (group, error code) it returned. Result: error, or all descriptions; plus the planned requests
    (when a broker call fails the Go code stops, so only a subset of the plan – in map order – is on the
    wire; when none fails the plan is exactly what was sent). -/
def describeGroups (brokers : List Nat) (groups : List Nat) (coord : Nat → Except Int Nat)
    (reply : Nat → Option (List (Nat × Int))) : Except Err (List (Nat × Int)) × List (Nat × List Nat) :=
  match firstLookupError coord groups with
  | some c => (.error (.lookup c), [])
  | none =>
    if (groupBy brokers (ownerOf coord) groups).all (fun g => (reply g.1).isSome) then
      (.ok ((groupBy brokers (ownerOf coord) groups).flatMap (fun g => (reply g.1).getD [])),
       groupBy brokers (ownerOf coord) groups)
    else (.error .transport, groupBy brokers (ownerOf coord) groups)

/-- answer of the coordinator to DeleteGroups for the one group -/
inductive DGReply
  | transport
  | missing
  | code (c : Int)
  deriving DecidableEq, Repr

/-- `DeleteConsumerGroup`: (returned error, brokers the request went to) -/
def deleteGroup (kv : List Nat) (coord : Except Int Nat) (reply : DGReply) : Outcome × List Nat :=
  match coord with
  | .error c => (some (.lookup c), [])
  | .ok b =>
    if isAtLeast kv V1_1_0_0 then
      (match reply with
       | .transport => some .transport
       | .missing => some .incomplete
       | .code c => if c = 0 then none else some (.kerr c), [b])
    else (some .unsupported, [])

/-- `ListConsumerGroupOffsets`: the coordinator's response is handed to the caller as it is.
    `reply = none`: failed call; `some (top, blocks)`: top-level code (on the wire from v2) and per-partition
    codes. Result: (error or (top, blocks)), request version, brokers asked. -/
def listGroupOffsets (kv : List Nat) (coord : Except Int Nat) (reply : Option (Int × List (Nat × Int))) :
    Except Err (Int × List (Nat × Int)) × Nat × List Nat :=
  match coord with
  | .error c => (.error (.lookup c), offsetFetchVersion kv, [])
  | .ok b =>
    match reply with
    | none => (.error .transport, offsetFetchVersion kv, [b])
    | some (top, blocks) =>
      (.ok (if offsetFetchVersion kv ≥ 2 then top else 0, blocks), offsetFetchVersion kv, [b])

/-- `DescribeLogDirs` for known broker ids: (an error is returned, ids with a result, requests) -/
def describeLogDirs (ids : List Nat) (ok : Nat → Bool) : Bool × List Nat × List Nat :=
  (!(ids.all ok), ids.filter ok, ids)

end Model.Admin
