/-
  C02, composition: end-to-end log order for the system model `Model.Pipeline` (non-idempotent producer,
  one partition, `Retry.Max = M ≥ 1`), proved for EVERY choice sequence in which one broker worker (worker 0)
  serves the partition for the whole run.

  The system reuses `Model.PartProd.recv` (partition producer) and `Model.BrokerProd.step` (broker worker) as they
  are; `sysStep` interleaves them with the FIFO queues between them, the broker (log append + scripted verdict),
  the retries queue and fresh submissions.  The proof is an invariant (`Lemmas.C02sys.Good`): a view of the state
  (what the worker holds or will accept / the virtual arrival stream of the partition producer, with the tokens
  the worker is going to bounce already counted at their next level) in which ranks and retry levels are sorted
  against each other (`VInv`), tied to the concrete state phase by phase (`Rep`), plus the log clauses.

  Restrictions (precisely): one partition (every token has `part = 0`, no other partition shares the worker);
  non-idempotent producer; `M ≥ 1`; the leader lookups of the partition producer select worker 0 or fail
  (`SingleWorker`): the leader may move away and back (`moveLeader`; the broker then cannot append), the
  worker may be abandoned after a connection error (it then bounces everything until the budgets are spent),
  but the partition is never handed to a second worker.  Verdicts: ok / retriable (with or without append) /
  fatal / connection error (before or after the append).  A leader lookup is resolved per forwarded message
  (the Go code resolves it once per flushed level), which only adds behaviours.

  Relation to the real code (found by the trace replay of Driver/PipelineTrace.lean): with a single partition the
  real partition producer RELEASES its broker worker at every retry-level change (unrefBrokerProducer closes it)
  and then selects a fresh one, so the old worker drains its queue (bouncing, chaser last) concurrently with its
  successor.  Such runs are runs of `Model.Pipeline` with several workers (they are replayed and accepted on every
  check run) and fall under `LogOrderGeneral`; `SingleWorker` models old worker and successor as one sequential
  process.  Real runs without a retry-level change are `SingleWorker` runs.
-/
import SaramaVerif.Lemmas.C02sysStepA
import SaramaVerif.Lemmas.C02sysStepR
import SaramaVerif.Lemmas.C02sysStepD2
import SaramaVerif.Lemmas.C02sysStepP3
import SaramaVerif.Lemmas.C02sysCons3
import SaramaVerif.Lemmas.C02sysFifo

namespace Props.C02sys
open Model Model.Pipeline Lemmas.C02sys

/-- the headline statement: (i) of two successes the smaller rank has the smaller offset; (ii) of two ranks in
    the log the first copy of the smaller one comes first -/
def LogOrder (s : Sys) : Prop :=
  (∀ a b oa ob, (a, oa) ∈ s.succ → (b, ob) ∈ s.succ → a < b → oa < ob) ∧
  (∀ a b, a < b → a ∈ s.log → b ∈ s.log → s.log.idxOf a < s.log.idxOf b)

/-- the GENERAL end-to-end statement (any number of broker workers, leader changes that move the partition to
    another worker).  OPEN: it is not proved here; `log_order_single_worker` below proves the instance in which
    the partition producer always selects the same worker.  (Random exploration of the executable model with
    2-4 workers found no counter-example.) -/
def LogOrderGeneral (M : Nat) : Prop := ∀ (cs : List Choice) (s : Sys), run M {} cs = some s → LogOrder s

/-- the invariant of the single-worker system -/
def SInv (M : Nat) (s : Sys) : Prop := ∃ v, Good M s v

/-- choices that concern worker 0 only (leader lookups find worker 0 or fail) -/
abbrev SingleWorker (cs : List Choice) : Prop := ∀ c ∈ cs, OneW c

theorem init_inv (M : Nat) : SInv M {} := by
  refine ⟨⟨{}, [], [], true⟩, ?_, ?_, ?_, ?_⟩
  · have := Rep.normal (M := M) (s := {}) [] [] rfl rfl rfl (fun _ h => by cases h) (Or.inl rfl)
      (Or.inr ⟨rfl, rfl, rfl⟩)
    simpa [ins, insideB, Props.C02bp.inside] using this
  · refine ⟨?_, ?_, ?_, ?_, List.Pairwise.nil, ?_, ?_, List.Pairwise.nil, ?_,
      List.Pairwise.nil, ?_, List.Pairwise.nil, ?_, Props.C02.init_inv⟩ <;> simp [View.buf, data]
  · refine ⟨Props.C02bp.init_inv, ?_, ?_, ?_, ?_, Or.inl rfl, ?_, rfl⟩ <;>
      simp [P0, ins, insideB, Props.C02bp.inside, data]
  · refine ⟨?_, ?_, ?_, ?_, ?_, ?_, ?_, ?_, ?_⟩ <;> try (simp; done)
    intro a ⟨x, hx, _⟩
    simp [View.buf, data] at hx

/-- ONE STEP of the system keeps the invariant, whichever component moves and whatever the environment chooses -/
theorem step_inv {M : Nat} (hM : 1 ≤ M) {s s' : Sys} (c : Choice) (hc : OneW c) (h : SInv M s)
    (hs : sysStep M s c = some s') : SInv M s' := by
  obtain ⟨v, hg⟩ := h
  cases c with
  | submit =>
    have : s' = submitS s := by simp only [sysStep, Option.some.injEq] at hs; exact hs.symm
    rw [this]; exact good_submit hg
  | retryOut =>
    simp only [sysStep] at hs
    cases hr : s.ret with
    | nil => simp [hr] at hs
    | cons t r =>
      simp only [hr, Option.some.injEq] at hs
      rw [← hs]; exact ⟨v, good_retryOut hg t r hr⟩
  | dispatch =>
    simp only [sysStep] at hs
    cases hr : s.dq with
    | nil => simp [hr] at hs
    | cons t r =>
      simp only [hr, Option.some.injEq] at hs
      rw [← hs]; exact ⟨v, good_dispatch hg t r hr⟩
  | ppRecv lks => exact good_ppRecv hg hc hs
  | bpRecv w ov =>
    have hw : w = 0 := hc
    subst hw; exact ⟨v, good_bpRecv hg hs⟩
  | handover w =>
    have hw : w = 0 := hc
    subst hw; exact ⟨v, good_handover hg hs⟩
  | broker w vd =>
    have hw : w = 0 := hc
    subst hw; exact ⟨v, good_broker hg hs⟩
  | deliver w still =>
    have hw : w = 0 := hc
    subst hw; exact good_deliver hM hg hs
  | moveLeader b =>
    simp only [sysStep, Option.some.injEq] at hs
    rw [← hs]; exact ⟨v, good_moveLeader hg b⟩
  | closeW w => exact absurd hc (by simp [OneW])

theorem run_inv {M : Nat} (hM : 1 ≤ M) (cs : List Choice) : ∀ {s s' : Sys}, SingleWorker cs → SInv M s →
    run M s cs = some s' → SInv M s' := by
  induction cs with
  | nil => intro s s' _ h hr; simp only [run, Option.some.injEq] at hr; rw [← hr]; exact h
  | cons c cs ih =>
    intro s s' hsw h hr
    simp only [run] at hr
    cases hs : sysStep M s c with
    | none => simp [hs] at hr
    | some s1 =>
      simp only [hs] at hr
      exact ih (fun c' hc' => hsw c' (List.mem_cons_of_mem _ hc'))
        (step_inv hM c (hsw c (List.mem_cons_self ..)) h hs) hr

theorem inv_logOrder {M : Nat} {s : Sys} (h : SInv M s) : LogOrder s := by
  obtain ⟨v, hg⟩ := h
  exact ⟨fun a b oa ob ha hb hab => hg.log.S3 (a, oa) ha (b, ob) hb hab, hg.log.J⟩

/-- **log order, one broker worker**: for every retry budget `M ≥ 1` and EVERY choice sequence (fault script,
    interleaving, lookup failures, overflow/flush timing, leader moves) in which worker 0 is the only broker worker
    that is ever selected, the state reached satisfies `LogOrder`. -/
theorem log_order_single_worker {M : Nat} (hM : 1 ≤ M) (cs : List Choice) (hsw : SingleWorker cs) {s : Sys}
    (hr : run M {} cs = some s) : LogOrder s :=
  inv_logOrder (run_inv hM cs hsw (init_inv M) hr)

/-- in the single-worker runs `newHighWatermark` never finds `pp.brokerProducer == nil` -/
theorem no_nil_deref_single_worker {M : Nat} (hM : 1 ≤ M) (cs : List Choice) (hsw : SingleWorker cs) {s : Sys}
    (hr : run M {} cs = some s) : s.crash = false := by
  obtain ⟨v, hg⟩ := run_inv hM cs hsw (init_inv M) hr
  exact hg.conc.crash

/-! ### conservation -/

theorem cons_init (M : Nat) : Cons M {} := by
  intro i
  have hb : bufIdsUpTo (M + 1) ({} : Sys).pp.bufs = [] := by
    simp only [bufIdsUpTo]
    exact List.flatMap_eq_nil_iff.2 (fun _ _ => rfl)
  have : census M {} i = 0 := by
    simp [census, dataIds, ins, insideB, Props.C02bp.inside, hb]
  rw [this]
  have : ¬ (0 ≤ i ∧ i < ((({} : Sys).next : Nat) : Int)) := by
    show ¬ (0 ≤ i ∧ i < ((0 : Nat) : Int)); omega
  rw [if_neg this]

theorem cons_step {M : Nat} (hM : 1 ≤ M) {s s' : Sys} {v : View} (c : Choice) (hc : OneW c) (hg : Good M s v)
    (hcs : Cons M s) (hs : sysStep M s c = some s') : Cons M s' := by
  cases c with
  | submit =>
    have : s' = submitS s := by simp only [sysStep, Option.some.injEq] at hs; exact hs.symm
    rw [this]; exact cons_submit hcs
  | retryOut =>
    simp only [sysStep] at hs
    cases hr : s.ret with
    | nil => simp [hr] at hs
    | cons t r =>
      simp only [hr, Option.some.injEq] at hs
      rw [← hs]; exact cons_retryOut hcs t r hr
  | dispatch =>
    simp only [sysStep] at hs
    cases hr : s.dq with
    | nil => simp [hr] at hs
    | cons t r =>
      simp only [hr, Option.some.injEq] at hs
      rw [← hs]; exact cons_dispatch hcs t r hr
  | ppRecv lks => exact cons_ppRecv hg hcs hc hs
  | bpRecv w ov =>
    have hw : w = 0 := hc
    subst hw; exact cons_bpRecv hg hcs hs
  | handover w =>
    have hw : w = 0 := hc
    subst hw; exact cons_handover hcs hs
  | broker w vd =>
    have hw : w = 0 := hc
    subst hw; exact cons_broker hcs hs
  | deliver w still =>
    have hw : w = 0 := hc
    subst hw; exact cons_deliver hM hg hcs hs
  | moveLeader b =>
    simp only [sysStep, Option.some.injEq] at hs
    rw [← hs]; exact cons_of_eq hcs rfl (fun _ => rfl)
  | closeW w => exact absurd hc (by simp [OneW])

theorem run_cons {M : Nat} (hM : 1 ≤ M) (cs : List Choice) : ∀ {s s' : Sys}, SingleWorker cs → SInv M s → Cons M s →
    run M s cs = some s' → Cons M s' := by
  induction cs with
  | nil => intro s s' _ _ h hr; simp only [run, Option.some.injEq] at hr; rw [← hr]; exact h
  | cons c cs ih =>
    intro s s' hsw hi h hr
    simp only [run] at hr
    cases hs : sysStep M s c with
    | none => simp [hs] at hr
    | some s1 =>
      simp only [hs] at hr
      obtain ⟨v, hg⟩ := hi
      exact ih (fun c' hc' => hsw c' (List.mem_cons_of_mem _ hc'))
        (step_inv hM c (hsw c (List.mem_cons_self ..)) ⟨v, hg⟩ hs)
        (cons_step hM c (hsw c (List.mem_cons_self ..)) hg h hs) hr

/-- **conservation, one broker worker**: in every reachable state every submitted id `0 ≤ i < next` is counted
    exactly once - as a data token in one of the places (pp.input, p.input, retries, the partition producer's
    retry buffers, the worker's input channel, the worker itself) or as one terminal outcome (a success or an
    error) - and no other id is counted at all. -/
theorem conservation_sys {M : Nat} (hM : 1 ≤ M) (cs : List Choice) (hsw : SingleWorker cs) {s : Sys}
    (hr : run M {} cs = some s) (i : Int) :
    census M s i = if 0 ≤ i ∧ i < (s.next : Int) then 1 else 0 :=
  run_cons hM cs hsw (init_inv M) (cons_init M) hr i

/-- **the way back is one FIFO** (glue lemma L1; any number of workers, every state): a step takes at most the
    head of the retry path (pp.input ++ p.input ++ retries, bounced tokens only) and appends at its tail -/
theorem retry_path_fifo (M : Nat) (s s' : Sys) (c : Choice) (h : sysStep M s c = some s') :
    ∃ pre mid post, retryPath s = pre ++ mid ∧ retryPath s' = mid ++ post ∧ pre.length ≤ 1 :=
  Lemmas.C02sys.retry_path_fifo M s s' c h

/-! ### non-vacuity: a run with a retry (after an append: duplicates in the log), a fresh message forwarded to
    the worker while it refuses the partition, and a fresh message parked behind the retry level -/

instance : DecidablePred OneW := fun c => by
  cases c <;> simp only [OneW] <;> infer_instance

def exCs : List Choice :=
  [.submit, .submit, .submit, .dispatch, .dispatch, .ppRecv [some 0], .ppRecv [],
   .bpRecv 0 false, .bpRecv 0 false, .bpRecv 0 false, .handover 0, .broker 0 (.retriable true), .deliver 0 false,
   .retryOut, .retryOut, .dispatch, .dispatch, .dispatch,
   .ppRecv [], .ppRecv [some 0], .ppRecv [],
   .submit, .dispatch, .ppRecv [],
   .bpRecv 0 false, .bpRecv 0 false, .bpRecv 0 false, .bpRecv 0 false, .bpRecv 0 false,
   .handover 0, .broker 0 .ok, .deliver 0 false,
   .retryOut, .retryOut, .dispatch, .dispatch, .ppRecv [], .ppRecv [],
   .bpRecv 0 false, .bpRecv 0 false, .handover 0, .broker 0 .ok, .deliver 0 false]

example : SingleWorker exCs := by decide

/-- messages 0 and 1 are appended, answered with a retriable error, retried and appended again; 2 was forwarded
    while the worker refused the partition and comes back at level 1; 3 is parked until the chaser returns -/
example : (run 2 {} exCs).map (fun s => (s.log, s.succ, s.errs)) =
    some ([0, 1, 0, 1, 2, 3], [(0, 2), (1, 3), (2, 4), (3, 5)], []) := by decide

/-- after 24 steps the partition producer is at retry level 1 and the fresh message 3 is parked -/
example : (run 2 {} (exCs.take 24)).map (fun s => (s.pp.hwm, (s.pp.bufs 0).map (·.id))) = some (1, [3]) := by
  decide

example : ∀ s, run 2 {} exCs = some s → LogOrder s :=
  fun _ h => log_order_single_worker (by decide) exCs (by decide) h

example : ∀ s, run 2 {} exCs = some s → s.crash = false :=
  fun _ h => no_nil_deref_single_worker (by decide) exCs (by decide) h

/-- the census of the example run: every submitted id once, nothing else -/
example : ∀ s, run 2 {} exCs = some s → ∀ i, census 2 s i = if 0 ≤ i ∧ i < (s.next : Int) then 1 else 0 :=
  fun _ h => conservation_sys (by decide) exCs (by decide) h

/-- after 18 steps of the example the bounced copies of 0 and 1 (retry level 1) wait in pp.input behind the
    fresh message 2, in bounce order -/
example : (run 2 {} (exCs.take 18)).map (fun s => (retryPath s).map (fun t => (t.id, t.retries))) =
    some [(0, 1), (1, 1)] := by decide

end Props.C02sys
