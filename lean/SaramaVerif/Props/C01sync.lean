import SaramaVerif.Model.SyncShim
/-
  C01, SyncProducer part: SendMessage / SendMessages return, for each message, exactly the outcome of that message.
-/
namespace Props.C01sync
open Model.SyncShim

/-! ### SyncProducer: a call returns exactly the outcome of its own message -/


/-- what a call reported is what sits in the slot of that very message -/
theorem read_returns_own_slot (s s' : St) (id : Int) (h : step s (.read id) = .ok s') :
    ∃ o, slotOf s id = some (some o) ∧ s'.returns = (id, o) :: s.returns := by
  simp only [step] at h
  split at h
  · rename_i o ho; injection h with h; subst h; exact ⟨o, ho, rfl⟩
  · cases h

/-- invariant: a filled slot holds a terminal event of its own message, and every reported return is a terminal
    event of the message it is reported for -/
structure SInv (s : St) : Prop where
  slot_is_event : ∀ id o, slotOf s id = some (some o) → (id, o) ∈ s.events
  ret_is_event  : ∀ r ∈ s.returns, r ∈ s.events

private theorem slotOfL_setSlotL (l : List (Int × Option Outcome)) (id k : Int) (v : Option Outcome) :
    slotOfL (setSlotL l id v) k = if k = id then some v else slotOfL l k := by
  unfold slotOfL setSlotL
  by_cases hk : k = id
  · subst hk; simp
  · simp only [hk, ↓reduceIte]
    have hne : ¬ (id = k) := fun e => hk e.symm
    simp only [List.find?_cons, hne, decide_false]
    rw [List.find?_filter]
    have hf : ∀ a : Int × Option Outcome,
        decide (decide (a.1 ≠ id) = true ∧ decide (a.1 = k) = true) = decide (a.1 = k) := by
      intro a
      by_cases hx : a.1 = k
      · simp [hx, hk]
      · simp [hx]
    simp only [hf]

private theorem slotOf_setSlot (s : St) (id k : Int) (v : Option Outcome) (r : List (Int × Outcome)) (ev : List (Int × Outcome)) :
    slotOf { slots := setSlot s id v, returns := r, events := ev } k = if k = id then some v else slotOf s k := by
  unfold slotOf setSlot; exact slotOfL_setSlotL s.slots id k v

theorem step_inv (s s' : St) (e : Ev) (h : step s e = .ok s') (hi : SInv s) : SInv s' := by
  cases e with
  | submit id =>
    simp only [step] at h
    split at h
    · cases h
    · injection h with h; subst h
      refine ⟨?_, hi.ret_is_event⟩
      intro k o hk
      rw [slotOf_setSlot] at hk
      split at hk
      · cases hk
      · exact hi.slot_is_event k o hk
  | event id o =>
    simp only [step] at h
    split at h
    · cases h
    · cases h
    · injection h with h; subst h
      refine ⟨?_, ?_⟩
      · intro k o' hk
        rw [slotOf_setSlot] at hk
        split at hk
        · rename_i hki; subst hki
          have : o' = o := by cases hk; rfl
          subst this; exact List.mem_cons_self
        · exact List.mem_cons_of_mem _ (hi.slot_is_event k o' hk)
      · intro r hr; exact List.mem_cons_of_mem _ (hi.ret_is_event r hr)
  | read id =>
    obtain ⟨o, ho, hr⟩ := read_returns_own_slot s s' id h
    have hs : s'.slots = s.slots ∧ s'.events = s.events := by
      simp only [step, ho] at h; injection h with h; subst h; exact ⟨rfl, rfl⟩
    refine ⟨?_, ?_⟩
    · intro k o' hk
      have : slotOf s k = some (some o') := by unfold slotOf at *; rw [hs.1] at hk; exact hk
      rw [hs.2]; exact hi.slot_is_event k o' this
    · intro r hr'
      rw [hr] at hr'; rw [hs.2]
      rcases List.mem_cons.mp hr' with rfl | hr'
      · exact hi.slot_is_event id o ho
      · exact hi.ret_is_event r hr'

/-- **sync_return_is_own_outcome**: for every accepted sequence of submissions, terminal events and reads, whatever
    SendMessage / SendMessages reported for a message is a terminal event of exactly that message (and the model accepts
    at most one terminal event per message, which the producer theorems above guarantee) -/
theorem sync_return_is_own_outcome (es : List Ev) (s : St) (h : run {} es = .ok s) :
    ∀ r ∈ s.returns, r ∈ s.events := by
  suffices ∀ (s0 : St), SInv s0 → run s0 es = .ok s → SInv s from
    (this {} ⟨by intro id o h; simp [slotOf, slotOfL] at h, by intro r hr; simp at hr⟩ h).ret_is_event
  intro s0 hi h0
  clear h
  induction es generalizing s0 with
  | nil => simp only [run] at h0; injection h0 with h0; subst h0; exact hi
  | cons e es ih =>
    simp only [run] at h0
    split at h0
    · rename_i s1 hs; exact ih s1 (step_inv s0 s1 e hs hi) h0
    · cases h0

example : (run {} [.submit 1, .submit 2, .event 2 (.err 7), .event 1 .ok, .read 1, .read 2]).toOption.map (·.returns) =
    some [(2, .err 7), (1, .ok)] := by decide
/-- a second event for one message, or an event for a message that was never submitted, is not accepted -/
example : (run {} [.submit 1, .event 1 .ok, .event 1 (.err 3)]).toOption.isNone = true := by decide



end Props.C01sync
