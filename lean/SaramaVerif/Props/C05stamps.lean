import SaramaVerif.Model.Producer
/-
  C05, producer side: the sequence numbers the partition producers stamp.

  The acceptor takes a `stampAt p e q` event (hook at getAndIncrementSequenceNumber's call site: partition, epoch and
  sequence returned) only if q is the number of stamps already given to partition p in epoch e.  For EVERY accepted
  history:
    * `stamps_never_repeat`  no two messages are ever given the same (partition, epoch, sequence);
    * `stamps_dense`         the sequences given to a partition in an epoch are exactly 0, 1, …, n-1 (no gap; every
                             partition starts again at 0 in a new epoch - "all sequences reset" on an epoch bump).
-/
namespace Props.C05stamps
open Model.Producer

/-- what one step does to the stamp log: nothing, or it pushes the next counter value of that partition and epoch -/
theorem step_stampLog (s s' : St) (e : Ev) (h : step s e = .ok s') :
    s'.stampLog = s.stampLog ∨
    ∃ p ep, s'.stampLog = (p, ep, (stampCount s.stampLog p ep : Int)) :: s.stampLog := by
  cases e
  case stampAt p ep q =>
    simp only [step] at h
    split at h
    · cases h
    · rename_i hq
      injection h with h; subst h
      right
      have : q = (stampCount s.stampLog p ep : Int) := by
        by_cases hh : q = (stampCount s.stampLog p ep : Int)
        · exact hh
        · exact absurd hh (by simpa using hq)
      exact ⟨p, ep, by rw [this]⟩
  all_goals
    left
    simp only [step] at h
    (repeat' split at h) <;> first | (cases h; done) | (injection h with h; subst h; rfl)

structure SInv (l : List (Int × Int × Int)) : Prop where
  below : ∀ x ∈ l, 0 ≤ x.2.2 ∧ x.2.2 < (stampCount l x.1 x.2.1 : Int)
  dense : ∀ p e (k : Nat), k < stampCount l p e → (p, e, (k : Int)) ∈ l
  nodup : l.Nodup

private theorem stampCount_cons_same (l : List (Int × Int × Int)) (p e q : Int) :
    stampCount ((p, e, q) :: l) p e = stampCount l p e + 1 := by
  simp [stampCount, List.filter_cons]

private theorem stampCount_cons_other (l : List (Int × Int × Int)) (p e q p' e' : Int) (h : ¬ (p = p' ∧ e = e')) :
    stampCount ((p, e, q) :: l) p' e' = stampCount l p' e' := by
  simp [stampCount, List.filter_cons, h]

theorem push_inv (l : List (Int × Int × Int)) (p e : Int) (hi : SInv l) :
    SInv ((p, e, (stampCount l p e : Int)) :: l) := by
  refine ⟨?_, ?_, ?_⟩
  · intro x hx
    rcases List.mem_cons.mp hx with rfl | hx
    · simp only []
      rw [stampCount_cons_same]
      constructor <;> omega
    · obtain ⟨h0, h1⟩ := hi.below x hx
      refine ⟨h0, ?_⟩
      by_cases hpe : p = x.1 ∧ e = x.2.1
      · rw [← hpe.1, ← hpe.2, stampCount_cons_same]; rw [hpe.1, hpe.2]; omega
      · rw [stampCount_cons_other _ _ _ _ _ _ hpe]; exact h1
  · intro p' e' k hk
    by_cases hpe : p = p' ∧ e = e'
    · obtain ⟨rfl, rfl⟩ := hpe
      rw [stampCount_cons_same] at hk
      by_cases hkk : k = stampCount l p e
      · subst hkk; exact List.mem_cons_self
      · exact List.mem_cons_of_mem _ (hi.dense p e k (by omega))
    · rw [stampCount_cons_other _ _ _ _ _ _ hpe] at hk
      exact List.mem_cons_of_mem _ (hi.dense p' e' k hk)
  · refine List.nodup_cons.mpr ⟨?_, hi.nodup⟩
    intro hm
    have := (hi.below _ hm).2
    simp only [] at this
    omega

theorem step_sinv (s s' : St) (e : Ev) (h : step s e = .ok s') (hi : SInv s.stampLog) : SInv s'.stampLog := by
  rcases step_stampLog s s' e h with heq | ⟨p, ep, heq⟩
  · rw [heq]; exact hi
  · rw [heq]; exact push_inv _ p ep hi

theorem run_sinv (es : List Ev) (s s' : St) (h : run s es = .ok s') (hi : SInv s.stampLog) : SInv s'.stampLog := by
  induction es generalizing s with
  | nil => simp only [run] at h; injection h with h; subst h; exact hi
  | cons e es ih =>
    simp only [run] at h
    split at h
    · rename_i s1 hs; exact ih s1 h (step_sinv s s1 e hs hi)
    · cases h

theorem init_sinv (cfg : Cfg) : SInv (init cfg).stampLog := by
  refine ⟨?_, ?_, ?_⟩
  · intro x hx; simp [init] at hx
  · intro p e k hk; simp [init, stampCount] at hk
  · simp [init]

/-- **stamps_never_repeat**: in every accepted history no (partition, epoch, sequence) is given twice -/
theorem stamps_never_repeat (cfg : Cfg) (es : List Ev) (s : St) (h : run (init cfg) es = .ok s) : s.stampLog.Nodup :=
  (run_sinv es _ s h (init_sinv cfg)).nodup

/-- **stamps_dense**: in every accepted history the sequences given to a partition in an epoch are 0, 1, …, n-1:
    whenever sequence q was given, every smaller non-negative sequence was given too, and q itself is non-negative -/
theorem stamps_dense (cfg : Cfg) (es : List Ev) (s : St) (h : run (init cfg) es = .ok s)
    (p e q : Int) (hq : (p, e, q) ∈ s.stampLog) (k : Nat) (hk : (k : Int) < q) : (p, e, (k : Int)) ∈ s.stampLog ∧ 0 ≤ q := by
  have hi := run_sinv es _ s h (init_sinv cfg)
  obtain ⟨h0, h1⟩ := hi.below _ hq
  simp only [] at h0 h1
  exact ⟨hi.dense p e k (by omega), h0⟩

/-- non-vacuity: two partitions, an epoch change; the other partition continuing at 3 in the new epoch is rejected -/
example : (run (init { retryMax := 1, icepts := 0, idem := true })
            [.stampAt 0 0 0, .stampAt 1 0 0, .stampAt 0 0 1, .stampAt 1 0 1, .stampAt 1 0 2, .stampAt 0 1 0, .stampAt 1 1 0]).toOption.map
            (fun s => s.stampLog.length) = some 7 := by decide
example : (run (init { retryMax := 1, icepts := 0, idem := true })
            [.stampAt 0 0 0, .stampAt 1 0 0, .stampAt 1 0 1, .stampAt 1 0 2, .stampAt 0 1 0, .stampAt 1 1 3]).toOption.isNone = true := by decide

/-! ### an epoch bump belongs to exactly one failed, sequenced message -/

/-- **bump_only_for_failed_sequenced_message**: the acceptor takes an epoch-bump event only for a message that has an error
    event and carried a sequence number, and only once per message -/
theorem bump_only_for_failed_sequenced_message (s s' : St) (id : Int) (h : step s (.bump id) = .ok s') :
    id ∈ s.errs ∧ s.seqLog.count id ≠ 0 ∧ s.bumps.count id = 0 ∧ s'.bumps = id :: s.bumps := by
  simp only [step] at h
  split at h; · cases h
  split at h; · cases h
  split at h; · cases h
  rename_i h1 h2 h3
  injection h with h; subst h
  exact ⟨by simpa using h1, by simpa using h2, by simpa using h3, rfl⟩

/-- what the driver checks when the producer has closed: no failed sequenced message is left without its bump -/
example : unbumped ({ (init { retryMax := 1, icepts := 0, idem := true }) with errs := [7], seqLog := [7] }) = [7] := by decide
example : unbumped ({ (init { retryMax := 1, icepts := 0, idem := true }) with errs := [7], seqLog := [7], bumps := [7] }) = [] := by decide

end Props.C05stamps
