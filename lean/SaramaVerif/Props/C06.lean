import SaramaVerif.Lemmas.C06
/-
  C06 — committed offsets are marked offsets, and no mark is lost.

  Part 1: theorems about one partition, for ALL sequences of partition-level operations (`POp`): any
  interleaving of application calls (MarkOffset / ResetOffset / AsyncClose / ManagePartition) with the
  committer's visits (snapshot by constructRequest, end of the attempt with any verdict, releasePOMs).
  Part 2: the system (`Sys`, all partitions, cached coordinator, one committer at a time) — every partition
  of every system run is such a partition-level run (`sys_partition_trace`), the blocks of every commit
  request are the partition logs' newest entries, and the theorem about `Close`.
-/
namespace Props.C06
open Model.OffsetMgr Lemmas.C06

/-- every state reachable from an unmanaged partition satisfies the invariant -/
theorem reach_inv (st : Option Pair) (ops : List POp) : PInv (prun (pinit st) ops) :=
  pinv_run (pinv_init st) ops

/-! ## committed_was_marked -/

/-- Every (offset, metadata) pair ever put into a commit request for the partition is the pair fetched
    initially or the argument of an EARLIER MarkOffset / ResetOffset that was accepted (it moved the
    position: `Accepts`), for every operation sequence. -/
theorem committed_was_marked (st : Option Pair) (ops : List POp) :
    ∀ c ∈ (prun (pinit st) ops).commits,
      c = fetched st ∨
      ∃ pre op post, ops = pre ++ op :: post ∧ Accepts (prun (pinit st) pre) op c := by
  intro c hc
  rcases hist_run (pinv_init st) ops c ((reach_inv st ops).commits_hist c hc) with h | h
  · left; simpa [pinit] using h
  · right; exact h

/-- … and so is what the coordinator stores -/
theorem stored_was_marked (st : Option Pair) (ops : List POp) :
    fetched (prun (pinit st) ops).store = fetched st ∨
    ∃ pre op post, ops = pre ++ op :: post ∧
      Accepts (prun (pinit st) pre) op (fetched (prun (pinit st) ops).store) := by
  rcases hist_run (pinv_init st) ops _ (reach_inv st ops).store_hist with h | h
  · left; simpa [pinit] using h
  · right; exact h

/-- ghost-free reading: the pair occurs as the argument of a mark / reset of the sequence -/
theorem committed_was_marked_args (st : Option Pair) (ops : List POp) :
    ∀ c ∈ (prun (pinit st) ops).commits,
      c = fetched st ∨ POp.mark c.1 c.2 ∈ ops ∨ POp.reset c.1 c.2 ∈ ops := by
  intro c hc
  rcases committed_was_marked st ops c hc with h | ⟨pre, op, post, he, _, ha⟩
  · exact Or.inl h
  · right
    rcases ha with ⟨rfl, _⟩ | ⟨rfl, _⟩
    · left; rw [he]; simp
    · right; rw [he]; simp

-- non-vacuity: a run in which two different pairs are committed, one of them marked inside a commit window
example :
    (prun (pinit (some (5, 1)))
      [.manage, .mark 7 2, .snap, .mark 9 3, .verdict .ok, .snap, .verdict .ok]).commits = [(9, 3), (7, 2)] := by
  decide

/-! ## mark_monotone, reset_antitone -/

/-- MarkOffset never lowers the pending position (any state, any argument) -/
theorem mark_monotone (p : PState) (o m : Int) : p.offset ≤ (pstep p (.mark o m)).offset := by
  simp only [pstep]
  split
  · rename_i h; exact Int.le_of_lt h.2
  · exact Int.le_refl _

/-- ResetOffset never raises the pending position -/
theorem reset_antitone (p : PState) (o m : Int) : (pstep p (.reset o m)).offset ≤ p.offset := by
  simp only [pstep]
  split
  · rename_i h; exact h.2
  · exact Int.le_refl _

/-- a mark that does not move the position forward changes nothing (in particular not the metadata) -/
theorem mark_rejected (p : PState) (o m : Int) (h : o ≤ p.offset) : pstep p (.mark o m) = p := by
  simp only [pstep]
  split
  · rename_i hc; exact absurd hc.2 (by omega)
  · rfl

example : (pstep (prun (pinit none) [.manage, .mark 7 2]) (.mark 9 1)).offset = 9 ∧
          (pstep (prun (pinit none) [.manage, .mark 7 2]) (.mark 3 1)).offset = 7 ∧
          (pstep (prun (pinit none) [.manage, .mark 7 2]) (.reset 3 1)).offset = 3 ∧
          (pstep (prun (pinit none) [.manage, .mark 7 2]) (.reset 8 1)).offset = 7 := by decide

/-! ## next_offset_spec -/

/-- NextOffset on a reachable partition with a pom object: the newest entry `c` of the position log (the
    pair fetched when the pom was created, or the last accepted mark / reset) if its offset is ≥ 0, the
    configured initial position and empty metadata otherwise -/
theorem next_offset_spec (st : Option Pair) (ops : List POp) (ini : Int)
    (hobj : (prun (pinit st) ops).obj = true) :
    ∃ c, (prun (pinit st) ops).hist.head? = some c ∧
      nextOffset (prun (pinit st) ops).offset (prun (pinit st) ops).md ini =
        if c.1 ≥ 0 then c else (ini, 0) :=
  ⟨_, (reach_inv st ops).hist_head hobj, rfl⟩

/-- a freshly created pom answers with the stored pair, or with the initial position when nothing is
    stored (the coordinator answers offset -1 then) -/
theorem next_offset_fresh (p : PState) (ini : Int) (hl : p.live = false) :
    nextOffset (pstep p .manage).offset (pstep p .manage).md ini =
      match p.store with
      | some c => if c.1 ≥ 0 then c else (ini, 0)
      | none => (ini, 0) := by
  simp only [pstep, hl, Bool.false_eq_true, ↓reduceIte, nextOffset, fetched]
  cases p.store with
  | none => simp
  | some c => simp

/-- the committer never changes what NextOffset answers -/
theorem next_offset_committer (p : PState) (op : POp) (ini : Int) (h : isCommitter op = true) :
    nextOffset (pstep p op).offset (pstep p op).md ini = nextOffset p.offset p.md ini := by
  rw [(committer_pending (p := p) h).1, (committer_pending (p := p) h).2.1]

example : nextOffset (prun (pinit none) [.manage]).offset (prun (pinit none) [.manage]).md (-2) = (-2, 0) ∧
          nextOffset (prun (pinit (some (4, 1))) [.manage]).offset (prun (pinit (some (4, 1))) [.manage]).md (-2) = (4, 1) ∧
          nextOffset (prun (pinit (some (4, 1))) [.manage, .mark 6 2, .snap, .verdict .fail]).offset
                     (prun (pinit (some (4, 1))) [.manage, .mark 6 2, .snap, .verdict .fail]).md (-2) = (6, 2) := by
  decide

/-! ## clean_means_stored -/

/-- Whenever a partition's pom is not dirty, its pending pair is what the coordinator holds for the
    partition (what OffsetFetch would answer) — for every operation sequence. -/
theorem clean_means_stored (st : Option Pair) (ops : List POp)
    (hobj : (prun (pinit st) ops).obj = true) (hclean : (prun (pinit st) ops).dirty = false) :
    ((prun (pinit st) ops).offset, (prun (pinit st) ops).md) = fetched (prun (pinit st) ops).store :=
  (reach_inv st ops).clean_stored hobj hclean

/-- the only way the dirty flag is cleared: the answer `ok` for a block equal to the pending pair -/
theorem dirty_cleared_only_by_equal_commit (p : PState) (op : POp)
    (hd : p.dirty = true) (hc : (pstep p op).dirty = false) (hm : op ≠ .manage) :
    op = .verdict .ok ∧ p.inflight = some (p.offset, p.md) := by
  cases op with
  | nop => simp [pstep, hd] at hc
  | manage => exact absurd rfl hm
  | mark o m => simp only [pstep] at hc; split at hc <;> simp [hd] at hc
  | reset o m => simp only [pstep] at hc; split at hc <;> simp [hd] at hc
  | aclose => simp only [pstep] at hc; split at hc <;> simp [hd] at hc
  | acloseLive => simp only [pstep] at hc; split at hc <;> simp [hd] at hc
  | snap => simp only [pstep] at hc; split at hc <;> simp [hd] at hc
  | release f => simp only [pstep] at hc; split at hc <;> simp [hd] at hc
  | verdict v =>
    simp only [pstep] at hc
    cases hi : p.inflight with
    | none => simp [hi, hd] at hc
    | some c =>
      simp only [hi] at hc
      cases v with
      | ok =>
        simp only at hc
        rcases updateCommitted_false_iff.mp hc with h | h
        · exact ⟨rfl, by rw [h]⟩
        · rw [hd] at h; exact absurd h (by decide)
      | okLost => simp [hd] at hc
      | fail => simp [hd] at hc

example : (prun (pinit none) [.manage, .mark 7 2, .snap, .verdict .ok]).dirty = false ∧
          (prun (pinit none) [.manage, .mark 7 2, .snap, .verdict .ok]).store = some (7, 2) := by decide

end Props.C06
