import SaramaVerif.Lemmas.C06
import SaramaVerif.Lemmas.C06Sys
/-
  C06 — committed offsets are marked offsets, and no mark is lost.

  Part 1: theorems about one partition, for ALL sequences of partition-level operations (`POp`): any
  interleaving of application calls (MarkOffset / ResetOffset / AsyncClose / ManagePartition) with the
  committer's visits (snapshot by constructRequest, end of the attempt with any verdict, releasePOMs).
  Part 2: the system (`Sys`, all partitions, cached coordinator, one committer at a time) — every partition
  of every system run is such a partition-level run (`sys_partition_trace`), the blocks of every commit
  request are the partition logs' newest entries, and the theorem about `Close`.
-/
namespace Props.C06
open Model.OffsetMgr Lemmas.C06

/-- every state reachable from an unmanaged partition satisfies the invariant -/
theorem reach_inv (st : Option Pair) (ops : List POp) : PInv (prun (pinit st) ops) :=
  pinv_run (pinv_init st) ops

/-! ## committed_was_marked -/

/-- Every (offset, metadata) pair ever put into a commit request for the partition is the pair fetched
    initially or the argument of an EARLIER MarkOffset / ResetOffset that was accepted (it moved the
    position: `Accepts`), for every operation sequence. -/
theorem committed_was_marked (st : Option Pair) (ops : List POp) :
    ∀ c ∈ (prun (pinit st) ops).commits,
      c = fetched st ∨
      ∃ pre op post, ops = pre ++ op :: post ∧ Accepts (prun (pinit st) pre) op c := by
  intro c hc
  rcases hist_run (pinv_init st) ops c ((reach_inv st ops).commits_hist c hc) with h | h
  · left; simpa [pinit] using h
  · right; exact h

/-- … and so is what the coordinator stores -/
theorem stored_was_marked (st : Option Pair) (ops : List POp) :
    fetched (prun (pinit st) ops).store = fetched st ∨
    ∃ pre op post, ops = pre ++ op :: post ∧
      Accepts (prun (pinit st) pre) op (fetched (prun (pinit st) ops).store) := by
  rcases hist_run (pinv_init st) ops _ (reach_inv st ops).store_hist with h | h
  · left; simpa [pinit] using h
  · right; exact h

/-- ghost-free reading: the pair occurs as the argument of a mark / reset of the sequence -/
theorem committed_was_marked_args (st : Option Pair) (ops : List POp) :
    ∀ c ∈ (prun (pinit st) ops).commits,
      c = fetched st ∨ POp.mark c.1 c.2 ∈ ops ∨ POp.reset c.1 c.2 ∈ ops := by
  intro c hc
  rcases committed_was_marked st ops c hc with h | ⟨pre, op, post, he, _, ha⟩
  · exact Or.inl h
  · right
    rcases ha with ⟨rfl, _⟩ | ⟨rfl, _⟩
    · left; rw [he]; simp
    · right; rw [he]; simp

-- non-vacuity: a run in which two different pairs are committed, one of them marked inside a commit window
example :
    (prun (pinit (some (5, 1)))
      [.manage, .mark 7 2, .snap, .mark 9 3, .verdict .ok, .snap, .verdict .ok]).commits = [(9, 3), (7, 2)] := by
  decide

/-! ## mark_monotone, reset_antitone -/

/-- MarkOffset never lowers the pending position (any state, any argument) -/
theorem mark_monotone (p : PState) (o m : Int) : p.offset ≤ (pstep p (.mark o m)).offset := by
  simp only [pstep]
  split
  · rename_i h; exact Int.le_of_lt h.2
  · exact Int.le_refl _

/-- ResetOffset never raises the pending position -/
theorem reset_antitone (p : PState) (o m : Int) : (pstep p (.reset o m)).offset ≤ p.offset := by
  simp only [pstep]
  split
  · rename_i h; exact h.2
  · exact Int.le_refl _

/-- a mark that does not move the position forward changes nothing (in particular not the metadata) -/
theorem mark_rejected (p : PState) (o m : Int) (h : o ≤ p.offset) : pstep p (.mark o m) = p := by
  simp only [pstep]
  split
  · rename_i hc; exact absurd hc.2 (by omega)
  · rfl

example : (pstep (prun (pinit none) [.manage, .mark 7 2]) (.mark 9 1)).offset = 9 ∧
          (pstep (prun (pinit none) [.manage, .mark 7 2]) (.mark 3 1)).offset = 7 ∧
          (pstep (prun (pinit none) [.manage, .mark 7 2]) (.reset 3 1)).offset = 3 ∧
          (pstep (prun (pinit none) [.manage, .mark 7 2]) (.reset 8 1)).offset = 7 := by decide

/-! ## next_offset_spec -/

/-- NextOffset on a reachable partition with a pom object: the newest entry `c` of the position log (the
    pair fetched when the pom was created, or the last accepted mark / reset) if its offset is ≥ 0, the
    configured initial position and empty metadata otherwise -/
theorem next_offset_spec (st : Option Pair) (ops : List POp) (ini : Int)
    (hobj : (prun (pinit st) ops).obj = true) :
    ∃ c, (prun (pinit st) ops).hist.head? = some c ∧
      nextOffset (prun (pinit st) ops).offset (prun (pinit st) ops).md ini =
        if c.1 ≥ 0 then c else (ini, 0) :=
  ⟨_, (reach_inv st ops).hist_head hobj, rfl⟩

/-- a freshly created pom answers with the stored pair, or with the initial position when nothing is
    stored (the coordinator answers offset -1 then) -/
theorem next_offset_fresh (p : PState) (ini : Int) (hl : p.live = false) :
    nextOffset (pstep p .manage).offset (pstep p .manage).md ini =
      match p.store with
      | some c => if c.1 ≥ 0 then c else (ini, 0)
      | none => (ini, 0) := by
  simp only [pstep, hl, Bool.false_eq_true, ↓reduceIte, nextOffset, fetched]
  cases p.store with
  | none => simp
  | some c => simp

/-- the committer never changes what NextOffset answers -/
theorem next_offset_committer (p : PState) (op : POp) (ini : Int) (h : isCommitter op = true) :
    nextOffset (pstep p op).offset (pstep p op).md ini = nextOffset p.offset p.md ini := by
  rw [(committer_pending (p := p) h).1, (committer_pending (p := p) h).2.1]

example : nextOffset (prun (pinit none) [.manage]).offset (prun (pinit none) [.manage]).md (-2) = (-2, 0) ∧
          nextOffset (prun (pinit (some (4, 1))) [.manage]).offset (prun (pinit (some (4, 1))) [.manage]).md (-2) = (4, 1) ∧
          nextOffset (prun (pinit (some (4, 1))) [.manage, .mark 6 2, .snap, .verdict .fail]).offset
                     (prun (pinit (some (4, 1))) [.manage, .mark 6 2, .snap, .verdict .fail]).md (-2) = (6, 2) := by
  decide

/-! ## clean_means_stored -/

/-- Whenever a partition's pom is not dirty, its pending pair is what the coordinator holds for the
    partition (what OffsetFetch would answer) — for every operation sequence. -/
theorem clean_means_stored (st : Option Pair) (ops : List POp)
    (hobj : (prun (pinit st) ops).obj = true) (hclean : (prun (pinit st) ops).dirty = false) :
    ((prun (pinit st) ops).offset, (prun (pinit st) ops).md) = fetched (prun (pinit st) ops).store :=
  (reach_inv st ops).clean_stored hobj hclean

/-- the only way the dirty flag is cleared: the answer `ok` for a block equal to the pending pair -/
theorem dirty_cleared_only_by_equal_commit (p : PState) (op : POp)
    (hd : p.dirty = true) (hc : (pstep p op).dirty = false) (hm : op ≠ .manage) :
    op = .verdict .ok ∧ p.inflight = some (p.offset, p.md) := by
  cases op with
  | nop => simp [pstep, hd] at hc
  | manage => exact absurd rfl hm
  | mark o m => simp only [pstep] at hc; split at hc <;> simp [hd] at hc
  | reset o m => simp only [pstep] at hc; split at hc <;> simp [hd] at hc
  | aclose => simp only [pstep] at hc; split at hc <;> simp [hd] at hc
  | acloseLive => simp only [pstep] at hc; split at hc <;> simp [hd] at hc
  | snap => simp only [pstep] at hc; split at hc <;> simp [hd] at hc
  | release f => simp only [pstep] at hc; split at hc <;> simp [hd] at hc
  | verdict v =>
    simp only [pstep] at hc
    cases hi : p.inflight with
    | none => simp [hi, hd] at hc
    | some c =>
      simp only [hi] at hc
      cases v with
      | ok =>
        simp only at hc
        rcases updateCommitted_false_iff.mp hc with h | h
        · exact ⟨rfl, by rw [h]⟩
        · rw [hd] at h; exact absurd h (by decide)
      | okLost => simp [hd] at hc
      | fail => simp [hd] at hc

example : (prun (pinit none) [.manage, .mark 7 2, .snap, .verdict .ok]).dirty = false ∧
          (prun (pinit none) [.manage, .mark 7 2, .snap, .verdict .ok]).store = some (7, 2) := by decide


/-! ## commits_monotone_without_reset -/

/-- After the commit of the pending pair `(q.offset, q.md)` (the snapshot of a registered dirty partition),
    as long as no ResetOffset is accepted (and the partition is not thrown away by the forced release of
    `Close`), every later commit carries an offset that is at least the committed one, and the later commits
    are ordered among themselves (`new` is newest first) — for every operation sequence. -/
theorem commits_monotone_without_reset (q : PState) (hq : PInv q) (hlive : q.live = true)
    (hdirty : q.dirty = true) (ops : List POp)
    (hnr : NoAcceptedReset (pstep q .snap) ops) (hnf : ∀ op ∈ ops, op ≠ .release true) :
    ∃ new, (prun (pstep q .snap) ops).commits = new ++ (q.offset, q.md) :: q.commits ∧
      (∀ c ∈ new, q.offset ≤ c.1) ∧ List.Pairwise (fun a c => c.1 ≤ a.1) new := by
  have hoff : (pstep q .snap).offset = q.offset := (committer_pending (p := q) (op := .snap) rfl).1
  have hl' : (pstep q .snap).live = true := by simp only [pstep]; split <;> exact hlive
  have hobj' : (pstep q .snap).obj = true := by
    rw [(committer_pending (p := q) (op := .snap) rfl).2.2.1]; exact hq.live_obj hlive
  have hanchor : Anchor q.offset (pstep q .snap) :=
    ⟨pinv_step hq _, hobj', by rw [hoff]; exact Int.le_refl _, Or.inl hl'⟩
  obtain ⟨new, h1, h2, h3⟩ := anchored_commits hanchor ops hnr hnf
  refine ⟨new, ?_, h2, h3⟩
  rw [h1]
  rcases snap_commits q with hc | ⟨_, _, hc⟩
  · exfalso
    simp only [pstep, hlive, hdirty, and_self, ↓reduceIte] at hc
    exact absurd hc (by simp)
  · rw [hc]

-- the hypothesis "no forced release" is needed for the COMMIT log (not for the stored offset, see
-- `store_monotone_without_reset`): a pom thrown away dirty by `Close` and re-created from the store starts
-- again at the stored position, so its first commit can be below the failed commit of its predecessor
example : (prun (pinit none) [.manage, .mark 12 1, .snap, .verdict .fail, .aclose, .release true,
            .manage, .mark 6 2, .snap]).commits = [(6, 2), (12, 1)] := by decide

/-- The offset the coordinator stores never goes backwards along a run in which no ResetOffset is accepted,
    from every state in which the stored offset is not above what is in flight / pending (`Below`: true
    initially, and whenever the partition is clean). -/
theorem store_monotone_without_reset (p : PState) (hp : PInv p) (hb : Below p) (ops : List POp)
    (hnr : NoAcceptedReset p ops) :
    (fetched p.store).1 ≤ (fetched (prun p ops).store).1 :=
  (below_run hp hb ops hnr).2

/-- … in particular between any two points of a run from the start without accepted reset -/
theorem store_monotone_from_start (st : Option Pair) (pre post : List POp)
    (hnr : NoAcceptedReset (pinit st) (pre ++ post)) :
    (fetched (prun (pinit st) pre).store).1 ≤ (fetched (prun (pinit st) (pre ++ post)).store).1 := by
  have split : ∀ (p : PState) (a b : List POp), NoAcceptedReset p (a ++ b) →
      NoAcceptedReset p a ∧ NoAcceptedReset (prun p a) b := by
    intro p a
    induction a generalizing p with
    | nil => intro b h; exact ⟨trivial, h⟩
    | cons x xs ih =>
      intro b h
      have := ih (pstep p x) b h.2
      exact ⟨⟨h.1, this.1⟩, this.2⟩
  have h := split (pinit st) pre post hnr
  rw [prun_append]
  exact store_monotone_without_reset _ (reach_inv st pre) (below_run (pinv_init st) (below_init st) pre h.1).1 post h.2

-- non-vacuity: three commits 7, 9, 9 in order; and with a reset in between the commit does go down
example : (prun (pinit none) [.manage, .mark 7 1, .snap, .verdict .fail, .mark 9 2, .snap, .verdict .ok,
            .reset 9 3, .snap]).commits = [(9, 3), (9, 2), (7, 1)] := by decide
example : NoAcceptedReset (pstep (prun (pinit none) [.manage, .mark 7 1]) .snap)
            [.verdict .fail, .mark 9 2, .reset 12 1, .snap] := by
  simp [NoAcceptedReset, pstep, prun, pinit, fetched]
example : (prun (pinit none) [.manage, .mark 7 1, .snap, .verdict .ok, .reset 3 1, .snap, .verdict .ok]).store
            = some (3, 1) := by decide

/-! ## no_lost_mark -/

/-- A MarkOffset accepted while a commit is in flight is not lost: whatever application calls `win` land
    between the snapshot and the end of the attempt, if they moved the position forward then — whatever the
    attempt's verdict, success included — the partition is still dirty afterwards and the next snapshot
    carries the pending pair (which is the last accepted mark, `PInv.hist_head`). -/
theorem no_lost_mark (q : PState) (hq : PInv q) (hlive : q.live = true)
    (win : List POp) (hwin : ∀ op ∈ win, op.isApp = true)
    (hmoved : q.offset < (prun (pstep q .snap) win).offset) (v : PVerdict) :
    (pstep (prun (pstep q .snap) win) (.verdict v)).dirty = true ∧
    (pstep (pstep (prun (pstep q .snap) win) (.verdict v)) .snap).inflight =
      some ((prun (pstep q .snap) win).offset, (prun (pstep q .snap) win).md) := by
  have hs := committer_pending (p := q) (op := .snap) rfl
  have hs_live : (pstep q .snap).live = true := by simp only [pstep]; split <;> exact hlive
  have hs_infl : ∀ c, (pstep q .snap).inflight = some c → c.1 = q.offset := by
    intro c hc
    simp only [pstep] at hc
    split at hc
    · simp only [Option.some.injEq] at hc; rw [← hc]
    · rename_i hg
      -- not dirty (registered it is): nothing in flight
      have := (hq.infl_dirty c hc)
      exact absurd ⟨this.2, this.1⟩ hg
  have hf := app_run_frame (p := pstep q .snap) hwin
  have hwd : (prun (pstep q .snap) win).dirty = true := by
    rcases hf.2.2.2.2.2.2 with h | ⟨h, _, _⟩
    · exact h
    · rw [h, hs.1] at hmoved; exact absurd hmoved (Int.lt_irrefl _)
  have hne : ∀ c, (prun (pstep q .snap) win).inflight = some c → c.1 ≠ (prun (pstep q .snap) win).offset := by
    intro c hc
    rw [hf.2.1] at hc
    rw [hs_infl c hc]; exact Int.ne_of_lt hmoved
  have hkept := verdict_keeps_dirty _ v hwd hne
  have hvf := verdict_frame (prun (pstep q .snap) win) v
  refine ⟨hkept, ?_⟩
  have hlive' : (pstep (prun (pstep q .snap) win) (.verdict v)).live = true := by
    rw [hvf.2.2.1, hf.1]; exact hs_live
  rw [snap_inflight hlive' hkept, hvf.1, hvf.2.1]

/-- general form: after the end of any attempt, with any application calls in the window, the partition is
    dirty or the coordinator holds exactly the pending pair (nothing between "will be committed again" and
    "is stored") -/
theorem no_lost_update (st : Option Pair) (ops : List POp) (hobj : (prun (pinit st) ops).obj = true) :
    (prun (pinit st) ops).dirty = true ∨
    ((prun (pinit st) ops).offset, (prun (pinit st) ops).md) = fetched (prun (pinit st) ops).store := by
  cases hd : (prun (pinit st) ops).dirty with
  | true => exact Or.inl rfl
  | false => exact Or.inr (clean_means_stored st ops hobj hd)

-- non-vacuity: mark 9 lands while the commit of 7 is in flight and succeeds; 9 is in the next request
example : (prun (pinit none) [.manage, .mark 7 1, .snap, .mark 9 2, .verdict .ok]).dirty = true ∧
          (prun (pinit none) [.manage, .mark 7 1, .snap, .mark 9 2, .verdict .ok]).store = some (7, 1) ∧
          (prun (pinit none) [.manage, .mark 7 1, .snap, .mark 9 2, .verdict .ok, .snap]).inflight = some (9, 2) := by
  decide

/-! ## close_flushes_latest (one partition) -/

/-- The final flush of `Close` seen by one registered partition with nothing in flight: if the coordinator
    stores the block in at least one of the attempts (`ok`, or stored with the answer lost), then after
    `Close` the coordinator holds the pair that was pending when `Close` started — the last accepted mark /
    reset — and the partition is released; the position itself is untouched. -/
theorem close_flushes_latest_partition (p : PState) (hp : PInv p) (hlive : p.live = true)
    (hinfl : p.inflight = none) (vs : List PVerdict) (hacc : ∃ v ∈ vs, v ≠ PVerdict.fail) :
    fetched (closeP p vs).store = (p.offset, p.md) ∧ (closeP p vs).live = false ∧
      ((closeP p vs).offset, (closeP p vs).md) = (p.offset, p.md) := by
  have hstart : Closing (p.offset, p.md) (pstep p .acloseLive) := by
    have hobj := hp.live_obj hlive
    have : pstep p .acloseLive = { p with done := true } := by simp [pstep, hlive]
    rw [this]
    exact ⟨by rw [← this]; exact pinv_step hp _, hobj, rfl, rfl, fun c hc => by simp [hinfl] at hc,
           fun hl => by simp [hlive] at hl⟩
  have hstart_infl : (pstep p .acloseLive).inflight = none := by
    simp only [pstep]; split <;> exact hinfl
  -- the loop: Closing and "nothing in flight" are kept; once stored it stays stored
  have loop : ∀ (vs : List PVerdict) (r : PState), Closing (p.offset, p.md) r → r.inflight = none →
      Closing (p.offset, p.md) (vs.foldl closeAttemptP r) ∧ (vs.foldl closeAttemptP r).inflight = none ∧
      ((fetched r.store = (p.offset, p.md) ∨ ∃ v ∈ vs, v ≠ PVerdict.fail) →
        fetched (vs.foldl closeAttemptP r).store = (p.offset, p.md)) := by
    intro vs
    induction vs with
    | nil => intro r hr hi; exact ⟨hr, hi, fun h => by
        rcases h with h | ⟨v, hv, _⟩
        · exact h
        · simp at hv⟩
    | cons v vs ih =>
      intro r hr hi
      have hops : ∀ op ∈ [POp.snap, .verdict v, .release false], isCommitter op = true ∧ op ≠ .release true := by
        intro op hop
        simp only [List.mem_cons, List.mem_nil_iff, or_false] at hop
        rcases hop with rfl | rfl | rfl <;> exact ⟨rfl, by simp⟩
      have hr' := closing_run hr [.snap, .verdict v, .release false] hops
      have hi' : (closeAttemptP r v).inflight = none := by
        simp only [closeAttemptP]
        rw [release_inflight]
        exact (verdict_frame (pstep r .snap) v).2.2.2.1
      have := ih (closeAttemptP r v) hr'.1 hi'
      refine ⟨this.1, this.2.1, fun h => this.2.2 ?_⟩
      rcases h with h | ⟨v', hv', hne⟩
      · exact Or.inl (hr'.2.1 h)
      · simp only [List.mem_cons] at hv'
        rcases hv' with rfl | hv'
        · exact Or.inl (closing_attempt hr hi v' hne).1
        · exact Or.inr ⟨v', hv', hne⟩
  have hl := loop vs _ hstart hstart_infl
  have hstored := hl.2.2 (Or.inr hacc)
  have hfin := hl.1
  -- the forced release
  simp only [closeP]
  have hfr : ∀ r : PState, Closing (p.offset, p.md) r → r.inflight = none →
      (pstep r (.release true)).store = r.store ∧ (pstep r (.release true)).live = false ∧
      (pstep r (.release true)).offset = r.offset ∧ (pstep r (.release true)).md = r.md := by
    intro r hr hi
    simp only [pstep]
    split
    · simp
    · rename_i hg
      refine ⟨rfl, ?_, rfl, rfl⟩
      cases hrl : r.live with
      | false => rfl
      | true => exact absurd ⟨hrl, by simp [releaseDue, hr.done], hi⟩ hg
  have := hfr _ hfin hl.2.1
  refine ⟨by rw [this.1]; exact hstored, this.2.1, ?_⟩
  rw [this.2.2.1, this.2.2.2]; exact hfin.pending

-- non-vacuity: first attempt fails, second is accepted
example : (closeP (prun (pinit (some (1, 0))) [.manage, .mark 7 1, .snap, .verdict .ok, .mark 9 2])
            [.fail, .ok, .fail]).store = some (9, 2) ∧
          (closeP (prun (pinit (some (1, 0))) [.manage, .mark 7 1, .snap, .verdict .ok, .mark 9 2])
            [.fail, .ok, .fail]).live = false := by decide
-- and without an accepted attempt the mark does not reach the coordinator (the hypothesis is needed)
example : (closeP (prun (pinit (some (1, 0))) [.manage, .mark 7 1, .snap, .verdict .ok, .mark 9 2])
            [.fail, .fail]).store = some (7, 1) := by decide


/-! # Part 2: the system (all partitions, cached coordinator, one committer at a time) -/

/-- every reachable system state satisfies the system invariant (partition invariants; no request under way
    ⇒ no block in flight anywhere) -/
theorem sys_reach_inv (sts : List (Option Pair)) (ops : List Op) : SInv (run (sinit sts) ops) :=
  sinv_run (sinv_init sts) ops

/-- Every partition of every system run is a partition-level run from the unmanaged state: the system adds
    no behaviour a partition could observe beyond the operation sequences Part 1 quantifies over. -/
theorem sys_partition_trace (sts : List (Option Pair)) (ops : List Op) (i : Nat) :
    (run (sinit sts) ops).parts[i]? =
      (sts[i]?).map (fun st => prun (pinit st) (projRun (sinit sts) i ops)) := by
  rw [run_parts]
  simp only [sinit, List.getElem?_map, Option.map_map]
  rfl

/-- committed_was_marked for the system: every pair in partition `i`'s commit log is the pair stored for it
    initially or the argument of a MarkOffset / ResetOffset call on partition `i` -/
theorem sys_committed_was_marked (sts : List (Option Pair)) (ops : List Op) (i : Nat) (p : PState)
    (hp : (run (sinit sts) ops).parts[i]? = some p) :
    ∃ st, sts[i]? = some st ∧
      ∀ c ∈ p.commits, c = fetched st ∨ Op.mark i c.1 c.2 ∈ ops ∨ Op.reset i c.1 c.2 ∈ ops := by
  rw [sys_partition_trace] at hp
  cases hst : sts[i]? with
  | none => simp [hst] at hp
  | some st =>
    simp only [hst, Option.map_some, Option.some.injEq] at hp
    refine ⟨st, rfl, fun c hc => ?_⟩
    rw [← hp] at hc
    rcases committed_was_marked_args st _ c hc with h | h | h
    · exact Or.inl h
    · exact Or.inr (Or.inl (projRun_mark h))
    · exact Or.inr (Or.inr (projRun_reset h))

/-- the blocks of the request `constructRequest` builds are the pending pairs of the registered dirty
    partitions, and each is logged as that partition's newest commit — so the theorems about the commit logs
    are theorems about the requests on the wire -/
theorem request_blocks_are_commits (s : Sys) (hs : SInv s) (hidle : s.active = false) (i : Nat) (p : PState)
    (hp : s.parts[i]? = some p) (c : Pair)
    (hb : (requestBlocks (stepSys s .construct))[i]? = some (some c)) :
    c = (p.offset, p.md) ∧ p.live = true ∧ p.dirty = true ∧
      ∃ q, (stepSys s .construct).parts[i]? = some q ∧ q.commits = c :: p.commits := by
  have hq : (stepSys s .construct).parts[i]? = some (pstep p .snap) := by
    rw [stepSys_parts, hp]; simp [proj, hidle]
  simp only [requestBlocks, List.getElem?_map, hq, Option.map_some, Option.some.injEq] at hb
  have hnone := hs.idle hidle p (List.mem_of_getElem? hp)
  by_cases hg : p.live = true ∧ p.dirty = true
  · obtain ⟨hl, hd⟩ := hg
    have hcm : (pstep p .snap).commits = (p.offset, p.md) :: p.commits := by simp [pstep, hl, hd]
    rw [snap_inflight hl hd] at hb
    simp only [Option.some.injEq] at hb
    exact ⟨hb.symm, hl, hd, _, hq, by rw [hcm, hb]⟩
  · exfalso
    have : pstep p .snap = p := by simp only [pstep]; rw [if_neg hg]
    rw [this, hnone] at hb
    exact absurd hb (by simp)

/-- … hence: every block of every commit request of every system run is the initially stored pair or the
    argument of a MarkOffset / ResetOffset call on that partition made before the request was built -/
theorem sys_request_blocks_marked (sts : List (Option Pair)) (ops : List Op)
    (hidle : (run (sinit sts) ops).active = false) (i : Nat) (c : Pair)
    (hb : (requestBlocks (stepSys (run (sinit sts) ops) .construct))[i]? = some (some c)) :
    ∃ st, sts[i]? = some st ∧ (c = fetched st ∨ Op.mark i c.1 c.2 ∈ ops ∨ Op.reset i c.1 c.2 ∈ ops) := by
  have hs := sys_reach_inv sts ops
  cases hp : (run (sinit sts) ops).parts[i]? with
  | none =>
    exfalso
    have : (stepSys (run (sinit sts) ops) .construct).parts[i]? = none := by rw [stepSys_parts, hp]; rfl
    simp [requestBlocks, List.getElem?_map, this] at hb
  | some p =>
    obtain ⟨_, _, _, q, hq, hcm⟩ := request_blocks_are_commits _ hs hidle i p hp c hb
    have hrun : (run (sinit sts) (ops ++ [.construct])).parts[i]? = some q := by
      rw [run_append]; exact hq
    obtain ⟨st, hst, hall⟩ := sys_committed_was_marked sts (ops ++ [.construct]) i q hrun
    refine ⟨st, hst, ?_⟩
    rcases hall c (by rw [hcm]; exact List.mem_cons_self ..) with h | h | h
    · exact Or.inl h
    · right; left; simpa using h
    · right; right; simpa using h

example :
    requestBlocks (run (sinit [none, some (5, 1)])
      [.manage 0, .manage 1, .mark 0 7 2, .mark 1 9 3, .reset 1 4 1, .construct]) = [some (7, 2), some (4, 1)] := by
  decide

/-! ## close_flushes_latest -/

/-- `Close()` with auto-commit on, from any reachable state with no request under way (the ticker loop has
    exited; a concurrent manual `Commit` is excluded by the property), no application call during `Close`:
    if among the `retryMax + 1` permitted final attempts there is one the coordinator accepts (lookup
    succeeds, NoError for every partition), then for every registered partition the coordinator holds, when
    `Close` returns, the pair that was pending when `Close` was called (the last accepted MarkOffset /
    ResetOffset: `PInv.hist_head`), and the partition is released. Earlier attempts may fail in any way. -/
theorem close_flushes_latest (s : Sys) (hs : SInv s) (hidle : s.active = false) (retryMax : Nat)
    (script : List Attempt) (hw : ∀ a ∈ script, a.win = [])
    (hacc : ∃ a ∈ script.take (retryMax + 1), Accepting s.parts.length a)
    (i : Nat) (p : PState) (hp : s.parts[i]? = some p) (hlive : p.live = true) :
    ∃ r, (run s (closeOps s true retryMax script)).parts[i]? = some r ∧
      fetched r.store = (p.offset, p.md) ∧ r.live = false ∧ (r.offset, r.md) = (p.offset, p.md) := by
  have hpinv := hs.parts p (List.mem_of_getElem? hp)
  have hinfl := hs.idle hidle p (List.mem_of_getElem? hp)
  -- asyncClosePOMs
  have hs0 : SInv (stepSys s .acloseAll) := sinv_step hs _
  have hidle0 : (stepSys s .acloseAll).active = false := hidle
  have hp0 : (stepSys s .acloseAll).parts[i]? = some (pstep p .acloseLive) := by
    rw [stepSys_parts, hp]; rfl
  have hcl0 : Closing (p.offset, p.md) (pstep p .acloseLive) := by
    have hobj := hpinv.live_obj hlive
    have : pstep p .acloseLive = { p with done := true } := by simp [pstep, hlive]
    rw [this]
    exact ⟨by rw [← this]; exact pinv_step hpinv _, hobj, rfl, rfl, fun c hc => by simp [hinfl] at hc,
           fun hl => by simp [hlive] at hl⟩
  have hw' : ∀ a ∈ script.take (retryMax + 1), a.win = [] := fun a ha => hw a (List.mem_of_mem_take ha)
  have hacc' : ∃ a ∈ script.take (retryMax + 1), Accepting (stepSys s .acloseAll).parts.length a := by
    rw [stepSys_length]; exact hacc
  obtain ⟨r, hr, hclr, hlr⟩ := closeLoop_flushes (pend := (p.offset, p.md)) i _ _ hs0 hidle0 hw' hacc' _ hp0 hcl0
  refine ⟨r, ?_, (hclr.dead hlr).1, hlr, hclr.pending⟩
  -- the forced release and dropping the coordinator do not touch a released partition
  simp only [closeOps, ↓reduceIte, List.cons_append, List.nil_append, run]
  rw [run_append]
  simp only [run, stepSys_parts, hr, Option.map_some, Option.some.injEq]
  have hrel : ∀ f, pstep r (.release f) = r := by
    intro f; simp [pstep, hlr]
  simp only [proj]
  split <;> simp [pstep, hlr]

-- non-vacuity: two partitions, first attempt loses the connection, second fails at lookup, third is accepted
example :
    (run (run (sinit [none, some (5, 1)]) [.manage 0, .manage 1, .mark 0 7 2, .mark 1 9 3])
      (closeOps (run (sinit [none, some (5, 1)]) [.manage 0, .manage 1, .mark 0 7 2, .mark 1 9 3]) true 2
        [⟨true, [], .connErr false⟩, ⟨false, [], .respond [.code 0, .code 0]⟩,
         ⟨true, [], .respond [.code 0, .code 0]⟩])).parts.map (·.store) = [some (7, 2), some (9, 3)] := by
  decide
-- with retryMax = 1 the accepted attempt is not reached: nothing is stored (the hypothesis is needed)
example :
    (run (run (sinit [none, some (5, 1)]) [.manage 0, .manage 1, .mark 0 7 2, .mark 1 9 3])
      (closeOps (run (sinit [none, some (5, 1)]) [.manage 0, .manage 1, .mark 0 7 2, .mark 1 9 3]) true 1
        [⟨true, [], .connErr false⟩, ⟨false, [], .respond [.code 0, .code 0]⟩,
         ⟨true, [], .respond [.code 0, .code 0]⟩])).parts.map (·.store) = [none, some (5, 1)] := by
  decide


/-! ## the initial fetch of ManagePartition -/

/-- ManagePartition creates a pom (`fetchInitial = ok`) only from a fetch attempt that was answered with
    ErrNoError within the `retries + 1` permitted attempts (or after the fault script ran out, i.e. by a
    coordinator answering normally) — never from an attempt that failed. -/
theorem fetch_ok_is_answered_ok (b : Bool) (r : Nat) (script : List FetchAtt) (b' : Bool)
    (h : fetchInitial b r script = .ok b') :
    (∃ a ∈ script.take (r + 1), a.ans = .ok) ∨ script.length < r + 1 := by
  induction script generalizing b r with
  | nil => right; simp
  | cons a as ih =>
    rw [fetchInitial.eq_def] at h; simp only at h
    have step : ∀ (bb : Bool) (r' : Nat), r = r' + 1 → fetchInitial bb r' as = .ok b' →
        (∃ x ∈ (a :: as).take (r + 1), x.ans = .ok) ∨ (a :: as).length < r + 1 := by
      intro bb r' hr hh
      subst hr
      rcases ih bb r' hh with ⟨x, hx, hxo⟩ | hl
      · left; exact ⟨x, by simp only [List.take_succ_cons, List.mem_cons]; right; exact hx, hxo⟩
      · right; simp only [List.length_cons]; omega
    split at h
    · cases r with
      | zero => simp at h
      | succ r' => exact step false r' rfl h
    · cases hans : a.ans with
      | ok => left; exact ⟨a, by simp, hans⟩
      | missing => simp [hans] at h
      | other k => simp [hans] at h
      | reqErr =>
        simp only [hans] at h
        cases r with
        | zero => simp at h
        | succ r' => exact step false r' rfl h
      | notCoord =>
        simp only [hans] at h
        cases r with
        | zero => simp at h
        | succ r' => exact step false r' rfl h
      | loading =>
        simp only [hans] at h
        cases r with
        | zero => simp at h
        | succ r' => exact step true r' rfl h

/-- If each of the `retries + 1` permitted attempts of the initial fetch meets a retryable failure
    (coordinator moved, offsets loading, request error), ManagePartition returns an error: no pom exists, so
    no position other than a fetched one can ever be reported or committed. -/
theorem fetch_budget_exhausted_fails (b : Bool) (r : Nat) (script : List FetchAtt)
    (hlen : r + 1 ≤ script.length)
    (hall : ∀ a ∈ script.take (r + 1), a.ans = .notCoord ∨ a.ans = .loading ∨ a.ans = .reqErr) :
    ∃ e b', fetchInitial b r script = .fail e b' := by
  cases h : fetchInitial b r script with
  | fail e b' => exact ⟨e, b', rfl⟩
  | ok b' =>
    exfalso
    rcases fetch_ok_is_answered_ok b r script b' h with ⟨a, ha, hok⟩ | hl
    · rcases hall a ha with h1 | h1 | h1 <;> rw [hok] at h1 <;> exact absurd h1 (by decide)
    · omega

example : fetchInitial false 2 [⟨true, .loading⟩, ⟨true, .notCoord⟩, ⟨false, .ok⟩] = .fail .lookup false ∧
          fetchInitial false 2 [⟨true, .loading⟩, ⟨true, .notCoord⟩, ⟨true, .ok⟩] = .ok true ∧
          fetchInitial true 1 [⟨true, .loading⟩, ⟨true, .reqErr⟩, ⟨true, .ok⟩] = .fail .io true := by decide

end Props.C06
