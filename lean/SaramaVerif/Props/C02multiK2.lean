/-
  C02 composition, stage C: the computed projection, WIDENED by the two proved hidden connection-error cases
  (Props/C02multiQ.lean).  The definitions of Props/C02multiZ.lean / C02multiK.lean are kept; these are their widened
  versions:
    * `hidConnOK` / `delOK2` / `stepOK2` / `projOK2` - `delOK` OR: a connection error for a set that holds nothing of
      `p`, nothing of `p` buffered or held, and the worker is already closing or is `p`'s current worker in normal
      mode with its syn consumed and `p` not in retry mode.
    * `projChoice2` - as `projChoice`; a hidden connection error is `closeW w` (worker not closing) or no step.
    * `proj_step_c2`, `projRun2`, `projRun2_sound`, `projSplitOK2`, `log_order_every_partition_checked2`.
-/
import SaramaVerif.Props.C02multiQ

set_option linter.unusedSimpArgs false
set_option linter.unusedVariables false

namespace Props.C02sys
open Model Model.Pipeline Model.PipelineN Model.BrokerProd Lemmas.C02sys

/-- a connection error the projection can follow although the set holds nothing of `p` -/
def hidConnOK (p : Int) (sN : SysN) (w : Nat) : Bool :=
  match (sN.wk w).bp.sets, (sN.wk w).pend with
  | sent :: _, some (.conn _, _) =>
    (projL p sent).isEmpty && (projL p (sN.wk w).bp.buffer).isEmpty && (projWait p (sN.wk w).bp.wait).isNone &&
      ((sN.wk w).bp.closing ||
        (decide (sN.cur p = some w) && !headSyn (projQ p (sN.wk w).inq) && !(sN.wk w).bp.cr p))
  | _, _ => false

def delOK2 (p : Int) (sN : SysN) (w : Nat) : Bool := delOK p sN w || hidConnOK p sN w

def stepOK2 (p : Int) (sN : SysN) : ChoiceN → Bool
  | .broker w r => brOK p sN w r
  | .deliver w _ => delOK2 p sN w
  | _ => true

def projOK2 (M : Nat) (p : Int) : SysN → List ChoiceN → Bool
  | _, [] => true
  | sN, c :: cs =>
    match sysStepN M sN c with
    | none => false
    | some sN' => stepOK2 p sN c && projOK2 M p sN' cs

def projChoice2 (p : Int) (sN : SysN) (s : Sys) : ChoiceN → Option Choice
  | .deliver w st =>
    if (s.wk w).bp.sets = [] then
      match (sN.wk w).bp.sets, (sN.wk w).pend with
      | _ :: _, some (.conn _, _) => if (sN.wk w).bp.closing then none else some (.closeW w)
      | _, _ => none
    else some (.deliver w st)
  | c => projChoice p sN s c

theorem proj_step_c2 {M : Nat} {p : Int} {sN sN' : SysN} {s : Sys} (h : WRel (BRp p) p sN s) (c : ChoiceN)
    (hok : stepOK2 p sN c = true) (hs : sysStepN M sN c = some sN') : StepRes M p sN' s (projChoice2 p sN s c) := by
  cases c with
  | submit q => exact proj_step_c h (.submit q) rfl hs
  | retryOut => exact proj_step_c h (.retryOut) rfl hs
  | dispatch => exact proj_step_c h (.dispatch) rfl hs
  | moveLeader q b => exact proj_step_c h (.moveLeader q b) rfl hs
  | ppRecv q lks => exact proj_step_c h (.ppRecv q lks) rfl hs
  | bpRecv w ov => exact proj_step_c h (.bpRecv w ov) rfl hs
  | handover w => exact proj_step_c h (.handover w) rfl hs
  | broker w r => exact proj_step_c h (.broker w r) hok hs
  | deliver w st =>
    simp only [stepOK2, delOK2, Bool.or_eq_true] at hok
    cases hsets : (sN.wk w).bp.sets with
    | nil =>
      obtain ⟨_, _, _, _, hk0, _⟩ := h.br w
      simp [sysStepN, hk0 hsets] at hs
    | cons sent rest =>
      cases hpd : (sN.wk w).pend with
      | none => simp [sysStepN, hpd] at hs
      | some rb =>
        obtain ⟨r, base⟩ := rb
        by_cases hj : (s.wk w).bp.sets = []
        · have he : projL p sent = [] := by
            obtain ⟨hid, _, hs1, hhid, _, _⟩ := h.br w
            cases hid with
            | true => exact (hhid rfl).2 sent (by rw [hsets]; simp)
            | false => rw [hj, hsets] at hs1; simp at hs1
          cases r with
          | parts v =>
            simp only [projChoice2, hj, if_true, hsets, hpd, StepRes]
            have hd : delOK p sN w = true := by
              rcases hok with e | e
              · exact e
              · simp [hidConnOK, hsets, hpd] at e
            rcases proj_deliver_noneOfP_c h hd hsets he hs with ⟨_, h1⟩ | ⟨e, _⟩
            · exact h1
            · exact absurd hj e
          | conn a =>
            have hd : hidConnOK p sN w = true := by
              rcases hok with e | e
              · simp [delOK, hsets, hpd, he, isConn] at e
              · exact e
            simp only [hidConnOK, hsets, hpd, Bool.and_eq_true, Bool.or_eq_true, List.isEmpty_iff,
              Option.isNone_iff_eq_none, decide_eq_true_eq, Bool.not_eq_true'] at hd
            obtain ⟨⟨⟨_, hbuf⟩, hwt⟩, hmode⟩ := hd
            by_cases hcl : (sN.wk w).bp.closing = true
            · simp only [projChoice2, hj, if_true, hsets, hpd, hcl, StepRes]
              exact proj_deliver_hidden_conn_closing_p h hpd hsets he hbuf hwt hj hcl hs
            · have hcl' : (sN.wk w).bp.closing = false := by simpa using hcl
              simp only [projChoice2, hj, if_true, hsets, hpd, hcl', Bool.false_eq_true, if_false, StepRes]
              rcases hmode with e | ⟨⟨e1, e2⟩, e3⟩
              · exact absurd e hcl
              · exact proj_deliver_hidden_conn_closeW_p h hpd hsets he hbuf hwt hj e1 e2 hcl' e3 hs
        · simp only [projChoice2, hj, if_false, StepRes]
          cases r with
          | parts v =>
            have hd : delOK p sN w = true := by
              rcases hok with e | e
              · exact e
              · simp [hidConnOK, hsets, hpd] at e
            by_cases he : projL p sent = []
            · rcases proj_deliver_noneOfP_c h hd hsets he hs with ⟨e, _⟩ | ⟨_, h1⟩
              · exact absurd e hj
              · exact h1
            · exact proj_deliver_visible_parts_p h hpd hsets he hs
          | conn a => exact proj_deliver_visible_conn_j h hpd hsets hj hs

def projRun2 (M : Nat) (p : Int) : SysN → Sys → List ChoiceN → Option (List Choice × Sys)
  | _, s, [] => some ([], s)
  | sN, s, c :: cs =>
    match sysStepN M sN c with
    | none => none
    | some sN' =>
      match projChoice2 p sN s c with
      | none => projRun2 M p sN' s cs
      | some c' =>
        match sysStep M s c' with
        | none => none
        | some s' => (projRun2 M p sN' s' cs).map (fun r => (c' :: r.1, r.2))

theorem projRun2_sound_gen {M : Nat} {p : Int} (cs : List ChoiceN) :
    ∀ {sN sNf : SysN} {s : Sys}, WRel (BRp p) p sN s → projOK2 M p sN cs = true → runN M sN cs = some sNf →
    ∃ cs' sf, projRun2 M p sN s cs = some (cs', sf) ∧ run M s cs' = some sf ∧ WRel (BRp p) p sNf sf := by
  induction cs with
  | nil =>
    intro sN sNf s h _ hr
    simp only [runN, Option.some.injEq] at hr; subst hr
    exact ⟨[], s, rfl, rfl, h⟩
  | cons c cs ih =>
    intro sN sNf s h hok hr
    simp only [runN] at hr
    cases hs : sysStepN M sN c with
    | none => simp [hs] at hr
    | some sN1 =>
      simp only [hs] at hr
      simp only [projOK2, hs, Bool.and_eq_true] at hok
      obtain ⟨hc, hok1⟩ := hok
      have hstep := proj_step_c2 h c hc hs
      cases hpc : projChoice2 p sN s c with
      | none =>
        rw [hpc] at hstep
        obtain ⟨cs', sf, e1, e2, e3⟩ := ih hstep hok1 hr
        exact ⟨cs', sf, by simp only [projRun2, hs, hpc]; exact e1, e2, e3⟩
      | some c' =>
        rw [hpc] at hstep
        obtain ⟨s', h1, h2⟩ := hstep
        obtain ⟨cs', sf, e1, e2, e3⟩ := ih h2 hok1 hr
        exact ⟨c' :: cs', sf, by simp only [projRun2, hs, hpc, h1, e1, Option.map_some], by simp only [run, h1]; exact e2, e3⟩

theorem projRun2_sound {M : Nat} {p : Int} (cs : List ChoiceN) (sN : SysN)
    (hok : projOK2 M p {} cs = true) (hr : runN M {} cs = some sN) :
    ∃ cs' s, projRun2 M p {} {} cs = some (cs', s) ∧ run M {} cs' = some s ∧ s.log = sN.log p ∧ s.succ = sN.succ p ∧
      s.errs = sN.errs p := by
  obtain ⟨cs', sf, e1, e2, e3⟩ := projRun2_sound_gen cs (wrel_init p) hok hr
  exact ⟨cs', sf, e1, e2, e3.q.log, e3.q.succ, e3.q.errs⟩

def projSplitOK2 (M : Nat) (p : Int) (cs : List ChoiceN) : Bool :=
  match projRun2 M p {} {} cs with
  | some (cs', _) => splitOKs M cs'
  | none => false

/-- **LogOrder for every partition, all premises decidable from the choice list** (widened side condition) -/
theorem log_order_every_partition_checked2 {M : Nat} (hM : 1 ≤ M) {p : Int} (cs : List ChoiceN) (sN : SysN)
    (hok : projOK2 M p {} cs = true) (hsp : projSplitOK2 M p cs = true) (hr : runN M {} cs = some sN) :
    LogOrderOf (sN.log p) (sN.succ p) := by
  obtain ⟨cs', s, e1, e2, e3, e4, _⟩ := projRun2_sound cs sN hok hr
  simp only [projSplitOK2, e1] at hsp
  have := log_order_reselect hM cs' hsp e2
  rw [logOrder_iff, e3, e4] at this
  exact this

/-! ### non-vacuity -/

/-- `exForeignConn`: outside `projOK` for partition 0 (a connection error for a set of partition 1 on the worker
    that is also partition 0's current worker), inside `projOK2`; the projection has 9 steps, the last is `closeW` -/
example : projOK 2 0 {} exForeignConn = false ∧ projOK2 2 0 {} exForeignConn = true := by decide
example : (projRun2 2 0 {} {} exForeignConn).map (fun r => r.1.length) = some 9 := by decide
example : projSplitOK2 2 0 exForeignConn = true ∧ projSplitOK2 2 1 exForeignConn = true := by decide

/-- LogOrder for both partitions of `exForeignConn`, everything decided from the choice list -/
example : ∀ sN, runN 2 {} exForeignConn = some sN →
    LogOrderOf (sN.log 0) (sN.succ 0) ∧ LogOrderOf (sN.log 1) (sN.succ 1) :=
  fun sN hr => ⟨log_order_every_partition_checked2 (by decide) exForeignConn sN (by decide) (by decide) hr,
    log_order_every_partition_checked2 (by decide) exForeignConn sN (by decide) (by decide) hr⟩

/-- the earlier examples under the widened condition -/
example : projOK2 2 0 {} exTwo = true ∧ projSplitOK2 2 0 exTwo = true ∧ projOK2 2 1 {} exTwo = true ∧
    projSplitOK2 2 1 exTwo = true := by decide
example : projOK2 2 0 {} exConn = true ∧ projSplitOK2 2 0 exConn = true ∧ projOK2 2 1 {} exConn = true ∧
    projSplitOK2 2 1 exConn = true := by decide

end Props.C02sys
