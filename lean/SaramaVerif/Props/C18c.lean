import SaramaVerif.Model.Feeder
/-
  C18 (consumer half) and the feeder part of C03/C12: for EVERY accepted event sequence of the partition
  consumer's feeder - any reader pace (the MaxProcessingTime ticker may expire anywhere), any moment of closing -
  * the interceptor chain is applied exactly once to every message before it is handed to the application
    (never twice, also not to the message a slow reader was blocked on), and nothing is delivered that was not
    intercepted immediately before;
  * the broker worker is released exactly once per parsed response; nothing is delivered after the feeder closed.
-/
namespace Props.C18c
open Model.Feeder

structure FInv (s : St) : Prop where
  icept_nodup : s.iceptLog.Nodup
  deliv_sub   : ∀ o ∈ s.delivered, o ∈ s.iceptLog
  deliv_nodup : s.delivered.Nodup
  cur_icept   : ∀ o, s.cur = some o → o ∈ s.iceptLog ∧ o ∉ s.delivered
  acks_le     : s.acks ≤ s.responses
  acks_eq     : s.acks + (if s.open_ ∧ ¬ s.acked then 1 else 0) = s.responses
  closed_idle : s.closed = true → s.open_ = false
  slow_acked  : s.slow = true → s.acked = true

theorem init_inv : FInv {} := by constructor <;> simp

theorem step_inv (s s' : St) (e : Ev) (h : step s e = .ok s') (hi : FInv s) : FInv s' := by
  cases e with
  | parsed n =>
    simp only [step] at h
    split at h; · cases h
    split at h; · cases h
    rename_i h1 h2
    have hop : s.open_ = false := by simpa using h2
    have hacks := hi.acks_eq
    simp only [hop, Bool.false_eq_true, false_and, ↓reduceIte, Nat.add_zero] at hacks
    split at h <;> (injection h with h; subst h) <;>
      exact ⟨hi.1, hi.2, hi.3, by intro o ho; simp at ho, by simp only; omega,
             by simp only [Bool.false_eq_true, not_false_eq_true, and_self, ↓reduceIte]; omega,
             by intro hc; simp only at hc; simp [hc] at h1, by intro hs; simp at hs⟩
  | icept off =>
    simp only [step] at h
    split at h; · cases h
    split at h; · cases h
    split at h; · cases h
    split at h; · cases h
    rename_i h1 h2 h3 h4
    injection h with h; subst h
    refine ⟨List.nodup_cons.mpr ⟨h4, hi.icept_nodup⟩, ?_, hi.deliv_nodup, ?_, hi.acks_le, hi.acks_eq, hi.closed_idle, hi.slow_acked⟩
    · intro o ho; exact List.mem_cons_of_mem _ (hi.deliv_sub o ho)
    · intro o ho
      simp only [Option.some.injEq] at ho; subst ho
      exact ⟨List.mem_cons_self, fun hd => h4 (hi.deliv_sub _ hd)⟩
  | deliver off =>
    simp only [step] at h
    split at h; · cases h
    split at h; · cases h
    split at h; · cases h
    rename_i h1 h2 h3
    injection h with h; subst h
    have hc : s.cur = some off := by simpa using h2
    have := hi.cur_icept off hc
    refine ⟨hi.icept_nodup, ?_, List.nodup_cons.mpr ⟨this.2, hi.deliv_nodup⟩, by intro o ho; simp at ho, hi.acks_le, hi.acks_eq, hi.closed_idle, hi.slow_acked⟩
    intro o ho
    rcases List.mem_cons.mp ho with rfl | ho
    · exact this.1
    · exact hi.deliv_sub o ho
  | ack why =>
    simp only [step] at h
    split at h; · cases h
    split at h; · cases h
    rename_i h1 h2
    have hop : s.open_ = true := by simpa using h1
    have hna : s.acked = false := by simpa using h2
    have hacks := hi.acks_eq
    simp only [hop, hna, Bool.false_eq_true, not_false_eq_true, and_self, ↓reduceIte] at hacks
    split at h
    · split at h; · cases h
      injection h with h; subst h
      exact ⟨hi.1, hi.2, hi.3, hi.4, by simp only; omega, by simp only [Bool.false_eq_true, false_and, ↓reduceIte]; omega,
             by intro _; rfl, by intro _; rfl⟩
    · split at h
      · injection h with h; subst h
        exact ⟨hi.1, hi.2, hi.3, by intro o ho; simp at ho, by simp only; omega,
               by simp only [Bool.false_eq_true, false_and, ↓reduceIte]; omega, by intro _; rfl, by intro _; rfl⟩
      · split at h; · cases h
        injection h with h; subst h
        exact ⟨hi.1, hi.2, hi.3, hi.4, by simp only; omega,
               by simp only [not_true_eq_false, and_false, ↓reduceIte]; omega,
               by intro hc; have := hi.closed_idle hc; simp [hop] at this, by intro _; rfl⟩
  | abandon off =>
    simp only [step] at h
    split at h; · cases h
    split at h; · cases h
    rename_i h1 h2
    injection h with h; subst h
    exact ⟨hi.1, hi.2, hi.3, by intro o ho; simp at ho, hi.acks_le, hi.acks_eq, hi.closed_idle, hi.slow_acked⟩
  | resubscribe =>
    simp only [step] at h
    split at h; · cases h
    split at h; · cases h
    split at h; · cases h
    rename_i h1 h2 h3
    injection h with h; subst h
    have hos : s.open_ = true ∧ s.slow = true := by simpa using h1
    -- on the slow path the worker has been released already (ack 2 set `acked`), so the count is unchanged
    have hak : s.acked = true := hi.slow_acked hos.2
    refine ⟨hi.1, hi.2, hi.3, hi.4, hi.acks_le, ?_, by intro _; rfl, by intro hs; simp at hs⟩
    have hacks := hi.acks_eq
    simp only [hos.1, hak, not_true_eq_false, and_false, ↓reduceIte, Nat.add_zero] at hacks
    simp only [Bool.false_eq_true, false_and, ↓reduceIte, Nat.add_zero]
    exact hacks
  | closed =>
    simp only [step] at h
    split at h; · cases h
    split at h; · cases h
    rename_i h1 h2
    injection h with h; subst h
    exact ⟨hi.1, hi.2, hi.3, hi.4, hi.acks_le, hi.acks_eq, by intro _; simpa using h2, hi.slow_acked⟩

theorem run_inv (s s' : St) (es : List Ev) (h : run s es = .ok s') (hi : FInv s) : FInv s' := by
  induction es generalizing s with
  | nil => simp only [run] at h; injection h with h; subst h; exact hi
  | cons e es ih =>
    simp only [run] at h
    split at h
    · rename_i s1 hs; exact ih s1 h (step_inv s s1 e hs hi)
    · cases h

/-- **consumer_interceptors_once**: in every accepted event sequence the interceptor chain is applied at most
    once to a message, every delivered message has been through it, and no message is delivered twice -/
theorem consumer_interceptors_once (es : List Ev) (s : St) (h : run {} es = .ok s) :
    s.iceptLog.Nodup ∧ s.delivered.Nodup ∧ ∀ o ∈ s.delivered, o ∈ s.iceptLog := by
  have hi := run_inv {} s es h init_inv
  exact ⟨hi.icept_nodup, hi.deliv_nodup, hi.deliv_sub⟩

/-- a delivery is accepted only for the message that was intercepted immediately before it -/
theorem deliver_follows_icept (s s' : St) (off : Int) (h : step s (.deliver off) = .ok s') : s.cur = some off := by
  simp only [step] at h
  split at h; · cases h
  split at h; · cases h
  rename_i h1 h2
  simpa using h2

/-- the broker worker is released exactly once per parsed response: never twice, and a response that is no
    longer being fed has been acknowledged -/
theorem one_ack_per_response (es : List Ev) (s : St) (h : run {} es = .ok s) :
    s.acks ≤ s.responses ∧ (s.open_ = false → s.acks = s.responses) := by
  have hi := run_inv {} s es h init_inv
  refine ⟨hi.acks_le, ?_⟩
  intro ho
  have := hi.acks_eq
  simp only [ho, Bool.false_eq_true, false_and, ↓reduceIte, Nat.add_zero] at this
  exact this

/-- nothing is fed after the feeder closed its channels -/
theorem nothing_after_closed (s s' : St) (e : Ev) (hc : s.closed = true) (hi : FInv s) (h : step s e = .ok s') : False := by
  have hop := hi.closed_idle hc
  cases e <;> simp only [step, hc, hop] at h <;> (repeat' split at h) <;> first | (cases h; done) | simp_all

/-! non-vacuity: a response of three messages, the reader stalls on the second one, the slow path drains the rest;
    every message intercepted exactly once -/
example : (run {} [.parsed 3, .icept 10, .deliver 10, .icept 11, .ack 2, .deliver 11, .icept 12, .deliver 12, .resubscribe,
                   .parsed 0, .ack 0, .closed]).toOption.map
          (fun s => (s.iceptLog, s.delivered, s.acks, s.responses)) = some ([12, 11, 10], [12, 11, 10], 2, 2) := by decide
/-- … re-applying the chain to the blocked message (the pinned-tree defect, fixed) is not accepted -/
example : (run {} [.parsed 3, .icept 10, .deliver 10, .icept 11, .ack 2, .icept 11]).toOption.isNone = true := by decide

end Props.C18c
