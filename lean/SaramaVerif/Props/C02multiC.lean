/-
  C02 composition, stage C, the CONNECTION-ERROR answer at worker level, projected on `p`:
    * `own_retryMsgs_onPart` - the bounces of `p` in `retryMsgs` of a list are those of its messages of `p`.
    * `handle_proj_conn`     - handleError (`.connErr [] []`) over a set with several partitions against the
      one-partition worker on the projected set: same relabelled outcome-bearing actions of `p`, states related.
    * `resp_proj_conn`       - the whole `resp` arm (with `recheck_proj`).
    * `resp_P0_out_conn`     - on the one-partition worker the outcome-bearing actions are all of partition 0.
-/
import SaramaVerif.Props.C02multiX

set_option linter.unusedSimpArgs false
set_option linter.unusedVariables false

namespace Props.C02sys
open Model Model.Pipeline Model.PipelineN Model.BrokerProd Lemmas.C02sys

theorem own_retryMsgs_onPart (M : Nat) (p : Int) (l : List Pipeline.Tok) :
    (retryMsgs M l).filter (isOwn p) = retryMsgs M (onPart p l) := by
  induction l with
  | nil => rfl
  | cons t r ih =>
    have e : retryMsgs M (t :: r) = retryMsg M t :: retryMsgs M r := rfl
    rw [e, List.filter_cons]
    by_cases ht : t.part = p
    · have e1 : isOwn p (retryMsg M t) = true := ht ▸ isOwn_retryMsg M t
      have e2 : onPart p (t :: r) = t :: onPart p r := by simp [onPart, ht]
      rw [e1, e2, if_pos rfl, ih]; rfl
    · have e1 : isOwn p (retryMsg M t) = false := by
        unfold retryMsg; split <;> simp [isOwn, ht]
      have e2 : onPart p (t :: r) = onPart p r := by simp [onPart, ht]
      rw [e1, e2, ih]; simp

theorem handle_proj_conn (M : Nat) (b b1 : St) (sent : List Pipeline.Tok) (p : Int)
    (h1 : b1.closing = b.closing) (h2 : b1.cr = (projB p b).cr) (h3 : b1.buffer = projL p b.buffer)
    (h4 : b1.wait = projWait p b.wait) :
    (handle M b1 (projL p sent) (.connErr [] [])).2.filter (isOwn 0) =
      ((handle M b sent (.connErr [] [])).2.filter (isOwn p)).map relabA ∧
    (handle M b1 (projL p sent) (.connErr [] [])).1.closing = (handle M b sent (.connErr [] [])).1.closing ∧
    (handle M b1 (projL p sent) (.connErr [] [])).1.cr = (projB p (handle M b sent (.connErr [] [])).1).cr ∧
    (handle M b1 (projL p sent) (.connErr [] [])).1.buffer = projL p (handle M b sent (.connErr [] [])).1.buffer ∧
    (handle M b1 (projL p sent) (.connErr [] [])).1.wait = projWait p (handle M b sent (.connErr [] [])).1.wait ∧
    (handle M b1 (projL p sent) (.connErr [] [])).1.sets = b1.sets ∧
    (handle M b sent (.connErr [] [])).1.sets = b.sets := by
  have hP : P0 (projL p sent) := P0_projL p sent
  have hPb : P0 b1.buffer := h3 ▸ P0_projL p b.buffer
  have e1 : handle M b1 (projL p sent) (.connErr [] []) = ({ b1 with closing := true, buffer := [] },
      Action.closing :: Action.abandon :: retryMsgs M (projL p sent) ++ retryMsgs M b1.buffer) :=
    handle_conn M b1 hP hPb true
  rw [e1]
  simp only [handle, List.nil_append]
  refine ⟨?_, (by first | trivial | rfl), h2, (by first | trivial | rfl), h4, (by first | trivial | rfl),
    (by first | trivial | rfl)⟩
  have eL : (Action.closing :: Action.abandon :: retryMsgs M (projL p sent) ++ retryMsgs M b1.buffer) =
      [Action.closing, Action.abandon] ++ (retryMsgs M (projL p sent) ++ retryMsgs M b1.buffer) := by simp
  have eR : (Action.closing :: Action.abandon :: retryMsgs M (arrange (partsOf sent) sent) ++
      retryMsgs M (arrange (partsOf b.buffer) b.buffer)) =
      [Action.closing, Action.abandon] ++ (retryMsgs M (arrange (partsOf sent) sent) ++
      retryMsgs M (arrange (partsOf b.buffer) b.buffer)) := by simp
  have hd : ([Action.closing, Action.abandon] : List Action).filter (isOwn 0) = [] := by simp [isOwn]
  have hd' : ([Action.closing, Action.abandon] : List Action).filter (isOwn p) = [] := by simp [isOwn]
  rw [eL, eR, List.filter_append, List.filter_append, List.filter_append, List.filter_append, hd, hd',
    own_retryMsgs M _ hP, own_retryMsgs M _ hPb, own_retryMsgs_onPart, own_retryMsgs_onPart]
  have a1 := Props.C02bp.onPart_arrange_all p [] sent
  have a2 := Props.C02bp.onPart_arrange_all p [] b.buffer
  simp only [List.nil_append] at a1 a2
  rw [a1, a2, h3]
  simp [projL, retryMsgs_relab]

/-- **the `resp` arm with a connection-error answer, projected on `p`** -/
theorem resp_proj_conn (M : Nat) (b b1 : St) (sent : List Pipeline.Tok) (rest rest1 : List (List Pipeline.Tok))
    (st : Bool) (p : Int)
    (hs : b.sets = sent :: rest) (hs1 : b1.sets = projL p sent :: rest1)
    (h1 : b1.closing = b.closing) (h2 : b1.cr = (projB p b).cr) (h3 : b1.buffer = projL p b.buffer)
    (h4 : b1.wait = projWait p b.wait) :
    (resp M b1 (.connErr [] []) st).2.filter (isOwn 0) =
      ((resp M b (.connErr [] []) st).2.filter (isOwn p)).map relabA ∧
    (resp M b1 (.connErr [] []) st).1.closing = (resp M b (.connErr [] []) st).1.closing ∧
    (resp M b1 (.connErr [] []) st).1.cr = (projB p (resp M b (.connErr [] []) st).1).cr ∧
    (resp M b1 (.connErr [] []) st).1.buffer = projL p (resp M b (.connErr [] []) st).1.buffer ∧
    (resp M b1 (.connErr [] []) st).1.wait = projWait p (resp M b (.connErr [] []) st).1.wait ∧
    (resp M b1 (.connErr [] []) st).1.sets = rest1 ∧
    (resp M b (.connErr [] []) st).1.sets = rest := by
  obtain ⟨a0, a1, a2, a3, a4, a5, a6⟩ := handle_proj_conn M { b with sets := rest } { b1 with sets := rest1 } sent p
    h1 h2 h3 h4
  obtain ⟨r0, r1, r2, r3, r4, r5, r6⟩ := recheck_proj M _ _ _ _ st p a1 a2 a3 a4 a0
  simp only [resp, hs, hs1]
  exact ⟨r0, r1, r2, r3, r4, r5.trans a5, r6.trans a6⟩

theorem resp_P0_out_conn (M : Nat) (b1 : St) (sent1 : List Pipeline.Tok) (rest : List (List Pipeline.Tok))
    (st : Bool) (hs : b1.sets = sent1 :: rest) (hP : P0 sent1) (hb : P0 b1.buffer)
    (hw : ∀ t, b1.wait = some t → t.part = 0) :
    (resp M b1 (.connErr [] []) st).2.filter isOut = (resp M b1 (.connErr [] []) st).2.filter (isOwn 0) := by
  apply AllP0.filter
  simp only [resp, hs]
  have hh : handle M { b1 with sets := rest } sent1 (.connErr [] []) = _ := handle_conn M { b1 with sets := rest } hP hb true
  apply AllP0_recheck
  · rw [hh]
    exact AllP0.cons rfl (AllP0.cons rfl (AllP0.append (AllP0_retryMsgs M hP) (AllP0_retryMsgs M hb)))
  · intro t' ht'
    have : (handle M { b1 with sets := rest } sent1 (.connErr [] [])).1.wait = b1.wait :=
      (Props.C02bp.handle_frame M { b1 with sets := rest } sent1 (.connErr [] [])).2.1
    rw [this] at ht'
    exact hw t' ht'

end Props.C02sys
