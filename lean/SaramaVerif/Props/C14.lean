import SaramaVerif.Lemmas.C14Wire
import SaramaVerif.Lemmas.C14Fifo
import SaramaVerif.Lemmas.C14Recv
/-
  C14 — each broker call gets its own response or an error.

  All theorems quantify over every configuration (MaxOpenRequests ≥ 1, any MaxResponseSize, both variants of
  the write/enqueue order where stated), every first correlation id and EVERY event trace accepted by the
  model's `step` (any number of callers, any interleaving, any server behaviour incl. arbitrary bytes, close,
  silence/time-outs, and Close racing with calls): `Reach cfg c0 s`.
-/
namespace Props.C14
open Model.BrokerConn Lemmas.C14

/-! ### reachable states satisfy the invariants (induction over the event list) -/

private theorem step_cfg {s s' : State} {e : Event} (h : step s e = .ok s') :
    s'.cfg = s.cfg ∧ s'.cid0 = s.cid0 := by
  cases e <;> simp only [step] at h
  case sendBegin c hv ex => obtain ⟨_, ⟨_, rfl⟩ | ⟨_, rfl⟩⟩ := sendBegin_inv h <;> exact ⟨rfl, rfl⟩
  case write c => obtain ⟨_, _, _, ⟨_, _, rfl⟩ | ⟨_, rfl⟩⟩ := write_inv h <;> exact ⟨rfl, rfl⟩
  case writeFail c => obtain ⟨_, _, _, rfl⟩ := writeFail_inv h; exact ⟨rfl, rfl⟩
  case enqueue c => obtain ⟨_, _, _, _, rfl⟩ := enqueue_inv h; exact ⟨rfl, rfl⟩
  case recvDeq => obtain ⟨_, _, _, _, _, ⟨_, _, rfl⟩ | ⟨_, rfl⟩⟩ := recvDeq_inv h <;> exact ⟨rfl, rfl⟩
  case recvHeader => obtain ⟨_, _, _, ⟨_, _, rfl⟩ | ⟨_, _, rfl⟩⟩ := recvHeader_inv h <;> exact ⟨rfl, rfl⟩
  case recvBody => obtain ⟨_, _, _, _, _, rfl⟩ := recvBody_inv h; exact ⟨rfl, rfl⟩
  case recvEOF => obtain ⟨_, _, _, _, _, rfl⟩ := recvEOF_inv h; exact ⟨rfl, rfl⟩
  case recvTimeout => obtain ⟨_, _, _, _, rfl⟩ := recvTimeout_inv h; exact ⟨rfl, rfl⟩
  case srvBytes bs => obtain ⟨_, rfl⟩ := srvBytes_inv h; exact ⟨rfl, rfl⟩
  case srvClose => obtain ⟨_, rfl⟩ := srvClose_inv h; exact ⟨rfl, rfl⟩
  case closeBegin => obtain ⟨_, _, rfl⟩ := closeBegin_inv h; exact ⟨rfl, rfl⟩
  case recvExit => obtain ⟨_, _, _, _, rfl⟩ := recvExit_inv h; exact ⟨rfl, rfl⟩
  case closeEnd => obtain ⟨_, _, rfl⟩ := closeEnd_inv h; exact ⟨rfl, rfl⟩

/-- all invariants together -/
structure PInv (s : State) : Prop where
  a : InvA s
  b : InvB s
  c : InvC s

private theorem pinv_step {s s' : State} {e : Event} (h : step s e = .ok s') (I : PInv s) : PInv s' :=
  ⟨invA_step h I.a, invB_step h I.b, invC_step h I.c⟩

private theorem pinv_run (evs : List Event) : ∀ {s s' : State}, run s evs = .ok s' → PInv s →
    PInv s' ∧ s'.cfg = s.cfg ∧ s'.cid0 = s.cid0 := by
  induction evs with
  | nil =>
    intro s s' h I
    simp only [run, Except.ok.injEq] at h
    subst h; exact ⟨I, rfl, rfl⟩
  | cons e es ih =>
    intro s s' h I
    simp only [run] at h
    split at h
    · rename_i s1 hs1
      obtain ⟨I', hc, h0⟩ := ih h (pinv_step hs1 I)
      have := step_cfg hs1
      exact ⟨I', hc.trans this.1, h0.trans this.2⟩
    · cases h

/-- every reachable state satisfies all invariants -/
theorem reach_inv {cfg : Cfg} {c0 : Int} {s : State} (hm : 1 ≤ cfg.maxOpen) (hr : Reach cfg c0 s) :
    PInv s ∧ s.cfg = cfg ∧ s.cid0 = c0 := by
  obtain ⟨evs, h⟩ := hr
  exact pinv_run evs h ⟨invA_init cfg c0, invB_init cfg c0 hm, invC_init cfg c0⟩

/-! ### wire order = promise order -/

/-- The requests that expect a response appear on the wire in exactly the order in which their promises are
    completed / held by the receiver / queued / about to be queued by the lock holder; correlation ids on
    the wire are `c0, c0+1, …` (strictly increasing), so the k-th written request carries id `c0 + k`. -/
theorem wire_order_is_promise_order {cfg : Cfg} {c0 : Int} {s : State} (hm : 1 ≤ cfg.maxOpen)
    (hr : Reach cfg c0 s) :
    (s.wire.filter (·.2)).map (·.1) = s.done.map (·.p) ++ curList s ++ s.queue ++ holderWritten s ∧
    s.wire.map (·.1.cid) = (List.range s.wire.length).map (fun (i : Nat) => c0 + (i : Int)) ∧
    s.wire.Pairwise (fun a b => a.1.cid < b.1.cid) ∧
    s.nextCid = c0 + s.wire.length := by
  obtain ⟨I, _, h0⟩ := reach_inv hm hr
  refine ⟨?_, ?_, I.a.cid_sorted, ?_⟩
  · rw [I.a.wire_enq, I.b.fifo]
  · rw [← h0]; exact I.a.cid_exact
  · rw [← h0]; exact I.a.cid_next

example : ∃ s, Reach ⟨2, 1000, false⟩ 7 s ∧ s.wire.length = 2 ∧ s.queue.length = 1 ∧ (holderWritten s).length = 1 :=
  ⟨_, ⟨[.sendBegin 0 0 true, .write 0, .enqueue 0, .sendBegin 1 0 true, .write 1], rfl⟩, by decide⟩

/-! ### FIFO matching -/

/-- The completion log is: deliveries first, failures after; the frames of the delivered promises (raw header
    bytes ++ body), concatenated in completion order, are a prefix of the byte stream the server sent – the
    k-th promise was served from the k-th frame of the stream and from nothing else; every delivered record is
    well-formed (length and tag checks passed, header id = the promise's own id, body of the announced size);
    and while the connection is alive everything completed so far was delivered and the receiver consumed
    exactly those frames plus the header of the promise in its hand. -/
theorem fifo_matching {cfg : Cfg} {c0 : Int} {s : State} (hm : 1 ≤ cfg.maxOpen) (hr : Reach cfg c0 s) :
    s.done = s.done.filter isDeliv ++ s.done.filter (fun d => !isDeliv d) ∧
    goodBytes s <+: s.sent ∧
    (∀ d ∈ s.done, isDeliv d = true → WF cfg.maxResp d) ∧
    (s.dead = none → (∀ d ∈ s.done, isDeliv d = true) ∧ s.consumed = goodBytes s ++ curHdr s) := by
  obtain ⟨I, hc, _⟩ := reach_inv hm hr
  refine ⟨I.c.split, ?_, ?_, ?_⟩
  · rw [I.c.bytes]
    exact List.IsPrefix.trans I.c.good_pref (List.prefix_append _ _)
  · rw [← hc]; exact I.c.wf_done
  · intro hd; exact ⟨I.c.alive_all hd, I.c.alive_cons hd⟩

private theorem flatten_take_prefix {α : Type} (l : List (List α)) (n : Nat) :
    (l.take n).flatten <+: l.flatten := by
  conv => rhs; rw [← List.take_append_drop n l]
  rw [List.flatten_append]
  exact List.prefix_append _ _

/-- index form: if the k-th completed promise was delivered, then all earlier ones were delivered too, and the
    server's stream starts with the frames of promises 0..k-1 followed by the frame of promise k -/
theorem fifo_matching_kth {cfg : Cfg} {c0 : Int} {s : State} (hm : 1 ≤ cfg.maxOpen) (hr : Reach cfg c0 s)
    (k : Nat) (d : DoneRec) (hk : s.done[k]? = some d) (hd : isDeliv d = true) :
    (∀ j, j < k → ∀ d', s.done[j]? = some d' → isDeliv d' = true) ∧
    ((s.done.take k).map rawFrame).flatten ++ rawFrame d <+: s.sent := by
  obtain ⟨hsplit, hpre, _, _⟩ := fifo_matching hm hr
  -- k lies in the delivered part
  have hkG : k < (s.done.filter isDeliv).length := by
    apply Classical.byContradiction
    intro hn
    have hn' : (s.done.filter isDeliv).length ≤ k := by omega
    rw [hsplit, List.getElem?_append_right hn'] at hk
    have hmem := List.mem_of_getElem? hk
    simp only [List.mem_filter, Bool.not_eq_eq_eq_not, Bool.not_true] at hmem
    rw [hmem.2] at hd; cases hd
  have htake : ∀ n, n ≤ (s.done.filter isDeliv).length → s.done.take n = (s.done.filter isDeliv).take n := by
    intro n hn
    conv => lhs; rw [hsplit]
    exact List.take_append_of_le_length hn
  constructor
  · intro j hj d' hj'
    have hjG : j < (s.done.filter isDeliv).length := by omega
    rw [hsplit, List.getElem?_append_left hjG] at hj'
    have := List.mem_of_getElem? hj'
    exact (List.mem_filter.1 this).2
  · have h1 : s.done.take (k + 1) = s.done.take k ++ [d] := by
      rw [List.take_add_one, hk]; rfl
    have h2 : ((s.done.take k).map rawFrame).flatten ++ rawFrame d =
        (((s.done.filter isDeliv).map rawFrame).take (k + 1)).flatten := by
      rw [← List.map_take, ← htake (k + 1) (by omega), h1]
      simp
    rw [h2]
    exact List.IsPrefix.trans (flatten_take_prefix _ _) hpre

/-- strictly increasing ids along a list make the id a key -/
private theorem pairwise_cid_inj : ∀ (l : List Promise), l.Pairwise (fun a b => a.cid < b.cid) →
    ∀ a ∈ l, ∀ b ∈ l, a.cid = b.cid → a = b := by
  intro l hl
  induction hl with
  | nil => intro a ha; cases ha
  | cons hx _ ih =>
    intro a ha b hb hab
    simp only [List.mem_cons] at ha hb
    rcases ha with rfl | ha <;> rcases hb with rfl | hb
    · rfl
    · have := hx b hb; omega
    · have := hx a ha; omega
    · exact ih a ha b hb hab

/-- A caller never receives another caller's frame: the header of a delivered frame carries the correlation id
    of the promise it was delivered to, and no other promise of the connection has that id. -/
theorem no_foreign_frame {cfg : Cfg} {c0 : Int} {s : State} (hm : 1 ≤ cfg.maxOpen) (hr : Reach cfg c0 s)
    (d : DoneRec) (hd : d ∈ s.done) (hdl : isDeliv d = true) :
    be32 d.hdr 4 = d.p.cid ∧ ∀ q ∈ s.enq, q.cid = be32 d.hdr 4 → q = d.p := by
  obtain ⟨I, hc, _⟩ := reach_inv hm hr
  obtain ⟨len, hdec, _, _⟩ := I.c.wf_done d hd hdl
  have hid : be32 d.hdr 4 = d.p.cid := by
    unfold decodeHeader at hdec
    split at hdec
    · cases hdec
    · split at hdec
      · cases hdec
      · injection hdec with _ h2
  refine ⟨hid, ?_⟩
  intro q hq hqc
  have hsorted : s.enq.Pairwise (fun a b => a.cid < b.cid) := by
    have h1 : ((s.wire.filter (·.2)).map (·.1)).Pairwise (fun a b => a.cid < b.cid) := by
      rw [List.pairwise_map]
      exact List.Pairwise.sublist List.filter_sublist I.a.cid_sorted
    rw [I.a.wire_enq] at h1
    exact (List.pairwise_append.1 h1).1
  have hdp : d.p ∈ s.enq := by
    rw [I.b.fifo]
    simp only [List.mem_append, List.mem_map]
    exact .inl (.inl ⟨d, hd, rfl⟩)
  exact pairwise_cid_inj _ hsorted q hq d.p hdp (by rw [hqc, hid])

/-! ### a mismatching correlation id is a connection fault -/

/-- If the header the receiver reads for the oldest promise decodes to a different correlation id, the
    promise is failed (nothing is delivered), and the connection is dead from then on. -/
theorem mismatch_is_fault (s : State) (p : Promise) (len cid : Int)
    (hcur : s.cur = some (p, .header)) (hav : headerLength p.hv ≤ s.inbuf.length)
    (hdec : decodeHeader s.cfg.maxResp p.hv (s.inbuf.take (headerLength p.hv)) = .ok len cid)
    (hne : cid ≠ p.cid) :
    ∃ s', step s .recvHeader = .ok s' ∧ s'.dead = some .cidMismatch ∧ s'.cur = none ∧
      s'.done = s.done ++ [⟨p, .failed .cidMismatch, s.inbuf.take (headerLength p.hv)⟩] := by
  refine ⟨failCur (afterTake s (headerLength p.hv)) p (s.inbuf.take (headerLength p.hv)) .cidMismatch, ?_, ?_⟩
  · simp only [step, stepRecvHeader, hcur]
    rw [if_neg (by omega), hdec]
    simp only [hne, ne_eq, not_false_eq_true, ↓reduceIte, afterTake]
    simp [failCur]
  · simp [failCur, afterTake]

/-- … and a matching, valid header is NOT a fault: the receiver goes on to read exactly the announced body
    (the "iff" of FIFO matching, step level) -/
theorem match_is_not_fault (s : State) (p : Promise) (len : Int)
    (hcur : s.cur = some (p, .header)) (hav : headerLength p.hv ≤ s.inbuf.length)
    (hdec : decodeHeader s.cfg.maxResp p.hv (s.inbuf.take (headerLength p.hv)) = .ok len p.cid) :
    ∃ s1, step s .recvHeader = .ok s1 ∧ s1.dead = s.dead ∧ s1.done = s.done ∧
      s1.cur = some (p, .body (s.inbuf.take (headerLength p.hv)) (bodyLength len (headerLength p.hv))) ∧
      s1.inbuf = s.inbuf.drop (headerLength p.hv) := by
  refine ⟨{ afterTake s (headerLength p.hv) with
            cur := some (p, .body (s.inbuf.take (headerLength p.hv)) (bodyLength len (headerLength p.hv))) },
    ?_, rfl, rfl, rfl, rfl⟩
  simp only [step, stepRecvHeader, hcur]
  rw [if_neg (by omega), hdec]
  simp only [ne_eq, not_true_eq_false, ↓reduceIte, afterTake]

/-- once the announced number of body bytes is there, they are delivered to the promise whose header was read,
    and to nobody else -/
theorem body_is_delivered (s : State) (p : Promise) (hdr : Bytes) (need : Nat)
    (hcur : s.cur = some (p, .body hdr need)) (hav : need ≤ s.inbuf.length) :
    ∃ s2, step s .recvBody = .ok s2 ∧ s2.dead = s.dead ∧ s2.cur = none ∧
      s2.done = s.done ++ [⟨p, .delivered (s.inbuf.take need), hdr⟩] := by
  refine ⟨{ s with inbuf := s.inbuf.drop need, consumed := s.consumed ++ s.inbuf.take need, cur := none,
                   done := s.done ++ [⟨p, .delivered (s.inbuf.take need), hdr⟩] }, ?_, rfl, rfl, rfl⟩
  simp only [step, stepRecvBody, hcur]
  rw [if_neg (by omega)]

/-- conversely, on every reachable state: whatever was delivered had the promise's own id in its header and a
    valid length -/
theorem delivered_ids_match {cfg : Cfg} {c0 : Int} {s : State} (hm : 1 ≤ cfg.maxOpen) (hr : Reach cfg c0 s)
    (d : DoneRec) (hd : d ∈ s.done) (body : Bytes) (hout : d.out = .delivered body) :
    be32 d.hdr 4 = d.p.cid ∧ lengthBad cfg.maxResp (be32 d.hdr 0) = false ∧
      body.length = bodyLength (be32 d.hdr 0) (headerLength d.p.hv) := by
  have hdl : isDeliv d = true := by simp [isDeliv, hout]
  obtain ⟨_, _, hwf, _⟩ := fifo_matching hm hr
  obtain ⟨len, hdec, _, hbl⟩ := hwf d hd hdl
  unfold decodeHeader at hdec
  split at hdec
  · cases hdec
  · rename_i hlb
    split at hdec
    · cases hdec
    · injection hdec with h1 h2
      refine ⟨h2, by simpa using hlb, ?_⟩
      simp only [bodyOf, hout] at hbl
      rw [hbl, h1]

/-! ### the dead state is sticky -/

/-- One step from a dead state: `dead` keeps its value, the receiver consumes no more bytes, and whatever
    is completed by the step is failed with that very error. -/
theorem dead_is_sticky_step {s s' : State} {e : Event} {x : Err} (I : PInv s) (hd : s.dead = some x)
    (h : step s e = .ok s') :
    s'.dead = some x ∧ s'.consumed = s.consumed ∧
    ∃ extra, s'.done = s.done ++ extra ∧ ∀ d ∈ extra, d.out = .failed x := by
  have hcur : s.cur = none := I.c.dead_cur x hd
  cases e <;> simp only [step] at h
  case sendBegin c hv ex =>
    obtain ⟨_, ⟨_, rfl⟩ | ⟨_, rfl⟩⟩ := sendBegin_inv h <;> exact ⟨hd, rfl, [], by simp, by simp⟩
  case write c =>
    obtain ⟨_, _, _, ⟨_, _, rfl⟩ | ⟨_, rfl⟩⟩ := write_inv h <;> exact ⟨hd, rfl, [], by simp, by simp⟩
  case writeFail c => obtain ⟨_, _, _, rfl⟩ := writeFail_inv h; exact ⟨hd, rfl, [], by simp, by simp⟩
  case enqueue c => obtain ⟨_, _, _, _, rfl⟩ := enqueue_inv h; exact ⟨hd, rfl, [], by simp, by simp⟩
  case recvDeq =>
    obtain ⟨_, _, p, rest, _, ⟨e', he', rfl⟩ | ⟨hn, rfl⟩⟩ := recvDeq_inv h
    · have : e' = x := by rw [hd] at he'; injection he' with he'; exact he'.symm
      subst this
      exact ⟨hd, rfl, [⟨p, .failed e', []⟩], rfl, by simp⟩
    · rw [hd] at hn; cases hn
  case recvHeader => obtain ⟨p, hc, _⟩ := recvHeader_inv h; rw [hcur] at hc; cases hc
  case recvBody => obtain ⟨p, _, _, hc, _⟩ := recvBody_inv h; rw [hcur] at hc; cases hc
  case recvEOF => obtain ⟨p, _, hc, _⟩ := recvEOF_inv h; rw [hcur] at hc; cases hc
  case recvTimeout => obtain ⟨p, _, hc, _⟩ := recvTimeout_inv h; rw [hcur] at hc; cases hc
  case srvBytes bs => obtain ⟨_, rfl⟩ := srvBytes_inv h; exact ⟨hd, rfl, [], by simp, by simp⟩
  case srvClose => obtain ⟨_, rfl⟩ := srvClose_inv h; exact ⟨hd, rfl, [], by simp, by simp⟩
  case closeBegin => obtain ⟨_, _, rfl⟩ := closeBegin_inv h; exact ⟨hd, rfl, [], by simp, by simp⟩
  case recvExit => obtain ⟨_, _, _, _, rfl⟩ := recvExit_inv h; exact ⟨hd, rfl, [], by simp, by simp⟩
  case closeEnd => obtain ⟨_, _, rfl⟩ := closeEnd_inv h; exact ⟨hd, rfl, [], by simp, by simp⟩

private theorem dead_run (evs : List Event) : ∀ {s s' : State} {x : Err}, PInv s → s.dead = some x →
    run s evs = .ok s' →
    s'.dead = some x ∧ s'.consumed = s.consumed ∧
    ∃ extra, s'.done = s.done ++ extra ∧ ∀ d ∈ extra, d.out = .failed x := by
  induction evs with
  | nil =>
    intro s s' x _ hd h
    simp only [run, Except.ok.injEq] at h
    subst h; exact ⟨hd, rfl, [], by simp, by simp⟩
  | cons e es ih =>
    intro s s' x I hd h
    simp only [run] at h
    split at h
    · rename_i s1 hs1
      obtain ⟨hd1, hc1, ex1, hdone1, hall1⟩ := dead_is_sticky_step I hd hs1
      obtain ⟨hd2, hc2, ex2, hdone2, hall2⟩ := ih (pinv_step hs1 I) hd1 h
      refine ⟨hd2, hc2.trans hc1, ex1 ++ ex2, by rw [hdone2, hdone1, List.append_assoc], ?_⟩
      intro d hdm
      rcases List.mem_append.1 hdm with hdm | hdm
      · exact hall1 d hdm
      · exact hall2 d hdm
    · cases h

/-- After the first read / header / id / body failure (`dead = some x`), along EVERY continuation of the trace:
    `dead` never changes, the receiver never consumes another byte, and every promise completed from then on –
    outstanding at the time of the fault or issued later – is failed with the error of the first fault;
    nothing is delivered any more. -/
theorem dead_is_sticky {cfg : Cfg} {c0 : Int} {s s' : State} {x : Err} (hm : 1 ≤ cfg.maxOpen)
    (hr : Reach cfg c0 s) (hd : s.dead = some x) (evs : List Event) (h : run s evs = .ok s') :
    s'.dead = some x ∧ s'.consumed = s.consumed ∧
    ∃ extra, s'.done = s.done ++ extra ∧ ∀ d ∈ extra, d.out = .failed x :=
  dead_run evs (reach_inv hm hr).1 hd h

/-- all failures on a connection carry one and the same error: the one stored in `dead` -/
theorem failures_carry_first_error {cfg : Cfg} {c0 : Int} {s : State} (hm : 1 ≤ cfg.maxOpen)
    (hr : Reach cfg c0 s) (d : DoneRec) (hd : d ∈ s.done) (e : Err) (he : d.out = .failed e) :
    s.dead = some e :=
  (reach_inv hm hr).1.c.fail_err d hd e he

/-- Nothing is left pending once the receiver has run: when the receiver is idle with an empty FIFO and no
    caller is between write and enqueue, every request written with a response expected has been completed
    (delivered or failed), in wire order. -/
theorem none_pending {cfg : Cfg} {c0 : Int} {s : State} (hm : 1 ≤ cfg.maxOpen) (hr : Reach cfg c0 s)
    (hcur : s.cur = none) (hq : s.queue = []) (hh : holderWritten s = []) :
    (s.wire.filter (·.2)).map (·.1) = s.done.map (·.p) := by
  obtain ⟨h1, _⟩ := wire_order_is_promise_order hm hr
  rw [h1, hq, hh]
  simp [curList, hcur]

private theorem run_append (a b : List Event) : ∀ (s : State),
    run s (a ++ b) = match run s a with | .ok s1 => run s1 b | .error r => .error r := by
  induction a with
  | nil => intro s; rfl
  | cons e es ih =>
    intro s
    simp only [List.cons_append, run]
    split
    · exact ih _
    · rfl

private theorem drain (n : Nat) : ∀ (s : State) (x : Err), PInv s → s.dead = some x → s.queue.length = n →
    ∃ s', run s (List.replicate n .recvDeq) = .ok s' ∧ PInv s' ∧ s'.dead = some x ∧ s'.queue = [] ∧
      s'.cur = none ∧ s'.holder = s.holder := by
  induction n with
  | zero =>
    intro s x I hd hq
    exact ⟨s, rfl, I, hd, List.length_eq_zero_iff.1 hq, I.c.dead_cur x hd, rfl⟩
  | succ n ih =>
    intro s x I hd hq
    have hcur := I.c.dead_cur x hd
    match hqq : s.queue with
    | [] => rw [hqq] at hq; cases hq
    | p :: rest =>
      have hx : s.recvExited = false := by
        cases hxx : s.recvExited
        · rfl
        · have := (I.b.exited hxx).2.1; rw [hqq] at this; cases this
      have hstep : step s .recvDeq = .ok { s with queue := rest, done := s.done ++ [⟨p, .failed x, []⟩] } := by
        simp [step, stepRecvDeq, hx, hcur, hqq, hd]
      have I1 := pinv_step hstep I
      obtain ⟨s', hrun, I', hd', hq', hc', hh'⟩ := ih _ x I1 hd (by simp [hqq] at hq; simpa using hq)
      refine ⟨s', ?_, I', hd', hq', hc', hh'⟩
      simp only [List.replicate_succ, run, hstep]
      exact hrun

/-- After a fault the receiver never blocks again: from every reachable dead state there is a continuation
    consisting only of receiver dequeues and the lock holder's enqueue (no byte from the server, no time-out
    needed) after which no promise is outstanding – every outstanding call gets its error. -/
theorem dead_drains {cfg : Cfg} {c0 : Int} {s : State} {x : Err} (hm : 1 ≤ cfg.maxOpen)
    (hr : Reach cfg c0 s) (hd : s.dead = some x) :
    ∃ evs s', run s evs = .ok s' ∧ (∀ e ∈ evs, e = .recvDeq ∨ ∃ c, e = .enqueue c) ∧
      s'.cur = none ∧ s'.queue = [] ∧ holderWritten s' = [] ∧ s'.dead = some x := by
  obtain ⟨I, _, _⟩ := reach_inv hm hr
  obtain ⟨s1, hrun1, I1, hd1, hq1, hc1, hh1⟩ := drain _ s x I hd rfl
  match hh : s.holder with
  | .written p =>
    have hstep : step s1 (.enqueue p.call) =
        .ok { s1 with queue := s1.queue ++ [p], enq := s1.enq ++ [p], holder := .free } := by
      simp [step, stepEnqueue, hh1, hh, hq1, hc1]
    have I2 := pinv_step hstep I1
    obtain ⟨s3, hrun3, _, hd3, hq3, hc3, hh3⟩ := drain 1 _ x I2 hd1 (by simp [hq1])
    refine ⟨List.replicate s.queue.length .recvDeq ++ ([.enqueue p.call] ++ List.replicate 1 .recvDeq), s3,
      ?_, ?_, hc3, hq3, by simp [holderWritten, hh3], hd3⟩
    · rw [run_append, hrun1]
      simp only [List.singleton_append, run, hstep]
      exact hrun3
    · intro e he
      simp only [List.mem_append, List.mem_replicate, List.mem_singleton] at he
      rcases he with ⟨_, rfl⟩ | rfl | ⟨_, rfl⟩
      · exact .inl rfl
      · exact .inr ⟨_, rfl⟩
      · exact .inl rfl
  | .free | .closing | .sending _ _ _ =>
    refine ⟨List.replicate s.queue.length .recvDeq, s1, hrun1, ?_, hc1, hq1, by simp [holderWritten, hh1, hh], hd1⟩
    intro e he
    exact .inl (List.mem_replicate.1 he).2

/-! ### requests on the wire -/

/-- repaired order (`reservePromiseBeforeWrite`): never more than MaxOpenRequests requests await a response -/
theorem on_wire_bound {cfg : Cfg} {c0 : Int} {s : State} (hm : 1 ≤ cfg.maxOpen) (hres : cfg.reserve = true)
    (hr : Reach cfg c0 s) : onWire s ≤ cfg.maxOpen := by
  obtain ⟨I, hc, _⟩ := reach_inv hm hr
  have hb := I.b.bound
  have hbr := I.b.bound_res (by rw [hc]; exact hres)
  rw [hc] at hb hbr
  unfold onWire holderWritten
  match hh : s.holder with
  | .written p => have := hbr p hh; simp only [List.length_singleton]; omega
  | .free | .closing | .sending _ _ _ => simp only [List.length_nil]; omega

/-- pinned order (request written before the blocking enqueue): the bound that holds is MaxOpenRequests + 1;
    the extra hypothesis that restores the stated bound is that no caller sits between write and enqueue -/
theorem on_wire_bound_partial {cfg : Cfg} {c0 : Int} {s : State} (hm : 1 ≤ cfg.maxOpen)
    (hr : Reach cfg c0 s) :
    onWire s ≤ cfg.maxOpen + 1 ∧ (holderWritten s = [] → onWire s ≤ cfg.maxOpen) := by
  obtain ⟨I, hc, _⟩ := reach_inv hm hr
  have hb := I.b.bound
  rw [hc] at hb
  constructor
  · unfold onWire holderWritten
    split <;> simp <;> omega
  · intro hh
    unfold onWire
    rw [hh]; simp only [List.length_nil]; omega

/-- the trace that puts MaxOpenRequests + 1 requests on the wire under the pinned order (MaxOpenRequests = 1):
    call 0 is written and handed to the receiver, call 1 takes the lock and writes before it blocks -/
def overTrace1 : List Event :=
  [.sendBegin 0 0 true, .write 0, .enqueue 0, .recvDeq, .sendBegin 1 0 true, .write 1]

/-- … and for MaxOpenRequests = 2 -/
def overTrace2 : List Event :=
  [.sendBegin 0 0 true, .write 0, .enqueue 0, .recvDeq, .sendBegin 1 0 true, .write 1, .enqueue 1,
   .sendBegin 2 0 true, .write 2]

def onWireAfter (cfg : Cfg) (evs : List Event) : Option Nat :=
  match run (init cfg 0) evs with | .ok s => some (onWire s) | .error _ => none

/-- kernel-checked counter-example: the pinned order reaches MaxOpenRequests + 1 -/
theorem on_wire_defect_reaches_plus_one :
    onWireAfter ⟨1, 1000, false⟩ overTrace1 = some 2 ∧ onWireAfter ⟨2, 1000, false⟩ overTrace2 = some 3 := by
  decide

/-- the repaired order refuses exactly the last write of these traces -/
theorem on_wire_fixed_rejects :
    onWireAfter ⟨1, 1000, true⟩ overTrace1 = none ∧ onWireAfter ⟨2, 1000, true⟩ overTrace2 = none ∧
    onWireAfter ⟨1, 1000, true⟩ overTrace1.dropLast = some 1 := by
  decide

/-! ### non-vacuity: concrete traces -/

/-- frame with length 6 (= id + 2 body bytes), correlation id `c`, body aa bb -/
def frame6 (c : UInt8) : Bytes := [0, 0, 0, 6, 0, 0, 0, c, 0xaa, 0xbb]

/-- two concurrent callers on MaxOpenRequests = 2; the server answers both in order, in three chunks -/
def goodTrace : List Event :=
  [.sendBegin 10 0 true, .write 10, .enqueue 10, .recvDeq, .sendBegin 11 0 true, .write 11, .enqueue 11,
   .srvBytes [0, 0, 0, 6, 0], .srvBytes [0, 0, 7, 0xaa, 0xbb, 0, 0], .recvHeader, .recvBody,
   .srvBytes [0, 6, 0, 0, 0, 8, 0xaa, 0xbb], .recvDeq, .recvHeader, .recvBody]

def outcomes (cfg : Cfg) (c0 : Int) (evs : List Event) : Option (List (Nat × Outcome)) :=
  match run (init cfg c0) evs with | .ok s => some (s.done.map fun d => (d.p.call, d.out)) | .error _ => none

example : outcomes ⟨2, 1000, false⟩ 7 goodTrace =
    some [(10, .delivered [0xaa, 0xbb]), (11, .delivered [0xaa, 0xbb])] := by decide

/-- the server answers the second request first: the first caller gets an error (not the other's frame), the
    second caller gets the same error although a frame with its id is in the stream -/
def swappedTrace : List Event :=
  [.sendBegin 10 0 true, .write 10, .enqueue 10, .recvDeq, .sendBegin 11 0 true, .write 11, .enqueue 11,
   .srvBytes (frame6 8 ++ frame6 7), .recvHeader, .recvDeq]

example : outcomes ⟨2, 1000, false⟩ 7 swappedTrace =
    some [(10, .failed .cidMismatch), (11, .failed .cidMismatch)] := by decide

/-- oversize length, truncated body + close, silence: each is a fault of its own kind -/
example : outcomes ⟨1, 1000, false⟩ 7
    [.sendBegin 1 0 true, .write 1, .enqueue 1, .recvDeq, .srvBytes [0, 0, 4, 0, 0, 0, 0, 7], .recvHeader] =
    some [(1, .failed .badLength)] := by decide
example : outcomes ⟨1, 1000, false⟩ 7
    [.sendBegin 1 0 true, .write 1, .enqueue 1, .recvDeq, .srvBytes [0, 0, 0, 6, 0, 0, 0, 7, 0xaa], .recvHeader,
     .srvClose, .recvEOF] = some [(1, .failed .io)] := by decide
example : outcomes ⟨1, 1000, false⟩ 7
    [.sendBegin 1 0 true, .write 1, .enqueue 1, .recvDeq, .srvBytes [0, 0, 0], .recvTimeout,
     .closeBegin, .recvExit, .closeEnd, .sendBegin 2 0 true] = some [(1, .failed .timeout)] := by decide

end Props.C14
